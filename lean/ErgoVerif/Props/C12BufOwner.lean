import ErgoVerif.Generated.BufOwner
/-!
# C12 — the frame buffer is handed to `send` for good

A frame builder of net/proto/connection.go (`SendPID`, `CallPID`, `SendEvent`, …) takes a `*lib.Buffer` from the pool,
writes the frame into it and calls `c.send(buf, …)`. `send` owns the buffer from there: it releases it after the bytes
are written, and when it compresses it releases the original and goes on with the compressed copy — so after `send` has
returned, with or without an error, the builder's `buf` may already be back in the pool and in the hands of another
sender. The frame theorems of `Props/C12` (what is written is what the layout table says) therefore need the hand-off
to be final. This theorem is over the regenerated list of `c.send` calls: every one of them is the operand of a
`return`, so no statement of a builder runs after it (a release "on the error path" there would put a buffer into the
pool twice — the ownership argument is the one of `Props/C02Owner`, with buffers for message objects).
-/
namespace ErgoVerif.Props.C12BufOwner
open ErgoVerif.Gen.BufOwner

theorem C12_code_shape_send_handoff :
    0 < sendCalls ∧ sendCallsReturned = sendCalls ∧ notReturned = [] := by decide

end ErgoVerif.Props.C12BufOwner

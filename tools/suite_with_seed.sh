#!/bin/bash
# run1.sh <seed id>: the pinned suite (guard off) on /repo HEAD + seeded/<id>/patch.diff; up to 3 runs, union of passes
export GOFLAGS=-mod=mod GOPROXY=off GOSUMDB=off GOTOOLCHAIN=local
id=$1; W=/var/tmp/seedsuite/w_$id; O=/var/tmp/seedsuite/$id
rm -rf $W; git -C /repo worktree add -q --detach $W HEAD || { echo "$id worktree-failed" > $O.res; exit; }
cd $W
if ! git apply /verif/seeded/$id/patch.diff 2>/dev/null; then echo "$id patch-does-not-apply-to-HEAD" > $O.res; cd /; git -C /repo worktree remove --force $W; exit; fi
if ! go build ./... 2>$O.build; then echo "$id build-failed" > $O.res; cd /; git -C /repo worktree remove --force $W; exit; fi
: > $O.json
for run in 1 2 3; do
  unshare -rn bash -c "ip link set lo up; go test -mod=mod -json -vet=off -count=1 -timeout 4m ./... 2>/dev/null" >> $O.json
  python3 - $O.json > $O.cmp <<'PY'
import json,sys
b=json.load(open('/root/.vp/BASELINE.json')); stable=set(b['stable_pass'])
passed=set(); failed={}
for line in open(sys.argv[1]):
    if not line.startswith('{'): continue
    try: e=json.loads(line)
    except Exception: continue
    if e.get('Test'):
        k=e['Package']+'::'+e['Test']
        if e.get('Action')=='pass': passed.add(k)
        elif e.get('Action')=='fail': failed[k]=1
missing=sorted(stable-passed)
print(len(missing))
for m in missing: print("  ",m,"fail" if m in failed else "no-result")
PY
  n=$(head -1 $O.cmp)
  [ "$n" = "0" ] && break
done
echo "$id stable-not-passed=$n runs=$run" > $O.res
cd /; git -C /repo worktree remove --force $W; rm -f $O.json

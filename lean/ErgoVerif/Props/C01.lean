import ErgoVerif.Lemmas.ProcAll
import ErgoVerif.Generated.States
/-!
# C01 — serial execution: one callback of a process at a time

Model: `Model/Proc.lean` (state-word protocol of run / Kill / waitResponse / spawn / send sites,
unbounded senders and killers by counting abstraction). `kz` is regenerated from `Kill`'s switch.
-/
namespace ErgoVerif.Props.C01
open ErgoVerif ErgoVerif.Proc

/-- the code as it is now -/
abbrev kz : Bool := Gen.States.killZombeeReturns

/-- the state codes the model's `St` stands for are the ones in gen/process.go -/
theorem C01_state_codes :
    stCode .init = Gen.States.procInit ∧ stCode .sleep = Gen.States.procSleep ∧
    stCode .running = Gen.States.procRunning ∧ stCode .wait = Gen.States.procWait ∧
    stCode .terminated = Gen.States.procTerminated ∧ stCode .zombee = Gen.States.procZombee := by decide

/-- the distinct power-of-two codes make the `(state & mask) == state` tests of isAlive & co. exact membership tests -/
theorem C01_alive_mask : ∀ s : St, alive s = ((stCode s &&& (1 ||| 2 ||| 4 ||| 8)) == stCode s) := by
  intro s; cases s <;> decide

/-- **Serial execution.** In every reachable configuration — any number of concurrent senders, wakers and
killers, any interleaving of their atomic steps with the runner's — at most one thread executes a callback
of the process (ProcessInit, ProcessRun = message/request/event/exit/inspect handling, ProcessTerminate). -/
theorem C01_serial (c : Cfg) (h : Reach kz c) : c.inCallbacks ≤ 1 := by
  have hk : kz = true := by decide
  rw [hk] at h
  have hi := (reach_inv h).1
  unfold Proc.Inv at hi
  unfold Cfg.inCallbacks
  obtain ⟨st, i0, i1, s0, s1, s2, w0, w1, r0, rb, r3, r4, r5, re, rp, rk, k0, k1, k2, fE, fP, fK, tm,
    mail, handled, accepted, refused, terms, why, sawErr, sawPanic, sawKill, initFailed⟩ := c
  cases st <;> simp at hi ⊢ <;> omega

/-- at most one thread holds the right to run callbacks ("owner token"), whatever the state word -/
theorem C01_single_owner (c : Cfg) (h : Reach kz c) :
    c.w1 + c.r0 + c.rb + c.r3 + c.re + c.rp + c.rk + c.k2 ≤ 1 := by
  have hk : kz = true := by decide
  rw [hk] at h
  have hi := (reach_inv h).1
  unfold Proc.Inv at hi
  obtain ⟨st, i0, i1, s0, s1, s2, w0, w1, r0, rb, r3, r4, r5, re, rp, rk, k0, k1, k2, fE, fP, fK, tm,
    mail, handled, accepted, refused, terms, why, sawErr, sawPanic, sawKill, initFailed⟩ := c
  cases st <;> simp at hi ⊢ <;> omega

/-- the shape of `Kill`'s switch the model's `kSwapZ` mirrors: return at once on running / wait (/ zombee),
    store terminated back on terminated, finalise otherwise -/
theorem C01_kill_switch :
    Gen.States.killReturnsOn = [Gen.States.procRunning, Gen.States.procWait, Gen.States.procZombee] ∧
    Gen.States.killStoresTerminatedOn = [Gen.States.procTerminated] := by decide

/-- The code before the repair of defect D7 (no `case Zombee` in `Kill`): two Kills on a running process
let ProcessTerminate start while the message handler is still executing. 10 atomic steps. -/
theorem C01_D7_before_fix : ∃ ls c, run (step false) init ls = some c ∧ c.inCallbacks = 2 :=
  ⟨[.initOk, .storeSleep, .runCas, .runGo, .start, .newKiller, .newKiller, .kSwapZ, .kSwapZ, .kSwapT, .termEnterK],
    _, rfl, by decide⟩

/-- non-vacuity: a reachable configuration with a callback executing and senders, wakers, killers in flight -/
example : ∃ c, Reach true c ∧ c.inCallbacks = 1 ∧ c.s2 = 1 ∧ c.k0 = 1 :=
  ⟨_, ⟨[.initOk, .storeSleep, .runCas, .runGo, .start, .newSender, .aliveChk, .push, .newKiller], rfl⟩, by decide⟩

end ErgoVerif.Props.C01

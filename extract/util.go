package main

import (
	"fmt"
	"go/ast"
	"go/constant"
	"go/parser"
	"go/token"
	"path/filepath"
	"strconv"
	"strings"
)

var fset = token.NewFileSet()
var fileCache = map[string]*ast.File{}

func parseFile(rel string) (*ast.File, error) {
	if f, ok := fileCache[rel]; ok {
		return f, nil
	}
	f, err := parser.ParseFile(fset, filepath.Join(repo, rel), nil, parser.ParseComments)
	if err != nil {
		return nil, err
	}
	fileCache[rel] = f
	return f, nil
}

// funcDecl finds a function or method (recv = "" for functions, else the receiver type name without *).
func funcDecl(f *ast.File, recv, name string) *ast.FuncDecl {
	for _, d := range f.Decls {
		fd, ok := d.(*ast.FuncDecl)
		if !ok || fd.Name.Name != name {
			continue
		}
		if recv == "" && fd.Recv == nil {
			return fd
		}
		if recv != "" && fd.Recv != nil && len(fd.Recv.List) == 1 {
			t := fd.Recv.List[0].Type
			if s, ok := t.(*ast.StarExpr); ok {
				t = s.X
			}
			if id, ok := t.(*ast.Ident); ok && id.Name == recv {
				return fd
			}
		}
	}
	return nil
}

// constInts collects integer constants of a file: explicit literal values and iota sequences.
func constInts(f *ast.File) map[string]int64 {
	res := map[string]int64{}
	for _, d := range f.Decls {
		gd, ok := d.(*ast.GenDecl)
		if !ok || gd.Tok != token.CONST {
			continue
		}
		var lastExpr ast.Expr
		for i, s := range gd.Specs {
			vs := s.(*ast.ValueSpec)
			var e ast.Expr
			if len(vs.Values) > 0 {
				e = vs.Values[0]
				lastExpr = e
			} else {
				e = lastExpr
			}
			if e == nil {
				continue
			}
			if v, ok := evalConst(e, int64(i), res); ok {
				for _, n := range vs.Names {
					res[n.Name] = v
				}
			}
		}
	}
	return res
}

func evalConst(e ast.Expr, iota int64, env map[string]int64) (int64, bool) {
	switch x := e.(type) {
	case *ast.BasicLit:
		if x.Kind == token.INT || x.Kind == token.CHAR {
			v := constant.MakeFromLiteral(x.Value, x.Kind, 0)
			if i, ok := constant.Int64Val(constant.ToInt(v)); ok {
				return i, true
			}
		}
	case *ast.Ident:
		if x.Name == "iota" {
			return iota, true
		}
		if v, ok := env[x.Name]; ok {
			return v, true
		}
	case *ast.ParenExpr:
		return evalConst(x.X, iota, env)
	case *ast.CallExpr: // conversion T(x)
		if len(x.Args) == 1 {
			return evalConst(x.Args[0], iota, env)
		}
	case *ast.BinaryExpr:
		a, ok1 := evalConst(x.X, iota, env)
		b, ok2 := evalConst(x.Y, iota, env)
		if !ok1 || !ok2 {
			return 0, false
		}
		switch x.Op {
		case token.ADD:
			return a + b, true
		case token.SUB:
			return a - b, true
		case token.MUL:
			return a * b, true
		case token.SHL:
			return a << uint(b), true
		case token.SHR:
			return a >> uint(b), true
		case token.OR:
			return a | b, true
		case token.AND:
			return a & b, true
		case token.QUO:
			if b != 0 {
				return a / b, true
			}
		case token.REM:
			if b != 0 {
				return a % b, true
			}
		}
	case *ast.UnaryExpr:
		if a, ok := evalConst(x.X, iota, env); ok {
			switch x.Op {
			case token.SUB:
				return -a, true
			case token.ADD:
				return a, true
			}
		}
	}
	return 0, false
}

// selName returns "X.Y" for selector expressions and "Y" for identifiers, stripping conversions like int32(...)
func selName(e ast.Expr) string {
	switch x := e.(type) {
	case *ast.Ident:
		return x.Name
	case *ast.SelectorExpr:
		return selName(x.X) + "." + x.Sel.Name
	case *ast.CallExpr:
		if len(x.Args) == 1 {
			return selName(x.Args[0])
		}
	case *ast.ParenExpr:
		return selName(x.X)
	case *ast.StarExpr:
		return selName(x.X)
	case *ast.UnaryExpr:
		return selName(x.X)
	}
	return ""
}

// callsTo reports whether the statements contain a call whose function name ends with the given suffix.
func callsTo(n ast.Node, suffix string) bool {
	found := false
	ast.Inspect(n, func(m ast.Node) bool {
		if c, ok := m.(*ast.CallExpr); ok {
			if strings.HasSuffix(selName(c.Fun), suffix) {
				found = true
			}
		}
		return !found
	})
	return found
}

func leanBool(b bool) string { return strconv.FormatBool(b) }

func leanNatList(xs []int64) string {
	var p []string
	for _, x := range xs {
		p = append(p, fmt.Sprint(x))
	}
	return "[" + strings.Join(p, ", ") + "]"
}

import ErgoVerif.Drive.Util
import ErgoVerif.Model.Handshake
import ErgoVerif.Model.CookieSel
import ErgoVerif.Generated.Acceptor
namespace ErgoVerif.Drive.Handshake
open ErgoVerif.Drive ErgoVerif.Handshake

/- term syntax:  atom := N<nat> | C<nat> | H(<atom>:<atom>:…)     field := <atom>:<atom>:…
   messages:     hello,<salt>,<digest>   join,<node>,<id>,<salt>,<digest>
                 intro,<name>,<creation>,<flags>,<max>,<version>,<digest>   accept,<id>,<pool>,<digest>   other
   message lists are joined with '|' ("-" = empty) -/

mutual
partial def showAtom : Atom → String
  | .nonce n => s!"N{n}"
  | .cookie c => s!"C{c}"
  | .hash as => "H(" ++ ":".intercalate (showAtoms as) ++ ")"
partial def showAtoms : Atoms → List String
  | .nil => []
  | .cons a as => showAtom a :: showAtoms as
end

def showField (f : Field) : String := ":".intercalate (f.map showAtom)

def showMsg : Msg → String
  | .hello s d => s!"hello,{showField s},{showField d}"
  | .join n c s d => s!"join,{n},{showField c},{showField s},{showField d}"
  | .intro i d => s!"intro,{i.name},{i.creation},{i.flags},{i.maxSize},{i.version},{showField d}"
  | .accept i p d => s!"accept,{showField i},{p},{showField d}"
  | .other => "other"

def showMsgs (ms : List Msg) : String := if ms.isEmpty then "-" else "|".intercalate (ms.map showMsg)

def showErr : Err → String
  | .read => "read" | .malformed => "malformed" | .digest => "digest" | .sameName => "samename"

def showRes : Except Err Result → String
  | .error e => s!"err:{showErr e}"
  | .ok r => s!"ok,{showField r.connId},{r.peer},{r.peerCreation},{r.peerFlags},{r.peerMaxSize},{r.peerVersion},{r.nodeFlags},{r.nodeMaxSize}"

/-- atoms separated by ':' up to a closing ')' or the end; returns the atoms and the rest -/
partial def parseAtoms (cs : List Char) : Option (List Atom × List Char) :=
  let rec num (cs : List Char) (acc : Nat) (any : Bool) : Option (Nat × List Char) :=
    match cs with
    | c :: r => if c.isDigit then num r (acc * 10 + (c.toNat - '0'.toNat)) true else if any then some (acc, cs) else none
    | [] => if any then some (acc, []) else none
  let atom (cs : List Char) : Option (Atom × List Char) :=
    match cs with
    | 'N' :: r => (num r 0 false).map fun (n, r) => (Atom.nonce n, r)
    | 'C' :: r => (num r 0 false).map fun (n, r) => (Atom.cookie n, r)
    | 'H' :: '(' :: r =>
      match parseAtoms r with
      | some (as, ')' :: r') => some (H as, r')
      | _ => none
    | _ => none
  match atom cs with
  | none => none
  | some (a, ':' :: r) =>
    match parseAtoms r with
    | some (as, r') => some (a :: as, r')
    | none => none
  | some (a, r) => some ([a], r)

def parseField? (s : String) : Option Field :=
  match parseAtoms s.toList with
  | some (f, []) => some f
  | _ => none

def parseMsg? (s : String) : Option Msg :=
  match s.splitOn "," with
  | ["other"] => some .other
  | ["hello", a, b] => do some (.hello (← parseField? a) (← parseField? b))
  | ["join", n, a, b, c] => do some (.join (← n.toNat?) (← parseField? a) (← parseField? b) (← parseField? c))
  | ["intro", n, cr, fl, mx, v, d] =>
    do some (.intro ⟨← n.toNat?, ← cr.toNat?, ← fl.toNat?, ← mx.toNat?, ← v.toNat?⟩ (← parseField? d))
  | ["accept", i, p, d] => do some (.accept (← parseField? i) (← p.toNat?) (← parseField? d))
  | _ => none

def parseMsgs? (s : String) : Option (List Msg) :=
  if s = "-" then some [] else (s.splitOn "|").mapM parseMsg?

/-- `name,creation,flags,max,version,cookie` -/
def parseCfg? (s : String) : Option Cfg :=
  match s.splitOn "," with
  | [n, cr, fl, mx, v, c] =>
    do some { info := ⟨← n.toNat?, ← cr.toNat?, ← fl.toNat?, ← mx.toNat?, ← v.toNat?⟩, cookie := .cookie (← c.toNat?) }
  | _ => none

/-- lines:
  `honest <cfgI> <cfgA>`            → `<resI> <resA> <toA> <toI>`   (salts N1 / N2, connection id N3)
  `accept <cfgA> <inbox>`           → `<res> <sent>`                 (salt N2, id N3)
  `start <cfgI> <inbox>`            → `<res> <sent>`                 (salt N1)
  `join <cfgJ> <idfield> <inbox>`   → `<res> <sent>`                 (salt N1)
  `hjoin <cfgJ> <cfgA> <idfield>`   → `<resJ> <resA> <toA> <toI>`
  `cookie <node> <acceptorOpt> <routeOpt>` → `<acceptor effective> <route effective>` -/
def line (s : String) : String :=
  match words s with
  | ["honest", a, b] => match parseCfg? a, parseCfg? b with
    | some cI, some cA =>
      let r := honest cI cA (.nonce 1) (.nonce 2) (.nonce 3)
      s!"{showRes r.resI} {showRes r.resA} {showMsgs r.toA} {showMsgs r.toI}"
    | _, _ => "bad-op"
  | ["accept", a, ms] => match parseCfg? a, parseMsgs? ms with
    | some c, some ms =>
      let r := accept c (.nonce 2) (.nonce 3) ms
      s!"{showRes r.res} {showMsgs r.sent}"
    | _, _ => "bad-op"
  | ["start", a, ms] => match parseCfg? a, parseMsgs? ms with
    | some c, some ms =>
      let r := start c (.nonce 1) ms
      s!"{showRes r.res} {showMsgs r.sent}"
    | _, _ => "bad-op"
  | ["join", a, idf, ms] => match parseCfg? a, parseField? idf, parseMsgs? ms with
    | some c, some idf, some ms =>
      let r := join c (.nonce 1) idf ms
      s!"{showRes r.res} {showMsgs r.sent}"
    | _, _, _ => "bad-op"
  | ["hjoin", a, b, idf] => match parseCfg? a, parseCfg? b, parseField? idf with
    | some cJ, some cA, some idf =>
      let r := honestJoin cJ cA (.nonce 1) (.nonce 2) (.nonce 3) idf
      s!"{showRes r.resI} {showRes r.resA} {showMsgs r.toA} {showMsgs r.toI}"
    | _, _, _ => "bad-op"
  | ["accset", n, a, cs] => match n.toNat?, a.toNat?, parseNatList? cs with
    | some n, some a, some cs =>
      let st := cs.foldl CookieSel.setCookie (CookieSel.startAcc n a)
      s!"{CookieSel.handshakeCookie true n st} {st.field}"   -- the RULE (a later connection uses the cookie set last), whatever shape the code has
    | _, _, _ => "bad-op"
  | ["cookie", n, a, r] => match n.toNat?, a.toNat?, r.toNat? with
    | some n, some a, some r => s!"{CookieSel.acceptorCookie n a} {CookieSel.routeCookie n r}"
    | _, _, _ => "bad-op"
  | _ => "bad-op"

def main (h : IO.FS.Stream) : IO Unit := loopPure h line

end ErgoVerif.Drive.Handshake

package main

// Generated/Edt.lean: the EDF tag bytes (net/edf/edf.go const block) and the numeric limits that the
// encoder/decoder compare lengths and ids against (net/edf/encode.go, decode.go, register.go).
// Only values are extracted (go/constant evaluation of the right-hand sides), never syntax shapes.

import (
	"fmt"
	"go/ast"
	"go/constant"
	"go/parser"
	"go/token"
	"math"
	"path/filepath"
	"sort"
	"strings"
)

func init() {
	generators = append(generators, generator{name: "Edt", run: genEdt, fallback: edtFallback})
}

// edtEvalConst evaluates literals, byte(x)/uint16(x)/int(x) conversions, math.MaxXxx selectors and + - of those.
func edtEvalConst(e ast.Expr) (constant.Value, bool) {
	switch x := e.(type) {
	case *ast.BasicLit:
		v := constant.MakeFromLiteral(x.Value, x.Kind, 0)
		return v, v.Kind() != constant.Unknown
	case *ast.ParenExpr:
		return edtEvalConst(x.X)
	case *ast.CallExpr:
		if id, ok := x.Fun.(*ast.Ident); ok && len(x.Args) == 1 {
			switch id.Name {
			case "byte", "uint8", "uint16", "uint32", "uint64", "int", "int64", "uint":
				return edtEvalConst(x.Args[0])
			}
		}
	case *ast.SelectorExpr:
		if id, ok := x.X.(*ast.Ident); ok && id.Name == "math" {
			m := map[string]uint64{"MaxUint8": math.MaxUint8, "MaxUint16": math.MaxUint16, "MaxUint32": math.MaxUint32,
				"MaxInt8": math.MaxInt8, "MaxInt16": math.MaxInt16, "MaxInt32": math.MaxInt32}
			if v, ok := m[x.Sel.Name]; ok {
				return constant.MakeUint64(v), true
			}
		}
	case *ast.BinaryExpr:
		a, ok1 := edtEvalConst(x.X)
		b, ok2 := edtEvalConst(x.Y)
		if ok1 && ok2 && (x.Op == token.ADD || x.Op == token.SUB) {
			return constant.BinaryOp(a, x.Op, b), true
		}
	}
	return nil, false
}

// findCmp returns the constant c of the first comparison `<lhs> <op> c` inside function fn of the file
// (lhs is matched on its printed identifier / len(identifier) form).
func findCmp(f *ast.File, fn, lhs string, op token.Token) (uint64, error) {
	var res uint64
	found := false
	for _, d := range f.Decls {
		fd, ok := d.(*ast.FuncDecl)
		if !ok || fd.Name.Name != fn || fd.Body == nil {
			continue
		}
		ast.Inspect(fd.Body, func(n ast.Node) bool {
			if found {
				return false
			}
			be, ok := n.(*ast.BinaryExpr)
			if !ok || be.Op != op {
				return true
			}
			if exprName(be.X) != lhs {
				return true
			}
			if v, ok := edtEvalConst(be.Y); ok {
				if u, ok := constant.Uint64Val(constant.ToInt(v)); ok {
					res, found = u, true
				}
			}
			return true
		})
	}
	if !found {
		return 0, fmt.Errorf("comparison %s %s <const> not found in %s", lhs, op, fn)
	}
	return res, nil
}

func exprName(e ast.Expr) string {
	switch x := e.(type) {
	case *ast.Ident:
		return x.Name
	case *ast.CallExpr:
		if id, ok := x.Fun.(*ast.Ident); ok && len(x.Args) == 1 {
			return id.Name + "(" + exprName(x.Args[0]) + ")"
		}
	case *ast.SelectorExpr:
		return exprName(x.X) + "." + x.Sel.Name
	}
	return "?"
}

func genEdt() (string, error) {
	fset := token.NewFileSet()
	parse := func(name string) (*ast.File, error) {
		return parser.ParseFile(fset, filepath.Join(repo, "net", "edf", name), nil, 0)
	}
	f, err := parse("edf.go")
	if err != nil {
		return "", err
	}
	tags := map[string]uint64{}
	for _, d := range f.Decls {
		gd, ok := d.(*ast.GenDecl)
		if !ok || gd.Tok != token.CONST {
			continue
		}
		for _, s := range gd.Specs {
			vs := s.(*ast.ValueSpec)
			for i, n := range vs.Names {
				if !strings.HasPrefix(n.Name, "edt") || i >= len(vs.Values) {
					continue
				}
				v, ok := edtEvalConst(vs.Values[i])
				if !ok {
					return "", fmt.Errorf("cannot evaluate %s", n.Name)
				}
				u, ok := constant.Uint64Val(constant.ToInt(v))
				if !ok || u > 255 {
					return "", fmt.Errorf("%s is not a byte", n.Name)
				}
				tags[n.Name] = u
			}
		}
	}
	need := []string{"edtType", "edtReg", "edtAny", "edtAtom", "edtString", "edtBinary", "edtFloat32", "edtFloat64", "edtBool",
		"edtInt8", "edtInt16", "edtInt32", "edtInt64", "edtInt", "edtUint8", "edtUint16", "edtUint32", "edtUint64", "edtUint",
		"edtError", "edtSlice", "edtArray", "edtMap", "edtPID", "edtProcessID", "edtAlias", "edtEvent", "edtRef", "edtTime", "edtNil"}
	for _, n := range need {
		if _, ok := tags[n]; !ok {
			return "", fmt.Errorf("tag %s not found in net/edf/edf.go", n)
		}
	}
	enc, err := parse("encode.go")
	if err != nil {
		return "", err
	}
	dec, err := parse("decode.go")
	if err != nil {
		return "", err
	}
	reg, err := parse("register.go")
	if err != nil {
		return "", err
	}
	type lim struct {
		name string
		f    *ast.File
		fn   string
		lhs  string
		op   token.Token
	}
	lims := []lim{
		{"limAtomEnc", enc, "encodeAtom", "len(atom)", token.GTR},
		{"limAtomPidEnc", enc, "encodePID", "len(pid.Node)", token.GTR},
		{"limStringEnc", enc, "encodeString", "lenString", token.GTR},
		{"limBinaryEnc", enc, "encodeBinary", "lenBinary", token.GTR},
		{"limErrorEnc", enc, "encodeError", "lenErr", token.GTR},
		{"limErrIdEnc", enc, "encodeError", "id", token.GTR},
		{"limAtomIdEnc", enc, "writeAtom", "id", token.GTR},
		{"limAtomIdDec", dec, "readAtom", "id", token.GTR},
		{"limErrIdDec", dec, "decodeError", "id", token.GTR},
		{"errNilId", dec, "decodeError", "id", token.EQL},
		{"limRegIdDec", dec, "getRegDecoder", "n", token.GTR},
		{"limRegNameEnc", reg, "regEncoder", "l", token.GTR},
	}
	var sb strings.Builder
	sb.WriteString("namespace ErgoVerif.Generated.Edt\n\n")
	names := make([]string, 0, len(tags))
	for n := range tags {
		names = append(names, n)
	}
	sort.Slice(names, func(i, j int) bool { return tags[names[i]] < tags[names[j]] })
	for _, n := range names {
		fmt.Fprintf(&sb, "def %s : UInt8 := %d\n", n, tags[n])
		facts.Values["Edt."+n] = tags[n]
	}
	sb.WriteString("\n/-- every tag constant of net/edf/edf.go -/\ndef allTags : List UInt8 := [")
	for i, n := range names {
		if i > 0 {
			sb.WriteString(", ")
		}
		sb.WriteString(n)
	}
	sb.WriteString("]\n\n")
	for _, l := range lims {
		v, err := findCmp(l.f, l.fn, l.lhs, l.op)
		if err != nil {
			return "", err
		}
		fmt.Fprintf(&sb, "/-- net/edf %s: `%s %s %d` -/\ndef %s : Nat := %d\n", l.fn, l.lhs, l.op, v, l.name, v)
		facts.Values["Edt."+l.name] = v
	}
	sb.WriteString("\nend ErgoVerif.Generated.Edt\n")
	return sb.String(), nil
}

const edtFallback = `namespace ErgoVerif.Generated.Edt
def edtType : UInt8 := 130
def edtReg : UInt8 := 131
def edtAny : UInt8 := 132
def edtAtom : UInt8 := 140
def edtString : UInt8 := 141
def edtBinary : UInt8 := 142
def edtFloat32 : UInt8 := 143
def edtFloat64 : UInt8 := 144
def edtBool : UInt8 := 145
def edtInt8 : UInt8 := 146
def edtInt16 : UInt8 := 147
def edtInt32 : UInt8 := 148
def edtInt64 : UInt8 := 149
def edtInt : UInt8 := 150
def edtUint8 : UInt8 := 151
def edtUint16 : UInt8 := 152
def edtUint32 : UInt8 := 153
def edtUint64 : UInt8 := 154
def edtUint : UInt8 := 155
def edtError : UInt8 := 156
def edtSlice : UInt8 := 157
def edtArray : UInt8 := 158
def edtMap : UInt8 := 159
def edtPID : UInt8 := 170
def edtProcessID : UInt8 := 171
def edtAlias : UInt8 := 172
def edtEvent : UInt8 := 173
def edtRef : UInt8 := 174
def edtTime : UInt8 := 175
def edtNil : UInt8 := 255
def allTags : List UInt8 := [edtType, edtReg, edtAny, edtAtom, edtString, edtBinary, edtFloat32, edtFloat64, edtBool, edtInt8, edtInt16, edtInt32, edtInt64, edtInt, edtUint8, edtUint16, edtUint32, edtUint64, edtUint, edtError, edtSlice, edtArray, edtMap, edtPID, edtProcessID, edtAlias, edtEvent, edtRef, edtTime, edtNil]
def limAtomEnc : Nat := 255
def limAtomPidEnc : Nat := 255
def limStringEnc : Nat := 65535
def limBinaryEnc : Nat := 4294967295
def limErrorEnc : Nat := 32767
def limErrIdEnc : Nat := 32767
def limAtomIdEnc : Nat := 255
def limAtomIdDec : Nat := 255
def limErrIdDec : Nat := 32767
def errNilId : Nat := 65535
def limRegIdDec : Nat := 4095
def limRegNameEnc : Nat := 4095
end ErgoVerif.Generated.Edt
`

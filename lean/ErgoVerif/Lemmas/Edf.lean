import ErgoVerif.Model.Edf
namespace ErgoVerif.Edf
open ErgoVerif.Generated.Edt

@[simp] theorem lenLt_eq : (bs : Bytes) → (n : Nat) → lenLt bs n = decide (bs.length < n)
  | _, 0 => by simp [lenLt]
  | [], n+1 => by simp [lenLt]
  | _ :: r, n+1 => by simp [lenLt, lenLt_eq r n]

theorem rd16_be16 (n : Nat) (h : n < 65536) (r : Bytes) : rd16 (be16 n ++ r) = some (n, r) := by
  simp only [be16, rd16, List.cons_append, List.nil_append]
  congr 2
  simp [UInt8.toNat_ofNat']
  omega

theorem rd32_be32 (n : Nat) (h : n < 4294967296) (r : Bytes) : rd32 (be32 n ++ r) = some (n, r) := by
  simp only [be32, rd32, List.cons_append, List.nil_append]
  congr 2
  simp [UInt8.toNat_ofNat']
  omega

@[simp] theorem be16_length (n : Nat) : (be16 n).length = 2 := rfl
@[simp] theorem be32_length (n : Nat) : (be32 n).length = 4 := rfl

/-- the decode caches invert the encode caches (what the handshake builds, see `Model/HsCache`) and ids are in
    the ranges the registration functions hand out -/
structure CachesConsistent (o : Opts) : Prop where
  atom : ∀ a id, o.atomId a = some id → limAtomIdEnc < id → id < 65536 ∧ o.atomOf id = some a
  reg : ∀ nm id, o.regId nm = some id → limRegIdDec < id ∧ id < 65536 ∧ o.regOf id = some nm
  err : ∀ k id, o.errId k = some id → limErrIdEnc < id → id < 65535 ∧ o.errOf id = some (.errSent k)

/-- the atom survives the two AtomMappings and the mapped atom is still an atom -/
def AtomOK (o : Opts) (a : Bytes) : Prop := (o.emap a).length ≤ 255 ∧ o.dmap (o.emap a) = a

theorem take_drop_append_left (a r : Bytes) : (a ++ r).take a.length = a ∧ (a ++ r).drop a.length = r := by
  simp

/-- what the receiver reads for an atom: the two AtomMappings applied in turn -/
theorem readAtom_writeAtom' (o : Opts) (hc : CachesConsistent o) (a r : Bytes) (hl : (o.emap a).length ≤ 255) :
    readAtom o (writeAtom o a ++ r) = .ok (o.dmap (o.emap a), r) := by
  unfold writeAtom
  simp only
  have plain : readAtom o ((be16 (o.emap a).length ++ o.emap a) ++ r) = .ok (o.dmap (o.emap a), r) := by
    unfold readAtom
    rw [List.append_assoc, rd16_be16 _ (by omega)]
    simp only [limAtomIdDec]
    have : ¬ (o.emap a).length > 255 := by omega
    simp [this]
  cases hid : o.atomId (o.emap a) with
  | none => simpa using plain
  | some id =>
    simp only
    split
    · rename_i hgt
      obtain ⟨h1, h2⟩ := hc.atom _ _ hid hgt
      unfold readAtom
      rw [rd16_be16 _ h1]
      simp only [limAtomIdDec, limAtomIdEnc] at hgt ⊢
      simp [hgt, h2]
    · simpa using plain

theorem readAtom_writeAtom (o : Opts) (hc : CachesConsistent o) (a r : Bytes) (ha : AtomOK o a) :
    readAtom o (writeAtom o a ++ r) = .ok (a, r) := by
  rw [readAtom_writeAtom' o hc a r ha.1, ha.2]

def LeafGood (o : Opts) : Ty → Val → Prop
  | .num p, .num bs => numCanon p bs = bs
  | .atom, .atom a => AtomOK o a
  | .idr _, .idr node _ => AtomOK o node
  | .idn _, .idn node name => AtomOK o node ∧ AtomOK o name
  | .error, .errSent k => ∃ id, o.errId k = some id ∧ limErrIdEnc < id
  | _, _ => True

theorem numCanon_length (p : Num) (bs : Bytes) : (numCanon p bs).length = bs.length := by
  unfold numCanon
  split
  · unfold quiet32
    split
    · split <;> simp
    · rfl
  · rfl

theorem decLeaf_encLeaf (o : Opts) (hc : CachesConsistent o) (t : Ty) (v : Val) (bs r : Bytes)
    (he : encLeaf o t v = some bs) (hg : LeafGood o t v) : decLeaf o t (bs ++ r) = .ok (v, r) := by
  cases t with
  | bool =>
    cases v <;> simp [encLeaf] at he
    rename_i b; subst he; cases b <;> simp [decLeaf]
  | num p =>
    cases v <;> simp [encLeaf] at he
    rename_i b
    obtain ⟨hw, rfl⟩ := he
    simp only [LeafGood] at hg
    rw [hg]
    simp [decLeaf, ← hw, hg]
  | str =>
    cases v <;> simp [encLeaf] at he
    rename_i s
    obtain ⟨hl, rfl⟩ := he
    simp only [limStringEnc] at hl
    simp [decLeaf, List.append_assoc, rd16_be16 _ (show s.length < 65536 by omega)]
  | bin =>
    cases v <;> simp [encLeaf] at he
    rename_i s
    obtain ⟨hl, rfl⟩ := he
    simp only [limBinaryEnc] at hl
    simp [decLeaf, List.append_assoc, rd32_be32 _ (show s.length < 4294967296 by omega)]
  | atom =>
    cases v <;> simp [encLeaf] at he
    rename_i a
    obtain ⟨hl, rfl⟩ := he
    simp only [LeafGood] at hg
    simp [decLeaf, readAtom_writeAtom o hc a r hg]
  | idr k =>
    cases v <;> simp [encLeaf] at he
    rename_i node raw
    obtain ⟨hl, hw, rfl⟩ := he
    simp only [LeafGood] at hg
    simp [decLeaf, List.append_assoc, readAtom_writeAtom o hc node _ hg, ← hw]
  | idn k =>
    cases v <;> simp [encLeaf] at he
    rename_i node name
    obtain ⟨hl, hl2, rfl⟩ := he
    simp only [LeafGood] at hg
    simp [decLeaf, List.append_assoc, readAtom_writeAtom o hc node _ hg.1, readAtom_writeAtom o hc name _ hg.2]
  | time =>
    cases v <;> simp [encLeaf] at he
    rename_i tb
    obtain ⟨hv, rfl⟩ := he
    have hlen : tb.length < 256 := by
      cases tb with
      | nil => simp [timeValid] at hv
      | cons x xs => simp [timeValid] at hv; rcases hv with ⟨_, h⟩ | ⟨_, h⟩ <;> simp [h]
    simp [decLeaf, UInt8.toNat_ofNat', Nat.mod_eq_of_lt hlen, hv]
  | error =>
    cases v <;> simp [encLeaf] at he
    · rename_i s
      obtain ⟨hl, rfl⟩ := he
      simp only [limErrorEnc] at hl
      have h1 : ¬ s.length = errNilId := by simp [errNilId]; omega
      have h2 : ¬ s.length > limErrIdDec := by simp [limErrIdDec]; omega
      simp [decLeaf, List.append_assoc, rd16_be16 _ (show s.length < 65536 by omega), h1, h2]
    · rename_i k
      simp only [LeafGood] at hg
      obtain ⟨id, hid, hgt⟩ := hg
      simp [hid, hgt] at he
      subst he
      obtain ⟨h1, h2⟩ := hc.err _ _ hid hgt
      have h3 : ¬ id = errNilId := by simp [errNilId]; omega
      have h4 : id > limErrIdDec := by simp [limErrIdDec, limErrIdEnc] at hgt ⊢; omega
      simp [decLeaf, rd16_be16 _ (show id < 65536 by omega), h3, h4, h2]
  | _ => cases v <;> simp [encLeaf] at he
end ErgoVerif.Edf

/-
Schedule / JobSchedule: the minutes of the window and what is listed for them.
-/
import ErgoVerif.Lemmas.CronSched
namespace ErgoVerif.CronSched
open ErgoVerif.Cron

/-- minute m (as an instant: m·60 s) lies in [since truncated to the minute, that + period) -/
def inWindow (sinceNs periodNs m : Int) : Prop :=
  sinceNs / minuteNs ≤ m ∧ m * minuteNs < (sinceNs / minuteNs) * minuteNs + periodNs

theorem mem_window (sinceNs periodNs m : Int) : m ∈ window sinceNs periodNs ↔ inWindow sinceNs periodNs m := by
  unfold window inWindow minuteNs
  simp only [List.mem_map, List.mem_range]
  constructor
  · rintro ⟨i, hi, rfl⟩
    split at hi
    · omega
    · simp only [Int.ofNat_eq_natCast]
      omega
  · rintro ⟨h1, h2⟩
    refine ⟨(m - sinceNs / 60000000000).toNat, ?_, ?_⟩
    · split
      · omega
      · omega
    · simp only [Int.ofNat_eq_natCast]
      omega

theorem window_sorted (sinceNs periodNs : Int) : (window sinceNs periodNs).Pairwise (· < ·) := by
  unfold window
  simp only
  rw [List.pairwise_map]
  have : (List.range (if periodNs ≤ 0 then 0 else ((periodNs + minuteNs - 1) / minuteNs).toNat)).Pairwise (· < ·) :=
    List.pairwise_lt_range
  exact this.imp (by intro a b h; simp only [Int.ofNat_eq_natCast]; omega)

/-- JobSchedule of a present job: exactly the minutes of the window at which its masks run, ascending -/
theorem jobSchedule_spec (civil : CivilFn) (s : Sched) (name : Nat) (sinceNs periodNs : Int) (l : List Int)
    (h : jobSchedule civil s name sinceNs periodNs = some l) :
    ∃ p, findJob s name = some p ∧ l.Pairwise (· < ·) ∧
      ∀ m, m ∈ l ↔ inWindow sinceNs periodNs m ∧ runsAt civil (s.objs p) m = true := by
  unfold jobSchedule at h
  simp only [Option.map_eq_some_iff] at h
  obtain ⟨p, hp, rfl⟩ := h
  refine ⟨p, hp, (window_sorted sinceNs periodNs).filter _, fun m => ?_⟩
  simp [List.mem_filter, mem_window]

theorem jobSchedule_none (civil : CivilFn) (s : Sched) (name : Nat) (sinceNs periodNs : Int) :
    jobSchedule civil s name sinceNs periodNs = none ↔ findJob s name = none := by
  simp [jobSchedule]

/-- Schedule: an entry for exactly the window minutes at which some present job runs, with exactly those jobs -/
theorem scheduleList_spec (civil : CivilFn) (s : Sched) (sinceNs periodNs : Int) (m : Int) (js : List Nat) :
    (m, js) ∈ scheduleList civil s sinceNs periodNs ↔
      inWindow sinceNs periodNs m ∧ js = s.jobs.filter (fun p => runsAt civil (s.objs p) m) ∧ js ≠ [] := by
  unfold scheduleList
  simp only [List.mem_filterMap, mem_window]
  constructor
  · rintro ⟨m', hw, h⟩
    split at h
    · cases h
    · rename_i hne
      simp only [Option.some.injEq, Prod.mk.injEq] at h
      obtain ⟨rfl, rfl⟩ := h
      exact ⟨hw, rfl, by simpa using hne⟩
  · rintro ⟨hw, rfl, hne⟩
    refine ⟨m, hw, ?_⟩
    have : (s.jobs.filter (fun p => runsAt civil (s.objs p) m)).isEmpty = false := by
      simpa using hne
    simp [this]

end ErgoVerif.CronSched

/-
C20 — Cron: jobs run exactly at the minutes their spec denotes.

Models: ErgoVerif.Model.Cron (node/cron_parse.go: parser, mask compiler, IsRunAt, denotation),
        ErgoVerif.Model.CronSched (node/cron.go: cron object, timer function, Schedule/JobSchedule).
The models follow the code after the `fix:` commits for D8, D9, D17 and the two timer-function repairs.
-/
import ErgoVerif.Lemmas.CronReach
import ErgoVerif.Lemmas.CronPrint
import ErgoVerif.Lemmas.CronFits
import ErgoVerif.Lemmas.CronGrammar
namespace ErgoVerif.Props.C20
open ErgoVerif.Cron ErgoVerif.CronSched ErgoVerif.Generated.Cron

/-! ## The matcher -/

/-- For every valid spec and every well-formed civil time the code's matcher on the compiled bit masks
    (cronSpecMask.IsRunAt ∘ cronParseSpecField) equals the crontab denotation: lists, ranges, steps, `L`, `wL`, `w#n`,
    and day-of-month OR day-of-week when both are restricted. -/
theorem C20_mask_eq (s : Spec) (hs : s.valid = true) (c : Civil) (hc : c.wf) :
    specIsRunAt (compileSpec s) c = s.denote c :=
  specIsRunAt_eq_denote s hs c hc

-- non-vacuity: a valid spec with every kind of option, a well-formed time, both outcomes
example : (⟨.list [.starStep 15, .num 59], .list [.rangeStep 0 23 2], .list [.num 1, .last], .star,
           .list [.nth 1 2, .lastW 7, .range 2 3]⟩ : Spec).valid = true := by decide
example : (⟨2026, 3, 31, 22, 45, 2⟩ : Civil).wf := by decide
example : specIsRunAt (compileSpec ⟨.list [.starStep 15], .star, .list [.last], .star, .list [.lastW 7]⟩) ⟨2026, 3, 31, 22, 45, 2⟩ = true := by decide
example : specIsRunAt (compileSpec ⟨.list [.starStep 15], .star, .list [.last], .star, .list [.lastW 7]⟩) ⟨2026, 3, 30, 22, 45, 1⟩ = false := by decide

/-- the compiled masks of a valid spec all carry a type cronMask.IsRunAt knows (its panicking `default:` is
    unreachable) and fit in 64 bits (the model's `Nat` bit operations are the code's uint64 operations) -/
theorem C20_masks_wellformed (s : Spec) (hs : s.valid = true) (m : Nat)
    (hm : m ∈ (compileSpec s).minHourMonth ∨ m ∈ (compileSpec s).day ∨ m ∈ (compileSpec s).weekDay) :
    maskKnown m = true ∧ m < 2 ^ 64 :=
  compileSpec_wellformed s hs m hm

/-! ## The parser -/

/-- parse ∘ print = id: every AST of the grammar, printed canonically, is accepted and yields the same AST -/
theorem C20_parse_print (s : Spec) (hs : s.valid = true) : parseSpec s.print = some s :=
  parseSpec_print s hs

/-- the ASTs the parser can produce are exactly the ASTs of the grammar -/
theorem C20_parse_grammar (s : Spec) : (∃ cs, parseSpec cs = some s) ↔ s.valid = true :=
  ⟨fun ⟨_, h⟩ => parseSpec_valid h, fun h => ⟨s.print, parseSpec_print s h⟩⟩

example : (⟨.list [.starStep 15, .num 59], .list [.rangeStep 0 23 2], .list [.num 1, .last], .star,
           .list [.nth 1 2, .lastW 7, .range 2 3]⟩ : Spec).print = "*/15,59 0-23/2 1,L * 1#2,7L,2-3".toList := by decide

/-- cronParseSpec accepts only texts that denote an AST of the grammar: values inside the field bounds, ascending
    ranges, steps 1..max, `L` only in the day field, `wL`/`w#n` only in the weekday field, no empty list, five fields -/
theorem C20_parse_sound (cs : List Char) (s : Spec) (h : parseSpec cs = some s) : s.valid = true :=
  parseSpec_valid h

/-- The parser accepts exactly the grammar, at the level of the text: `SpecText cs s` says that cs (after macro
    expansion) consists of five white-space separated fields, each `*` or a comma-separated list of option texts —
    decimal numerals (leading zeros allowed) `d`, `d-d`, `d-d/d`, `*/d`, `L`, `wL`, `w#n` — whose values form the valid
    AST s. Every other text is rejected. -/
theorem C20_parse (cs : List Char) (s : Spec) : parseSpec cs = some s ↔ SpecText cs s :=
  parseSpec_iff cs s

theorem C20_parse_rejects (cs : List Char) : parseSpec cs = none ↔ ¬ ∃ s, SpecText cs s := by
  constructor
  · intro h ⟨s, hs⟩
    rw [(parseSpec_iff cs s).mpr hs] at h; cases h
  · intro h
    cases hp : parseSpec cs with
    | none => rfl
    | some s => exact absurd ⟨s, (parseSpec_iff cs s).mp hp⟩ h

-- non-canonical text of the grammar (leading zeros, tabs, several blanks) and the AST it denotes
example : parseSpec " 007  *\t*/02 1-3 7L,01 ".toList =
    some ⟨.list [.num 7], .star, .list [.starStep 2], .list [.range 1 3], .list [.lastW 7, .num 1]⟩ := by decide

/-- the anchors the parser model was written against are the ones in the working tree -/
theorem C20_anchor_fields : fieldCount = 5 ∧
    (cronFieldMin.min, cronFieldMin.max) = (0, 59) ∧ (cronFieldHour.min, cronFieldHour.max) = (0, 23) ∧
    (cronFieldDay.min, cronFieldDay.max) = (1, 31) ∧ (cronFieldMonth.min, cronFieldMonth.max) = (1, 12) ∧
    (cronFieldWeekDay.min, cronFieldWeekDay.max) = (1, 7) := by decide

theorem C20_anchor_regexps :
    cronFieldMin.reg = "^(?:\\*$|\\*/\\d+|\\d+-\\d+|\\d+-\\d+/\\d+|\\d+)$" ∧
    cronFieldHour.reg = "^(?:\\*$|\\*/\\d+|\\d+-\\d+|\\d+-\\d+/\\d+|\\d+)$" ∧
    cronFieldDay.reg = "^(?:\\*$|\\*/\\d+|\\d+-\\d+|\\d+-\\d+/\\d+|L|\\d+)$" ∧
    cronFieldMonth.reg = "^(?:\\*$|\\*/\\d+|\\d+-\\d+|\\d+)$" ∧
    cronFieldWeekDay.reg = "^(?:\\*$|\\d+-\\d+|[1-7]L|\\d+|[1-7]#[1-5])$" := by decide

/-- the mask types are pairwise distinct nibbles at bit 60 and the field defaults carry their own type -/
theorem C20_anchor_masks :
    cronMaskType = 15 <<< 60 ∧ cronMaskTypeLastDM = 1 <<< 60 ∧ cronMaskTypeLastDW = 2 <<< 60 ∧ cronMaskTypeNDW = 3 <<< 60 ∧
    cronFieldMin.mask = 10 <<< 60 ∧ cronFieldHour.mask = 11 <<< 60 ∧ cronFieldDay.mask = 12 <<< 60 ∧
    cronFieldMonth.mask = 13 <<< 60 ∧ cronFieldWeekDay.mask = 14 <<< 60 ∧
    cronFieldMin.mask = cronMaskTypeMin ∧ cronFieldHour.mask = cronMaskTypeHour ∧ cronFieldDay.mask = cronMaskTypeDay ∧
    cronFieldMonth.mask = cronMaskTypeMonth ∧ cronFieldWeekDay.mask = cronMaskTypeWeekDay := by decide

/-- the macros are plain five-field specs -/
theorem C20_macros :
    (parseSpec "@hourly".toList).map Spec.print = some "1 * * * *".toList ∧
    (parseSpec "@daily".toList).map Spec.print = some "10 3 * * *".toList ∧
    (parseSpec "@monthly".toList).map Spec.print = some "20 4 1 * *".toList ∧
    (parseSpec "@weekly".toList).map Spec.print = some "30 5 * * 1".toList := by decide

/-- malformed classes are rejected (one representative each; the general statement is C20_parse_sound) -/
theorem C20_rejects :
    parseSpec "* * * *".toList = none ∧ parseSpec "* * * * * *".toList = none ∧ parseSpec "".toList = none ∧
    parseSpec "60 * * * *".toList = none ∧ parseSpec "* 24 * * *".toList = none ∧ parseSpec "* * 0 * *".toList = none ∧
    parseSpec "* * * 13 *".toList = none ∧ parseSpec "* * * * 0".toList = none ∧ parseSpec "* * * * 8".toList = none ∧
    parseSpec "5-4 * * * *".toList = none ∧ parseSpec "*/0 * * * *".toList = none ∧ parseSpec "*/60 * * * *".toList = none ∧
    parseSpec "*,1 * * * *".toList = none ∧ parseSpec "1,,2 * * * *".toList = none ∧ parseSpec "L * * * *".toList = none ∧
    parseSpec "* * * * L".toList = none ∧ parseSpec "* * 1L * *".toList = none ∧ parseSpec "* * * * 1#6".toList = none ∧
    parseSpec "* * * * 8L".toList = none ∧ parseSpec "* * * 1-6/2 *".toList = none ∧ parseSpec "* * * * */2".toList = none ∧
    parseSpec "@yearly".toList = none ∧ parseSpec "-1 * * * *".toList = none ∧ parseSpec "1x * * * *".toList = none := by decide

/-- any text that does not split into exactly five white-space separated fields (after macro expansion) is rejected -/
theorem C20_rejects_field_count (cs : List Char) (h : (fields (expandMacro cs)).length ≠ 5) : parseSpec cs = none := by
  unfold parseSpec
  split
  · rename_i heq
    rw [heq] at h
    simp at h
  · rfl

/-- an accepted text never has an out-of-range value, a descending range, a zero or oversized step, a misplaced
    `L`/`wL`/`w#n`, or an empty option: the contrapositive of C20_parse_sound, spelled out per option -/
theorem C20_accepted_options_valid (cs : List Char) (s : Spec) (h : parseSpec cs = some s) :
    (∀ i, s.minute = .list i → ∀ it ∈ i, it.valid .minute = true) ∧
    (∀ i, s.hour = .list i → ∀ it ∈ i, it.valid .hour = true) ∧
    (∀ i, s.day = .list i → ∀ it ∈ i, it.valid .day = true) ∧
    (∀ i, s.month = .list i → ∀ it ∈ i, it.valid .month = true) ∧
    (∀ i, s.wday = .list i → ∀ it ∈ i, it.valid .wday = true) := by
  have hv := parseSpec_valid h
  simp only [Spec.valid, Bool.and_eq_true] at hv
  obtain ⟨⟨⟨⟨h1, h2⟩, h3⟩, h4⟩, h5⟩ := hv
  refine ⟨?_, ?_, ?_, ?_, ?_⟩ <;> intro i hi it hit
  · rw [hi] at h1; simp only [Field.valid, Bool.and_eq_true, List.all_eq_true] at h1; exact h1.2 it hit
  · rw [hi] at h2; simp only [Field.valid, Bool.and_eq_true, List.all_eq_true] at h2; exact h2.2 it hit
  · rw [hi] at h3; simp only [Field.valid, Bool.and_eq_true, List.all_eq_true] at h3; exact h3.2 it hit
  · rw [hi] at h4; simp only [Field.valid, Bool.and_eq_true, List.all_eq_true] at h4; exact h4.2 it hit
  · rw [hi] at h5; simp only [Field.valid, Bool.and_eq_true, List.all_eq_true] at h5; exact h5.2 it hit

/-! ## The scheduler -/

section sched
variable (civil : CivilFn) (hciv : ∀ loc m, (civil loc m).wf)
include hciv

/-- Soundness, for every history of AddJob/RemoveJob/EnableJob/DisableJob calls and timer-function runs at any
    wall-clock minutes — the timer function taken as one step or as its two halves with calls landing between them:
    whatever the timer function runs at minute `now` is present, enabled and its spec denotes `now` in its location
    (so a disabled or removed job never runs and nothing runs at a minute outside its spec), and nothing runs twice. -/
theorem C20_fires_sound (s : Sched) (a : Bool) (hr : Reach civil s a) (now : Int) :
    (firedAt s now).Nodup ∧
    ∀ p ∈ firedAt s now, p ∈ s.jobs ∧ (s.objs p).disable = false ∧
      (s.objs p).spec.denote (civil (s.objs p).loc now) = true := by
  obtain ⟨h1, h2⟩ := fired_sound civil s (reach_inv civil hr) now
  refine ⟨h1, fun p hp => ?_⟩
  obtain ⟨x, y, z⟩ := h2 p hp
  exact ⟨x, y, by rw [← runsAt_eq_denote civil hr hciv p x now]; exact z⟩

/-- Exactness: when c.schedule has run since the spool was last drained (createCron, or a complete timer run, followed
    by any calls) and the timer function runs in the minute it was armed for (c.next), it runs job object p  ⇔
    p is present ∧ enabled ∧ p's spec denotes that minute in p's location. -/
theorem C20_fires (s : Sched) (hr : Reach civil s true) (p : Nat) :
    p ∈ firedAt s s.next ↔
      (p ∈ s.jobs ∧ (s.objs p).disable = false ∧ (s.objs p).spec.denote (civil (s.objs p).loc s.next) = true) := by
  rw [fired_iff civil s (reach_inv civil hr) (reach_armed civil hr) p]
  constructor
  · rintro ⟨b, c, d⟩
    exact ⟨b, c, by rw [← runsAt_eq_denote civil hr hciv p b s.next]; exact d⟩
  · rintro ⟨b, c, d⟩
    exact ⟨b, c, by rw [runsAt_eq_denote civil hr hciv p b s.next]; exact d⟩

/-- completeness, spelled out -/
theorem C20_fires_complete (s : Sched) (hr : Reach civil s true) (p : Nat) (hp : p ∈ s.jobs)
    (he : (s.objs p).disable = false) (hm : (s.objs p).spec.denote (civil (s.objs p).loc s.next) = true) :
    p ∈ firedAt s s.next :=
  (C20_fires civil hciv s hr p).mpr ⟨hp, he, hm⟩

/-- at most once per run of the timer function (hence per minute, the timer being re-armed for the next minute) -/
theorem C20_fires_once (s : Sched) (a : Bool) (hr : Reach civil s a) (now : Int) : (firedAt s now).Nodup :=
  (C20_fires_sound civil hciv s a hr now).1

/-- JobSchedule lists exactly the minutes of the window [since truncated to the minute, + period) that the job's spec
    denotes in the job's location, in ascending order; it fails exactly for unknown names -/
theorem C20_jobSchedule (s : Sched) (a : Bool) (hr : Reach civil s a) (name : Nat) (sinceNs periodNs : Int) :
    (jobSchedule civil s name sinceNs periodNs = none ↔ findJob s name = none) ∧
    ∀ l, jobSchedule civil s name sinceNs periodNs = some l →
      ∃ p, findJob s name = some p ∧ p ∈ s.jobs ∧ (s.objs p).name = name ∧ l.Pairwise (· < ·) ∧
        ∀ m, m ∈ l ↔ inWindow sinceNs periodNs m ∧ (s.objs p).spec.denote (civil (s.objs p).loc m) = true := by
  refine ⟨jobSchedule_none civil s name sinceNs periodNs, fun l hl => ?_⟩
  obtain ⟨p, hp, hs, hm⟩ := jobSchedule_spec civil s name sinceNs periodNs l hl
  obtain ⟨hpj, hpn⟩ := findJob_some hp
  refine ⟨p, hp, hpj, hpn, hs, fun m => ?_⟩
  rw [hm m, runsAt_eq_denote civil hr hciv p hpj m]

/-- Schedule has an entry for exactly the window minutes some present job's spec denotes, carrying exactly those jobs -/
theorem C20_schedule (s : Sched) (a : Bool) (hr : Reach civil s a) (sinceNs periodNs : Int) (m : Int) (js : List Nat) :
    (m, js) ∈ scheduleList civil s sinceNs periodNs ↔
      inWindow sinceNs periodNs m ∧
      js = s.jobs.filter (fun p => (s.objs p).spec.denote (civil (s.objs p).loc m)) ∧ js ≠ [] := by
  rw [scheduleList_spec]
  have : s.jobs.filter (fun p => runsAt civil (s.objs p) m) =
      s.jobs.filter (fun p => (s.objs p).spec.denote (civil (s.objs p).loc m)) := by
    apply List.filter_congr
    intro p hp
    exact runsAt_eq_denote civil hr hciv p hp m
  rw [this]

end sched

/-- a spec outside the grammar is refused by AddJob and leaves the object unchanged -/
theorem C20_add_rejects (civil : CivilFn) (s : Sched) (name : Nat) (text : List Char) (loc : Nat)
    (h : parseSpec text = none) :
    (step civil s (.add name text loc)).2 ≠ .ok ∧ (step civil s (.add name text loc)).1.jobs = s.jobs := by
  simp only [step, h]
  split <;> simp

/-- what the exactness hypothesis excludes: the timer function runs only entries that were pushed for the minute it
    runs in — a late or early run, or an entry pushed by a call that landed inside an earlier run, runs nothing wrong -/
theorem C20_runs_only_entries_of_this_minute (s : Sched) (now : Int) (p : Nat) (h : p ∈ firedAt s now) :
    (p, now) ∈ s.spool := by
  have := ((fireLoop_spec s.objs now s.spool [] List.nodup_nil).2 p).mp h
  simp only [List.not_mem_nil, false_or] at this
  exact this.1

-- non-vacuity of the scheduler theorems: a reachable state with a present, enabled, matching job that fires,
-- and one where a disabled job does not
def civUTC : CivilFn := fun _ m => ⟨2026, 1, 1, ((m / 60) % 24).toNat, (m % 60).toNat, 4⟩
def exState : Sched := (step civUTC (init 90) (.add 1 "30 1 * * *".toList 0)).1
example : Reach civUTC exState true := Reach.call _ _ _ (Reach.init 90) rfl
example : firedAt exState 90 = [0] := by decide
example : firedAt (step civUTC exState (.disable 1)).1 90 = [] := by decide
example : firedAt (step civUTC (step civUTC exState (.disable 1)).1 (.enable 1)).1 90 = [0] := by decide
example : firedAt exState 91 = [] := by decide
example : jobSchedule civUTC exState 1 (60 * minuteNs + 5) (61 * minuteNs) = some [90] := by decide
-- a call landing between the two halves of the timer function: the job added for the minute being processed
-- is spooled for that minute and does not run in the next one
def midState : Sched :=
  (step civUTC (step civUTC (step civUTC (init 90) (.tickDrain 90)).1 (.add 1 "30 1 * * *".toList 0)).1 (.tickSched 90)).1
example : Reach civUTC midState true :=
  Reach.tickSched _ _ _ (Reach.call _ _ _ (Reach.tickDrain _ _ _ (Reach.init 90)) rfl)
example : midState.spool = [(0, 90)] ∧ midState.next = 91 ∧ firedAt midState 91 = [] := by decide

/-! ## What the repaired defects looked like (statements about the unrepaired timer function, for the record) -/

/-- the spool loop before the repairs: every spooled, enabled entry runs, whatever minute it was pushed for -/
def fireLoopUnrepaired (objs : Nat → JobObj) (spool : List (Nat × Int)) : List Nat :=
  (spool.filter (fun e => (objs e.1).disable = false)).map (·.1)

/-- D17: with that loop "at most once per minute" fails — EnableJob on a spooled job makes it run twice -/
theorem C20_D17_unrepaired_counterexample :
    ∃ s, Reach civUTC s true ∧ ¬ (fireLoopUnrepaired s.objs s.spool).Nodup :=
  ⟨(step civUTC exState (.enable 1)).1, Reach.call _ _ _ (Reach.call _ _ _ (Reach.init 90) rfl) rfl, by decide⟩

/-- D26/D27: with that loop a run of the timer function executes entries pushed for another minute — after a late
    timer run, or after a call that landed between the two halves of an earlier run — at a minute the spec does not denote -/
theorem C20_D26_unrepaired_counterexample :
    ∃ s now p, Reach civUTC s true ∧ now = s.next ∧ p ∈ fireLoopUnrepaired s.objs s.spool ∧
      (s.objs p).spec.denote (civUTC (s.objs p).loc now) = false :=
  ⟨midState, 91, 0, Reach.tickSched _ _ _ (Reach.call _ _ _ (Reach.tickDrain _ _ _ (Reach.init 90)) rfl),
    by decide, by decide, by decide⟩

end ErgoVerif.Props.C20

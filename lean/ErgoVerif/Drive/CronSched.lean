import Std.Data.HashMap
import ErgoVerif.Drive.Util
import ErgoVerif.Drive.Cron
import ErgoVerif.Model.CronSched
namespace ErgoVerif.Drive.CronSched
open ErgoVerif.Drive ErgoVerif.Cron ErgoVerif.CronSched

structure St where
  table : Std.HashMap (Nat × Int) Civil
  s : Sched

def St.civil (st : St) : CivilFn := fun loc m => (st.table.get? (loc, m)).getD ⟨0, 0, 0, 0, 0, 99⟩

def St.has (st : St) (loc : Nat) (m : Int) : Bool := st.table.contains (loc, m)

def sortNat (l : List Nat) : List Nat := (l.toArray.qsort (· < ·)).toList

def names (s : Sched) (ps : List Nat) : List Nat := sortNat (ps.map fun p => (s.objs p).name)

def showOut (s : Sched) : Out → String
  | .ok => "ok"
  | .errName => "errName"
  | .errParse => "errParse"
  | .errTaken => "errTaken"
  | .errUnknown => "errUnknown"
  | .fired ps => "fired " ++ showNatList (names s ps)

def showInts (l : List Int) : String := if l.isEmpty then "-" else ",".intercalate (l.map toString)

/-- every job location has the civil fields of minute m -/
def St.haveAll (st : St) (m : Int) : Bool := st.s.jobs.all fun p => st.has (st.s.objs p).loc m

def apply (st : St) (op : Op) : St × String :=
  let r := step st.civil st.s op
  ({ st with s := r.1 }, showOut st.s r.2)

/--
`init <next>` · `civ <loc> <minute> <y.mo.d.h.mi.wd>` · `add <name> <text> <loc>` · `remove|enable|disable <name>` ·
`tick <now>` · `tickdrain <now>` · `ticksched <now>` · `sched <next>` · `drain` · `info` · `jobsched <name> <sinceNs> <periodNs>` · `schedule <sinceNs> <periodNs>`
-/
def line (st : St) (l : String) : St × String :=
  match words l with
  | ["init", n] =>
    match n.toInt? with
    | some n => (⟨{}, init n⟩, "ok")
    | none => (st, "bad-op")
  | ["civ", loc, m, c] =>
    match loc.toNat?, m.toInt?, Drive.Cron.parseCivil? c with
    | some loc, some m, some c => ({ st with table := st.table.insert (loc, m) c }, "ok")
    | _, _, _ => (st, "bad-op")
  | ["add", n, t, loc] =>
    match n.toNat?, Drive.Cron.parseText? t, loc.toNat? with
    | some n, some t, some loc =>
      if st.has loc st.s.next then apply st (.add n t loc) else (st, "no-civ")
    | _, _, _ => (st, "bad-op")
  | ["remove", n] => match n.toNat? with
    | some n => apply st (.remove n)
    | none => (st, "bad-op")
  | ["enable", n] => match n.toNat? with
    | some n => if st.haveAll st.s.next then apply st (.enable n) else (st, "no-civ")
    | none => (st, "bad-op")
  | ["disable", n] => match n.toNat? with
    | some n => apply st (.disable n)
    | none => (st, "bad-op")
  | ["tick", n] => match n.toInt? with
    | some n => if st.haveAll (n + 1) then apply st (.tick n) else (st, "no-civ")
    | none => (st, "bad-op")
  | ["tickdrain", n] => match n.toInt? with
    | some n => apply st (.tickDrain n)
    | none => (st, "bad-op")
  | ["ticksched", n] => match n.toInt? with
    | some n => if st.haveAll (n + 1) then apply st (.tickSched n) else (st, "no-civ")
    | none => (st, "bad-op")
  | ["sched", n] => match n.toInt? with
    | some n => if st.haveAll n then apply st (.sched n) else (st, "no-civ")
    | none => (st, "bad-op")
  | ["drain"] => apply st .drain
  | ["info"] =>
    let s := st.s
    let jobs := sortNat (s.jobs.map fun p => (s.objs p).name * 2 + (if (s.objs p).disable then 1 else 0))
    (st, s!"{s.next} {showNatList (sortNat (infoSpool s))} {showNatList (names s (s.spool.map (·.1)))} {showNatList jobs}")
  | ["jobsched", n, since, period] =>
    match n.toNat?, since.toInt?, period.toInt? with
    | some n, some since, some period =>
      if (window since period).all (fun m => st.haveAll m) then
        match jobSchedule st.civil st.s n since period with
        | none => (st, "errUnknown")
        | some ms => (st, showInts ms)
      else (st, "no-civ")
    | _, _, _ => (st, "bad-op")
  | ["schedule", since, period] =>
    match since.toInt?, period.toInt? with
    | some since, some period =>
      if (window since period).all (fun m => st.haveAll m) then
        let r := scheduleList st.civil st.s since period
        (st, if r.isEmpty then "-" else ";".intercalate (r.map fun (m, ps) => s!"{m}:{showNatList (names st.s ps)}"))
      else (st, "no-civ")
    | _, _ => (st, "bad-op")
  | _ => (st, "bad-op")

def main (h : IO.FS.Stream) : IO Unit := loopState h line ⟨{}, init 0⟩

end ErgoVerif.Drive.CronSched

mutual
inductive Atom
  | nonce (n : Nat)
  | cookie (c : Nat)
  | hash (args : Atoms)
  deriving DecidableEq, Repr
inductive Atoms
  | nil
  | cons (a : Atom) (as : Atoms)
  deriving DecidableEq, Repr
end

mutual
def Atom.occurs (x : Nat) : Atom → Bool
  | .nonce n => n == x
  | .cookie _ => false
  | .hash as => as.occurs x
def Atoms.occurs (x : Nat) : Atoms → Bool
  | .nil => false
  | .cons a as => a.occurs x || as.occurs x
end

def Atoms.ofList : List Atom → Atoms
  | [] => .nil
  | a :: as => .cons a (Atoms.ofList as)
def Atoms.toList : Atoms → List Atom
  | .nil => []
  | .cons a as => a :: as.toList

theorem Atoms.toList_ofList (l : List Atom) : (Atoms.ofList l).toList = l := by
  induction l <;> simp [Atoms.ofList, Atoms.toList, *]
theorem Atoms.ofList_inj {l1 l2 : List Atom} (h : Atoms.ofList l1 = Atoms.ofList l2) : l1 = l2 := by
  have := congrArg Atoms.toList h
  simpa [Atoms.toList_ofList] using this

/-- hex SHA-256 of the colon-joined atoms -/
def H (l : List Atom) : Atom := .hash (Atoms.ofList l)

example : (H [.nonce 1, H [.nonce 3]]).occurs 3 = true := by decide
example (a b : Nat) (h : H [.nonce a, .cookie 1] = H [.nonce b, .cookie 1]) : a = b := by
  simp [H] at h
  have := Atoms.ofList_inj h
  simpa using this
example : decide (H [.nonce 1, .cookie 1] = H [.nonce 2, .cookie 1]) = false := by decide

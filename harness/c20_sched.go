package main

// C20 / K2 — the real cron object (createCron through the verif export, timer stopped; the real timer
// function is run on demand with TickNow) against the model driver `cronsched`, operation by operation.
// The implementation runs first and records one protocol line per operation (with the wall-clock minute a
// tick really ran in); the model then replays all scenarios in one batch.
//
// Independent oracles on the implementation (r.Violation): c.next initialised by createCron; a tick runs a
// job at most once, runs only present+enabled jobs whose AST matches the minute it runs in (also when it runs
// in another minute than the one it was armed for, and when an API call lands inside it), and runs exactly the
// jobs whose AST matches when it runs in the minute the spool was filled for; JobSchedule/Schedule
// list exactly the matching minutes of the window; AddJob rejects specs outside the grammar.

import (
	"fmt"
	"runtime"
	"sort"
	"strings"
	"sync"
	"time"

	"ergo.services/ergo/gen"
	"ergo.services/ergo/lib"
	"ergo.services/ergo/node"
)

func init() { c20parts = append(c20parts, c20K2) }

type c20action struct {
	mu    *sync.Mutex
	fired *[]c20fire
}

type c20fire struct {
	job   gen.Atom
	atime time.Time
}

func (a c20action) Do(job gen.Atom, n gen.Node, atime time.Time) error {
	a.mu.Lock()
	*a.fired = append(*a.fired, c20fire{job, atime})
	a.mu.Unlock()
	return nil
}
func (a c20action) Info() string { return "verif" }

func c20name(n int) gen.Atom {
	if n == 0 {
		return ""
	}
	return gen.Atom(fmt.Sprintf("j%d", n))
}

func c20nameNum(a gen.Atom) int {
	var n int
	fmt.Sscanf(string(a), "j%d", &n)
	return n
}

func c20min(t time.Time) int64 { return t.Unix() / 60 } // t after 1970, whole minute

type c20shadowJob struct {
	spec    c20Spec
	zi      int
	enabled bool
}

type c20scn struct {
	lines   []string
	want    []string
	descr   []string
	civNeed map[[2]int64]bool // (zone, minute)
}

func (s *c20scn) op(line, want, descr string) {
	s.lines = append(s.lines, line)
	s.want = append(s.want, want)
	s.descr = append(s.descr, descr)
}

func c20sortedInts(xs []int) string {
	if len(xs) == 0 {
		return "-"
	}
	sort.Ints(xs)
	var p []string
	for _, x := range xs {
		p = append(p, fmt.Sprint(x))
	}
	return strings.Join(p, ",")
}

func c20K2(c *Ctx) {
	r := c.R
	z, err := c20loadZones()
	if err != nil {
		r.Disagree("C20 zones", err.Error(), nil)
		return
	}
	tickDone := make(chan any, 16)
	lib.VerifHandler = func(obj any, label string) {
		if label == "cron:tick-drained" {
			c20mid.mu.Lock()
			fn := c20mid.fn
			if obj != c20mid.obj {
				fn = nil
			} else {
				c20mid.fn = nil
			}
			c20mid.mu.Unlock()
			if fn != nil {
				fn()
			}
		}
		if label == "cron:tick-done" {
			select {
			case tickDone <- obj:
			default:
			}
		}
	}
	defer func() { lib.VerifHandler = nil }()

	// baseline: the smallest goroutine count seen over a few milliseconds (helpers of earlier parts may still be exiting)
	c20baseG = runtime.NumGoroutine()
	for i := 0; i < 100; i++ {
		time.Sleep(50 * time.Microsecond)
		if n := runtime.NumGoroutine(); n < c20baseG {
			c20baseG = n
		}
	}
	nscn := c.N(250, 20000)
	var all []*c20scn
	attempts := 0
	for len(all) < nscn && attempts < nscn*3 {
		attempts++
		scn, ok := c20scenario(c, z, tickDone, len(all))
		if !ok {
			r.Count("k2.inconclusive")
			continue
		}
		all = append(all, scn)
	}
	var lines []string
	for _, s := range all {
		lines = append(lines, s.lines...)
	}
	outs, err := Model("cronsched", lines)
	if err != nil {
		r.Disagree("cronsched.driver", err.Error(), nil)
		return
	}
	k := 0
	for si, s := range all {
		bad := false
		for i := range s.lines {
			if !bad && outs[k] != s.want[i] {
				bad = true
				var ops []string
				for j := 0; j <= i; j++ {
					if !strings.HasPrefix(s.lines[j], "civ ") {
						ops = append(ops, s.descr[j]+" => "+s.want[j])
					}
				}
				r.Disagree("K2 CronSched.step ~ cron object", fmt.Sprintf("scenario %d, operation %q: model %q, implementation %q", si, s.descr[i], outs[k], s.want[i]),
					map[string]interface{}{"ops": ops, "line": s.lines[i]})
			}
			k++
		}
	}
}

// a call to run inside the timer function of one cron object (set by doTick, taken by the cron:tick-drained hook)
var c20mid struct {
	mu  sync.Mutex
	obj any
	fn  func()
}

// goroutines alive when no cron object is active; a scenario starts, and a tick is complete, only when the count is back here
var c20baseG int

func c20settle(d time.Duration) bool {
	deadline := time.Now().Add(d)
	for runtime.NumGoroutine() > c20baseG {
		if time.Now().After(deadline) {
			return false
		}
		time.Sleep(20 * time.Microsecond)
	}
	return true
}

// c20scenario runs one operation sequence on a fresh cron object; ok=false when the wall-clock minute
// changed under it or a wait timed out (inconclusive, retried by the caller)
func c20scenario(c *Ctx, z *c20zones, tickDone chan any, idx int) (*c20scn, bool) {
	r := c.R
	rng := c.Rng
	scn := &c20scn{civNeed: map[[2]int64]bool{}}
	var mu sync.Mutex
	var fired []c20fire
	act := c20action{&mu, &fired}

	if !c20settle(5 * time.Second) {
		return nil, false
	}
	startMinute := time.Now().Truncate(time.Minute)
	before := time.Now()
	vc := node.VerifNewCron()
	after := time.Now()
	defer vc.Stop()
	cr := vc.Cron()

	// oracle O1 (D8): createCron leaves c.next at the next whole minute
	n0 := vc.Next()
	if !(n0.Equal(before.Add(time.Minute).Truncate(time.Minute)) || n0.Equal(after.Add(time.Minute).Truncate(time.Minute))) {
		r.Violation("C20/next-uninitialised", fmt.Sprintf("createCron at %s left c.next = %s; jobs added before the first tick are spooled against that instant",
			before.Format(time.RFC3339), n0.Format(time.RFC3339)), map[string]interface{}{"next": n0.Format(time.RFC3339)})
		// keep going from the state the implementation is in
	}
	zis := []int{rng.Intn(len(z.loc)), rng.Intn(len(z.loc))}
	// virtual base of this scenario
	_, base, _ := z.instant(rng)
	base = base.Truncate(time.Minute)
	if base.Year() < 1971 {
		base = time.Date(2026, 3, 29, 0, 30, 0, 0, time.UTC)
	}
	next := n0 // shadow of c.next
	zeroNext := n0.IsZero()
	if zeroNext {
		// unrepaired D8: the model cannot be initialised with the zero time; start the comparison from a jump
		vc.Drain()
		vc.ScheduleNext(startMinute.Add(time.Minute))
		next = startMinute.Add(time.Minute)
	}
	scn.op(fmt.Sprintf("init %d", c20min(next)), "ok", "createCron")
	civAt := len(scn.lines) // civ lines are inserted here afterwards
	shadow := map[int]*c20shadowJob{}
	spooled := false
	need := func(zi int, t time.Time) { scn.civNeed[[2]int64{int64(zi), c20min(t)}] = true }
	needAll := func(t time.Time) {
		for _, zi := range zis {
			need(zi, t)
		}
	}
	needAll(next)
	if rng.Bool() {
		// start in the minute the wall clock is in, so that ticks are timely from the beginning
		vc.Drain()
		vc.ScheduleNext(startMinute)
		next = startMinute
		needAll(next)
		scn.op("drain", "ok", "Drain()")
		scn.op(fmt.Sprintf("sched %d", c20min(next)), "ok", fmt.Sprintf("c.schedule(%s)", next.UTC().Format(time.RFC3339)))
	}

	pickTime := func() time.Time {
		// mostly inside the virtual window, sometimes the real clock
		if rng.Chance(1, 4) {
			return startMinute.Add(time.Duration(rng.Intn(3)) * time.Minute)
		}
		return base.Add(time.Duration(rng.Intn(120)) * time.Minute)
	}
	genSpec := func(zi int) (c20Spec, string, bool) {
		t := next.In(z.loc[zi])
		switch rng.Intn(10) {
		case 0:
			s, _ := c20invalidSpec(rng)
			return s, s.String(), false
		case 1, 2:
			var s c20Spec
			for k := range s.F {
				s.F[k] = c20Field{Star: true}
			}
			if rng.Bool() {
				s.F[0] = c20Field{Items: []c20Item{{T: c20itNum, A: t.Minute()}}}
			}
			return s, s.String(), true
		case 3, 4, 5, 6:
			// aimed at the minute the spool is being filled for (or its neighbour)
			if rng.Chance(1, 4) {
				t = t.Add(time.Minute)
			}
			s := c20force(rng, c20specAround(rng, t), t, rng.Intn(3))
			s.F[0] = c20Field{Items: []c20Item{{T: c20itNum, A: t.Minute()}, {T: c20itNum, A: (t.Minute() + 2) % 60}}}
			if rng.Bool() {
				s.F[1] = c20Field{Items: []c20Item{{T: c20itRange, A: t.Hour(), B: t.Hour()}}}
			} else {
				s.F[1] = c20Field{Star: true}
			}
			s.F[3] = c20Field{Star: true}
			return s, s.String(), true
		}
		s := c20spec(rng)
		return s, s.String(), true
	}
	errName := func(err error) string {
		switch {
		case err == nil:
			return "ok"
		case err == gen.ErrTaken:
			return "errTaken"
		case err == gen.ErrUnknown:
			return "errUnknown"
		case err.Error() == "empty job name":
			return "errName"
		}
		return "errParse"
	}
	expectSpool := func() []int { // jobs the spool must hold for `next`, by the AST oracle
		var xs []int
		for n, j := range shadow {
			if j.enabled && j.spec.matches(next.In(z.loc[j.zi])) {
				xs = append(xs, n)
			}
		}
		return xs
	}
	addJob := func(name, zi int, spec c20Spec, text string, valid bool) (string, string, string) {
		err := func() (err error) {
			defer func() {
				if p := recover(); p != nil {
					r.Violation("C20/parser-panic", fmt.Sprintf("AddJob panicked on spec %q: %v", text, p), map[string]interface{}{"spec": text})
					err = fmt.Errorf("panic: %v", p)
				}
			}()
			return cr.AddJob(gen.CronJob{Name: c20name(name), Spec: text, Location: z.loc[zi], Action: act})
		}()
		res := errName(err)
		r.Count("k2.add." + res)
		if !valid && err == nil {
			r.Violation("C20/malformed-spec-accepted", fmt.Sprintf("AddJob accepted spec %q, which is outside the grammar", text), map[string]interface{}{"spec": text})
		}
		if valid && res == "errParse" {
			r.Violation("C20/valid-spec-rejected", fmt.Sprintf("AddJob rejected spec %q: %v", text, err), map[string]interface{}{"spec": text})
		}
		if err == nil {
			shadow[name] = &c20shadowJob{spec: spec, zi: zi, enabled: true}
		}
		return fmt.Sprintf("add %d %s %d", name, c20text(text), zi), res, fmt.Sprintf("AddJob(j%d, %q, %s)", name, text, c20zoneNames[zi])
	}
	freeName := func() int {
		for n := 1; n <= 8; n++ {
			if _, ok := shadow[n]; !ok {
				return n
			}
		}
		return 1 + rng.Intn(8)
	}
	// a call to place inside the timer function: AddJob aimed at c.next, or EnableJob
	midCall := func() func() (string, string, string) {
		if len(shadow) > 0 && rng.Chance(1, 3) {
			var ns []int
			for n := range shadow {
				ns = append(ns, n)
			}
			sort.Ints(ns)
			name := ns[rng.Intn(len(ns))]
			return func() (string, string, string) {
				err := cr.EnableJob(c20name(name))
				if err == nil {
					shadow[name].enabled = true
				}
				return fmt.Sprintf("enable %d", name), errName(err), fmt.Sprintf("EnableJob(j%d)", name)
			}
		}
		zi := zis[rng.Intn(2)]
		need(zi, next)
		spec, text, valid := genSpec(zi)
		name := freeName()
		return func() (string, string, string) { return addJob(name, zi, spec, text, valid) }
	}
	// AddJob of a job whose spec denotes minute x in its zone (hour and minute fixed, or every minute)
	midAddFor := func(x time.Time) func() (string, string, string) {
		zi := zis[rng.Intn(2)]
		need(zi, x)
		t := x.In(z.loc[zi])
		var spec c20Spec
		for k := range spec.F {
			spec.F[k] = c20Field{Star: true}
		}
		if rng.Chance(2, 3) {
			spec.F[0] = c20Field{Items: []c20Item{{T: c20itNum, A: t.Minute()}}}
			spec.F[1] = c20Field{Items: []c20Item{{T: c20itNum, A: t.Hour()}}}
		} // else "* * * * *": spooled for x inside the tick and again for the minute the next run happens in
		name := freeName()
		return func() (string, string, string) { return addJob(name, zi, spec, spec.String(), true) }
	}
	// doTick runs the real timer function now; `mid`, if given, is executed on the timer's goroutine between the spool
	// loop and c.schedule(next) (hook cron:tick-drained) — an API call landing inside the tick. false = inconclusive.
	doTick := func(mid func() (string, string, string), backToNow bool) bool {
		var midLine, midWant, midDescr string
		// the real timer function, now
		mu.Lock()
		fired = fired[:0]
		mu.Unlock()
		for len(tickDone) > 0 {
			<-tickDone
		}
		exp := expectSpool()
		if mid != nil {
			c20mid.mu.Lock()
			c20mid.obj, c20mid.fn = vc.Obj(), func() { midLine, midWant, midDescr = mid() }
			c20mid.mu.Unlock()
		}
		vc.TickNow()
		// wait for the end of the timer function of this object (a stray run of an earlier object is ignored)
		tmo := time.After(3 * time.Second)
		for done := false; !done; {
			select {
			case o := <-tickDone:
				done = o == vc.Obj()
			case <-tmo:
				return false
			}
		}
		vc.Stop()
		if !c20settle(3 * time.Second) {
			return false
		}
		now := time.Now().Truncate(time.Minute)
		if !now.Equal(startMinute) {
			return false
		}
		mu.Lock()
		got := append([]c20fire(nil), fired...)
		mu.Unlock()
		var names []int
		seen := map[int]int{}
		for _, f := range got {
			n := c20nameNum(f.job)
			names = append(names, n)
			seen[n]++
			if !f.atime.Equal(now) {
				return false // minute changed inside the tick
			}
		}
		timely := now.Equal(next)
		if timely {
			r.Count("k2.tick.in-the-scheduled-minute")
		} else {
			r.Count("k2.tick.other-minute")
		}
		if len(got) > 0 {
			spooled = true
			r.Count("k2.tick.fired-something")
		}
		ctx := map[string]interface{}{"ops": append([]string(nil), scn.descr...), "fired": names, "tick_minute": now.UTC().Format(time.RFC3339), "spooled_for": next.UTC().Format(time.RFC3339)}
		for n := range seen {
			// the property itself: a job runs only at minutes its spec denotes
			if j, ok := shadow[n]; ok && !j.spec.matches(now.In(z.loc[j.zi])) {
				r.Violation("C20/fired-at-non-matching-minute", fmt.Sprintf("job j%d (spec %q, %s) ran with action time %s, which its spec does not denote",
					n, j.spec, c20zoneNames[j.zi], now.In(z.loc[j.zi]).Format("2006-01-02 15:04 Mon")), ctx)
			}
		}
		for n, k := range seen {
			if k > 1 {
				r.Violation("C20/fired-twice", fmt.Sprintf("job j%d ran %d times in one tick", n, k), ctx)
			}
			if j, ok := shadow[n]; !ok || !j.enabled {
				r.Violation("C20/fired-disabled-or-removed", fmt.Sprintf("job j%d ran although it is disabled or removed", n), ctx)
			}
		}
		if timely {
			want := c20sortedInts(exp)
			var uniq []int
			for n := range seen {
				uniq = append(uniq, n)
			}
			if c20sortedInts(uniq) != want {
				r.Violation("C20/tick-fires-wrong-set", fmt.Sprintf("tick at %s: jobs that are present, enabled and match this minute: [%s]; jobs run: [%s]",
					now.UTC().Format(time.RFC3339), want, c20sortedInts(uniq)), ctx)
			}
		}
		if nx := vc.Next(); !nx.Equal(now.Add(time.Minute)) {
			r.Violation("C20/next-not-advanced", fmt.Sprintf("after the timer function ran at %s c.next is %s, not the following minute: the spool is being filled for a minute the timer will not run in",
				now.UTC().Format(time.RFC3339), nx.UTC().Format(time.RFC3339)), ctx)
		}
		next = now.Add(time.Minute)
		needAll(next)
		if mid == nil {
			scn.op(fmt.Sprintf("tick %d", c20min(now)), "fired "+c20sortedInts(names), "timer function at "+now.UTC().Format(time.RFC3339))
		} else {
			r.Count("k2.tick.with-call-inside")
			scn.op(fmt.Sprintf("tickdrain %d", c20min(now)), "fired "+c20sortedInts(names), "timer function at "+now.UTC().Format(time.RFC3339)+", spool loop")
			scn.op(midLine, midWant, "  inside the timer function: "+midDescr)
			scn.op(fmt.Sprintf("ticksched %d", c20min(now)), "ok", "timer function, c.schedule(next)")
		}
		if backToNow && rng.Chance(7, 10) {
			// back to the wall-clock minute, so that the following operations and the next tick meet a live spool
			vc.Drain()
			vc.ScheduleNext(startMinute)
			next = startMinute
			needAll(next)
			scn.op("drain", "ok", "Drain()")
			scn.op(fmt.Sprintf("sched %d", c20min(next)), "ok", fmt.Sprintf("c.schedule(%s)", next.UTC().Format(time.RFC3339)))
		}
		return true
	}
	nops := 12 + rng.Intn(28)
	for i := 0; i < nops; i++ {
		if !time.Now().Truncate(time.Minute).Equal(startMinute) {
			return nil, false
		}
		name := 1 + rng.Intn(5)
		if len(shadow) > 0 && rng.Chance(3, 5) {
			// an existing job
			k := rng.Intn(len(shadow))
			var ns []int
			for n := range shadow {
				ns = append(ns, n)
			}
			sort.Ints(ns)
			name = ns[k]
		}
		if rng.Chance(1, 40) {
			name = 0
		}
		opk := rng.Intn(22)
		if opk <= 4 && rng.Chance(2, 3) {
			// AddJob: mostly a free name
			for n := 1; n <= 6; n++ {
				if _, ok := shadow[n]; !ok {
					name = n
					break
				}
			}
		}
		switch opk {
		case 0, 1, 2, 3, 4:
			zi := zis[rng.Intn(2)]
			spec, text, valid := genSpec(zi)
			err := func() (err error) {
				defer func() {
					if p := recover(); p != nil {
						r.Violation("C20/parser-panic", fmt.Sprintf("AddJob panicked on spec %q: %v", text, p), map[string]interface{}{"spec": text})
						err = fmt.Errorf("panic: %v", p)
					}
				}()
				return cr.AddJob(gen.CronJob{Name: c20name(name), Spec: text, Location: z.loc[zi], Action: act})
			}()
			res := errName(err)
			r.Count("k2.add." + res)
			if !valid && err == nil {
				r.Violation("C20/malformed-spec-accepted", fmt.Sprintf("AddJob accepted spec %q, which is outside the grammar", text), map[string]interface{}{"spec": text})
			}
			if valid && res == "errParse" {
				r.Violation("C20/valid-spec-rejected", fmt.Sprintf("AddJob rejected spec %q: %v", text, err), map[string]interface{}{"spec": text})
			}
			if err == nil {
				shadow[name] = &c20shadowJob{spec: spec, zi: zi, enabled: true}
			}
			need(zi, next)
			scn.op(fmt.Sprintf("add %d %s %d", name, c20text(text), zi), res, fmt.Sprintf("AddJob(j%d, %q, %s)", name, text, c20zoneNames[zi]))
		case 5, 6:
			err := cr.RemoveJob(c20name(name))
			if err == nil {
				delete(shadow, name)
			}
			scn.op(fmt.Sprintf("remove %d", name), errName(err), fmt.Sprintf("RemoveJob(j%d)", name))
		case 7, 8, 9:
			err := cr.EnableJob(c20name(name))
			if err == nil {
				shadow[name].enabled = true
			}
			r.Count("k2.enable." + errName(err))
			scn.op(fmt.Sprintf("enable %d", name), errName(err), fmt.Sprintf("EnableJob(j%d)", name))
		case 10, 11:
			err := cr.DisableJob(c20name(name))
			if err == nil {
				shadow[name].enabled = false
			}
			scn.op(fmt.Sprintf("disable %d", name), errName(err), fmt.Sprintf("DisableJob(j%d)", name))
		case 12, 13:
			// jump: empty the spool and let c.schedule fill it for another minute (the real minute half of the time,
			// so that the next tick runs in the minute the spool was filled for)
			t := pickTime()
			if rng.Chance(7, 10) {
				t = startMinute
			}
			vc.Drain()
			vc.ScheduleNext(t)
			next = t
			needAll(t)
			scn.op("drain", "ok", "Drain()")
			scn.op(fmt.Sprintf("sched %d", c20min(t)), "ok", fmt.Sprintf("c.schedule(%s)", t.UTC().Format(time.RFC3339)))
		case 14, 15, 16:
			if !doTick(nil, true) {
				return nil, false
			}
		case 20:
			// the timer function with an API call landing inside it
			if !doTick(midCall(), true) {
				return nil, false
			}
		case 21:
			// race probe: the spool is filled for a virtual minute X, the timer function runs (in the wall-clock minute R,
			// so it runs nothing), and while it is between its spool loop and c.schedule a job matching X only is added;
			// then c.next is moved to R (export, no drain — instead of waiting a minute) and the timer function runs again
			x := base.Add(time.Duration(rng.Intn(120)) * time.Minute)
			vc.Drain()
			vc.ScheduleNext(x)
			next = x
			needAll(x)
			scn.op("drain", "ok", "Drain()")
			scn.op(fmt.Sprintf("sched %d", c20min(x)), "ok", fmt.Sprintf("c.schedule(%s)", x.UTC().Format(time.RFC3339)))
			if !doTick(midAddFor(x), false) {
				return nil, false
			}
			vc.ScheduleNext(startMinute)
			next = startMinute
			needAll(next)
			scn.op(fmt.Sprintf("sched %d", c20min(next)), "ok", fmt.Sprintf("c.schedule(%s) without draining", next.UTC().Format(time.RFC3339)))
			if !doTick(nil, true) {
				return nil, false
			}
		case 17:
			info := cr.Info()
			var sp, spAll, jobs []int
			for _, a := range info.Spool {
				sp = append(sp, c20nameNum(a))
			}
			for _, a := range vc.SpoolAll() {
				spAll = append(spAll, c20nameNum(a))
			}
			for _, j := range info.Jobs {
				d := 0
				if j.Disabled {
					d = 1
				}
				jobs = append(jobs, c20nameNum(j.Name)*2+d)
			}
			if len(sp) > 0 {
				spooled = true
			}
			scn.op("info", fmt.Sprintf("%d %s %s %s", c20min(vc.Next()), c20sortedInts(sp), c20sortedInts(spAll), c20sortedInts(jobs)), "Info()")
		case 18:
			since := pickTime().Add(time.Duration(rng.Intn(60000)) * time.Millisecond)
			period := time.Duration(rng.Intn(45)) * time.Minute
			switch rng.Intn(5) {
			case 0:
				period += time.Duration(rng.Intn(60000)) * time.Millisecond
			case 1:
				period = time.Duration(rng.Intn(3)-1) * time.Nanosecond
			case 2:
				period += time.Nanosecond
			}
			ts, err := cr.JobSchedule(c20name(name), since, period)
			want := errName(err)
			if err == nil {
				var ms []string
				for _, t := range ts {
					ms = append(ms, fmt.Sprint(c20min(t)))
				}
				want = "-"
				if len(ms) > 0 {
					want = strings.Join(ms, ",")
				}
				// oracle: the matching minutes of [since truncated, +period)
				j := shadow[name]
				var exp []string
				start := since.Truncate(time.Minute)
				for m := start; m.Before(start.Add(period)); m = m.Add(time.Minute) {
					if j.spec.matches(m.In(z.loc[j.zi])) {
						exp = append(exp, fmt.Sprint(c20min(m)))
					}
				}
				e := "-"
				if len(exp) > 0 {
					e = strings.Join(exp, ",")
				}
				if e != want {
					r.Violation("C20/jobschedule", fmt.Sprintf("JobSchedule(j%d, %s, %s) for spec %q in %s: matching minutes %s, reported %s", name, since.UTC().Format(time.RFC3339), period, j.spec, c20zoneNames[j.zi], e, want),
						map[string]interface{}{"spec": j.spec.String(), "zone": c20zoneNames[j.zi], "since": since.UTC().Format(time.RFC3339Nano), "period_ns": int64(period)})
				}
				if len(ts) > 0 {
					r.Count("k2.jobschedule.nonempty")
				}
			}
			start := since.Truncate(time.Minute)
			for m := start; m.Before(start.Add(period)); m = m.Add(time.Minute) {
				needAll(m)
			}
			scn.op(fmt.Sprintf("jobsched %d %d %d", name, since.UnixNano(), int64(period)), want, fmt.Sprintf("JobSchedule(j%d, %s, %s)", name, since.UTC().Format(time.RFC3339Nano), period))
		default:
			since := pickTime().Add(time.Duration(rng.Intn(60000)) * time.Millisecond)
			period := time.Duration(rng.Intn(30))*time.Minute + time.Duration(rng.Intn(2))*time.Nanosecond
			res := cr.Schedule(since, period)
			var parts []string
			for _, e := range res {
				var ns []int
				for _, a := range e.Jobs {
					ns = append(ns, c20nameNum(a))
				}
				parts = append(parts, fmt.Sprintf("%d:%s", c20min(e.Time), c20sortedInts(ns)))
				// oracle
				var exp []int
				for n, j := range shadow {
					if j.spec.matches(e.Time.In(z.loc[j.zi])) {
						exp = append(exp, n)
					}
				}
				if c20sortedInts(exp) != c20sortedInts(ns) {
					r.Violation("C20/schedule", fmt.Sprintf("Schedule: at %s jobs [%s] match, reported [%s]", e.Time.UTC().Format(time.RFC3339), c20sortedInts(exp), c20sortedInts(ns)), map[string]interface{}{"ops": append([]string(nil), scn.descr...)})
				}
			}
			want := "-"
			if len(parts) > 0 {
				want = strings.Join(parts, ";")
			}
			start := since.Truncate(time.Minute)
			cnt := 0
			for m := start; m.Before(start.Add(period)); m = m.Add(time.Minute) {
				needAll(m)
				any := false
				for _, j := range shadow {
					if j.spec.matches(m.In(z.loc[j.zi])) {
						any = true
					}
				}
				if any {
					cnt++
				}
			}
			if cnt != len(res) {
				r.Violation("C20/schedule", fmt.Sprintf("Schedule(%s, %s): %d minutes of the window have a matching job, %d reported", since.UTC().Format(time.RFC3339), period, cnt, len(res)), map[string]interface{}{"ops": append([]string(nil), scn.descr...)})
			}
			scn.op(fmt.Sprintf("schedule %d %d", since.UnixNano(), int64(period)), want, fmt.Sprintf("Schedule(%s, %s)", since.UTC().Format(time.RFC3339Nano), period))
		}
	}
	// civil table: everything the operations looked at
	var civ []string
	keys := make([][2]int64, 0, len(scn.civNeed))
	for k := range scn.civNeed {
		keys = append(keys, k)
	}
	sort.Slice(keys, func(a, b int) bool {
		if keys[a][0] != keys[b][0] {
			return keys[a][0] < keys[b][0]
		}
		return keys[a][1] < keys[b][1]
	})
	for _, k := range keys {
		t := time.Unix(k[1]*60, 0).In(z.loc[k[0]])
		civ = append(civ, fmt.Sprintf("civ %d %d %s", k[0], k[1], c20civil(t)))
	}
	ins := func(xs []string, at int, add []string) []string {
		out := append([]string{}, xs[:at]...)
		out = append(out, add...)
		return append(out, xs[at:]...)
	}
	oks := make([]string, len(civ))
	for i := range oks {
		oks[i] = "ok"
	}
	scn.lines = ins(scn.lines, civAt, civ)
	scn.want = ins(scn.want, civAt, oks)
	scn.descr = ins(scn.descr, civAt, civ)
	r.Case(strings.Join(scn.lines[civAt+len(civ):], "|"), spooled)
	if idx < 2 {
		var ops []string
		for j, d := range scn.descr {
			if !strings.HasPrefix(d, "civ ") {
				ops = append(ops, d+" => "+scn.want[j])
			}
		}
		r.Sample(map[string]interface{}{"kind": "K2", "ops": ops})
	}
	return scn, true
}

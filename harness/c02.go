package main

// C02 extras on a real node (no controlled schedule): bounded mailbox + fallback routing for the three
// addressing modes, refused sends are never handled, delayed sends vs cancel. Model: Model/Fallback.lean
// through the "fallback" driver.

import (
	"fmt"
	"sync"
	"sync/atomic"
	"time"

	"ergo.services/ergo/act"
	"ergo.services/ergo/gen"
)

type c02rec struct {
	blocked atomic.Bool
	mu      sync.Mutex
	got  []any
	gate chan struct{}
}

type c02actor struct {
	act.Actor
	rec   *c02rec
	alias *gen.Alias
}

func (a *c02actor) Init(args ...any) error { return nil }

func (a *c02actor) HandleMessage(from gen.PID, m any) error {
	if s, ok := m.(string); ok && s == "block" {
		if a.alias != nil {
			if al, err := a.CreateAlias(); err == nil {
				a.rec.mu.Lock()
				*a.alias = al
				a.rec.mu.Unlock()
			}
		}
		a.rec.blocked.Store(true)
		<-a.rec.gate
		return nil
	}
	a.rec.mu.Lock()
	a.rec.got = append(a.rec.got, m)
	a.rec.mu.Unlock()
	return nil
}

type c02sender struct {
	act.Actor
	fn chan func(gen.Process)
}

func (a *c02sender) HandleMessage(from gen.PID, m any) error {
	if f, ok := m.(func(gen.Process)); ok {
		f(a)
	}
	return nil
}

func waitUntil(d time.Duration, f func() bool) bool {
	dl := time.Now().Add(d)
	for time.Now().Before(dl) {
		if f() {
			return true
		}
		time.Sleep(200 * time.Microsecond)
	}
	return f()
}

func runC02Extra(c *Ctx) {
	r := c.R
	node, err := startQuietNode("c02n")
	if err != nil {
		r.Disagree("c02.node", err.Error(), nil)
		return
	}
	defer node.StopForce()
	n := c.N(60, 1500)
	var lines []string
	var wants []string
	var cases []map[string]interface{}
	for i := 0; i < n; i++ {
		size := int64(1 + c.Rng.Intn(3))
		fbEnable := c.Rng.Chance(2, 3)
		fbSelf := fbEnable && c.Rng.Chance(1, 5)
		mode := c.Rng.Intn(3) // 0 pid, 1 name, 2 alias
		prio := c.Rng.Intn(3)
		extra := 1 + c.Rng.Intn(3) // messages beyond the limit
		tname := gen.Atom(fmt.Sprintf("c02t_%d", i))
		fname := gen.Atom(fmt.Sprintf("c02f_%d", i))
		trec := &c02rec{gate: make(chan struct{})}
		frec := &c02rec{gate: make(chan struct{})}
		var alias gen.Alias
		fpid, err := node.SpawnRegister(fname, func() gen.ProcessBehavior { return &c02actor{rec: frec} }, gen.ProcessOptions{})
		if err != nil {
			r.Disagree("c02.spawn", err.Error(), nil)
			return
		}
		opts := gen.ProcessOptions{MailboxSize: size}
		if fbEnable {
			opts.Fallback.Enable = true
			opts.Fallback.Name = fname
			opts.Fallback.Tag = fmt.Sprintf("tag%d", i)
			if fbSelf {
				opts.Fallback.Name = tname
			}
		}
		tpid, err := node.SpawnRegister(tname, func() gen.ProcessBehavior { return &c02actor{rec: trec, alias: &alias} }, opts)
		if err != nil {
			r.Disagree("c02.spawn", err.Error(), nil)
			return
		}
		// park the target inside a callback so that its mailbox fills deterministically
		node.Send(tpid, "block")
		waitUntil(time.Second, func() bool { return trec.blocked.Load() })
		var to any = tpid
		if mode == 1 {
			to = gen.ProcessID{Name: tname, Node: node.Name()}
		} else if mode == 2 {
			trec.mu.Lock()
			to = alias
			trec.mu.Unlock()
		}
		pr := []gen.MessagePriority{gen.MessagePriorityNormal, gen.MessagePriorityHigh, gen.MessagePriorityMax}[prio]
		total := int(size) + extra
		var okIDs, errIDs []int
		for k := 0; k < total; k++ {
			e := node.SendWithPriority(to, k, pr)
			full := k >= int(size)
			// model line: alive full fbEnable fbSelf
			lines = append(lines, fmt.Sprintf("route 1 %d %d %d", b2i(full), b2i(fbEnable), b2i(fbSelf)))
			switch {
			case e == nil && !full:
				wants = append(wants, "delivered")
				okIDs = append(okIDs, k)
			case e == nil && full:
				wants = append(wants, "fallback")
				okIDs = append(okIDs, k)
			case e == gen.ErrProcessMailboxFull:
				wants = append(wants, "errFull")
				errIDs = append(errIDs, k)
			default:
				wants = append(wants, "other:"+e.Error())
			}
			cases = append(cases, map[string]interface{}{"mailbox_size": size, "fallback": fbEnable, "fallback_is_self": fbSelf, "mode": mode, "prio": prio, "k": k})
		}
		close(trec.gate)
		wantT := int(size)
		wantF := 0
		if fbEnable && !fbSelf {
			wantF = extra
		}
		waitUntil(2*time.Second, func() bool {
			trec.mu.Lock()
			frec.mu.Lock()
			defer trec.mu.Unlock()
			defer frec.mu.Unlock()
			return len(trec.got) >= wantT && len(frec.got) >= wantF
		})
		time.Sleep(500 * time.Microsecond)
		trec.mu.Lock()
		frec.mu.Lock()
		rp := map[string]interface{}{"mailbox_size": size, "fallback": fbEnable, "fallback_is_self": fbSelf, "mode": mode, "prio": prio, "sent": total}
		// oracle: the first `size` messages handled by the target once each, in order; the rest by the fallback wrapped, or refused
		if len(trec.got) != wantT {
			r.Violation("C02/bounded-delivery", fmt.Sprintf("target with mailbox %d handled %d of the %d accepted messages", size, len(trec.got), wantT), rp)
		} else {
			for k, v := range trec.got {
				if v != k {
					r.Violation("C02/bounded-delivery-order", fmt.Sprintf("target handled %v at position %d", v, k), rp)
					break
				}
			}
		}
		if len(frec.got) != wantF {
			r.Violation("C02/fallback-count", fmt.Sprintf("fallback process received %d messages, expected %d", len(frec.got), wantF), rp)
		} else {
			for k, v := range frec.got {
				fb, ok := v.(gen.MessageFallback)
				if !ok || fb.PID != tpid || fb.Tag != opts.Fallback.Tag || fb.Message != int(size)+k {
					r.Violation("C02/fallback-wrap", fmt.Sprintf("fallback received %#v, expected MessageFallback{%v,%q,%d}", v, tpid, opts.Fallback.Tag, int(size)+k), rp)
					break
				}
			}
		}
		if !(fbEnable && !fbSelf) && len(errIDs) != extra {
			r.Violation("C02/refused-result", fmt.Sprintf("%d sends beyond the limit, %d reported ErrProcessMailboxFull", extra, len(errIDs)), rp)
		}
		trec.mu.Unlock()
		frec.mu.Unlock()
		r.Case(fmt.Sprintf("fb/%d/%v/%v/%d/%d/%d", size, fbEnable, fbSelf, mode, prio, extra), true)
		r.Count(fmt.Sprintf("fallback.mode%d", mode))
		node.Kill(tpid)
		node.Kill(fpid)
	}
	outs, err := Model("fallback", lines)
	if err != nil {
		r.Disagree("fallback.driver", err.Error(), nil)
		return
	}
	for i := range lines {
		if outs[i] != wants[i] {
			r.Disagree("K4 Fallback.routeSend ~ RouteSend* on a bounded mailbox", fmt.Sprintf("%q: model %q, implementation %q", lines[i], outs[i], wants[i]), cases[i])
			break
		}
	}
	// ---- delayed sends vs cancel -------------------------------------------------------------
	drec := &c02rec{gate: make(chan struct{})}
	dpid, _ := node.Spawn(func() gen.ProcessBehavior { return &c02actor{rec: drec} }, gen.ProcessOptions{})
	spid, _ := node.Spawn(func() gen.ProcessBehavior { return &c02sender{} }, gen.ProcessOptions{})
	nd := c.N(150, 3000)
	type dres struct {
		id       int
		cancelOk []bool
	}
	var mu sync.Mutex
	var results []dres
	var wg sync.WaitGroup
	for i := 0; i < nd; i++ {
		id := 100000 + i
		delay := time.Duration(200+c.Rng.Intn(600)) * time.Microsecond
		cancelAt := time.Duration(c.Rng.Intn(1000)) * time.Microsecond
		ncancel := c.Rng.Intn(3)
		wg.Add(1)
		node.Send(spid, func(p gen.Process) {
			cancel, err := p.SendAfter(dpid, id, delay)
			if err != nil {
				wg.Done()
				return
			}
			go func() {
				defer wg.Done()
				time.Sleep(cancelAt)
				var oks []bool
				for k := 0; k < ncancel; k++ {
					oks = append(oks, cancel())
				}
				mu.Lock()
				results = append(results, dres{id, oks})
				mu.Unlock()
			}()
		})
	}
	wg.Wait()
	time.Sleep(5 * time.Millisecond)
	waitUntil(time.Second, func() bool { st, _ := node.ProcessState(dpid); return st == gen.ProcessStateSleep })
	drec.mu.Lock()
	count := map[int]int{}
	for _, v := range drec.got {
		if id, ok := v.(int); ok {
			count[id]++
		}
	}
	drec.mu.Unlock()
	var tl, tw []string
	for _, d := range results {
		trues := 0
		for _, b := range d.cancelOk {
			if b {
				trues++
			}
		}
		rp := map[string]interface{}{"id": d.id, "cancel_results": d.cancelOk, "delivered": count[d.id]}
		if trues > 0 && count[d.id] != 0 {
			r.Violation("C02/delayed-cancelled-but-sent", "a delayed send whose cancel returned true was delivered", rp)
		}
		if trues == 0 && count[d.id] != 1 {
			r.Violation("C02/delayed-not-once", fmt.Sprintf("a delayed send that was not cancelled was delivered %d times", count[d.id]), rp)
		}
		if trues > 1 {
			r.Violation("C02/delayed-cancel-twice", "two cancel calls returned true", rp)
		}
		// model: fire happens before/after the cancels; ask the model for both orders and accept either that matches
		ops := ""
		for range d.cancelOk {
			ops += "c"
		}
		if trues == 0 {
			tl = append(tl, "timer f"+ops)
		} else {
			tl = append(tl, "timer "+ops+"f")
		}
		tw = append(tw, fmt.Sprintf("sent=%d trues=%d", count[d.id], trues))
		r.Case(fmt.Sprintf("delayed/%d/%v", len(d.cancelOk), trues > 0), len(d.cancelOk) > 0)
		if trues > 0 {
			r.Count("delayed.cancelled")
		} else {
			r.Count("delayed.fired")
		}
	}
	outs, err = Model("fallback", tl)
	if err != nil {
		r.Disagree("fallback.driver", err.Error(), nil)
		return
	}
	for i := range tl {
		if outs[i] != tw[i] {
			r.Disagree("Timer automaton ~ SendAfter/cancel", fmt.Sprintf("%q: model %q, implementation %q", tl[i], outs[i], tw[i]), nil)
			break
		}
	}
}

/-
Invariant of the cron scheduler model and what a tick fires.
-/
import ErgoVerif.Model.CronSched
namespace ErgoVerif.CronSched
open ErgoVerif.Cron

variable (civil : CivilFn)

/-! ### setDisable -/

@[simp] theorem setDisable_name (objs : Nat → JobObj) (p : Nat) (b : Bool) (q : Nat) :
    (setDisable objs p b q).name = (objs q).name := by unfold setDisable; split <;> rfl
@[simp] theorem setDisable_spec (objs : Nat → JobObj) (p : Nat) (b : Bool) (q : Nat) :
    (setDisable objs p b q).spec = (objs q).spec := by unfold setDisable; split <;> rfl
@[simp] theorem setDisable_loc (objs : Nat → JobObj) (p : Nat) (b : Bool) (q : Nat) :
    (setDisable objs p b q).loc = (objs q).loc := by unfold setDisable; split <;> rfl
@[simp] theorem setDisable_same (objs : Nat → JobObj) (p : Nat) (b : Bool) :
    (setDisable objs p b p).disable = b := by simp [setDisable]
theorem setDisable_other (objs : Nat → JobObj) (p : Nat) (b : Bool) (q : Nat) (h : q ≠ p) :
    (setDisable objs p b q).disable = (objs q).disable := by simp [setDisable, h]
@[simp] theorem runsAt_setDisable (objs : Nat → JobObj) (p : Nat) (b : Bool) (q : Nat) (m : Int) :
    runsAt civil (setDisable objs p b q) m = runsAt civil (objs q) m := by simp [runsAt]

/-! ### findJob -/

theorem findJob_some {s : Sched} {name p : Nat} (h : findJob s name = some p) :
    p ∈ s.jobs ∧ (s.objs p).name = name := by
  unfold findJob at h
  exact ⟨List.mem_of_find?_eq_some h, by simpa using List.find?_some h⟩

theorem findJob_none {s : Sched} {name : Nat} (h : findJob s name = none) :
    ∀ q ∈ s.jobs, (s.objs q).name ≠ name := by
  unfold findJob at h
  intro q hq
  have := List.find?_eq_none.mp h q hq
  simpa using this

/-! ### scheduleJob / schedule -/

/-- the jobs c.schedule pushes: enabled and running at `next` -/
def dueList (s : Sched) (next : Int) (l : List Nat) : List Nat :=
  l.filter (fun p => (s.objs p).disable = false && runsAt civil (s.objs p) next)

theorem scheduleJob_proj (s : Sched) (p : Nat) :
    (scheduleJob civil s p).objs = s.objs ∧ (scheduleJob civil s p).nobjs = s.nobjs ∧
    (scheduleJob civil s p).jobs = s.jobs ∧ (scheduleJob civil s p).next = s.next ∧
    (scheduleJob civil s p).spool = s.spool ++ dueList civil s s.next [p] := by
  unfold scheduleJob dueList
  by_cases h1 : (s.objs p).disable = true
  · simp [h1]
  · have h1' : (s.objs p).disable = false := by simpa using h1
    by_cases h2 : runsAt civil (s.objs p) s.next = false
    · simp [h1', h2]
    · have h2' : runsAt civil (s.objs p) s.next = true := by simpa using h2
      simp [h1', h2']

theorem fold_scheduleJob (l : List Nat) (s : Sched) :
    (l.foldl (scheduleJob civil) s).objs = s.objs ∧ (l.foldl (scheduleJob civil) s).nobjs = s.nobjs ∧
    (l.foldl (scheduleJob civil) s).jobs = s.jobs ∧ (l.foldl (scheduleJob civil) s).next = s.next ∧
    (l.foldl (scheduleJob civil) s).spool = s.spool ++ dueList civil s s.next l := by
  induction l generalizing s with
  | nil => simp [dueList]
  | cons p rest ih =>
    obtain ⟨h1, h2, h3, h4, h5⟩ := scheduleJob_proj civil s p
    obtain ⟨i1, i2, i3, i4, i5⟩ := ih (scheduleJob civil s p)
    simp only [List.foldl_cons]
    refine ⟨i1.trans h1, i2.trans h2, i3.trans h3, i4.trans h4, ?_⟩
    rw [i5, h5, h4]
    simp only [dueList, h1, List.filter_cons, List.append_assoc]
    congr 1
    split <;> simp

theorem schedule_proj (s : Sched) (next : Int) :
    (schedule civil s next).objs = s.objs ∧ (schedule civil s next).nobjs = s.nobjs ∧
    (schedule civil s next).jobs = s.jobs ∧ (schedule civil s next).next = next ∧
    (schedule civil s next).spool = s.spool ++ dueList civil s next s.jobs := by
  unfold schedule
  obtain ⟨h1, h2, h3, h4, h5⟩ := fold_scheduleJob civil s.jobs { s with next := next }
  exact ⟨h1, h2, h3, h4, by rw [h5]; rfl⟩

theorem mem_dueList (s : Sched) (next : Int) (l : List Nat) (p : Nat) :
    p ∈ dueList civil s next l ↔ p ∈ l ∧ (s.objs p).disable = false ∧ runsAt civil (s.objs p) next = true := by
  simp [dueList, List.mem_filter]

/-! ### the loop of the timer function -/

theorem fireLoop_spec (objs : Nat → JobObj) (spool fired : List Nat) (hn : fired.Nodup) :
    (fireLoop objs spool fired).Nodup ∧
    ∀ p, p ∈ fireLoop objs spool fired ↔ p ∈ fired ∨ (p ∈ spool ∧ (objs p).disable = false) := by
  induction spool generalizing fired with
  | nil => simp [fireLoop, hn]
  | cons q rest ih =>
    simp only [fireLoop]
    by_cases hd : (objs q).disable = true
    · simp only [hd, if_true]
      obtain ⟨i1, i2⟩ := ih fired hn
      refine ⟨i1, fun p => ?_⟩
      rw [i2 p]
      constructor
      · rintro (h | ⟨h, h'⟩)
        · exact Or.inl h
        · exact Or.inr ⟨List.mem_cons_of_mem _ h, h'⟩
      · rintro (h | ⟨h, h'⟩)
        · exact Or.inl h
        · rcases List.mem_cons.mp h with rfl | h
          · rw [hd] at h'; cases h'
          · exact Or.inr ⟨h, h'⟩
    · have hd' : (objs q).disable = false := by simpa using hd
      simp only [hd', Bool.false_eq_true, if_false]
      by_cases hq : q ∈ fired
      · simp only [hq, if_true]
        obtain ⟨i1, i2⟩ := ih fired hn
        refine ⟨i1, fun p => ?_⟩
        rw [i2 p]
        constructor
        · rintro (h | ⟨h, h'⟩)
          · exact Or.inl h
          · exact Or.inr ⟨List.mem_cons_of_mem _ h, h'⟩
        · rintro (h | ⟨h, h'⟩)
          · exact Or.inl h
          · rcases List.mem_cons.mp h with rfl | h
            · exact Or.inl hq
            · exact Or.inr ⟨h, h'⟩
      · simp only [hq, if_false]
        have hn' : (fired ++ [q]).Nodup := by
          rw [List.nodup_append]
          refine ⟨hn, by simp, ?_⟩
          intro a ha b hb
          simp at hb
          rintro rfl
          exact hq (hb ▸ ha)
        obtain ⟨i1, i2⟩ := ih (fired ++ [q]) hn'
        refine ⟨i1, fun p => ?_⟩
        rw [i2 p]
        simp only [List.mem_append, List.mem_cons, List.not_mem_nil, or_false]
        constructor
        · rintro ((h | rfl) | ⟨h, h'⟩)
          · exact Or.inl h
          · exact Or.inr ⟨Or.inl rfl, hd'⟩
          · exact Or.inr ⟨Or.inr h, h'⟩
        · rintro (h | ⟨rfl | h, h'⟩)
          · exact Or.inl (Or.inl h)
          · exact Or.inl (Or.inr rfl)
          · exact Or.inr ⟨h, h'⟩

/-! ### the invariant -/

structure Inv (s : Sched) : Prop where
  /-- everything in the spool runs at c.next -/
  spool_due : ∀ p ∈ s.spool, runsAt civil (s.objs p) s.next = true
  spool_lt : ∀ p ∈ s.spool, p < s.nobjs
  /-- an object that is not in the map is disabled (RemoveJob sets the flag; nothing clears it again) -/
  absent_disabled : ∀ p, p ∉ s.jobs → (s.objs p).disable = true
  /-- a present, enabled job that runs at c.next is in the spool -/
  due_spooled : ∀ p ∈ s.jobs, (s.objs p).disable = false → runsAt civil (s.objs p) s.next = true → p ∈ s.spool
  jobs_lt : ∀ p ∈ s.jobs, p < s.nobjs
  names_inj : ∀ p ∈ s.jobs, ∀ q ∈ s.jobs, (s.objs p).name = (s.objs q).name → p = q
  jobs_nodup : s.jobs.Nodup

theorem inv_init (next : Int) : Inv civil (init next) := by
  constructor <;> simp [init, JobObj.default]

/-- operations of the public API and the timer function (any wall-clock minute) -/
def Op.isApi : Op → Bool
  | .sched _ | .drain => false
  | _ => true

theorem inv_step (s : Sched) (hs : Inv civil s) (op : Op) (hop : op.isApi = true) :
    Inv civil (step civil s op).1 := by
  cases op with
  | sched n => simp [Op.isApi] at hop
  | drain => simp [Op.isApi] at hop
  | disable name =>
    simp only [step]
    cases hf : findJob s name with
    | none => exact hs
    | some p =>
      obtain ⟨hp, _⟩ := findJob_some hf
      refine ⟨?_, hs.spool_lt, ?_, ?_, hs.jobs_lt, ?_, hs.jobs_nodup⟩
      · intro q hq; simp only [runsAt_setDisable]; exact hs.spool_due q hq
      · intro q hq
        have : q ≠ p := fun e => hq (e ▸ hp)
        simp only [setDisable_other _ _ _ _ this]; exact hs.absent_disabled q hq
      · intro q hq hd hr
        simp only [runsAt_setDisable] at hr
        by_cases e : q = p
        · subst e; simp at hd
        · simp only [setDisable_other _ _ _ _ e] at hd; exact hs.due_spooled q hq hd hr
      · intro a ha b hb; simp only [setDisable_name]; exact hs.names_inj a ha b hb
  | remove name =>
    simp only [step]
    cases hf : findJob s name with
    | none => exact hs
    | some p =>
      obtain ⟨hp, _⟩ := findJob_some hf
      refine ⟨?_, hs.spool_lt, ?_, ?_, ?_, ?_, ?_⟩
      · intro q hq; simp only [runsAt_setDisable]; exact hs.spool_due q hq
      · intro q hq
        simp only [List.mem_filter, decide_eq_true_eq, not_and, Decidable.not_not] at hq
        by_cases e : q = p
        · subst e; simp
        · simp only [setDisable_other _ _ _ _ e]
          exact hs.absent_disabled q (fun h => e (hq h))
      · intro q hq hd hr
        simp only [List.mem_filter, decide_eq_true_eq] at hq
        simp only [runsAt_setDisable] at hr
        simp only [setDisable_other _ _ _ _ hq.2] at hd
        exact hs.due_spooled q hq.1 hd hr
      · intro q hq; exact hs.jobs_lt q (List.mem_filter.mp hq).1
      · intro a ha b hb; simp only [setDisable_name]
        exact hs.names_inj a (List.mem_filter.mp ha).1 b (List.mem_filter.mp hb).1
      · exact hs.jobs_nodup.filter _
  | enable name =>
    simp only [step]
    cases hf : findJob s name with
    | none => exact hs
    | some p =>
      obtain ⟨hp, _⟩ := findJob_some hf
      obtain ⟨h1, h2, h3, h4, h5⟩ := scheduleJob_proj civil { s with objs := setDisable s.objs p false } p
      simp only at h1 h2 h3 h4 h5
      refine ⟨?_, ?_, ?_, ?_, ?_, ?_, ?_⟩
      · intro q hq
        rw [h1, h4, runsAt_setDisable]
        rw [h5] at hq
        rcases List.mem_append.mp hq with hq | hq
        · exact hs.spool_due q hq
        · have := (mem_dueList civil _ _ _ _).mp hq
          simpa using this.2.2
      · intro q hq
        rw [h2]; rw [h5] at hq
        rcases List.mem_append.mp hq with hq | hq
        · exact hs.spool_lt q hq
        · have := ((mem_dueList civil _ _ _ _).mp hq).1
          simp at this; subst this; exact hs.jobs_lt _ hp
      · intro q hq
        rw [h3] at hq; rw [h1]
        have : q ≠ p := fun e => hq (e ▸ hp)
        simp only [setDisable_other _ _ _ _ this]; exact hs.absent_disabled q hq
      · intro q hq hd hr
        rw [h3] at hq; rw [h1] at hd hr; rw [h4] at hr; rw [h5]
        simp only [runsAt_setDisable] at hr
        by_cases e : q = p
        · subst e
          apply List.mem_append_right
          rw [mem_dueList]
          simp [hr]
        · simp only [setDisable_other _ _ _ _ e] at hd
          exact List.mem_append_left _ (hs.due_spooled q hq hd hr)
      · intro q hq; rw [h3] at hq; rw [h2]; exact hs.jobs_lt q hq
      · intro a ha b hb; rw [h3] at ha hb; rw [h1]; simp only [setDisable_name]; exact hs.names_inj a ha b hb
      · rw [h3]; exact hs.jobs_nodup
  | tick now =>
    simp only [step]
    obtain ⟨h1, h2, h3, h4, h5⟩ := schedule_proj civil { s with spool := [] } (now + 1)
    simp only [List.nil_append] at h1 h2 h3 h4 h5
    refine ⟨?_, ?_, ?_, ?_, ?_, ?_, ?_⟩
    · intro q hq; rw [h5] at hq; rw [h1, h4]
      exact ((mem_dueList civil _ _ _ _).mp hq).2.2
    · intro q hq; rw [h5] at hq; rw [h2]
      exact hs.jobs_lt q ((mem_dueList civil _ _ _ _).mp hq).1
    · intro q hq; rw [h3] at hq; rw [h1]; exact hs.absent_disabled q hq
    · intro q hq hd hr; rw [h3] at hq; rw [h1] at hd hr; rw [h4] at hr; rw [h5]
      exact (mem_dueList civil _ _ _ _).mpr ⟨hq, hd, hr⟩
    · intro q hq; rw [h3] at hq; rw [h2]; exact hs.jobs_lt q hq
    · intro a ha b hb; rw [h3] at ha hb; rw [h1]; exact hs.names_inj a ha b hb
    · rw [h3]; exact hs.jobs_nodup
  | add name text loc =>
    simp only [step]
    by_cases hn : name = 0
    · simp only [hn, if_true]; exact hs
    · simp only [hn, if_false]
      cases hpz : parseSpec text with
      | none => exact hs
      | some spec =>
        cases hf : findJob s name with
        | some _ => exact hs
        | none =>
          have hfree := findJob_none hf
          simp only
          have hnew : s.nobjs ∉ s.jobs := fun h => Nat.lt_irrefl _ (hs.jobs_lt _ h)
          obtain ⟨h1, h2, h3, h4, h5⟩ := scheduleJob_proj civil
            { s with objs := fun q => if q = s.nobjs then ⟨name, spec, loc, false⟩ else s.objs q,
                     nobjs := s.nobjs + 1, jobs := s.jobs ++ [s.nobjs] } s.nobjs
          simp only at h1 h2 h3 h4 h5
          have old : ∀ q, q ≠ s.nobjs → (if q = s.nobjs then (⟨name, spec, loc, false⟩ : JobObj) else s.objs q) = s.objs q := by
            intro q hq; simp [hq]
          refine ⟨?_, ?_, ?_, ?_, ?_, ?_, ?_⟩
          · intro q hq
            rw [h1, h4]; rw [h5] at hq
            rcases List.mem_append.mp hq with hq | hq
            · have : q ≠ s.nobjs := Nat.ne_of_lt (hs.spool_lt q hq)
              simp only [old q this]; exact hs.spool_due q hq
            · exact ((mem_dueList civil _ _ _ _).mp hq).2.2
          · intro q hq
            rw [h2]; rw [h5] at hq
            rcases List.mem_append.mp hq with hq | hq
            · exact Nat.lt_succ_of_lt (hs.spool_lt q hq)
            · have := ((mem_dueList civil _ _ _ _).mp hq).1
              simp at this; omega
          · intro q hq
            rw [h3] at hq; rw [h1]
            simp only [List.mem_append, List.mem_singleton, not_or] at hq
            simp only [old q hq.2]; exact hs.absent_disabled q hq.1
          · intro q hq hd hr
            rw [h3] at hq; rw [h1] at hd hr; rw [h4] at hr; rw [h5]
            rcases List.mem_append.mp hq with hq | hq
            · have hne : q ≠ s.nobjs := Nat.ne_of_lt (hs.jobs_lt q hq)
              simp only [old q hne] at hd hr
              exact List.mem_append_left _ (hs.due_spooled q hq hd hr)
            · simp at hq; subst hq
              apply List.mem_append_right
              rw [mem_dueList]
              exact ⟨by simp, hd, hr⟩
          · intro q hq; rw [h3] at hq; rw [h2]
            rcases List.mem_append.mp hq with hq | hq
            · exact Nat.lt_succ_of_lt (hs.jobs_lt q hq)
            · simp at hq; omega
          · intro a ha b hb
            rw [h3] at ha hb; rw [h1]
            rcases List.mem_append.mp ha with ha | ha <;> rcases List.mem_append.mp hb with hb | hb
            · have ea : a ≠ s.nobjs := Nat.ne_of_lt (hs.jobs_lt a ha)
              have eb : b ≠ s.nobjs := Nat.ne_of_lt (hs.jobs_lt b hb)
              simp only [old a ea, old b eb]; exact hs.names_inj a ha b hb
            · have ea : a ≠ s.nobjs := Nat.ne_of_lt (hs.jobs_lt a ha)
              simp at hb; subst hb
              simp only [old a ea, if_true]
              intro h; exact absurd h (hfree a ha)
            · have eb : b ≠ s.nobjs := Nat.ne_of_lt (hs.jobs_lt b hb)
              simp at ha; subst ha
              simp only [old b eb, if_true]
              intro h; exact absurd h.symm (hfree b hb)
            · simp at ha hb; intro _; rw [ha, hb]
          · rw [h3, List.nodup_append]
            refine ⟨hs.jobs_nodup, by simp, ?_⟩
            intro a ha b hb
            simp at hb; subst hb
            rintro rfl; exact hnew ha

/-! ### what a tick fires -/

/-- the pointers fired by the timer function running at wall-clock minute `now` in state `s` -/
def firedAt (s : Sched) (now : Int) : List Nat :=
  match (step civil s (.tick now)).2 with
  | .fired ps => ps
  | _ => []

theorem firedAt_eq (s : Sched) (now : Int) :
    firedAt civil s now = if now = s.next then fireLoop s.objs s.spool [] else [] := by
  simp [firedAt, step]

theorem fired_iff (s : Sched) (hs : Inv civil s) (now : Int) :
    (firedAt civil s now).Nodup ∧
    ∀ p, p ∈ firedAt civil s now ↔
      (now = s.next ∧ p ∈ s.jobs ∧ (s.objs p).disable = false ∧ runsAt civil (s.objs p) now = true) := by
  rw [firedAt_eq]
  by_cases hn : now = s.next
  · simp only [hn, if_true, true_and]
    obtain ⟨f1, f2⟩ := fireLoop_spec s.objs s.spool [] List.nodup_nil
    refine ⟨f1, fun p => ?_⟩
    rw [f2 p]
    simp only [List.not_mem_nil, false_or]
    constructor
    · rintro ⟨h1, h2⟩
      refine ⟨?_, h2, hs.spool_due p h1⟩
      apply Classical.byContradiction
      intro hnot
      have := hs.absent_disabled p hnot
      rw [h2] at this; cases this
    · rintro ⟨h1, h2, h3⟩
      exact ⟨hs.due_spooled p h1 h2 h3, h2⟩
  · simp [hn]

end ErgoVerif.CronSched

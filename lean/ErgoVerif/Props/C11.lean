import ErgoVerif.Lemmas.EdfTop
import ErgoVerif.Lemmas.HsCache
import ErgoVerif.Lemmas.EdfRep
import ErgoVerif.Lemmas.EdfExcl
/-!
# C11 — EDF round trip

`Model/Edf.lean` mirrors net/edf (encode.go, decode.go, register.go, init.go) after the `fix:` commits for
D3 (`%` in error texts), D4 (uint16 wrap for strings of 65534/65535 bytes), D4b (uint32 wrap in
decodeBinary / Marshaler decoders), D26 (Marshaler length written into a stale buffer), D27 (map keyed by an
array type could not be decoded) and D31 (registered map: count checked after MakeMapWithSize).

* `C11_roundtrip` / `C11_top`: for every type, every value the encoder accepts, every trailing byte string
  and every consistent cache configuration the decoder returns the value and exactly the trailing bytes.
* The hypothesis `Good o t v` collects (a) what every Go value satisfies (`WF`: dynamic types are registered,
  map keys distinct, lengths < 2^32) and is in canonical form (quiet float32 NaN, atoms fixed by the
  mappings, sentinels in the error cache — see `C11_float32`, `C11_atom`, `C11_sentinel_uncached` for
  what happens otherwise) and (b) one region where the CURRENT code does not round-trip: non-empty collections of
  zero-width elements.  For (b) the full statement `C11_full` is refuted by `C11_counterexample` (listed finding
  C11/zero-width-elements); `C11_partial` is the theorem with (b) excluded.  (The second region found by this
  check, maps keyed by an array type, was repaired: `C11_map_array_key_fixed`.)
* `C11_reject_*`: the encoder rejects exactly the listed over-long cases.
-/
namespace ErgoVerif.Props.C11
open ErgoVerif.Edf ErgoVerif.Generated.Edt

/-- body level: `decoder.Decode (encoder.Encode v ++ rest) = (v, rest)` for every type, value, fuel ≥ depth -/
theorem C11_roundtrip (o : Opts) (hc : CachesConsistent o) (t : Ty) (v : Val) (bs rest : Bytes) (fuel : Nat)
    (he : encB o t v = some bs) (hg : Good o t v) (hf : v.depth ≤ fuel) :
    dec o fuel false t (bs ++ rest) = .ok (v, rest) :=
  dec_encB o hc v t bs rest fuel he hg hf

/-- public API: `edf.Decode (edf.Encode v ++ rest) = (v, rest)`: same value, same dynamic type, exact consumption -/
theorem C11_top (o : Opts) (hc : CachesConsistent o) (t : Ty) (v : Val) (bs rest : Bytes) (fuel : Nat)
    (he : encode o t v = some bs) (hd : DescOK o t) (hl : (encTy o t).length < 65536) (hg : Good o t v)
    (hf : v.depth ≤ fuel) : decode o fuel (bs ++ rest) = .ok (some (t, v), rest) := by
  unfold decode; rw [decodeRaw_encode o hc t v bs rest fuel he hd hl hg hf]; rfl

/-- the full statement: every well-formed canonical value the encoder accepts comes back -/
def C11_full : Prop :=
  ∀ (o : Opts) (t : Ty) (v : Val) (bs rest : Bytes) (fuel : Nat), CachesConsistent o → DescWF o t →
    (encTy o t).length < 65536 → WF o t v → encode o t v = some bs → v.depth ≤ fuel →
    decode o fuel (bs ++ rest) = .ok (some (t, v), rest)

/-- strongest statement that holds for the current code: `Good` = `WF` minus zero-width elements in non-empty
    slices/maps/arrays (`DescOK` = `DescWF` since the D27 fix) -/
theorem C11_partial (o : Opts) (t : Ty) (v : Val) (bs rest : Bytes) (fuel : Nat) (hc : CachesConsistent o)
    (hd : DescOK o t) (hl : (encTy o t).length < 65536) (hg : Good o t v) (he : encode o t v = some bs)
    (hf : v.depth ≤ fuel) : decode o fuel (bs ++ rest) = .ok (some (t, v), rest) :=
  C11_top o hc t v bs rest fuel he hd hl hg hf

/-- the same with the exclusion spelled out: the hypotheses of `C11_full` plus `Excl` (no non-empty collection of
    zero-width elements) — `Good` is exactly `WF ∧ Excl` -/
theorem C11_partial_explicit (o : Opts) (t : Ty) (v : Val) (bs rest : Bytes) (fuel : Nat) (hc : CachesConsistent o)
    (hd : DescWF o t) (hl : (encTy o t).length < 65536) (hw : WF o t v) (hx : Excl t v)
    (he : encode o t v = some bs) (hf : v.depth ≤ fuel) : decode o fuel (bs ++ rest) = .ok (some (t, v), rest) :=
  C11_partial o t v bs rest fuel hc (DescOK_of_WF o t hd) hl (Good_of_WF o v t hw hx) he hf

-- ------------------------------------------------------------------------------------------------
-- concrete options for witnesses and non-vacuity: no caches, two registered types
-- ------------------------------------------------------------------------------------------------

/-- "#main/ZS" : `type ZS struct{}` -/
def zsName : Bytes := [0x23, 0x6d, 0x61, 0x69, 0x6e, 0x2f, 0x5a, 0x53]
def zsTy : Ty := .struct zsName .nil
/-- "#m/P" : `type P struct { A string; B []int16; C any }` -/
def pName : Bytes := [0x23, 0x6d, 0x2f, 0x50]
def pTy : Ty := .struct pName (.cons .str (.cons (.slice (.num .i16)) (.cons .any .nil)))

def o0 : Opts where
  atomId := fun _ => none
  atomOf := fun _ => none
  emap := id
  dmap := id
  regId := fun _ => none
  regOf := fun _ => none
  reg := fun nm => if nm = zsName then some zsTy else if nm = pName then some pTy else none
  errId := fun _ => none
  errOf := fun _ => none
  errText := fun _ => []

theorem o0_consistent : CachesConsistent o0 := ⟨by simp [o0], by simp [o0], by simp [o0]⟩

/-- with atom, type and error caches: atom "ab" ↔ 300, type P ↔ 5000, sentinel 0 ↔ 40000 -/
def o1 : Opts where
  atomId := fun a => if a = [0x61, 0x62] then some 300 else none
  atomOf := fun i => if i = 300 then some [0x61, 0x62] else none
  emap := id
  dmap := id
  regId := fun nm => if nm = pName then some 5000 else none
  regOf := fun i => if i = 5000 then some pName else none
  reg := fun nm => if nm = zsName then some zsTy else if nm = pName then some pTy else none
  errId := fun k => if k = 0 then some 40000 else none
  errOf := fun i => if i = 40000 then some (.errSent 0) else none
  errText := fun _ => [0x65]

theorem o1_consistent : CachesConsistent o1 := by
  refine ⟨?_, ?_, ?_⟩
  · intro a id h _; simp only [o1] at h ⊢; split at h <;> simp at h; subst h; simp_all
  · intro nm id h; simp only [o1] at h ⊢; split at h <;> simp at h; subst h; simp_all [limRegIdDec]
  · intro k id h _; simp only [o1] at h ⊢; split at h <;> simp at h; subst h; simp_all

-- ------------------------------------------------------------------------------------------------
-- counterexamples to the full statement (current code)
-- ------------------------------------------------------------------------------------------------

/-- `[]ZS{{}}`: one element of zero wire width; the decoder's `n > len(packet)` guard rejects it -/
def zwVal : Val := .list (.cons (.list .nil) .nil)

theorem zw_encodes : encode o0 (.slice zsTy) zwVal = some [130, 0, 12, 157, 131, 0, 8, 0x23, 0x6d, 0x61, 0x69, 0x6e, 0x2f, 0x5a, 0x53, 157, 0, 0, 0, 1] := by
  decide
theorem zw_fails : decode o0 4 ([130, 0, 12, 157, 131, 0, 8, 0x23, 0x6d, 0x61, 0x69, 0x6e, 0x2f, 0x5a, 0x53, 157, 0, 0, 0, 1] ++ []) = .err := by
  decide

theorem C11_counterexample : ¬ C11_full := by
  intro h
  have := h o0 (.slice zsTy) zwVal _ [] 4 o0_consistent
    (by simp [DescWF, zsTy, RegOK, o0, zsName]) (by decide)
    (by simp [zwVal, WF, WFs, WFf, zsTy, lim32, Vals.length]) zw_encodes (by decide)
  rw [zw_fails] at this
  exact absurd this (by decide)

/-- `any(map[[1]uint8]bool{})`: refused before the fix 07a18f8 (D27: the array case of decodeType insisted on ending
    the fold); now the descriptor 9f 9e 00000001 97 91 unfolds and the value comes back — covered by `C11_top` like
    every other type (`DescOK` no longer excludes anything a Go map key type can be) -/
def makTy : Ty := .map (.array 1 (.num .u8)) .bool

theorem C11_map_array_key_fixed :
    encode o0 makTy (.map .nil) = some [130, 0, 8, 159, 158, 0, 0, 0, 1, 151, 145, 159, 0, 0, 0, 0] ∧
    decode o0 4 ([130, 0, 8, 159, 158, 0, 0, 0, 1, 151, 145, 159, 0, 0, 0, 0] ++ [7]) = .ok (some (makTy, .map .nil), [7]) := by
  constructor <;> decide

-- ------------------------------------------------------------------------------------------------
-- rejection: the encoder returns an error exactly on the listed over-long cases
-- ------------------------------------------------------------------------------------------------

/-- The encoder returns an error exactly on the unrepresentable values: `Rep` (Lemmas/EdfRep.lean) says the value
    has the shape of its type — recursively through slices, arrays (length = the type's length), maps, struct
    fields, interface values (dynamic type encodable, i.e. no array type longer than 2^32-1) — and every leaf is
    within its wire limit: string ≤ 65535, binary ≤ 2^32-1, atom and node/name atoms of identifiers ≤ 255,
    error text ≤ 32767 (a sentinel: in the error cache or text ≤ 32767), time = a valid MarshalBinary image,
    marshaler payload ≤ 2^32-2.  Nothing else is rejected, and nothing unrepresentable is accepted. -/
theorem C11_reject (o : Opts) (t : Ty) (v : Val) : encB o t v = none ↔ ¬ Rep o t v := by
  rw [← encB_rep o v t]
  cases encB o t v <;> simp

theorem C11_reject_top (o : Opts) (t : Ty) (v : Val) :
    encode o t v = none ↔ ¬ (t.encodable = true ∧ t ≠ .any ∧ ¬ (t = .error ∧ v = .nil) ∧ Rep o t v) := by
  rw [← encB_rep o v t]
  unfold encode
  by_cases h1 : t.encodable = true <;> by_cases h2 : t = .any <;> by_cases h3 : (t = .error ∧ v = .nil)
  all_goals (try (obtain ⟨h3a, h3b⟩ := h3))
  all_goals (try (subst h3a; subst h3b))
  all_goals (try (subst h2))
  all_goals (simp_all)
  all_goals (cases encB o t v <;> simp_all)
  all_goals (by_cases hx : t = .error <;> simp_all)

theorem C11_reject_string (o : Opts) (s : Bytes) : encB o .str (.str s) = none ↔ s.length > 65535 := by
  simp [encB, encLeaf, limStringEnc]
theorem C11_reject_binary (o : Opts) (s : Bytes) : encB o .bin (.bin s) = none ↔ s.length > 4294967295 := by
  simp [encB, encLeaf, limBinaryEnc]
theorem C11_reject_atom (o : Opts) (a : Bytes) : encB o .atom (.atom a) = none ↔ a.length > 255 := by
  simp [encB, encLeaf, limAtomEnc]
theorem C11_reject_error (o : Opts) (s : Bytes) : encB o .error (.errText s) = none ↔ s.length > 32767 := by
  simp [encB, encLeaf, limErrorEnc]
theorem C11_reject_idr (o : Opts) (k : IdR) (node raw : Bytes) (hr : raw.length = k.rawLen) :
    encB o (.idr k) (.idr node raw) = none ↔ node.length > 255 := by
  simp [encB, encLeaf, limAtomPidEnc, hr]
theorem C11_reject_idn (o : Opts) (k : IdN) (node name : Bytes) :
    encB o (.idn k) (.idn node name) = none ↔ node.length > 255 ∨ name.length > 255 := by
  simp only [encB, encLeaf, limAtomPidEnc]
  by_cases h1 : node.length > 255 <;> by_cases h2 : name.length > 255 <;> simp [h1, h2]
theorem C11_reject_marshaler (o : Opts) (nm : Bytes) (sz : Nat) (p : Bytes) :
    encB o (.marsh nm sz) (.opaque p) = none ↔ p.length > 4294967294 := by
  simp [encB, limBinaryEnc]
/-- getEncoder refuses array types longer than MaxUint32 -/
theorem C11_reject_array (o : Opts) (n : Nat) (t : Ty) (v : Val) (h : n > 4294967295) : encode o (.array n t) v = none := by
  have : ¬ n ≤ limBinaryEnc := by simp [limBinaryEnc]; omega
  simp [encode, Ty.encodable, this]
/-- a rejected element rejects the whole slice / interface value (no partial bytes are accepted) -/
theorem C11_reject_propagates_slice (o : Opts) (t : Ty) (v : Val) (vs : Vals) (h : encB o t v = none) :
    encB o (.slice t) (.list (.cons v vs)) = none := by
  simp [encB, encs, h]
theorem C11_reject_propagates_any (o : Opts) (t : Ty) (v : Val) (h : encB o t v = none) :
    encB o .any (.any t v) = none := by
  simp [encB, h]

-- ------------------------------------------------------------------------------------------------
-- what comes back when the value is not canonical (by design of the codec, not defects)
-- ------------------------------------------------------------------------------------------------

/-- float32 travels through float64 (`float32(value.Float())` / `SetFloat(float64(..))`): what comes back is
    the quieted bit pattern; every non-signalling value comes back bit for bit -/
theorem C11_float32 (o : Opts) (a b c d : UInt8) (rest : Bytes) (fuel : Nat) :
    encB o (.num .f32) (.num [a, b, c, d]) = some (quiet32 [a, b, c, d]) ∧
      dec o (fuel + 1) false (.num .f32) (quiet32 [a, b, c, d] ++ rest) = .ok (.num (quiet32 [a, b, c, d]), rest) := by
  constructor
  · simp [encB, encLeaf, numCanon, Num.width]
  · have hq := quiet32_idem a b c d
    rcases quiet32_shape a b c d with h | h <;> rw [h] at hq ⊢ <;>
      simp [dec, Ty.leafTag, checkTag, decLeaf, numCanon, Num.width, hq]

/-- atoms: the receiver sees `dmap (emap a)` — the two AtomMappings applied in turn; with the identity
    mappings (or mappings that are inverse on `a`) the atom itself -/
theorem C11_atom (o : Opts) (hc : CachesConsistent o) (a rest : Bytes) (hl : (o.emap a).length ≤ 255) :
    readAtom o (writeAtom o a ++ rest) = .ok (o.dmap (o.emap a), rest) :=
  readAtom_writeAtom' o hc a rest hl

/-- a registered sentinel in the error cache comes back as the same sentinel -/
theorem C11_sentinel (o : Opts) (hc : CachesConsistent o) (k id : Nat) (hid : o.errId k = some id) (hgt : id > 32767)
    (rest : Bytes) (fuel : Nat) :
    ∃ e, encB o .error (.errSent k) = some e ∧ dec o (fuel + 1) false .error (e ++ rest) = .ok (.errSent k, rest) := by
  have hg : Good o .error (.errSent k) := by simp only [Good, LeafGood]; exact ⟨id, hid, by simpa [limErrIdEnc] using hgt⟩
  cases he : encB o .error (.errSent k) with
  | none => simp [encB, encLeaf, hid, limErrIdEnc, hgt] at he
  | some e => exact ⟨e, rfl, dec_encB o hc _ _ e rest (fuel + 1) he hg (by simp [Val.depth])⟩

/-- a sentinel that is NOT in the error cache travels as its text and comes back as a plain text error -/
theorem C11_sentinel_uncached (o : Opts) (k : Nat) (hid : o.errId k = none) (hl : (o.errText k).length ≤ 32767)
    (rest : Bytes) (fuel : Nat) :
    ∃ e, encB o .error (.errSent k) = some e ∧
      dec o (fuel + 1) false .error (e ++ rest) = .ok (.errText (o.errText k), rest) := by
  refine ⟨be16 (o.errText k).length ++ o.errText k, by simp [encB, encLeaf, hid, limErrorEnc]; omega, ?_⟩
  have h1 : ¬ (o.errText k).length = errNilId := by simp [errNilId]; omega
  have h2 : ¬ (o.errText k).length > limErrIdDec := by simp [limErrIdDec]; omega
  simp [dec, Ty.leafTag, checkTag, decLeaf, List.append_assoc, rd16_be16 _ (show (o.errText k).length < 65536 by omega), h1, h2]

-- ------------------------------------------------------------------------------------------------
-- non-vacuity: the hypotheses of the theorems are satisfiable, with and without caches
-- ------------------------------------------------------------------------------------------------

/-- `P{A: "hi", B: []int16{1, -1}, C: any([]string(nil))}` -/
def pVal : Val :=
  .list (.cons (.str [0x68, 0x69]) (.cons (.list (.cons (.num [0, 1]) (.cons (.num [0xff, 0xff]) .nil)))
    (.cons (.any (.slice .str) .nil) .nil)))

example : Good o0 pTy pVal := by
  simp [pTy, pVal, Good, Goodf, Goods, LeafGood, DescOK, numCanon, lim32, Vals.length, Ty.nz, encTy]
example : DescOK o0 pTy := by simp [DescOK, pTy, RegOK, o0, pName, zsName]
example : Good o1 pTy pVal := by
  simp [pTy, pVal, Good, Goodf, Goods, LeafGood, DescOK, numCanon, lim32, Vals.length, Ty.nz, encTy]
example : DescOK o1 pTy := by simp [DescOK, pTy, RegOK, o1, pName, zsName]
/-- the same value with and without the type cache: 3-byte cache id instead of the name -/
example : encode o0 pTy pVal = some [131, 0, 4, 0x23, 0x6d, 0x2f, 0x50, 0, 2, 0x68, 0x69, 157, 0, 0, 0, 2, 0, 1, 0xff, 0xff, 130, 0, 2, 157, 141, 255] := by decide
example : encode o1 pTy pVal = some [131, 0x13, 0x88, 0, 2, 0x68, 0x69, 157, 0, 0, 0, 2, 0, 1, 0xff, 0xff, 130, 0, 2, 157, 141, 255] := by decide
example : decode o1 5 [131, 0x13, 0x88, 0, 2, 0x68, 0x69, 157, 0, 0, 0, 2, 0, 1, 0xff, 0xff, 130, 0, 2, 157, 141, 255, 7] = .ok (some (pTy, pVal), [7]) := by decide
/-- cached atom and cached sentinel -/
example : encode o1 .atom (.atom [0x61, 0x62]) = some [140, 1, 44] := by decide
example : encode o1 .error (.errSent 0) = some [156, 0x9c, 0x40] := by decide
example : Good o1 .error (.errSent 0) := by simp [Good, LeafGood, o1, limErrIdEnc]
/-- `Rep`: the value above is representable; a 256-byte atom inside it is not -/
example : Rep o0 pTy pVal := by
  simp [pTy, pVal, Rep, Repf, Reps, LeafRep, Num.width, Ty.encodable]
example : ¬ Rep o0 (.slice .atom) (.list (.cons (.atom (List.replicate 256 0x61)) .nil)) := by
  simp only [Rep, Reps, LeafRep, List.length_replicate]; omega
/-- nil and empty stay apart -/
example : encode o0 (.slice .str) .nil ≠ encode o0 (.slice .str) (.list .nil) := by decide
example : encode o0 (.map .str .bool) .nil ≠ encode o0 (.map .str .bool) (.map .nil) := by decide

-- ------------------------------------------------------------------------------------------------
-- the caches two nodes negotiate are consistent (net/handshake/handshake.go:134-206)
-- ------------------------------------------------------------------------------------------------

open ErgoVerif.HsCache in
/-- The sender inverts its own id → value tables into encode caches, the receiver builds its decode caches from
    the very tables the sender announced.  With the ids the registration functions hand out (atoms 256.., types
    4096.., errors 32768..65534, all distinct) the result satisfies `CachesConsistent`, the hypothesis of the
    round-trip theorems — for every content of the tables. -/
theorem C11_handshake_caches (o : Opts) (atoms types : List (Nat × Bytes)) (errs : List (Nat × Nat))
    (ha : (atoms.map (·.1)).Nodup) (ht : (types.map (·.1)).Nodup) (he : (errs.map (·.1)).Nodup)
    (ra : ∀ e ∈ atoms, e.1 < 65536) (rt : ∀ e ∈ types, 4095 < e.1 ∧ e.1 < 65536) (re : ∀ e ∈ errs, e.1 < 65535)
    (h1 : o.atomId = encodeCache atoms) (h2 : o.atomOf = decodeCache atoms)
    (h3 : o.regId = encodeCache types) (h4 : o.regOf = decodeCache types)
    (h5 : o.errId = encodeCache errs) (h6 : o.errOf = fun id => (decodeCache errs id).map Val.errSent) :
    CachesConsistent o := by
  have mem : ∀ {α : Type} [DecidableEq α] (tbl : List (Nat × α)) (a : α) (k : Nat),
      encodeCache tbl a = some k → ∃ e ∈ tbl, e.1 = k := by
    intro α _ tbl a k h
    simp only [encodeCache, Option.map_eq_some_iff] at h
    obtain ⟨x, hx, rfl⟩ := h
    exact ⟨x, List.mem_of_find?_eq_some hx, rfl⟩
  refine ⟨?_, ?_, ?_⟩
  · intro a id h _
    rw [h1] at h
    obtain ⟨e, hm, rfl⟩ := mem atoms a id h
    exact ⟨ra e hm, by rw [h2]; exact decode_encode atoms ha a _ h⟩
  · intro nm id h
    rw [h3] at h
    obtain ⟨e, hm, rfl⟩ := mem types nm id h
    exact ⟨by simpa [limRegIdDec] using (rt e hm).1, (rt e hm).2, by rw [h4]; exact decode_encode types ht nm _ h⟩
  · intro k id h _
    rw [h5] at h
    obtain ⟨e, hm, rfl⟩ := mem errs k id h
    exact ⟨re e hm, by rw [h6]; simp [decode_encode errs he k _ h]⟩

end ErgoVerif.Props.C11

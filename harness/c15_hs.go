package main

import (
	"bytes"
	"crypto/sha256"
	"encoding/binary"
	"fmt"
	"net"
	"strings"
	"sync"

	"ergo.services/ergo/gen"
	"ergo.services/ergo/net/edf"
	"ergo.services/ergo/net/handshake"
)

// K5 on the real handshake code (handshake.Create(...).Start / Accept / Join over net.Pipe).
//
//  honest runs   every cookie/flags/size/name combination: outcome and result fields of both ends vs
//                Model.Handshake, and every digest on the wire vs the model's symbolic term evaluated
//                with real SHA-256 (salts and ids bound to what was on the wire)
//  adversary     a peer without the cookie that has recorded honest sessions: verbatim replay at every
//                step, recombination of recorded fields (type flaws: a digest of one site as salt/id/digest
//                of another, values re-split at colons), echoes of what the victim just sent, hashes
//                made without the cookie, wrong message types, garbage and truncation. The same script goes
//                to the model (symbolically) and to the real code (bytes); compared: error class / result.
//                Independent oracle: the victim never completes (Join replays are classified by signature).

func init() { c15parts = append(c15parts, runC15Hs) }

// ---------------------------------------------------------------------------------------------
// symbolic terms -> strings
// ---------------------------------------------------------------------------------------------

type bindings struct {
	nonce  map[int]string
	cookie map[int]string
}

// evalField evaluates "N1:H(N2:C1)" to the Go string it stands for.
func (b *bindings) evalField(s string) (string, error) {
	out, rest, err := b.evalAtoms(s)
	if err != nil {
		return "", err
	}
	if rest != "" {
		return "", fmt.Errorf("trailing %q", rest)
	}
	return out, nil
}

func (b *bindings) evalAtoms(s string) (string, string, error) {
	var parts []string
	for {
		var a string
		var err error
		a, s, err = b.evalAtom(s)
		if err != nil {
			return "", "", err
		}
		parts = append(parts, a)
		if strings.HasPrefix(s, ":") {
			s = s[1:]
			continue
		}
		return strings.Join(parts, ":"), s, nil
	}
}

func (b *bindings) evalAtom(s string) (string, string, error) {
	if len(s) == 0 {
		return "", "", fmt.Errorf("empty atom")
	}
	switch s[0] {
	case 'N', 'C':
		i := 1
		n := 0
		for i < len(s) && s[i] >= '0' && s[i] <= '9' {
			n = n*10 + int(s[i]-'0')
			i++
		}
		if i == 1 {
			return "", "", fmt.Errorf("bad atom %q", s)
		}
		m := b.nonce
		if s[0] == 'C' {
			m = b.cookie
		}
		v, ok := m[n]
		if !ok {
			return "", "", fmt.Errorf("unbound %s", s[:i])
		}
		return v, s[i:], nil
	case 'H':
		if !strings.HasPrefix(s, "H(") {
			return "", "", fmt.Errorf("bad atom %q", s)
		}
		inner, rest, err := b.evalAtoms(s[2:])
		if err != nil {
			return "", "", err
		}
		if !strings.HasPrefix(rest, ")") {
			return "", "", fmt.Errorf("missing ) in %q", s)
		}
		h := sha256.Sum256([]byte(inner))
		return fmt.Sprintf("%x", h[:]), rest[1:], nil
	}
	return "", "", fmt.Errorf("bad atom %q", s)
}

// ---------------------------------------------------------------------------------------------
// connections
// ---------------------------------------------------------------------------------------------

// recConn records everything written and re-cuts writes into PRNG-sized segments.
type recConn struct {
	net.Conn
	mu  sync.Mutex
	rec bytes.Buffer
	rng *Rng
}

func (c *recConn) Write(p []byte) (int, error) {
	c.mu.Lock()
	c.rec.Write(p)
	c.mu.Unlock()
	done := 0
	for done < len(p) {
		k := len(p) - done
		if c.rng != nil {
			switch c.rng.Intn(4) {
			case 0:
				k = 1
			case 1:
				k = 1 + c.rng.Intn(7)
			case 2:
				k = 1 + c.rng.Intn(200)
			}
			if k > len(p)-done {
				k = len(p) - done
			}
		}
		n, err := c.Conn.Write(p[done : done+k])
		done += n
		if err != nil {
			return done, err
		}
	}
	return done, nil
}

// splitFrames decodes a recorded byte stream into handshake messages.
func splitFrames(b []byte) ([]any, error) {
	var out []any
	for len(b) > 0 {
		if len(b) < 6 || b[0] != 87 || b[1] != 1 {
			return out, fmt.Errorf("bad frame header")
		}
		l := int(binary.BigEndian.Uint32(b[2:6]))
		if len(b) < 6+l {
			return out, fmt.Errorf("short frame")
		}
		v, _, err := edf.Decode(b[6:6+l], edf.Options{})
		if err != nil {
			return out, err
		}
		out = append(out, v)
		b = b[6+l:]
	}
	return out, nil
}

func flagsNum(f gen.NetworkFlags) int {
	if !f.Enable {
		return 0
	}
	n := 1
	for i, b := range []bool{f.EnableRemoteSpawn, f.EnableRemoteApplicationStart, f.EnableFragmentation, f.EnableProxyTransit, f.EnableProxyAccept, f.EnableImportantDelivery} {
		if b {
			n |= 2 << uint(i)
		}
	}
	return n
}

func flagsOf(n int) gen.NetworkFlags {
	if n&1 == 0 {
		return gen.NetworkFlags{}
	}
	return gen.NetworkFlags{Enable: true, EnableRemoteSpawn: n&2 != 0, EnableRemoteApplicationStart: n&4 != 0, EnableFragmentation: n&8 != 0,
		EnableProxyTransit: n&16 != 0, EnableProxyAccept: n&32 != 0, EnableImportantDelivery: n&64 != 0}
}

var hsVersions = []gen.Version{{}, {Name: "verif", Release: "1"}, {Name: "other", Release: "2.0", License: "MIT"}}
var hsCookies = map[int]string{1: "alpha-cookie", 2: "beta", 3: "with:colon", 4: "alpha-cookie "}

func versionNum(v gen.Version) int {
	for i, x := range hsVersions {
		if x == v {
			return i
		}
	}
	return -1
}

type hsCfg struct {
	Name     int `json:"name"`
	Creation int `json:"creation"`
	Flags    int `json:"flags"`
	Max      int `json:"max"`
	Version  int `json:"version"`
	Cookie   int `json:"cookie"`
}

func (c hsCfg) line() string {
	return fmt.Sprintf("%d,%d,%d,%d,%d,%d", c.Name, c.Creation, c.Flags, c.Max, c.Version, c.Cookie)
}
func (c hsCfg) atom() gen.Atom { return gen.Atom(fmt.Sprintf("node%d@host", c.Name)) }
func (c hsCfg) node() *hsNodeV {
	return &hsNodeV{hsNode{name: c.atom(), creation: int64(c.Creation)}, hsVersions[c.Version]}
}
func (c hsCfg) opts() gen.HandshakeOptions {
	return gen.HandshakeOptions{Cookie: hsCookies[c.Cookie], Flags: flagsOf(c.Flags), MaxMessageSize: c.Max}
}

type hsNodeV struct {
	hsNode
	v gen.Version
}

func (n *hsNodeV) Version() gen.Version { return n.v }

func nameNum(a gen.Atom) int {
	var n int
	if _, err := fmt.Sscanf(string(a), "node%d@host", &n); err != nil {
		return -1
	}
	return n
}

// isTimeout: the error is a read-deadline expiry (the handshake code uses 1 s deadlines)
func isTimeout(err error) bool {
	if err == nil {
		return false
	}
	if ne, ok := err.(net.Error); ok && ne.Timeout() {
		return true
	}
	return strings.Contains(err.Error(), "timeout") || strings.Contains(err.Error(), "deadline")
}

func hsErrKind(err error) string {
	if err == nil {
		return "ok"
	}
	s := err.Error()
	switch {
	case strings.Contains(s, "same name"):
		return "samename"
	case strings.Contains(s, "incorrect digest"), strings.Contains(s, "incorrect join digest"):
		return "digest"
	case strings.HasPrefix(s, "malformed handshake") && strings.HasSuffix(s, "message"):
		return "malformed"
	}
	return "read"
}

func resLine(r gen.HandshakeResult, err error, b *bindings, expect string) (string, string) {
	// returns the implementation's result rendered like the model's, with the connection id compared by value
	if err != nil {
		return "err:" + hsErrKind(err), ""
	}
	f := strings.Split(expect, ",")
	idOK := ""
	if len(f) >= 2 && f[0] == "ok" {
		want, e := b.evalField(f[1])
		if e != nil || want != r.ConnectionID {
			idOK = fmt.Sprintf("connection id %q, model term %s = %q (%v)", r.ConnectionID, f[1], want, e)
		}
		return fmt.Sprintf("ok,%s,%d,%d,%d,%d,%d,%d,%d", f[1], nameNum(r.Peer), r.PeerCreation, flagsNum(r.PeerFlags), r.PeerMaxMessageSize,
			versionNum(r.PeerVersion), flagsNum(r.NodeFlags), r.NodeMaxMessageSize), idOK
	}
	return fmt.Sprintf("ok,?,%d,%d,%d,%d,%d,%d,%d", nameNum(r.Peer), r.PeerCreation, flagsNum(r.PeerFlags), r.PeerMaxMessageSize,
		versionNum(r.PeerVersion), flagsNum(r.NodeFlags), r.NodeMaxMessageSize), ""
}

// msgLine renders a decoded wire message like the model does, with every string field replaced by the
// model's term when the term evaluates to the wire value (otherwise the mismatch is reported).
func cmpMsgs(model string, wire []any, b *bindings) string {
	var ms []string
	if model != "-" {
		ms = strings.Split(model, "|")
	}
	if len(ms) != len(wire) {
		return fmt.Sprintf("model sends %d messages (%s), wire has %d", len(ms), model, len(wire))
	}
	chk := func(term, val, what string) string {
		want, err := b.evalField(term)
		if err != nil {
			return fmt.Sprintf("%s: cannot evaluate %s: %v", what, term, err)
		}
		if want != val {
			return fmt.Sprintf("%s: wire %q, model %s = %q", what, val, term, want)
		}
		return ""
	}
	for i, m := range ms {
		f := strings.Split(m, ",")
		var e string
		switch w := wire[i].(type) {
		case handshake.MessageHello:
			if f[0] != "hello" {
				return fmt.Sprintf("message %d: wire Hello, model %s", i, m)
			}
			if e = chk(f[1], w.Salt, "Hello.Salt"); e == "" {
				e = chk(f[2], w.Digest, "Hello.Digest")
			}
			if e == "" && w.DigestCert != "" {
				e = "Hello.DigestCert set on a plain connection"
			}
		case handshake.MessageJoin:
			if f[0] != "join" {
				return fmt.Sprintf("message %d: wire Join, model %s", i, m)
			}
			if fmt.Sprint(nameNum(w.Node)) != f[1] {
				e = fmt.Sprintf("Join.Node %s vs %s", w.Node, f[1])
			}
			for j, pr := range [][2]string{{f[2], w.ConnectionID}, {f[3], w.Salt}, {f[4], w.Digest}} {
				if e == "" {
					e = chk(pr[0], pr[1], []string{"Join.ConnectionID", "Join.Salt", "Join.Digest"}[j])
				}
			}
		case handshake.MessageIntroduce:
			if f[0] != "intro" {
				return fmt.Sprintf("message %d: wire Introduce, model %s", i, m)
			}
			got := fmt.Sprintf("intro,%d,%d,%d,%d,%d", nameNum(w.Node), w.Creation, flagsNum(w.Flags), w.MaxMessageSize, versionNum(w.Version))
			if got != strings.Join(f[:6], ",") {
				e = fmt.Sprintf("Introduce %s vs model %s", got, m)
			} else {
				e = chk(f[6], w.Digest, "Introduce.Digest")
			}
		case handshake.MessageAccept:
			if f[0] != "accept" {
				return fmt.Sprintf("message %d: wire Accept, model %s", i, m)
			}
			if e = chk(f[1], w.ID, "Accept.ID"); e == "" {
				e = chk(f[3], w.Digest, "Accept.Digest")
			}
			if e == "" && fmt.Sprint(w.PoolSize) != f[2] {
				e = fmt.Sprintf("Accept.PoolSize %d vs %s", w.PoolSize, f[2])
			}
		default:
			e = fmt.Sprintf("unexpected wire message %T", w)
		}
		if e != "" {
			return fmt.Sprintf("message %d: %s", i, e)
		}
	}
	return ""
}

// ---------------------------------------------------------------------------------------------
// honest runs
// ---------------------------------------------------------------------------------------------

type hsSession struct {
	cI, cA      hsCfg
	toA, toI    []any // decoded
	rawA, rawI  []byte
	resI, resA  gen.HandshakeResult
	errI, errA  error
	sI, sA, idA string
	framesToA   [][]byte
	joinMsg     *handshake.MessageJoin
	joinAccept  *handshake.MessageAccept
	joinRaw     []byte
	joinSalt    string
	joinOK      bool
}

func rawFrames(b []byte) [][]byte {
	var out [][]byte
	for len(b) >= 6 {
		l := int(binary.BigEndian.Uint32(b[2:6]))
		if len(b) < 6+l {
			break
		}
		out = append(out, b[:6+l])
		b = b[6+l:]
	}
	return out
}

func runHonest(rng *Rng, cI, cA hsCfg) *hsSession {
	hs := handshake.Create(handshake.Options{PoolSize: 3})
	a, b := net.Pipe()
	ci := &recConn{Conn: a, rng: rng.Fork()}
	ca := &recConn{Conn: b, rng: rng.Fork()}
	s := &hsSession{cI: cI, cA: cA}
	var wg sync.WaitGroup
	wg.Add(2)
	go func() {
		defer wg.Done()
		s.resI, s.errI = hs.Start(cI.node(), ci, cI.opts())
		if s.errI != nil {
			ci.Close()
		}
	}()
	go func() {
		defer wg.Done()
		s.resA, s.errA = hs.Accept(cA.node(), ca, cA.opts())
		if s.errA != nil {
			ca.Close()
		}
	}()
	wg.Wait()
	ci.Close()
	ca.Close()
	s.rawA = append([]byte(nil), ci.rec.Bytes()...)
	s.rawI = append([]byte(nil), ca.rec.Bytes()...)
	s.toA, _ = splitFrames(s.rawA)
	s.toI, _ = splitFrames(s.rawI)
	s.framesToA = rawFrames(s.rawA)
	if len(s.toA) > 0 {
		if h, ok := s.toA[0].(handshake.MessageHello); ok {
			s.sI = h.Salt
		}
	}
	for _, m := range s.toI {
		switch x := m.(type) {
		case handshake.MessageHello:
			s.sA = x.Salt
		case handshake.MessageAccept:
			s.idA = x.ID
		}
	}
	return s
}

func runHonestJoin(rng *Rng, cJ, cA hsCfg, id string) (toA, toI []any, rawA []byte, errJ, errA error, resA gen.HandshakeResult) {
	hs := handshake.Create(handshake.Options{PoolSize: 3})
	a, b := net.Pipe()
	cj := &recConn{Conn: a, rng: rng.Fork()}
	ca := &recConn{Conn: b, rng: rng.Fork()}
	var wg sync.WaitGroup
	wg.Add(2)
	go func() {
		defer wg.Done()
		_, errJ = hs.Join(cJ.node(), cj, id, cJ.opts())
		if errJ != nil {
			cj.Close()
		}
	}()
	go func() {
		defer wg.Done()
		resA, errA = hs.Accept(cA.node(), ca, cA.opts())
		if errA != nil {
			ca.Close()
		}
	}()
	wg.Wait()
	cj.Close()
	ca.Close()
	rawA = append([]byte(nil), cj.rec.Bytes()...)
	toA, _ = splitFrames(rawA)
	toI, _ = splitFrames(ca.rec.Bytes())
	return
}

func genCfg(rng *Rng, name int) hsCfg {
	fl := []int{0, 1, 127, 3, 5, 65, 1 | 2 | 4 | 32 | 64}[rng.Intn(7)]
	if rng.Chance(1, 4) {
		fl = rng.Intn(128) | 1
	}
	mx := []int{0, 0, 1024, 65535, 65536, 1 << 20}[rng.Intn(6)]
	return hsCfg{Name: name, Creation: 1 + rng.Intn(1<<30), Flags: fl, Max: mx, Version: rng.Intn(len(hsVersions)), Cookie: 1 + rng.Intn(len(hsCookies))}
}

func runC15Hs(c *Ctx) {
	r := c.R
	type hcase struct {
		s     *hsSession
		line  string
		jline string
		jres  []interface{}
	}
	// ---------------- honest runs -------------------------------------------------------------------
	var cases []hcase
	var lines []string
	n := c.N(150, 3000)
	for i := 0; i < n; i++ {
		cI := genCfg(c.Rng, 1+c.Rng.Intn(3))
		cA := genCfg(c.Rng, 4+c.Rng.Intn(3))
		switch {
		case i < len(hsCookies)*len(hsCookies): // every cookie pair
			cI.Cookie, cA.Cookie = 1+i%len(hsCookies), 1+i/len(hsCookies)
		case c.Rng.Chance(2, 3):
			cA.Cookie = cI.Cookie
		}
		if c.Rng.Chance(1, 15) {
			cA.Name = cI.Name // a peer with the node's own name
		}
		s := runHonest(c.Rng, cI, cA)
		for try := 0; try < 2 && (isTimeout(s.errI) || isTimeout(s.errA)); try++ {
			// the handshake's own 1 s read deadline fired: a scheduling hiccup of the machine, not a verdict
			r.Count("hs.honest.retried-after-timeout")
			s = runHonest(c.Rng, cI, cA)
		}
		if isTimeout(s.errI) || isTimeout(s.errA) {
			r.Count("hs.inconclusive-timeout")
			continue
		}
		hc := hcase{s: s, line: "honest " + cI.line() + " " + cA.line()}
		lines = append(lines, hc.line)
		cases = append(cases, hc)
		same := cI.Cookie == cA.Cookie
		r.Case(hc.line, true)
		r.Count(fmt.Sprintf("hs.honest.cookies-%s.I-%s.A-%s", map[bool]string{true: "equal", false: "differ"}[same], hsErrKind(s.errI), hsErrKind(s.errA)))
		// independent oracle of the property: success iff cookies equal (and names differ); agreement
		okBoth := s.errI == nil && s.errA == nil
		if okBoth != (hsCookies[cI.Cookie] == hsCookies[cA.Cookie] && cI.Name != cA.Name) || (s.errI == nil) != (s.errA == nil) {
			r.Violation("C15/honest-iff-cookie", fmt.Sprintf("cookies %q / %q, names %d / %d: Start err=%v, Accept err=%v", hsCookies[cI.Cookie], hsCookies[cA.Cookie], cI.Name, cA.Name, s.errI, s.errA),
				map[string]interface{}{"initiator": cI, "acceptor": cA})
			continue
		}
		if okBoth {
			ri, ra := s.resI, s.resA
			if ri.Peer != cA.atom() || ra.Peer != cI.atom() || ri.PeerCreation != int64(cA.Creation) || ra.PeerCreation != int64(cI.Creation) ||
				ri.PeerFlags != flagsOf(cA.Flags) || ra.PeerFlags != flagsOf(cI.Flags) || ri.NodeFlags != flagsOf(cI.Flags) || ra.NodeFlags != flagsOf(cA.Flags) ||
				ri.PeerMaxMessageSize != cA.Max || ra.PeerMaxMessageSize != cI.Max || ri.NodeMaxMessageSize != cI.Max || ra.NodeMaxMessageSize != cA.Max ||
				ri.ConnectionID != ra.ConnectionID || ri.ConnectionID == "" || ri.PeerVersion != hsVersions[cA.Version] || ra.PeerVersion != hsVersions[cI.Version] {
				r.Violation("C15/agreement", fmt.Sprintf("results disagree: initiator %+v acceptor %+v", ri, ra), map[string]interface{}{"initiator": cI, "acceptor": cA})
			}
		}
	}
	// joins on top of the successful sessions (and with a wrong cookie)
	var jlines []string
	type jcase struct {
		cJ, cA     hsCfg
		id         string
		toA, toI   []any
		errJ, errA error
		resA       gen.HandshakeResult
		line       string
		base       *hsSession
	}
	var jcases []jcase
	for i := range cases {
		s := cases[i].s
		if s.errI != nil || s.errA != nil || !c.Rng.Chance(1, 2) {
			continue
		}
		cJ := s.cI
		if c.Rng.Chance(1, 4) {
			cJ.Cookie = 1 + cJ.Cookie%len(hsCookies)
		}
		toA, toI, rawA, errJ, errA, resA := runHonestJoin(c.Rng, cJ, s.cA, s.idA)
		jc := jcase{cJ: cJ, cA: s.cA, id: s.idA, toA: toA, toI: toI, errJ: errJ, errA: errA, resA: resA, base: s,
			line: "hjoin " + cJ.line() + " " + s.cA.line() + " N3"}
		jcases = append(jcases, jc)
		jlines = append(jlines, jc.line)
		r.Case(jc.line+s.idA, true)
		r.Count(fmt.Sprintf("hs.join.J-%s.A-%s", hsErrKind(errJ), hsErrKind(errA)))
		if (errJ == nil) != (hsCookies[cJ.Cookie] == hsCookies[s.cA.Cookie]) || (errJ == nil) != (errA == nil) {
			r.Violation("C15/join-iff-cookie", fmt.Sprintf("join with cookies %q / %q: Join err=%v Accept err=%v", hsCookies[cJ.Cookie], hsCookies[s.cA.Cookie], errJ, errA), nil)
		}
		if errJ == nil && errA == nil && len(toA) == 1 {
			if jm, ok := toA[0].(handshake.MessageJoin); ok && s.joinMsg == nil {
				s.joinMsg, s.joinRaw, s.joinSalt, s.joinOK = &jm, rawA, jm.Salt, true
				if len(toI) == 1 {
					if am, ok := toI[0].(handshake.MessageAccept); ok {
						s.joinAccept = &am
					}
				}
			}
		}
	}
	out, err := ModelParallel("handshake", append(append([]string(nil), lines...), jlines...), 4)
	if err != nil {
		r.Disagree("c15-hs-model", err.Error(), nil)
		return
	}
	honestBroken := false
	for i, hc := range cases {
		s := hc.s
		f := strings.Fields(out[i])
		if len(f) != 4 {
			r.Disagree("c15-hs-honest", "model output "+out[i], hc.line)
			return
		}
		b := &bindings{nonce: map[int]string{0: "", 1: s.sI, 2: s.sA, 3: s.idA}, cookie: hsCookies}
		gi, e1 := resLine(s.resI, s.errI, b, f[0])
		ga, e2 := resLine(s.resA, s.errA, b, f[1])
		what := ""
		switch {
		case gi != f[0]:
			what = fmt.Sprintf("initiator result: model %s, implementation %s (%v)", f[0], gi, s.errI)
		case ga != f[1]:
			what = fmt.Sprintf("acceptor result: model %s, implementation %s (%v)", f[1], ga, s.errA)
		case e1 != "":
			what = "initiator " + e1
		case e2 != "":
			what = "acceptor " + e2
		default:
			if e := cmpMsgs(f[2], s.toA, b); e != "" {
				what = "initiator→acceptor " + e
			} else if e := cmpMsgs(f[3], s.toI, b); e != "" {
				what = "acceptor→initiator " + e
			}
		}
		if what != "" {
			// reported once; the adversary still runs, so that a failing input is found when there is one
			if !honestBroken {
				r.Disagree("c15-hs-honest", what, map[string]interface{}{"line": hc.line})
			}
			honestBroken = true
			continue
		}
		r.CountN("hs.digests-compared-bytewise", strings.Count(out[i], "H("))
		if i < 2 {
			r.Sample(map[string]interface{}{"part": "hs-honest", "line": hc.line, "model": out[i]})
		}
	}
	for j, jc := range jcases {
		f := strings.Fields(out[len(cases)+j])
		if len(f) != 4 {
			r.Disagree("c15-hs-join", "model output "+out[len(cases)+j], jc.line)
			return
		}
		salt := ""
		if len(jc.toA) > 0 {
			if jm, ok := jc.toA[0].(handshake.MessageJoin); ok {
				salt = jm.Salt
			}
		}
		b := &bindings{nonce: map[int]string{0: "", 1: salt, 3: jc.id}, cookie: hsCookies}
		what := ""
		gj := "err:" + hsErrKind(jc.errJ)
		if jc.errJ == nil {
			gj = "ok"
		}
		ga, e2 := resLine(jc.resA, jc.errA, b, f[1])
		// the Join initiator's model result is `ok,<id>,0,…`: only ok/err is observable
		mj := f[0]
		if strings.HasPrefix(mj, "ok,") {
			mj = "ok"
		}
		// the acceptor's Peer is the joining node's name
		switch {
		case gj != mj:
			what = fmt.Sprintf("Join result: model %s, implementation %s (%v)", f[0], gj, jc.errJ)
		case ga != f[1]:
			what = fmt.Sprintf("Accept(join) result: model %s, implementation %s (%v)", f[1], ga, jc.errA)
		case e2 != "":
			what = e2
		default:
			if e := cmpMsgs(f[2], jc.toA, b); e != "" {
				what = "join→acceptor " + e
			} else if e := cmpMsgs(f[3], jc.toI, b); e != "" {
				what = "acceptor→join " + e
			}
		}
		if what != "" {
			if !honestBroken {
				r.Disagree("c15-hs-join", what, map[string]interface{}{"line": jc.line})
			}
			honestBroken = true
			continue
		}
		r.CountN("hs.digests-compared-bytewise", strings.Count(out[len(cases)+j], "H("))
	}
	// ---------------- adversary -----------------------------------------------------------------------
	var rec []*hsSession
	for _, hc := range cases {
		if hc.s.errI == nil && hc.s.errA == nil && hc.s.cI.Cookie == 1 {
			rec = append(rec, hc.s)
		}
		if len(rec) >= 6 {
			break
		}
	}
	if len(rec) < 2 {
		r.Disagree("c15-hs-adversary", "not enough recorded sessions with cookie 1", nil)
		return
	}
	runAdversary(c, rec)
}

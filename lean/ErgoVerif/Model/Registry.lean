import ErgoVerif.Common
/-
Name registration (node/node.go RegisterName 339-372, spawn with Register 1599-1605, UnregisterName,
unregisterProcess): any number of distinct, not yet registered processes race to claim ONE name.
Counting abstraction over the claimants' program points; `held` = the name is present in `n.names`.

  cas    : p.registered.CompareAndSwap(false,true)       (succeeds: every claimant is a distinct unregistered process)
  store  : n.names.LoadOrStore(name, p)  — exists ⇒ p.registered.Store(false); return ErrTaken
  assign : p.name = name; return nil
  unreg  : UnregisterName / unregisterProcess of the (fully registered) holder: names.Delete, registered=false
-/
namespace ErgoVerif.Registry

structure Cfg where
  held : Bool
  c0 : Nat      -- claimants before the CAS on their own registered flag
  c1 : Nat      -- after the CAS, before LoadOrStore
  c2 : Nat      -- won LoadOrStore, before `p.name = name`
  ok : Nat      -- claimants that returned nil and still hold the name
  okEver : Nat  -- claimants that ever returned nil
  err : Nat     -- claimants that returned ErrTaken
  released : Nat
  n : Nat        -- claimants created
deriving Repr, DecidableEq

inductive Lbl | newClaim | cas | store | assign | unreg
deriving DecidableEq, Repr

def init : Cfg := ⟨false, 0, 0, 0, 0, 0, 0, 0, 0⟩

def step (c : Cfg) : Lbl → Option Cfg
  | .newClaim => some { c with c0 := c.c0 + 1, n := c.n + 1 }
  | .cas => if c.c0 = 0 then none else some { c with c0 := c.c0 - 1, c1 := c.c1 + 1 }
  | .store => if c.c1 = 0 then none else
      if c.held then some { c with c1 := c.c1 - 1, err := c.err + 1 }
      else some { c with c1 := c.c1 - 1, c2 := c.c2 + 1, held := true }
  | .assign => if c.c2 = 0 then none else some { c with c2 := c.c2 - 1, ok := c.ok + 1, okEver := c.okEver + 1 }
  | .unreg => if c.ok = 0 then none else some { c with ok := c.ok - 1, held := false, released := c.released + 1 }

def Reach (c : Cfg) : Prop := ∃ ls, run step init ls = some c

def Inv (c : Cfg) : Prop :=
  (c.held = true → c.c2 + c.ok = 1) ∧ (c.held = false → c.c2 + c.ok = 0) ∧
  (c.err > 0 → c.held = true ∨ c.released > 0) ∧ c.okEver = c.ok + c.released ∧
  c.n = c.c0 + c.c1 + c.c2 + c.okEver + c.err

theorem inv_init : Inv init := by simp [Inv, init]

theorem step_inv (c : Cfg) (l : Lbl) (c' : Cfg) (h : Inv c) (hs : step c l = some c') : Inv c' := by
  unfold Inv at *
  obtain ⟨held, c0, c1, c2, ok, okEver, err, released, n⟩ := c
  cases l <;> cases held <;> simp only [step] at hs <;> (repeat' split at hs) <;>
    (first | cases hs | skip) <;> simp_all <;> omega

theorem reach_inv {c : Cfg} (h : Reach c) : Inv c := by
  obtain ⟨ls, hr⟩ := h
  exact run_inv (Inv := Inv) step_inv inv_init hr

end ErgoVerif.Registry

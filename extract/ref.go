package main

import (
	"fmt"
	"go/ast"
	"go/token"
	"strings"
)

// Generated/Ref.lean: the integer expressions of node.MakeRef (node/core.go) and of the derived reference of an
// important delivery (node/process.go), translated operator by operator into BitVec 64 definitions.

func init() {
	generators = append(generators, generator{name: "Ref", run: genRef, fallback: refFallback})
}

const refFallback = `namespace ErgoVerif.Gen.Ref
def makeRef0 (id : BitVec 64) : BitVec 64 := 0#64
def makeRef1 (id : BitVec 64) : BitVec 64 := 0#64
def makeRef2 (id : BitVec 64) : BitVec 64 := 0#64
def importantRef0 (r0 r1 r2 : BitVec 64) : BitVec 64 := 0#64
def importantSites : Nat := 0
end ErgoVerif.Gen.Ref
`

// bvExpr translates a Go integer expression over uint64 operands into Lean BitVec 64 syntax.
// vars maps Go sub-expressions (rendered by selName / index form) to Lean variable names.
func bvExpr(e ast.Expr, vars map[string]string) (string, error) {
	switch x := e.(type) {
	case *ast.ParenExpr:
		s, err := bvExpr(x.X, vars)
		return "(" + s + ")", err
	case *ast.BasicLit:
		if x.Kind == token.INT {
			v, ok := evalConst(x, 0, nil)
			if ok {
				return fmt.Sprintf("%d#64", v), nil
			}
		}
	case *ast.Ident:
		if v, ok := vars[x.Name]; ok {
			return v, nil
		}
	case *ast.IndexExpr:
		key := selName(x.X) + "[" + exprLit(x.Index) + "]"
		if v, ok := vars[key]; ok {
			return v, nil
		}
		return "", fmt.Errorf("unknown operand %s", key)
	case *ast.CallExpr:
		if len(x.Args) == 1 {
			if id, ok := x.Fun.(*ast.Ident); ok && (id.Name == "uint64" || id.Name == "int64") {
				return bvExpr(x.Args[0], vars)
			}
		}
	case *ast.BinaryExpr:
		a, err := bvExpr(x.X, vars)
		if err != nil {
			return "", err
		}
		switch x.Op {
		case token.SHL, token.SHR:
			k, ok := evalConst(x.Y, 0, nil)
			if !ok {
				return "", fmt.Errorf("non-constant shift amount")
			}
			op := "<<<"
			if x.Op == token.SHR {
				op = ">>>"
			}
			return fmt.Sprintf("(%s %s %d)", a, op, k), nil
		}
		b, err := bvExpr(x.Y, vars)
		if err != nil {
			return "", err
		}
		ops := map[token.Token]string{token.AND: "&&&", token.OR: "|||", token.XOR: "^^^", token.ADD: "+", token.SUB: "-", token.MUL: "*", token.REM: "%", token.QUO: "/"}
		if o, ok := ops[x.Op]; ok {
			return fmt.Sprintf("(%s %s %s)", a, o, b), nil
		}
	}
	return "", fmt.Errorf("unsupported expression %T", e)
}

func exprLit(e ast.Expr) string {
	if b, ok := e.(*ast.BasicLit); ok {
		return b.Value
	}
	return selName(e)
}

func genRef() (string, error) {
	core, err := parseFile("node/core.go")
	if err != nil {
		return "", err
	}
	fd := funcDecl(core, "node", "MakeRef")
	if fd == nil {
		return "", fmt.Errorf("node.MakeRef not found")
	}
	// the counter variable: `id := atomic.AddUint64(&n.uniqID, 1)`
	idVar := ""
	parts := map[int]string{}
	for _, st := range fd.Body.List {
		as, ok := st.(*ast.AssignStmt)
		if !ok || len(as.Lhs) != 1 || len(as.Rhs) != 1 {
			continue
		}
		if as.Tok == token.DEFINE && callsTo(as.Rhs[0], "AddUint64") {
			idVar = selName(as.Lhs[0])
			continue
		}
		if ix, ok := as.Lhs[0].(*ast.IndexExpr); ok && strings.HasSuffix(selName(ix.X), ".ID") {
			k, ok := evalConst(ix.Index, 0, nil)
			if !ok || idVar == "" {
				return "", fmt.Errorf("MakeRef: cannot read ID index / counter")
			}
			s, err := bvExpr(as.Rhs[0], map[string]string{idVar: "id"})
			if err != nil {
				return "", fmt.Errorf("MakeRef ID[%d]: %v", k, err)
			}
			parts[int(k)] = s
		}
	}
	if idVar == "" || len(parts) == 0 {
		return "", fmt.Errorf("MakeRef: counter increment or ID assignments not found")
	}
	var sb strings.Builder
	sb.WriteString("namespace ErgoVerif.Gen.Ref\n/-- node.MakeRef: the three id words as functions of the value returned by atomic.AddUint64(&n.uniqID, 1) -/\n")
	for k := 0; k < 3; k++ {
		s, ok := parts[k]
		if !ok {
			s = "0#64"
		}
		fmt.Fprintf(&sb, "def makeRef%d (id : BitVec 64) : BitVec 64 := %s\n", k, s)
	}
	// important delivery: options.Ref.ID[0] = ref.ID[0] + ref.ID[1] + ref.ID[2]
	proc, err := parseFile("node/process.go")
	if err != nil {
		return "", err
	}
	sites := 0
	expr := ""
	for _, name := range []string{"SendPID", "SendProcessID", "SendAlias"} {
		f := funcDecl(proc, "process", name)
		if f == nil {
			return "", fmt.Errorf("process.%s not found", name)
		}
		ast.Inspect(f.Body, func(n ast.Node) bool {
			as, ok := n.(*ast.AssignStmt)
			if !ok || len(as.Lhs) != 1 {
				return true
			}
			ix, ok := as.Lhs[0].(*ast.IndexExpr)
			if !ok || selName(ix.X) != "options.Ref.ID" || exprLit(ix.Index) != "0" {
				return true
			}
			s, err := bvExpr(as.Rhs[0], map[string]string{"ref.ID[0]": "r0", "ref.ID[1]": "r1", "ref.ID[2]": "r2"})
			if err == nil {
				if expr == "" || expr == s {
					expr = s
					sites++
				} else {
					sites = -100
				}
			}
			return true
		})
	}
	if expr == "" || sites < 0 {
		return "", fmt.Errorf("important-delivery reference derivation not found or inconsistent across SendPID/SendProcessID/SendAlias")
	}
	fmt.Fprintf(&sb, "/-- first word of the reference an important delivery waits on (words 1 and 2 are zero) -/\ndef importantRef0 (r0 r1 r2 : BitVec 64) : BitVec 64 := %s\n", expr)
	fmt.Fprintf(&sb, "def importantSites : Nat := %d\n", sites)
	sb.WriteString("end ErgoVerif.Gen.Ref\n")
	return sb.String(), nil
}

import ErgoVerif.Lemmas.SupLoopOFO
import ErgoVerif.Lemmas.SupLoopSOFO
/-
One-for-one: the state machine keeps track of exactly the children in `Supervisor.children`, as long as
(D26) EnableChild is not issued for a spec whose previous child's exit is unhandled and
(D27) no child is started through the management calls while the supervisor is stopping all children.
-/
namespace ErgoVerif.Sup

theorem mem_mkSet (p : Nat) (l : List Nat) : p ∈ mkSet l ↔ p ∈ l := by
  induction l with
  | nil => simp [mkSet]
  | cons a t ih =>
    simp only [mkSet, List.foldr_cons] at ih ⊢
    rw [mem_sins, ih]; simp

theorem scan_running_mem (name pid : Nat) (l : List ChildSpec) (p : Nat) :
    p ∈ (scan name pid 0 l).running ↔ ∃ c, c ∈ l ∧ hit name pid c = false ∧ c.pid ≠ 0 ∧ c.pid = p := by
  rw [scan_running_eq]
  simp only [List.mem_map, List.mem_filter, Bool.and_eq_true, Bool.not_eq_true', bne_iff_ne, ne_eq]
  constructor
  · rintro ⟨c, ⟨hc, hh, hp⟩, rfl⟩; exact ⟨c, hc, hh, hp, rfl⟩
  · rintro ⟨c, hc, hh, hp, rfl⟩; exact ⟨c, ⟨hc, hh, hp⟩, rfl⟩

theorem scan_spec_mem (name pid : Nat) (l : List ChildSpec) (c' : ChildSpec) :
    c' ∈ (scan name pid 0 l).spec ↔ ∃ c, c ∈ l ∧ c' = if hit name pid c then { c with pid := 0 } else c := by
  rw [scan_spec_eq]
  simp only [List.mem_map]
  constructor
  · rintro ⟨c, hc, rfl⟩; exact ⟨c, hc, rfl⟩
  · rintro ⟨c, hc, rfl⟩; exact ⟨c, hc, rfl⟩

theorem scan_names (name pid : Nat) (l : List ChildSpec) :
    (scan name pid 0 l).spec.map (·.name) = l.map (·.name) := by
  rw [scan_spec_eq, List.map_map]
  apply List.map_congr_left
  intro c _
  simp only [Function.comp]
  split <;> rfl

theorem lookupKid_mem (pid : Nat) (kids : List (Nat × Nat)) (h : pid ∈ keys kids) : (pid, lookupKid pid kids) ∈ kids := by
  induction kids with
  | nil => simp [keys] at h
  | cons a t ih =>
    obtain ⟨p, n⟩ := a
    simp only [lookupKid]
    split
    · rename_i hp; subst hp; simp
    · rename_i hp
      rw [mem_keys_cons] at h
      rcases h with h | h
      · exact absurd h.symm hp
      · exact List.mem_cons_of_mem _ (ih h)

/-- the tracking invariant of supOFO relative to `Supervisor.children` -/
structure OFO.TInv (m : OFO) (kids : List (Nat × Nat)) : Prop where
  names : (m.spec.map (·.name)).Nodup
  nz : ∀ c, c ∈ m.spec → c.name ≠ 0
  pinj : ∀ c1 c2, c1 ∈ m.spec → c2 ∈ m.spec → c1.pid = c2.pid → c1.pid ≠ 0 → c1 = c2
  normal : m.shutdown = false →
    (∀ p, p ∈ keys kids ↔ (p ≠ 0 ∧ ∃ c, c ∈ m.spec ∧ c.pid = p)) ∧
    (∀ p n, (p, n) ∈ kids → ∃ c, c ∈ m.spec ∧ c.name = n ∧ c.pid = p)
  shut : m.shutdown = true → (∀ p, p ∈ m.wait ↔ p ∈ keys kids) ∧ m.shutdownReason ≠ none

theorem spec_unique {l : List ChildSpec} (h : (l.map (·.name)).Nodup) {c1 c2 : ChildSpec}
    (h1 : c1 ∈ l) (h2 : c2 ∈ l) (hn : c1.name = c2.name) : c1 = c2 := by
  induction l with
  | nil => simp at h1
  | cons a t ih =>
    simp only [List.map_cons, List.nodup_cons, List.mem_map, not_exists, not_and] at h
    rcases List.mem_cons.mp h1 with rfl | h1'
    · rcases List.mem_cons.mp h2 with rfl | h2'
      · rfl
      · exact absurd hn.symm (h.1 c2 h2')
    · rcases List.mem_cons.mp h2 with rfl | h2'
      · exact absurd hn (h.1 c1 h1')
      · exact ih h.2 h1' h2'

def OFO.Live (m : OFO) (kids : List (Nat × Nat)) : Prop := m.shutdown = true → ∃ p, p ∈ keys kids

/-- what an action must satisfy so that carrying it out keeps the tracking invariant -/
def OFO.TGood (m : OFO) (kids : List (Nat × Nat)) (a : Action) : Prop :=
  match a.act with
  | .nothing => OFO.Live m kids
  | .start => m.shutdown = false ∧ OFO.ValidStart m a ∧ ∃ c : ChildSpec, m.spec[a.spec.i]? = some c ∧ c.pid = 0
  | .terminateChildren =>
      (a.terminate.isEmpty → ∀ e, a.reason = some e → ((m.shutdown = true → m.shutdownReason = some e) ∧ ∀ p, p ∉ keys kids)) ∧
      ((a.terminate.isEmpty = false ∨ a.reason = none) → OFO.Live m kids)
  | .terminate => a.reason ≠ none ∧ ∀ e, a.reason = some e → ((m.shutdown = true → m.shutdownReason = some e) ∧ ∀ p, p ∉ keys kids)

/-- the dead child's exit: the scan hits exactly the spec the child belongs to -/
theorem OFO.hit_iff (m : OFO) (kids : List (Nat × Nat)) (h : OFO.TInv m kids) (hsd : m.shutdown = false)
    (pid n : Nat) (hk : (pid, n) ∈ kids) (c : ChildSpec) (hc : c ∈ m.spec) :
    hit n pid c = true ↔ (c.name = n ∧ c.pid = pid) := by
  have ⟨hN, hN2⟩ := h.normal hsd
  obtain ⟨c0, hc0, hn0, hp0⟩ := hN2 pid n hk
  have hpid0 : pid ≠ 0 := ((hN pid).mp (by simp [keys]; exact ⟨n, hk⟩)).1
  simp only [hit, Bool.or_eq_true, beq_iff_eq]
  constructor
  · rintro (hn | hp)
    · have := spec_unique h.names hc hc0 (hn.trans hn0.symm)
      subst this; exact ⟨hn0, hp0⟩
    · have := h.pinj c c0 hc hc0 (hp.trans hp0.symm) (by rw [hp]; exact hpid0)
      subst this; exact ⟨hn0, hp0⟩
  · rintro ⟨hn, _⟩; exact Or.inl hn

/-- after the scan for a known child: the tracking relations hold again for `kids` without the dead pid -/
theorem OFO.scan_track (m : OFO) (kids : List (Nat × Nat)) (h : OFO.TInv m kids) (hsd : m.shutdown = false)
    (pid n : Nat) (hk : (pid, n) ∈ kids) :
    let sc := scan n pid 0 m.spec
    let kids' := kids.filter (fun x => x.1 ≠ pid)
    (∀ p, p ∈ keys kids' ↔ (p ≠ 0 ∧ ∃ c, c ∈ sc.spec ∧ c.pid = p)) ∧
    (∀ p n', (p, n') ∈ kids' → ∃ c, c ∈ sc.spec ∧ c.name = n' ∧ c.pid = p) ∧
    (∀ p, p ∈ sc.running ↔ p ∈ keys kids') ∧
    (∀ c1 c2, c1 ∈ sc.spec → c2 ∈ sc.spec → c1.pid = c2.pid → c1.pid ≠ 0 → c1 = c2) := by
  intro sc kids'
  have ⟨hN, hN2⟩ := h.normal hsd
  have hhit := OFO.hit_iff m kids h hsd pid n hk
  have hpid0 : pid ≠ 0 := ((hN pid).mp (by simp [keys]; exact ⟨n, hk⟩)).1
  -- a spec that is not hit and has a pid: its pid differs from the dead one
  have hnh : ∀ c, c ∈ m.spec → hit n pid c = false → c.pid ≠ pid := by
    intro c hc hh hp
    simp only [hit, Bool.or_eq_false_iff, beq_eq_false_iff_ne] at hh
    exact hh.2 hp
  have hA : ∀ p, p ∈ keys kids' ↔ (p ≠ 0 ∧ ∃ c, c ∈ sc.spec ∧ c.pid = p) := by
    intro p
    simp only [kids', mem_keys_filter_ne, hN p]
    constructor
    · rintro ⟨⟨hp0, c, hc, hcp⟩, hne⟩
      refine ⟨hp0, c, ?_, hcp⟩
      rw [scan_spec_mem]
      refine ⟨c, hc, ?_⟩
      have : hit n pid c = false := by
        cases hh : hit n pid c with
        | false => rfl
        | true => exact absurd ((hhit c hc).mp hh).2 (by rw [hcp]; exact hne)
      simp [this]
    · rintro ⟨hp0, c', hc', hcp⟩
      rw [scan_spec_mem] at hc'
      obtain ⟨c, hc, rfl⟩ := hc'
      cases hh : hit n pid c with
      | true => simp [hh] at hcp; exact absurd hcp.symm hp0
      | false =>
        simp [hh] at hcp
        exact ⟨⟨hp0, c, hc, hcp⟩, by rw [← hcp]; exact hnh c hc hh⟩
  refine ⟨hA, ?_, ?_, ?_⟩
  · intro p n' hpn
    have hmem := List.mem_filter.mp hpn
    have hne : p ≠ pid := by simpa using hmem.2
    obtain ⟨c, hc, hcn, hcp⟩ := hN2 p n' hmem.1
    refine ⟨c, ?_, hcn, hcp⟩
    rw [scan_spec_mem]
    refine ⟨c, hc, ?_⟩
    have : hit n pid c = false := by
      cases hh : hit n pid c with
      | false => rfl
      | true => exact absurd ((hhit c hc).mp hh).2 (by rw [hcp]; exact hne)
    simp [this]
  · intro p
    rw [scan_running_mem, hA p]
    constructor
    · rintro ⟨c, hc, hh, hp0, rfl⟩
      refine ⟨hp0, c, ?_, rfl⟩
      rw [scan_spec_mem]; exact ⟨c, hc, by simp [hh]⟩
    · rintro ⟨hp0, c', hc', hcp⟩
      rw [scan_spec_mem] at hc'
      obtain ⟨c, hc, rfl⟩ := hc'
      cases hh : hit n pid c with
      | true => simp [hh] at hcp; exact absurd hcp.symm hp0
      | false => simp [hh] at hcp; exact ⟨c, hc, hh, by rw [hcp]; exact hp0, hcp⟩
  · intro c1 c2 h1 h2 he hne
    rw [scan_spec_mem] at h1 h2
    obtain ⟨d1, hd1, rfl⟩ := h1
    obtain ⟨d2, hd2, rfl⟩ := h2
    cases hh1 : hit n pid d1 with
    | true => simp [hh1] at hne
    | false =>
      cases hh2 : hit n pid d2 with
      | true => simp [hh1, hh2] at he hne; exact absurd he hne
      | false =>
        simp [hh1, hh2] at he hne ⊢
        exact h.pinj d1 d2 hd1 hd2 he hne


theorem mem_runningPids (l : List ChildSpec) (p : Nat) : p ∈ runningPids l ↔ (p ≠ 0 ∧ ∃ c, c ∈ l ∧ c.pid = p) := by
  simp only [runningPids, List.mem_map, List.mem_filter, ne_eq, decide_eq_true_eq]
  constructor
  · rintro ⟨c, ⟨hc, hp⟩, rfl⟩; exact ⟨hp, c, hc, rfl⟩
  · rintro ⟨hp, c, hc, rfl⟩; exact ⟨c, ⟨hc, hp⟩, rfl⟩

section known
variable (m : OFO) (kids : List (Nat × Nat)) (h : OFO.TInv m kids) (hsd : m.shutdown = false)
  (pid n : Nat) (hk : (pid, n) ∈ kids)
include h hsd hk

theorem OFO.tinv_normal_of (m' : OFO) (hs : m'.spec = (scan n pid 0 m.spec).spec) (hsd' : m'.shutdown = false) :
    OFO.TInv m' (kids.filter (fun x => x.1 ≠ pid)) := by
  have ⟨hA, hB, _, hD⟩ := OFO.scan_track m kids h hsd pid n hk
  constructor
  · rw [hs, scan_names]; exact h.names
  · intro c hc
    rw [hs, scan_spec_mem] at hc
    obtain ⟨c0, hc0, rfl⟩ := hc
    have := h.nz c0 hc0
    split <;> exact this
  · rw [hs]; exact hD
  · intro _; rw [hs]; exact ⟨hA, hB⟩
  · intro hx; rw [hsd'] at hx; simp at hx

theorem OFO.tinv_shut_of (m' : OFO) (hs : m'.spec = (scan n pid 0 m.spec).spec) (hsd' : m'.shutdown = true)
    (hw : m'.wait = mkSet (scan n pid 0 m.spec).running) (hr : m'.shutdownReason ≠ none) :
    OFO.TInv m' (kids.filter (fun x => x.1 ≠ pid)) := by
  have ⟨_, _, hC, hD⟩ := OFO.scan_track m kids h hsd pid n hk
  constructor
  · rw [hs, scan_names]; exact h.names
  · intro c hc
    rw [hs, scan_spec_mem] at hc
    obtain ⟨c0, hc0, rfl⟩ := hc
    have := h.nz c0 hc0
    split <;> exact this
  · rw [hs]; exact hD
  · intro hx; rw [hsd'] at hx; simp at hx
  · intro _
    refine ⟨?_, hr⟩
    intro p; rw [hw, mem_mkSet]; exact hC p

end known


section known2
variable (m : OFO) (kids : List (Nat × Nat)) (h : OFO.TInv m kids) (hsd : m.shutdown = false)
  (pid n : Nat) (hk : (pid, n) ∈ kids)
include h hsd hk

/-- the four tails of childTerminated, started from a state whose spec is the scanned one -/
theorem OFO.stopAll_track (s0 : OFO) (hs : s0.spec = (scan n pid 0 m.spec).spec) (hsd0 : s0.shutdown = false) (r : Reason) :
    OFO.TInv (OFO.stopAll s0 (scan n pid 0 m.spec) r).1 (kids.filter (fun x => x.1 ≠ pid)) ∧
    ∃ a, (OFO.stopAll s0 (scan n pid 0 m.spec) r).2 = .ok a ∧ a.act ≠ .start ∧
      OFO.TGood (OFO.stopAll s0 (scan n pid 0 m.spec) r).1 (kids.filter (fun x => x.1 ≠ pid)) a := by
  have ⟨_, _, hC, _⟩ := OFO.scan_track m kids h hsd pid n hk
  unfold OFO.stopAll
  split
  · rename_i hlen
    refine ⟨OFO.tinv_normal_of m kids h hsd pid n hk s0 hs hsd0, _, rfl, by simp, ?_⟩
    simp only [OFO.TGood]
    refine ⟨by simp, ?_⟩
    intro e he
    refine ⟨fun hx => by rw [hsd0] at hx; simp at hx, ?_⟩
    intro p hp
    have := (hC p).mpr hp
    have hnil : (scan n pid 0 m.spec).running = [] := List.length_eq_zero_iff.mp hlen
    rw [hnil] at this; simp at this
  · rename_i hlen
    refine ⟨OFO.tinv_shut_of m kids h hsd pid n hk _ hs rfl rfl (by simp), _, rfl, by simp, ?_⟩
    simp only [OFO.TGood]
    constructor
    · intro hemp
      have : (scan n pid 0 m.spec).running = [] := List.isEmpty_iff.mp hemp
      rw [this] at hlen; simp at hlen
    · intro _ _
      cases hrun : (scan n pid 0 m.spec).running with
      | nil => rw [hrun] at hlen; simp at hlen
      | cons a t => exact ⟨a, (hC a).mp (by rw [hrun]; simp)⟩

theorem OFO.autoShutdown_track (s0 : OFO) (hs : s0.spec = (scan n pid 0 m.spec).spec) (hsd0 : s0.shutdown = false) (r : Reason) :
    OFO.TInv (OFO.autoShutdown s0 (scan n pid 0 m.spec) r).1 (kids.filter (fun x => x.1 ≠ pid)) ∧
    ∃ a, (OFO.autoShutdown s0 (scan n pid 0 m.spec) r).2 = .ok a ∧ a.act ≠ .start ∧
      OFO.TGood (OFO.autoShutdown s0 (scan n pid 0 m.spec) r).1 (kids.filter (fun x => x.1 ≠ pid)) a := by
  have ⟨_, _, hC, _⟩ := OFO.scan_track m kids h hsd pid n hk
  unfold OFO.autoShutdown
  split
  · rename_i hlen
    refine ⟨OFO.tinv_normal_of m kids h hsd pid n hk s0 hs hsd0, _, rfl, by simp, ?_⟩
    simp only [OFO.TGood]
    refine ⟨by simp, ?_⟩
    intro e he
    refine ⟨fun hx => by rw [hsd0] at hx; simp at hx, ?_⟩
    intro p hp
    have := (hC p).mpr hp
    have hnil : (scan n pid 0 m.spec).running = [] := List.length_eq_zero_iff.mp hlen.1
    rw [hnil] at this; simp at this
  · refine ⟨OFO.tinv_normal_of m kids h hsd pid n hk s0 hs hsd0, _, rfl, by simp, ?_⟩
    simp only [OFO.TGood, OFO.Live]
    intro hx; rw [hsd0] at hx; simp at hx

theorem OFO.quietStep_track (s0 : OFO) (hs : s0.spec = (scan n pid 0 m.spec).spec) (hsd0 : s0.shutdown = false)
    (sp : ChildSpec) (r : Reason) :
    OFO.TInv (OFO.quietStep s0 (scan n pid 0 m.spec) sp r).1 (kids.filter (fun x => x.1 ≠ pid)) ∧
    ∃ a, (OFO.quietStep s0 (scan n pid 0 m.spec) sp r).2 = .ok a ∧ a.act ≠ .start ∧
      OFO.TGood (OFO.quietStep s0 (scan n pid 0 m.spec) sp r).1 (kids.filter (fun x => x.1 ≠ pid)) a := by
  unfold OFO.quietStep
  split
  · exact OFO.stopAll_track m kids h hsd pid n hk s0 hs hsd0 r
  · exact OFO.autoShutdown_track m kids h hsd pid n hk s0 hs hsd0 r

/-- restart or give up -/
theorem OFO.intensityStep_track (s0 : OFO) (hs : s0.spec = (scan n pid 0 m.spec).spec) (hsd0 : s0.shutdown = false)
    (sp : ChildSpec) (now : Int) :
    OFO.TInv (OFO.intensityStep s0 (scan n pid 0 m.spec) sp now).1 (kids.filter (fun x => x.1 ≠ pid)) ∧
    ∃ a, (OFO.intensityStep s0 (scan n pid 0 m.spec) sp now).2 = .ok a ∧
      (a.act = .start → a.spec = sp ∧ (OFO.intensityStep s0 (scan n pid 0 m.spec) sp now).1.shutdown = false ∧
        (OFO.intensityStep s0 (scan n pid 0 m.spec) sp now).1.spec = (scan n pid 0 m.spec).spec) ∧
      (a.act ≠ .start → OFO.TGood (OFO.intensityStep s0 (scan n pid 0 m.spec) sp now).1 (kids.filter (fun x => x.1 ≠ pid)) a) := by
  have ⟨hA, _, hC, _⟩ := OFO.scan_track m kids h hsd pid n hk
  unfold OFO.intensityStep
  simp only
  split
  · refine ⟨OFO.tinv_normal_of m kids h hsd pid n hk _ hs hsd0, _, rfl, ?_, by simp⟩
    intro _; exact ⟨rfl, hsd0, hs⟩
  · refine ⟨OFO.tinv_shut_of m kids h hsd pid n hk _ hs rfl rfl (by simp), _, rfl, by simp, ?_⟩
    intro _
    simp only [OFO.TGood]
    constructor
    · intro hemp e he
      refine ⟨fun _ => by simpa using he, ?_⟩
      intro p hp
      have hnil : runningPids s0.spec = [] := List.isEmpty_iff.mp hemp
      have : p ∈ runningPids s0.spec := by
        rw [mem_runningPids, hs]; exact (hA p).mp hp
      rw [hnil] at this; simp at this
    · intro hne _
      rcases hne with hne | hne
      · cases hrp : runningPids s0.spec with
        | nil => rw [hrp] at hne; simp at hne
        | cons a t =>
          have : a ∈ runningPids s0.spec := by rw [hrp]; simp
          rw [mem_runningPids, hs] at this
          exact ⟨a, (hA a).mpr this⟩
      · simp at hne

end known2


/-- childTerminated for the exit of a known child, in normal operation -/
theorem OFO.ct_track (m : OFO) (kids : List (Nat × Nat)) (h : OFO.TInv m kids) (hwf : OFO.WF m) (hsd : m.shutdown = false)
    (pid n : Nat) (hk : (pid, n) ∈ kids) (r : Reason) (now : Int) :
    OFO.TInv (m.childTerminated n pid r now).1 (kids.filter (fun x => x.1 ≠ pid)) ∧
    ∃ a, (m.childTerminated n pid r now).2 = .ok a ∧
      OFO.TGood (m.childTerminated n pid r now).1 (kids.filter (fun x => x.1 ≠ pid)) a := by
  obtain ⟨c0, hc0, hn0, hp0⟩ := (h.normal hsd).2 pid n hk
  have hhit0 : hit n pid c0 = true := (OFO.hit_iff m kids h hsd pid n hk c0 hc0).mpr ⟨hn0, hp0⟩
  cases hf : (scan n pid 0 m.spec).found with
  | none => exact absurd hhit0 (by rw [scan_found_none n pid 0 m.spec hf c0 hc0]; simp)
  | some x =>
    obtain ⟨j, sp⟩ := x
    obtain ⟨_, d0, hd0, hhit, hsp⟩ := scan_found_some n pid 0 m.spec j sp hf
    simp only [Nat.sub_zero] at hd0
    -- the start action for `sp` is valid in any state whose spec is the scanned one
    have hstart : ∀ s1 : OFO, s1.spec = (scan n pid 0 m.spec).spec → s1.shutdown = false →
        OFO.TGood s1 (kids.filter (fun x => x.1 ≠ pid)) { act := .start, spec := sp } := by
      intro s1 hs1 hsd1
      simp only [OFO.TGood]
      have hij : sp.i = j := by rw [hsp]; exact hwf.idx j d0 hd0
      have hat : s1.spec[sp.i]? = some ({ d0 with pid := 0 } : ChildSpec) := by
        rw [hij, hs1, scan_spec_eq]
        simp [List.getElem?_map, hd0, hhit]
      exact ⟨hsd1, ⟨_, hat, by rw [hsp]⟩, _, hat, rfl⟩
    unfold OFO.childTerminated
    simp only [hsd, Bool.false_eq_true, if_false, hf]
    have hfin : ∀ (o : OFO × Res),
        (OFO.TInv o.1 (kids.filter (fun x => x.1 ≠ pid)) ∧ ∃ a, o.2 = .ok a ∧ a.act ≠ .start ∧ OFO.TGood o.1 (kids.filter (fun x => x.1 ≠ pid)) a) →
        OFO.TInv o.1 (kids.filter (fun x => x.1 ≠ pid)) ∧ ∃ a, o.2 = .ok a ∧ OFO.TGood o.1 (kids.filter (fun x => x.1 ≠ pid)) a := by
      rintro o ⟨h1, a, h2, _, h3⟩; exact ⟨h1, a, h2, h3⟩
    have hint : ∀ (s0 : OFO), s0.spec = (scan n pid 0 m.spec).spec → s0.shutdown = false →
        OFO.TInv (OFO.intensityStep s0 (scan n pid 0 m.spec) sp now).1 (kids.filter (fun x => x.1 ≠ pid)) ∧
        ∃ a, (OFO.intensityStep s0 (scan n pid 0 m.spec) sp now).2 = .ok a ∧
          OFO.TGood (OFO.intensityStep s0 (scan n pid 0 m.spec) sp now).1 (kids.filter (fun x => x.1 ≠ pid)) a := by
      intro s0 hs0 hsd0
      obtain ⟨hT, a, ha, hst, hnon⟩ := OFO.intensityStep_track m kids h hsd pid n hk s0 hs0 hsd0 sp now
      refine ⟨hT, a, ha, ?_⟩
      by_cases hact : a.act = .start
      · obtain ⟨hsp', hsd', hs'⟩ := hst hact
        have : a = { act := .start, spec := sp } := by
          -- the only start answer of intensityStep is exactly this action
          revert ha
          unfold OFO.intensityStep
          simp only
          split
          · intro ha; simp at ha; exact ha.symm
          · intro ha; simp at ha; subst ha; simp at hact
        rw [this]
        exact hstart _ hs' hsd'
      · exact hnon hact
    split
    · refine hfin _ (OFO.autoShutdown_track m kids h hsd pid n hk _ ?_ ?_ r) <;> rfl
    · split
      · refine hfin _ (OFO.quietStep_track m kids h hsd pid n hk _ ?_ ?_ sp r) <;> rfl
      · split
        · refine hfin _ (OFO.quietStep_track m kids h hsd pid n hk _ ?_ ?_ sp r) <;> rfl
        · exact hint _ rfl rfl
      · exact hint _ rfl rfl

/-- childTerminated while shutting down (any pid) -/
theorem OFO.ct_track_shut (m : OFO) (kids : List (Nat × Nat)) (h : OFO.TInv m kids) (hsd : m.shutdown = true)
    (pid n : Nat) (r : Reason) (now : Int) :
    OFO.TInv (m.childTerminated n pid r now).1 (kids.filter (fun x => x.1 ≠ pid)) ∧
    ∃ a, (m.childTerminated n pid r now).2 = .ok a ∧
      OFO.TGood (m.childTerminated n pid r now).1 (kids.filter (fun x => x.1 ≠ pid)) a := by
  have ⟨h1, h2⟩ := h.shut hsd
  have hT : OFO.TInv { m with wait := sdel pid m.wait, shutdown := true } (kids.filter (fun x => x.1 ≠ pid)) := by
    constructor
    · exact h.names
    · exact h.nz
    · exact h.pinj
    · intro hx; simp at hx
    · intro _
      refine ⟨?_, h2⟩
      intro p; simp only [mem_sdel, mem_keys_filter_ne, h1 p]
  unfold OFO.childTerminated
  simp only [hsd, if_true]
  split
  · rename_i hlen
    refine ⟨hT, _, rfl, ?_⟩
    simp only [OFO.TGood, OFO.Live]
    refine ⟨by intro _ e he; simp at he, ?_⟩
    intro _ _
    cases hw : sdel pid m.wait with
    | nil => rw [hw] at hlen; simp at hlen
    | cons a t =>
      have : a ∈ sdel pid m.wait := by rw [hw]; simp
      exact ⟨a, ((hT.shut rfl).1 a).mp this⟩
  · rename_i hlen
    refine ⟨hT, _, rfl, ?_⟩
    simp only [OFO.TGood]
    refine ⟨h2, ?_⟩
    intro e he
    refine ⟨fun _ => he, ?_⟩
    intro p hp
    have := ((hT.shut rfl).1 p).mpr hp
    have hnil : sdel pid m.wait = [] := by
      cases hw : sdel pid m.wait with
      | nil => rfl
      | cons a t => rw [hw] at hlen; simp at hlen
    simp only at this
    rw [hnil] at this; simp at this


/-- childTerminated for an exit that belongs to no child (fresh pid, empty name), in normal operation:
nothing is hit, everybody is told to stop -/
theorem OFO.ct_track_foreign (m : OFO) (kids : List (Nat × Nat)) (h : OFO.TInv m kids) (hsd : m.shutdown = false)
    (np : Nat) (hnp0 : np ≠ 0) (hfresh : ∀ p, p ∈ keys kids → p < np) (r : Reason) (now : Int) :
    OFO.TInv (m.childTerminated 0 np r now).1 kids ∧
    ∃ a, (m.childTerminated 0 np r now).2 = .ok a ∧ OFO.TGood (m.childTerminated 0 np r now).1 kids a := by
  have ⟨hN, hN2⟩ := h.normal hsd
  have hnohit : ∀ c, c ∈ m.spec → hit 0 np c = false := by
    intro c hc
    simp only [hit, Bool.or_eq_false_iff, beq_eq_false_iff_ne]
    refine ⟨h.nz c hc, ?_⟩
    intro hp
    have : np ∈ keys kids := (hN np).mpr ⟨hnp0, c, hc, hp⟩
    exact absurd (hfresh np this) (Nat.lt_irrefl _)
  have hspec : (scan 0 np 0 m.spec).spec = m.spec := by
    rw [scan_spec_eq]
    conv => rhs; rw [← List.map_id m.spec]
    apply List.map_congr_left
    intro c hc; simp [hnohit c hc]
  have hrun : ∀ p, p ∈ (scan 0 np 0 m.spec).running ↔ p ∈ keys kids := by
    intro p
    rw [scan_running_mem, hN p]
    constructor
    · rintro ⟨c, hc, _, hp0, rfl⟩; exact ⟨hp0, c, hc, rfl⟩
    · rintro ⟨hp0, c, hc, rfl⟩; exact ⟨c, hc, hnohit c hc, hp0, rfl⟩
  have hfn : (scan 0 np 0 m.spec).found = none := by
    cases hf : (scan 0 np 0 m.spec).found with
    | none => rfl
    | some x =>
      obtain ⟨j, sp⟩ := x
      obtain ⟨_, d0, hd0, hhit, _⟩ := scan_found_some 0 np 0 m.spec j sp hf
      have := hnohit d0 (List.mem_of_getElem? hd0)
      rw [this] at hhit; simp at hhit
  unfold OFO.childTerminated
  simp only [hsd, Bool.false_eq_true, if_false, hfn]
  unfold OFO.stopAll
  split
  · rename_i hlen
    have hnil : (scan 0 np 0 m.spec).running = [] := List.length_eq_zero_iff.mp hlen
    refine ⟨?_, _, rfl, ?_⟩
    · constructor
      · simp only [hspec]; exact h.names
      · simp only [hspec]; exact h.nz
      · simp only [hspec]; exact h.pinj
      · intro _; simp only [hspec]; exact ⟨hN, hN2⟩
      · intro hx; simp at hx
    · simp only [OFO.TGood]
      refine ⟨by simp, ?_⟩
      intro e he
      refine ⟨fun hx => by simp at hx, ?_⟩
      intro p hp
      have := (hrun p).mpr hp
      rw [hnil] at this; simp at this
  · rename_i hlen
    refine ⟨?_, _, rfl, ?_⟩
    · constructor
      · simp only [hspec]; exact h.names
      · simp only [hspec]; exact h.nz
      · simp only [hspec]; exact h.pinj
      · intro hx; simp at hx
      · intro _
        refine ⟨?_, by simp⟩
        intro p; simp only [mem_mkSet]; exact hrun p
    · simp only [OFO.TGood]
      constructor
      · intro hemp
        have : (scan 0 np 0 m.spec).running = [] := List.isEmpty_iff.mp hemp
        rw [this] at hlen; simp at hlen
      · intro _ _
        cases hr : (scan 0 np 0 m.spec).running with
        | nil => rw [hr] at hlen; simp at hlen
        | cons a t => exact ⟨a, (hrun a).mp (by rw [hr]; simp)⟩


/-! ### starting a child -/

theorem mem_set_cases {l : List ChildSpec} {i : Nat} {e c : ChildSpec} (h : c ∈ l.set i e) : c = e ∨ c ∈ l := by
  rcases List.mem_or_eq_of_mem_set h with h1 | h1
  · exact Or.inr h1
  · exact Or.inl h1

theorem mem_set_of_ne {l : List ChildSpec} {i : Nat} {e sp c : ChildSpec} (hi : l[i]? = some sp) (hc : c ∈ l) (hne : c ≠ sp) :
    c ∈ l.set i e := by
  obtain ⟨k, hk⟩ := List.mem_iff_getElem?.mp hc
  have hik : i ≠ k := by
    intro e'; subst e'; rw [hi] at hk; simp at hk; exact hne hk.symm
  exact List.mem_iff_getElem?.mpr ⟨k, by rw [List.getElem?_set_ne hik]; exact hk⟩

theorem mem_set_self {l : List ChildSpec} {i : Nat} {e sp : ChildSpec} (hi : l[i]? = some sp) : e ∈ l.set i e := by
  have hlt : i < l.length := (List.getElem?_eq_some_iff.mp hi).1
  exact List.mem_iff_getElem?.mpr ⟨i, by simp [List.getElem?_set, hlt]⟩

theorem map_name_set {l : List ChildSpec} {i : Nat} {e sp : ChildSpec} (hi : l[i]? = some sp) (hn : e.name = sp.name) :
    (l.set i e).map (·.name) = l.map (·.name) := by
  apply List.ext_getElem?
  intro k
  simp only [List.getElem?_map, List.getElem?_set]
  by_cases hik : i = k
  · subst hik
    have ⟨hlt, hget⟩ := List.getElem?_eq_some_iff.mp hi
    simp [hlt, hn, hget]
  · simp [hik]

/-- the state after `childStarted` for a valid start of a spec that has no child, with a fresh pid -/
theorem OFO.started_tinv (m : OFO) (kids : List (Nat × Nat)) (h : OFO.TInv m kids) (hsd : m.shutdown = false)
    (i np : Nat) (sp e : ChildSpec) (hi : m.spec[i]? = some sp) (hsp0 : sp.pid = 0) (hen : e.name = sp.name) (hep : e.pid = np)
    (hnp0 : np ≠ 0) (hfresh : ∀ p, p ∈ keys kids → p < np)
    (m' : OFO) (hs : m'.spec = m.spec.set i e) (hsd' : m'.shutdown = false) :
    OFO.TInv m' ((np, e.name) :: kids) := by
  have ⟨hN, hN2⟩ := h.normal hsd
  have hspm : sp ∈ m.spec := List.mem_of_getElem? hi
  -- a spec with a non-zero pid is not `sp`, and its pid is old (smaller than np)
  have hold : ∀ c, c ∈ m.spec → c.pid ≠ 0 → c ≠ sp ∧ c.pid < np := by
    intro c hc hp
    refine ⟨fun e' => by rw [e', hsp0] at hp; exact hp rfl, ?_⟩
    exact hfresh _ ((hN c.pid).mpr ⟨hp, c, hc, rfl⟩)
  constructor
  · rw [hs, map_name_set hi hen]; exact h.names
  · intro c hc
    rw [hs] at hc
    rcases mem_set_cases hc with rfl | hc
    · rw [hen]; exact h.nz sp hspm
    · exact h.nz c hc
  · intro c1 c2 h1 h2 heq hne
    rw [hs] at h1 h2
    rcases mem_set_cases h1 with h1e | h1 <;> rcases mem_set_cases h2 with h2e | h2
    · rw [h1e, h2e]
    · have := (hold c2 h2 (by rw [← heq]; exact hne)).2
      rw [← heq, h1e, hep] at this; exact absurd this (Nat.lt_irrefl _)
    · have := (hold c1 h1 hne).2
      rw [heq, h2e, hep] at this; exact absurd this (Nat.lt_irrefl _)
    · exact h.pinj c1 c2 h1 h2 heq hne
  · intro _
    constructor
    · intro p
      rw [mem_keys_cons, hN p]
      constructor
      · rintro (rfl | ⟨hp0, c, hc, hcp⟩)
        · exact ⟨hnp0, e, by rw [hs]; exact mem_set_self hi, hep⟩
        · exact ⟨hp0, c, by rw [hs]; exact mem_set_of_ne hi hc (hold c hc (by rw [hcp]; exact hp0)).1, hcp⟩
      · rintro ⟨hp0, c, hc, hcp⟩
        rw [hs] at hc
        rcases mem_set_cases hc with rfl | hc
        · left; rw [← hcp, hep]
        · right; exact ⟨hp0, c, hc, hcp⟩
    · intro p n' hpn
      rcases List.mem_cons.mp hpn with heq | hpn
      · simp only [Prod.mk.injEq] at heq
        exact ⟨e, by rw [hs]; exact mem_set_self hi, heq.2.symm, by rw [hep, heq.1]⟩
      · obtain ⟨c, hc, hcn, hcp⟩ := hN2 p n' hpn
        have hp0 : p ≠ 0 := ((hN p).mp (by simp [keys]; exact ⟨n', hpn⟩)).1
        exact ⟨c, by rw [hs]; exact mem_set_of_ne hi hc (hold c hc (by rw [hcp]; exact hp0)).1, hcn, hcp⟩
  · intro hx; rw [hsd'] at hx; simp at hx


theorem OFO.childStarted_unfold (m : OFO) (cs : ChildSpec) (np : Nat) (sp : ChildSpec)
    (hsp : m.spec[cs.i]? = some sp) (hn : sp.name = cs.name) :
    m.childStarted cs np =
      (let s1 : OFO := { m with spec := m.spec.set cs.i { sp with args := cs.args, pid := np } }
       if s1.mode ≠ 1 then (s1, .ok {})
       else if cs.i = s1.spec.length - 1 then ({ s1 with mode := 0 }, .ok {})
       else match findStart (cs.i + 1) 0 s1.spec with
         | some (k, c) => (s1, .ok { act := .start, spec := { c with i := k } })
         | none => (s1, .ok {})) := by
  unfold OFO.childStarted
  simp only [hsp]
  rw [if_neg (by simp [hn])]
  rfl

/-- childStarted keeps the tracking invariant; what it asks next is again a good action (the loop of handleAction) -/
theorem OFO.childStarted_track (m : OFO) (kids : List (Nat × Nat)) (h : OFO.TInv m kids) (a : Action)
    (hg : m.shutdown = false ∧ OFO.ValidStart m a ∧ ∃ c : ChildSpec, m.spec[a.spec.i]? = some c ∧ c.pid = 0)
    (np : Nat) (hnp0 : np ≠ 0) (hfresh : ∀ p, p ∈ keys kids → p < np) :
    OFO.TInv (m.childStarted a.spec np).1 ((np, a.spec.name) :: kids) ∧
    ∃ a', (m.childStarted a.spec np).2 = .ok a' ∧ OFO.TGood (m.childStarted a.spec np).1 ((np, a.spec.name) :: kids) a' ∧
      (a'.act = .nothing ∨ a'.act = .start) := by
  obtain ⟨hsd, ⟨sp, hsp, hn⟩, c0, hc0, hz⟩ := hg
  have hsp0 : sp.pid = 0 := by rw [hsp] at hc0; simp at hc0; rw [hc0]; exact hz
  rw [OFO.childStarted_unfold m a.spec np sp hsp hn]
  have hT : ∀ m' : OFO, m'.spec = m.spec.set a.spec.i { sp with args := a.spec.args, pid := np } → m'.shutdown = false →
      OFO.TInv m' ((np, a.spec.name) :: kids) := by
    intro m' hs hsd'
    have := OFO.started_tinv m kids h hsd a.spec.i np sp { sp with args := a.spec.args, pid := np } hsp hsp0 rfl rfl hnp0 hfresh m' hs hsd'
    simp only at this
    rw [hn] at this
    exact this
  simp only
  split
  · exact ⟨hT _ rfl hsd, _, rfl, by simp [OFO.TGood, OFO.Live, hsd], Or.inl rfl⟩
  · split
    · exact ⟨hT _ rfl hsd, _, rfl, by simp [OFO.TGood, OFO.Live, hsd], Or.inl rfl⟩
    · split
      · rename_i k c hfs
        have hfs' := findStart_spec (a.spec.i + 1) _ 0 k c hfs
        refine ⟨hT _ rfl hsd, _, rfl, ?_, Or.inr rfl⟩
        simp only [OFO.TGood]
        exact ⟨hsd, ⟨c, by simpa using hfs'.2.2.1, rfl⟩, c, by simpa using hfs'.2.2.1, hfs'.2.2.2.1⟩
      · exact ⟨hT _ rfl hsd, _, rfl, by simp [OFO.TGood, OFO.Live, hsd], Or.inl rfl⟩

end ErgoVerif.Sup

import ErgoVerif.Drive.Util
import ErgoVerif.Model.App
import ErgoVerif.Generated.App
namespace ErgoVerif.Drive.App
open ErgoVerif ErgoVerif.Drive ErgoVerif.App

def mode? : String → Option Mode
  | "temporary" => some .temporary | "transient" => some .transient | "permanent" => some .permanent | _ => none

def reason? (s : String) : Option Reason :=
  match s with
  | "normal" => some .normal | "shutdown" => some .shutdown | "kill" => some .kill
  | _ => if s.startsWith "crash" then (s.drop 5).toString.toNat?.map Reason.crash else none

def showReason : Reason → String
  | .normal => "normal" | .shutdown => "shutdown" | .kill => "kill" | .crash n => s!"crash{n}"

def showState : AState → String
  | .loaded => "loaded" | .running => "running" | .stopping => "stopping"

def showRes : Res → String
  | .ok => "ok" | .errRunning => "running" | .errState => "state" | .errStopping => "stopping" | .errSpawn => "spawn" | .pending => "pending"

def showApp (a : ErgoVerif.App.App) : String :=
  let t := a.termCbs.map fun e => s!"{e.1}:{showReason e.2}"
  s!"state={showState a.state} group={showNatList (a.group.mergeSort (fun x y => decide (x ≤ y)))} starts={a.startCbs.length} terms={if t.isEmpty then "-" else ",".intercalate t}"

/-- `reset` | `start <mode> <n> <failAt|->` | `exit <i> <reason>` | `stop <0|1>` -/
def line (a : ErgoVerif.App.App) (ln : String) : ErgoVerif.App.App × String :=
  let rr := Gen.App.startResetsReason
  let fin := fun (r : ErgoVerif.App.App × Res) => (r.1, showRes r.2 ++ " " ++ showApp r.1)
  match words ln with
  | ["reset"] => (ErgoVerif.App.App.init, "ok")
  | ["start", m, n, f] => match mode? m, n.toNat? with
    | some m, some n => fin (step rr a (.start m n (if f = "-" then none else f.toNat?)))
    | _, _ => (a, "bad-op")
  | ["exit", i, r] => match i.toNat?, reason? r with
    | some i, some r => fin (step rr a (.memberExit i r))
    | _, _ => (a, "bad-op")
  | ["stop", f] => fin (step rr a (.stop (f = "1")))
  | _ => (a, "bad-op")

def main (h : IO.FS.Stream) : IO Unit := loopState h line ErgoVerif.App.App.init
end ErgoVerif.Drive.App

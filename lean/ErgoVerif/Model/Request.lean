/-
Model of the request/reply rendezvous used by every synchronous proto request
(Link*/Unlink*/Monitor*/Demonitor*/RemoteSpawn/ApplicationStart/updateCache):

  net/proto/connection.go  LinkPID … : `ch := make(chan MessageResult[, cap])`, `c.requests[ref] = ch`,
                                       `c.sendAny(...)`, `c.waitResult(ref, ch)`
  net/proto/connection.go  waitResult : `select { case <-timer.C: ErrTimeout; case result = <-ch: }`, `delete(c.requests, ref)`
  net/proto/connection.go  routeMessage, case MessageResult : look the channel up and
                                       `select { case ch <- m: default: }`   (non-blocking hand-over)

Two threads: the requester (program points: sent → waiting → done) and the receive worker that
delivers the reply.  Interleaving semantics, one label per atomic step.  `cap` is the channel capacity.
-/
namespace ErgoVerif.Request

inductive Req | sent | waiting | gotReply | timedOut deriving DecidableEq, Repr

structure St where
  req      : Req      -- requester's program point
  arrived  : Bool     -- the reply has reached routeMessage
  buffered : Bool     -- a value sits in the channel buffer
  dropped  : Bool     -- the non-blocking send took the `default` branch
  registered : Bool   -- c.requests still has the entry
deriving DecidableEq, Repr

def init : St := ⟨.sent, false, false, false, true⟩

inductive Lbl
  | enterWait     -- requester reaches the select in waitResult
  | replyArrives  -- routeMessage runs for the (single) reply
  | recv          -- requester takes a buffered value
  | timeout       -- the 5 s timer fires
deriving DecidableEq, Repr

def step (cap : Nat) (s : St) : Lbl → Option St
  | .enterWait => if s.req = .sent then some { s with req := .waiting } else none
  | .replyArrives =>
    if s.arrived then none
    else if !s.registered then some { s with arrived := true }          -- "no one is waiting": request already finished
    else if s.req = .waiting ∧ !s.buffered then
      some { s with arrived := true, req := .gotReply, registered := false }   -- receiver ready: direct hand-over
    else if cap > 0 ∧ !s.buffered then some { s with arrived := true, buffered := true }
    else some { s with arrived := true, dropped := true }               -- `default:` — the reply is thrown away
  | .recv =>
    if s.req = .waiting ∧ s.buffered then some { s with req := .gotReply, buffered := false, registered := false } else none
  | .timeout =>
    if s.req = .waiting ∧ !s.buffered then some { s with req := .timedOut, registered := false } else none

def run (cap : Nat) : St → List Lbl → Option St
  | s, [] => some s
  | s, l :: ls => match step cap s l with
    | none => none
    | some s' => run cap s' ls

end ErgoVerif.Request

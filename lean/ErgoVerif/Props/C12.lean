/-
C12 — remote delivery integrity (wire protocol part).

Models (all mirror net/proto/connection.go, see the files for the function-by-function map):
  Model/Stream.lean + Model/Link.lean   read()/serve(): frame reassembly over arbitrary chunks
  Model/Frame.lean                      Send*/Call*/SendTerminate* builders and the header part of the
                                        receive cases, executed from the GENERATED layout tables
  Model/Envelope.lean                   send(): compression threshold, envelope, size check before write

What is proved here (for all inputs; `decide` is used only over the finite generated tables):
  * C12_segmentation, C12_segmentation_any, C12_conservation  — the reader outputs exactly the
    frames that were written, in order, for EVERY way the byte stream is cut into chunks;
  * C12_frame_roundtrip — for every frame kind the receive case recovers sender id, addressee,
    priority, reference, timestamp, name, important flag and the payload bytes the writer put in;
  * C12_oversize, C12_envelope_* — see the Envelope section.
-/
import ErgoVerif.Lemmas.Stream
import ErgoVerif.Lemmas.Frame
import ErgoVerif.Lemmas.Envelope
import ErgoVerif.Lemmas.Request
import ErgoVerif.Model.Ack
import ErgoVerif.Lemmas.Remote
import ErgoVerif.Model.StreamLink
namespace ErgoVerif.Props.C12
open ErgoVerif.Stream ErgoVerif.Generated.Proto

/-! ## Reassembly: every segmentation of a stream of well-formed frames yields exactly these frames -/

/-- the bound read() enforces on the length field does not exclude any frame a writer can produce
    (every writer allocates at least the 8-byte header) -/
theorem read_guard_is_header (max : Nat) : (linkCfg max).minLen ≤ 8 := by
  show readMinLen ≤ 8; decide

/-- For every receiver limit, every list of well-formed frames and EVERY segmentation of their
    concatenation (1-byte chunks, splits inside headers, several frames per chunk, empty chunks …)
    the reader hands exactly these frames, in order, to the decoding queues, stays open and keeps
    no residue. -/
theorem C12_segmentation (max : Nat) (hmax : max = 0 ∨ 8 ≤ max) (fs chunks : List Bytes)
    (hwf : ∀ f ∈ fs, WF (linkCfg max) f) (hj : chunks.flatten = fs.flatten) :
    readAll (linkCfg max) RState.init chunks = (⟨[], none⟩, fs) :=
  segmentation (linkCfg max) hmax fs chunks hwf hj

/-- The output of the reader depends only on the bytes, never on how they were cut — for ANY
    byte stream (well-formed or not). -/
theorem C12_segmentation_any (max : Nat) (hmax : max = 0 ∨ 8 ≤ max) (chunks chunks' : List Bytes)
    (hj : chunks.flatten = chunks'.flatten) :
    readAll (linkCfg max) RState.init chunks = readAll (linkCfg max) RState.init chunks' := by
  rw [readAll_eq_cutAll _ hmax, readAll_eq_cutAll _ hmax, hj]

/-- No byte is lost, duplicated or reordered: while the link is open the frames handed over plus the
    buffered remainder are exactly the bytes received. -/
theorem C12_conservation (max : Nat) (hmax : max = 0 ∨ 8 ≤ max) (chunks : List Bytes) :
    let r := readAll (linkCfg max) RState.init chunks
    r.1.closed = none → r.2.flatten ++ r.1.buf = chunks.flatten := by
  intro r
  have hr : r = ((cutAll (linkCfg max) chunks.flatten).state, (cutAll (linkCfg max) chunks.flatten).frames) :=
    readAll_eq_cutAll _ hmax chunks
  have hc := cutAll_conserve (linkCfg max) chunks.flatten
  rw [hr]
  cases hcut : cutAll (linkCfg max) chunks.flatten with
  | more fs rest => simp [hcut] at hc; intro _; simpa [Res.state, Res.frames] using hc
  | closed fs w => intro h; simp [Res.state] at h

/-- well-formed frames followed by garbage: the well-formed ones still come out first and in order -/
theorem C12_prefix (max : Nat) (hmax : max = 0 ∨ 8 ≤ max) (fs chunks : List Bytes) (junk : Bytes)
    (hwf : ∀ f ∈ fs, WF (linkCfg max) f) (hj : chunks.flatten = fs.flatten ++ junk) :
    ∃ gs, (readAll (linkCfg max) RState.init chunks).2 = fs ++ gs :=
  segmentation_prefix (linkCfg max) hmax fs chunks junk hwf hj

/-- a frame over the receiver's limit is refused by the reader (and closes the link) as soon as its
    header is complete — the body is never buffered -/
theorem C12_reader_limit (max : Nat) (hmax : 8 ≤ max) (hdr : Bytes) (h8 : hdr.length = 8)
    (hl : lenField hdr > max) :
    (readAll (linkCfg max) RState.init [hdr]).1.closed = some .tooLong := by
  have hmin : readMinLen ≤ 8 := by decide
  simp only [readAll, stepChunk, RState.init, List.nil_append, cutAll, h8]
  have h1 : ¬ (lenField hdr < readMinLen) := by omega
  have h2 : 0 < max := by omega
  simp [cut, h8, linkCfg, hl, h1, h2]

/-! non-vacuity: a two-frame stream cut in three different ways -/
def f1 : Bytes := [78, 1, 0, 0, 0, 9, 0, 199, 7]
def f2 : Bytes := [78, 1, 0, 0, 0, 10, 3, 101, 1, 2]
example : WF (linkCfg 0) f1 ∧ WF (linkCfg 64) f2 := by decide
example : readAll (linkCfg 0) RState.init [f1 ++ f2] = (⟨[], none⟩, [f1, f2]) := by decide
example : readAll (linkCfg 0) RState.init [[78], [1, 0, 0, 0], [9, 0, 199, 7, 78, 1, 0], [0, 0, 10, 3, 101, 1, 2]]
    = (⟨[], none⟩, [f1, f2]) := by decide
example : readAll (linkCfg 16) RState.init ((f1 ++ f2).map fun b => [b]) = (⟨[], none⟩, [f1, f2]) := by decide

/-! ## Frames: for every frame kind the receive case recovers what the writer method put in -/
section Frames
open ErgoVerif.Frame

/-- the extractor found a writer method and a receive case for exactly these message types
    (every Send*/Call*/SendTerminate* method of gen.Connection, both name variants, and sendAny) -/
theorem C12_kinds_complete :
    wireKinds.map (·.typ) =
      [101, 102, 103, 104, 105, 106, 107, 121, 122, 123, 124, 129, 130, 181, 182, 183, 184, 185, 186, 199] := by
  decide

/-- message-type bytes identify the kind -/
theorem C12_types_distinct : (kinds.map (·.typ)).Nodup := by decide

/-- writer and reader tables of every kind agree: same field at the same offset with the same width,
    fields do not overlap, flags are OR-ed after the byte they live in is written, the name and the
    payload start where the writer put them (checked over the GENERATED tables) -/
theorem C12_layouts_ok : ∀ k ∈ wireKinds, LayoutOK k = true := by decide

/-- every EDF payload is at least 2 bytes (a type tag and a value; `nil` is refused by the encoder),
    which is enough to pass the first length guard of every receive case, whatever the name -/
theorem C12_guards_reachable : ∀ k ∈ wireKinds, k.guard ≤ k.alloc + 2 := by decide

/-- read ∘ write = id, for every frame kind and every message whose field values fit their width:
    the receive case obtains exactly the payload bytes and the inline name that were sent, and every
    header field it extracts (sender id, addressee id / alias words, priority, the three reference
    words, timestamp, cache id, error code, important flag) has the value the writer stored. -/
theorem C12_frame_roundtrip (k : Kind) (hk : k ∈ wireKinds) (m : Msg) (hf : m.fits k) :
    ∃ p, parse k (encode k m) = .ok p ∧
         p.payload = m.payload ∧
         p.name = (if k.inlineName then m.name else []) ∧
         ∀ x ∈ expectedFields k m, x ∈ p.fields :=
  parse_encode k (C12_layouts_ok k hk) m hf

/-- masks: the priority byte is read whole or with `& 3` (which keeps every defined priority 0, 1, 2
    — so `expected` is the priority itself), the important flag is bit 7 on both sides -/
theorem C12_masks : ∀ k ∈ wireKinds,
    (∀ r ∈ k.reads, r.name = "options.Priority" → r.mask = 0 ∨ r.mask = 3) ∧
    (∀ r ∈ k.reads, r.mask ≠ 0 → r.name = "options.Priority" ∨ (r.name = "important" ∧ r.mask = 128)) ∧
    (∀ w ∈ k.writes, w.mask ≠ 0 → w.mask = 128 ∧ w.cond = "important") := by decide

theorem C12_priority_exact (p : Nat) (hp : p ≤ 2) : p &&& 3 = p := by
  match p, hp with
  | 0, _ => rfl
  | 1, _ => rfl
  | 2, _ => rfl

/-- every writer that addresses a process id or an alias of a particular incarnation compares the
    incarnation with the peer's before it touches the buffer (refused ⇒ nothing written) -/
theorem C12_incarnation_guarded :
    ∀ k ∈ wireKinds, k.typ ∈ [101, 104, 107, 121, 124, 129, 130] → k.incarnation = true := by decide
-- The Terminate frames (181, 184) announce a LOCAL target: since the repair of the guard in SendTerminatePID/Alias they
-- compare with the node's own incarnation, which is the subject of Props/C14.lean (C14_terminate_announced).

/-- the payload handed to the decoder is always a suffix of the frame (nothing foreign is decoded) -/
theorem C12_payload_is_suffix (k : Kind) (f : List UInt8) (p : Parsed) (h : parse k f = .ok p) :
    ∃ pre, f = pre ++ p.payload :=
  parse_ok_payload_suffix k f p h

/-! non-vacuity: an important SendPID and a CallProcessID with an inline name -/
def vals0 : Vals := fun n =>
  if n = "from.ID" then 1021 else if n = "to.ID" then 77 else if n = "options.Priority" then 2
  else if n = "options.Ref.ID[0]" then 123456789 else if n = "options.Ref.ID[1]" then 5
  else if n = "options.Ref.ID[2]" then 6 else 3
def msg0 : Msg := ⟨vals0, true, [65, 66, 67], [141, 0, 1, 120]⟩
example : (kindOf 101).map (fun k => parse k (encode k msg0)) =
    some (.ok ⟨[("from.ID", 1021), ("options.Priority", 2), ("important", 128), ("to.ID", 77), ("options.Ref.ID[0]", 123456789)],
               [], [141, 0, 1, 120]⟩) := by decide
example : (kindOf 122).map (fun k => (parse k (encode k msg0))) =
    some (.ok ⟨[("from.ID", 1021), ("options.Priority", 2), ("important", 128), ("options.Ref.ID[0]", 123456789),
                ("options.Ref.ID[1]", 5), ("options.Ref.ID[2]", 6), ("name.len", 3)], [65, 66, 67], [141, 0, 1, 120]⟩) := by decide
/-- a frame shorter than its kind's guard is dropped, never mis-parsed -/
example : (kindOf 101).map (fun k => parse k ((encode k msg0).take 29)) = some .dropped := by decide

end Frames

/-! ## send(): compression envelope and the size check before the write -/
section Envelope
open ErgoVerif.Frame ErgoVerif.Envelope

/-- compression happens exactly when it is enabled and the frame is LONGER than the threshold -/
theorem C12_threshold (c : Comp) (frame : List UInt8) :
    wantsZ c frame = true ↔ c.enable = true ∧ (frame.length : Int) > c.threshold := by
  simp [wantsZ, zStrictThreshold]

/-- oversize ⇒ refused at the sender with nothing written: whenever what would go on the wire is
    longer than the peer's limit, send() returns the error instead of a frame -/
theorem C12_oversize (cd : Codec) (peerMax : Nat) (c : Comp) (frame : List UInt8) (hmax : peerMax > 0)
    (hbig : (if wantsZ c frame then envelope cd c.ctype frame else frame).length > peerMax) :
    send cd peerMax c frame = none := by
  simp only [send, sendChecksMax, Bool.true_and]
  simp [hmax, hbig]

/-- … and whatever is written respects the limit -/
theorem C12_written_within_limit (cd : Codec) (peerMax : Nat) (c : Comp) (frame out : List UInt8)
    (h : send cd peerMax c frame = some out) : peerMax = 0 ∨ out.length ≤ peerMax := by
  simp only [send, sendChecksMax, Bool.true_and] at h
  by_cases hb : peerMax > 0 ∧ (if wantsZ c frame = true then envelope cd c.ctype frame else frame).length > peerMax
  · simp [hb] at h
  · simp [hb] at h
    subst h
    omega

/-- a writer that checks the limit before building the header refuses on the plain length already -/
theorem C12_oversize_early (cd : Codec) (k : Kind) (hk : k.earlyMax = true) (peerMax : Nat) (c : Comp) (m : Msg)
    (hmax : peerMax > 0) (hbig : (encode k m).length > peerMax) : sendKind cd k peerMax c m = none := by
  simp [sendKind, hk, hmax, hbig]

/-- below the threshold, or with compression off, the frame goes out unchanged -/
theorem C12_plain (cd : Codec) (peerMax : Nat) (c : Comp) (frame : List UInt8)
    (hz : wantsZ c frame = false) (hfit : peerMax = 0 ∨ frame.length ≤ peerMax) :
    send cd peerMax c frame = some frame := by
  simp only [send, hz, sendChecksMax, Bool.true_and]
  have : ¬ (peerMax > 0 ∧ frame.length > peerMax) := by omega
  simp [this]

/-- envelope round trip: under the HYPOTHESIS that the decompressor undoes the compressor, the
    compressed receive case yields exactly the frame send() wrapped, for every compression id and frame -/
theorem C12_envelope_roundtrip (cd : Codec) (hrt : ∀ t b, cd.decomp t (cd.comp t b) = some b)
    (t : Nat) (ht : t < 256) (frame : List UInt8) (hl : frame.length < 2 ^ 32) :
    openEnvelope cd (envelope cd t frame) = some frame :=
  open_envelope cd hrt t ht frame hl

/-- the envelope is itself a frame the reader accepts (so `C12_segmentation` applies to it), and it
    keeps the order byte of the message it carries -/
theorem C12_envelope_wellformed (cd : Codec) (t : Nat) (frame : List UInt8) (max : Nat)
    (hl : zPreallocate + 4 + (cd.comp t frame).length < 2 ^ 32)
    (hm : max > 0 → (envelope cd t frame).length ≤ max) :
    WF (linkCfg max) (envelope cd t frame) ∧ (envelope cd t frame).getD 6 0 = frame.getD 6 0 := by
  refine ⟨⟨?_, envelope_lenField cd t frame hl, hm, ?_, ?_⟩, envelope_order cd t frame⟩
  · rw [envelope_length]; simp [zPreallocate]; omega
  · rw [envelope_length]; show readMinLen ≤ _; simp [readMinLen, zPreallocate]; omega
  · rw [envelope_eq, be4_explicit]; rfl

/-- the round-trip hypothesis is satisfiable (identity codec), so the theorem is not vacuous -/
example : ∃ cd : Codec, ∀ t b, cd.decomp t (cd.comp t b) = some b := ⟨⟨fun _ b => b, fun _ b => some b⟩, fun _ _ => rfl⟩

end Envelope

/-! ## Synchronous requests: the reply reaches the requester in every interleaving -/
section Request
open ErgoVerif.Request

/-- the capacity the code gives the reply channels (all `make(chan MessageResult…)` sites, extracted) -/
theorem reply_channel_buffered : requestChanCap > 0 := by decide

/-- For EVERY interleaving of the requester (send … enter the select … receive / time out) with the
    receive worker that hands the reply over by a non-blocking send: the reply is never thrown
    away, and once it has arrived for a request that is still pending the requester can no longer
    time out — it can only receive it. -/
theorem C12_reply_not_lost (ls : List Lbl) (s : St) (hr : run requestChanCap init ls = some s) :
    s.dropped = false ∧ (s.arrived = true → s.registered = true → step requestChanCap s .timeout = none ∧ s.buffered = true) :=
  buffered_ok requestChanCap reply_channel_buffered ls s hr

/-- regression witness (the code before the repair used unbuffered channels): a reply that comes
    back before the requester reaches the select is dropped and the request times out -/
theorem C12_reply_unbuffered_lost : ∃ ls s, run 0 init ls = some s ∧ s.dropped = true ∧
    run 0 s [.enterWait, .timeout] = some { s with req := .timedOut, registered := false } :=
  unbuffered_drops

/-- the schedule "reply first, then wait" is enabled and ends with the reply received -/
example : (run requestChanCap init [.replyArrives, .enterWait, .recv]).map (·.req) = some .gotReply := by decide

end Request

/-! ## End to end: writer → byte stream under any segmentation → reader → receive case -/
section EndToEnd
open ErgoVerif.Frame

/-- every frame a writer method produces is a frame the link reader accepts -/
theorem C12_writer_frames_wellformed (k : Kind) (hw : k ∈ wireKinds) (m : Msg) (hf : m.fits k) (max : Nat)
    (hmax : max > 0 → (encode k m).length ≤ max) : WF (linkCfg max) (encode k m) :=
  ErgoVerif.Remote.encode_wf_wire k hw m hf max hmax

/-- For every list of messages (any kinds, any field values that fit, any payload bytes, any names),
    every receiver limit the frames respect, and EVERY way the concatenated frames are cut into
    segments: the reader hands over exactly the frames that were written, in order, and stays open
    with nothing left over; each frame is dispatched by its type byte to the receive case of the
    kind that wrote it, which recovers the payload bytes, the name and every header field — the
    arguments of the Route* call are those of the Send*/Call* call. -/
theorem C12_end_to_end (max : Nat) (hmax : max = 0 ∨ 8 ≤ max) (sent : List (Kind × Msg))
    (hk : ∀ km ∈ sent, km.1 ∈ wireKinds ∧ LayoutOK km.1 = true ∧ km.2.fits km.1 ∧
          (max > 0 → (encode km.1 km.2).length ≤ max) ∧ (encode km.1 km.2).length < 2 ^ 32)
    (chunks : List (List UInt8))
    (hj : chunks.flatten = (sent.map (fun km => encode km.1 km.2)).flatten) :
    let out := readAll (linkCfg max) RState.init chunks
    out.1 = ⟨[], none⟩ ∧
    out.2 = sent.map (fun km => encode km.1 km.2) ∧
    ∀ km ∈ sent, ∃ p, (match (encode km.1 km.2)[7]? with
                        | some t => (kindOf t.toNat).map (fun k => parse k (encode km.1 km.2))
                        | none => none) = some (.ok p) ∧
                      p.payload = km.2.payload ∧
                      p.name = (if km.1.inlineName then km.2.name else []) ∧
                      ∀ x ∈ expectedFields km.1 km.2, x ∈ p.fields :=
  ErgoVerif.Remote.pipeline max hmax sent hk chunks hj

end EndToEnd

/-! ## Important delivery: the sender learns exactly the remote result -/
section Important
open ErgoVerif.Ack

/-- the two `switch` statements agree: every error that has a code of its own is mapped back to
    itself, success to success, the escape code to "decode the error that follows"; codes are distinct -/
theorem C12_error_codes :
    (∀ e ∈ errCodeW, e.1 ≠ "default" → (e.2, e.1) ∈ errCodeR) ∧
    (∀ e ∈ errCodeW, e.1 = "default" → (e.2, "decode") ∈ errCodeR) ∧
    (errCodeW.map (·.2)).Nodup ∧ (errCodeR.map (·.1)).Nodup ∧ (errCodeW.map (·.1)).Nodup ∧
    ("nil", 0) ∈ errCodeW := by decide

/-- the acknowledgement decodes to the remote result — for success, for each error with its own
    code, and (under the EDF round-trip HYPOTHESIS for errors) for any other error -/
theorem C12_ack_roundtrip (encE : List UInt8 → List UInt8) (decE : List UInt8 → Option (List UInt8))
    (hrt : ∀ t, decE (encE t) = some t) (r : RErr)
    (hr : ∀ n, r = .named n → n ≠ "nil" ∧ n ≠ "default" ∧ (codeOf n).isSome) :
    ∃ c rest, encodeAck encE r = some (c, rest) ∧ decodeAck decE c rest = some r := by
  have c0 : codeOf "nil" = some 0 := by decide
  have c1 : codeOf "gen.ErrProcessUnknown" = some 1 := by decide
  have c2 : codeOf "gen.ErrProcessMailboxFull" = some 2 := by decide
  have c3 : codeOf "gen.ErrProcessTerminated" = some 3 := by decide
  have cd : codeOf "default" = some 255 := by decide
  have n0 : nameOf 0 = some "nil" := by decide
  have n1 : nameOf 1 = some "gen.ErrProcessUnknown" := by decide
  have n2 : nameOf 2 = some "gen.ErrProcessMailboxFull" := by decide
  have n3 : nameOf 3 = some "gen.ErrProcessTerminated" := by decide
  have nd : nameOf 255 = some "decode" := by decide
  cases r with
  | ok => exact ⟨0, [], by simp [encodeAck, c0], by simp [decodeAck, n0]⟩
  | other t => exact ⟨255, encE t, by simp [encodeAck, cd], by simp [decodeAck, nd, hrt]⟩
  | named n =>
    obtain ⟨h1, h2, h3⟩ := hr n rfl
    -- the table is finite: every name with a code is one of the generated ones
    have hn : n = "gen.ErrProcessUnknown" ∨ n = "gen.ErrProcessMailboxFull" ∨ n = "gen.ErrProcessTerminated" := by
      simp only [codeOf, errCodeW, List.find?, Option.isSome_map] at h3
      by_cases a : n = "gen.ErrProcessUnknown"; · exact Or.inl a
      by_cases b : n = "gen.ErrProcessMailboxFull"; · exact Or.inr (Or.inl b)
      by_cases c : n = "gen.ErrProcessTerminated"; · exact Or.inr (Or.inr c)
      have a' : ¬ ("gen.ErrProcessUnknown" = n) := fun h => a h.symm
      have b' : ¬ ("gen.ErrProcessMailboxFull" = n) := fun h => b h.symm
      have c' : ¬ ("gen.ErrProcessTerminated" = n) := fun h => c h.symm
      have d' : ¬ ("nil" = n) := fun h => h1 h.symm
      have e' : ¬ ("default" = n) := fun h => h2 h.symm
      simp [a', b', c', d', e'] at h3
    rcases hn with rfl | rfl | rfl
    · exact ⟨1, [], by simp [encodeAck, c1], by simp [decodeAck, n1]⟩
    · exact ⟨2, [], by simp [encodeAck, c2], by simp [decodeAck, n2]⟩
    · exact ⟨3, [], by simp [encodeAck, c3], by simp [decodeAck, n3]⟩

/-- an important send reports success exactly when the remote Route* call returned nil, and
    otherwise the remote error (both flags on; errors as in `C12_ack_roundtrip`) -/
theorem C12_important (encE : List UInt8 → List UInt8) (decE : List UInt8 → Option (List UInt8))
    (hrt : ∀ t, decE (encE t) = some t) (r : RErr)
    (hr : ∀ n, r = .named n → n ≠ "nil" ∧ n ≠ "default" ∧ (codeOf n).isSome) :
    importantSend encE decE true true r = .result r ∧
    (importantSend encE decE true true r = .result .ok ↔ r = .ok) ∧
    (r ≠ .ok → importantCall encE decE true true r = .result r) ∧
    importantSend encE decE false true r = .unsupported := by
  obtain ⟨c, rest, he, hd⟩ := C12_ack_roundtrip encE decE hrt r hr
  have h1 : importantSend encE decE true true r = .result r := by simp [importantSend, he, hd]
  refine ⟨h1, ?_, ?_, by simp [importantSend]⟩
  · rw [h1]; constructor
    · intro h; injection h
    · intro h; rw [h]
  · intro hne; simp [importantCall, hne, h1]

/-- the reference travels sender → receiver → sender unchanged: the word the important Send* kinds
    store at 17..25 is the word the receive cases read for the acknowledgement, and the
    acknowledgement kind carries the three reference words at the places its receive case reads -/
theorem C12_ack_reference :
    (∀ t ∈ [101, 102, 103, 104], ∃ k, ErgoVerif.Frame.kindOf t = some k ∧
        ⟨"options.Ref.ID[0]", 17, 8, 0, "important"⟩ ∈ k.writes ∧ ⟨"options.Ref.ID[0]", 17, 8, 0, ""⟩ ∈ k.reads) ∧
    (∃ k, ErgoVerif.Frame.kindOf 130 = some k ∧
        ∀ i ∈ [(0, 25), (1, 33), (2, 41)],
          ⟨s!"options.Ref.ID[{i.1}]", i.2, 8, 0, ""⟩ ∈ k.writes ∧ ⟨s!"options.Ref.ID[{i.1}]", i.2, 8, 0, ""⟩ ∈ k.reads) := by
  decide

/-- buffer lifetime: no receive case reads a header field after it has handed the frame buffer back
    to the pool (`lib.ReleaseBuffer`) — the acknowledgement reference in particular is read while the
    frame is still there (statement-order data flow extracted from handleRecvQueue; before the S8
    repair this list was [MessagePID@17, MessageName@17, MessageNameCache@17, MessageAlias@17]) -/
theorem C12_no_read_after_release : readsAfterRelease = [] := by decide

example : importantSend id some true true (.named "gen.ErrProcessMailboxFull") = .result (.named "gen.ErrProcessMailboxFull") := by decide
example : importantSend id some true false .ok = .noAck := by decide

end Important

end ErgoVerif.Props.C12

import ErgoVerif.Lemmas.EdfTop
namespace ErgoVerif.Edf
open ErgoVerif.Generated.Edt

/-- after the D27 fix every comparable key type unfolds: `DescOK` is `DescWF` -/
theorem DescOK_of_WF (o : Opts) : (t : Ty) → DescWF o t → DescOK o t
  | .slice t, h => by simp only [DescOK, DescWF] at *; exact DescOK_of_WF o t h
  | .array n t, h => by
    simp only [DescOK, DescWF] at *
    exact ⟨h.1, h.2.1, DescOK_of_WF o t h.2.2⟩
  | .map k v, h => by
    simp only [DescOK, DescWF] at *
    exact ⟨h.1, DescOK_of_WF o k h.2.1, DescOK_of_WF o v h.2.2⟩
  | .named _ _, h => by simpa [DescOK, DescWF] using h
  | .struct _ _, h => by simpa [DescOK, DescWF] using h
  | .marsh _ _, h => by simpa [DescOK, DescWF] using h
  | .bool, _ | .num _, _ | .str, _ | .bin, _ | .atom, _ | .idr _, _ | .idn _, _
  | .time, _ | .error, _ | .any, _ => by simp [DescOK]

mutual
/-- outside the defect region of the current code: no non-empty collection of zero-width elements -/
def Excl : Ty → Val → Prop
  | .any, .any t v => Excl t v
  | .slice t, .list vs => (t.nz = true ∨ vs.length = 0) ∧ Excls t vs
  | .array n t, .list vs => (t.nz = true ∨ n = 0) ∧ Excls t vs
  | .map k v, .map ps => (k.nz = true ∨ v.nz = true ∨ ps.length = 0) ∧ Exclp k v ps
  | .named _ (.slice t), .list vs => (t.nz = true ∨ vs.length = 0) ∧ Excls t vs
  | .named _ (.array n t), .list vs => (t.nz = true ∨ n = 0) ∧ Excls t vs
  | .named _ (.map k v), .map ps => (k.nz = true ∨ v.nz = true ∨ ps.length = 0) ∧ Exclp k v ps
  | .struct _ fs, .list vs => Exclf fs vs
  | _, _ => True
def Excls : Ty → Vals → Prop
  | _, .nil => True
  | t, .cons v vs => Excl t v ∧ Excls t vs
def Exclp : Ty → Ty → Pairs → Prop
  | _, _, .nil => True
  | kt, vt, .cons k v ps => Excl kt k ∧ Excl vt v ∧ Exclp kt vt ps
def Exclf : Tys → Vals → Prop
  | .cons t ts, .cons v vs => Excl t v ∧ Exclf ts vs
  | _, _ => True
end

mutual
theorem Good_of_WF (o : Opts) : (v : Val) → (t : Ty) → WF o t v → Excl t v → Good o t v
  | .any t' v', t, hw, hx => by
    cases t
    case named nm t'' => cases t'' <;> simpa [Good, WF] using hw
    case any =>
      simp only [WF, Excl, Good] at *
      exact ⟨DescOK_of_WF o t' hw.1, hw.2.1, Good_of_WF o v' t' hw.2.2 hx⟩
    all_goals (simpa [Good, WF] using hw)
  | .list vs, t, hw, hx => by
    cases t
    case named nm t'' =>
      cases t''
      case slice t3 => simp only [WF, Excl, Good] at *; exact ⟨hw.1, hx.1, Goods_of_WF o vs t3 hw.2 hx.2⟩
      case array n t3 => simp only [WF, Excl, Good] at *; exact ⟨hx.1, Goods_of_WF o vs t3 hw hx.2⟩
      all_goals (simpa [Good, WF] using hw)
    case slice t3 => simp only [WF, Excl, Good] at *; exact ⟨hw.1, hx.1, Goods_of_WF o vs t3 hw.2 hx.2⟩
    case array n t3 => simp only [WF, Excl, Good] at *; exact ⟨hx.1, Goods_of_WF o vs t3 hw hx.2⟩
    case struct nm fs => simp only [WF, Excl, Good] at *; exact Goodf_of_WF o vs fs hw hx
    all_goals (simpa [Good, WF] using hw)
  | .map ps, t, hw, hx => by
    cases t
    case named nm t'' =>
      cases t''
      case map kt vt => simp only [WF, Excl, Good] at *; exact ⟨hw.1, hx.1, hw.2.1, Goodp_of_WF o ps kt vt hw.2.2 hx.2⟩
      all_goals (simpa [Good, WF] using hw)
    case map kt vt => simp only [WF, Excl, Good] at *; exact ⟨hw.1, hx.1, hw.2.1, Goodp_of_WF o ps kt vt hw.2.2 hx.2⟩
    all_goals (simpa [Good, WF] using hw)
  | .nil, t, hw, hx => by
    cases t
    case named nm t'' => cases t'' <;> simpa [Good, WF] using hw
    all_goals (simpa [Good, WF] using hw)
  | .opaque _, t, hw, hx => by
    cases t
    case named nm t'' => cases t'' <;> simpa [Good, WF] using hw
    all_goals (simpa [Good, WF] using hw)
  | .bool _, t, hw, hx | .num _, t, hw, hx | .str _, t, hw, hx | .bin _, t, hw, hx | .atom _, t, hw, hx
  | .idr _ _, t, hw, hx | .idn _ _, t, hw, hx | .time _, t, hw, hx | .errText _, t, hw, hx | .errSent _, t, hw, hx => by
    cases t
    case named nm t'' => cases t'' <;> simpa [Good, WF] using hw
    all_goals (simpa [Good, WF] using hw)
theorem Goods_of_WF (o : Opts) : (vs : Vals) → (t : Ty) → WFs o t vs → Excls t vs → Goods o t vs
  | .nil, _, _, _ => by simp [Goods]
  | .cons v vs, t, hw, hx => by
    simp only [WFs, Excls, Goods] at *
    exact ⟨Good_of_WF o v t hw.1 hx.1, Goods_of_WF o vs t hw.2 hx.2⟩
theorem Goodp_of_WF (o : Opts) : (ps : Pairs) → (kt vt : Ty) → WFp o kt vt ps → Exclp kt vt ps → Goodp o kt vt ps
  | .nil, _, _, _, _ => by simp [Goodp]
  | .cons k v ps, kt, vt, hw, hx => by
    simp only [WFp, Exclp, Goodp] at *
    exact ⟨Good_of_WF o k kt hw.1 hx.1, Good_of_WF o v vt hw.2.1 hx.2.1, Goodp_of_WF o ps kt vt hw.2.2 hx.2.2⟩
theorem Goodf_of_WF (o : Opts) : (vs : Vals) → (fs : Tys) → WFf o fs vs → Exclf fs vs → Goodf o fs vs
  | .nil, fs, _, _ => by cases fs <;> simp [Goodf]
  | .cons v vs, fs, hw, hx => by
    cases fs with
    | nil => simp [Goodf]
    | cons t ts =>
      simp only [WFf, Exclf, Goodf] at *
      exact ⟨Good_of_WF o v t hw.1 hx.1, Goodf_of_WF o vs ts hw.2 hx.2⟩
end
end ErgoVerif.Edf

import ErgoVerif.Lemmas.PermSafe
import ErgoVerif.Lemmas.HandshakeSec
import ErgoVerif.Model.CookieSel
import ErgoVerif.Generated.Acceptor
import ErgoVerif.Model.NodeAccept
/-!
# C15 — remote access control

Part 1 (this section): spawn / application-start permissions, flags, environment exposure
(Model/Perm.lean mirrors node/network.go EnableSpawn … DisableApplicationStart, getEnabledSpawn,
isEnabledApplicationStart; net/proto/connection.go RemoteSpawn / applicationStart / handleMessage).
Histories are lists with the newest operation first.
-/
namespace ErgoVerif.Props.C15
open ErgoVerif.Perm

/-- **Spawn permissions, all histories.** If, after ANY history of enable/disable operations (both
    tables interleaved, failing operations included), the lookup that `RouteSpawn` consults allows
    `peer` to spawn `name`, then the history contains a *successful* `EnableSpawn name … nodes` whose
    node list covers the peer (empty list = any node, or the peer is listed) and no later
    `DisableSpawn name …` covers the peer (empty list = whole entry, or the peer is listed). -/
theorem C15_perm_spawn_safe (ops : List Op) (name peer : Nat)
    (h : (getEnabledSpawn (after ops) name peer).1 = .ok) :
    ∃ post f ns older, ops = post ++ .enableSpawn name f ns :: older ∧ covers ns peer = true ∧
      (enableSpawn (after older) name f ns).2 = .ok ∧
      ∀ ns', Op.disableSpawn name ns' ∈ post → covers ns' peer = false :=
  spawnJustified_split name peer ops (spawn_safe ops name peer h)

/-- **Application-start permissions, all histories** (the code after the D11 repair). -/
theorem C15_perm_app_safe (ops : List Op) (name peer : Nat)
    (h : isEnabledApp (after ops) name peer = .ok) :
    ∃ post ns older, ops = post ++ .enableApp name ns :: older ∧ covers ns peer = true ∧
      ∀ ns', Op.disableApp name ns' ∈ post → covers ns' peer = false :=
  appJustified_split name peer ops (app_safe ops name peer h)

/-- the same statement for the code before the repair (`delete(enable.nodes, nn)`), kept as a
    regression statement: it is FALSE — D11 -/
def C15_perm_app_safe_prefix : Prop :=
  ∀ (ops : List Op) (name peer : Nat), isEnabledApp (afterOld ops) name peer = .ok →
    appJustified name peer ops = true

/-- D11 witness: enable the application for node 1 only, then disable node 1: the node map becomes
    empty, which the lookup reads as "any node" — node 2 (never enabled) may start the application. -/
theorem C15_perm_app_prefix_counterexample : ¬ C15_perm_app_safe_prefix := by
  intro h
  have := h [.disableApp 0 [1], .enableApp 0 [1]] 0 2 (by decide)
  revert this; decide

/-- the table is not vacuously closed: a successful enable covering the peer, as the newest
    operation, makes the lookup succeed and return that entry's factory -/
theorem C15_perm_enable_effective (older : List Op) (name f : Nat) (ns : List Nat) (peer : Nat)
    (hok : (enableSpawn (after older) name f ns).2 = .ok) (hc : covers ns peer = true) :
    getEnabledSpawn (after (.enableSpawn name f ns :: older)) name peer = (.ok, f) := by
  simp only [after, step, getEnabledSpawn, (enableSpawn_ok _ _ _ _ hok).1, upd_same]
  rw [covers_iff] at hc
  by_cases he : ns = []
  · subst he; simp [NodeMap.allows]
  · have hin : peer ∈ ns := hc.resolve_left he
    have hemp : ns.isEmpty = false := by simpa [List.isEmpty_iff] using he
    simp [hemp, NodeMap.allows_setAll _ _ _ _ he, hin]

/-- a disable covering the peer, as the newest operation, closes the lookup for that peer -/
theorem C15_perm_disable_effective (older : List Op) (name : Nat) (ns : List Nat) (peer : Nat)
    (hc : covers ns peer = true) :
    (getEnabledSpawn (after (.disableSpawn name ns :: older)) name peer).1 ≠ .ok ∧
    isEnabledApp (after (.disableApp name ns :: older)) name peer ≠ .ok := by
  constructor
  · intro h
    have := spawn_safe _ _ _ h
    simp [spawnJustified, hc] at this
  · intro h
    have := app_safe _ _ _ h
    simp [appJustified, hc] at this

/-- **End to end**: a remote spawn request is executed only if neither end's flags refuse it, the
    table justifies it, and exactly the environment chosen by the requester's exposure switch travels. -/
theorem C15_spawn_request (pf nf : Flags) (ops : List Op) (name req : Nat) (expose : Bool)
    (env : List Nat) (f : Nat) (sent : List Nat)
    (h : remoteSpawn pf nf (after ops) name req expose env = .spawned f sent) :
    refuses pf (·.spawn) = false ∧ refuses nf (·.spawn) = false ∧
    spawnJustified name req ops = true ∧ sent = sentEnv expose env := by
  unfold remoteSpawn at h
  by_cases h1 : refuses pf (·.spawn) = true
  · simp [h1] at h
  · by_cases h2 : refuses nf (·.spawn) = true
    · simp [h1, h2] at h
    · simp only [h1, h2, Bool.false_eq_true, ↓reduceIte] at h
      cases hg : getEnabledSpawn (after ops) name req with
      | mk e f' =>
        cases e <;> simp only [hg, SpawnOutcome.spawned.injEq, reduceCtorEq] at h
        obtain ⟨rfl, rfl⟩ := h
        refine ⟨by simpa using h1, by simpa using h2, spawn_safe ops name req ?_, rfl⟩
        simp [allowedSpawn, hg]

theorem C15_app_request (pf nf : Flags) (ops : List Op) (name req : Nat) (expose : Bool)
    (env : List Nat) (sent : List Nat)
    (h : remoteAppStart pf nf (after ops) name req expose env = .started sent) :
    refuses pf (·.appStart) = false ∧ refuses nf (·.appStart) = false ∧
    appJustified name req ops = true ∧ sent = sentEnv expose env := by
  unfold remoteAppStart at h
  by_cases h1 : refuses pf (·.appStart) = true
  · simp [h1] at h
  · by_cases h2 : refuses nf (·.appStart) = true
    · simp [h1, h2] at h
    · simp only [h1, h2, Bool.false_eq_true, ↓reduceIte] at h
      cases hg : isEnabledApp (after ops) name req <;>
        simp only [hg, AppOutcome.started.injEq, reduceCtorEq] at h
      subst h
      exact ⟨by simpa using h1, by simpa using h2, app_safe ops name req hg, rfl⟩

/-- flags that went through the defaulting rule of network.start / connect / startAcceptor have
    `Enable` set, so the guard is exactly "the feature bit is off" -/
theorem C15_flags_effective (given fallback : Flags) (hfb : fallback.enable = true) (bit : Flags → Bool) :
    refuses (effFlags given fallback) bit = !bit (effFlags given fallback) := by
  unfold refuses effFlags
  by_cases hg : given.enable = true <;> simp [hg, hfb]

/-- **Environment exposure**: the parent environment travels iff the requester switched exposure on -/
theorem C15_env_exposure (expose : Bool) (env : List Nat) :
    (expose = true → sentEnv expose env = env) ∧ (expose = false → sentEnv expose env = []) := by
  cases expose <;> simp [sentEnv]

theorem C15_env_sent_iff (expose : Bool) (env : List Nat) (hne : env ≠ []) :
    sentEnv expose env = env ↔ expose = true := by
  cases expose <;> simp [sentEnv, Ne.symm hne]

/- non-vacuity: the hypotheses are satisfiable, and the conclusion is not trivially true -/
example : (getEnabledSpawn (after [.enableSpawn 0 1 [2]]) 0 2).1 = .ok := by decide
example : (getEnabledSpawn (after [.disableSpawn 0 [2], .enableSpawn 0 1 []]) 0 2).1 = .notAllowed := by decide
example : (getEnabledSpawn (after [.disableSpawn 0 [2], .enableSpawn 0 1 []]) 0 3).1 = .notAllowed := by decide
example : isEnabledApp (after [.disableApp 0 [1], .enableApp 0 [1]]) 0 2 = .notAllowed := by decide
example : isEnabledApp (afterOld [.disableApp 0 [1], .enableApp 0 [1]]) 0 2 = .ok := by decide
example : remoteSpawn defaultFlags defaultFlags (after [.enableSpawn 0 1 []]) 0 5 true [7] = .spawned 1 [7] := by decide
example : remoteSpawn defaultFlags ⟨true, false, true⟩ (after [.enableSpawn 0 1 []]) 0 5 true [7] = .droppedByReceiver := by decide

/-!
## Part 2 — cookie authentication (Model/Handshake.lean, Model/CookieSel.lean)

Symbolic model: strings are lists of colon-free atoms, SHA-256 is a free (injective) constructor, every
digest site comes from Generated/Hs.lean.  The adversary of this property is the *replay* adversary:
it knows everything that was on the wire in earlier sessions and everything the honest party sends in
the current one, can build strings and hashes from that, and does not know the cookie.  Relaying a
live session between two honest nodes (man in the middle) is outside this class and outside the
property.
-/
open ErgoVerif.Handshake ErgoVerif.CookieSel

/-- **Honest run.** Two honest nodes complete the main handshake iff they use the same cookie (and
    carry different names — the code refuses a peer with the node's own name). -/
theorem C15_honest (cI cA : Cfg) (sI sA idA : Atom) :
    (isOk (honest cI cA sI sA idA).resI = true ∧ isOk (honest cI cA sI sA idA).resA = true) ↔
    (cI.cookie = cA.cookie ∧ cI.info.name ≠ cA.info.name) := by
  by_cases hc : cI.cookie = cA.cookie
  · by_cases hn : cI.info.name = cA.info.name
    · have := honest_same_name cI cA sI sA idA hc hn
      simp [this.1, this.2, isOk, hn]
    · rw [honest_eq cI cA sI sA idA hc hn]
      simp [isOk, hc, hn]
  · have := honest_ne cI cA sI sA idA hc
    simp [this.1, this.2, isOk, hc]

/-- with different cookies the acceptor stops at the first digest and the initiator sees the
    connection closed: nobody completes, nothing but the first Hello was sent -/
theorem C15_honest_mismatch (cI cA : Cfg) (sI sA idA : Atom) (hc : cI.cookie ≠ cA.cookie) :
    (honest cI cA sI sA idA).resA = .error .digest ∧ (honest cI cA sI sA idA).resI = .error .read :=
  honest_ne cI cA sI sA idA hc

/-- **Agreement.** After a successful run each end holds the other's name, creation, flags, maximum
    message size and version exactly as the other configured them, its own flags and size limit, and
    both hold the same connection id. -/
theorem C15_agreement (cI cA : Cfg) (sI sA idA : Atom) (rI rA : Result)
    (hI : (honest cI cA sI sA idA).resI = .ok rI) (hA : (honest cI cA sI sA idA).resA = .ok rA) :
    rI.peer = cA.info.name ∧ rA.peer = cI.info.name ∧
    rI.peerCreation = cA.info.creation ∧ rA.peerCreation = cI.info.creation ∧
    rI.peerFlags = cA.info.flags ∧ rA.peerFlags = cI.info.flags ∧
    rI.nodeFlags = cI.info.flags ∧ rA.nodeFlags = cA.info.flags ∧
    rI.peerMaxSize = cA.info.maxSize ∧ rA.peerMaxSize = cI.info.maxSize ∧
    rI.nodeMaxSize = cI.info.maxSize ∧ rA.nodeMaxSize = cA.info.maxSize ∧
    rI.peerVersion = cA.info.version ∧ rA.peerVersion = cI.info.version ∧
    rI.connId = rA.connId ∧ rI.connId = [idA] := by
  have hok : isOk (honest cI cA sI sA idA).resI = true ∧ isOk (honest cI cA sI sA idA).resA = true := by
    simp [hI, hA, isOk]
  obtain ⟨hc, hn⟩ := (C15_honest cI cA sI sA idA).mp hok
  rw [honest_eq cI cA sI sA idA hc hn] at hI hA
  simp only [Except.ok.injEq] at hI hA
  subst hI hA
  simp [resultOf]

/-- the five messages are all there is: delivering further changes nothing -/
theorem C15_rounds_stable (cI cA : Cfg) (sI sA idA : Atom) :
    deliver cI cA sI sA idA 6 = deliver cI cA sI sA idA 5 := deliver_stable cI cA sI sA idA

/-- **Replay adversary against an acceptor, general form.** `K` is anything the adversary knows that
    does not contain the cookie and in which the acceptor's fresh salt `s` does not occur; it then also
    learns everything the acceptor sends.  Whatever first Hello it presents (replayed, re-split at
    colons, made up) and whatever follows, `Accept` does not complete the main handshake. -/
theorem C15_acceptor_not_fooled (cfg : Cfg) (c : Nat) (hcfg : cfg.cookie = .cookie c)
    (K : Atom → Prop) (adv : Nat → Prop) (s : Nat) (id : Atom)
    (hk : ¬ K (.cookie c)) (hfresh : ∀ t, K t → t.occurs s = false)
    (saltI digestI : Field) (rest : List Msg)
    (hder : ∀ info dg, rest.head? = some (.intro info dg) →
      DerivF (learn K ((accept cfg (.nonce s) id [.hello saltI digestI]).sent.flatMap Msg.atoms)) adv dg) :
    isOk (accept cfg (.nonce s) id (.hello saltI digestI :: rest)).res = false :=
  acceptor_not_fooled cfg c hcfg K adv s id hk hfresh saltI digestI rest hder

/-- **Replay adversary against an initiator, general form**: `Start` does not complete. -/
theorem C15_initiator_not_fooled (cfg : Cfg) (c : Nat) (hcfg : cfg.cookie = .cookie c)
    (K : Atom → Prop) (adv : Nat → Prop) (s : Nat)
    (hk : ¬ K (.cookie c)) (hfresh : ∀ t, K t → t.occurs s = false) (inbox : List Msg)
    (hder : ∀ salt2 d2, inbox.head? = some (.hello salt2 d2) →
      DerivF (learn K ((start cfg (.nonce s) []).sent.flatMap Msg.atoms)) adv d2) :
    isOk (start cfg (.nonce s) inbox).res = false :=
  initiator_not_fooled cfg c hcfg K adv s hk hfresh inbox hder

/-- **Replay of recorded sessions, acceptor.** The adversary has recorded any number of earlier
    successful sessions (main handshakes and joins, any nodes, cookie `c`); the acceptor draws a salt
    that was not used in them.  No sequence of messages built from the recordings and the acceptor's
    own replies makes `Accept` complete the main handshake. -/
theorem C15_replay_acceptor (c : Nat) (ps : List Past) (hwf : ∀ p ∈ ps, p.wf c) (adv : Nat → Prop)
    (cfg : Cfg) (hcfg : cfg.cookie = .cookie c) (s : Nat) (id : Atom)
    (hs0 : s ≠ 0) (hs : ∀ p ∈ ps, s ∉ p.nonces)
    (saltI digestI : Field) (rest : List Msg)
    (hder : ∀ m ∈ rest, DerivM (learn (Known ps)
      ((accept cfg (.nonce s) id [.hello saltI digestI]).sent.flatMap Msg.atoms)) adv m) :
    isOk (accept cfg (.nonce s) id (.hello saltI digestI :: rest)).res = false := by
  apply acceptor_not_fooled cfg c hcfg (Known ps) adv s id (known_no_cookie c ps hwf)
    (known_fresh c ps hwf s hs0 hs)
  intro info dg hh
  cases rest with
  | nil => simp at hh
  | cons m r =>
    simp only [List.head?_cons, Option.some.injEq] at hh
    subst hh
    exact hder (.intro info dg) (by simp)

/-- **Replay of recorded sessions, initiator.** -/
theorem C15_replay_initiator (c : Nat) (ps : List Past) (hwf : ∀ p ∈ ps, p.wf c) (adv : Nat → Prop)
    (cfg : Cfg) (hcfg : cfg.cookie = .cookie c) (s : Nat)
    (hs0 : s ≠ 0) (hs : ∀ p ∈ ps, s ∉ p.nonces) (inbox : List Msg)
    (hder : ∀ m ∈ inbox, DerivM (learn (Known ps) ((start cfg (.nonce s) []).sent.flatMap Msg.atoms)) adv m) :
    isOk (start cfg (.nonce s) inbox).res = false := by
  apply initiator_not_fooled cfg c hcfg (Known ps) adv s (known_no_cookie c ps hwf)
    (known_fresh c ps hwf s hs0 hs)
  intro salt2 d2 hh
  cases inbox with
  | nil => simp at hh
  | cons m r =>
    simp only [List.head?_cons, Option.some.injEq] at hh
    subst hh
    exact (hder (.hello salt2 d2) (by simp)).2

/-- **Replay of recorded sessions, Join initiator.** A node adding a link to its connection (id `idn`)
    with a fresh salt cannot be answered by a peer that only knows recorded traffic: `Join` fails. -/
theorem C15_replay_join_initiator (c : Nat) (ps : List Past) (hwf : ∀ p ∈ ps, p.wf c) (adv : Nat → Prop)
    (cfg : Cfg) (hcfg : cfg.cookie = .cookie c) (s idn : Nat)
    (hs0 : s ≠ 0) (hs : ∀ p ∈ ps, s ∉ p.nonces) (inbox : List Msg)
    (hder : ∀ m ∈ inbox, DerivM (learn (Known ps)
      ((join cfg (.nonce s) [.nonce idn] []).sent.flatMap Msg.atoms)) adv m) :
    isOk (join cfg (.nonce s) [.nonce idn] inbox).res = false := by
  apply join_initiator_not_fooled cfg c hcfg (Known ps) adv s idn (known_no_cookie c ps hwf)
    (known_fresh c ps hwf s hs0 hs)
  intro i p dg hh
  cases inbox with
  | nil => simp at hh
  | cons m r =>
    simp only [List.head?_cons, Option.some.injEq] at hh
    subst hh
    exact (hder (.accept i p dg) (by simp)).2

/-- **Join, full statement** (what the property asks): a peer that only knows recorded traffic cannot
    make an acceptor accept a Join. -/
def C15_join_full : Prop :=
  ∀ (c : Nat) (ps : List Past), (∀ p ∈ ps, p.wf c) → ∀ (adv : Nat → Prop) (cfg : Cfg), cfg.cookie = .cookie c →
    ∀ (s id : Atom) (node : Nat) (cid sj dj : Field), cid ≠ [] → sj ≠ [] →
      DerivM (Known ps) adv (.join node cid sj dj) →
      isOk (accept cfg s id [.join node cid sj dj]).res = false

def wA : Cfg := { info := ⟨2, 200, 1, 0, 1⟩, cookie := .cookie 1 }
def wB : Cfg := { info := ⟨3, 300, 1, 0, 1⟩, cookie := .cookie 1 }

/-- D24: the acceptor contributes no nonce to the Join check, so the Join message recorded from an
    honest session (node 3 joining connection id 7 with salt 5) is accepted again, verbatim. -/
theorem C15_join_counterexample : ¬ C15_join_full := by
  intro h
  have hwf : ∀ p ∈ [Past.join wB wA 5 7], p.wf 1 := by
    intro p hp; simp only [List.mem_singleton] at hp; subst hp; exact ⟨rfl, rfl⟩
  have hk : ∀ t ∈ [Atom.nonce 0, H [H [.nonce 7, .nonce 5, .cookie 1], .cookie 1], .nonce 7, .nonce 5,
      H [.nonce 7, .nonce 5, .cookie 1]], Known [Past.join wB wA 5 7] t := by
    intro t ht
    exact ⟨_, List.mem_singleton.mpr rfl, by rw [join_atoms 1 _ _ _ _ (hwf _ (List.mem_singleton.mpr rfl))]; exact ht⟩
  have := h 1 [Past.join wB wA 5 7] hwf (fun _ => False) wA rfl (.nonce 9) (.nonce 10) 3
    [.nonce 7] [.nonce 5] [H [.nonce 7, .nonce 5, .cookie 1]] (by simp) (by simp)
    ⟨fun a ha => .ax (hk a (by simp at ha; simp [ha])),
     fun a ha => .ax (hk a (by simp at ha; simp [ha])),
     fun a ha => .ax (hk a (by simp at ha; simp [ha]))⟩
  rw [show [H [Atom.nonce 7, Atom.nonce 5, Atom.cookie 1]] = [H ([Atom.nonce 7] ++ [Atom.nonce 5] ++ [wA.cookie])] from rfl,
    accept_join_result] at this
  simp [isOk] at this

/-- D24, type flaw: no Join needs to have been recorded.  From ONE recorded main handshake (initiator
    salt 5, acceptor salt 6) the acceptor's Hello digest `H(6:H(5:c):c)` is a valid Join digest for
    id = "6", salt = `H(5:c)` — and the node name in a Join is not covered by any digest, so the
    adversary is accepted under a name of its choice (here 99). -/
theorem C15_join_typeflaw :
    let ps := [Past.main wB wA 5 6 7]
    (∀ p ∈ ps, p.wf 1) ∧
    DerivM (Known ps) (fun _ => False)
      (.join 99 [.nonce 6] [H [.nonce 5, .cookie 1]] [H [.nonce 6, H [.nonce 5, .cookie 1], .cookie 1]]) ∧
    (accept wA (.nonce 9) (.nonce 10)
      [.join 99 [.nonce 6] [H [.nonce 5, .cookie 1]] [H [.nonce 6, H [.nonce 5, .cookie 1], .cookie 1]]]).res =
      .ok ⟨[.nonce 6], 99, 0, 0, 0, 0, 0, 0⟩ := by
  intro ps
  have hwf : ∀ p ∈ ps, p.wf 1 := by
    intro p hp; simp only [ps, List.mem_singleton] at hp; subst hp; exact ⟨rfl, rfl, by decide⟩
  have hk : ∀ t ∈ [Atom.nonce 6, H [.nonce 6, H [.nonce 5, .cookie 1], .cookie 1], .nonce 7, .nonce 0, .nonce 0,
      .nonce 5, H [.nonce 5, .cookie 1], H [.nonce 6, .cookie 1], .nonce 0, .nonce 0], Known ps t := by
    intro t ht
    exact ⟨_, List.mem_singleton.mpr rfl, by rw [main_atoms 1 _ _ _ _ _ (hwf _ (List.mem_singleton.mpr rfl))]; exact ht⟩
  refine ⟨hwf, ⟨fun a ha => .ax (hk a (by simp at ha; simp [ha])),
     fun a ha => .ax (hk a (by simp at ha; simp [ha])),
     fun a ha => .ax (hk a (by simp at ha; simp [ha]))⟩, ?_⟩
  rw [show [H [Atom.nonce 6, H [Atom.nonce 5, Atom.cookie 1], Atom.cookie 1]] =
    [H ([Atom.nonce 6] ++ [H [Atom.nonce 5, Atom.cookie 1]] ++ [wA.cookie])] from rfl, accept_join_result]

/-- **Join, strongest true statement.** A Join accepted from the replay adversary is never forged: its
    (id, salt) pair is that of a recorded Join, or the (acceptor salt, initiator digest) pair of a
    recorded main handshake (the type flaw above).  In particular the connection id it names was the
    id of a recorded connection or a recorded salt — `connection.Join` then refuses it unless that
    connection is still alive / no connection under the claimed name exists. -/
theorem C15_join_partial (c : Nat) (ps : List Past) (hwf : ∀ p ∈ ps, p.wf c) (adv : Nat → Prop)
    (cfg : Cfg) (hcfg : cfg.cookie = .cookie c) (s id : Atom) (node : Nat) (cid sj dj : Field)
    (hcid : cid ≠ []) (hsj : sj ≠ [])
    (hder : DerivM (Known ps) adv (.join node cid sj dj))
    (hok : isOk (accept cfg s id [.join node cid sj dj]).res = true) :
    (∃ cJ cA sJ idn, Past.join cJ cA sJ idn ∈ ps ∧ cid = [.nonce idn] ∧ sj = [.nonce sJ]) ∨
    (∃ cI cA sI sA idA, Past.main cI cA sI sA idA ∈ ps ∧ cid = [.nonce sA] ∧ sj = [H [.nonce sI, .cookie c]]) :=
  join_accepted_origin c ps hwf adv cfg hcfg s id node cid sj dj hcid hsj hder.2.2 hok

/-- **Join at node level.** What the replay adversary gains on a live node (NodeAccept mirrors
    network.accept / connection.Join / enp.NewConnection): a Join accepted by the handshake never
    registers a new connection (the result carries creation 0), and it is joined to a live connection
    only if that connection's id is the id of a RECORDED Join or a recorded acceptor salt and the
    adversary claims exactly that connection's peer name.  With connection ids distinct from salts
    (both are fresh random strings) only the verbatim replay into the still-living connection remains:
    this is finding D24; the type flaw D24b stops here. -/
theorem C15_join_node_level (c : Nat) (ps : List Past) (hwf : ∀ p ∈ ps, p.wf c) (adv : Nat → Prop)
    (cfg : Cfg) (hcfg : cfg.cookie = .cookie c) (s id : Atom) (node : Nat) (cid sj dj : Field)
    (hcid : cid ≠ []) (hsj : sj ≠ [])
    (hder : DerivM (Known ps) adv (.join node cid sj dj)) (tbl : NodeAccept.Table) :
    (∀ peer, NodeAccept.acceptLink tbl cfg s id [.join node cid sj dj] ≠ .registered peer) ∧
    (∀ peer, NodeAccept.acceptLink tbl cfg s id [.join node cid sj dj] = .joined peer →
      peer = node ∧ tbl node = some cid ∧
      ((∃ cJ cA sJ idn, Past.join cJ cA sJ idn ∈ ps ∧ cid = [.nonce idn]) ∨
       (∃ cI cA sI sA idA, Past.main cI cA sI sA idA ∈ ps ∧ cid = [.nonce sA]))) := by
  by_cases hok : isOk (accept cfg s id [.join node cid sj dj]).res = true
  · have hdj := (accept_join_ok cfg s id node cid sj dj []).mp hok
    subst hdj
    have hres := accept_join_result cfg s id node cid sj []
    constructor
    · intro peer h
      simp only [NodeAccept.acceptLink, hres, NodeAccept.accepted] at h
      split at h
      · cases h
      · split at h
        · split at h <;> cases h
        · simp at h
    · intro peer h
      simp only [NodeAccept.acceptLink, hres, NodeAccept.accepted] at h
      split at h
      · cases h
      · split at h
        · rename_i idl htl
          split at h
          · rename_i hid
            injection h with h
            subst h
            refine ⟨rfl, by rw [htl, hid], ?_⟩
            rcases C15_join_partial c ps hwf adv cfg hcfg s id node cid sj _ hcid hsj hder hok with
              ⟨cJ, cA, sJ, idn, hp, h1, _⟩ | ⟨cI, cA, sI, sA, idA, hp, h1, _⟩
            · exact Or.inl ⟨cJ, cA, sJ, idn, hp, h1⟩
            · exact Or.inr ⟨cI, cA, sI, sA, idA, hp, h1⟩
          · cases h
        · split at h <;> cases h
  · have : ∃ e, (accept cfg s id [.join node cid sj dj]).res = .error e := by
      cases hr : (accept cfg s id [.join node cid sj dj]).res with
      | ok r => simp [hr, isOk] at hok
      | error e => exact ⟨e, rfl⟩
    obtain ⟨e, he⟩ := this
    constructor <;> intro peer h <;> simp [NodeAccept.acceptLink, he] at h

/-- a completed MAIN handshake registers a connection under the name the peer introduced itself with
    (or is dropped when a connection under that name already exists: the fresh id cannot match); the
    dialling side keeps the connection only if that name is the one it dialled -/
theorem C15_main_node_level (cI cA : Cfg) (sI sA idA : Atom) (rI rA : Result) (tbl : NodeAccept.Table)
    (hI : (honest cI cA sI sA idA).resI = .ok rI) (hA : (honest cI cA sI sA idA).resA = .ok rA)
    (hname : cI.info.name ≠ 0) (hcr : cI.info.creation ≠ 0) (hnew : tbl cI.info.name = none) (wanted : Nat) :
    NodeAccept.accepted tbl rA = .registered cI.info.name ∧
    (NodeAccept.connected wanted rI = true ↔ wanted = cA.info.name) := by
  have hag := C15_agreement cI cA sI sA idA rI rA hI hA
  obtain ⟨h1, h2, _, h4, _⟩ := hag
  constructor
  · simp [NodeAccept.accepted, h2, hname, hnew, h4, hcr]
  · simp only [NodeAccept.connected, h1, beq_iff_eq]
    exact eq_comm

/-- an honest Join with the right cookie is accepted, one with another cookie is refused (non-vacuity
    of the Join model in both directions) -/
theorem C15_join_honest (cJ cA : Cfg) (sJ sA idA : Atom) (id : Field) :
    isOk (honestJoin cJ cA sJ sA idA id).resA = true ↔ cJ.cookie = cA.cookie := by
  simp only [honestJoin, join, join_digest, accept_join_ok]
  simp

/-- **Effective cookie.** The acceptor authenticates with its own cookie when one is set, else with the
    node's; the dialling side with the route's cookie when one is set, else with the node's. -/
theorem C15_effective_cookie (node opt : Nat) (hn : node ≠ 0) :
    acceptorCookie node opt = (if opt = 0 then node else opt) ∧
    routeCookie node opt = (if opt = 0 then node else opt) := by
  unfold acceptorCookie acceptCookie acceptorField routeCookie
  by_cases h : opt = 0 <;> simp [h, hn]

/-- the code before the D10 repair used the node cookie for every acceptor (regression statement) -/
theorem C15_effective_cookie_prefix (node opt : Nat) : acceptorCookieOld node opt = node := by
  unfold acceptorCookieOld acceptCookie acceptorFieldOld
  by_cases h : opt = 0 <;> simp [h]

/-- **Acceptor cookie over time, full statement**: after any sequence of `Acceptor.SetCookie` calls the
    next handshake uses the cookie set last. -/
def C15_acceptor_setcookie_full (pc : Bool) : Prop :=
  ∀ (node opt : Nat) (sets : List Nat), node ≠ 0 →
    handshakeCookie pc node (sets.foldl setCookie (startAcc node opt)) =
      wantedCookie node (sets.foldl setCookie (startAcc node opt))

/-- **Acceptor cookie over time, for the code as it is**: the accept loop reads the acceptor's options for every
    incoming connection (regenerated fact), so `Cookie()` reports exactly the cookie peers are checked against. -/
theorem C15_acceptor_setcookie : C15_acceptor_setcookie_full ErgoVerif.Gen.Acceptor.optionsReadPerConnection := by
  have h : ErgoVerif.Gen.Acceptor.optionsReadPerConnection = true := by decide
  rw [h]
  intro node opt sets _
  simp [handshakeCookie, wantedCookie]

/-- the code before the repair of D10b: the accept loop kept the options it was started with (regression statement) -/
theorem C15_acceptor_setcookie_before_fix : ¬ C15_acceptor_setcookie_full false := by
  intro h
  have := h 1 0 [2] (by decide)
  revert this; decide

/-- **Connection between two nodes**: node X dials with route cookie option `r`, node Y's acceptor was
    started with cookie option `a`; they get connected iff the effective cookies coincide (names differ). -/
theorem C15_connect (iX iY : Info) (nodeX nodeY r a : Nat) (hX : nodeX ≠ 0) (hY : nodeY ≠ 0)
    (hn : iX.name ≠ iY.name) (sI sA idA : Atom) :
    let cI : Cfg := { info := iX, cookie := .cookie (routeCookie nodeX r) }
    let cA : Cfg := { info := iY, cookie := .cookie (acceptorCookie nodeY a) }
    (isOk (honest cI cA sI sA idA).resI = true ∧ isOk (honest cI cA sI sA idA).resA = true) ↔
    (if r = 0 then nodeX else r) = (if a = 0 then nodeY else a) := by
  intro cI cA
  rw [C15_honest]
  have h1 := (C15_effective_cookie nodeX r hX).2
  have h2 := (C15_effective_cookie nodeY a hY).1
  simp [cI, cA, h1, h2, hn]

/- non-vacuity of the replay theorems' hypotheses: a recorded session exists, a fresh salt exists, and the
   adversary can indeed derive (and present) recorded messages -/
example : (Past.main wB wA 5 6 7).wf 1 := ⟨rfl, rfl, by decide⟩
example : ∀ p ∈ [Past.main wB wA 5 6 7], (11 : Nat) ∉ p.nonces := by
  intro p hp; simp only [List.mem_singleton] at hp; subst hp; decide
example : isOk (honest wB wA (.nonce 5) (.nonce 6) (.nonce 7)).resA = true := by decide
example : isOk (accept wA (.nonce 11) (.nonce 12)
    [.hello [.nonce 5] [H [.nonce 5, .cookie 1]], .intro wB.info [H [.nonce 6, .cookie 1]], .accept emptyF 0 emptyF]).res = false := by
  decide

end ErgoVerif.Props.C15

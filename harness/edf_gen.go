package main

// Type-directed generator of Go values for the EDF codec (C11; also the source of valid encodings that
// the C16 EDF part mutates). Every random choice comes from the Rng handed in.

import (
	"errors"
	"fmt"
	"math"
	"reflect"
	"strconv"
	"strings"
	"time"
	"unsafe"

	"ergo.services/ergo/gen"
)

type edfMode int

const (
	edfMain      edfMode = iota // stays away from the two listed regions
	edfMapArrKey                // unnamed map types with an array-typed key (must travel as a descriptor)
	edfZeroWidth                // non-empty slices/maps/arrays of elements of zero wire width
)

type edfGen struct {
	rng      *Rng
	mode     edfMode
	budget   int  // remaining size budget of the case (bytes, rough)
	small    bool // C16: small values only (no boundary lengths beyond 256)
	maxDepth int

	poison   bool   // inject one value the encoder must reject at the next eligible leaf
	poisoned string // reason, once injected

	depth     int            // deepest nesting reached in the value
	stats     map[string]int // evidence counters of the case
	boundary  bool           // a boundary length was used
	sentUsed  []int          // sentinel indexes used
	atomsUsed []gen.Atom
	regionHit bool // the listed region was actually produced (dedicated streams)

	// bias (boundary-id configurations): types, atoms and sentinels that own the ids at the boundaries
	prefTypes []reflect.Type
	prefAtoms []gen.Atom
	prefSent  []error
}

func newEdfGen(rng *Rng, mode edfMode, budget int) *edfGen {
	return &edfGen{rng: rng, mode: mode, budget: budget, maxDepth: 6, stats: map[string]int{}}
}

func (g *edfGen) count(k string) { g.stats[k]++ }

// ---------------------------------------------------------------------------
// types
// ---------------------------------------------------------------------------

var edfLeafTypes = []reflect.Type{
	tBool, tInt, tInt8, tInt16, tInt32, tInt64, tUint, tUint8, tUint16, tUint32, tUint64, tFloat32, tFloat64,
	tString, tBytes, tAtom, tPID, tProcessID, tRef, tAlias, tEvent, tTime, tErr, tAny,
}

// zeroWidth: the type's values occupy no bytes on the wire
func zeroWidth(t reflect.Type) bool {
	switch {
	case t == tSEmpty:
		return true
	case t.Kind() == reflect.Array:
		return t.Len() == 0 || zeroWidth(t.Elem())
	}
	return false
}

// hasMapArrKey: the type contains an unnamed map type whose key type is an array (a descriptor that cannot be unfolded)
func hasMapArrKey(t reflect.Type) bool {
	if _, ok := edfRegByT[t]; ok {
		return false
	}
	if _, ok := edfLeafText[t]; ok {
		return false
	}
	switch t.Kind() {
	case reflect.Slice, reflect.Array:
		return hasMapArrKey(t.Elem())
	case reflect.Map:
		if t.Key().Kind() == reflect.Array && edfRegByT[t.Key()] == nil {
			return true
		}
		return hasMapArrKey(t.Key()) || hasMapArrKey(t.Elem())
	}
	return false
}

func oneByteElem(t reflect.Type) bool {
	switch t.Kind() {
	case reflect.Bool, reflect.Int8, reflect.Uint8:
		return true
	}
	return false
}

// genType: a random Go type. top: the type of the value handed to edf.Encode (never `any`).
// key: must be comparable (a map key).
func (g *edfGen) genType(depth int, top, key bool) reflect.Type {
	r := g.rng
	for {
		var t reflect.Type
		composite := depth < g.maxDepth && r.Intn(10) < 6-depth/2
		if key {
			composite = depth < g.maxDepth && r.Intn(10) < 1
		}
		switch {
		case composite:
			switch r.Intn(7) {
			case 0, 1, 2:
				e := g.genType(depth+1, false, false)
				if zeroWidth(e) && g.mode != edfZeroWidth && r.Intn(4) != 0 {
					continue // in the main sweep such slices are only ever empty; keep them rare
				}
				t = reflect.SliceOf(e)
			case 3:
				e := g.genType(depth+1, false, key)
				n := r.Intn(5)
				if oneByteElem(e) && r.Intn(4) == 0 {
					n = []int{16, 255, 256, 1000}[r.Intn(4)]
				}
				if g.mode != edfZeroWidth && n > 0 && zeroWidth(e) {
					n = 0
				}
				t = reflect.ArrayOf(n, e)
			default:
				k := g.genType(depth+1, false, true)
				if g.mode == edfMapArrKey && r.Intn(2) == 0 && k.Kind() != reflect.Array {
					k = reflect.ArrayOf(1+r.Intn(3), g.genType(depth+2, false, true))
				}
				v := g.genType(depth+1, false, false)
				t = reflect.MapOf(k, v)
			}
		case len(g.prefTypes) > 0 && !key && r.Intn(4) == 0:
			t = g.prefTypes[r.Intn(len(g.prefTypes))]
		case r.Intn(10) < 3:
			t = edfRegs[r.Intn(len(edfRegs))].T
		default:
			t = edfLeafTypes[r.Intn(len(edfLeafTypes))]
		}
		if top && t == tAny {
			continue
		}
		if key {
			if !t.Comparable() {
				continue
			}
			if t.Kind() == reflect.Array && edfRegByT[t] == nil && g.mode != edfMapArrKey {
				continue // array-typed keys only in the dedicated stream
			}
			if t == tTime && r.Intn(3) != 0 {
				continue
			}
		}
		if g.mode != edfMapArrKey && hasMapArrKey(t) {
			continue
		}
		return t
	}
}

// topType for the dedicated streams: make sure the region is present in the type
func (g *edfGen) genRegionType() reflect.Type {
	r := g.rng
	wrap := func(t reflect.Type) reflect.Type {
		switch r.Intn(6) {
		case 0:
			return reflect.SliceOf(t)
		case 1:
			return reflect.MapOf(tString, t)
		case 2:
			return reflect.ArrayOf(1+r.Intn(2), t)
		case 3:
			return reflect.SliceOf(tAny) // the value generator places the region inside an `any`
		}
		return t
	}
	switch g.mode {
	case edfMapArrKey:
		k := reflect.ArrayOf(r.Intn(4), []reflect.Type{tInt, tUint8, tString, tAtom, tBool, tInt16}[r.Intn(6)])
		if r.Intn(5) == 0 {
			k = reflect.ArrayOf(1+r.Intn(2), k)
		}
		v := []reflect.Type{tString, tInt, tAny, tBytes, reflect.SliceOf(tInt8), tSEmpty}[r.Intn(6)]
		return wrap(reflect.MapOf(k, v))
	case edfZeroWidth:
		zs := []reflect.Type{tSEmpty, tNArr0, reflect.ArrayOf(0, tInt32), reflect.ArrayOf(0, tString), reflect.ArrayOf(2, tSEmpty), reflect.ArrayOf(3, tNArr0)}
		z := zs[r.Intn(len(zs))]
		switch r.Intn(4) {
		case 0:
			return wrap(reflect.ArrayOf(1+r.Intn(3), z))
		case 1:
			return wrap(reflect.MapOf(zs[r.Intn(2)], z))
		}
		return wrap(reflect.SliceOf(z))
	}
	return g.genType(0, true, false)
}

// ---------------------------------------------------------------------------
// lengths
// ---------------------------------------------------------------------------

var edfBoundaryLens = []int{0, 1, 255, 256, 4095, 4096, 32767, 32768, 65533, 65534, 65535, 65536}

// pickLen: boundary-biased length, at most max, within the budget. what names the evidence counter.
func (g *edfGen) pickLen(what string, max int, allowBig bool) int {
	r := g.rng
	n := 0
	switch c := r.Intn(20); {
	case c < 3:
		n = 0
	case c < 5:
		n = 1
	case c < 13:
		n = 2 + r.Intn(9)
	case c < 15:
		n = 11 + r.Intn(60)
	case c < 17:
		n = []int{254, 255, 256, 257}[r.Intn(4)]
	default:
		if allowBig && !g.small && r.Intn(3) == 0 {
			n = edfBoundaryLens[4+r.Intn(len(edfBoundaryLens)-4)]
		} else {
			n = edfBoundaryLens[r.Intn(4)]
		}
	}
	if allowBig && !g.small && g.budget >= 70000 && r.Intn(2) == 0 && (what != "slice1" || r.Intn(4) == 0) {
		// a case with a large budget is there to hit the upper boundaries
		n = edfBoundaryLens[4+r.Intn(len(edfBoundaryLens)-4)]
		if n > max {
			n = []int{max, max - 1, max - 2, max / 2}[r.Intn(4)]
		}
	}
	if n > max {
		n = max
	}
	if n > g.budget {
		n = r.Intn(3)
	}
	g.budget -= n
	for _, b := range edfBoundaryLens {
		if n == b || (n == 254 && what == "atom") {
			g.count("len." + what + "." + strconv.Itoa(n))
			if n >= 255 {
				g.boundary = true
			}
		}
	}
	return n
}

const edfNasty = "%d%s%v%!100% \x00\xff"

func (g *edfGen) bytesOf(n int) []byte {
	b := make([]byte, n)
	x := g.rng.U64()
	mode := g.rng.Intn(3)
	for i := range b {
		if i%8 == 0 {
			x = x*6364136223846793005 + 1442695040888963407
		}
		switch mode {
		case 0:
			b[i] = byte(x >> (8 * (uint(i) % 8)))
		case 1:
			b[i] = 'a' + byte(x>>(8*(uint(i)%8)))%26
		default:
			b[i] = edfNasty[int(byte(x>>(8*(uint(i)%8))))%len(edfNasty)]
		}
	}
	return b
}

// ---------------------------------------------------------------------------
// leaves
// ---------------------------------------------------------------------------

func (g *edfGen) genAtom() gen.Atom {
	r := g.rng
	if g.poison && r.Intn(3) == 0 {
		g.poison, g.poisoned = false, "atom>255"
		return gen.Atom(g.bytesOf(256 + r.Intn(3)*100))
	}
	if len(g.prefAtoms) > 0 && r.Intn(3) == 0 {
		a := g.prefAtoms[r.Intn(len(g.prefAtoms))]
		g.atomsUsed = append(g.atomsUsed, a)
		return a
	}
	if r.Intn(10) < 6 {
		a := edfAtomPool[r.Intn(len(edfAtomPool))]
		g.atomsUsed = append(g.atomsUsed, a)
		if len(a) == 255 {
			g.count("len.atom.255")
			g.boundary = true
		}
		if len(a) == 0 {
			g.count("len.atom.0")
		}
		return a
	}
	n := 0
	switch c := r.Intn(10); {
	case c < 1:
		n = 0
	case c < 2:
		n = 1
	case c < 7:
		n = 2 + r.Intn(12)
	case c < 8:
		n = 254
	default:
		n = 255
	}
	if n > g.budget && n > 12 {
		n = r.Intn(12)
	}
	g.budget -= n
	switch n {
	case 0, 1, 254, 255:
		g.count("len.atom." + strconv.Itoa(n))
		if n >= 254 {
			g.boundary = true
		}
	}
	return gen.Atom(g.bytesOf(n))
}

func (g *edfGen) genString() string {
	if g.poison && g.rng.Intn(3) == 0 && !g.small {
		g.poison, g.poisoned = false, "string>65535"
		return string(g.bytesOf(65536 + g.rng.Intn(2)*1000))
	}
	return string(g.bytesOf(g.pickLen("string", 65535, true)))
}

var edfErrTexts = []string{"", "%d", "100%", "%!", "%d items", "a%!b", "%s%s%s%s", "%!(EXTRA string=x)", "plain", "%w", "50%% off", "\x00", "кириллица %v"}

func (g *edfGen) genError(allowNil, allowForeign bool) error {
	r := g.rng
	if g.poison && r.Intn(3) == 0 && !g.small {
		g.poison, g.poisoned = false, "error>32767"
		return errors.New(string(g.bytesOf(32768 + r.Intn(2)*500)))
	}
	if len(g.prefSent) > 0 && r.Intn(3) == 0 {
		return g.prefSent[r.Intn(len(g.prefSent))]
	}
	switch c := r.Intn(20); {
	case c < 3 && allowNil:
		return nil
	case c < 9:
		k := r.Intn(len(sentinels))
		g.sentUsed = append(g.sentUsed, k)
		return sentinels[k]
	case c < 13:
		return errors.New(edfErrTexts[r.Intn(len(edfErrTexts))])
	case c < 15:
		return fmt.Errorf("wrapped %d%%: %w", r.Intn(100), errors.New(edfErrTexts[r.Intn(len(edfErrTexts))]))
	case c < 16 && allowForeign:
		return &hErr{s: "foreign " + edfErrTexts[r.Intn(len(edfErrTexts))]}
	}
	return errors.New(string(g.bytesOf(g.pickLen("error", 32767, true))))
}

var edfInts = []int64{math.MinInt64, math.MaxInt64, -1, 0, 1, math.MinInt32, math.MaxInt32, math.MinInt16, math.MaxInt16, math.MinInt8, math.MaxInt8, 255, 256, 65535, 65536}

var edfF32 = []uint32{0, 0x80000000, 0x7f800000, 0xff800000, 0x7fc00000, 0xffc00001, 0x7f800001 /* signalling */, 0xff812345 /* signalling */, 0x7fffffff, 1, 0x7f7fffff, 0x3f800000}
var edfF64 = []uint64{0, 0x8000000000000000, 0x7ff0000000000000, 0xfff0000000000000, 0x7ff8000000000000, 0xfff8000000000001, 0x7ff0000000000001 /* signalling */, 0xfff4000000abcdef /* signalling */, 0x7fffffffffffffff, 1, 0x7fefffffffffffff, 0x3ff0000000000000}

// Zones with a negative offset that is not a whole number of minutes are left out: time.Time.UnmarshalBinary of
// Go 1.23 reads the seconds byte unsigned, so such a zone does not survive the standard library's own round trip
// (reported as a note by runC11; it is outside the codec).
var edfZones = []*time.Location{time.UTC, time.Local, time.FixedZone("", 3600), time.FixedZone("X", -5*3600-30*60), time.FixedZone("S", 3600+17), time.FixedZone("", 0), time.FixedZone("W", 14*3600+59*60+59)}

func (g *edfGen) genTime() time.Time {
	r := g.rng
	switch r.Intn(8) {
	case 0:
		g.count("time.zero")
		return time.Time{}
	case 1:
		return time.Unix(0, 0).UTC()
	}
	sec := int64(r.U64()%4000000000) - 1000000000
	if r.Intn(6) == 0 {
		sec = int64(r.U64() % 200000000000) // far future, still a 4-digit year is not required by MarshalBinary
	}
	nsec := int64(0)
	if r.Bool() {
		nsec = int64(r.Intn(1000000000))
		g.count("time.subsecond")
	}
	z := r.Intn(len(edfZones))
	g.count("time.zone." + []string{"utc", "local", "fixed", "fixed", "fixed-with-seconds", "fixed-0", "fixed-with-seconds"}[z])
	return time.Unix(sec, nsec).In(edfZones[z])
}

// setF32 stores raw float32 bits (a conversion through float64 would quiet a signalling NaN)
func setF32(v reflect.Value, bits uint32) {
	*(*uint32)(unsafe.Pointer(v.Addr().UnsafePointer())) = bits
}

func isNaN32(b uint32) bool { return b&0x7f800000 == 0x7f800000 && b&0x007fffff != 0 }

// ---------------------------------------------------------------------------
// values
// ---------------------------------------------------------------------------

// pos: where the value sits ("top", "any", "field", "elem", "key") — for the nil/empty evidence
func (g *edfGen) genValue(t reflect.Type, depth int, pos string) reflect.Value {
	if depth > g.depth {
		g.depth = depth
	}
	r := g.rng
	v := reflect.New(t).Elem()
	key := pos == "key"
	if e, ok := edfRegByT[t]; ok {
		switch e.Kind {
		case 'Z':
			n := g.pickLen("marsh", 5000, false)
			if !g.small && r.Intn(12) == 0 && g.budget > 6000 {
				n = 5000
				g.budget -= n
				g.count("len.marsh.5000")
			}
			if n > 0 || r.Bool() {
				v.Field(0).SetBytes(g.bytesOf(n))
			}
			return v
		case 'R':
			for i := 0; i < t.NumField(); i++ {
				v.Field(i).Set(g.genValue(t.Field(i).Type, depth+1, "field"))
			}
			return v
		}
		g.fillByKind(v, depth, pos)
		return v
	}
	switch t {
	case tBytes:
		c := r.Intn(10)
		if c == 0 {
			g.count("nil.bytes." + pos)
			return v
		}
		n := g.pickLen("bytes", 65536, true)
		if n == 0 {
			g.count("empty.bytes." + pos)
		}
		v.SetBytes(g.bytesOf(n))
		return v
	case tAtom:
		v.SetString(string(g.genAtom()))
		return v
	case tPID:
		v.Set(reflect.ValueOf(gen.PID{Node: g.genAtom(), ID: uint64(edfInts[r.Intn(len(edfInts))]) ^ r.U64()&0xffff, Creation: edfInts[r.Intn(len(edfInts))]}))
		return v
	case tRef:
		v.Set(reflect.ValueOf(gen.Ref{Node: g.genAtom(), Creation: edfInts[r.Intn(len(edfInts))], ID: [3]uint64{r.U64(), uint64(r.Intn(3)), r.U64() >> uint(r.Intn(64))}}))
		return v
	case tAlias:
		v.Set(reflect.ValueOf(gen.Alias{Node: g.genAtom(), Creation: edfInts[r.Intn(len(edfInts))], ID: [3]uint64{r.U64(), uint64(r.Intn(3)), r.U64() >> uint(r.Intn(64))}}))
		return v
	case tProcessID:
		v.Set(reflect.ValueOf(gen.ProcessID{Name: g.genAtom(), Node: g.genAtom()}))
		return v
	case tEvent:
		v.Set(reflect.ValueOf(gen.Event{Name: g.genAtom(), Node: g.genAtom()}))
		return v
	case tTime:
		v.Set(reflect.ValueOf(g.genTime()))
		return v
	case tErr:
		e := g.genError(pos != "top" && !key, pos != "top")
		if e == nil {
			g.count("nil.error." + pos)
			return v
		}
		v.Set(reflect.ValueOf(e))
		return v
	case tAny:
		if !key && (r.Intn(7) == 0 || depth >= 9) {
			g.count("nil.any." + pos)
			return v
		}
		// dynamic type: anything but `any` itself
		var dt reflect.Type
		if g.mode != edfMain && !key && !g.regionHit && r.Intn(2) == 0 {
			dt = g.genRegionTypeNoWrap()
		} else {
			dt = g.genType(depth+1, true, key)
		}
		if dt == tErr {
			e := g.genError(false, false)
			v.Set(reflect.ValueOf(e))
			g.count("any.holds.error")
			return v
		}
		p := "any"
		if key {
			p = "key"
		}
		dv := g.genValue(dt, depth+1, p)
		v.Set(dv)
		g.count("any.holds." + kindName(dt))
		return v
	}
	g.fillByKind(v, depth, pos)
	return v
}

func (g *edfGen) genRegionTypeNoWrap() reflect.Type {
	for {
		t := g.genRegionType()
		if !(t.Kind() == reflect.Slice && t.Elem() == tAny) {
			return t
		}
	}
}

func kindName(t reflect.Type) string {
	if e, ok := edfRegByT[t]; ok {
		return "reg." + strings.TrimPrefix(e.Name, "#main/")
	}
	if s, ok := edfLeafText[t]; ok {
		return s
	}
	return t.Kind().String()
}

func (g *edfGen) fillByKind(v reflect.Value, depth int, pos string) {
	r := g.rng
	t := v.Type()
	key := pos == "key"
	switch t.Kind() {
	case reflect.Bool:
		v.SetBool(r.Bool())
	case reflect.Int, reflect.Int8, reflect.Int16, reflect.Int32, reflect.Int64:
		x := edfInts[r.Intn(len(edfInts))]
		if r.Bool() {
			x = int64(r.U64())
		}
		// truncate to the width (SetInt would otherwise panic on overflow? no: it truncates silently)
		v.SetInt(x)
	case reflect.Uint, reflect.Uint8, reflect.Uint16, reflect.Uint32, reflect.Uint64:
		x := uint64(edfInts[r.Intn(len(edfInts))])
		if r.Bool() {
			x = r.U64()
		}
		v.SetUint(x)
	case reflect.Float32:
		bits := edfF32[r.Intn(len(edfF32))]
		if r.Intn(3) == 0 {
			bits = uint32(r.U64())
		}
		if key && (isNaN32(bits) || bits == 0x80000000) {
			bits = 0x3f800000 // NaN != NaN and -0 == +0 as map keys: not representable in the model's value algebra
		}
		setF32(v, bits)
		if isNaN32(bits) {
			if bits&0x00400000 == 0 {
				g.count("float32.signalling-nan")
			} else {
				g.count("float32.quiet-nan")
			}
		}
	case reflect.Float64:
		bits := edfF64[r.Intn(len(edfF64))]
		if r.Intn(3) == 0 {
			bits = r.U64()
		}
		f := math.Float64frombits(bits)
		if key && (f != f || bits == 0x8000000000000000) {
			f = 1
		}
		if f != f {
			g.count("float64.nan")
		}
		v.SetFloat(f)
	case reflect.String:
		v.SetString(g.genString())
	case reflect.Slice:
		et := t.Elem()
		c := r.Intn(10)
		if c == 0 {
			g.count("nil.slice." + pos)
			return
		}
		n := 0
		switch {
		case zeroWidth(et) && g.mode != edfZeroWidth:
			n = 0
		case zeroWidth(et):
			n = 1 + r.Intn(4)
			g.regionHit = true
		case oneByteElem(et):
			n = g.pickLen("slice1", 65536, true)
		default:
			n = g.smallCount(et)
		}
		if c == 1 {
			n = 0
		}
		if n == 0 {
			g.count("empty.slice." + pos)
		}
		s := reflect.MakeSlice(t, n, n)
		for i := 0; i < n; i++ {
			s.Index(i).Set(g.genValue(et, depth+1, "elem"))
		}
		v.Set(s)
	case reflect.Array:
		if t.Len() > 0 && zeroWidth(t.Elem()) {
			g.regionHit = true
		}
		for i := 0; i < t.Len(); i++ {
			p := "elem"
			if key {
				p = "key"
			}
			v.Index(i).Set(g.genValue(t.Elem(), depth+1, p))
		}
	case reflect.Map:
		c := r.Intn(10)
		if c == 0 {
			g.count("nil.map." + pos)
			return
		}
		n := g.smallCount(t.Elem())
		if c == 1 {
			n = 0
		}
		if c >= 7 && n > 1 {
			n = 1 // single-entry maps: the byte-exact comparison applies
		}
		if g.mode != edfZeroWidth && zeroWidth(t.Key()) && zeroWidth(t.Elem()) {
			n = 0 // the main sweep keeps containers of zero-width entries empty
		}
		m := reflect.MakeMapWithSize(t, n)
		seen := map[string]bool{}
		for i := 0; i < n; i++ {
			k := g.genValue(t.Key(), depth+1, "key")
			// distinct by text: the model's value algebra identifies keys with equal text
			ks := valTextMode(k, textMode{quiet32: true, errAs: func(e error) string { return "e" + e.Error() }})
			if seen[ks] {
				continue
			}
			seen[ks] = true
			m.SetMapIndex(k, g.genValue(t.Elem(), depth+1, "elem"))
		}
		if m.Len() == 0 {
			g.count("empty.map." + pos)
		}
		if m.Len() > 0 && zeroWidth(t.Key()) && zeroWidth(t.Elem()) {
			g.regionHit = true
		}
		if m.Len() > 1 {
			g.count("map.multi-entry")
		}
		if t.Key().Kind() == reflect.Array && edfRegByT[t] == nil && edfRegByT[t.Key()] == nil {
			g.regionHit = true
		}
		v.Set(m)
	default:
		panic("edf generator: unsupported kind " + t.String())
	}
}

// smallCount: number of elements for containers of multi-byte elements, within the budget
func (g *edfGen) smallCount(et reflect.Type) int {
	r := g.rng
	w := 8
	switch {
	case et == tSNest:
		w = 1500
	case et == tSPrim:
		w = 400
	case et.Kind() == reflect.Slice || et.Kind() == reflect.Map || et.Kind() == reflect.Array || et == tAny:
		w = 64
	}
	n := 0
	switch c := r.Intn(10); {
	case c < 2:
		n = 1
	case c < 7:
		n = 2 + r.Intn(3)
	case c < 9:
		n = r.Intn(9)
	default:
		n = []int{16, 33, 255, 256}[r.Intn(4)]
		if w > 8 {
			n = 5 + r.Intn(6)
		}
		if g.small && n > 16 {
			n = 16
		}
	}
	for n > 0 && n*w > g.budget {
		n /= 2
	}
	g.budget -= n * w
	return n
}

// ---------------------------------------------------------------------------
// classification of a generated / decoded value
// ---------------------------------------------------------------------------

type edfFacts struct {
	multiMap    bool // a map with more than one entry (iteration order is not fixed)
	sNaN32      bool
	hasTime     bool
	zwNonEmpty  bool // a non-empty slice/map/array of zero-wire-width elements
	sentinels   []error
	atoms       []gen.Atom
	regInAny    int // registered dynamic types directly inside an `any`
	foreignErr  bool
	depth       int
	multiKeyNaN bool
}

func edfWalk(v reflect.Value, d int, f *edfFacts) {
	if d > f.depth {
		f.depth = d
	}
	t := v.Type()
	if e, ok := edfRegByT[t]; ok {
		switch e.Kind {
		case 'Z':
			return
		case 'R':
			for i := 0; i < v.NumField(); i++ {
				edfWalk(v.Field(i), d+1, f)
			}
			return
		}
	} else {
		switch t {
		case tBytes:
			return
		case tAtom:
			f.atoms = append(f.atoms, gen.Atom(v.String()))
			return
		case tPID:
			f.atoms = append(f.atoms, v.Interface().(gen.PID).Node)
			return
		case tRef:
			f.atoms = append(f.atoms, v.Interface().(gen.Ref).Node)
			return
		case tAlias:
			f.atoms = append(f.atoms, v.Interface().(gen.Alias).Node)
			return
		case tProcessID:
			p := v.Interface().(gen.ProcessID)
			f.atoms = append(f.atoms, p.Node, p.Name)
			return
		case tEvent:
			p := v.Interface().(gen.Event)
			f.atoms = append(f.atoms, p.Node, p.Name)
			return
		case tTime:
			f.hasTime = true
			return
		}
	}
	switch t.Kind() {
	case reflect.Interface:
		if v.IsNil() {
			return
		}
		el := v.Elem()
		if el.Kind() == reflect.Pointer && el.Type().Implements(tErr) {
			e := el.Interface().(error)
			if sentinelIndex(e) >= 0 {
				f.sentinels = append(f.sentinels, e)
			}
			if _, ok := e.(*hErr); ok {
				f.foreignErr = true
			}
			return
		}
		if _, ok := edfRegByT[el.Type()]; ok {
			f.regInAny++
		}
		edfWalk(el, d+1, f)
	case reflect.Pointer:
		if t.Implements(tErr) && !v.IsNil() {
			if e := v.Interface().(error); sentinelIndex(e) >= 0 {
				f.sentinels = append(f.sentinels, e)
			}
		}
	case reflect.Float32:
		if isNaN32(f32bits(v)) && f32bits(v)&0x00400000 == 0 {
			f.sNaN32 = true
		}
	case reflect.Slice:
		if v.Len() > 0 && zeroWidth(t.Elem()) {
			f.zwNonEmpty = true
		}
		if t.Elem().Kind() == reflect.Uint8 || t.Elem().Kind() == reflect.Int8 || t.Elem().Kind() == reflect.Bool {
			if d+1 > f.depth {
				f.depth = d + 1
			}
			return
		}
		for i := 0; i < v.Len(); i++ {
			edfWalk(v.Index(i), d+1, f)
		}
	case reflect.Array:
		if v.Len() > 0 && zeroWidth(t.Elem()) {
			f.zwNonEmpty = true
		}
		for i := 0; i < v.Len(); i++ {
			edfWalk(v.Index(i), d+1, f)
		}
	case reflect.Map:
		if v.Len() > 1 {
			f.multiMap = true
		}
		if v.Len() > 0 && zeroWidth(t.Key()) && zeroWidth(t.Elem()) {
			f.zwNonEmpty = true
		}
		it := v.MapRange()
		for it.Next() {
			edfWalk(it.Key(), d+1, f)
			edfWalk(it.Value(), d+1, f)
		}
	}
}

// dynHasMapArrKey: a map-with-array-key type occurs in the static type or in the dynamic type of a value held by an `any`
func dynHasMapArrKey(v reflect.Value) bool {
	t := v.Type()
	if hasMapArrKey(t) {
		return true
	}
	if e, ok := edfRegByT[t]; ok {
		if e.Kind == 'Z' {
			return false
		}
		if e.Kind == 'R' {
			for i := 0; i < v.NumField(); i++ {
				if dynHasMapArrKey(v.Field(i)) {
					return true
				}
			}
			return false
		}
	} else if _, ok := edfLeafText[t]; ok && t != tAny {
		return false
	}
	switch t.Kind() {
	case reflect.Interface:
		if v.IsNil() {
			return false
		}
		if v.Elem().Kind() == reflect.Pointer {
			return false
		}
		return dynHasMapArrKey(v.Elem())
	case reflect.Slice, reflect.Array:
		if oneByteElem(t.Elem()) {
			return false
		}
		for i := 0; i < v.Len(); i++ {
			if dynHasMapArrKey(v.Index(i)) {
				return true
			}
		}
	case reflect.Map:
		it := v.MapRange()
		for it.Next() {
			if dynHasMapArrKey(it.Key()) || dynHasMapArrKey(it.Value()) {
				return true
			}
		}
	}
	return false
}

/-
Model of `supCheckRestartIntensity` (act/supervisor.go): append `now`, return
early when the list is not longer than `intensity`, otherwise drop leading
entries older than the period and compare the length with `intensity`.
Times are Unix milliseconds (Int); `periodMs = period * 1000`.
-/
namespace ErgoVerif.Window

/-- mirror of supCheckRestartIntensity; `intensity` is Go `int(uint16)` hence a Nat -/
def check (restarts : List Int) (now : Int) (periodMs : Int) (intensity : Nat) : List Int × Bool :=
  let r := restarts ++ [now]
  if r.length ≤ intensity then (r, false)
  else
    let r' := r.dropWhile (fun t => decide (now - t > periodMs))
    (r', decide (r'.length > intensity))

/-- specification: how many failures of `hist` lie within the last `periodMs` before `now` -/
def inWindow (hist : List Int) (now periodMs : Int) : Nat :=
  (hist.filter (fun t => decide (now - t ≤ periodMs))).length

/-- the supervisor's history: fold `check` over the failure times, collecting the verdicts -/
def runImpl (periodMs : Int) (intensity : Nat) : List Int → List Int → List Int × List Bool
  | st, [] => (st, [])
  | st, t :: ts =>
    let r := check st t periodMs intensity
    let rest := runImpl periodMs intensity r.1 ts
    (rest.1, r.2 :: rest.2)

/-- the specification of the verdict sequence: at the failure at time `t`, having seen
    `pre` before, give up iff more than `intensity` failures (this one included) are in the window -/
def runSpec (periodMs : Int) (intensity : Nat) : List Int → List Int → List Bool
  | _, [] => []
  | pre, t :: ts => decide (inWindow (pre ++ [t]) t periodMs > intensity) :: runSpec periodMs intensity (pre ++ [t]) ts

def Sorted : List Int → Prop
  | [] => True
  | [_] => True
  | a :: b :: r => a ≤ b ∧ Sorted (b :: r)

end ErgoVerif.Window

import ErgoVerif.Common
import ErgoVerif.Model.Event
import ErgoVerif.Generated.Event
/-!
# C18 — events: every subscriber sees every publication once, in order

`Model/Event.lean` mirrors the event code as it is: fan-out is per *relation*, and the subscriber counter is
maintained only by subscribe / unsubscribe calls.
-/
namespace ErgoVerif.Props.C18
open ErgoVerif ErgoVerif.Event

/-- the code as it is: does a subscriber's termination update the counter (regenerated) -/
abbrev dc : Bool := Gen.Event.terminationUpdatesCounter
/-- the code as it is: does the publication fan-out serve each consumer once (regenerated) -/
abbrev dd : Bool := Gen.Event.publishDedupes

/-- invariants for every history: relations are distinct, the replay buffer is the tail of the publications -/
def Inv (e : Ev) : Prop :=
  e.subs.Nodup ∧ e.last.length ≤ e.cap ∧ (∃ pre, e.published = pre ++ e.last) ∧
  (e.last.length < e.cap → e.last = e.published)

theorem inv_init : Inv Ev.init := by simp [Inv, Ev.init]

theorem pushLast_spec (cap : Nat) (last pub : List Nat) (m : Nat)
    (h1 : last.length ≤ cap) (h2 : ∃ pre, pub = pre ++ last) (h3 : last.length < cap → last = pub) :
    (pushLast cap last m).length ≤ cap ∧ (∃ pre, pub ++ [m] = pre ++ pushLast cap last m) ∧
    ((pushLast cap last m).length < cap → pushLast cap last m = pub ++ [m]) := by
  unfold pushLast
  obtain ⟨pre, hpre⟩ := h2
  split
  · rename_i hc; subst hc; simp
  · split
    · rename_i hc hfull
      have hl : last.length = cap := by omega
      refine ⟨by simp; omega, ⟨pre ++ last.take 1, ?_⟩, ?_⟩
      · rw [hpre]
        have : last = List.take 1 last ++ List.drop 1 last := (List.take_append_drop 1 last).symm
        conv => lhs; rw [this]
        simp [List.append_assoc]
      · intro hlt; simp at hlt; omega
    · rename_i hc hnf
      have hl : last.length < cap := by omega
      refine ⟨by simp; omega, ⟨pre, by rw [hpre]; simp⟩, ?_⟩
      intro _; rw [h3 hl]

theorem step_inv (b d : Bool) (e : Ev) (o : Op) (h : Inv e) : Inv (step b d e o).1 := by
  obtain ⟨hnd, hcap, hpre, hsmall⟩ := h
  cases o with
  | register tok notify cap =>
    simp only [step]; split
    · exact ⟨hnd, hcap, hpre, hsmall⟩
    · simp [Inv, Ev.init]
  | publish tok m =>
    simp only [step]; split
    · exact ⟨hnd, hcap, hpre, hsmall⟩
    · split
      · exact ⟨hnd, hcap, hpre, hsmall⟩
      · obtain ⟨a, b, c⟩ := pushLast_spec e.cap e.last e.published m hcap hpre hsmall
        exact ⟨hnd, a, b, c⟩
  | sub c mon =>
    simp only [step]; split
    · exact ⟨hnd, hcap, hpre, hsmall⟩
    · split
      · exact ⟨hnd, hcap, hpre, hsmall⟩
      · rename_i _ hni
        refine ⟨?_, hcap, hpre, hsmall⟩
        rw [List.nodup_append]
        refine ⟨hnd, by simp, ?_⟩
        intro a ha b hb
        simp at hb; subst hb
        intro heq; subst heq; exact hni ha
  | unsub c mon =>
    simp only [step]; split
    · exact ⟨hnd, hcap, hpre, hsmall⟩
    · split
      · exact ⟨hnd, hcap, hpre, hsmall⟩
      · exact ⟨hnd.erase _, hcap, hpre, hsmall⟩
  | consumerDies c => simp only [step]; split <;> exact ⟨hnd.filter _, hcap, hpre, hsmall⟩
  | unregister =>
    simp only [step]; split
    · exact ⟨hnd, hcap, hpre, hsmall⟩
    · simp [Inv, Ev.init]

theorem run_inv (b d : Bool) : ∀ (ops : List Op) (e : Ev), Inv e → Inv (runOps b d e ops) := by
  intro ops
  induction ops with
  | nil => intro e h; exact h
  | cons o os ih => intro e h; exact ih _ (step_inv b d e o h)

/-- number of subscriptions process c holds (0, 1 or 2: link and monitor are separate relations) -/
def subsOf (e : Ev) (c : Nat) : Nat := (e.subs.filter (fun s => s.1 = c)).length

/-- the `delivered` set of the fan-out loop: a consumer not seen yet is served exactly once if it is listed at all -/
theorem count_dedupAux (c : Nat) : ∀ (l seen : List Nat),
    (dedupAux seen l).count c = if c ∈ seen then 0 else if c ∈ l then 1 else 0 := by
  intro l
  induction l with
  | nil => intro seen; simp [dedupAux]
  | cons a l ih =>
    intro seen
    simp only [dedupAux]
    by_cases ha : a ∈ seen
    · simp only [ha, if_true]
      rw [ih seen]
      by_cases hc : c ∈ seen
      · simp [hc]
      · have : c ≠ a := fun h => hc (h ▸ ha)
        simp [hc, this]
    · simp only [ha, if_false]
      rw [List.count_cons, ih (a :: seen)]
      by_cases hca : c = a
      · subst hca; simp [ha]
      · have hac : a ≠ c := fun h => hca h.symm
        by_cases hc : c ∈ seen
        · simp [hc, hca, hac]
        · simp [hc, hca, hac]

theorem count_fanout (d : Bool) (c : Nat) (l : List Nat) :
    (fanout d l).count c = if d then (if c ∈ l then 1 else 0) else l.count c := by
  unfold fanout
  cases d
  · simp
  · simp [count_dedupAux]

/-- what the TargetManager lists for the event: one entry per relation -/
theorem count_consumers (e : Ev) (c : Nat) : (e.subs.map (·.1)).count c = subsOf e c := by
  unfold subsOf
  rw [List.count_eq_countP, List.countP_map, List.countP_eq_length_filter]
  congr 1

theorem mem_consumers (e : Ev) (c : Nat) : c ∈ e.subs.map (·.1) ↔ 1 ≤ subsOf e c := by
  rw [← count_consumers, List.one_le_count_iff]

/-- **Fan-out, parametric in the dedupe flag.** In any reachable state a publication with the right token is recorded
and delivered: to every process holding a subscription — once when the loop keeps a `delivered` set, once per
relation otherwise — and to nobody else; a wrong token is refused and changes nothing. -/
theorem publish_spec (b d : Bool) (e : Ev) (tok m c : Nat) :
    (e.registered = true → tok = e.token →
        ∃ to, (step b d e (.publish tok m)).2 = .delivered to ∧
          to.count c = (if d then (if 1 ≤ subsOf e c then 1 else 0) else subsOf e c) ∧
          (step b d e (.publish tok m)).1.published = e.published ++ [m]) ∧
    (e.registered = true → tok ≠ e.token → step b d e (.publish tok m) = (e, .errOwner)) := by
  constructor
  · intro hr ht
    refine ⟨fanout d (e.subs.map (·.1)), by simp [step, hr, ht], ?_, by simp [step, hr, ht]⟩
    rw [count_fanout, count_consumers]
    cases d
    · simp
    · simp only [if_true]
      by_cases h : c ∈ e.subs.map (·.1)
      · have := (mem_consumers e c).1 h; simp [h, this]
      · have : ¬ 1 ≤ subsOf e c := fun h' => h ((mem_consumers e c).2 h')
        simp [h, this]
  · intro hr ht
    simp [step, hr, ht]

/-- **Fan-out for the code as it is.** -/
theorem C18_publish (ops : List Op) (tok m c : Nat) :
    let e := runOps dc dd Ev.init ops
    (e.registered = true → tok = e.token →
        ∃ to, (step dc dd e (.publish tok m)).2 = .delivered to ∧
          to.count c = (if 1 ≤ subsOf e c then 1 else 0) ∧
          (step dc dd e (.publish tok m)).1.published = e.published ++ [m]) ∧
    (e.registered = true → tok ≠ e.token → step dc dd e (.publish tok m) = (e, .errOwner)) := by
  intro e
  have hdd : dd = true := by decide
  have := publish_spec dc dd e tok m c
  rw [hdd] at this ⊢
  simpa using this

/-- the full "exactly once" statement: a subscribed process receives each publication exactly once -/
def C18_exactly_once_full (d : Bool) : Prop :=
  ∀ (ops : List Op) (tok m c : Nat),
    let e := runOps dc d Ev.init ops
    e.registered = true → tok = e.token → subsOf e c ≥ 1 →
    ∀ to, (step dc d e (.publish tok m)).2 = .delivered to → to.count c = 1

/-- The code before the repair of D20 (fan-out per relation, no `delivered` set): a process that subscribed by link
*and* by monitor holds two relations and received every publication twice. Kept as a regression statement. -/
theorem C18_D20_before_fix : ¬ C18_exactly_once_full false := by
  intro h
  have := h [.register 7 false 0, .sub 1 false, .sub 1 true] 7 42 1 rfl rfl (by decide) [1, 1] (by decide)
  simp at this

/-- **Exactly once, for the code as it is**: whatever subscriptions a process holds (link, monitor or both), it
receives each accepted publication exactly once. -/
theorem C18_exactly_once : C18_exactly_once_full dd := by
  intro ops tok m c e hr ht hs to hto
  obtain ⟨to', h1, h2, _⟩ := (C18_publish ops tok m c).1 hr ht
  have h : Out.delivered to' = Out.delivered to := h1.symm.trans hto
  cases h
  rw [h2]
  have : 1 ≤ subsOf (runOps dc dd Ev.init ops) c := hs
  rw [if_pos this]

/-- and a process without a subscription (never subscribed, unsubscribed, or dead) receives nothing -/
theorem C18_no_subscription (ops : List Op) (tok m c : Nat) :
    let e := runOps dc dd Ev.init ops
    e.registered = true → tok = e.token → subsOf e c = 0 →
    ∀ to, (step dc dd e (.publish tok m)).2 = .delivered to → c ∉ to := by
  intro e hr ht hs to hto
  obtain ⟨to', h1, h2, _⟩ := (C18_publish ops tok m c).1 hr ht
  have h : Out.delivered to' = Out.delivered to := h1.symm.trans hto
  cases h
  have h0 : subsOf (runOps dc dd Ev.init ops) c = 0 := hs
  rw [h0] at h2
  exact List.count_eq_zero.mp (by simpa using h2)

/-- **Snapshot.** A new subscriber is handed the last `min(N, #publications)` publications, in publication order:
the replay buffer is always a suffix of the publication sequence, of length at most N, and the whole sequence
while fewer than N were published. -/
theorem C18_snapshot (ops : List Op) (c : Nat) (mon : Bool) (snap : List Nat) (note : Option Note) :
    let e := runOps dc dd Ev.init ops
    (step dc dd e (.sub c mon)).2 = .subscribed snap note →
    snap.length ≤ e.cap ∧ (∃ pre, e.published = pre ++ snap) ∧ (snap.length < e.cap → snap = e.published) := by
  intro e hs
  have hi := run_inv dc dd ops Ev.init inv_init
  simp only [step] at hs
  split at hs
  · cases hs
  · split at hs
    · cases hs
    · simp at hs
      obtain ⟨rfl, _⟩ := hs
      exact ⟨hi.2.1, hi.2.2.1, hi.2.2.2⟩

/-- **Unregistration / owner death**: every relation on the event gets exactly one notification of its kind. -/
theorem C18_unregister (ops : List Op) (c : Nat) :
    let e := runOps dc dd Ev.init ops
    e.registered = true →
    ∃ ex dn, (step dc dd e .unregister).2 = .gone ex dn ∧
      ex.count c = (if (c, false) ∈ e.subs then 1 else 0) ∧ dn.count c = (if (c, true) ∈ e.subs then 1 else 0) ∧
      (step dc dd e .unregister).1.subs = [] := by
  intro e hr
  have hnd : e.subs.Nodup := (run_inv dc dd ops Ev.init inv_init).1
  have key : ∀ (b : Bool), ((e.subs.filter (fun s => s.2 == b)).map (·.1)).count c = if (c, b) ∈ e.subs then 1 else 0 := by
    intro b
    rw [List.count_eq_countP, List.countP_map, List.countP_filter, List.countP_eq_length_filter]
    have : (e.subs.filter (fun a => ((fun x => x == c) ∘ fun x => x.1) a && (a.2 == b))) = e.subs.filter (fun a => a == (c, b)) := by
      apply List.filter_congr; intro ⟨a, b'⟩ _; cases b <;> cases b' <;> simp [Prod.ext_iff, beq_iff_eq, Bool.beq_eq_decide_eq]
    rw [this, ← List.countP_eq_length_filter, ← List.count_eq_countP, List.Nodup.count hnd]
  have e1 : e.subs.filter (fun s => !s.2) = e.subs.filter (fun s => s.2 == false) := by
    apply List.filter_congr; intro ⟨a, b⟩ _; cases b <;> simp
  have e2 : e.subs.filter (fun s => s.2) = e.subs.filter (fun s => s.2 == true) := by
    apply List.filter_congr; intro ⟨a, b⟩ _; cases b <;> simp
  refine ⟨(e.subs.filter (fun s => !s.2)).map (·.1), (e.subs.filter (fun s => s.2)).map (·.1), by simp [step, hr], ?_, ?_, by simp [step, hr, Ev.init]⟩
  · rw [e1]; exact key false
  · rw [e2]; exact key true

/-- the full statement about producer notifications: `start` exactly when the first live subscription arrives -/
def C18_notify_full (b : Bool) : Prop :=
  ∀ (ops : List Op) (c : Nat) (mon : Bool) (snap : List Nat) (note : Option Note),
    let e := runOps b dd Ev.init ops
    e.notify = true → (step b dd e (.sub c mon)).2 = .subscribed snap note → (note = some .start ↔ e.live = 0)

/-- The code before the repair of D21 (the counter is not decremented when a subscriber terminates): the next first
subscriber produces no `start`. Kept as a regression statement. -/
theorem C18_D21_before_fix : ¬ C18_notify_full false := by
  intro h
  have := h [.register 7 true 0, .sub 1 false, .consumerDies 1] 2 false [] none rfl rfl
  simp [Ev.live, runOps, step, Ev.init] at this

theorem length_filter_split {α : Type} (p : α → Bool) (l : List α) :
    l.length = (l.filter p).length + (l.filter (fun x => !p x)).length := by
  induction l with
  | nil => simp
  | cons a r ih => cases hp : p a <;> simp [List.filter, hp] <;> omega

/-- the counter is the number of live subscriptions, for every history — subscriber deaths included when the
termination path updates it -/
theorem counter_eq_live (b : Bool) : ∀ (ops : List Op) (e : Ev), (b = false → ∀ o ∈ ops, ∀ c, o ≠ Op.consumerDies c) →
    e.subs.Nodup → e.counter = e.live → (runOps b dd e ops).counter = (runOps b dd e ops).live := by
  intro ops
  induction ops with
  | nil => intro e _ _ h; exact h
  | cons o os ih =>
    intro e hno hnd h
    have hno' : b = false → ∀ o' ∈ os, ∀ c, o' ≠ Op.consumerDies c := fun hb o' ho' => hno hb o' (by simp [ho'])
    have hnd' : (step b dd e o).1.subs.Nodup := by
      cases o with
      | register tok n c => simp only [step]; split <;> simp_all [Ev.init]
      | publish tok m => simp only [step]; split <;> (try split) <;> simp_all
      | sub c mon =>
        simp only [step]; split
        · exact hnd
        · split
          · exact hnd
          · rename_i _ hni
            rw [List.nodup_append]
            refine ⟨hnd, by simp, ?_⟩
            intro a ha b' hb; simp at hb; subst hb; intro heq; subst heq; exact hni ha
      | unsub c mon => simp only [step]; split <;> (try split) <;> first | exact hnd | exact hnd.erase _
      | consumerDies c => simp only [step]; split <;> exact hnd.filter _
      | unregister => simp only [step]; split <;> simp_all [Ev.init]
    apply ih _ hno' hnd'
    cases o with
    | register tok n c => simp only [step]; split <;> simp_all [Ev.init, Ev.live]
    | publish tok m => simp only [step]; split <;> (try split) <;> simp_all [Ev.live]
    | sub c mon =>
      simp only [step]; split
      · exact h
      · split
        · exact h
        · simp [Ev.live] at h ⊢; omega
    | unsub c mon =>
      simp only [step]; split
      · exact h
      · split
        · exact h
        · rename_i _ hin
          have hin' : (c, mon) ∈ e.subs := by simpa using hin
          simp only [Ev.live] at h ⊢
          rw [List.length_erase_of_mem hin']
          have : e.subs.length ≥ 1 := List.length_pos_of_mem hin'
          omega
    | consumerDies c =>
      simp only [step]
      split
      · simp only [Ev.live] at h ⊢
        have hsplit := length_filter_split (fun s : Nat × Bool => decide (s.1 = c)) e.subs
        have e2 : (e.subs.filter (fun s => !decide (s.1 = c))) = e.subs.filter (fun s => decide (s.1 ≠ c)) := by
          apply List.filter_congr; intro x _; simp
        rw [e2] at hsplit
        omega
      · rename_i hb
        have hb' : b = false := by cases b <;> simp_all
        exact absurd rfl (hno hb' _ (by simp) c)
    | unregister => simp only [step]; split <;> simp_all [Ev.init, Ev.live]

/-- **Producer notifications, for the code as it is**: `start` is sent exactly when a subscription arrives while no
subscription is live — after any history, subscriber deaths included. -/
theorem C18_notify : C18_notify_full dc := by
  have hdc : dc = true := by decide
  rw [hdc]
  intro ops c mon snap note e hn hs
  have hcnt : e.counter = e.live :=
    counter_eq_live true ops Ev.init (by intro h; cases h) (by simp [Ev.init]) (by simp [Ev.init, Ev.live])
  simp only [step] at hs
  split at hs
  · cases hs
  · split at hs
    · cases hs
    · simp at hs
      obtain ⟨_, rfl⟩ := hs
      simp only [hn, Bool.true_and]
      constructor
      · intro h
        split at h
        · rename_i hc; simp at hc; simp only [Ev.live] at hcnt ⊢; omega
        · cases h
      · intro h
        have hc0 : e.counter = 0 := by simp only [Ev.live] at hcnt h; omega
        simp [hc0]

/-- and `stop` when the last live subscription goes, by unsubscribing or by the subscriber's death -/
theorem C18_counter (ops : List Op) : (runOps dc dd Ev.init ops).counter = (runOps dc dd Ev.init ops).live := by
  have hdc : dc = true := by decide
  rw [hdc]
  exact counter_eq_live true ops Ev.init (by intro h; cases h) (by simp [Ev.init]) (by simp [Ev.init, Ev.live])

/-- the code as it is: one frame per remote node (regenerated) -/
abbrev fd : Bool := Gen.Event.remoteFramePerNode

/-- the statement for subscribers anywhere, parametric in the two code shapes -/
def C18_remote_full (f d : Bool) : Prop :=
  ∀ (self : Nat) (consumers : List (Nat × Nat)) (t : Nat × Nat), t ∈ consumers → copies f d self consumers t = 1

/-- **Exactly once on every node, for the code as it is**: whatever the set of relations on the event — any number of
subscribers on any number of nodes, by link, monitor or both (a pair may be listed more than once) — every
subscriber is handed one copy of a publication. -/
theorem C18_remote_exactly_once : C18_remote_full fd dd := by
  have h1 : fd = true := by decide
  have h2 : dd = true := by decide
  rw [h1, h2]
  intro self consumers t ht
  have hon : t.2 ∈ (consumers.filter (fun c => c.1 = t.1)).map (·.2) :=
    List.mem_map.mpr ⟨t, List.mem_filter.mpr ⟨ht, by simp⟩, rfl⟩
  have hc : (fanout true ((consumers.filter (fun c => c.1 = t.1)).map (·.2))).count t.2 = 1 := by
    rw [count_fanout]; simp [hon]
  unfold copies
  by_cases hs : t.1 = self
  · simp only [hs, if_true]; rw [← hs]; exact hc
  · simp only [hs, if_false]
    rw [hc, Nat.mul_one]
    unfold remoteNodes
    simp only [if_true]
    rw [count_dedupAux]
    have : t.1 ∈ (consumers.filter (fun c => c.1 ≠ self)).map (·.1) :=
      List.mem_map.mpr ⟨t, List.mem_filter.mpr ⟨ht, by simpa using hs⟩, rfl⟩
    rw [if_neg (by simp), if_pos this]

/-- a list instead of a set of remote nodes (seeded change C12-2): two subscribers on one remote node get every
publication twice -/
theorem C18_remote_frame_per_subscriber_duplicates : ¬ C18_remote_full false true := by
  intro h
  have := h 0 [(1, 5), (1, 6)] (1, 5) (by simp)
  revert this
  decide

/-- the code as it is: subscribe inserts the relation before it reads the buffer (regenerated) -/
abbrev ab : Bool := Gen.Event.subscribeAddsBeforeSnapshot

/-- the statement, parametric in the code shape: once the subscription and the publication have both run to their
end, in whatever interleaving, the subscriber has the publication — from the buffer it was handed or from the fan-out -/
def C18_subscribe_no_gap_full (b : Bool) : Prop :=
  ∀ (ls : List SubRace.Lbl) (s : SubRace.S), run (SubRace.step b) SubRace.S.init ls = some s →
    s.snapped = true → s.added = true → s.fanned = true → (s.replay = true ∨ s.live = true)

theorem subrace_inv (ls : List SubRace.Lbl) (s : SubRace.S) (h : run (SubRace.step true) SubRace.S.init ls = some s) :
    (s.fanned = true → s.pushed = true) ∧ (s.snapped = true → s.added = true) ∧
    (s.fanned = true → s.snapped = true → (s.replay = true ∨ s.live = true)) := by
  refine _root_.ErgoVerif.run_inv (Inv := fun s : SubRace.S => (s.fanned = true → s.pushed = true) ∧ (s.snapped = true → s.added = true) ∧
    (s.fanned = true → s.snapped = true → (s.replay = true ∨ s.live = true))) ?_ (by simp [SubRace.S.init]) h
  intro s l s' hi hs
  rcases s with ⟨a, sn, p, f, r, lv⟩
  cases a <;> cases sn <;> cases p <;> cases f <;> cases r <;> cases lv <;> cases l <;>
    simp [SubRace.step] at hs <;> (try subst hs) <;> simp_all

/-- **No gap between replay and live delivery, for the code as it is**: a publication that races with a subscription
is never lost to the subscriber — for every interleaving of {insert relation, read buffer} with {push, fan out}. -/
theorem C18_subscribe_no_gap : C18_subscribe_no_gap_full ab := by
  have h : ab = true := by decide
  rw [h]
  intro ls s hr hsn _ hf
  exact (subrace_inv ls s hr).2.2 hf hsn

/-- reading the buffer before inserting the relation (seeded change C18-1) loses the publication that is pushed and
fanned out in between -/
theorem C18_subscribe_snapshot_first_loses : ¬ C18_subscribe_no_gap_full false := by
  intro h
  have := h [.sSnap, .pPush, .pFan, .sAdd] ⟨true, true, true, true, false, false⟩ (by decide) rfl rfl rfl
  simp at this

/-- non-vacuity: a history with two subscribers, a buffer of 2 and four publications -/
example :
    let e := runOps true true Ev.init [.register 7 true 2, .sub 1 false, .publish 7 10, .publish 7 11, .publish 7 12, .sub 2 true]
    e.last = [11, 12] ∧ e.published = [10, 11, 12] ∧ e.counter = 2 := by decide

end ErgoVerif.Props.C18

import ErgoVerif.Model.TM
/-!
RouteLink* / RouteMonitor* with a REMOTE target (node/core.go) are three steps:
  1. `connection.LinkPID(pid, target)` — request/response with the peer over the connection found in the table;
     returns nil when the peer recorded the relation
  2. `n.targetManager.AddLink(pid, target)` — the local record
  3. (when the code has it, `rc`) `n.network.Connection(target.Node)` once more: if the entry is gone or is another
     connection object, the relation is removed again and the request returns ErrNoConnection — unless the node-down
     drain has already taken it (then the notification is on its way and the request returns nil)
and `unregisterConnection(peer)` — delete the table entry, then RouteNodeDown(peer) — may run between any two of them
(another goroutine), as may the registration of a new connection with the same node.

Connections are numbered as they are registered. A process makes one request at a time (the calls are synchronous in
the caller), so there is at most one request in flight per consumer.
-/
namespace ErgoVerif.LinkRace
open ErgoVerif.TM

/-- a request in flight: the relation, the node it points to, the connection the request went over -/
structure Req where
  k : Key
  n : Node
  g : Nat
deriving DecidableEq, Repr

inductive Ev
  | up (n : Node)              -- a connection with n is registered
  | down (n : Node)            -- unregisterConnection(n)
  | answered (k : Key) (n : Node)   -- step 1 returned nil
  | add (r : Req)              -- step 2
  | recheck (r : Req)          -- step 3
deriving DecidableEq, Repr

structure St where
  tm : TM.St
  conn : List (Node × Nat)     -- the connection table: node ↦ number of its connection
  next : Nat
  pending : List Req           -- answered, not yet recorded
  unchecked : List Req         -- recorded, table not looked at again yet
  notifs : List Notif
  granted : List Key           -- requests that returned nil
  refused : List Key           -- requests that returned ErrNoConnection after the insert

def init : St := ⟨TM.init, [], 0, [], [], [], [], []⟩

def lookup (n : Node) : List (Node × Nat) → Option Nat
  | [] => none
  | c :: cs => if c.1 = n then some c.2 else lookup n cs

/-- the table without the entry of node n -/
def dropNode (n : Node) : List (Node × Nat) → List (Node × Nat)
  | [] => []
  | c :: cs => if c.1 = n then dropNode n cs else c :: dropNode n cs

def St.connOf (s : St) (n : Node) : Option Nat := lookup n s.conn

def St.busy (s : St) (c : Pid) : Bool := (s.pending ++ s.unchecked).any (fun r => r.k.consumer = c)

def step (rc : Bool) (s : St) : Ev → St
  | .up n =>
    match s.connOf n with
    | some _ => s
    | none => { s with conn := (n, s.next) :: s.conn, next := s.next + 1 }
  | .down n =>
    match s.connOf n with
    | none => s
    | some _ =>
      { s with conn := dropNode n s.conn, tm := (routeNodeDown s.tm n).1,
               notifs := s.notifs ++ (routeNodeDown s.tm n).2 }
  | .answered k n =>
    match s.connOf n with
    | none => s                                     -- no connection: the request fails before anything is recorded
    | some g =>
      if k.target.onNode n && !s.busy k.consumer then { s with pending := ⟨k, n, g⟩ :: s.pending } else s
  | .add r =>
    if r ∈ s.pending then
      let s1 := { s with pending := s.pending.erase r }
      if r.k ∈ s.tm.rel then s1                     -- Add* returns ErrTargetExist: the request returns that error
      else if rc then { s1 with tm := (TM.add s.tm r.k).1, unchecked := r :: s.unchecked }
      else { s1 with tm := (TM.add s.tm r.k).1, granted := r.k :: s.granted }
    else s
  | .recheck r =>
    if r ∈ s.unchecked then
      let s1 := { s with unchecked := s.unchecked.erase r }
      if s.connOf r.n = some r.g then { s1 with granted := r.k :: s.granted }
      else if r.k ∈ s.tm.rel then { s1 with tm := (TM.remove s.tm r.k).1, refused := r.k :: s.refused }
      else { s1 with granted := r.k :: s.granted }  -- the drain has taken it (and notified)
    else s

def run (rc : Bool) (s : St) : List Ev → St
  | [] => s
  | e :: es => run rc (step rc s e) es

end ErgoVerif.LinkRace

import ErgoVerif.Lemmas.EdfNz
namespace ErgoVerif.Edf
open ErgoVerif.Generated.Edt

mutual
def Val.depth : Val → Nat
  | .any _ v => v.depth + 1
  | .list vs => vs.depth + 1
  | .map ps => ps.depth + 1
  | _ => 1
def Vals.depth : Vals → Nat
  | .nil => 0
  | .cons v vs => max v.depth vs.depth
def Pairs.depth : Pairs → Nat
  | .nil => 0
  | .cons k v ps => max (max k.depth v.depth) ps.depth
end

def Pairs.snoc : Pairs → Val → Val → Pairs
  | .nil, k, v => .cons k v .nil
  | .cons k' v' ps, k, v => .cons k' v' (ps.snoc k v)

def Pairs.app : Pairs → Pairs → Pairs
  | .nil, qs => qs
  | .cons k v ps, qs => .cons k v (ps.app qs)

/-- the keys of `ps` are hashable, pairwise different and different from the keys already in `acc` -/
def Pairs.KeysOK : Pairs → Pairs → Prop
  | _, .nil => True
  | acc, .cons k v ps => acc.hasKey k = false ∧ k.hashable = true ∧ Pairs.KeysOK (acc.snoc k v) ps

theorem Pairs.insert_fresh : (acc : Pairs) → (k v : Val) → acc.hasKey k = false → acc.insert k v = acc.snoc k v
  | .nil, _, _, _ => rfl
  | .cons k' v' ps, k, v, h => by
    simp [Pairs.hasKey] at h
    simp [Pairs.insert, Pairs.snoc, h.1, Pairs.insert_fresh ps k v h.2]

theorem Pairs.snoc_app : (acc : Pairs) → (k v : Val) → (ps : Pairs) → (acc.snoc k v).app ps = acc.app (.cons k v ps)
  | .nil, _, _, _ => rfl
  | .cons k' v' qs, k, v, ps => by simp [Pairs.snoc, Pairs.app, Pairs.snoc_app qs k v ps]

theorem getDecoder_leaf (o : Opts) (t : Ty) (tag : UInt8) (h : t.leafTag = some tag) (dt : Bool) (body : Bytes) :
    getDecoder o dt (tag :: body) = .ok (some t, body, false) := by
  obtain ⟨h1, _, _, _, h5, h6, h7⟩ := tagTy_leaf t tag h
  simp [getDecoder, h1, h5, h6, h7]

theorem ddepth_le (o : Opts) : (t : Ty) → t.ddepth ≤ (encTy o t).length
  | .slice t => by have := ddepth_le o t; simp [Ty.ddepth, encTy]; omega
  | .array n t => by have := ddepth_le o t; simp [Ty.ddepth, encTy]; omega
  | .map k v => by have := ddepth_le o k; have := ddepth_le o v; simp [Ty.ddepth, encTy]; omega
  | .named nm _ => by simp [Ty.ddepth, encTy, regPrefix]; split <;> simp
  | .struct nm _ => by simp [Ty.ddepth, encTy, regPrefix]; split <;> simp
  | .marsh nm _ => by simp [Ty.ddepth, encTy, regPrefix]; split <;> simp
  | .bool | .num _ | .str | .bin | .atom | .idr _ | .idn _ | .time | .error | .any => by simp [Ty.ddepth, encTy]

theorem getDecoder_hdr (o : Opts) (hc : CachesConsistent o) (t : Ty) (hd : DescOK o t) (hl : (encTy o t).length < 65536)
    (hne : t ≠ .any) (dt : Bool) (body : Bytes) :
    getDecoder o dt (hdr o t ++ body) = .ok (some t, body, if t.composite then dt else false) := by
  have comp : t.composite = true → getDecoder o dt (hdr o t ++ body) = .ok (some t, body, dt) := by
    intro hcomp
    have hh : hdr o t = edtType :: be16 (encTy o t).length ++ encTy o t := by
      cases t <;> simp [Ty.composite] at hcomp <;> rfl
    have h := decTy_encTy o hc t [] ((encTy o t).length + 1) hd (by have := ddepth_le o t; omega) (by simp)
    simp only [List.append_nil] at h
    rw [hh]
    simp only [List.cons_append, List.append_assoc, getDecoder]
    have e1 : edtType ≠ edtReg := by decide
    simp only [e1, ↓reduceIte, rd16_be16 _ hl]
    simp [h, hcomp]
  have regc : ∀ nm, RegOK o nm t → hdr o t = regPrefix o nm → getDecoder o dt (hdr o t ++ body) = .ok (some t, body, false) := by
    intro nm hr hh
    obtain ⟨tl, h1, h2⟩ := getReg_regPrefix o hc nm t hr body
    rw [hh, h1]
    simp [getDecoder, h2]
  cases t with
  | slice t' => simpa [Ty.composite] using comp rfl
  | array n t' => simpa [Ty.composite] using comp rfl
  | map k v => simpa [Ty.composite] using comp rfl
  | named nm t' => simpa [Ty.composite] using regc nm hd rfl
  | struct nm fs => simpa [Ty.composite] using regc nm hd rfl
  | marsh nm sz => simpa [Ty.composite] using regc nm hd rfl
  | any => exact absurd rfl hne
  | bool => simpa [hdr, encTy, Ty.composite] using getDecoder_leaf o .bool _ rfl dt body
  | str => simpa [hdr, encTy, Ty.composite] using getDecoder_leaf o .str _ rfl dt body
  | bin => simpa [hdr, encTy, Ty.composite] using getDecoder_leaf o .bin _ rfl dt body
  | atom => simpa [hdr, encTy, Ty.composite] using getDecoder_leaf o .atom _ rfl dt body
  | time => simpa [hdr, encTy, Ty.composite] using getDecoder_leaf o .time _ rfl dt body
  | error => simpa [hdr, encTy, Ty.composite] using getDecoder_leaf o .error _ rfl dt body
  | num p => simpa [hdr, encTy, Ty.composite] using getDecoder_leaf o (.num p) _ rfl dt body
  | idr p => simpa [hdr, encTy, Ty.composite] using getDecoder_leaf o (.idr p) _ rfl dt body
  | idn p => simpa [hdr, encTy, Ty.composite] using getDecoder_leaf o (.idn p) _ rfl dt body
end ErgoVerif.Edf

package main

import (
	"fmt"
	"go/ast"
	"go/token"
)

// Generated/WaitResp.lean: process.waitResponse (node/process.go) — in the `case r := <-p.response:` clause the first
// statement compares the reference (`if r.ref != ref { … goto retry }`) before anything of the reply is used.

func init() {
	generators = append(generators, generator{name: "WaitResp", run: genWaitResp,
		fallback: "namespace ErgoVerif.Gen.WaitResp\ndef refComparedFirst : Bool := false\ndef responseCases : Nat := 0\nend ErgoVerif.Gen.WaitResp\n"})
}

func genWaitResp() (string, error) {
	f, err := parseFile("node/process.go")
	if err != nil {
		return "", err
	}
	fd := funcDecl(f, "process", "waitResponse")
	if fd == nil {
		return "", fmt.Errorf("process.waitResponse not found")
	}
	cases, first := 0, 0
	ast.Inspect(fd.Body, func(n ast.Node) bool {
		cc, ok := n.(*ast.CommClause)
		if !ok || cc.Comm == nil {
			return true
		}
		as, ok := cc.Comm.(*ast.AssignStmt)
		if !ok || len(as.Rhs) != 1 {
			return true
		}
		ue, ok := as.Rhs[0].(*ast.UnaryExpr)
		if !ok || ue.Op != token.ARROW || exprStr(ue.X) != "p.response" {
			return true
		}
		cases++
		v := exprStr(as.Lhs[0])
		if len(cc.Body) > 0 {
			if is, ok := cc.Body[0].(*ast.IfStmt); ok && is.Init == nil {
				if be, ok := is.Cond.(*ast.BinaryExpr); ok && be.Op == token.NEQ && exprStr(be.X) == v+".ref" && exprStr(be.Y) == "ref" {
					// the body leaves the clause (goto retry / continue) without touching the reply
					leaves := false
					for _, b := range is.Body.List {
						if br, ok := b.(*ast.BranchStmt); ok && (br.Tok == token.GOTO || br.Tok == token.CONTINUE) {
							leaves = true
						}
					}
					if leaves {
						first++
					}
				}
			}
		}
		return true
	})
	if cases == 0 {
		return "", fmt.Errorf("no `case r := <-p.response` in waitResponse")
	}
	return fmt.Sprintf("namespace ErgoVerif.Gen.WaitResp\n/-- every `case r := <-p.response` clause of waitResponse starts with `if r.ref != ref { … goto retry }` (%d of %d) -/\ndef refComparedFirst : Bool := %s\ndef responseCases : Nat := %d\nend ErgoVerif.Gen.WaitResp\n", first, cases, leanBool(first == cases), cases), nil
}

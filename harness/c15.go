package main

import "time"

// C15 — remote access control. Parts (each in its own file):
//   c15_perm.go   K2 on the spawn / application-start permission tables of a real node (public Network API
//                 + the verif export of the two lookups) against Model/Perm.lean, with an independent history oracle
//   c15_hs.go     K5 on the real handshake code over in-memory pipes: honest runs for all cookie combinations
//                 (digests recomputed from the model's symbolic terms with real SHA-256), adversary driver
//   c15_adv.go    the adversary scripts of c15_hs.go
//   c15_flags.go  K5 on two real proto connections with a mock core: flag guards of both ends, env exposure
//   c15_nodes.go  two real in-process nodes: effective cookie per acceptor / route, peer name check, flags,
//                 tables and env exposure end to end, the Join findings on a live node

var c15parts []func(*Ctx)

func init() {
	props["C15"] = func(c *Ctx) {
		c.R.Rule = "perm: (op history over 3 names x 4 peers x 3 factory types, node lists of 0..3 entries) -> every returned error and " +
			"every (name,peer) lookup after every op vs Model.Perm, plus an independent 'last covering op is a successful enable' oracle; " +
			"non-trivial = history with >=1 enable and >=1 disable on the same name; " +
			"hs: (cookieI,cookieA,flags,maxsize,names) honest runs over net.Pipe with re-segmentation -> outcome, results and every digest " +
			"(model term evaluated with SHA-256) vs wire; adversary scripts (garbage, truncation at every byte, replay of recorded messages at every step) " +
			"-> never completes without the cookie; non-trivial = run that reaches at least one digest check; " +
			"flags: all 64 (Enable,Spawn,AppStart) combinations of requester-view x receiver flags x request kind on two real proto connections -> refused/dropped/routed+env vs Model.Perm; " +
			"nodes: two real nodes, (node cookie, acceptor cookie, route cookie) combinations -> connected iff effective cookies equal; wrong peer name; requests end to end; Join replays on a live node"
		for i, p := range c15parts {
			t0 := time.Now()
			p(c)
			c.R.Note("C15 part %d: %.1fs", i, time.Since(t0).Seconds())
		}
	}
}

import ErgoVerif.Drive.Util
import ErgoVerif.Drive.TM
import ErgoVerif.Model.LinkOps
import ErgoVerif.Generated.LinkRace
namespace ErgoVerif.Drive.LinkOps
open ErgoVerif.Drive ErgoVerif.TM ErgoVerif.LinkOps
open ErgoVerif.Drive.TM (pid? target? showPid showTarget showList)

def showNotifs (ns : List Notif) : String :=
  showList (ns.map fun x => s!"{if x.kind = .exit then "exit" else "down"}:{showTarget x.target}>{showPid x.to}")

def showRes : Res → String
  | .ok => "ok" | .errUnknown => "unknown" | .errExist => "exist" | .errNoRel => "norel"
  | .notified ns => showNotifs ns

/-- ops: `reset` | `create <t>` | `link <pid> <t>` | `unlink …` | `monitor …` | `demonitor …` | `gone <t>` |
    `terminate <pid> <t1,t2,…|->` ; `race <0|1> <l|t chars>` runs the small-step race -/
def line (w : World) (l : String) : World × String :=
  match words l with
  | ["reset"] => (World.init, "ok")
  | ["create", t] => match target? t with
    | some t => let r := LinkOps.step w (.create t); (r.1, showRes r.2)
    | none => (w, "bad-op")
  | ["gone", t] => match target? t with
    | some t => let r := LinkOps.step w (.gone t); (r.1, showRes r.2)
    | none => (w, "bad-op")
  | [op, c, t] =>
    if op = "terminate" then
      match pid? c, (if t = "-" then some [] else (t.splitOn ",").mapM target?) with
      | some p, some owned => let r := LinkOps.step w (.terminate p owned); (r.1, showRes r.2)
      | _, _ => (w, "bad-op")
    else if op = "race" then
      let ls := t.toList.filterMap fun ch => if ch = 'l' then some Race.Lbl.lStep else if ch = 't' then some Race.Lbl.tStep else none
      match Race.run (if c = "g" then ErgoVerif.Gen.LinkRace.recheckAfterAdd else c = "1") Race.init ls with
      | some cf => (w, s!"l={repr cf.l} t={repr cf.t} rel={cf.rel} notified={cf.notified}")
      | none => (w, "disabled")
    else
    match pid? c, target? t with
    | some c, some t =>
      let o : Option LinkOps.Op := match op with
        | "link" => some (.link c t) | "unlink" => some (.unlink c t)
        | "monitor" => some (.monitor c t) | "demonitor" => some (.demonitor c t) | _ => none
      match o with
      | some o => let r := LinkOps.step w o; (r.1, showRes r.2)
      | none => (w, "bad-op")
    | _, _ => (w, "bad-op")
  | _ => (w, "bad-op")

def main (h : IO.FS.Stream) : IO Unit := loopState h line World.init
end ErgoVerif.Drive.LinkOps

import ErgoVerif.Lemmas.ProcAll
import ErgoVerif.Generated.States
/-!
# C05 — termination happens once, with the right reason, and is final (process part)

Same model as C01 (`Model/Proc.lean`). `terms` counts entries into ProcessTerminate, `why` is the
reason class handed to it, `sawErr/sawPanic/sawKill` record the causes that occurred.
-/
namespace ErgoVerif.Props.C05
open ErgoVerif ErgoVerif.Proc

abbrev kz : Bool := Gen.States.killZombeeReturns

private theorem kz_true : kz = true := by decide

/-- ProcessTerminate is entered at most once, in every reachable configuration. -/
theorem C05_once (c : Cfg) (h : Reach kz c) : c.terms ≤ 1 ∧ c.tm ≤ c.terms := by
  rw [kz_true] at h
  have hi := (reach_inv h).1
  unfold Proc.Inv at hi
  omega

/-- When a finaliser has been elected (or ProcessTerminate has started) no other callback is executing and no
thread holds the right to start one: the terminate callback runs after the last other callback. -/
theorem C05_after_last_callback (c : Cfg) (h : Reach kz c) (hf : c.fE + c.fP + c.fK + c.terms ≥ 1) :
    c.i0 = 0 ∧ c.rb = 0 ∧ c.w1 + c.r0 + c.r3 + c.re + c.rp + c.rk + c.k2 = 0 := by
  rw [kz_true] at h
  have hi := (reach_inv h).1
  unfold Proc.Inv at hi
  obtain ⟨st, i0, i1, s0, s1, s2, w0, w1, r0, rb, r3, r4, r5, re, rp, rk, k0, k1, k2, fE, fP, fK, tm,
    mail, handled, accepted, refused, terms, why, sawErr, sawPanic, sawKill, initFailed⟩ := c
  cases st <;> simp at hi hf ⊢ <;> omega

/-- **Final.** Once ProcessTerminate has been entered, no continuation whatsoever — further senders, killers,
wake-up attempts — makes any callback of the process run again or ProcessTerminate run a second time. -/
theorem C05_final (c : Cfg) (h : Reach kz c) (ht : c.terms = 1) (ls : List Lbl) (c' : Cfg)
    (hr : run (step kz) c ls = some c') : c'.rb = 0 ∧ c'.i0 = 0 ∧ c'.r0 = 0 ∧ c'.w1 = 0 ∧ c'.terms = 1 := by
  rw [kz_true] at h hr
  have hi' := (run_invAll (reach_inv h) hr).1
  have hm := run_fin_mono hr
  unfold Proc.Inv at hi'
  obtain ⟨st, i0, i1, s0, s1, s2, w0, w1, r0, rb, r3, r4, r5, re, rp, rk, k0, k1, k2, fE, fP, fK, tm,
    mail, handled, accepted, refused, terms, why, sawErr, sawPanic, sawKill, initFailed⟩ := c'
  cases st <;> simp at hi' hm ⊢ <;> omega

/-- **Exactly once.** In every quiescent configuration whose state word is `terminated`, ProcessTerminate has run
exactly once and has finished; and a quiescent configuration is never left in `zombee`, `running` or `wait`. -/
theorem C05_exactly_once (c : Cfg) (h : Reach kz c) (hq : c.quiescent) :
    (c.st = .terminated → c.terms = 1 ∧ c.tm = 0) ∧ c.st ≠ .zombee ∧ c.st ≠ .running ∧ c.st ≠ .wait := by
  rw [kz_true] at h
  have hi := (reach_inv h).1
  unfold Proc.Inv at hi
  unfold Cfg.quiescent at hq
  obtain ⟨st, i0, i1, s0, s1, s2, w0, w1, r0, rb, r3, r4, r5, re, rp, rk, k0, k1, k2, fE, fP, fK, tm,
    mail, handled, accepted, refused, terms, why, sawErr, sawPanic, sawKill, initFailed⟩ := c
  cases st <;> simp at hi hq ⊢ <;> omega

/-- **Reason reflects a cause.** The reason class handed to ProcessTerminate names a cause that occurred:
`kill` only if some Kill swapped the word, the handler's error only if a handler returned one, `panic` only if
a handler panicked. Hence with a single cause the reason is that cause. -/
theorem C05_reason (c : Cfg) (h : Reach kz c) :
    (c.why = some .kill → c.sawKill = true) ∧ (c.why = some .err → c.sawErr = true) ∧
    (c.why = some .panic → c.sawPanic = true) := by
  rw [kz_true] at h
  have hr := (reach_inv h).2.2
  unfold InvR at hr
  refine ⟨fun hw => hr.1 (by simp [hw]), fun hw => hr.2.1 (by simp [hw]), fun hw => hr.2.2 (by simp [hw])⟩

/-- The code before the repair of D7: ProcessTerminate can be entered twice (two killers on a process that was
killed while sleeping / already terminated but still registered). -/
theorem C05_D7_before_fix : ∃ ls c, run (step false) init ls = some c ∧ c.terms = 2 :=
  ⟨[.initOk, .storeSleep, .runCas, .runGo, .start, .retErr, .swapErr, .newKiller, .newKiller,
     .kSwapZ, .kSwapZ, .kSwapT, .termEnterE, .termEnterK], _, rfl, by decide⟩

/-- non-vacuity: a reachable terminated, quiescent configuration, reason kill -/
example : ∃ c, Reach true c ∧ c.quiescent ∧ c.st = .terminated ∧ c.terms = 1 ∧ c.why = some .kill :=
  ⟨_, ⟨[.initOk, .storeSleep, .runCas, .runGo, .start, .retNil, .casSleep, .recheckEmpty,
        .newKiller, .kSwapZ, .kSwapT, .termEnterK, .termDone], rfl⟩, by decide⟩

end ErgoVerif.Props.C05

import ErgoVerif.Model.Proc
namespace ErgoVerif.Proc

/-- runner-side owners: threads that hold the right to execute callbacks -/
def Cfg.RO (c : Cfg) : Nat := c.w1 + c.r0 + c.rb + c.r3 + c.re + c.rp + c.rk
/-- finalisers elected so far (waiting to enter ProcessTerminate, or entered) -/
def Cfg.fin (c : Cfg) : Nat := c.fE + c.fP + c.fK + c.terms

/-- the owner-token invariant, per value of the state word -/
def Inv (c : Cfg) : Prop :=
  c.fE + c.fP + c.fK + c.terms ≤ 1 ∧ c.tm ≤ c.terms ∧ c.i0 + c.i1 ≤ 1 ∧ c.s2 ≤ c.mail ∧
  c.accepted = c.handled + c.mail ∧
  (c.st = .init → c.w1 + c.r0 + c.rb + c.r3 + c.re + c.rp + c.rk = 0 ∧ c.k2 = 0 ∧ c.fE + c.fP + c.fK + c.terms = 0 ∧
      c.k1 = 0 ∧ c.k0 = 0 ∧ c.r4 = 0 ∧ c.r5 = 0) ∧
  (c.st ≠ .init → c.i0 + c.i1 = 0) ∧
  (c.st = .sleep → c.w1 + c.r0 + c.rb + c.r3 + c.re + c.rp + c.rk = 0 ∧ c.k2 = 0 ∧ c.fE + c.fP + c.fK + c.terms = 0 ∧ c.k1 = 0) ∧
  (c.st = .running → c.w1 + c.r0 + c.rb + c.r3 + c.re + c.rp + c.rk = 1 ∧ c.rk = 0 ∧ c.k2 = 0 ∧
      c.fE + c.fP + c.fK + c.terms = 0 ∧ c.k1 = 0) ∧
  (c.st = .wait → c.rb = 1 ∧ c.w1 + c.r0 + c.rb + c.r3 + c.re + c.rp + c.rk = 1 ∧ c.k2 = 0 ∧
      c.fE + c.fP + c.fK + c.terms = 0 ∧ c.k1 = 0) ∧
  (c.st = .zombee →
      (c.w1 + c.r0 + c.rb + c.r3 + c.re + c.rp + c.rk + c.k2 = 1 ∧ c.fE + c.fP + c.fK + c.terms = 0 ∧ c.k1 = 0) ∨
      (c.w1 + c.r0 + c.rb + c.r3 + c.re + c.rp + c.rk + c.k2 = 0 ∧ c.fE + c.fP + c.fK + c.terms = 1 ∧ c.k1 ≥ 1)) ∧
  (c.st = .terminated → c.w1 + c.r0 + c.rb + c.r3 + c.re + c.rp + c.rk + c.k2 = 0 ∧ c.fE + c.fP + c.fK + c.terms = 1)

theorem inv_init : Inv init := by
  unfold Inv init; simp

set_option maxRecDepth 8000 in
set_option maxHeartbeats 1600000 in
theorem step_inv (c c' : Cfg) (l : Lbl) (h : Inv c) (hs : step true c l = some c') : Inv c' := by
  unfold Inv at *
  obtain ⟨st, i0, i1, s0, s1, s2, w0, w1, r0, rb, r3, r4, r5, re, rp, rk, k0, k1, k2, fE, fP, fK, tm,
    mail, handled, accepted, refused, terms, why, sawErr, sawPanic, sawKill, initFailed⟩ := c
  cases l <;> cases st <;> simp only [step, alive, reduceCtorEq, ↓reduceIte] at hs <;>
    (repeat' split at hs) <;>
    (first | (cases hs) | skip) <;> simp at h ⊢ <;> omega

end ErgoVerif.Proc

/-
Reachable scheduler states: histories of API calls and timer ticks from createCron.
-/
import ErgoVerif.Lemmas.CronWindow
import ErgoVerif.Lemmas.CronParse
import ErgoVerif.Lemmas.CronSpec
namespace ErgoVerif.CronSched
open ErgoVerif.Cron

variable (civil : CivilFn)

/-- states reachable from createCron by AddJob / RemoveJob / EnableJob / DisableJob calls and runs of the
    timer function at arbitrary wall-clock minutes -/
inductive Reach : Sched → Prop
  | init (next : Int) : Reach (init next)
  | step (s : Sched) (op : Op) : Reach s → op.isApi = true → Reach (step civil s op).1

theorem reach_inv {s : Sched} (h : Reach civil s) : Inv civil s := by
  induction h with
  | init next => exact inv_init civil next
  | step s op _ hop ih => exact inv_step civil s ih op hop

/-- every present job carries an AST of the grammar (AddJob refuses anything else) -/
def SpecsValid (s : Sched) : Prop := ∀ p ∈ s.jobs, (s.objs p).spec.valid = true

theorem specsValid_step (s : Sched) (hv : SpecsValid s) (hlt : ∀ p ∈ s.jobs, p < s.nobjs) (op : Op) :
    SpecsValid (step civil s op).1 := by
  cases op with
  | sched n =>
    simp only [step]
    obtain ⟨h1, _, h3, _, _⟩ := schedule_proj civil s n
    intro p hp; rw [h3] at hp; rw [h1]; exact hv p hp
  | drain => exact hv
  | tick now =>
    simp only [step]
    obtain ⟨h1, _, h3, _, _⟩ := schedule_proj civil { s with spool := [] } (now + 1)
    intro p hp; rw [h3] at hp; rw [h1]; exact hv p hp
  | disable name =>
    simp only [step]
    cases findJob s name with
    | none => exact hv
    | some q => intro p hp; simp only [setDisable_spec]; exact hv p hp
  | remove name =>
    simp only [step]
    cases findJob s name with
    | none => exact hv
    | some q => intro p hp; simp only [setDisable_spec]; exact hv p (List.mem_filter.mp hp).1
  | enable name =>
    simp only [step]
    cases findJob s name with
    | none => exact hv
    | some q =>
      obtain ⟨h1, _, h3, _, _⟩ := scheduleJob_proj civil { s with objs := setDisable s.objs q false } q
      intro p hp; rw [h3] at hp; rw [h1]; simp only [setDisable_spec]; exact hv p hp
  | add name text loc =>
    simp only [step]
    by_cases hn : name = 0
    · simp only [hn, if_true]; exact hv
    · simp only [hn, if_false]
      cases hpz : parseSpec text with
      | none => exact hv
      | some spec =>
        cases findJob s name with
        | some _ => exact hv
        | none =>
          simp only
          obtain ⟨h1, _, h3, _, _⟩ := scheduleJob_proj civil
            { s with objs := fun q => if q = s.nobjs then ⟨name, spec, loc, false⟩ else s.objs q,
                     nobjs := s.nobjs + 1, jobs := s.jobs ++ [s.nobjs] } s.nobjs
          intro p hp; rw [h3] at hp; rw [h1]
          rcases List.mem_append.mp hp with hp | hp
          · have : p ≠ s.nobjs := Nat.ne_of_lt (hlt p hp)
            simp only [this, if_false]; exact hv p hp
          · simp at hp; subst hp
            simp only [if_true]; exact parseSpec_valid hpz

theorem reach_specsValid {s : Sched} (h : Reach civil s) : SpecsValid s := by
  induction h with
  | init next => intro p hp; simp [init] at hp
  | step s op hr _ ih => exact specsValid_step civil s ih (reach_inv civil hr).jobs_lt op

/-- on a present job of a reachable state the mask matcher is the denotation -/
theorem runsAt_eq_denote {s : Sched} (h : Reach civil s) (hciv : ∀ loc m, (civil loc m).wf) (p : Nat) (hp : p ∈ s.jobs)
    (m : Int) : runsAt civil (s.objs p) m = (s.objs p).spec.denote (civil (s.objs p).loc m) := by
  unfold runsAt
  exact specIsRunAt_eq_denote _ (reach_specsValid civil h p hp) _ (hciv _ _)

end ErgoVerif.CronSched

package main

import (
	"fmt"
	"strings"
	"time"

	"ergo.services/ergo/act"
)

// C09 — restart intensity. K1: the real supCheckRestartIntensity (through the verif export)
// against Window.check, on stored histories placed around the window boundary; K2: whole
// failure histories in virtual time (the stored list is shifted to the real clock before each
// call; the timestamp actually used is read back from the returned list) against the
// specification `runSpec` (model) and an independent counting oracle (harness).

func init() { props["C09"] = runC09 }

type c09Case struct {
	K      int     `json:"intensity"`
	Period int     `json:"period_s"`
	Hist   []int64 `json:"history_ms_before_now"`
}

func runC09(c *Ctx) {
	r := c.R
	r.Rule = "K1: (intensity 1..8|big, period 1..10 s, stored history of 0..12 entries placed at offsets around now-period±{0,1,2} ms and random) " +
		"-> compare returned list and verdict with Window.check at the timestamp the code used; non-trivial = history longer than intensity (pruning branch entered); " +
		"K2: virtual-time failure histories (bursts/drips around the period) -> verdict sequence vs runSpec and a counting oracle; distinct by (k,period,offsets)"
	n := c.N(4000, 200000)
	var lines []string
	type obs struct {
		cs   c09Case
		now  int64
		out  []int64
		exc  bool
		line string
	}
	var all []obs
	for i := 0; i < n; i++ {
		k := 1 + c.Rng.Intn(8)
		if c.Rng.Chance(1, 20) {
			k = 100 + c.Rng.Intn(1000)
		}
		period := 1 + c.Rng.Intn(10)
		pm := int64(period) * 1000
		hl := c.Rng.Intn(13)
		if c.Rng.Chance(1, 4) {
			hl = k + c.Rng.Intn(3) // right at the early-return boundary: len(r) = k, k+1, k+2 after append
			if hl > 0 && c.Rng.Bool() {
				hl--
			}
		}
		offs := make([]int64, hl)
		// offsets (ms before now), then sorted descending so that the stored list is ascending in time
		for j := range offs {
			switch c.Rng.Intn(4) {
			case 0:
				offs[j] = pm + int64(c.Rng.Intn(5)) - 2
			case 1:
				offs[j] = int64(c.Rng.Intn(int(pm) + 1))
			case 2:
				offs[j] = pm + int64(c.Rng.Intn(3000))
			default:
				offs[j] = int64(c.Rng.Intn(int(2*pm) + 1))
			}
			if offs[j] < 0 {
				offs[j] = 0
			}
		}
		for a := 0; a < len(offs); a++ {
			for b := a + 1; b < len(offs); b++ {
				if offs[b] > offs[a] {
					offs[a], offs[b] = offs[b], offs[a]
				}
			}
		}
		base := time.Now().UnixMilli()
		hist := make([]int64, hl)
		for j := range offs {
			hist[j] = base - offs[j]
		}
		in := append([]int64(nil), hist...)
		out, exc := act.VerifCheckRestartIntensity(in, period, k)
		if len(out) == 0 {
			r.Violation("C09/empty-result", "supCheckRestartIntensity returned an empty list (the current failure must be retained)", c09Case{k, period, offs})
			continue
		}
		now := out[len(out)-1]
		line := fmt.Sprintf("check %d %d %d %s", k, pm, now, dashList(hist))
		lines = append(lines, line)
		all = append(all, obs{c09Case{k, period, offs}, now, out, exc, line})
		nontriv := hl+1 > k
		r.Case(fmt.Sprintf("%d/%d/%v/%d", k, period, offs, now-base), nontriv)
		if nontriv {
			r.Count("k1.prune-branch")
		} else {
			r.Count("k1.early-return")
		}
		for _, o := range offs {
			d := (now - base) + o - pm
			if d == 0 {
				r.Count("k1.entry-exactly-at-period")
			} else if d == 1 {
				r.Count("k1.entry-1ms-older-than-period")
			} else if d == -1 {
				r.Count("k1.entry-1ms-inside-period")
			}
		}
		if exc {
			r.Count("k1.exceeded")
		}
		// independent property oracle on the implementation: count entries within the window (history + now)
		cnt := 1
		for _, t := range hist {
			if now-t <= pm {
				cnt++
			}
		}
		want := cnt > k
		if exc != want {
			r.Violation("C09/verdict", fmt.Sprintf("intensity=%d period=%ds: %d failures within the period (incl. this one) but exceeded=%v", k, period, cnt, exc),
				map[string]interface{}{"case": c09Case{k, period, offs}, "now_minus_base_ms": now - base})
		}
		if i < 3 {
			r.Sample(map[string]interface{}{"kind": "K1", "line": line, "impl": fmt.Sprintf("%s %v", dashList(out), exc)})
		}
	}
	outs, err := ModelParallel("window", lines, 8)
	if err != nil {
		r.Disagree("window.driver", err.Error(), nil)
		return
	}
	for i, o := range all {
		want := fmt.Sprintf("%s %d", dashList(o.out), b2i(o.exc))
		if outs[i] != want {
			r.Disagree("K1 Window.check ~ supCheckRestartIntensity", fmt.Sprintf("line %q: model %q, implementation %q", o.line, outs[i], want),
				map[string]interface{}{"case": o.cs, "line": o.line})
			break
		}
	}

	// ---- K2: whole histories in virtual time -------------------------------------
	nh := c.N(300, 20000)
	var specLines []string
	var implVerd []string
	var hcases []map[string]interface{}
	for i := 0; i < nh; i++ {
		k := 1 + c.Rng.Intn(5)
		period := 1 + c.Rng.Intn(4)
		pm := int64(period) * 1000
		steps := 2 + c.Rng.Intn(14)
		var st []int64 // retained list, virtual time
		var virt []int64
		var verd []string
		vt := int64(1000000)
		stop := false
		for s := 0; s < steps && !stop; s++ {
			// next virtual failure time
			switch c.Rng.Intn(5) {
			case 0:
				vt += 0
			case 1:
				vt += int64(c.Rng.Intn(50))
			case 2:
				vt += pm/int64(k+1) + int64(c.Rng.Intn(3)) - 1
			case 3:
				vt += pm + int64(c.Rng.Intn(5)) - 2
			default:
				vt += int64(c.Rng.Intn(int(pm)))
			}
			// if an earlier entry should sit exactly on the window boundary, aim for it
			if len(virt) > 0 && c.Rng.Chance(1, 3) {
				tgt := virt[c.Rng.Intn(len(virt))] + pm + int64(c.Rng.Intn(3)) - 1
				if tgt >= vt {
					vt = tgt
				}
			}
			realNow := time.Now().UnixMilli()
			delta := realNow - vt
			in := make([]int64, len(st))
			for j, t := range st {
				in[j] = t + delta
			}
			out, exc := act.VerifCheckRestartIntensity(in, period, k)
			if len(out) == 0 {
				break
			}
			used := out[len(out)-1] - delta // virtual time actually used (vt or vt+1)
			vt = used
			virt = append(virt, used)
			st = st[:0]
			for _, t := range out {
				st = append(st, t-delta)
			}
			verd = append(verd, fmt.Sprint(b2i(exc)))
			// counting oracle over the full history
			cnt := 0
			for _, t := range virt {
				if used-t <= pm {
					cnt++
				}
			}
			if exc != (cnt > k) {
				r.Violation("C09/history-verdict", fmt.Sprintf("intensity=%d period=%ds history=%v: %d failures in the window at the last one but exceeded=%v", k, period, virt, cnt, exc),
					map[string]interface{}{"intensity": k, "period": period, "virtual_history_ms": append([]int64(nil), virt...)})
				stop = true
			}
			if exc {
				r.Count("k2.gave-up")
				stop = true // the supervisor terminates here
			}
		}
		specLines = append(specLines, fmt.Sprintf("spec %d %d %s", k, pm, dashList(virt)))
		implVerd = append(implVerd, strings.Join(verd, " "))
		hc := map[string]interface{}{"kind": "K2", "intensity": k, "period_s": period, "virtual_history_ms": virt, "verdicts": strings.Join(verd, "")}
		hcases = append(hcases, hc)
		r.Case(fmt.Sprintf("h/%d/%d/%v", k, period, virt), len(virt) > k)
		if i < 3 {
			r.Sample(hc)
		}
	}
	outs, err = ModelParallel("window", specLines, 8)
	if err != nil {
		r.Disagree("window.driver", err.Error(), nil)
		return
	}
	for i := range specLines {
		if outs[i] != implVerd[i] {
			r.Disagree("K2 runSpec ~ supCheckRestartIntensity over a history", fmt.Sprintf("%q: spec %q, implementation %q", specLines[i], outs[i], implVerd[i]), hcases[i])
			break
		}
	}
	// ---- supervisor half: the three real state machines give up exactly per the window rule (c08sim.go) ----
	supGiveUp(c)
	// ---- the options the machines get: defaults for zero Intensity / Period, on a real node ----
	c09defaults(c)
}

func dashList(xs []int64) string {
	if len(xs) == 0 {
		return "-"
	}
	return joinInts(xs)
}

func b2i(b bool) int {
	if b {
		return 1
	}
	return 0
}

module verifharness

go 1.20

require ergo.services/ergo v0.0.0

replace ergo.services/ergo => /repo

import ErgoVerif.Common
/-
Model of the process state-word protocol (node/process.go `run`, `waitResponse`;
node/node.go `Kill`, `spawn`; node/core.go local send sites; lib/mpsc.go `Push`).

Counting abstraction: the configuration records the state word, the number of threads at every
program point (exact for an unbounded number of anonymous senders / killers), and message
counters. Every label is one atomic operation of the Go code (a CAS / swap / load / store /
pointer swap); program points are named after the yield hooks (`lib.VerifPoint`) that precede
them, which is what the controlled-schedule harness (K3) replays.

`kz` = the `Kill` switch has a `case Zombee: return` (regenerated from the source by extract/,
`Generated/States.lean`); with `kz = false` the model is the code before the D7 repair.
-/
namespace ErgoVerif.Proc

inductive St | init | sleep | running | wait | terminated | zombee
deriving DecidableEq, Repr, Inhabited

/-- reason classes handed to ProcessTerminate -/
inductive Why | err | panic | kill
deriving DecidableEq, Repr

structure Cfg where
  st : St
  -- spawner
  i0 : Nat   -- inside ProcessInit (a callback), state word = init
  i1 : Nat   -- ProcessInit returned nil, before "spawn:storeSleep"
  -- senders
  s0 : Nat   -- before the alive check ("send:alive")
  s1 : Nat   -- before Push ("send:push")
  s2 : Nat   -- inside Push between the head swap and the next-pointer store ("mpsc:link")
  -- wakers: threads inside run()
  w0 : Nat   -- before CAS sleep→running ("run:cas")
  w1 : Nat   -- CAS succeeded, before `go` ("run:go")
  -- runner goroutine
  r0 : Nat   -- "runner:start"
  rb : Nat   -- inside ProcessRun: callbacks execute here
  r3 : Nat   -- ProcessRun returned nil, before CAS running→sleep ("runner:casSleep")
  r4 : Nat   -- after CAS to sleep, before the mailbox re-check ("runner:recheck")
  r5 : Nat   -- saw pending mail, before CAS sleep→running ("runner:casRun")
  re : Nat   -- ProcessRun returned an error, before swap→terminated ("runner:swapTermErr")
  rp : Nat   -- panicked, before swap→terminated ("runner:swapTermPanic")
  rk : Nat   -- CAS to sleep failed (killed), before swap→terminated ("runner:swapTermKill")
  -- killers
  k0 : Nat   -- before swap→zombee ("kill:swapZ")
  k1 : Nat   -- saw terminated, before store terminated ("kill:store")
  k2 : Nat   -- saw sleep/init (or zombee when ¬kz), before swap→terminated ("kill:swapT")
  -- finalisers: won the swap to terminated, run unregisterProcess then ProcessTerminate
  fE : Nat   -- runner, handler error
  fP : Nat   -- runner, panic
  fK : Nat   -- runner or killer('s goroutine), kill
  tm : Nat   -- inside ProcessTerminate (a callback)
  -- messages
  mail : Nat      -- pushed (head swapped) and not yet popped
  handled : Nat
  accepted : Nat
  refused : Nat
  -- history
  terms : Nat     -- how many times ProcessTerminate was entered
  why : Option Why
  sawErr : Bool
  sawPanic : Bool
  sawKill : Bool
  initFailed : Bool
deriving Repr

inductive Lbl
  | initOk | initFail | storeSleep
  | newSender | aliveChk | skipAlive | push | pushFull | link
  | runCas | runGo
  | start | pop | retNil | retErr | panic | waitEnter | waitExit
  | casSleep | recheckEmpty | recheckSome | casRun
  | swapErr | swapPanic | swapKill
  | newKiller | kSwapZ | kStore | kSwapT
  | termEnterE | termEnterP | termEnterK | termDone
deriving DecidableEq, Repr

def init : Cfg :=
  { st := .init, i0 := 1, i1 := 0, s0 := 0, s1 := 0, s2 := 0, w0 := 0, w1 := 0, r0 := 0, rb := 0, r3 := 0,
    r4 := 0, r5 := 0, re := 0, rp := 0, rk := 0, k0 := 0, k1 := 0, k2 := 0, fE := 0, fP := 0, fK := 0, tm := 0,
    mail := 0, handled := 0, accepted := 0, refused := 0, terms := 0, why := none,
    sawErr := false, sawPanic := false, sawKill := false, initFailed := false }

def alive (s : St) : Bool :=
  match s with
  | .init | .sleep | .running | .wait => true
  | _ => false

/-- swap the state word to `terminated`; the thread becomes a finaliser iff the old value was not `terminated` -/
def step (kz : Bool) (c : Cfg) : Lbl → Option Cfg
  -- spawn: ProcessInit runs in the spawner's goroutine with the word = init
  | .initOk => if c.i0 = 0 then none else some { c with i0 := c.i0 - 1, i1 := c.i1 + 1 }
  | .initFail => if c.i0 = 0 then none else some { c with i0 := c.i0 - 1, initFailed := true }
  | .storeSleep => if c.i1 = 0 then none else some { c with i1 := c.i1 - 1, st := .sleep, w0 := c.w0 + 1 }
  -- senders (any Route*/send*Message/Forward/self-send)
  | .newSender => some { c with s0 := c.s0 + 1 }
  | .aliveChk => if c.s0 = 0 then none else
      if alive c.st then some { c with s0 := c.s0 - 1, s1 := c.s1 + 1 }
      else some { c with s0 := c.s0 - 1, refused := c.refused + 1 }
  | .skipAlive => if c.s0 = 0 then none else some { c with s0 := c.s0 - 1, s1 := c.s1 + 1 }   -- exit / event sends
  | .push => if c.s1 = 0 then none else
      some { c with s1 := c.s1 - 1, s2 := c.s2 + 1, mail := c.mail + 1, accepted := c.accepted + 1 }
  | .pushFull => if c.s1 = 0 then none else some { c with s1 := c.s1 - 1, refused := c.refused + 1 }
  | .link => if c.s2 = 0 then none else some { c with s2 := c.s2 - 1, w0 := c.w0 + 1 }
  -- run()
  | .runCas => if c.w0 = 0 then none else
      if c.st = .sleep then some { c with w0 := c.w0 - 1, st := .running, w1 := c.w1 + 1 }
      else some { c with w0 := c.w0 - 1 }
  | .runGo => if c.w1 = 0 then none else some { c with w1 := c.w1 - 1, r0 := c.r0 + 1 }
  -- runner goroutine
  | .start => if c.r0 = 0 then none else some { c with r0 := c.r0 - 1, rb := c.rb + 1 }
  -- while the word is `wait` the runner is blocked inside waitResponse: only `waitExit` can follow
  | .pop => if c.rb = 0 then none else if c.st = .wait then none else if c.mail ≤ c.s2 then none else   -- something must be visible
      some { c with mail := c.mail - 1, handled := c.handled + 1 }
  | .retNil => if c.rb = 0 then none else if c.st = .wait then none else
      -- the mailbox looked empty: nothing pushed, or pushes still unlinked (over-approximation)
      if c.s2 = 0 then (if c.mail = 0 then some { c with rb := c.rb - 1, r3 := c.r3 + 1 } else none)
      else some { c with rb := c.rb - 1, r3 := c.r3 + 1 }
  | .retErr => if c.rb = 0 then none else if c.st = .wait then none else some { c with rb := c.rb - 1, re := c.re + 1, sawErr := true }
  | .panic => if c.rb = 0 then none else if c.st = .wait then none else some { c with rb := c.rb - 1, rp := c.rp + 1, sawPanic := true }
  | .waitEnter => if c.rb = 0 then none else
      if c.st = .running then some { c with st := .wait } else some c
  | .waitExit => if c.rb = 0 then none else
      if c.st = .wait then some { c with st := .running } else some c
  | .casSleep => if c.r3 = 0 then none else
      if c.st = .running then some { c with r3 := c.r3 - 1, st := .sleep, r4 := c.r4 + 1 }
      else some { c with r3 := c.r3 - 1, rk := c.rk + 1 }
  -- the re-check sees the linked prefix only: with unlinked pushes (s2 > 0) it may see an empty mailbox although
  -- messages are queued behind an unlinked one; it can see a message only if more are queued than unlinked
  | .recheckEmpty => if c.r4 = 0 then none else
      if c.s2 = 0 then (if c.mail = 0 then some { c with r4 := c.r4 - 1 } else none)
      else some { c with r4 := c.r4 - 1 }
  | .recheckSome => if c.r4 = 0 then none else
      if c.mail ≤ c.s2 then none else some { c with r4 := c.r4 - 1, r5 := c.r5 + 1 }
  | .casRun => if c.r5 = 0 then none else
      if c.st = .sleep then some { c with r5 := c.r5 - 1, st := .running, rb := c.rb + 1 }
      else some { c with r5 := c.r5 - 1 }
  | .swapErr => if c.re = 0 then none else
      if c.st = .terminated then some { c with re := c.re - 1 }
      else some { c with re := c.re - 1, st := .terminated, fE := c.fE + 1 }
  | .swapPanic => if c.rp = 0 then none else
      if c.st = .terminated then some { c with rp := c.rp - 1 }
      else some { c with rp := c.rp - 1, st := .terminated, fP := c.fP + 1 }
  | .swapKill => if c.rk = 0 then none else
      if c.st = .terminated then some { c with rk := c.rk - 1 }
      else some { c with rk := c.rk - 1, st := .terminated, fK := c.fK + 1 }
  -- Kill
  -- Kill finds the process in the table only after spawn stored it, i.e. never while the word is `init`
  | .newKiller => if c.st = .init then none else some { c with k0 := c.k0 + 1 }
  | .kSwapZ => if c.k0 = 0 then none else
      match c.st with
      | .running | .wait => some { c with k0 := c.k0 - 1, st := .zombee, sawKill := true }
      | .terminated => some { c with k0 := c.k0 - 1, st := .zombee, k1 := c.k1 + 1, sawKill := true }
      | .zombee => if kz then some { c with k0 := c.k0 - 1, sawKill := true }
                   else some { c with k0 := c.k0 - 1, k2 := c.k2 + 1, sawKill := true }
      | _ => some { c with k0 := c.k0 - 1, st := .zombee, k2 := c.k2 + 1, sawKill := true }
  | .kStore => if c.k1 = 0 then none else some { c with k1 := c.k1 - 1, st := .terminated }
  | .kSwapT => if c.k2 = 0 then none else
      if c.st = .terminated then some { c with k2 := c.k2 - 1 }
      else some { c with k2 := c.k2 - 1, st := .terminated, fK := c.fK + 1 }
  -- finalisers enter ProcessTerminate (after unregisterProcess)
  | .termEnterE => if c.fE = 0 then none else
      some { c with fE := c.fE - 1, tm := c.tm + 1, terms := c.terms + 1, why := some .err }
  | .termEnterP => if c.fP = 0 then none else
      some { c with fP := c.fP - 1, tm := c.tm + 1, terms := c.terms + 1, why := some .panic }
  | .termEnterK => if c.fK = 0 then none else
      some { c with fK := c.fK - 1, tm := c.tm + 1, terms := c.terms + 1, why := some .kill }
  | .termDone => if c.tm = 0 then none else some { c with tm := c.tm - 1 }

/-- threads currently executing a callback of the process (init, message handling, terminate) -/
def Cfg.inCallbacks (c : Cfg) : Nat := c.i0 + c.rb + c.tm

/-- no thread of the protocol can take a step (only new senders / killers could arrive) -/
def Cfg.quiescent (c : Cfg) : Prop :=
  c.i0 = 0 ∧ c.i1 = 0 ∧ c.s0 = 0 ∧ c.s1 = 0 ∧ c.s2 = 0 ∧ c.w0 = 0 ∧ c.w1 = 0 ∧ c.r0 = 0 ∧ c.rb = 0 ∧ c.r3 = 0 ∧
  c.r4 = 0 ∧ c.r5 = 0 ∧ c.re = 0 ∧ c.rp = 0 ∧ c.rk = 0 ∧ c.k0 = 0 ∧ c.k1 = 0 ∧ c.k2 = 0 ∧
  c.fE = 0 ∧ c.fP = 0 ∧ c.fK = 0 ∧ c.tm = 0

instance (c : Cfg) : Decidable c.quiescent := by unfold Cfg.quiescent; infer_instance

def Reach (kz : Bool) (c : Cfg) : Prop := ∃ ls, run (step kz) init ls = some c

def stCode : St → Nat
  | .init => 1 | .sleep => 2 | .running => 4 | .wait => 8 | .terminated => 16 | .zombee => 32

end ErgoVerif.Proc

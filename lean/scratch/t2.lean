import ErgoVerif.Model.SupARFO
import ErgoVerif.Model.SupSOFO
import ErgoVerif.Spec.Sup
namespace ErgoVerif.Sup
open ErgoVerif.Spec.Sup

/-- the restart step of all/rest-for-one, as a function of the state after the scan -/
def ARFO.restartStep (s : ARFO) (specI : Nat) (reason : Reason) : ARFO × Res :=
  let s := if s.rest then { s with restartI := specI } else s
  let (s, t) := ARFO.childrenForTermination s
  if t.length = 0 then
    match ARFO.childForStart s with
    | none => (s, .panic)
    | some c => ({ s with mode := 1 }, .ok { act := .start, spec := c })
  else ({ s with mode := 2 }, .ok { act := .terminateChildren, reason := some reason, terminate := t })

def ARFO.Meets (d : Decision) (k : Nat) (r : Reason) (sc : Scan) (s0 s' : ARFO) (res : Res) : Prop :=
  match d with
  | .ignore => res = .ok {} ∧ s'.mode = 0
  | .restart => (s', res) = ARFO.restartStep s0 k r
  | .giveUp =>
      res = .ok { act := .terminateChildren, terminate := sc.running, reason := some .restartsExceeded }
      ∧ s'.mode = 3 ∧ s'.shutdownReason = some .restartsExceeded ∧ s'.wait = mkSet sc.running
  | .stopAll r =>
      if sc.running.length = 0 then res = .ok { act := .terminate, reason := some r } ∧ s'.mode = 0
      else res = .ok { act := .terminateChildren, terminate := sc.running, reason := some r }
           ∧ s'.mode = 3 ∧ s'.shutdownReason = some r ∧ s'.wait = mkSet sc.running

theorem ARFO.decision (s : ARFO) (name pid : Nat) (r : Reason) (now : Int)
    (hm : s.mode = 0) (k : Nat) (c : ChildSpec)
    (hf : (scan name pid 0 s.spec).found = some (k, c)) (hen : c.disabled = false) :
    ARFO.Meets (rule false s.restart.strategy r c.significant s.autoshutdown
                (scan name pid 0 s.spec).running.length
                (Window.check s.restarts now s.restart.periodMs s.restart.intensity).2)
      k r (scan name pid 0 s.spec)
      { s with wait := sdel pid s.wait, spec := (scan name pid 0 s.spec).spec,
               restarts := (Window.check s.restarts now s.restart.periodMs s.restart.intensity).1 }
      (s.childTerminated name pid r now).1 (s.childTerminated name pid r now).2 := by
  unfold ARFO.childTerminated
  simp only [hm, hf, hen]
  cases hst : s.restart.strategy <;> cases r <;> cases hsg : c.significant <;>
    simp [ARFO.Meets, rule, needsRestart, Reason.quiet, ARFO.stopAll, ARFO.autoShutdown, ARFO.restartStep, hm] <;>
    (repeat' split) <;> simp_all
end ErgoVerif.Sup

package main

// C07 — request/response correlation. Worlds of three puppets (caller A, callee B, third party T) on one node run
// scripted histories in parallel: calls answered at once, asynchronously, late (after the caller timed out and is
// inside its next call), twice, by another process, with a reference that differs only in the high id word
// (counter moved by 2^18 through the verif export), and floods of stale replies while the caller is idle.
// Every hand-over result (nil / ErrResponseIgnored) and every call result is compared with Model/Call.lean;
// independent oracle: a returned value must carry the id of the very request it is returned for.

import (
	"fmt"
	"sort"
	"strings"
	"sync"
	"time"

	"ergo.services/ergo/gen"
	"ergo.services/ergo/node"
)

func init() { props["C07"] = runC07 }

type c07req struct {
	ID   int
	Hold bool
}
type c07resp struct {
	ID  int // the request this reply was made for
	Seq int
}

type c07held struct {
	from gen.PID
	ref  gen.Ref
}

type c07world struct {
	k       *K4
	a, b, t gen.PID
	mu      sync.Mutex
	held    map[int]c07held
	seen    map[int]int // request id -> times presented to the callee
	arrived chan int
	lines   []string
	wants   []string
	hist    []string
	seq     int
}

func (w *c07world) log(line, want string) {
	w.lines = append(w.lines, line)
	w.wants = append(w.wants, want)
}

func runC07(c *Ctx) {
	r := c.R
	r.Rule = "scripted call histories per world (3-6 calls): immediate / asynchronous / late / duplicate / third-party / high-word-only-different / flooding replies, ≤2 timeouts per world (1 s each), " +
		"worlds run in parallel; every SendResponse result and every Call result vs Model/Call (driver \"call\"); non-trivial = at least one stale or foreign reply was delivered while a different call was waiting; distinct by script"
	k, err := NewK4("c07n")
	if err != nil {
		r.Disagree("c07.node", err.Error(), nil)
		return
	}
	defer k.Stop()
	c07pool(c, k)
	rounds := c.N(3, 60)
	perRound := 12
	for round := 0; round < rounds; round++ {
		var wg sync.WaitGroup
		worlds := make([]*c07world, perRound)
		scripts := make([][]c07call, perRound)
		for i := range worlds {
			scripts[i] = genC07Script(c.Rng.Fork(), round == 0 && i < 3)
		}
		// the "wrap" worlds move the node-wide reference counter: run them alone first
		for i := range worlds {
			w := &c07world{k: k, held: map[int]c07held{}, seen: map[int]int{}, arrived: make(chan int, 64)}
			worlds[i] = w
			w.setup()
		}
		for i := range worlds {
			if scriptHasWrap(scripts[i]) {
				worlds[i].run(scripts[i], r)
			}
		}
		for i := range worlds {
			if scriptHasWrap(scripts[i]) {
				continue
			}
			wg.Add(1)
			go func(i int) {
				defer wg.Done()
				worlds[i].run(scripts[i], r)
			}(i)
		}
		wg.Wait()
		for i, w := range worlds {
			lines := append([]string{"reset"}, w.lines...)
			outs, err := Model("call", lines)
			if err != nil {
				r.Disagree("call.driver", err.Error(), nil)
				return
			}
			nontriv := false
			for _, h := range w.hist {
				if strings.Contains(h, "stale") || strings.Contains(h, "foreign") || strings.Contains(h, "wrap") {
					nontriv = true
				}
			}
			r.Case(strings.Join(w.hist, ";"), nontriv)
			for j := range w.lines {
				if strings.TrimSpace(outs[j+1]) != strings.TrimSpace(w.wants[j]) {
					r.Disagree("K4 Model.Call ~ Call/waitResponse/RouteSendResponse", fmt.Sprintf("op %d %q: model %q, implementation %q", j, w.lines[j], outs[j+1], w.wants[j]),
						map[string]interface{}{"history": w.hist, "ops": w.lines, "impl": w.wants})
					break
				}
			}
			if round == 0 && i < 2 {
				r.Sample(map[string]interface{}{"history": w.hist, "ops": w.lines, "impl": w.wants})
			}
			for _, p := range []gen.PID{w.a, w.b, w.t} {
				k.Node.Kill(p)
			}
		}
		k.resetPuppets()
	}
}

// distances probed for a repeating reference (bit-field boundaries of MakeRef)
var c07probe = []uint64{1 << 16, 1 << 17, 1 << 19, 1 << 20, 1 << 28, 1 << 32, 1 << 36, 1 << 45, 1 << 46, 1 << 47}

type c07call struct {
	id       int
	hold     bool
	during   []string // actions while the call waits: "stale:<j>" "dup:<j>" "foreign" "third:<i>" (resolves) "match" (resolves)
	resolve  string   // "now" | "match" | "third" | "none" (timeout)
	after    []string // deliveries while the caller is idle: "stale:<j>" "flood"
	wrapFrom int      // >0: this call's reference equals the low word of call wrapFrom's reference (counter moved by 2^18)
}

func scriptHasWrap(s []c07call) bool {
	for _, c := range s {
		if c.wrapFrom > 0 {
			return true
		}
	}
	return false
}

func genC07Script(rng *Rng, forceWrap bool) []c07call {
	m := 3 + rng.Intn(4)
	timeouts := 0
	var heldOpen []int // held requests that were never answered (can be answered late)
	var sc []c07call
	for i := 1; i <= m; i++ {
		cl := c07call{id: i}
		x := rng.Intn(100)
		switch {
		case x < 25:
			cl.resolve = "now"
		case x < 60:
			cl.hold, cl.resolve = true, "match"
		case x < 75:
			cl.hold, cl.resolve = true, "third"
		default:
			if timeouts < 2 {
				cl.hold, cl.resolve = true, "none"
				timeouts++
			} else {
				cl.resolve = "now"
			}
		}
		if cl.hold {
			for _, j := range heldOpen {
				if rng.Chance(2, 3) {
					cl.during = append(cl.during, fmt.Sprintf("stale:%d", j))
				}
			}
			if rng.Chance(1, 4) {
				cl.during = append(cl.during, "foreign")
			}
		}
		if cl.resolve == "none" {
			heldOpen = append(heldOpen, i)
		}
		if rng.Chance(1, 3) && len(heldOpen) > 0 {
			cl.after = append(cl.after, fmt.Sprintf("stale:%d", heldOpen[rng.Intn(len(heldOpen))]))
		}
		if (cl.resolve == "match" || cl.resolve == "third") && rng.Chance(1, 3) {
			cl.after = append(cl.after, fmt.Sprintf("stale:%d", i)) // duplicate of an answered request
		}
		if rng.Chance(1, 10) {
			cl.after = append(cl.after, "flood")
		}
		sc = append(sc, cl)
	}
	// a call right after a flood is a held one: the callee answers only after the caller has dropped the flood from its
	// response channel (an immediate answer could find the channel still full and be dropped: a legitimate timeout,
	// but one that depends on scheduling)
	for i := 1; i < len(sc); i++ {
		flooded := false
		for _, a := range sc[i-1].after {
			flooded = flooded || a == "flood"
		}
		if flooded && sc[i].resolve == "now" {
			sc[i].hold, sc[i].resolve = true, "match"
		}
	}
	if forceWrap || rng.Chance(1, 6) {
		// call 1 is left unanswered (timeout), a later held call gets the same low id word; the late reply to call 1 arrives then
		sc[0] = c07call{id: 1, hold: true, resolve: "none"}
		sc[1] = c07call{id: 2, hold: true, resolve: "match", during: []string{"stale:1"}, wrapFrom: 1}
	}
	return sc
}

// c07pool: requests made through a pool (act.Pool forwards the request object) while workers die: every request is
// presented to exactly one callee and the caller gets the reply made for that request.
func c07pool(c *Ctx, k *K4) {
	r := c.R
	rounds := c.N(6, 120)
	for it := 0; it < rounds; it++ {
		w := &c19world{workers: map[int]*c19worker{}, taken: map[int][]int{}, presented: map[int]int{}, size: int64(2 + c.Rng.Intn(3))}
		ppid, err := k.Node.Spawn(func() gen.ProcessBehavior { return &c19pool{w: w} }, gen.ProcessOptions{})
		if err != nil {
			return
		}
		_, caller, _ := k.Spawn("poolcaller", false, gen.ProcessOptions{}, "")
		var hist []string
		for j := 0; j < 12; j++ {
			if c.Rng.Chance(1, 3) {
				// a worker dies outside RemoveWorkers (it stays in the pool's ring until the next dispatch finds it)
				w.mu.Lock()
				var ids []int
				for id := range w.workers {
					ids = append(ids, id)
				}
				w.mu.Unlock()
				if len(ids) > 0 {
					sort.Ints(ids)
					id := ids[c.Rng.Intn(len(ids))]
					w.mu.Lock()
					wk := w.workers[id]
					delete(w.workers, id)
					w.mu.Unlock()
					<-wk.ready
					k.Node.Kill(wk.pid)
					waitUntilGone(k, wk.pid)
					hist = append(hist, fmt.Sprintf("kill worker %d", id))
				}
			}
			id := it*1000 + j
			var v any
			var e error
			k.Exec(caller, func(p *Puppet) { v, e = p.CallWithTimeout(ppid, c19req{id}, 2) })
			rp, ok := v.(c19resp)
			hist = append(hist, fmt.Sprintf("call %d -> %v %v", id, v, e))
			if e == nil && (!ok || rp.ID != id) {
				r.Violation("C07/pool-foreign-reply", fmt.Sprintf("call for request %d through a pool returned %#v", id, v), map[string]interface{}{"history": hist})
			}
			r.Case(fmt.Sprintf("poolcall/%d", id), j > 0)
		}
		time.Sleep(2 * time.Millisecond)
		w.mu.Lock()
		for id, n := range w.presented {
			if n != 1 {
				r.Violation("C07/request-presented-twice", fmt.Sprintf("request %d was presented to %d callees of a pool", id, n), map[string]interface{}{"history": hist})
			}
		}
		for _, wk := range w.workers {
			k.Node.Kill(wk.pid)
		}
		w.mu.Unlock()
		k.Node.Kill(ppid)
		k.Node.Kill(caller)
	}
	k.resetPuppets()
}

type c07err struct{ ID, Seq int }

func (e c07err) Error() string { return fmt.Sprintf("c07err %d/%d", e.ID, e.Seq) }

func (w *c07world) setup() {
	k := w.k
	var pb *Puppet
	_, w.a, _ = k.Spawn("A", false, gen.ProcessOptions{}, "")
	pb, w.b, _ = k.Spawn("B", false, gen.ProcessOptions{}, "")
	_, w.t, _ = k.Spawn("T", false, gen.ProcessOptions{}, "")
	pb.calls = func(p *Puppet, from gen.PID, ref gen.Ref, req any) (any, error) {
		rq, ok := req.(c07req)
		if !ok {
			return nil, nil
		}
		w.mu.Lock()
		w.seen[rq.ID]++
		w.held[rq.ID] = c07held{from, ref}
		w.seq++
		sq := w.seq
		w.mu.Unlock()
		w.arrived <- rq.ID
		if rq.Hold {
			return nil, nil
		}
		return c07resp{rq.ID, sq}, nil
	}
}

// reply sends a response for request j from process `by`; returns "ok"/"ignored" and the payload seq
func (w *c07world) reply(by gen.PID, j int, foreign bool) (string, int) {
	w.mu.Lock()
	h := w.held[j]
	w.seq++
	sq := w.seq
	w.mu.Unlock()
	ref := h.ref
	to := h.from
	if foreign {
		ref = w.k.Node.MakeRef() // a reference nobody waits on
		to = w.a
	}
	var err error
	if sq%2 == 0 {
		// every other reply (matching, stale, third-party, foreign, flooding alike) is an ERROR response: it travels
		// through RouteSendResponseError and comes out of the call as its error; for the model it is a reply like any other
		w.k.Exec(by, func(p *Puppet) { err = p.SendResponseError(to, ref, c07err{j, sq}) })
	} else {
		w.k.Exec(by, func(p *Puppet) { err = p.SendResponse(to, ref, c07resp{j, sq}) })
	}
	if err == nil {
		return "ok", sq
	}
	if err == gen.ErrResponseIgnored {
		return "ignored", sq
	}
	return "err:" + err.Error(), sq
}

func (w *c07world) run(sc []c07call, r *Result) {
	k := w.k
	firstRefID := map[int]uint64{}
	if scriptHasWrap(sc) {
		// start from a counter whose bits 3..47 are zero, so that adding any probed distance carries into no other field
		cur := node.VerifUniqID(k.Node)
		node.VerifSetUniqID(k.Node, ((cur>>48)+1)<<48+7)
	}
	for _, cl := range sc {
		cl := cl
		type res struct {
			v   any
			err error
		}
		done := make(chan res, 1)
		if cl.wrapFrom > 0 {
			// place the counter so that the next reference has the same low word as call wrapFrom's reference;
			// if some other distance makes the whole reference repeat (a defect of MakeRef), use that distance instead:
			// the late reply of the earlier call then carries the reference of this one
			off := uint64(1 << 18)
			for _, d := range c07probe {
				base := firstRefID[cl.wrapFrom]
				node.VerifSetUniqID(k.Node, base-1)
				r1 := k.Node.MakeRef()
				node.VerifSetUniqID(k.Node, base+d-1)
				r2 := k.Node.MakeRef()
				if r1.ID == r2.ID {
					off = d
					w.hist = append(w.hist, fmt.Sprintf("references %d apart are equal", d))
					break
				}
			}
			node.VerifSetUniqID(k.Node, firstRefID[cl.wrapFrom]+off-1)
			w.hist = append(w.hist, fmt.Sprintf("wrap counter for call %d", cl.id))
		}
		k.ExecAsync(w.a, func(p *Puppet) {
			v, err := p.CallWithTimeout(w.b, c07req{cl.id, cl.hold}, 1)
			done <- res{v, err}
		})
		w.hist = append(w.hist, fmt.Sprintf("call %d hold=%v resolve=%s", cl.id, cl.hold, cl.resolve))
		select {
		case <-w.arrived:
		case <-time.After(3 * time.Second):
			r.Count("inconclusive:request-not-arrived")
			return
		}
		w.mu.Lock()
		_ = w.held[cl.id].ref
		w.mu.Unlock()
		// replies that piled up while the caller was idle are dropped one by one by its waitResponse loop; the model
		// takes that as done when the call is under way: wait for it (a reply arriving before would find the channel
		// full and be dropped, which the property allows — the call then times out — but the model does not follow)
		waitUntil(2*time.Second, func() bool { return node.VerifResponseBacklog(k.Node, w.a) <= 0 })
		firstRefID[cl.id] = node.VerifUniqID(k.Node) // the counter value behind this call's reference (worlds with a wrap run alone)
		var got *res
		takeResult := func(wait time.Duration) {
			select {
			case x := <-done:
				got = &x
			case <-time.After(wait):
			}
		}
		callLine := fmt.Sprintf("call %d", cl.id)
		callWant := "-"
		if cl.resolve == "now" {
			takeResult(3 * time.Second)
		}
		renderRet := func(g *res) string {
			if g == nil {
				return "-"
			}
			if g.err == gen.ErrTimeout {
				return fmt.Sprintf("ret %d timeout", cl.id)
			}
			if ce, ok := g.err.(c07err); ok {
				g = &res{v: c07resp{ce.ID, ce.Seq}}
			}
			if g.err != nil {
				return "ret-error " + g.err.Error()
			}
			rp, ok := g.v.(c07resp)
			if !ok {
				return fmt.Sprintf("ret %d value ?", cl.id)
			}
			if rp.ID != cl.id {
				r.Violation("C07/foreign-reply", fmt.Sprintf("call for request %d returned the reply made for request %d", cl.id, rp.ID),
					map[string]interface{}{"history": append([]string(nil), w.hist...)})
			}
			return fmt.Sprintf("ret %d value %d", cl.id, rp.Seq)
		}
		if cl.resolve == "now" {
			// model: the immediate reply is a delivery right after the call
			w.log(callLine, "-")
			if got != nil && got.err == nil {
				rp, _ := got.v.(c07resp)
				w.log(fmt.Sprintf("deliver %d %d", cl.id, rp.Seq), "ok "+renderRet(got))
			} else {
				w.log("deliver 0 0", "unexpected "+renderRet(got))
			}
		} else {
			w.log(callLine, callWant)
			for _, act := range cl.during {
				var j int
				switch {
				case strings.HasPrefix(act, "stale:"):
					fmt.Sscanf(act, "stale:%d", &j)
					st, sq := w.reply(w.b, j, false)
					w.hist = append(w.hist, fmt.Sprintf("stale reply for %d during call %d -> %s", j, cl.id, st))
					w.log(fmt.Sprintf("deliver %d %d", j, sq), st+" -")
				case act == "foreign":
					st, sq := w.reply(w.t, cl.id, true)
					w.hist = append(w.hist, fmt.Sprintf("foreign reply (unknown ref) during call %d -> %s", cl.id, st))
					w.log(fmt.Sprintf("deliver %d %d", 9000+cl.id, sq), st+" -")
				}
			}
			switch cl.resolve {
			case "match", "third":
				by := w.b
				if cl.resolve == "third" {
					by = w.t
				}
				st, sq := w.reply(by, cl.id, false)
				takeResult(3 * time.Second)
				w.log(fmt.Sprintf("deliver %d %d", cl.id, sq), st+" "+renderRet(got))
			case "none":
				takeResult(4 * time.Second)
				w.log("timeout", renderRet(got))
			}
		}
		if got == nil {
			r.Count("inconclusive:call-did-not-return")
			return
		}
		for _, act := range cl.after {
			var j int
			switch {
			case strings.HasPrefix(act, "stale:"):
				fmt.Sscanf(act, "stale:%d", &j)
				st, sq := w.reply(w.b, j, false)
				w.hist = append(w.hist, fmt.Sprintf("stale reply for %d while idle -> %s", j, st))
				w.log(fmt.Sprintf("deliver %d %d", j, sq), st+" -")
			case act == "flood":
				for x := 0; x < 12; x++ {
					st, sq := w.reply(w.t, cl.id, true)
					w.log(fmt.Sprintf("deliver %d %d", 9500+x, sq), st+" -")
				}
				w.hist = append(w.hist, "flood of 12 foreign replies while idle")
			}
		}
	}
	w.mu.Lock()
	for id, n := range w.seen {
		if n != 1 {
			r.Violation("C07/request-presented-twice", fmt.Sprintf("request %d was presented to the callee %d times", id, n), map[string]interface{}{"history": w.hist})
		}
	}
	w.mu.Unlock()
}

import ErgoVerif.Lemmas.Handshake
namespace ErgoVerif.Handshake
open ErgoVerif.Generated

theorem honest_eq (cI cA : Cfg) (sI sA idA : Atom) (hc : cI.cookie = cA.cookie) (hn : cI.info.name ≠ cA.info.name) :
    honest cI cA sI sA idA =
      ⟨[.hello [sA] [H [sA, H [sI, cI.cookie], cI.cookie]], .accept [idA] cA.poolSize emptyF, .intro cA.info emptyF],
       [.hello [sI] [H [sI, cI.cookie]], .intro cI.info [H [sA, cI.cookie]], .accept emptyF 0 emptyF],
       .ok (resultOf [idA] cA.info cI), .ok (resultOf [idA] cI.info cA)⟩ := by
  have hn' : ¬ cA.info.name = cI.info.name := fun h => hn h.symm
  simp [honest, deliver, round, start, accept, hc, hn, hn']

theorem honest_ne (cI cA : Cfg) (sI sA idA : Atom) (hc : cI.cookie ≠ cA.cookie) :
    (honest cI cA sI sA idA).resA = .error .digest ∧ (honest cI cA sI sA idA).resI = .error .read := by
  simp [honest, deliver, round, start, accept, hc]

end ErgoVerif.Handshake

import ErgoVerif.Common
/-
Ownership trees (act/supervisor.go handleAction: children are spawned with LinkParent/LinkChild; act/pool.go:
workers with LinkParent; node/process.go spawn 120-131, node/node.go 1729-1731 `AddLink(child, parent)` before the child
becomes visible; node/core.go RouteTerminatePID: every link holder gets an exit signal in its urgent queue;
act/actor.go 246-258: an exit signal from the parent cannot be trapped).

Processes are numbered in spawn order; `parent i` is the process that spawned i with LinkParent.
-/
namespace ErgoVerif.Tree

structure Proc where
  parent : Option Nat      -- linked parent (index), none for roots
  alive : Bool
  pendingExit : Bool       -- the parent's exit signal sits in the urgent queue / is in flight
deriving DecidableEq, Repr

abbrev Cfg := List Proc

inductive Lbl
  | spawnRoot
  | spawnChild (p : Nat)      -- process p (alive, executing a callback) spawns a child linked to it
  | die (i : Nat)             -- process i terminates for any reason (handler error, panic, kill, untrapped exit, shutdown)
  | handleExit (i : Nat)      -- process i takes its parent's exit signal out of the mailbox: it terminates
deriving Repr

def isAlive (c : Cfg) (i : Nat) : Bool := match c[i]? with | some p => p.alive | none => false

/-- termination of i: table entry removed, every process linked to i as its parent gets the exit signal -/
def kill (c : Cfg) (i : Nat) : Cfg :=
  (c.zipIdx).map fun (p, j) =>
    if j = i then { p with alive := false, pendingExit := false }
    else if p.parent = some i ∧ p.alive then { p with pendingExit := true }
    else p

def step (c : Cfg) : Lbl → Option Cfg
  | .spawnRoot => some (c ++ [⟨none, true, false⟩])
  | .spawnChild p => if isAlive c p then some (c ++ [⟨some p, true, false⟩]) else none
  | .die i => if isAlive c i then some (kill c i) else none
  | .handleExit i => match c[i]? with
    | some p => if p.alive ∧ p.pendingExit then some (kill c i) else none
    | none => none

def Reach (c : Cfg) : Prop := ∃ ls, run step [] ls = some c

/-- nobody has an unhandled exit signal from its parent -/
def quiescent (c : Cfg) : Prop := ∀ p ∈ c, p.alive = true → p.pendingExit = false

instance (c : Cfg) : Decidable (quiescent c) := by unfold quiescent; infer_instance

end ErgoVerif.Tree

import ErgoVerif.Lemmas.Proc
namespace ErgoVerif.Proc

/-- somebody will look at the mailbox: a sleeping process with mail has a thread between its push and
    its wake-up attempt, or a runner between its CAS to sleep and its re-check -/
def InvW (c : Cfg) : Prop :=
  (c.st = .sleep → c.mail > 0 → c.s2 + c.w0 + c.r4 + c.r5 ≥ 1) ∧
  (c.st = .init → c.initFailed = false → c.i0 + c.i1 = 1)

theorem invW_init : InvW init := by
  unfold InvW init; simp

set_option maxRecDepth 8000 in
set_option maxHeartbeats 1600000 in
theorem step_invW (c c' : Cfg) (l : Lbl) (h : Inv c) (hw : InvW c) (hs : step true c l = some c') : InvW c' := by
  unfold Inv InvW at *
  obtain ⟨st, i0, i1, s0, s1, s2, w0, w1, r0, rb, r3, r4, r5, re, rp, rk, k0, k1, k2, fE, fP, fK, tm,
    mail, handled, accepted, refused, terms, why, sawErr, sawPanic, sawKill, initFailed⟩ := c
  cases l <;> cases st <;> simp only [step, alive, reduceCtorEq, ↓reduceIte] at hs <;>
    (repeat' split at hs) <;>
    (first | (cases hs) | skip) <;> simp at h hw ⊢ <;> omega

end ErgoVerif.Proc

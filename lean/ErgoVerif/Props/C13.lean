import ErgoVerif.Lemmas.Link
import ErgoVerif.Generated.Order
/-!
# C13 — network FIFO between a pair of processes

`Link.step` mirrors the ordered path of a `proto` connection (sender link choice, per-link FIFO
with arbitrary relative delay, receive-queue choice, one worker per queue, pool join / link loss);
all index arithmetic is the generated translation of the Go expressions (`Gen.Arith`).

* `C13_full` — the property as stated (all ids, pool changes allowed) — is refuted by the current code:
  `C13_counterexample` (a link joins between two sends), `C13_counterexample_drop` (a link is lost),
  `C13_counterexample_redial` (a lost link is re-dialed into its slot).
* `C13_partial` — constant pool, both order bytes non-zero, the pair's sends keep order ⇒ for EVERY
  interleaving of link deliveries and queue workers the pair's messages are routed in send order
  (delivered|pair is a prefix of sent|pair; sequence numbers strictly increase).
* D13 (an id ≡ 0 mod 255 gave order byte 0 = round robin) is repaired in the repository
  (`uint8(id%255) + 1` at all 65 sites); `orderByte_ne_zero` discharges the id hypotheses, giving
  `C13_constant_pool` for ALL ids.
-/
namespace ErgoVerif.Props.C13
open ErgoVerif.Link ErgoVerif.Gen.Arith

/-- order keeping is on for every send of the trace (the default) -/
def KeepAll (tr : List Ev) : Prop := ∀ e ∈ tr, ∀ a b k, e = Ev.send a b k → k = true

/-- the property at full strength: for every pool, every number of receive queues, every trace of sends,
    link deliveries in any relative order, worker steps, joins and link losses, and every pair of ids, the
    pair's messages are handed to the receiving node's router in the order they were sent
    (messages may be lost with a lost link — that is C12's subject — but never overtake each other). -/
def C13_full : Prop :=
  ∀ (pool : List Nat) (nq : Nat) (tr : List Ev) (src dst : Nat), 0 < nq → KeepAll tr →
    ((run (init pool nq) tr).delivered.filter (pair src dst)).Sublist
      ((run (init pool nq) tr).sent.filter (pair src dst))

/-- pool change: sender 2 (order byte 3) uses link `3 % 2 = 1`; a third link joins; now `3 % 3 = 0`; the second
    frame arrives first. -/
theorem C13_counterexample : ¬ C13_full := by
  intro h
  have := h [0, 1] 8 [.send 2 1 true, .join 2, .send 2 1 true, .deliver 0, .work 2, .deliver 1, .work 2] 2 1
    (by decide) (by intro e he a b k hk; simp at he; rcases he with rfl | rfl | rfl | rfl | rfl | rfl | rfl <;> simp_all)
  revert this
  decide

/-- the same with a link LOSS instead of a join (`pool[i] = pool[0]; pool = pool[1:]` renumbers the links) -/
theorem C13_counterexample_drop :
    ¬ ((run (init [0, 1, 2] 12) [.send 1 1 true, .drop 0, .send 1 1 true, .deliver 1, .work 2, .deliver 2, .work 2]).delivered.filter (pair 1 1)).Sublist
      ((run (init [0, 1, 2] 12) [.send 1 1 true, .drop 0, .send 1 1 true, .deliver 1, .work 2, .deliver 2, .work 2]).sent.filter (pair 1 1)) := by
  decide

/-- the same when a lost link is re-dialed into its pool slot: frames still buffered on the old socket can be read by the
    peer after frames sent on the new one -/
theorem C13_counterexample_redial :
    ¬ ((run (init [0, 1] 8) [.send 1 1 true, .redial 0 2, .send 1 1 true, .deliver 2, .work 2, .deliver 0, .work 2]).delivered.filter (pair 1 1)).Sublist
      ((run (init [0, 1] 8) [.send 1 1 true, .redial 0 2, .send 1 1 true, .deliver 2, .work 2, .deliver 0, .work 2]).sent.filter (pair 1 1)) := by
  decide

/-- D13 repaired (`uint8(id%255) + 1`): the order byte derived from an id is never 0, i.e. an id can no longer
    select round robin by accident; only `KeepNetworkOrder = false` and the constant-0 control replies do -/
theorem orderByte_ne_zero (x : Nat) : orderByte x ≠ 0 := by
  simp only [orderByte, orderForm1]
  omega

theorem orderByte_range (x : Nat) : 1 ≤ orderByte x ∧ orderByte x ≤ 255 := by
  simp only [orderByte, orderForm1]
  omega

/-- ids that differ by a multiple of 255 share a byte (so 255 classes; nothing else is lost) -/
theorem orderByte_mod (x : Nat) : orderByte x = x % 255 + 1 := by
  simp only [orderByte, orderForm1]
  omega

/-- the old D13 witnesses (sender id 255, receiver id 510) are now routed in order under the same adversarial
    schedules -/
example : ((run (init [0, 1] 8) [.send 255 1 true, .send 255 1 true, .deliver 0, .deliver 1, .work 2, .deliver 0, .deliver 1, .work 2]).delivered.map (·.seq)) = [0, 1] := by
  decide
example : ((run (init [0] 4) [.send 1 510 true, .send 1 510 true, .deliver 0, .deliver 0, .work 2, .work 1, .work 1]).delivered.map (·.seq)) = [0, 1] := by
  decide

/-- **C13_partial**: constant pool, non-zero order bytes, the pair's sends keep order ⇒ in every reachable
    state, for every interleaving, what was routed for the pair is a prefix of what was sent for the pair. -/
theorem C13_partial (pool : List Nat) (nq : Nat) (tr : List Ev) (src dst : Nat)
    (hnp : ∀ e ∈ tr, e.isPoolChange = false)
    (hk : ∀ e ∈ tr, ∀ k, e = Ev.send src dst k → k = true)
    (hs : orderByte src ≠ 0) (hd : orderByte dst ≠ 0) :
    (run (init pool nq) tr).delivered.filter (pair src dst) <+:
      (run (init pool nq) tr).sent.filter (pair src dst) := by
  have h := run_inv hs hd tr (init_inv pool nq src dst) hnp hk
  rw [← h.pipe, List.append_assoc]
  exact List.prefix_append _ _

/-- the same in the form the harness oracle checks: the sequence numbers the receiver sees for the pair
    are strictly increasing -/
theorem C13_partial_seq (pool : List Nat) (nq : Nat) (tr : List Ev) (src dst : Nat)
    (hnp : ∀ e ∈ tr, e.isPoolChange = false)
    (hk : ∀ e ∈ tr, ∀ k, e = Ev.send src dst k → k = true)
    (hs : orderByte src ≠ 0) (hd : orderByte dst ≠ 0) :
    (((run (init pool nq) tr).delivered.filter (pair src dst)).map (·.seq)).Pairwise (· < ·) := by
  have hp := (C13_partial pool nq tr src dst hnp hk hs hd).sublist
  have hseq : SeqOk (run (init pool nq) tr) := run_seqOk tr (by simp [SeqOk, init])
  have h1 : (((run (init pool nq) tr).sent.filter (pair src dst)).map (·.seq)).Sublist
      (List.range (run (init pool nq) tr).sent.length) := by
    rw [← hseq]; exact List.filter_sublist.map _
  exact List.Pairwise.sublist ((hp.map _).trans h1) List.pairwise_lt_range

/-- nothing is invented or duplicated: with the hypotheses of `C13_partial`, once every link and queue is
    drained the pair's deliveries are exactly the pair's sends -/
theorem C13_partial_complete (pool : List Nat) (nq : Nat) (tr : List Ev) (src dst : Nat)
    (hnp : ∀ e ∈ tr, e.isPoolChange = false)
    (hk : ∀ e ∈ tr, ∀ k, e = Ev.send src dst k → k = true)
    (hs : orderByte src ≠ 0) (hd : orderByte dst ≠ 0)
    (hl : ∀ l, (run (init pool nq) tr).links l = []) (hq : ∀ q, (run (init pool nq) tr).queues q = []) :
    (run (init pool nq) tr).delivered.filter (pair src dst) = (run (init pool nq) tr).sent.filter (pair src dst) := by
  have h := run_inv hs hd tr (init_inv pool nq src dst) hnp hk
  rw [← h.pipe, hl, hq]; simp

/-- **constant pool, all ids**: with the repaired order byte no hypothesis on the ids is left — for every pool, every
    number of queues, every pair of ids and every interleaving without a pool change, order is kept. -/
theorem C13_constant_pool (pool : List Nat) (nq : Nat) (tr : List Ev) (src dst : Nat)
    (hnp : ∀ e ∈ tr, e.isPoolChange = false)
    (hk : ∀ e ∈ tr, ∀ k, e = Ev.send src dst k → k = true) :
    (run (init pool nq) tr).delivered.filter (pair src dst) <+:
      (run (init pool nq) tr).sent.filter (pair src dst) :=
  C13_partial pool nq tr src dst hnp hk (orderByte_ne_zero src) (orderByte_ne_zero dst)

theorem C13_constant_pool_seq (pool : List Nat) (nq : Nat) (tr : List Ev) (src dst : Nat)
    (hnp : ∀ e ∈ tr, e.isPoolChange = false)
    (hk : ∀ e ∈ tr, ∀ k, e = Ev.send src dst k → k = true) :
    (((run (init pool nq) tr).delivered.filter (pair src dst)).map (·.seq)).Pairwise (· < ·) :=
  C13_partial_seq pool nq tr src dst hnp hk (orderByte_ne_zero src) (orderByte_ne_zero dst)

/-! ### the generated tables: every site uses the one modelled expression -/

/-- all `order` / `orderPeer` definitions in connection.go are either the constant 0 (explicit round robin for
    control replies) or the single id-dependent form `orderByte` the model uses -/
theorem sites_uniform : idForms = 1 ∧ orderSites.all (fun s => decide (s.form ≤ 1)) = true := by
  decide

/-- the process-to-process data paths derive the link from the sender id and the wire byte from the receiver id
    (or, for name-addressed sends, both from the sender id) and reset both when KeepNetworkOrder is off -/
theorem data_paths_wired :
    (["SendPID", "CallPID"].all fun m =>
      wireTable.any fun w => w.method == m && w.linkOperand == "from.ID" && w.wireOperand == "to.ID" && w.keepReset) = true ∧
    (["SendAlias", "CallAlias"].all fun m =>
      wireTable.any fun w => w.method == m && w.linkOperand == "from.ID" && w.wireOperand == "to.ID[1]" && w.keepReset) = true ∧
    (["SendProcessID", "CallProcessID"].all fun m =>
      wireTable.any fun w => w.method == m && w.linkOperand == "from.ID" && w.wireOperand == "from.ID" && w.keepReset) = true := by
  decide

/-- the `keep` flag of a modelled send is the process's own KeepNetworkOrder setting: every gen.MessageOptions literal in
    node/process.go and node/meta.go takes the field from `p.keeporder` / `m.p.keeporder`, and no code path sets the
    field of an options value to anything else afterwards (so an important-delivery send, a call, a forward and a
    meta-process send are pinned to the link exactly like a plain send) -/
theorem C13_code_shape_keeporder :
    0 < ErgoVerif.Gen.Order.keepOrderFromSetting ∧ ErgoVerif.Gen.Order.keepOrderOther = [] := by
  decide

/-! ### non-vacuity -/

example : orderByte 1001 = 237 ∧ orderByte 1020 = 1 ∧ orderByte 254 = 255 := by decide
example : (run (init [0, 1, 2] 12)
    [.send 1001 1005 true, .send 1002 1005 true, .send 1001 1005 true, .deliver 0, .deliver 1, .work 1, .work 1]).delivered.length = 2 := by
  decide
example : ∀ e ∈ [Ev.send 1001 1005 true, .deliver 0, .work 1], e.isPoolChange = false := by decide

end ErgoVerif.Props.C13

import ErgoVerif.Generated.Ref
namespace ErgoVerif.Ref

theorem mask18 : (((2#64 <<< 17)) - 1#64) = BitVec.ofNat 64 (2^18 - 1) := by decide

/-- splitting a 64-bit counter into its low 18 bits and the remaining high bits loses nothing -/
theorem split18_inj (a b : BitVec 64)
    (h0 : a &&& BitVec.ofNat 64 (2^18 - 1) = b &&& BitVec.ofNat 64 (2^18 - 1)) (h1 : a >>> 18 = b >>> 18) : a = b := by
  have h0' := congrArg BitVec.toNat h0
  have h1' := congrArg BitVec.toNat h1
  simp only [BitVec.toNat_and, BitVec.toNat_ofNat, BitVec.toNat_ushiftRight] at h0' h1'
  have e : (2^18 - 1) % 2^64 = 2^18 - 1 := by decide
  rw [e, Nat.and_two_pow_sub_one_eq_mod, Nat.and_two_pow_sub_one_eq_mod] at h0'
  rw [Nat.shiftRight_eq_div_pow, Nat.shiftRight_eq_div_pow] at h1'
  apply BitVec.eq_of_toNat_eq
  omega

/-- the low word is below 2^18, the reconstruction `hi * 2^18 + lo` gives the counter back -/
theorem split18_recombine (a : BitVec 64) :
    (a &&& BitVec.ofNat 64 (2^18 - 1)).toNat < 2^18 ∧
    (a >>> 18).toNat * 2^18 + (a &&& BitVec.ofNat 64 (2^18 - 1)).toNat = a.toNat := by
  simp only [BitVec.toNat_and, BitVec.toNat_ofNat, BitVec.toNat_ushiftRight]
  have e : (2^18 - 1) % 2^64 = 2^18 - 1 := by decide
  rw [e, Nat.and_two_pow_sub_one_eq_mod, Nat.shiftRight_eq_div_pow]
  omega

end ErgoVerif.Ref

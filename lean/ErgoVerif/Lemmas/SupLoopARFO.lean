import ErgoVerif.Lemmas.SupLoopOFO
import ErgoVerif.Lemmas.SupLoopSOFO
/-
All/rest-for-one WITHOUT KeepOrder: well-formedness of the state machine, including the stopping mode
(every running child of the restart group is being waited for), is preserved by `childTerminated`; hence
`childForStart` always finds its spec and `childTerminated` never panics (the partial counterpart of D18).
-/
namespace ErgoVerif.Sup

structure ARFO.WF (m : ARFO) : Prop where
  idx : ∀ (k : Nat) (c : ChildSpec), m.spec[k]? = some c → c.i = k
  next : m.i = m.spec.length
  ko : m.keeporder = false
  rI0 : m.rest = false → m.restartI = 0
  stop : m.mode = 2 → m.restartI ≤ m.spec.length ∧
    (∀ c, c ∈ m.spec.drop m.restartI → c.disabled = false → c.pid ≠ 0 → c.pid ∈ m.wait) ∧
    (∃ c, c ∈ m.spec.drop m.restartI ∧ c.disabled = false)

def ARFO.ValidStart (m : ARFO) (a : Action) : Prop := ∃ c : ChildSpec, m.spec[a.spec.i]? = some c ∧ c.name = a.spec.name

def ARFO.GoodRes (m : ARFO) : Res → Prop
  | .ok a => a.act = .start → ARFO.ValidStart m a ∧ m.mode ≠ 2
  | .err _ => True
  | .panic => False

theorem forStart_some (l : List ChildSpec) (h0 : ∀ c, c ∈ l → c.disabled = false → c.pid = 0)
    (hex : ∃ c, c ∈ l ∧ c.disabled = false) : ∃ c, ARFO.forStart l = some c ∧ c ∈ l := by
  induction l with
  | nil => obtain ⟨c, hc, _⟩ := hex; simp at hc
  | cons a t ih =>
    simp only [ARFO.forStart]
    by_cases hd : a.disabled = true
    · simp only [hd, if_true]
      obtain ⟨c, hc, hcd⟩ := hex
      rcases List.mem_cons.mp hc with rfl | hc
      · rw [hd] at hcd; simp at hcd
      · obtain ⟨c', h1, h2⟩ := ih (fun c hc => h0 c (List.mem_cons_of_mem _ hc)) ⟨c, hc, hcd⟩
        exact ⟨c', h1, List.mem_cons_of_mem _ h2⟩
    · have hd' : a.disabled = false := by simpa using hd
      have := h0 a (by simp) hd'
      simp [hd', this]

theorem mem_drop_getElem (l : List ChildSpec) (k : Nat) (c : ChildSpec) (h : c ∈ l.drop k) : ∃ j : Nat, l[j]? = some c := by
  obtain ⟨j, hj⟩ := List.mem_iff_getElem?.mp h
  rw [List.getElem?_drop] at hj
  exact ⟨k + j, hj⟩

/-- without KeepOrder the stop list is all the stoppable children of the restart group -/
theorem forTermination_mem (s : ARFO) (hko : s.keeporder = false) (p : Nat) :
    p ∈ (ARFO.childrenForTermination s).2 ↔ ∃ c, c ∈ s.spec.drop s.restartI ∧ stoppable c = true ∧ c.pid = p := by
  unfold ARFO.childrenForTermination
  simp only
  rw [forTermination_eq, hko]
  simp only [pick, Bool.false_eq_true, if_false, List.mem_reverse, List.mem_map, List.mem_filter]
  constructor
  · rintro ⟨c, ⟨hc, hs⟩, rfl⟩; exact ⟨c, hc, hs, rfl⟩
  · rintro ⟨c, hc, hs, rfl⟩; exact ⟨c, ⟨hc, hs⟩, rfl⟩

theorem cft_fields (s : ARFO) :
    (ARFO.childrenForTermination s).1.spec = s.spec ∧ (ARFO.childrenForTermination s).1.restartI = s.restartI ∧
    (ARFO.childrenForTermination s).1.mode = s.mode ∧ (ARFO.childrenForTermination s).1.i = s.i ∧
    (ARFO.childrenForTermination s).1.keeporder = s.keeporder ∧ (ARFO.childrenForTermination s).1.rest = s.rest ∧
    (∀ p, p ∈ (ARFO.childrenForTermination s).2 → p ∈ (ARFO.childrenForTermination s).1.wait) := by
  unfold ARFO.childrenForTermination
  refine ⟨rfl, rfl, rfl, rfl, rfl, rfl, ?_⟩
  intro p hp
  simp only at hp ⊢
  rw [mem_foldl_sins]; exact Or.inr hp


section ct
variable (m : ARFO) (name pid : Nat) (h : ARFO.WF m)
include h

theorem ARFO.scan_idx (k : Nat) (c' : ChildSpec) (hc : (scan name pid 0 m.spec).spec[k]? = some c') : c'.i = k := by
  obtain ⟨c, h1, _, h3⟩ := scan_getElem name pid m.spec k c' hc
  rw [h3]; exact h.idx k c h1

/-- members of the scanned slice beyond a position, in terms of the original slice -/
theorem ARFO.scan_drop_mem (k : Nat) (c' : ChildSpec) (hc : c' ∈ (scan name pid 0 m.spec).spec.drop k) :
    ∃ c, c ∈ m.spec.drop k ∧ c' = (if hit name pid c then { c with pid := 0 } else c) := by
  rw [scan_spec_eq, ← List.map_drop, List.mem_map] at hc
  obtain ⟨c, hc1, rfl⟩ := hc
  exact ⟨c, hc1, rfl⟩

theorem ARFO.scan_drop_mem_of (k : Nat) (c : ChildSpec) (hc : c ∈ m.spec.drop k) :
    (if hit name pid c then { c with pid := 0 } else c) ∈ (scan name pid 0 m.spec).spec.drop k := by
  rw [scan_spec_eq, ← List.map_drop, List.mem_map]
  exact ⟨c, hc, rfl⟩

/-- the stopping-mode clause survives the scan and the removal of the dead pid from the wait set -/
theorem ARFO.stop_scan (hm2 : m.mode = 2) :
    m.restartI ≤ (scan name pid 0 m.spec).spec.length ∧
    (∀ c, c ∈ (scan name pid 0 m.spec).spec.drop m.restartI → c.disabled = false → c.pid ≠ 0 → c.pid ∈ sdel pid m.wait) ∧
    (∃ c, c ∈ (scan name pid 0 m.spec).spec.drop m.restartI ∧ c.disabled = false) := by
  obtain ⟨h1, h2, c0, hc0, hd0⟩ := h.stop hm2
  refine ⟨by rw [scan_length]; exact h1, ?_, ?_⟩
  · intro c' hc' hd hp
    obtain ⟨c, hc, rfl⟩ := ARFO.scan_drop_mem m name pid h m.restartI c' hc'
    cases hh : hit name pid c with
    | true => simp [hh] at hp
    | false =>
      simp only [hh, Bool.false_eq_true, if_false] at hd hp ⊢
      rw [mem_sdel]
      refine ⟨h2 c hc hd hp, ?_⟩
      simp only [hit, Bool.or_eq_false_iff, beq_eq_false_iff_ne] at hh
      exact hh.2
  · refine ⟨_, ARFO.scan_drop_mem_of m name pid h m.restartI c0 hc0, ?_⟩
    split <;> exact hd0

end ct

/-- a spec found by `childForStart` can be started -/
theorem ARFO.forStart_valid (s : ARFO) (hidx : ∀ (k : Nat) (c : ChildSpec), s.spec[k]? = some c → c.i = k)
    (hle : s.restartI ≤ s.spec.length)
    (h0 : ∀ c, c ∈ s.spec.drop s.restartI → c.disabled = false → c.pid = 0)
    (hex : ∃ c, c ∈ s.spec.drop s.restartI ∧ c.disabled = false) :
    ∃ c, ARFO.childForStart s = some c ∧ s.spec[c.i]? = some c := by
  unfold ARFO.childForStart
  rw [if_neg (by omega)]
  obtain ⟨c, hc1, hc2⟩ := forStart_some _ h0 hex
  obtain ⟨j, hj⟩ := mem_drop_getElem _ _ _ hc2
  refine ⟨c, hc1, ?_⟩
  rw [hidx j c hj]; exact hj


/-- generic constructor: a state whose slice is the scanned one (or equal in names/indices), outside the stopping mode -/
theorem ARFO.wf_not_stopping (m m' : ARFO) (h : ARFO.WF m)
    (hidx : ∀ (k : Nat) (c : ChildSpec), m'.spec[k]? = some c → c.i = k)
    (hlen : m'.spec.length = m.spec.length) (hi : m'.i = m.i) (hko : m'.keeporder = m.keeporder)
    (hrest : m'.rest = m.rest) (hrI : m'.restartI = m.restartI ∨ m'.restartI = 0) (hm2 : m'.mode ≠ 2) : ARFO.WF m' := by
  refine ⟨hidx, by rw [hi, hlen]; exact h.next, by rw [hko]; exact h.ko, ?_, fun hx => absurd hx hm2⟩
  intro hr
  rw [hrest] at hr
  rcases hrI with e | e
  · rw [e]; exact h.rI0 hr
  · exact e

theorem ARFO.stopAll_good (s : ARFO) (m : ARFO) (h : ARFO.WF m) (sc : Scan) (r : Reason)
    (hidx : ∀ (k : Nat) (c : ChildSpec), s.spec[k]? = some c → c.i = k)
    (hlen : s.spec.length = m.spec.length) (hi : s.i = m.i) (hko : s.keeporder = m.keeporder)
    (hrest : s.rest = m.rest) (hrI : s.restartI = m.restartI) (hws : ARFO.WF s) :
    ARFO.WF (ARFO.stopAll s sc r).1 ∧ ARFO.GoodRes (ARFO.stopAll s sc r).1 (ARFO.stopAll s sc r).2 := by
  unfold ARFO.stopAll
  split
  · exact ⟨hws, by simp [ARFO.GoodRes]⟩
  · exact ⟨ARFO.wf_not_stopping m _ h hidx hlen hi hko hrest (Or.inl hrI) (by simp), by simp [ARFO.GoodRes]⟩

theorem ARFO.autoShutdown_good (s : ARFO) (sc : Scan) (r : Reason) (hws : ARFO.WF s) :
    ARFO.WF (ARFO.autoShutdown s sc r).1 ∧ ARFO.GoodRes (ARFO.autoShutdown s sc r).1 (ARFO.autoShutdown s sc r).2 := by
  unfold ARFO.autoShutdown
  split <;> exact ⟨hws, by simp [ARFO.GoodRes]⟩

/-- childTerminated of all/rest-for-one without KeepOrder: well-formedness is kept, the answer is never a panic,
and a `start` answer can be carried out -/
theorem ARFO.ct_good (m : ARFO) (name pid : Nat) (r : Reason) (now : Int) (h : ARFO.WF m) :
    ARFO.WF (m.childTerminated name pid r now).1 ∧
    ARFO.GoodRes (m.childTerminated name pid r now).1 (m.childTerminated name pid r now).2 := by
  have hidx := ARFO.scan_idx m name pid h
  have hlen := scan_length name pid m.spec
  unfold ARFO.childTerminated
  simp only
  split
  · -- shutting down
    rename_i hm3
    have hw : ARFO.WF { m with wait := sdel pid m.wait } :=
      ARFO.wf_not_stopping m _ h h.idx rfl rfl rfl rfl (Or.inl rfl) (by simp only; rw [hm3]; decide)
    split <;> exact ⟨hw, by simp [ARFO.GoodRes]⟩
  · rename_i hm3
    -- the state after the scan
    by_cases hm2 : m.mode = 2
    · -- stopping mode
      have hst := ARFO.stop_scan m name pid h hm2
      have hws : ARFO.WF { m with wait := sdel pid m.wait, spec := (scan name pid 0 m.spec).spec } :=
        ⟨hidx, by simp only; rw [hlen]; exact h.next, h.ko, h.rI0, fun _ => hst⟩
      cases hf : (scan name pid 0 m.spec).found with
      | none => exact ARFO.stopAll_good _ m h _ r hidx hlen rfl rfl rfl rfl hws
      | some x =>
        obtain ⟨specI, spec⟩ := x
        simp only
        split
        rotate_left
        · rename_i hx; exact absurd hm2 hx
        unfold ARFO.stoppingStep
        split
        rotate_left
        · rename_i hx; exact absurd h.ko hx
        split
        · exact ⟨hws, by simp [ARFO.GoodRes]⟩
        · rename_i hwl
          have hnil : sdel pid m.wait = [] := by
            cases hx : sdel pid m.wait with
            | nil => rfl
            | cons a t => simp only at hwl; rw [hx] at hwl; simp at hwl
          unfold ARFO.startAfterStop
          simp only
          have hfs := ARFO.forStart_valid
            { m with wait := sdel pid m.wait, spec := (scan name pid 0 m.spec).spec, mode := 1 } hidx hst.1
            (by
              intro c hc hd
              cases hp : c.pid with
              | zero => rfl
              | succ q =>
                have := hst.2.1 c hc hd (by rw [hp]; simp)
                rw [hnil] at this; simp at this)
            hst.2.2
          obtain ⟨c, hc1, hc2⟩ := hfs
          rw [hc1]
          simp only
          refine ⟨ARFO.wf_not_stopping m _ h hidx hlen rfl rfl rfl (Or.inr rfl) (by simp), ?_⟩
          simp only [ARFO.GoodRes]
          intro _
          exact ⟨⟨c, hc2, rfl⟩, by simp⟩
    · -- normal (or starting) mode
      have hws : ARFO.WF { m with wait := sdel pid m.wait, spec := (scan name pid 0 m.spec).spec } :=
        ARFO.wf_not_stopping m _ h hidx hlen rfl rfl rfl (Or.inl rfl) hm2
      cases hf : (scan name pid 0 m.spec).found with
      | none => exact ARFO.stopAll_good _ m h _ r hidx hlen rfl rfl rfl rfl hws
      | some x =>
        obtain ⟨specI, spec⟩ := x
        simp only [hm2, if_false]
        obtain ⟨_, c0, hc0, _, hsp⟩ := scan_found_some name pid 0 m.spec specI spec hf
        simp only [Nat.sub_zero] at hc0
        have hquiet : ∀ sp, ARFO.WF (ARFO.quietStep { m with wait := sdel pid m.wait, spec := (scan name pid 0 m.spec).spec } (scan name pid 0 m.spec) sp r).1 ∧
            ARFO.GoodRes (ARFO.quietStep { m with wait := sdel pid m.wait, spec := (scan name pid 0 m.spec).spec } (scan name pid 0 m.spec) sp r).1
              (ARFO.quietStep { m with wait := sdel pid m.wait, spec := (scan name pid 0 m.spec).spec } (scan name pid 0 m.spec) sp r).2 := by
          intro sp
          unfold ARFO.quietStep
          split
          · exact ARFO.stopAll_good _ m h _ r hidx hlen rfl rfl rfl rfl hws
          · exact ARFO.autoShutdown_good _ _ r hws
        split
        · exact ARFO.autoShutdown_good _ _ r hws
        · rename_i hdis
          have hdis' : spec.disabled = false := by simpa using hdis
          -- the failed spec sits, enabled and without a pid, at position specI of the scanned slice
          have hlt : specI < m.spec.length := (List.getElem?_eq_some_iff.mp hc0).1
          have hat : (scan name pid 0 m.spec).spec[specI]? = some spec := by
            rw [scan_spec_eq, List.getElem?_map, hc0, hsp]
            rename_i hh _
            simp [‹hit name pid c0 = true›]
          have hint : ARFO.WF (ARFO.intensityStep { m with wait := sdel pid m.wait, spec := (scan name pid 0 m.spec).spec } (scan name pid 0 m.spec) specI r now).1 ∧
              ARFO.GoodRes (ARFO.intensityStep { m with wait := sdel pid m.wait, spec := (scan name pid 0 m.spec).spec } (scan name pid 0 m.spec) specI r now).1
                (ARFO.intensityStep { m with wait := sdel pid m.wait, spec := (scan name pid 0 m.spec).spec } (scan name pid 0 m.spec) specI r now).2 := by
            unfold ARFO.intensityStep
            simp only
            split
            · exact ⟨ARFO.wf_not_stopping m _ h hidx hlen rfl rfl rfl (Or.inl rfl) (by simp), by simp [ARFO.GoodRes]⟩
            · -- the restart itself
              unfold ARFO.restartStep
              simp only
              -- s1: the state with the restart position set
              generalize hs1 : (if m.rest = true then
                  ({ m with wait := sdel pid m.wait, spec := (scan name pid 0 m.spec).spec,
                            restarts := (Window.check m.restarts now m.restart.periodMs m.restart.intensity).1, restartI := specI } : ARFO)
                else { m with wait := sdel pid m.wait, spec := (scan name pid 0 m.spec).spec,
                              restarts := (Window.check m.restarts now m.restart.periodMs m.restart.intensity).1 }) = s1
              have hs1spec : s1.spec = (scan name pid 0 m.spec).spec := by rw [← hs1]; split <;> rfl
              have hs1ko : s1.keeporder = false := by rw [← hs1]; split <;> exact h.ko
              have hs1rest : s1.rest = m.rest := by rw [← hs1]; split <;> rfl
              have hs1i : s1.i = m.i := by rw [← hs1]; split <;> rfl
              have hs1rI : s1.restartI ≤ specI := by
                rw [← hs1]; split
                · exact Nat.le_refl _
                · rename_i hr; simp only; rw [h.rI0 (by simpa using hr)]; exact Nat.zero_le _
              have hs1rI0 : s1.rest = false → s1.restartI = 0 := by
                intro hr; rw [hs1rest] at hr
                rw [← hs1]; simp only [hr, Bool.false_eq_true, if_false]; exact h.rI0 hr
              have hcf := cft_fields s1
              have hmemt := forTermination_mem s1 hs1ko
              -- the failed spec is in the restart group
              have hin : spec ∈ (ARFO.childrenForTermination s1).1.spec.drop (ARFO.childrenForTermination s1).1.restartI := by
                rw [hcf.1, hcf.2.1, hs1spec]
                apply List.mem_iff_getElem?.mpr
                refine ⟨specI - s1.restartI, ?_⟩
                rw [List.getElem?_drop]
                have : s1.restartI + (specI - s1.restartI) = specI := by omega
                rw [this]; exact hat
              have hidx2 : ∀ (k : Nat) (c : ChildSpec), (ARFO.childrenForTermination s1).1.spec[k]? = some c → c.i = k := by
                rw [hcf.1, hs1spec]; exact hidx
              have hle2 : (ARFO.childrenForTermination s1).1.restartI ≤ (ARFO.childrenForTermination s1).1.spec.length := by
                rw [hcf.1, hcf.2.1, hs1spec, hlen]; omega
              split
              · rename_i ht0
                have htnil : (ARFO.childrenForTermination s1).2 = [] := List.length_eq_zero_iff.mp ht0
                have hfs := ARFO.forStart_valid (ARFO.childrenForTermination s1).1 hidx2 hle2
                  (by
                    intro c hc hd
                    cases hp : c.pid with
                    | zero => rfl
                    | succ q =>
                      exfalso
                      have : c.pid ∈ (ARFO.childrenForTermination s1).2 := by
                        rw [hmemt]
                        refine ⟨c, by rw [hcf.1, hcf.2.1] at hc; exact hc, by simp [stoppable, hd, hp], rfl⟩
                      rw [htnil] at this; simp at this)
                  ⟨spec, hin, hdis'⟩
                obtain ⟨c, hc1, hc2⟩ := hfs
                rw [hc1]
                simp only
                refine ⟨⟨hidx2, by rw [hcf.2.2.2.1, hs1i, hcf.1, hs1spec, hlen]; exact h.next, by rw [hcf.2.2.2.2.1]; exact hs1ko,
                  by rw [hcf.2.2.2.2.2.1, hcf.2.1]; exact hs1rI0, fun hx => by simp at hx⟩, ?_⟩
                simp only [ARFO.GoodRes]
                intro _
                exact ⟨⟨c, hc2, rfl⟩, by simp⟩
              · rename_i ht0
                refine ⟨⟨hidx2, by rw [hcf.2.2.2.1, hs1i, hcf.1, hs1spec, hlen]; exact h.next, by rw [hcf.2.2.2.2.1]; exact hs1ko,
                  by rw [hcf.2.2.2.2.2.1, hcf.2.1]; exact hs1rI0, fun _ => ⟨hle2, ?_, ⟨spec, hin, hdis'⟩⟩⟩, by simp [ARFO.GoodRes]⟩
                intro c hc hd hp
                apply hcf.2.2.2.2.2.2
                rw [hmemt]
                exact ⟨c, by rw [hcf.1, hcf.2.1] at hc; exact hc, by simp [stoppable, hd, hp], rfl⟩
          split
          · exact hquiet spec
          · split
            · exact hquiet spec
            · exact hint
          · exact hint


/-! ### the other methods, the loop of handleAction, the closed system -/

/-- a state that differs from a well-formed one only in the slice (same names and indices pointwise), outside the stopping mode -/
theorem ARFO.wf_of_spec {m m' : ARFO} (h : ARFO.WF m) (hm2 : m'.mode ≠ 2) (hi : m'.i = m.i) (hl : m'.spec.length = m.spec.length)
    (hko : m'.keeporder = m.keeporder) (hrest : m'.rest = m.rest) (hrI : m'.restartI = m.restartI)
    (hs : ∀ (k : Nat) (c' : ChildSpec), m'.spec[k]? = some c' → ∃ c : ChildSpec, m.spec[k]? = some c ∧ c'.name = c.name ∧ c'.i = c.i) :
    ARFO.WF m' :=
  ARFO.wf_not_stopping m m' h (fun k c' hc => by obtain ⟨c, h1, _, h3⟩ := hs k c' hc; rw [h3]; exact h.idx k c h1)
    hl hi hko hrest (Or.inl hrI) hm2

theorem ARFO.childStarted_good (m : ARFO) (a : Action) (np : Nat) (h : ARFO.WF m) (hv : ARFO.ValidStart m a) (hm2 : m.mode ≠ 2) :
    ARFO.WF (m.childStarted a.spec np).1 ∧ (m.childStarted a.spec np).1.mode ≠ 2 ∧
    ∃ a', (m.childStarted a.spec np).2 = .ok a' ∧ (a'.act = .nothing ∨ a'.act = .start) ∧
      (a'.act = .start → ARFO.ValidStart (m.childStarted a.spec np).1 a' ∧ a.spec.i < a'.spec.i) ∧
      (m.childStarted a.spec np).1.spec.length = m.spec.length := by
  obtain ⟨sp, hsp, hn⟩ := hv
  have hwf' : ∀ (md : Nat) (e : ChildSpec), md ≠ 2 → e.i = sp.i →
      ARFO.WF { m with spec := m.spec.set a.spec.i e, mode := md } := by
    intro md e hmd he
    refine ARFO.wf_not_stopping m _ h ?_ (by simp) rfl rfl rfl (Or.inl rfl) hmd
    intro k c' hc
    simp only [List.getElem?_set] at hc
    split at hc
    · split at hc
      · simp at hc; subst hc
        rename_i hk _
        rw [he, ← hk]; exact h.idx _ sp hsp
      · simp at hc
    · exact h.idx k c' hc
  unfold ARFO.childStarted
  simp only [hsp, hn, ne_eq, not_true_eq_false, if_false]
  split
  · exact ⟨hwf' m.mode _ hm2 rfl, hm2, {}, rfl, Or.inl rfl, by simp, by simp⟩
  · split
    · exact ⟨hwf' 0 _ (by decide) rfl, by simp, {}, rfl, Or.inl rfl, by simp, by simp⟩
    · split
      · rename_i k c hfs
        have hfs' := findStart_spec (a.spec.i + 1) _ 0 k c hfs
        refine ⟨hwf' m.mode _ hm2 rfl, hm2, _, rfl, Or.inr rfl, ?_, by simp⟩
        intro _
        refine ⟨⟨c, by simpa using hfs'.2.2.1, rfl⟩, ?_⟩
        have := hfs'.1
        simp only; omega
      · exact ⟨hwf' m.mode _ hm2 rfl, hm2, {}, rfl, Or.inl rfl, by simp, by simp⟩

theorem ARFO.childSpec_cases (m : ARFO) (name : Nat) :
    (∃ e, m.childSpec name = (m, .err e)) ∨
    (∃ c, m.childSpec name = (m, .ok { act := .start, spec := c }) ∧ findName name m.spec = some c ∧ m.mode = 0) := by
  unfold ARFO.childSpec
  split
  · exact Or.inl ⟨_, rfl⟩
  · rename_i hm
    have hm0 : m.mode = 0 := by simpa using hm
    cases hf : findName name m.spec with
    | none => exact Or.inl ⟨_, rfl⟩
    | some c =>
      simp only
      by_cases hd : c.disabled = true
      · simp [hd]
      · by_cases hp : c.pid = 0
        · right; exact ⟨c, by simp [hd, hp], rfl, hm0⟩
        · simp [hd, hp]

theorem ARFO.childSpec_good (m : ARFO) (name args : Nat) (h : ARFO.WF m) :
    let r := m.childSpec name
    let r' := match r.2 with
      | .ok a => (r.1, Res.ok (if args > 0 then { a with spec := { a.spec with args := args } } else a))
      | _ => r
    r'.1 = m ∧ ARFO.GoodRes m r'.2 := by
  rcases ARFO.childSpec_cases m name with ⟨e, he⟩ | ⟨c, hc, hf, hm⟩
  · rw [he]; exact ⟨by simp, by simp [ARFO.GoodRes]⟩
  · rw [hc]
    obtain ⟨k, hk, hn⟩ := findName_getElem name m.spec c hf
    have hi := h.idx k c hk
    simp only
    refine ⟨trivial, ?_⟩
    simp only [ARFO.GoodRes]
    intro _
    split <;> exact ⟨⟨c, by simpa [hi] using hk, rfl⟩, by rw [hm]; decide⟩

theorem ARFO.childAddSpec_good (m : ARFO) (name : Nat) (sig : Bool) (h : ARFO.WF m) :
    ARFO.WF (m.childAddSpec name sig).1 ∧ ARFO.GoodRes (m.childAddSpec name sig).1 (m.childAddSpec name sig).2 := by
  unfold ARFO.childAddSpec
  split
  · exact ⟨h, trivial⟩
  · rename_i hm
    have hm0 : m.mode = 0 := by simpa using hm
    split
    · exact ⟨h, trivial⟩
    · split
      · exact ⟨h, trivial⟩
      · refine ⟨?_, ?_⟩
        · refine ⟨?_, by simp [h.next], h.ko, h.rI0, fun hx => by have : m.mode = 2 := hx; rw [hm0] at this; simp at this⟩
          intro k c hc
          simp only [List.getElem?_append] at hc
          split at hc
          · exact h.idx k c hc
          · rename_i hk
            have : k - m.spec.length = 0 := by
              cases hx : k - m.spec.length with
              | zero => rfl
              | succ n => rw [hx] at hc; simp at hc
            rw [this] at hc
            simp at hc
            subst hc
            simp only
            rw [h.next]; omega
        · simp only [ARFO.GoodRes]
          intro _
          exact ⟨⟨_, by simp [h.next], rfl⟩, by show m.mode ≠ 2; rw [hm0]; decide⟩

theorem ARFO.childEnable_good (m : ARFO) (name : Nat) (h : ARFO.WF m) :
    ARFO.WF (m.childEnable name).1 ∧ ARFO.GoodRes (m.childEnable name).1 (m.childEnable name).2 := by
  unfold ARFO.childEnable
  split
  · exact ⟨h, trivial⟩
  · rename_i hm
    have hm0 : m.mode = 0 := by simpa using hm
    cases hf : findName name m.spec with
    | none => exact ⟨h, trivial⟩
    | some c =>
      simp only
      obtain ⟨k, hk, hn⟩ := findName_getElem name m.spec c hf
      have hi := h.idx k c hk
      split
      · exact ⟨h, by intro hx; simp at hx⟩
      · refine ⟨?_, ?_⟩
        · exact ARFO.wf_of_spec h (by show m.mode ≠ 2; rw [hm0]; decide) rfl (updName_length _ _ _) rfl rfl rfl
            (fun k' c' hc => updName_const_getElem name c { c with disabled := false } ⟨rfl, rfl⟩ m.spec hf k' c' hc)
        · simp only [ARFO.GoodRes]
          intro _
          obtain ⟨c', h1, h2⟩ := updName_const_at name c { c with disabled := false } rfl hn m.spec k hk hf
          exact ⟨⟨c', by simpa [hi] using h1, by simpa using h2⟩, by show m.mode ≠ 2; rw [hm0]; decide⟩

theorem ARFO.childDisable_good (m : ARFO) (name : Nat) (h : ARFO.WF m) :
    ARFO.WF (m.childDisable name).1 ∧ ARFO.GoodRes (m.childDisable name).1 (m.childDisable name).2 := by
  unfold ARFO.childDisable
  split
  · exact ⟨h, trivial⟩
  · rename_i hm
    have hm0 : m.mode = 0 := by simpa using hm
    have hupd : ∀ w : List Nat, ARFO.WF { m with spec := updName name (fun c => { c with disabled := true }) m.spec, wait := w } :=
      fun w => ARFO.wf_of_spec h (by show m.mode ≠ 2; rw [hm0]; decide) rfl (updName_length _ _ _) rfl rfl rfl
        (fun k c' hc => updName_getElem name (fun c => { c with disabled := true }) (fun c => ⟨rfl, rfl⟩) m.spec k c' hc)
    cases hf : findName name m.spec with
    | none => exact ⟨h, trivial⟩
    | some c =>
      simp only
      split
      · exact ⟨h, by intro hx; simp at hx⟩
      · split
        · exact ⟨hupd _, by intro hx; simp at hx⟩
        · exact ⟨hupd _, by intro hx; simp at hx⟩

theorem ARFO.api_i (m : ARFO) (name : Nat) (sig : Bool) :
    (m.childAddSpec name sig).1.i ≤ m.i + 1 ∧ (m.childEnable name).1.i = m.i ∧ (m.childDisable name).1.i = m.i ∧
    (m.childSpec name).1 = m := by
  refine ⟨?_, ?_, ?_, ?_⟩
  · unfold ARFO.childAddSpec; repeat' split
    all_goals simp
  · unfold ARFO.childEnable; repeat' split
    all_goals rfl
  · unfold ARFO.childDisable; repeat' split
    all_goals rfl
  · unfold ARFO.childSpec; repeat' split
    all_goals rfl

theorem ARFO.stopAll_i (s : ARFO) (sc : Scan) (r : Reason) : (ARFO.stopAll s sc r).1.i = s.i := by
  unfold ARFO.stopAll; split <;> rfl
theorem ARFO.autoShutdown_i (s : ARFO) (sc : Scan) (r : Reason) : (ARFO.autoShutdown s sc r).1.i = s.i := by
  unfold ARFO.autoShutdown; split <;> rfl
theorem ARFO.quietStep_i (s : ARFO) (sc : Scan) (sp : ChildSpec) (r : Reason) : (ARFO.quietStep s sc sp r).1.i = s.i := by
  unfold ARFO.quietStep; split
  · exact ARFO.stopAll_i _ _ _
  · exact ARFO.autoShutdown_i _ _ _
theorem ARFO.startAfterStop_i (s : ARFO) : (ARFO.startAfterStop s).1.i = s.i := by
  unfold ARFO.startAfterStop; simp only; split <;> rfl
theorem ARFO.restartStep_i (s : ARFO) (k : Nat) (r : Reason) : (ARFO.restartStep s k r).1.i = s.i := by
  unfold ARFO.restartStep
  simp only
  have h1 : ∀ s1 : ARFO, (ARFO.childrenForTermination s1).1.i = s1.i := fun s1 => (cft_fields s1).2.2.2.1
  split
  · split
    · split
      · simp only [h1]
      · simp only [h1]
    · simp only [h1]
  · split
    · split
      · simp only [h1]
      · simp only [h1]
    · simp only [h1]
theorem ARFO.intensityStep_i (s : ARFO) (sc : Scan) (k : Nat) (r : Reason) (now : Int) : (ARFO.intensityStep s sc k r now).1.i = s.i := by
  unfold ARFO.intensityStep; simp only; split
  · rfl
  · rw [ARFO.restartStep_i]
theorem ARFO.stoppingStep_i (s : ARFO) (k : Nat) (r : Reason) : (ARFO.stoppingStep s k r).1.i = s.i := by
  unfold ARFO.stoppingStep
  have h1 : ∀ s1 : ARFO, (ARFO.childrenForTermination s1).1.i = s1.i := fun s1 => (cft_fields s1).2.2.2.1
  split
  · split
    · rfl
    · rw [ARFO.startAfterStop_i]
  · split
    · rfl
    · simp only
      split
      · split
        · simp only [h1]
        · rw [ARFO.startAfterStop_i]; simp only [h1]
      · split
        · simp only [h1]
        · rw [ARFO.startAfterStop_i]; simp only [h1]

theorem ARFO.ct_i (m : ARFO) (name pid : Nat) (r : Reason) (now : Int) : (m.childTerminated name pid r now).1.i = m.i := by
  unfold ARFO.childTerminated
  simp only
  split
  · split <;> rfl
  · split
    · rw [ARFO.stopAll_i]
    · split
      · rw [ARFO.stoppingStep_i]
      · split
        · rw [ARFO.autoShutdown_i]
        · split
          · rw [ARFO.quietStep_i]
          · split
            · rw [ARFO.quietStep_i]
            · rw [ARFO.intensityStep_i]
          · rw [ARFO.intensityStep_i]


structure ARFO.Inv (c : Loop ARFO) : Prop where
  wf : ARFO.WF c.m
  sane : c.status ≠ .panicked ∧ c.status ≠ .stuck

theorem ARFO.handle_gen (fuel : Nat) : ∀ (bits : List Bool) (c : Loop ARFO) (a : Action),
    ARFO.WF c.m → (a.act = .start → (ARFO.ValidStart c.m a ∧ c.m.mode ≠ 2) ∧ c.m.spec.length < fuel + a.spec.i) → 0 < fuel →
    ARFO.WF (handleAction arfoMachine fuel bits c a).1.m ∧
    (handleAction arfoMachine fuel bits c a).2 ≠ .panic ∧ (handleAction arfoMachine fuel bits c a).2 ≠ .outOfFuel ∧
    (handleAction arfoMachine fuel bits c a).1.status = c.status := by
  induction fuel with
  | zero => intro bits c a _ _ h0; omega
  | succ n ih =>
    intro bits c a hwf hgood _
    rw [handleAction]
    cases ha : a.act with
    | nothing => simp; exact hwf
    | terminate => simp; exact hwf
    | terminateChildren => simp only; split <;> simp <;> exact hwf
    | start =>
      simp only
      split
      · simp; exact hwf
      · have ⟨⟨hv, hm2⟩, hfu⟩ := hgood ha
        have hg := ARFO.childStarted_good c.m a c.nextPid hwf hv hm2
        obtain ⟨hwf', hm2', a', hres, hkind, hnext, hlen⟩ := hg
        simp only [arfoMachine, hres]
        have hvi : a.spec.i < c.m.spec.length := by
          obtain ⟨sp, hsp, _⟩ := hv
          exact (List.getElem?_eq_some_iff.mp hsp).1
        rcases hkind with hk | hk
        · have hn0 : 0 < n := by omega
          obtain ⟨n', rfl⟩ : ∃ n', n = n' + 1 := ⟨n - 1, by omega⟩
          rw [handleAction]
          simp only [hk]
          refine ⟨hwf', ?_, ?_, ?_⟩ <;> simp
        · have ⟨hv', hlt⟩ := hnext hk
          have hvi' : a'.spec.i < (ARFO.childStarted c.m a.spec c.nextPid).1.spec.length := by
            obtain ⟨sp, hsp, _⟩ := hv'
            exact (List.getElem?_eq_some_iff.mp hsp).1
          exact ih bits.tail
            { c with nextPid := c.nextPid + 1, alive := (c.nextPid, a.spec.name) :: c.alive,
                     kids := (c.nextPid, a.spec.name) :: c.kids, m := (ARFO.childStarted c.m a.spec c.nextPid).1 }
            a' hwf' (fun _ => ⟨⟨hv', hm2'⟩, by simp only; rw [hlen]; omega⟩) (by rw [hlen] at hvi'; omega)

theorem ARFO.afterCall_inv (fuel : Nat) (fromApi : Bool) (bits : List Bool) (c : Loop ARFO) (r : ARFO × Res)
    (hst : c.status = .running) (hwf : ARFO.WF r.1) (hgood : ARFO.GoodRes r.1 r.2) (hfuel : r.1.spec.length + 2 ≤ fuel) :
    ARFO.Inv (afterCall arfoMachine fuel fromApi bits c r) := by
  unfold afterCall
  cases hr : r.2 with
  | ok a =>
    simp only
    rw [hr] at hgood
    have ⟨h1, h2, h3, h4⟩ := ARFO.handle_gen fuel bits { c with m := r.1 } a hwf
      (fun ha => ⟨hgood ha, by simp only; omega⟩) (by omega)
    have hff := finish_fields fromApi (handleAction arfoMachine fuel bits { c with m := r.1 } a)
    have hstat : (handleAction arfoMachine fuel bits { c with m := r.1 } a).1.status = .running := h4.trans hst
    constructor
    · rw [hff.2.2.2.2.2.1]; exact h1
    · unfold finish
      cases hr' : (handleAction arfoMachine fuel bits { c with m := r.1 } a).2 with
      | ret e => cases e <;> simp <;> (try split) <;> simp [hstat]
      | spawnErr => simp; split <;> simp [hstat]
      | panic => exact absurd hr' h2
      | outOfFuel => exact absurd hr' h3
  | err e => exact ⟨hwf, by simp [hst]⟩
  | panic => rw [hr] at hgood; exact hgood.elim

theorem ARFO.afterCall_inv_eq (fuel : Nat) (fromApi : Bool) (bits : List Bool) (c : Loop ARFO) (r : ARFO × Res)
    (hst : c.status = .running) (hm : r.1 = c.m) (hwf : ARFO.WF c.m) (hgood : ARFO.GoodRes c.m r.2)
    (hfuel : c.m.spec.length + 2 ≤ fuel) : ARFO.Inv (afterCall arfoMachine fuel fromApi bits c r) := by
  obtain ⟨m', res⟩ := r
  simp only at hm hgood
  subst hm
  exact ARFO.afterCall_inv fuel fromApi bits c _ hst hwf hgood hfuel

/-- every step of the closed all/rest-for-one system WITHOUT KeepOrder keeps the machine well-formed and never panics -/
theorem ARFO.step_inv (c c' : Loop ARFO) (l : Label) (h : ARFO.Inv c) (hs : arfoStep c l = some c') : ARFO.Inv c' := by
  unfold arfoStep at hs
  have hlen : ∀ m' : ARFO, ARFO.WF m' → m'.i ≤ c.m.i + 1 → m'.spec.length + 2 ≤ c.m.spec.length + 3 := by
    intro m' hw hi
    rw [← hw.next, ← h.wf.next]; omega
  cases l with
  | die pid r =>
    simp only [step] at hs
    split at hs; · simp at hs
    split at hs
    · simp only [Option.some.injEq] at hs; subst hs; exact ⟨h.wf, h.sane⟩
    · simp at hs
  | deliver pid now bits =>
    simp only [step] at hs
    split at hs; · simp at hs
    split at hs; · simp at hs
    rename_i hst _ r hr
    simp only [Option.some.injEq] at hs; subst hs
    have hst' : c.status = .running := by simpa using hst
    have hg := ARFO.ct_good c.m (lookupKid pid c.kids) pid r now h.wf
    exact ARFO.afterCall_inv _ false bits _ _ hst' hg.1 hg.2
      (hlen _ hg.1 (by show (ARFO.childTerminated c.m (lookupKid pid c.kids) pid r now).1.i ≤ c.m.i + 1; rw [ARFO.ct_i]; omega))
  | foreign r now bits =>
    simp only [step] at hs
    split at hs; · simp at hs
    rename_i hst
    simp only [Option.some.injEq] at hs; subst hs
    have hst' : c.status = .running := by simpa using hst
    have hg := ARFO.ct_good c.m 0 c.nextPid r now h.wf
    exact ARFO.afterCall_inv _ false bits _ _ hst' hg.1 hg.2
      (hlen _ hg.1 (by show (ARFO.childTerminated c.m 0 c.nextPid r now).1.i ≤ c.m.i + 1; rw [ARFO.ct_i]; omega))
  | startChild name args bits =>
    simp only [step] at hs
    split at hs; · simp at hs
    rename_i hst
    simp only [Option.some.injEq] at hs; subst hs
    have hst' : c.status = .running := by simpa using hst
    have hg := ARFO.childSpec_good c.m name args h.wf
    simp only at hg
    exact ARFO.afterCall_inv_eq _ true bits c _ hst' hg.1 h.wf hg.2 (by omega)
  | addChild name sig bits =>
    simp only [step] at hs
    split at hs; · simp at hs
    rename_i hst
    simp only [Option.some.injEq] at hs; subst hs
    have hst' : c.status = .running := by simpa using hst
    have hg := ARFO.childAddSpec_good c.m name sig h.wf
    exact ARFO.afterCall_inv _ true bits c _ hst' hg.1 hg.2 (hlen _ hg.1 (ARFO.api_i c.m name sig).1)
  | enable name bits =>
    simp only [step] at hs
    split at hs; · simp at hs
    rename_i hst
    simp only [Option.some.injEq] at hs; subst hs
    have hst' : c.status = .running := by simpa using hst
    have hg := ARFO.childEnable_good c.m name h.wf
    exact ARFO.afterCall_inv _ true bits c _ hst' hg.1 hg.2
      (hlen _ hg.1 (by show (ARFO.childEnable c.m name).1.i ≤ c.m.i + 1; rw [(ARFO.api_i c.m name false).2.1]; omega))
  | disable name =>
    simp only [step] at hs
    split at hs; · simp at hs
    rename_i hst
    simp only [Option.some.injEq] at hs; subst hs
    have hst' : c.status = .running := by simpa using hst
    have hg := ARFO.childDisable_good c.m name h.wf
    exact ARFO.afterCall_inv _ true [] c _ hst' hg.1 hg.2
      (hlen _ hg.1 (by show (ARFO.childDisable c.m name).1.i ≤ c.m.i + 1; rw [(ARFO.api_i c.m name false).2.2.1]; omega))


/-- the base case: ProcessInit of an all/rest-for-one supervisor whose spec does not ask for KeepOrder -/
theorem ARFO.boot_inv (sp : SupSpec) (hne : sp.children ≠ []) (hko : sp.restart.keepOrder = false) : ARFO.Inv (arfoBoot sp) := by
  unfold arfoBoot boot
  have hidx : ∀ (l : List (Nat × Bool)) (k0 k : Nat) (c : ChildSpec), (mkSpecs true k0 l)[k]? = some c → c.i = k0 + k := by
    intro l
    induction l with
    | nil => intro k0 k c h; simp [mkSpecs] at h
    | cons a t ih =>
      intro k0 k c h
      obtain ⟨n, sg⟩ := a
      simp only [mkSpecs] at h
      cases k with
      | zero => simp at h; subst h; rfl
      | succ k' => simp at h; have := ih (k0 + 1) k' c h; omega
  have hlen : ∀ (l : List (Nat × Bool)) (k0 : Nat), (mkSpecs true k0 l).length = l.length := by
    intro l; induction l with
    | nil => intro k0; rfl
    | cons a t ih => intro k0; obtain ⟨n, sg⟩ := a; simp [mkSpecs, ih]
  cases hch : sp.children with
  | nil => exact absurd hch hne
  | cons a t =>
    obtain ⟨n, sg⟩ := a
    have e : mkSpecs true 0 ((n, sg) :: t) = ({ name := n, significant := sg, register := true, i := 0 } : ChildSpec) :: mkSpecs true 1 t := rfl
    have hspec : (ARFO.init {} sp).1.spec = mkSpecs true 0 sp.children := by
      simp only [ARFO.init, hch, List.nil_append, e]
    have hres : (ARFO.init {} sp).2 = .ok { act := .start, spec := { name := n, significant := sg, register := true, i := 0 } } := by
      simp only [ARFO.init, hch, List.nil_append, e]
    have hmode : (ARFO.init {} sp).1.mode = 1 := by
      simp only [ARFO.init, hch, List.nil_append, e]
    have hi : (ARFO.init {} sp).1.i = sp.children.length := by
      simp only [ARFO.init, hch, List.nil_append, e]; simp
    have hk : (ARFO.init {} sp).1.keeporder = false := by
      simp only [ARFO.init, hch, List.nil_append, e]; exact hko
    have hrI : (ARFO.init {} sp).1.restartI = 0 := by
      simp only [ARFO.init, hch, List.nil_append, e]
    have hwf : ARFO.WF (ARFO.init {} sp).1 := by
      refine ⟨?_, by rw [hi, hspec, hlen], hk, fun _ => hrI, fun hx => by rw [hmode] at hx; simp at hx⟩
      intro k c hc; rw [hspec] at hc; have := hidx sp.children 0 k c hc; omega
    rw [← hch]
    apply ARFO.afterCall_inv _ false [] _ _ rfl hwf
    · rw [hres]
      simp only [ARFO.GoodRes]
      intro _
      refine ⟨⟨{ name := n, significant := sg, register := true, i := 0 }, ?_, rfl⟩, by rw [hmode]; decide⟩
      rw [hspec, hch, e]; rfl
    · rw [hspec, hlen]; omega

end ErgoVerif.Sup

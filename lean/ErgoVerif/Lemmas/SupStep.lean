import ErgoVerif.Model.SupOFO
import ErgoVerif.Model.SupARFO
import ErgoVerif.Model.SupSOFO
import ErgoVerif.Spec.Sup
/-
Step-level facts about the three supervisor state machines, for ALL states (no reachability):
the answer of `childTerminated` for a child of an enabled spec in normal operation is the one the
documented rule `Spec.Sup.rule` prescribes.
-/
namespace ErgoVerif.Sup
open ErgoVerif.Spec.Sup

/-! ### one-for-one -/

/-- what supOFO's answer must look like for each decision of the rules -/
def OFO.Meets (d : Decision) (c : ChildSpec) (sc : Scan) (s' : OFO) (res : Res) : Prop :=
  match d with
  | .ignore => res = .ok {} ∧ s'.shutdown = false
  | .restart => res = .ok { act := .start, spec := c } ∧ s'.shutdown = false
  | .giveUp =>
      res = .ok { act := .terminateChildren, terminate := runningPids sc.spec, reason := some .restartsExceeded }
      ∧ s'.shutdown = true ∧ s'.shutdownReason = some .restartsExceeded ∧ s'.wait = mkSet sc.running
  | .stopAll r =>
      if sc.running.length = 0 then res = .ok { act := .terminate, reason := some r } ∧ s'.shutdown = false
      else res = .ok { act := .terminateChildren, terminate := sc.running, reason := some r }
           ∧ s'.shutdown = true ∧ s'.shutdownReason = some r ∧ s'.wait = mkSet sc.running

theorem OFO.decision (s : OFO) (name pid : Nat) (r : Reason) (now : Int)
    (hsd : s.shutdown = false) (k : Nat) (c : ChildSpec)
    (hf : (scan name pid 0 s.spec).found = some (k, c)) (hen : c.disabled = false) :
    OFO.Meets (rule false s.restart.strategy r c.significant s.autoshutdown
                (scan name pid 0 s.spec).running.length
                (Window.check s.restarts now s.restart.periodMs s.restart.intensity).2)
      c (scan name pid 0 s.spec) (s.childTerminated name pid r now).1 (s.childTerminated name pid r now).2 := by
  unfold OFO.childTerminated
  simp only [hsd, hf, hen]
  cases hst : s.restart.strategy <;> cases r <;> cases hsg : c.significant <;>
    simp [OFO.Meets, rule, needsRestart, Reason.quiet, OFO.stopAll, OFO.autoShutdown, OFO.quietStep, OFO.intensityStep] <;>
    (repeat' split) <;> simp_all

/-- in every case the spec slice after the call is the scanned one: only the dead child's pid is cleared (T2) -/
theorem OFO.spec_after (s : OFO) (name pid : Nat) (r : Reason) (now : Int) (hsd : s.shutdown = false) :
    (s.childTerminated name pid r now).1.spec = (scan name pid 0 s.spec).spec := by
  unfold OFO.childTerminated
  simp only [hsd]
  cases hf : (scan name pid 0 s.spec).found with
  | none => simp [OFO.stopAll]; split <;> rfl
  | some x =>
    obtain ⟨k, c⟩ := x
    cases hst : s.restart.strategy <;> cases r <;>
      simp [Reason.quiet, OFO.stopAll, OFO.autoShutdown, OFO.quietStep, OFO.intensityStep] <;>
      (repeat' split) <;> rfl

/-! ### all-for-one / rest-for-one -/

def ARFO.Meets (d : Decision) (k : Nat) (r : Reason) (sc : Scan) (s0 s' : ARFO) (res : Res) : Prop :=
  match d with
  | .ignore => res = .ok {} ∧ s'.mode = 0
  | .restart => (s', res) = ARFO.restartStep s0 k r
  | .giveUp =>
      res = .ok { act := .terminateChildren, terminate := sc.running, reason := some .restartsExceeded }
      ∧ s'.mode = 3 ∧ s'.shutdownReason = some .restartsExceeded ∧ s'.wait = mkSet sc.running
  | .stopAll r =>
      if sc.running.length = 0 then res = .ok { act := .terminate, reason := some r } ∧ s'.mode = 0
      else res = .ok { act := .terminateChildren, terminate := sc.running, reason := some r }
           ∧ s'.mode = 3 ∧ s'.shutdownReason = some r ∧ s'.wait = mkSet sc.running

theorem ARFO.decision (s : ARFO) (name pid : Nat) (r : Reason) (now : Int)
    (hm : s.mode = 0) (k : Nat) (c : ChildSpec)
    (hf : (scan name pid 0 s.spec).found = some (k, c)) (hen : c.disabled = false) :
    ARFO.Meets (rule false s.restart.strategy r c.significant s.autoshutdown
                (scan name pid 0 s.spec).running.length
                (Window.check s.restarts now s.restart.periodMs s.restart.intensity).2)
      k r (scan name pid 0 s.spec)
      { s with wait := sdel pid s.wait, spec := (scan name pid 0 s.spec).spec,
               restarts := (Window.check s.restarts now s.restart.periodMs s.restart.intensity).1 }
      (s.childTerminated name pid r now).1 (s.childTerminated name pid r now).2 := by
  unfold ARFO.childTerminated
  simp only [hm, hf, hen]
  cases hst : s.restart.strategy <;> cases r <;> cases hsg : c.significant <;>
    simp [ARFO.Meets, rule, needsRestart, Reason.quiet, ARFO.stopAll, ARFO.autoShutdown, ARFO.quietStep, ARFO.intensityStep] <;>
    (repeat' split) <;> simp_all

/-! ### simple-one-for-one -/

def SOFO.Meets (d : Decision) (c : ChildSpec) (s0 s' : SOFO) (res : Res) : Prop :=
  match d with
  | .ignore => res = .ok {} ∧ s'.shutdown = false
  | .restart => res = .ok { act := .start, spec := c } ∧ s'.shutdown = false
  | .giveUp =>
      res = .ok { act := .terminateChildren, terminate := s0.pids.map (·.1), reason := some .restartsExceeded }
      ∧ s'.shutdown = true ∧ s'.shutdownReason = some .restartsExceeded
      ∧ s'.wait = (s0.pids.map (·.1)).foldl (fun w p => sins p w) s0.wait
  | .stopAll _ => False      -- never prescribed for simple-one-for-one

theorem SOFO.decision (s : SOFO) (name pid : Nat) (r : Reason) (now : Int)
    (hsd : s.shutdown = false) (c : ChildSpec)
    (hf : findName name s.spec = some c) (hen : c.disabled = false) :
    SOFO.Meets (rule true s.restart.strategy r c.significant false 0
                (Window.check s.restarts now s.restart.periodMs s.restart.intensity).2)
      c { s with pids := s.pids.filter (·.1 ≠ pid), wait := sdel pid s.wait }
      (s.childTerminated name pid r now).1 (s.childTerminated name pid r now).2 := by
  unfold SOFO.childTerminated
  simp only [hsd, hf, hen]
  cases hst : s.restart.strategy <;> cases r <;>
    cases hchk : (Window.check s.restarts now s.restart.periodMs s.restart.intensity).2 <;>
    simp [SOFO.Meets, rule, needsRestart, Reason.quiet]

/-- a disabled spec is never restarted (T6, step level) -/
theorem SOFO.disabled_not_restarted (s : SOFO) (name pid : Nat) (r : Reason) (now : Int)
    (hsd : s.shutdown = false) (c : ChildSpec) (hf : findName name s.spec = some c) (hdis : c.disabled = true) :
    (s.childTerminated name pid r now).2 = .ok {} := by
  unfold SOFO.childTerminated
  simp only [hsd, hf, hdis]
  cases hst : s.restart.strategy <;> cases r <;> simp [Reason.quiet]

theorem OFO.disabled_not_restarted (s : OFO) (name pid : Nat) (r : Reason) (now : Int)
    (hsd : s.shutdown = false) (k : Nat) (c : ChildSpec)
    (hf : (scan name pid 0 s.spec).found = some (k, c)) (hdis : c.disabled = true) :
    (s.childTerminated name pid r now).2 = .ok {} ∨
    (s.childTerminated name pid r now).2 = .ok { act := .terminate, reason := some r } := by
  unfold OFO.childTerminated
  simp only [hsd, hf, hdis]
  simp [OFO.autoShutdown]
  split <;> simp

theorem ARFO.disabled_not_restarted (s : ARFO) (name pid : Nat) (r : Reason) (now : Int)
    (hm : s.mode = 0) (k : Nat) (c : ChildSpec)
    (hf : (scan name pid 0 s.spec).found = some (k, c)) (hdis : c.disabled = true) :
    (s.childTerminated name pid r now).2 = .ok {} ∨
    (s.childTerminated name pid r now).2 = .ok { act := .terminate, reason := some r } := by
  unfold ARFO.childTerminated
  simp only [hm, hf, hdis]
  simp [ARFO.autoShutdown]
  split <;> simp

end ErgoVerif.Sup

/-
The parser side of the cron model: everything parseSpec accepts is a valid AST (the grammar).
-/
import ErgoVerif.Model.Cron
namespace ErgoVerif.Cron
open ErgoVerif.Generated.Cron

theorem char_le_toNat {c d : Char} (h : c ≤ d) : c.toNat ≤ d.toNat :=
  UInt32.le_iff_toNat_le.mp (Char.le_def.mp h)

theorem parseInt_bounds {cs : List Char} {lo hi n : Nat} (h : parseInt cs lo hi = some n) : lo ≤ n ∧ n ≤ hi := by
  unfold parseInt at h
  split at h
  · simp only at h
    split at h
    · cases h
    · split at h
      · cases h
      · simp only [Option.some.injEq] at h; omega
  · cases h

theorem parseInt_single {c : Char} {lo hi n : Nat} (h : parseInt [c] lo hi = some n) : n = c.toNat - 48 := by
  unfold parseInt at h
  split at h
  · simp only [atoi, List.foldl_cons, List.foldl_nil, Nat.zero_mul, Nat.zero_add] at h
    split at h
    · cases h
    · split at h
      · cases h
      · simpa using h.symm
  · cases h

/-- what `shape` guarantees about the characters of `w#n` -/
theorem shape_nth {cs : List Char} {w n : Char} (h : shape cs = some (.nth w n)) :
    '1' ≤ w ∧ w ≤ '7' ∧ '1' ≤ n ∧ n ≤ '5' := by
  unfold shape shapeTail at h
  repeat' split at h
  all_goals first
    | (simp only [Option.some.injEq, Shape.nth.injEq, reduceCtorEq] at h; done)
    | (cases h; done)
    | skip
  all_goals
    rename_i hc
    simp only [Option.some.injEq, Shape.nth.injEq] at h
    obtain ⟨rfl, rfl⟩ := h
    simpa [Bool.and_eq_true, and_assoc] using hc

theorem parseOption_valid {k : Kind} {fo : List Char} {i : Item} (h : parseOption k fo = some (.item i)) :
    i.valid k = true := by
  unfold parseOption at h
  cases hs : shape fo with
  | none => simp [hs] at h
  | some sh =>
    simp only [hs] at h
    by_cases hr : regexAllows k sh = false
    · simp [hr] at h
    · have hr' : regexAllows k sh = true := by simpa using hr
      simp only [hr', Bool.true_eq_false, if_false] at h
      cases sh with
      | star => simp at h
      | L =>
        simp only [Option.some.injEq, Opt.item.injEq] at h
        subst h
        simpa [regexAllows, Item.valid] using hr'
      | starStep ds =>
        simp only [Option.map_eq_some_iff, Opt.item.injEq] at h
        obtain ⟨s, hp, rfl⟩ := h
        have := parseInt_bounds hp
        simp only [regexAllows] at hr'
        simp [Item.valid, hr', this.1, this.2]
      | range a b =>
        simp only at h
        split at h
        · rename_i a' b' ha hb
          split at h
          · cases h
          · simp only [Option.some.injEq, Opt.item.injEq] at h
            subst h
            have h1 := parseInt_bounds ha
            have h2 := parseInt_bounds hb
            simp only [Item.valid, Bool.and_eq_true, decide_eq_true_eq]
            omega
        · cases h
      | rangeStep a b s =>
        simp only at h
        split at h
        · rename_i a' b' s' ha hb hs'
          split at h
          · cases h
          · simp only [Option.some.injEq, Opt.item.injEq] at h
            subst h
            have h1 := parseInt_bounds ha
            have h2 := parseInt_bounds hb
            have h3 := parseInt_bounds hs'
            simp only [regexAllows] at hr'
            simp only [Item.valid, Bool.and_eq_true, decide_eq_true_eq, hr', true_and]
            omega
        · cases h
      | nth w n =>
        simp only at h
        split at h
        · rename_i w' n' hw hn
          simp only [Option.some.injEq, Opt.item.injEq] at h
          subst h
          obtain ⟨c1, c2, c3, c4⟩ := shape_nth hs
          have e1 := parseInt_single hw
          have e2 := parseInt_single hn
          have b1 := parseInt_bounds hw
          have b2 := parseInt_bounds hn
          have t2 := char_le_toNat c2
          have t4 := char_le_toNat c4
          have t1 := char_le_toNat c1
          have t3 := char_le_toNat c3
          have k7 : ('7' : Char).toNat = 55 := by decide
          have k5 : ('5' : Char).toNat = 53 := by decide
          have k1 : ('1' : Char).toNat = 49 := by decide
          simp only [regexAllows, decide_eq_true_eq] at hr'
          simp only [Item.valid, Bool.and_eq_true, decide_eq_true_eq, hr', true_and]
          omega
        · cases h
      | wL w =>
        simp only [Option.map_eq_some_iff, Opt.item.injEq] at h
        obtain ⟨s, hp, rfl⟩ := h
        have := parseInt_bounds hp
        simp only [regexAllows, decide_eq_true_eq] at hr'
        simp [Item.valid, hr', this.1, this.2]
      | num d =>
        simp only [Option.map_eq_some_iff, Opt.item.injEq] at h
        obtain ⟨s, hp, rfl⟩ := h
        have := parseInt_bounds hp
        simp only [Item.valid, Bool.and_eq_true, decide_eq_true_eq]
        exact this

theorem parseOptions_valid {k : Kind} {opts : List (List Char)} {items : List Item}
    (h : parseOptions k opts = some items) :
    items.length = opts.length ∧ ∀ i ∈ items, i.valid k = true := by
  induction opts generalizing items with
  | nil => simp [parseOptions] at h; subst h; simp
  | cons fo rest ih =>
    simp only [parseOptions] at h
    split at h
    · rename_i i hi
      simp only [Option.map_eq_some_iff] at h
      obtain ⟨r, hr, rfl⟩ := h
      obtain ⟨l, v⟩ := ih hr
      refine ⟨by simp [l], ?_⟩
      intro j hj
      rcases List.mem_cons.mp hj with rfl | hj
      · exact parseOption_valid hi
      · exact v j hj
    · cases h

theorem splitOn_ne_nil (sep : Char) (cs : List Char) : splitOn sep cs ≠ [] := by
  induction cs with
  | nil => simp [splitOn]
  | cons c rest ih =>
    simp only [splitOn]
    split
    · simp
    · split
      · simp
      · simp

theorem parseField_valid {k : Kind} {f : List Char} {fld : Field} (h : parseField k f = some fld) :
    fld.valid k = true := by
  unfold parseField at h
  simp only at h
  split at h
  · rename_i fo _
    split at h
    · simp only [Option.some.injEq] at h; subst h; rfl
    · rename_i i hi
      simp only [Option.some.injEq] at h; subst h
      simp [Field.valid, parseOption_valid hi]
    · cases h
  · simp only [Option.map_eq_some_iff] at h
    obtain ⟨items, hp, rfl⟩ := h
    obtain ⟨l, v⟩ := parseOptions_valid hp
    have hne := splitOn_ne_nil ',' f
    have : items ≠ [] := by
      intro e; rw [e] at l; simp at l; exact hne (List.length_eq_zero_iff.mp l.symm)
    simp only [Field.valid, Bool.and_eq_true, Bool.not_eq_true', List.all_eq_true]
    exact ⟨by simpa using this, v⟩

/-- every text cronParseSpec accepts denotes an AST of the grammar -/
theorem parseSpec_valid {cs : List Char} {s : Spec} (h : parseSpec cs = some s) : s.valid = true := by
  unfold parseSpec at h
  split at h
  · split at h
    · rename_i mi ho mo da wd h0 h1 h3 h2 h4
      simp only [Option.some.injEq] at h
      subst h
      simp [Spec.valid, parseField_valid h0, parseField_valid h1, parseField_valid h2, parseField_valid h3,
        parseField_valid h4]
    · cases h
  · cases h

end ErgoVerif.Cron

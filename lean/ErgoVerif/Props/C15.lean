import ErgoVerif.Lemmas.PermSafe
/-!
# C15 — remote access control

Part 1 (this section): spawn / application-start permissions, flags, environment exposure
(Model/Perm.lean mirrors node/network.go EnableSpawn … DisableApplicationStart, getEnabledSpawn,
isEnabledApplicationStart; net/proto/connection.go RemoteSpawn / applicationStart / handleMessage).
Histories are lists with the newest operation first.
-/
namespace ErgoVerif.Props.C15
open ErgoVerif.Perm

/-- **Spawn permissions, all histories.** If, after ANY history of enable/disable operations (both
    tables interleaved, failing operations included), the lookup that `RouteSpawn` consults allows
    `peer` to spawn `name`, then the history contains a *successful* `EnableSpawn name … nodes` whose
    node list covers the peer (empty list = any node, or the peer is listed) and no later
    `DisableSpawn name …` covers the peer (empty list = whole entry, or the peer is listed). -/
theorem C15_perm_spawn_safe (ops : List Op) (name peer : Nat)
    (h : (getEnabledSpawn (after ops) name peer).1 = .ok) :
    ∃ post f ns older, ops = post ++ .enableSpawn name f ns :: older ∧ covers ns peer = true ∧
      (enableSpawn (after older) name f ns).2 = .ok ∧
      ∀ ns', Op.disableSpawn name ns' ∈ post → covers ns' peer = false :=
  spawnJustified_split name peer ops (spawn_safe ops name peer h)

/-- **Application-start permissions, all histories** (the code after the D11 repair). -/
theorem C15_perm_app_safe (ops : List Op) (name peer : Nat)
    (h : isEnabledApp (after ops) name peer = .ok) :
    ∃ post ns older, ops = post ++ .enableApp name ns :: older ∧ covers ns peer = true ∧
      ∀ ns', Op.disableApp name ns' ∈ post → covers ns' peer = false :=
  appJustified_split name peer ops (app_safe ops name peer h)

/-- the same statement for the code before the repair (`delete(enable.nodes, nn)`), kept as a
    regression statement: it is FALSE — D11 -/
def C15_perm_app_safe_prefix : Prop :=
  ∀ (ops : List Op) (name peer : Nat), isEnabledApp (afterOld ops) name peer = .ok →
    appJustified name peer ops = true

/-- D11 witness: enable the application for node 1 only, then disable node 1: the node map becomes
    empty, which the lookup reads as "any node" — node 2 (never enabled) may start the application. -/
theorem C15_perm_app_prefix_counterexample : ¬ C15_perm_app_safe_prefix := by
  intro h
  have := h [.disableApp 0 [1], .enableApp 0 [1]] 0 2 (by decide)
  revert this; decide

/-- the table is not vacuously closed: a successful enable covering the peer, as the newest
    operation, makes the lookup succeed and return that entry's factory -/
theorem C15_perm_enable_effective (older : List Op) (name f : Nat) (ns : List Nat) (peer : Nat)
    (hok : (enableSpawn (after older) name f ns).2 = .ok) (hc : covers ns peer = true) :
    getEnabledSpawn (after (.enableSpawn name f ns :: older)) name peer = (.ok, f) := by
  simp only [after, step, getEnabledSpawn, (enableSpawn_ok _ _ _ _ hok).1, upd_same]
  rw [covers_iff] at hc
  by_cases he : ns = []
  · subst he; simp [NodeMap.allows]
  · have hin : peer ∈ ns := hc.resolve_left he
    have hemp : ns.isEmpty = false := by simpa [List.isEmpty_iff] using he
    simp [hemp, NodeMap.allows_setAll _ _ _ _ he, hin]

/-- a disable covering the peer, as the newest operation, closes the lookup for that peer -/
theorem C15_perm_disable_effective (older : List Op) (name : Nat) (ns : List Nat) (peer : Nat)
    (hc : covers ns peer = true) :
    (getEnabledSpawn (after (.disableSpawn name ns :: older)) name peer).1 ≠ .ok ∧
    isEnabledApp (after (.disableApp name ns :: older)) name peer ≠ .ok := by
  constructor
  · intro h
    have := spawn_safe _ _ _ h
    simp [spawnJustified, hc] at this
  · intro h
    have := app_safe _ _ _ h
    simp [appJustified, hc] at this

/-- **End to end**: a remote spawn request is executed only if neither end's flags refuse it, the
    table justifies it, and exactly the environment chosen by the requester's exposure switch travels. -/
theorem C15_spawn_request (pf nf : Flags) (ops : List Op) (name req : Nat) (expose : Bool)
    (env : List Nat) (f : Nat) (sent : List Nat)
    (h : remoteSpawn pf nf (after ops) name req expose env = .spawned f sent) :
    refuses pf (·.spawn) = false ∧ refuses nf (·.spawn) = false ∧
    spawnJustified name req ops = true ∧ sent = sentEnv expose env := by
  unfold remoteSpawn at h
  by_cases h1 : refuses pf (·.spawn) = true
  · simp [h1] at h
  · by_cases h2 : refuses nf (·.spawn) = true
    · simp [h1, h2] at h
    · simp only [h1, h2, Bool.false_eq_true, ↓reduceIte] at h
      cases hg : getEnabledSpawn (after ops) name req with
      | mk e f' =>
        cases e <;> simp only [hg, SpawnOutcome.spawned.injEq, reduceCtorEq] at h
        obtain ⟨rfl, rfl⟩ := h
        refine ⟨by simpa using h1, by simpa using h2, spawn_safe ops name req ?_, rfl⟩
        simp [allowedSpawn, hg]

theorem C15_app_request (pf nf : Flags) (ops : List Op) (name req : Nat) (expose : Bool)
    (env : List Nat) (sent : List Nat)
    (h : remoteAppStart pf nf (after ops) name req expose env = .started sent) :
    refuses pf (·.appStart) = false ∧ refuses nf (·.appStart) = false ∧
    appJustified name req ops = true ∧ sent = sentEnv expose env := by
  unfold remoteAppStart at h
  by_cases h1 : refuses pf (·.appStart) = true
  · simp [h1] at h
  · by_cases h2 : refuses nf (·.appStart) = true
    · simp [h1, h2] at h
    · simp only [h1, h2, Bool.false_eq_true, ↓reduceIte] at h
      cases hg : isEnabledApp (after ops) name req <;>
        simp only [hg, AppOutcome.started.injEq, reduceCtorEq] at h
      subst h
      exact ⟨by simpa using h1, by simpa using h2, app_safe ops name req hg, rfl⟩

/-- flags that went through the defaulting rule of network.start / connect / startAcceptor have
    `Enable` set, so the guard is exactly "the feature bit is off" -/
theorem C15_flags_effective (given fallback : Flags) (hfb : fallback.enable = true) (bit : Flags → Bool) :
    refuses (effFlags given fallback) bit = !bit (effFlags given fallback) := by
  unfold refuses effFlags
  by_cases hg : given.enable = true <;> simp [hg, hfb]

/-- **Environment exposure**: the parent environment travels iff the requester switched exposure on -/
theorem C15_env_exposure (expose : Bool) (env : List Nat) :
    (expose = true → sentEnv expose env = env) ∧ (expose = false → sentEnv expose env = []) := by
  cases expose <;> simp [sentEnv]

theorem C15_env_sent_iff (expose : Bool) (env : List Nat) (hne : env ≠ []) :
    sentEnv expose env = env ↔ expose = true := by
  cases expose <;> simp [sentEnv, Ne.symm hne]

/- non-vacuity: the hypotheses are satisfiable, and the conclusion is not trivially true -/
example : (getEnabledSpawn (after [.enableSpawn 0 1 [2]]) 0 2).1 = .ok := by decide
example : (getEnabledSpawn (after [.disableSpawn 0 [2], .enableSpawn 0 1 []]) 0 2).1 = .notAllowed := by decide
example : (getEnabledSpawn (after [.disableSpawn 0 [2], .enableSpawn 0 1 []]) 0 3).1 = .notAllowed := by decide
example : isEnabledApp (after [.disableApp 0 [1], .enableApp 0 [1]]) 0 2 = .notAllowed := by decide
example : isEnabledApp (afterOld [.disableApp 0 [1], .enableApp 0 [1]]) 0 2 = .ok := by decide
example : remoteSpawn defaultFlags defaultFlags (after [.enableSpawn 0 1 []]) 0 5 true [7] = .spawned 1 [7] := by decide
example : remoteSpawn defaultFlags ⟨true, false, true⟩ (after [.enableSpawn 0 1 []]) 0 5 true [7] = .droppedByReceiver := by decide

end ErgoVerif.Props.C15

/-
Lemmas about the frame-reassembly reader model (`ErgoVerif.Model.Stream`).
Main results: `cutAll_append` (chunk-incremental parsing), `readAll_eq_cutAll` (segmentation
independence), `segmentation`, `cut_no_crash` / `readAll_no_crash`, `cut_conserve`, `cut_frames_ok`.
Core Lean only.
-/
import ErgoVerif.Model.Stream
namespace ErgoVerif.Stream

/-! ### `lenField`, `serveCheck` -/

theorem lenField_append6 (f r : Bytes) (h : 6 ≤ f.length) : lenField (f ++ r) = lenField f := by
  match f, h with
  | a :: b :: c :: d :: e :: g :: t, _ => simp [lenField]

theorem lenField_append (f r : Bytes) (h : 8 ≤ f.length) : lenField (f ++ r) = lenField f :=
  lenField_append6 f r (by omega)

theorem lenField_take (buf : Bytes) (l : Nat) (h6 : 6 ≤ l) (hl : l ≤ buf.length) :
    lenField (buf.take l) = lenField buf := by
  have := lenField_append6 (buf.take l) (buf.drop l) (by simp; omega)
  rw [List.take_append_drop] at this
  exact this.symm

/-- an accepted frame has at least 7 bytes (`buf.B[6]` was readable) -/
theorem serveCheck_none_len (cfg : Cfg) (f : Bytes) (h : serveCheck cfg f = none) :
    7 ≤ f.length := by
  match f with
  | [] => simp [serveCheck] at h
  | [_] => simp [serveCheck] at h <;> (repeat' split at h) <;> simp at h
  | [_, _] => simp [serveCheck] at h <;> (repeat' split at h) <;> simp at h
  | [_, _, _] => simp [serveCheck] at h <;> (repeat' split at h) <;> simp at h
  | [_, _, _, _] => simp [serveCheck] at h <;> (repeat' split at h) <;> simp at h
  | [_, _, _, _, _] => simp [serveCheck] at h <;> (repeat' split at h) <;> simp at h
  | [_, _, _, _, _, _] => simp [serveCheck] at h <;> (repeat' split at h) <;> simp at h
  | _ :: _ :: _ :: _ :: _ :: _ :: _ :: _ => simp

/-- `serve()` can only panic on a frame shorter than 7 bytes -/
theorem serveCheck_crash_len (cfg : Cfg) (f : Bytes) (h : serveCheck cfg f = some .crash) :
    f.length < 7 := by
  match f with
  | [] => simp
  | [_] => simp
  | [_, _] => simp
  | [_, _, _] => simp
  | [_, _, _, _] => simp
  | [_, _, _, _, _] => simp
  | [_, _, _, _, _, _] => simp
  | _ :: _ :: _ :: _ :: _ :: _ :: _ :: _ =>
    simp only [serveCheck, List.getElem?_cons_zero, List.getElem?_cons_succ] at h
    repeat' split at h
    all_goals simp at h

/-! ### `Res` helpers -/

@[simp] theorem Res.prepend_nil (r : Res) : r.prepend [] = r := by
  cases r <;> simp [Res.prepend]

@[simp] theorem Res.prepend_prepend (fs gs : List Bytes) (r : Res) :
    (r.prepend gs).prepend fs = r.prepend (fs ++ gs) := by
  cases r <;> simp [Res.prepend]

@[simp] theorem Res.state_prepend (fs : List Bytes) (r : Res) : (r.prepend fs).state = r.state := by
  cases r <;> simp [Res.prepend, Res.state]

@[simp] theorem Res.frames_prepend (fs : List Bytes) (r : Res) :
    (r.prepend fs).frames = fs ++ r.frames := by
  cases r <;> simp [Res.prepend, Res.frames]

/-! ### `wait` -/

theorem wait_cases (cfg : Cfg) (buf : Bytes) (e : Nat) :
    wait cfg buf e = .closed [] .tooLarge ∨ wait cfg buf e = .more [] buf := by
  unfold wait; split <;> simp

/-- `ReadDataFrom` does not refuse when the buffer is within the expected size and the expected
    size is within the limit -/
theorem wait_more (cfg : Cfg) (buf : Bytes) (e : Nat) (hnl : ¬ (cfg.max > 0 ∧ e > cfg.max))
    (h : buf.length ≤ e) : wait cfg buf e = .more [] buf := by
  simp only [wait, readLimit, if_neg hnl]
  rw [if_neg (by omega)]

theorem wait_more8 (cfg : Cfg) (hmax : cfg.max = 0 ∨ 8 ≤ cfg.max) (buf : Bytes)
    (h : buf.length < 8) : wait cfg buf 8 = .more [] buf :=
  wait_more cfg buf 8 (by omega) (by omega)

/-! ### fuel irrelevance and the unfolding equation of `cutAll` -/

theorem cut_fuel (cfg : Cfg) (buf : Bytes) (f1 f2 : Nat) (h1 : buf.length < f1)
    (h2 : buf.length < f2) : cut cfg f1 buf = cut cfg f2 buf := by
  induction f1 generalizing buf f2 with
  | zero => omega
  | succ n ih =>
    cases f2 with
    | zero => omega
    | succ m =>
      simp only [cut]
      split
      · rfl
      · split
        · rfl
        · split
          · rfl
          · split
            · rfl
            · split
              · rfl
              · rename_i hs
                have h7 := serveCheck_none_len _ _ hs
                simp only [List.length_take] at h7
                rw [ih (buf.drop (lenField buf)) m (by simp; omega) (by simp; omega)]

theorem cutAll_unfold (cfg : Cfg) (buf : Bytes) : cutAll cfg buf =
    if buf.length < 8 then wait cfg buf 8
    else if lenField buf < cfg.minLen then .closed [] .badLen
    else if cfg.max > 0 ∧ lenField buf > cfg.max then .closed [] .tooLong
    else if buf.length < lenField buf then wait cfg buf (lenField buf)
    else match serveCheck cfg (buf.take (lenField buf)) with
      | some w => .closed [] w
      | none => (cutAll cfg (buf.drop (lenField buf))).prepend [buf.take (lenField buf)] := by
  show cut cfg (buf.length + 1) buf = _
  simp only [cut]
  split
  · rfl
  · split
    · rfl
    · split
      · rfl
      · split
        · rfl
        · split
          · rename_i hs; simp only [hs]
          · rename_i hs
            have h7 := serveCheck_none_len _ _ hs
            simp only [List.length_take] at h7
            rw [cut_fuel cfg (buf.drop (lenField buf)) buf.length
              ((buf.drop (lenField buf)).length + 1) (by simp; omega) (by omega)]
            simp only [hs]; rfl

/-! ### the remainder is blocked waiting for input -/

theorem wait_eq_more (cfg : Cfg) (buf : Bytes) (e : Nat) (fs : List Bytes) (r : Bytes)
    (h : wait cfg buf e = .more fs r) : fs = [] ∧ r = buf := by
  unfold wait at h; split at h
  · cases h
  · cases h; exact ⟨rfl, rfl⟩

theorem prepend_eq_more (gs fs : List Bytes) (r : Bytes) (x : Res)
    (h : x.prepend gs = .more fs r) : ∃ fs', x = .more fs' r ∧ fs = gs ++ fs' := by
  cases x with
  | more a b => simp only [Res.prepend, Res.more.injEq] at h; exact ⟨a, by rw [h.2], h.1.symm⟩
  | closed a b => simp [Res.prepend] at h

theorem cut_rest_stuck_aux (cfg : Cfg) (n : Nat) : ∀ (buf : Bytes) (fs : List Bytes) (r : Bytes),
    buf.length < n → cutAll cfg buf = .more fs r → cutAll cfg r = .more [] r := by
  induction n with
  | zero => intro buf fs r h; omega
  | succ n ih =>
    intro buf fs r hn h
    have h0 := h
    rw [cutAll_unfold] at h
    split at h
    · obtain ⟨h1, h2⟩ := wait_eq_more _ _ _ _ _ h
      subst h1 h2; exact h0
    · split at h
      · cases h
      · split at h
        · cases h
        · split at h
          · obtain ⟨h1, h2⟩ := wait_eq_more _ _ _ _ _ h
            subst h1 h2; exact h0
          · split at h
            · cases h
            · rename_i hs
              have h7 := serveCheck_none_len _ _ hs
              simp only [List.length_take] at h7
              obtain ⟨fs', h1, _⟩ := prepend_eq_more _ _ _ _ h
              exact ih _ fs' r (by simp; omega) h1

/-- (6) what `cutAll` leaves buffered is blocked waiting for input: re-running the reader on it
    emits nothing and leaves it unchanged -/
theorem cut_rest_stuck (cfg : Cfg) (buf : Bytes) (fs : List Bytes) (r : Bytes)
    (h : cutAll cfg buf = .more fs r) : cutAll cfg r = .more [] r :=
  cut_rest_stuck_aux cfg (buf.length + 1) buf fs r (by omega) h

/-! ### chunk-incremental parsing -/

theorem cutAll_append_aux (cfg : Cfg) (hmax : cfg.max = 0 ∨ 8 ≤ cfg.max) (n : Nat) :
    ∀ (buf c : Bytes), buf.length < n →
    cutAll cfg (buf ++ c) = match cutAll cfg buf with
      | .more fs r => (cutAll cfg (r ++ c)).prepend fs
      | .closed fs w => .closed fs w := by
  induction n with
  | zero => intro buf c h; omega
  | succ n ih =>
    intro buf c hn
    by_cases h8 : buf.length < 8
    · have hb : cutAll cfg buf = .more [] buf := by
        rw [cutAll_unfold, if_pos h8]; exact wait_more8 cfg hmax buf h8
      rw [hb]; simp
    · have hl : lenField (buf ++ c) = lenField buf := lenField_append _ _ (by omega)
      by_cases h1 : lenField buf < cfg.minLen
      · have hb : cutAll cfg buf = .closed [] .badLen := by
          rw [cutAll_unfold, if_neg h8, if_pos h1]
        rw [hb, cutAll_unfold, hl, if_neg (by simp; omega), if_pos h1]
      · by_cases h2 : cfg.max > 0 ∧ lenField buf > cfg.max
        · have hb : cutAll cfg buf = .closed [] .tooLong := by
            rw [cutAll_unfold, if_neg h8, if_neg h1, if_pos h2]
          rw [hb, cutAll_unfold, hl, if_neg (by simp; omega), if_neg h1, if_pos h2]
        · by_cases h3 : buf.length < lenField buf
          · have hb : cutAll cfg buf = .more [] buf := by
              rw [cutAll_unfold, if_neg h8, if_neg h1, if_neg h2, if_pos h3]
              exact wait_more cfg buf _ h2 (by omega)
            rw [hb]; simp
          · have hle : lenField buf ≤ buf.length := by omega
            rw [cutAll_unfold cfg (buf ++ c), hl, if_neg (by simp; omega), if_neg h1, if_neg h2,
              if_neg (by simp; omega), List.take_append_of_le_length hle,
              List.drop_append_of_le_length hle]
            rw [cutAll_unfold cfg buf, if_neg h8, if_neg h1, if_neg h2, if_neg h3]
            cases hs : serveCheck cfg (buf.take (lenField buf)) with
            | some w => rfl
            | none =>
              have h7 := serveCheck_none_len _ _ hs
              simp only [List.length_take] at h7
              simp only []
              rw [ih (buf.drop (lenField buf)) c (by simp; omega)]
              cases cutAll cfg (buf.drop (lenField buf)) with
              | more gs r => exact Res.prepend_prepend _ _ _
              | closed gs w => simp [Res.prepend]

/-- (7) the chunk-incremental lemma: parsing `buf ++ c` at once = parsing `buf`, then parsing the
    remainder with `c` appended -/
theorem cutAll_append (cfg : Cfg) (hmax : cfg.max = 0 ∨ 8 ≤ cfg.max) (buf c : Bytes) :
    cutAll cfg (buf ++ c) = match cutAll cfg buf with
      | .more fs r => (cutAll cfg (r ++ c)).prepend fs
      | .closed fs w => .closed fs w :=
  cutAll_append_aux cfg hmax (buf.length + 1) buf c (by omega)

/-! ### feeding chunks = parsing the concatenation -/

theorem readAll_closed (cfg : Cfg) (s : RState) (w : Close) (h : s.closed = some w)
    (chunks : List Bytes) : readAll cfg s chunks = (s, []) := by
  induction chunks with
  | nil => rfl
  | cons c cs ih => simp [readAll, stepChunk, h, ih]

theorem cutAll_nil (cfg : Cfg) : cutAll cfg [] = .more [] [] := by
  rw [cutAll_unfold]; simp [wait]

theorem readAll_stuck (cfg : Cfg) (hmax : cfg.max = 0 ∨ 8 ≤ cfg.max) (chunks : List Bytes) :
    ∀ (buf : Bytes), cutAll cfg buf = .more [] buf →
    readAll cfg ⟨buf, none⟩ chunks =
      ((cutAll cfg (buf ++ chunks.flatten)).state, (cutAll cfg (buf ++ chunks.flatten)).frames) := by
  induction chunks with
  | nil => intro buf hb; simp [readAll, hb, Res.state, Res.frames]
  | cons c cs ih =>
    intro buf hb
    have happ := cutAll_append cfg hmax (buf ++ c) cs.flatten
    simp only [List.flatten_cons, ← List.append_assoc]
    rw [happ]
    simp only [readAll, stepChunk]
    cases hc : cutAll cfg (buf ++ c) with
    | more fs r =>
      have hr := cut_rest_stuck cfg _ _ _ hc
      simp only [ih r hr, Res.state_prepend, Res.frames_prepend]
    | closed fs w =>
      simp only [readAll_closed cfg ⟨[], some w⟩ w rfl, Res.state, Res.frames, List.append_nil]

/-- (8) feeding ANY segmentation of a byte string gives the same frames and the same final state as
    parsing the whole string at once -/
theorem readAll_eq_cutAll (cfg : Cfg) (hmax : cfg.max = 0 ∨ 8 ≤ cfg.max) (chunks : List Bytes) :
    readAll cfg RState.init chunks =
      ((cutAll cfg chunks.flatten).state, (cutAll cfg chunks.flatten).frames) := by
  have := readAll_stuck cfg hmax chunks [] (cutAll_nil cfg)
  simpa [RState.init] using this

/-! ### a concatenation of well-formed frames is cut into exactly these frames -/

theorem cutAll_wf_cons (cfg : Cfg) (f rest : Bytes) (h : WF cfg f) :
    cutAll cfg (f ++ rest) = (cutAll cfg rest).prepend [f] := by
  obtain ⟨h8, hl, hm, hmin, hs⟩ := h
  have hlen : lenField (f ++ rest) = f.length := by rw [lenField_append _ _ h8, hl]
  have h3 : ¬ (cfg.max > 0 ∧ f.length > cfg.max) := by
    intro ⟨a, b⟩; have := hm a; omega
  rw [cutAll_unfold, hlen, if_neg (by simp; omega), if_neg (by omega), if_neg h3,
    if_neg (by simp), List.take_left', List.drop_left', hs]
  all_goals rfl

/-- (9) -/
theorem cutAll_wf_frames (cfg : Cfg) (fs : List Bytes) (hwf : ∀ f ∈ fs, WF cfg f) :
    cutAll cfg fs.flatten = .more fs [] := by
  induction fs with
  | nil => exact cutAll_nil cfg
  | cons f fs ih =>
    rw [List.flatten_cons, cutAll_wf_cons cfg f _ (hwf f (by simp)),
      ih (fun g hg => hwf g (by simp [hg]))]
    rfl

/-- (10) segmentation independence for a stream of well-formed frames: however the byte stream
    is chopped into chunks, exactly the frames come out, in order, and nothing stays buffered -/
theorem segmentation (cfg : Cfg) (hmax : cfg.max = 0 ∨ 8 ≤ cfg.max) (fs chunks : List Bytes)
    (hwf : ∀ f ∈ fs, WF cfg f) (hj : chunks.flatten = fs.flatten) :
    readAll cfg RState.init chunks = (⟨[], none⟩, fs) := by
  rw [readAll_eq_cutAll cfg hmax, hj, cutAll_wf_frames cfg fs hwf]; rfl

/-- (11) well-formed frames followed by arbitrary bytes: the frames still come out first, in order -/
theorem segmentation_prefix (cfg : Cfg) (hmax : cfg.max = 0 ∨ 8 ≤ cfg.max)
    (fs chunks : List Bytes) (junk : Bytes)
    (hwf : ∀ f ∈ fs, WF cfg f) (hj : chunks.flatten = fs.flatten ++ junk) :
    ∃ gs, (readAll cfg RState.init chunks).2 = fs ++ gs := by
  rw [readAll_eq_cutAll cfg hmax, hj, cutAll_append cfg hmax, cutAll_wf_frames cfg fs hwf]
  exact ⟨(cutAll cfg ([] ++ junk)).frames, by simp⟩

/-! ### conservation: no byte is lost, duplicated or reordered -/

/-- the frames emitted (and the remainder, if the link stays open) are consecutive pieces of `buf` -/
def Conserves (buf : Bytes) : Res → Prop
  | .more fs r => fs.flatten ++ r = buf
  | .closed fs _ => fs.flatten <+: buf

theorem conserves_wait (cfg : Cfg) (buf : Bytes) (e : Nat) : Conserves buf (wait cfg buf e) := by
  rcases wait_cases cfg buf e with h | h <;> rw [h] <;> simp [Conserves]

theorem conserves_prepend (buf : Bytes) (l : Nat) (x : Res) (h : Conserves (buf.drop l) x) :
    Conserves buf (x.prepend [buf.take l]) := by
  cases x with
  | more fs r =>
    simp only [Conserves, Res.prepend] at *
    simp [h]
  | closed fs w =>
    simp only [Conserves, Res.prepend] at *
    obtain ⟨t, ht⟩ := h
    exact ⟨t, by simp [ht]⟩

theorem cut_conserves (cfg : Cfg) (fuel : Nat) (buf : Bytes) : Conserves buf (cut cfg fuel buf) := by
  induction fuel generalizing buf with
  | zero => simp [cut, Conserves]
  | succ n ih =>
    simp only [cut]
    split
    · exact conserves_wait ..
    · split
      · simp [Conserves]
      · split
        · simp [Conserves]
        · split
          · exact conserves_wait ..
          · split
            · simp [Conserves]
            · exact conserves_prepend _ _ _ (ih _)

/-- (3) -/
theorem cut_conserve (cfg : Cfg) (fuel : Nat) (buf : Bytes) :
    match cut cfg fuel buf with
    | .more fs r => fs.flatten ++ r = buf
    | .closed fs _ => fs.flatten <+: buf := by
  have h := cut_conserves cfg fuel buf
  cases hc : cut cfg fuel buf <;> rw [hc] at h <;> exact h

theorem cutAll_conserve (cfg : Cfg) (buf : Bytes) :
    match cutAll cfg buf with
    | .more fs r => fs.flatten ++ r = buf
    | .closed fs _ => fs.flatten <+: buf :=
  cut_conserve cfg (buf.length + 1) buf

/-! ### every emitted frame passed the checks -/

theorem wait_frames (cfg : Cfg) (buf : Bytes) (e : Nat) : (wait cfg buf e).frames = [] := by
  rcases wait_cases cfg buf e with h | h <;> rw [h] <;> rfl

/-- (4) -/
theorem cut_frames_ok (cfg : Cfg) (fuel : Nat) (buf : Bytes) :
    ∀ f ∈ (cut cfg fuel buf).frames,
      cfg.minLen ≤ f.length ∧ lenField f = f.length ∧ serveCheck cfg f = none ∧
      (cfg.max > 0 → f.length ≤ cfg.max) := by
  induction fuel generalizing buf with
  | zero => simp [cut, Res.frames]
  | succ n ih =>
    simp only [cut]
    split
    · simp [wait_frames]
    · split
      · simp [Res.frames]
      · split
        · simp [Res.frames]
        · split
          · simp [wait_frames]
          · split
            · simp [Res.frames]
            · rename_i hs
              intro f hf
              rw [Res.frames_prepend] at hf
              simp only [List.cons_append, List.nil_append, List.mem_cons] at hf
              rcases hf with rfl | hf
              · have h7 := serveCheck_none_len _ _ hs
                simp only [List.length_take] at h7
                have hlen : (buf.take (lenField buf)).length = lenField buf := by
                  simp only [List.length_take]; omega
                refine ⟨by omega, ?_, hs, by intro; omega⟩
                rw [lenField_take _ _ (by omega) (by omega), hlen]
              · exact ih _ f hf

theorem cut_frames_len7 (cfg : Cfg) (fuel : Nat) (buf : Bytes) :
    ∀ f ∈ (cut cfg fuel buf).frames, 7 ≤ f.length := fun f hf =>
  serveCheck_none_len cfg f (cut_frames_ok cfg fuel buf f hf).2.2.1

theorem cutAll_frames_ok (cfg : Cfg) (buf : Bytes) :
    ∀ f ∈ (cutAll cfg buf).frames,
      cfg.minLen ≤ f.length ∧ lenField f = f.length ∧ serveCheck cfg f = none ∧
      (cfg.max > 0 → f.length ≤ cfg.max) :=
  cut_frames_ok cfg (buf.length + 1) buf

/-! ### with the length guard of the D12 fix (`minLen ≥ 7`) `serve()` never panics -/

theorem wait_ne_crash (cfg : Cfg) (buf : Bytes) (e : Nat) (fs : List Bytes) :
    wait cfg buf e ≠ .closed fs .crash := by
  rcases wait_cases cfg buf e with h | h <;> rw [h] <;> simp

/-- (5) -/
theorem cut_no_crash (cfg : Cfg) (h : 7 ≤ cfg.minLen) (fuel : Nat) (buf : Bytes) :
    ∀ fs, cut cfg fuel buf ≠ .closed fs .crash := by
  induction fuel generalizing buf with
  | zero => intro fs; simp [cut]
  | succ n ih =>
    intro fs
    simp only [cut]
    split
    · exact wait_ne_crash _ _ _ _
    · split
      · simp
      · split
        · simp
        · split
          · exact wait_ne_crash _ _ _ _
          · split
            · rename_i w hs
              intro heq
              simp only [Res.closed.injEq] at heq
              rw [heq.2] at hs
              have := serveCheck_crash_len _ _ hs
              simp only [List.length_take] at this
              omega
            · intro heq
              cases hc : cut cfg n (buf.drop (lenField buf)) with
              | more gs r => rw [hc] at heq; simp [Res.prepend] at heq
              | closed gs w =>
                rw [hc] at heq
                simp only [Res.prepend, Res.closed.injEq] at heq
                exact ih _ gs (by rw [hc, heq.2])

theorem cutAll_no_crash (cfg : Cfg) (h : 7 ≤ cfg.minLen) (buf : Bytes) :
    ∀ fs, cutAll cfg buf ≠ .closed fs .crash :=
  cut_no_crash cfg h (buf.length + 1) buf

theorem stepChunk_no_crash (cfg : Cfg) (h : 7 ≤ cfg.minLen) (s : RState) (c : Bytes)
    (hs : s.closed ≠ some .crash) : (stepChunk cfg s c).1.closed ≠ some .crash := by
  unfold stepChunk
  split
  · exact hs
  · split
    · simp
    · rename_i fs w hc
      intro heq
      simp only [Option.some.injEq] at heq
      exact cutAll_no_crash cfg h _ fs (by rw [hc, heq])

theorem readAll_no_crash_from (cfg : Cfg) (h : 7 ≤ cfg.minLen) (chunks : List Bytes) :
    ∀ (s : RState), s.closed ≠ some .crash → (readAll cfg s chunks).1.closed ≠ some .crash := by
  induction chunks with
  | nil => intro s hs; exact hs
  | cons c cs ih =>
    intro s hs
    simp only [readAll]
    exact ih _ (stepChunk_no_crash cfg h s c hs)

/-- (5) whatever arrives on the link, in whatever segmentation, the reader never panics -/
theorem readAll_no_crash (cfg : Cfg) (h : 7 ≤ cfg.minLen) (chunks : List Bytes) :
    (readAll cfg RState.init chunks).1.closed ≠ some .crash :=
  readAll_no_crash_from cfg h chunks RState.init (by simp [RState.init])

end ErgoVerif.Stream

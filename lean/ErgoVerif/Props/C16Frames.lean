/-
C16 (frame-parser part) — hostile input safety of the protocol frame reader.

Model: Model/Stream.lean (`read()`/`serve()` of net/proto/connection.go with Go's index
operations explicit; the outcome `crash` is an index panic in the serve() goroutine, which has
no `recover` and therefore kills the node), Model/Link.lean (`linkCfg`: magic, version and the
lower bound on the length field as extracted from the working tree, Generated/Proto.lean).

Statement: for EVERY byte stream, cut into chunks in ANY way, and every max-message-size
setting, the reader ends in "waiting for more input" or in an error that closes this link only;
it never reaches the unrecovered panic.  Every frame it hands to the decoding workers is at least
8 bytes long (so the worker's `switch buf.B[7]` is in range), carries the right magic/version, has
a length field equal to its length and respects the max-message-size.

History: before the repair of D12 (`if l < 8 { return error }` in read()) the extracted bound
was 0 and the statement was false — `C16_frames_unguarded_crashes` keeps the witness
(an 8-byte header whose length field is 0).
-/
import ErgoVerif.Lemmas.Stream
import ErgoVerif.Model.StreamLink
import ErgoVerif.Lemmas.Envelope
namespace ErgoVerif.Props.C16Frames
open ErgoVerif.Stream ErgoVerif.Generated.Proto

/-- the lower bound read() enforces on the length field covers the whole header -/
theorem read_guard_covers_header (max : Nat) : 8 ≤ (linkCfg max).minLen := by
  show 8 ≤ readMinLen; decide

/-- for every byte stream and every segmentation the link reader never panics outside a recover scope -/
theorem C16_frames_no_crash (max : Nat) (chunks : List Bytes) :
    (readAll (linkCfg max) RState.init chunks).1.closed ≠ some .crash :=
  readAll_no_crash (linkCfg max) (by have := read_guard_covers_header max; omega) chunks

/-- … so it ends waiting for input or with an error that closes only this link -/
theorem C16_frames_outcome (max : Nat) (chunks : List Bytes) :
    let s := (readAll (linkCfg max) RState.init chunks).1
    s.closed = none ∨ s.closed = some .badLen ∨ s.closed = some .tooLong ∨ s.closed = some .tooLarge ∨
    s.closed = some .badMagic ∨ s.closed = some .badVersion := by
  intro s
  have h := C16_frames_no_crash max chunks
  show s.closed = none ∨ _
  generalize s.closed = c at h ⊢
  cases c with
  | none => simp
  | some w => cases w <;> simp at h ⊢

/-- every frame handed to the decoding workers has a complete header, a truthful length field, the
    right magic/version and respects the size limit (whatever bytes arrive, however they are cut) -/
theorem C16_frames_wellformed (max : Nat) (hmax : max = 0 ∨ 8 ≤ max) (chunks : List Bytes) :
    ∀ f ∈ (readAll (linkCfg max) RState.init chunks).2,
      8 ≤ f.length ∧ lenField f = f.length ∧ serveCheck (linkCfg max) f = none ∧ (max > 0 → f.length ≤ max) := by
  intro f hf
  rw [readAll_eq_cutAll (linkCfg max) hmax] at hf
  have h := cutAll_frames_ok (linkCfg max) chunks.flatten f hf
  have h8 := read_guard_covers_header max
  exact ⟨by omega, h.2.1, h.2.2.1, h.2.2.2⟩

/-- a stream with an oversized length field is refused before its body is buffered -/
example : (readAll (linkCfg 100) RState.init [[78, 1, 0, 0, 1, 0, 0, 101]]).1.closed = some .tooLong := by decide

/-- a stream with a length field below the header size is refused (D12 repaired) -/
example : (readAll (linkCfg 0) RState.init [[78, 1, 0, 0], [0, 0, 0, 101]]).1.closed = some .badLen := by decide

/-- regression witness of D12: without the lower bound the same stream is an unrecovered panic -/
theorem C16_frames_unguarded_crashes :
    ∃ chunks, (readAll (unguardedCfg 0) RState.init chunks).1.closed = some .crash :=
  ⟨[[78, 1, 0, 0], [0, 0, 0, 101]], by decide⟩

/-- … and so does a length field of 5 (magic and version pass, `buf.B[6]` is out of range) -/
example : (readAll (unguardedCfg 0) RState.init [[78, 1, 0, 0, 0, 5, 0, 101]]).1.closed = some .crash := by decide

/-! ## allocation of the compressed receive case (listed finding C16/D27) -/
section Alloc
open ErgoVerif.Envelope ErgoVerif.Frame

/-- full statement: unpacking a compressed frame allocates memory in proportion to the frame -/
def C16_frames_alloc_full : Prop := ∀ f : List UInt8, openAlloc f ≤ allocBudget f.length

/-- refuted by the current code: a 13-byte frame (header, type Z, compression id, declared length
    0xFFFFFFFF) makes the receive case allocate 4 GiB before it looks at any data -/
theorem C16_frames_alloc_counterexample : ¬ C16_frames_alloc_full := by
  intro h
  have := h [78, 1, 0, 0, 0, 13, 0, 200, 100, 255, 255, 255, 255]
  revert this
  decide

/-- what does hold: at most 4 GiB per frame, nothing for a frame without the 4 length bytes, and for
    an envelope built by an honest sender exactly the real unpacked size -/
theorem C16_frames_alloc_partial (f : List UInt8) :
    openAlloc f < 2 ^ 32 ∧ (f.length < 13 → openAlloc f = 0) := by
  constructor
  · unfold openAlloc
    split; · omega
    split; · omega
    have hl : (((f.drop zSkipBytes).take 4)).length ≤ 4 := by simp; omega
    generalize ((f.drop zSkipBytes).take 4) = w at hl
    match w, hl with
    | [], _ => simp [beVal]
    | [a], _ => have := a.toNat_lt; simp [beVal]; omega
    | [a, b], _ => have := a.toNat_lt; have := b.toNat_lt; simp [beVal]; omega
    | [a, b, c], _ => have := a.toNat_lt; have := b.toNat_lt; have := c.toNat_lt; simp [beVal]; omega
    | [a, b, c, d], _ =>
      have := a.toNat_lt; have := b.toNat_lt; have := c.toNat_lt; have := d.toNat_lt; simp [beVal]; omega
  · intro h
    unfold openAlloc
    have h2 : f.length < zSkipBytes + 4 := by simpa [zSkipBytes] using h
    split <;> simp [h2]

theorem C16_frames_alloc_honest (cd : Codec) (t : Nat) (frame : List UInt8) (hl : frame.length < 2 ^ 32) :
    openAlloc (envelope cd t frame) = frame.length := by
  have hlen := envelope_length cd t frame
  unfold openAlloc
  rw [envelope_declared, hlen]
  have h1 : ¬ (zPreallocate + 4 + (cd.comp t frame).length < 10) := by simp [zPreallocate]; omega
  have h2 : ¬ (zPreallocate + 4 + (cd.comp t frame).length < zSkipBytes + 4) := by simp [zPreallocate, zSkipBytes]
  simp only [h1, h2, if_false]
  exact beVal_beBytes 4 _ (by simpa using hl)

end Alloc

end ErgoVerif.Props.C16Frames

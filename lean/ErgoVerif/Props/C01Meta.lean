import ErgoVerif.Lemmas.Meta
/-!
# C01 / C05 — meta-processes

`Model/Meta.lean`: the meta state-word protocol. The `Start` callback runs concurrently with the mailbox handler by
design (it is the meta-process's own blocking loop) and is not one of the callbacks the property lists; the statements
below are about the mailbox handlers (HandleMessage / HandleCall / HandleInspect) and `Terminate`.
-/
namespace ErgoVerif.Props.C01Meta
open ErgoVerif ErgoVerif.Meta

/-- **One mailbox handler at a time**: for any number of senders and any interleaving, at most one goroutine is
inside the handler loop of a meta-process (and at most one holds the right to start one). -/
theorem C01_meta_handlers_serial (c : Cfg) (h : Reach c) : c.rb ≤ 1 ∧ c.h1 + c.r0 + c.rb + c.r3 + c.rE ≤ 1 := by
  have hi := reach_inv h
  unfold Meta.Inv at hi
  omega

/-- **Terminate at most once** (C05): the swap to `terminated` elects a single finaliser among the start goroutine
and the handler goroutine. -/
theorem C05_meta_terminate_once (c : Cfg) (h : Reach c) : c.terms ≤ 1 ∧ c.tmS + c.tmH ≤ c.terms := by
  have hi := reach_inv h
  unfold Meta.Inv at hi
  omega

/-- after Terminate has started no handler is started any more: the word never leaves `terminated` -/
theorem C05_meta_final (c : Cfg) (h : Reach c) (ht : c.terms = 1) : c.st = .terminated := by
  have hi := reach_inv h
  unfold Meta.Inv at hi
  obtain ⟨st, a0, a1, a2, s1, h0, h1, r0, rb, r3, r4, r5, rE, tmS, tmH, mail, handled, terms⟩ := c
  cases st <;> simp at hi ht ⊢ <;> omega

/-- the full statement for meta-processes: Terminate never overlaps a mailbox handler -/
def C01_meta_full : Prop := ∀ c, Reach c → c.rb + c.tmS + c.tmH ≤ 1

/-- it is false for the code as it is (defect D22): when `Start` returns while a handler is executing, the start
goroutine wins the swap and runs `Terminate` concurrently with the handler. -/
theorem C01_meta_counterexample : ¬ C01_meta_full := by
  intro h
  have := h _ ⟨[.storeSleep, .newSender, .push, .cas, .go, .runner, .pop, .startRet, .swapStart], rfl⟩
  revert this; decide

/-- **Partial**: a Terminate entered by the handler goroutine itself (handler error, exit message) never overlaps a
handler, and neither does any Terminate unless `Start` returned while a handler was running. -/
theorem C01_meta_partial (c : Cfg) (h : Reach c) : c.rb + c.tmH ≤ 1 ∧ (c.tmH ≥ 1 → c.rb = 0) := by
  have hi := reach_inv h
  unfold Meta.Inv at hi
  omega

/-- **No lost wake-up for the meta mailbox**: when nothing can move and the meta-process sleeps, its mailbox is
empty. -/
theorem C02_meta_no_lost_wakeup (c : Cfg) (h : Reach c) (hs : c.st = .sleep)
    (hq : c.h0 = 0 ∧ c.r4 = 0 ∧ c.r5 = 0) : c.mail = 0 := by
  have hi := reach_inv h
  unfold Meta.Inv at hi
  have := hi.2.2.2.2.2.2.2.2.2.2 hs
  omega

/-- non-vacuity -/
example : ∃ c, Reach c ∧ c.rb = 1 ∧ c.a1 = 1 ∧ c.handled = 1 :=
  ⟨_, ⟨[.storeSleep, .newSender, .push, .cas, .cas, .go, .runner, .pop], rfl⟩, by decide⟩

end ErgoVerif.Props.C01Meta

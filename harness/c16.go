package main

// C16 — hostile input safety. The property spans three parsers (EDF decoder, handshake reader,
// protocol frame parser); each lives in its own file and registers a part here.

var c16parts []func(*Ctx)

func init() {
	props["C16"] = func(c *Ctx) {
		for _, p := range c16parts {
			p(c)
		}
		if len(c16parts) == 0 {
			c.R.Note("no C16 parts registered")
		}
	}
}

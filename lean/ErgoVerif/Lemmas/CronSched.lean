/-
Invariant of the cron scheduler model and what a tick fires.
-/
import ErgoVerif.Model.CronSched
namespace ErgoVerif.CronSched
open ErgoVerif.Cron

variable (civil : CivilFn)

/-! ### setDisable -/

@[simp] theorem setDisable_name (objs : Nat → JobObj) (p : Nat) (b : Bool) (q : Nat) :
    (setDisable objs p b q).name = (objs q).name := by unfold setDisable; split <;> rfl
@[simp] theorem setDisable_spec (objs : Nat → JobObj) (p : Nat) (b : Bool) (q : Nat) :
    (setDisable objs p b q).spec = (objs q).spec := by unfold setDisable; split <;> rfl
@[simp] theorem setDisable_loc (objs : Nat → JobObj) (p : Nat) (b : Bool) (q : Nat) :
    (setDisable objs p b q).loc = (objs q).loc := by unfold setDisable; split <;> rfl
@[simp] theorem setDisable_same (objs : Nat → JobObj) (p : Nat) (b : Bool) :
    (setDisable objs p b p).disable = b := by simp [setDisable]
theorem setDisable_other (objs : Nat → JobObj) (p : Nat) (b : Bool) (q : Nat) (h : q ≠ p) :
    (setDisable objs p b q).disable = (objs q).disable := by simp [setDisable, h]
@[simp] theorem runsAt_setDisable (objs : Nat → JobObj) (p : Nat) (b : Bool) (q : Nat) (m : Int) :
    runsAt civil (setDisable objs p b q) m = runsAt civil (objs q) m := by simp [runsAt]

/-! ### findJob -/

theorem findJob_some {s : Sched} {name p : Nat} (h : findJob s name = some p) :
    p ∈ s.jobs ∧ (s.objs p).name = name := by
  unfold findJob at h
  exact ⟨List.mem_of_find?_eq_some h, by simpa using List.find?_some h⟩

theorem findJob_none {s : Sched} {name : Nat} (h : findJob s name = none) :
    ∀ q ∈ s.jobs, (s.objs q).name ≠ name := by
  unfold findJob at h
  intro q hq
  have := List.find?_eq_none.mp h q hq
  simpa using this

/-! ### scheduleJob / schedule -/

/-- the entries c.schedule pushes: the enabled jobs running at `next`, tagged with `next` -/
def dueList (s : Sched) (next : Int) (l : List Nat) : List (Nat × Int) :=
  (l.filter (fun p => (s.objs p).disable = false && runsAt civil (s.objs p) next)).map (fun p => (p, next))

theorem scheduleJob_proj (s : Sched) (p : Nat) :
    (scheduleJob civil s p).objs = s.objs ∧ (scheduleJob civil s p).nobjs = s.nobjs ∧
    (scheduleJob civil s p).jobs = s.jobs ∧ (scheduleJob civil s p).next = s.next ∧
    (scheduleJob civil s p).spool = s.spool ++ dueList civil s s.next [p] := by
  unfold scheduleJob dueList
  by_cases h1 : (s.objs p).disable = true
  · simp [h1]
  · have h1' : (s.objs p).disable = false := by simpa using h1
    by_cases h2 : runsAt civil (s.objs p) s.next = false
    · simp [h1', h2]
    · have h2' : runsAt civil (s.objs p) s.next = true := by simpa using h2
      simp [h1', h2']

theorem fold_scheduleJob (l : List Nat) (s : Sched) :
    (l.foldl (scheduleJob civil) s).objs = s.objs ∧ (l.foldl (scheduleJob civil) s).nobjs = s.nobjs ∧
    (l.foldl (scheduleJob civil) s).jobs = s.jobs ∧ (l.foldl (scheduleJob civil) s).next = s.next ∧
    (l.foldl (scheduleJob civil) s).spool = s.spool ++ dueList civil s s.next l := by
  induction l generalizing s with
  | nil => simp [dueList]
  | cons p rest ih =>
    obtain ⟨h1, h2, h3, h4, h5⟩ := scheduleJob_proj civil s p
    obtain ⟨i1, i2, i3, i4, i5⟩ := ih (scheduleJob civil s p)
    simp only [List.foldl_cons]
    refine ⟨i1.trans h1, i2.trans h2, i3.trans h3, i4.trans h4, ?_⟩
    rw [i5, h5, h4]
    simp only [dueList, h1, List.filter_cons, List.append_assoc]
    congr 1
    split <;> simp

theorem schedule_proj (s : Sched) (next : Int) :
    (schedule civil s next).objs = s.objs ∧ (schedule civil s next).nobjs = s.nobjs ∧
    (schedule civil s next).jobs = s.jobs ∧ (schedule civil s next).next = next ∧
    (schedule civil s next).spool = s.spool ++ dueList civil s next s.jobs := by
  unfold schedule
  obtain ⟨h1, h2, h3, h4, h5⟩ := fold_scheduleJob civil s.jobs { s with next := next }
  exact ⟨h1, h2, h3, h4, by rw [h5]; rfl⟩

theorem mem_dueList (s : Sched) (next : Int) (l : List Nat) (e : Nat × Int) :
    e ∈ dueList civil s next l ↔
      e.2 = next ∧ e.1 ∈ l ∧ (s.objs e.1).disable = false ∧ runsAt civil (s.objs e.1) next = true := by
  obtain ⟨p, m⟩ := e
  simp only [dueList, List.mem_map, List.mem_filter, Bool.and_eq_true, decide_eq_true_eq, Prod.mk.injEq]
  constructor
  · rintro ⟨q, ⟨h1, h2, h3⟩, rfl, rfl⟩; exact ⟨rfl, h1, h2, h3⟩
  · rintro ⟨rfl, h1, h2, h3⟩; exact ⟨p, ⟨h1, h2, h3⟩, rfl, rfl⟩

/-! ### the loop of the timer function -/

theorem fireLoop_spec (objs : Nat → JobObj) (now : Int) (spool : List (Nat × Int)) (fired : List Nat) (hn : fired.Nodup) :
    (fireLoop objs now spool fired).Nodup ∧
    ∀ p, p ∈ fireLoop objs now spool fired ↔ p ∈ fired ∨ ((p, now) ∈ spool ∧ (objs p).disable = false) := by
  induction spool generalizing fired with
  | nil => simp [fireLoop, hn]
  | cons e rest ih =>
    obtain ⟨q, tag⟩ := e
    simp only [fireLoop]
    -- the three "skip" branches share one argument
    have skip : (q = q → tag = now → (objs q).disable = false → q ∈ fired) →
        ((fireLoop objs now rest fired).Nodup ∧
          ∀ p, p ∈ fireLoop objs now rest fired ↔ p ∈ fired ∨ ((p, now) ∈ (q, tag) :: rest ∧ (objs p).disable = false)) := by
      intro hskip
      obtain ⟨i1, i2⟩ := ih fired hn
      refine ⟨i1, fun p => ?_⟩
      rw [i2 p]
      constructor
      · rintro (h | ⟨h, h'⟩)
        · exact Or.inl h
        · exact Or.inr ⟨List.mem_cons_of_mem _ h, h'⟩
      · rintro (h | ⟨h, h'⟩)
        · exact Or.inl h
        · rcases List.mem_cons.mp h with heq | h
          · simp only [Prod.mk.injEq] at heq
            obtain ⟨rfl, rfl⟩ := heq
            exact Or.inl (hskip rfl rfl h')
          · exact Or.inr ⟨h, h'⟩
    by_cases hd : (objs q).disable = true
    · simp only [hd, if_true]
      exact skip (fun _ _ h => by rw [hd] at h; cases h)
    · have hd' : (objs q).disable = false := by simpa using hd
      simp only [hd', Bool.false_eq_true, if_false]
      by_cases ht : tag ≠ now
      · simp only [ht, ne_eq, not_false_eq_true, if_true]
        exact skip (fun _ h _ => absurd h ht)
      · have ht' : tag = now := by simpa using ht
        subst ht'
        simp only [ne_eq, not_true_eq_false, if_false]
        by_cases hq : q ∈ fired
        · simp only [hq, if_true]
          exact skip (fun _ _ _ => hq)
        · simp only [hq, if_false]
          have hn' : (fired ++ [q]).Nodup := by
            rw [List.nodup_append]
            refine ⟨hn, by simp, ?_⟩
            intro a ha b hb
            simp at hb
            rintro rfl
            exact hq (hb ▸ ha)
          obtain ⟨i1, i2⟩ := ih (fired ++ [q]) hn'
          refine ⟨i1, fun p => ?_⟩
          rw [i2 p]
          simp only [List.mem_append, List.mem_cons, List.not_mem_nil, or_false, Prod.mk.injEq, and_true]
          constructor
          · rintro ((h | rfl) | ⟨h, h'⟩)
            · exact Or.inl h
            · exact Or.inr ⟨Or.inl rfl, hd'⟩
            · exact Or.inr ⟨Or.inr h, h'⟩
          · rintro (h | ⟨rfl | h, h'⟩)
            · exact Or.inl (Or.inl h)
            · exact Or.inl (Or.inr rfl)
            · exact Or.inr ⟨h, h'⟩

/-! ### the invariant (every operation, every interleaving of the two halves of the timer function) -/

structure Inv (s : Sched) : Prop where
  /-- a spool entry pushed for minute m runs at m -/
  spool_due : ∀ e ∈ s.spool, runsAt civil (s.objs e.1) e.2 = true
  spool_lt : ∀ e ∈ s.spool, e.1 < s.nobjs
  /-- an object that is not in the map is disabled (RemoveJob sets the flag; nothing clears it again) -/
  absent_disabled : ∀ p, p ∉ s.jobs → (s.objs p).disable = true
  jobs_lt : ∀ p ∈ s.jobs, p < s.nobjs
  names_inj : ∀ p ∈ s.jobs, ∀ q ∈ s.jobs, (s.objs p).name = (s.objs q).name → p = q
  jobs_nodup : s.jobs.Nodup

/-- the spool is complete for c.next: every present, enabled job that runs at c.next has an entry for c.next.
    Holds after c.schedule and is kept by the API calls; the drain half of the timer function ends it. -/
def Armed (s : Sched) : Prop :=
  ∀ p ∈ s.jobs, (s.objs p).disable = false → runsAt civil (s.objs p) s.next = true → (p, s.next) ∈ s.spool

theorem inv_init (next : Int) : Inv civil (init next) := by
  constructor <;> simp [init, JobObj.default]

theorem armed_init (next : Int) : Armed civil (init next) := by
  intro p hp; simp [init] at hp

/-- c.schedule keeps the invariant and arms the spool -/
theorem inv_schedule (s : Sched) (hs : Inv civil s) (next : Int) :
    Inv civil (schedule civil s next) ∧ Armed civil (schedule civil s next) := by
  obtain ⟨h1, h2, h3, h4, h5⟩ := schedule_proj civil s next
  refine ⟨⟨?_, ?_, ?_, ?_, ?_, ?_⟩, ?_⟩
  · intro e he; rw [h5] at he; rw [h1]
    rcases List.mem_append.mp he with he | he
    · exact hs.spool_due e he
    · obtain ⟨a, _, _, d⟩ := (mem_dueList civil _ _ _ _).mp he
      rw [a]; exact d
  · intro e he; rw [h5] at he; rw [h2]
    rcases List.mem_append.mp he with he | he
    · exact hs.spool_lt e he
    · exact hs.jobs_lt _ ((mem_dueList civil _ _ _ _).mp he).2.1
  · intro q hq; rw [h3] at hq; rw [h1]; exact hs.absent_disabled q hq
  · intro q hq; rw [h3] at hq; rw [h2]; exact hs.jobs_lt q hq
  · intro a ha b hb; rw [h3] at ha hb; rw [h1]; exact hs.names_inj a ha b hb
  · rw [h3]; exact hs.jobs_nodup
  · intro p hp hd hr
    rw [h3] at hp; rw [h1] at hd hr; rw [h4] at hr ⊢; rw [h5]
    exact List.mem_append_right _ ((mem_dueList civil _ _ _ _).mpr ⟨rfl, hp, hd, hr⟩)

theorem inv_drain (s : Sched) (hs : Inv civil s) : Inv civil { s with spool := [] } :=
  ⟨by simp, by simp, hs.absent_disabled, hs.jobs_lt, hs.names_inj, hs.jobs_nodup⟩

/-- the four API calls keep the invariant, and keep the spool armed when it was -/
theorem inv_api (s : Sched) (hs : Inv civil s) (op : Op)
    (hop : match op with | .add _ _ _ | .remove _ | .enable _ | .disable _ => True | _ => False) :
    Inv civil (step civil s op).1 ∧ (Armed civil s → Armed civil (step civil s op).1) := by
  cases op with
  | sched n => exact absurd hop (by simp)
  | drain => exact absurd hop (by simp)
  | tick n => exact absurd hop (by simp)
  | tickDrain n => exact absurd hop (by simp)
  | tickSched n => exact absurd hop (by simp)
  | disable name =>
    simp only [step]
    cases hf : findJob s name with
    | none => exact ⟨hs, id⟩
    | some p =>
      obtain ⟨hp, _⟩ := findJob_some hf
      refine ⟨⟨?_, hs.spool_lt, ?_, hs.jobs_lt, ?_, hs.jobs_nodup⟩, ?_⟩
      · intro e he; simp only [runsAt_setDisable]; exact hs.spool_due e he
      · intro q hq
        have : q ≠ p := fun e => hq (e ▸ hp)
        simp only [setDisable_other _ _ _ _ this]; exact hs.absent_disabled q hq
      · intro a ha b hb; simp only [setDisable_name]; exact hs.names_inj a ha b hb
      · intro ha q hq hd hr
        simp only [runsAt_setDisable] at hr
        by_cases e : q = p
        · subst e; simp at hd
        · simp only [setDisable_other _ _ _ _ e] at hd; exact ha q hq hd hr
  | remove name =>
    simp only [step]
    cases hf : findJob s name with
    | none => exact ⟨hs, id⟩
    | some p =>
      obtain ⟨hp, _⟩ := findJob_some hf
      refine ⟨⟨?_, hs.spool_lt, ?_, ?_, ?_, ?_⟩, ?_⟩
      · intro e he; simp only [runsAt_setDisable]; exact hs.spool_due e he
      · intro q hq
        simp only [List.mem_filter, decide_eq_true_eq, not_and, Decidable.not_not] at hq
        by_cases e : q = p
        · subst e; simp
        · simp only [setDisable_other _ _ _ _ e]
          exact hs.absent_disabled q (fun h => e (hq h))
      · intro q hq; exact hs.jobs_lt q (List.mem_filter.mp hq).1
      · intro a ha b hb; simp only [setDisable_name]
        exact hs.names_inj a (List.mem_filter.mp ha).1 b (List.mem_filter.mp hb).1
      · exact hs.jobs_nodup.filter _
      · intro ha q hq hd hr
        simp only [List.mem_filter, decide_eq_true_eq] at hq
        simp only [runsAt_setDisable] at hr
        simp only [setDisable_other _ _ _ _ hq.2] at hd
        exact ha q hq.1 hd hr
  | enable name =>
    simp only [step]
    cases hf : findJob s name with
    | none => exact ⟨hs, id⟩
    | some p =>
      obtain ⟨hp, _⟩ := findJob_some hf
      obtain ⟨h1, h2, h3, h4, h5⟩ := scheduleJob_proj civil { s with objs := setDisable s.objs p false } p
      simp only at h1 h2 h3 h4 h5
      refine ⟨⟨?_, ?_, ?_, ?_, ?_, ?_⟩, ?_⟩
      · intro e he
        rw [h1, runsAt_setDisable]
        rw [h5] at he
        rcases List.mem_append.mp he with he | he
        · exact hs.spool_due e he
        · obtain ⟨a, _, _, d⟩ := (mem_dueList civil _ _ _ _).mp he
          rw [a]; simpa using d
      · intro e he
        rw [h2]; rw [h5] at he
        rcases List.mem_append.mp he with he | he
        · exact hs.spool_lt e he
        · have := ((mem_dueList civil _ _ _ _).mp he).2.1
          simp at this; rw [this]; exact hs.jobs_lt _ hp
      · intro q hq
        rw [h3] at hq; rw [h1]
        have : q ≠ p := fun e => hq (e ▸ hp)
        simp only [setDisable_other _ _ _ _ this]; exact hs.absent_disabled q hq
      · intro q hq; rw [h3] at hq; rw [h2]; exact hs.jobs_lt q hq
      · intro a ha b hb; rw [h3] at ha hb; rw [h1]; simp only [setDisable_name]; exact hs.names_inj a ha b hb
      · rw [h3]; exact hs.jobs_nodup
      · intro ha q hq hd hr
        rw [h3] at hq; rw [h1] at hd hr; rw [h4] at hr ⊢; rw [h5]
        simp only [runsAt_setDisable] at hr
        by_cases e : q = p
        · subst e
          apply List.mem_append_right
          rw [mem_dueList]
          simp [hr]
        · simp only [setDisable_other _ _ _ _ e] at hd
          exact List.mem_append_left _ (ha q hq hd hr)
  | add name text loc =>
    simp only [step]
    by_cases hn : name = 0
    · simp only [hn, if_true]; exact ⟨hs, id⟩
    · simp only [hn, if_false]
      cases hpz : parseSpec text with
      | none => exact ⟨hs, id⟩
      | some spec =>
        cases hf : findJob s name with
        | some _ => exact ⟨hs, id⟩
        | none =>
          have hfree := findJob_none hf
          simp only
          have hnew : s.nobjs ∉ s.jobs := fun h => Nat.lt_irrefl _ (hs.jobs_lt _ h)
          obtain ⟨h1, h2, h3, h4, h5⟩ := scheduleJob_proj civil
            { s with objs := fun q => if q = s.nobjs then ⟨name, spec, loc, false⟩ else s.objs q,
                     nobjs := s.nobjs + 1, jobs := s.jobs ++ [s.nobjs] } s.nobjs
          simp only at h1 h2 h3 h4 h5
          have old : ∀ q, q ≠ s.nobjs → (if q = s.nobjs then (⟨name, spec, loc, false⟩ : JobObj) else s.objs q) = s.objs q := by
            intro q hq; simp [hq]
          refine ⟨⟨?_, ?_, ?_, ?_, ?_, ?_⟩, ?_⟩
          · intro e he
            rw [h1]; rw [h5] at he
            rcases List.mem_append.mp he with he | he
            · have : e.1 ≠ s.nobjs := Nat.ne_of_lt (hs.spool_lt e he)
              simp only [old e.1 this]; exact hs.spool_due e he
            · obtain ⟨a, _, _, d⟩ := (mem_dueList civil _ _ _ _).mp he
              rw [a]; exact d
          · intro e he
            rw [h2]; rw [h5] at he
            rcases List.mem_append.mp he with he | he
            · exact Nat.lt_succ_of_lt (hs.spool_lt e he)
            · have := ((mem_dueList civil _ _ _ _).mp he).2.1
              simp at this; omega
          · intro q hq
            rw [h3] at hq; rw [h1]
            simp only [List.mem_append, List.mem_singleton, not_or] at hq
            simp only [old q hq.2]; exact hs.absent_disabled q hq.1
          · intro q hq; rw [h3] at hq; rw [h2]
            rcases List.mem_append.mp hq with hq | hq
            · exact Nat.lt_succ_of_lt (hs.jobs_lt q hq)
            · simp at hq; omega
          · intro a ha b hb
            rw [h3] at ha hb; rw [h1]
            rcases List.mem_append.mp ha with ha | ha <;> rcases List.mem_append.mp hb with hb | hb
            · have ea : a ≠ s.nobjs := Nat.ne_of_lt (hs.jobs_lt a ha)
              have eb : b ≠ s.nobjs := Nat.ne_of_lt (hs.jobs_lt b hb)
              simp only [old a ea, old b eb]; exact hs.names_inj a ha b hb
            · have ea : a ≠ s.nobjs := Nat.ne_of_lt (hs.jobs_lt a ha)
              simp at hb; subst hb
              simp only [old a ea, if_true]
              intro h; exact absurd h (hfree a ha)
            · have eb : b ≠ s.nobjs := Nat.ne_of_lt (hs.jobs_lt b hb)
              simp at ha; subst ha
              simp only [old b eb, if_true]
              intro h; exact absurd h.symm (hfree b hb)
            · simp at ha hb; intro _; rw [ha, hb]
          · rw [h3, List.nodup_append]
            refine ⟨hs.jobs_nodup, by simp, ?_⟩
            intro a ha b hb
            simp at hb; subst hb
            rintro rfl; exact hnew ha
          · intro ha q hq hd hr
            rw [h3] at hq; rw [h1] at hd hr; rw [h4] at hr ⊢; rw [h5]
            rcases List.mem_append.mp hq with hq | hq
            · have hne : q ≠ s.nobjs := Nat.ne_of_lt (hs.jobs_lt q hq)
              simp only [old q hne] at hd hr
              exact List.mem_append_left _ (ha q hq hd hr)
            · simp at hq; subst hq
              apply List.mem_append_right
              rw [mem_dueList]
              exact ⟨rfl, by simp, hd, hr⟩

/-- every operation keeps the invariant — the API calls, the timer function as a whole or as two halves with
    API calls in between, and the harness-only operations -/
theorem inv_step (s : Sched) (hs : Inv civil s) (op : Op) : Inv civil (step civil s op).1 := by
  cases op with
  | sched n => exact (inv_schedule civil s hs n).1
  | drain => exact inv_drain civil s hs
  | tick now => exact (inv_schedule civil _ (inv_drain civil s hs) (now + 1)).1
  | tickDrain now => exact inv_drain civil s hs
  | tickSched now => exact (inv_schedule civil s hs (now + 1)).1
  | add name text loc => exact (inv_api civil s hs (.add name text loc) trivial).1
  | remove name => exact (inv_api civil s hs (.remove name) trivial).1
  | enable name => exact (inv_api civil s hs (.enable name) trivial).1
  | disable name => exact (inv_api civil s hs (.disable name) trivial).1

/-! ### what the timer function runs -/

/-- the pointers run by the (drain half of the) timer function at wall-clock minute `now` in state `s` -/
def firedAt (s : Sched) (now : Int) : List Nat := fireLoop s.objs now s.spool []

theorem firedAt_tick (s : Sched) (now : Int) :
    (step civil s (.tick now)).2 = .fired (firedAt s now) ∧ (step civil s (.tickDrain now)).2 = .fired (firedAt s now) := by
  simp [step, firedAt]

/-- soundness in every state the invariant holds in: what runs at `now` is present, enabled and runs at `now`; no repeats -/
theorem fired_sound (s : Sched) (hs : Inv civil s) (now : Int) :
    (firedAt s now).Nodup ∧
    ∀ p ∈ firedAt s now, p ∈ s.jobs ∧ (s.objs p).disable = false ∧ runsAt civil (s.objs p) now = true := by
  obtain ⟨f1, f2⟩ := fireLoop_spec s.objs now s.spool [] List.nodup_nil
  refine ⟨f1, fun p hp => ?_⟩
  have := (f2 p).mp hp
  simp only [List.not_mem_nil, false_or] at this
  obtain ⟨h1, h2⟩ := this
  refine ⟨?_, h2, hs.spool_due (p, now) h1⟩
  apply Classical.byContradiction
  intro hnot
  have := hs.absent_disabled p hnot
  rw [h2] at this; cases this

/-- exactness when the spool is armed and the timer function runs in the minute it was armed for -/
theorem fired_iff (s : Sched) (hs : Inv civil s) (ha : Armed civil s) (p : Nat) :
    p ∈ firedAt s s.next ↔ (p ∈ s.jobs ∧ (s.objs p).disable = false ∧ runsAt civil (s.objs p) s.next = true) := by
  constructor
  · exact (fired_sound civil s hs s.next).2 p
  · rintro ⟨h1, h2, h3⟩
    obtain ⟨_, f2⟩ := fireLoop_spec s.objs s.next s.spool [] List.nodup_nil
    exact (f2 p).mpr (Or.inr ⟨ha p h1 h2 h3, h2⟩)

end ErgoVerif.CronSched

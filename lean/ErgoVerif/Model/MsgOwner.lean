/-!
Ownership of `*gen.MailboxMessage` objects (gen/mailbox.go: a sync.Pool; `TakeMailboxMessage` gets an object out of
the pool or makes a new one, `ReleaseMailboxMessage` wipes the object and puts it back).

A sender takes an object, fills it and pushes it into a mailbox queue; the mailbox loop of the receiver
(node/meta.go `handle`, act/*.go `ProcessRun`) keeps the object it is handling in a local variable and, before it pops
the next one, gives the previous object back:

    if message != nil { gen.ReleaseMailboxMessage(message); message = nil }

`rs` says whether every release site resets the variable (regenerated: `Gen.Owner.releaseSites`). Objects are numbered.
-/
namespace ErgoVerif.MsgOwner

structure St where
  free : List Nat          -- the pool (with multiplicity)
  queued : List Nat        -- objects sitting in the mailbox queue, oldest first
  cur : Option Nat         -- the loop's variable `message`
  fresh : Nat              -- number of the next object Pool.New makes
deriving DecidableEq, Repr

def init : St := ⟨[], [], none, 0⟩

inductive Ev
  | take        -- a sender: TakeMailboxMessage, fill, push
  | release     -- the loop reaches a release site
  | pop         -- the loop pops the next object into its variable
deriving DecidableEq, Repr

def step (rs : Bool) (s : St) : Ev → St
  | .take =>
    match s.free with
    | o :: rest => { s with free := rest, queued := s.queued ++ [o] }
    | [] => { s with queued := s.queued ++ [s.fresh], fresh := s.fresh + 1 }
  | .release =>
    match s.cur with
    | none => s
    | some c => { s with free := c :: s.free, cur := if rs then none else some c }
  | .pop =>
    match s.queued with
    | [] => s
    | o :: rest => { s with queued := rest, cur := some o }

def run (rs : Bool) (s : St) : List Ev → St
  | [] => s
  | e :: es => run rs (step rs s e) es

/-- nobody else can get hold of an object that is still queued or being handled, and no two takers get the same one -/
def St.exclusive (s : St) : Prop :=
  s.free.Nodup ∧ ∀ o ∈ s.free, o ∉ s.queued ∧ s.cur ≠ some o

end ErgoVerif.MsgOwner

/-
Which cookie reaches the handshake (`gen.HandshakeOptions.Cookie`) on each side.
Cookies are numbers, 0 = the empty string.

* node/network.go start: `if options.Cookie == "" { options.Cookie = lib.RandomString(16) }; n.cookie = options.Cookie`
* node/network.go startAcceptor (after the D10 fix):
    `if a.Cookie == "" { acceptor.cookie = n.cookie } else { acceptor.cookie = a.Cookie }`
  and accept(): `hopts.Cookie = a.cookie; … if hopts.Cookie == "" { hopts.Cookie = n.cookie }`
* node/network.go connect: `hopts.Cookie = route.Cookie; if hopts.Cookie == "" { hopts.Cookie = n.cookie }`
  (routes from the registrar / from a resolver get `n.cookie` when they carry none: same rule)
-/
namespace ErgoVerif.CookieSel

/-- network.start: the node cookie (`random` stands for lib.RandomString(16), never empty) -/
def nodeCookie (optCookie random : Nat) : Nat := if optCookie = 0 then random else optCookie

/-- startAcceptor, the acceptor's cookie field (fixed code) -/
def acceptorField (node acceptorOpt : Nat) : Nat := if acceptorOpt = 0 then node else acceptorOpt

/-- startAcceptor before the D10 fix: the option is dropped, the field stays "" -/
def acceptorFieldOld (node acceptorOpt : Nat) : Nat := if acceptorOpt = 0 then node else 0

/-- accept(): what Accept is called with -/
def acceptCookie (node field : Nat) : Nat := if field = 0 then node else field

/-- the acceptor's effective cookie -/
def acceptorCookie (node acceptorOpt : Nat) : Nat := acceptCookie node (acceptorField node acceptorOpt)
def acceptorCookieOld (node acceptorOpt : Nat) : Nat := acceptCookie node (acceptorFieldOld node acceptorOpt)

/-- connect(): what Start and Join are called with -/
def routeCookie (node routeOpt : Nat) : Nat := if routeOpt = 0 then node else routeOpt

/- the acceptor over time: node/acceptor.go SetCookie assigns the field; node/network.go accept() either reads the
   fields for every incoming connection (`pc`, regenerated as Gen.Acceptor.optionsReadPerConnection) or — the code
   before the repair of D10b — builds its gen.HandshakeOptions ONCE, before the accept loop, so that the loop never
   sees a later SetCookie. -/

structure AccState where
  field : Nat      -- acceptor.cookie (what Acceptor.Cookie() reports)
  hopts : Nat      -- hopts.Cookie of the running accept loop
  deriving DecidableEq, Repr

/-- startAcceptor + `go n.accept(acceptor)` -/
def startAcc (node opt : Nat) : AccState := ⟨acceptorField node opt, acceptorField node opt⟩

/-- node/acceptor.go SetCookie -/
def setCookie (s : AccState) (c : Nat) : AccState := { s with field := c }

/-- the cookie the next incoming handshake is checked against -/
def handshakeCookie (pc : Bool) (node : Nat) (s : AccState) : Nat := acceptCookie node (if pc then s.field else s.hopts)

/-- what the documentation of gen.Acceptor promises: the cookie set last (the node's when that is empty) -/
def wantedCookie (node : Nat) (s : AccState) : Nat := acceptCookie node s.field

end ErgoVerif.CookieSel

package main

import (
	"fmt"
	"go/ast"
	"strings"
)

// Generated/Prio.lean: (a) for every local delivery function the priority -> mailbox queue mapping of its
// `switch …Priority { case High: queue = ….System; case Max: queue = ….Urgent; default: queue = ….Main }`,
// (b) the queue that exit / inspect deliveries push into, the priority of down notifications,
// (c) the order in which each behaviour's ProcessRun polls the four queues.
// Queue codes: Urgent 0, System 1, Main 2, Log 3.

func init() {
	generators = append(generators, generator{name: "Prio", run: genPrio, fallback: prioFallback})
}

const prioFallback = `namespace ErgoVerif.Gen.Prio
def prioMaps : List (String × Nat × Nat × Nat) := []
def directPush : List (String × Nat) := []
def downPriority : List Nat := []
def pollOrder : List (String × List Nat) := []
end ErgoVerif.Gen.Prio
`

var queueCode = map[string]int{"Urgent": 0, "System": 1, "Main": 2, "Log": 3}

func queueOfExpr(e ast.Expr) (int, bool) {
	s := selName(e)
	i := strings.LastIndex(s, ".")
	if i < 0 {
		return 0, false
	}
	c, ok := queueCode[s[i+1:]]
	return c, ok && strings.Contains(s, "mailbox")
}

// prioSwitch finds the first switch in fn whose cases mention MessagePriorityHigh / MessagePriorityMax and assign a mailbox queue.
func prioSwitch(fn *ast.FuncDecl) (normal, high, max int, ok bool) {
	normal, high, max = -1, -1, -1
	ast.Inspect(fn.Body, func(n ast.Node) bool {
		sw, isSw := n.(*ast.SwitchStmt)
		if !isSw || ok {
			return !ok
		}
		nn, hh, mm := -1, -1, -1
		for _, st := range sw.Body.List {
			cc := st.(*ast.CaseClause)
			q := -1
			for _, b := range cc.Body {
				if as, isAs := b.(*ast.AssignStmt); isAs && len(as.Rhs) == 1 {
					if c, okq := queueOfExpr(as.Rhs[0]); okq {
						q = c
					}
				}
			}
			if q < 0 {
				continue
			}
			if cc.List == nil {
				nn = q
			}
			for _, e := range cc.List {
				nm := selName(e)
				switch {
				case strings.HasSuffix(nm, "MessagePriorityHigh"):
					hh = q
				case strings.HasSuffix(nm, "MessagePriorityMax"):
					mm = q
				case strings.HasSuffix(nm, "MessagePriorityNormal"):
					nn = q
				}
			}
		}
		if nn >= 0 && hh >= 0 && mm >= 0 {
			normal, high, max, ok = nn, hh, mm, true
		}
		return !ok
	})
	return
}

// directQueue finds `X.mailbox.<Q>.Push(` in fn
func directQueue(fn *ast.FuncDecl) (int, bool) {
	res, ok := -1, false
	ast.Inspect(fn.Body, func(n ast.Node) bool {
		c, isC := n.(*ast.CallExpr)
		if !isC || ok {
			return !ok
		}
		if se, isSel := c.Fun.(*ast.SelectorExpr); isSel && se.Sel.Name == "Push" {
			if q, okq := queueOfExpr(se.X); okq {
				res, ok = q, true
			}
		}
		return !ok
	})
	return res, ok
}

func pollOrderOf(fn *ast.FuncDecl) []int64 {
	var order []int64
	ast.Inspect(fn.Body, func(n ast.Node) bool {
		c, isC := n.(*ast.CallExpr)
		if !isC {
			return true
		}
		if se, isSel := c.Fun.(*ast.SelectorExpr); isSel && se.Sel.Name == "Pop" {
			if q, okq := queueOfExpr(se.X); okq {
				order = append(order, int64(q))
			}
		}
		return true
	})
	return order
}

func genPrio() (string, error) {
	core, err := parseFile("node/core.go")
	if err != nil {
		return "", err
	}
	proc, err := parseFile("node/process.go")
	if err != nil {
		return "", err
	}
	var sb strings.Builder
	sb.WriteString("namespace ErgoVerif.Gen.Prio\n")
	sb.WriteString("/-- (function, queue for Normal, High, Max); queues: Urgent 0, System 1, Main 2, Log 3 -/\ndef prioMaps : List (String × Nat × Nat × Nat) := [\n")
	type site struct {
		f    *ast.File
		recv string
		name string
	}
	sites := []site{{core, "node", "RouteSendPID"}, {core, "node", "RouteSendProcessID"}, {core, "node", "RouteSendAlias"},
		{core, "node", "RouteCallPID"}, {core, "node", "RouteCallProcessID"}, {core, "node", "RouteCallAlias"},
		{core, "node", "sendEventMessage"}, {proc, "process", "SendPID"}, {proc, "process", "Forward"}}
	var rows []string
	for _, s := range sites {
		fd := funcDecl(s.f, s.recv, s.name)
		if fd == nil {
			return "", fmt.Errorf("function %s.%s not found", s.recv, s.name)
		}
		n, h, m, ok := prioSwitch(fd)
		if !ok {
			return "", fmt.Errorf("%s.%s: priority switch not found", s.recv, s.name)
		}
		rows = append(rows, fmt.Sprintf("  (\"%s\", %d, %d, %d)", s.name, n, h, m))
	}
	sb.WriteString(strings.Join(rows, ",\n") + "]\n")
	// direct pushes
	sb.WriteString("/-- deliveries that bypass the priority: (function, queue) -/\ndef directPush : List (String × Nat) := [\n")
	rows = nil
	for _, s := range []site{{core, "node", "sendExitMessage"}, {proc, "process", "Inspect"}} {
		fd := funcDecl(s.f, s.recv, s.name)
		if fd == nil {
			return "", fmt.Errorf("function %s.%s not found", s.recv, s.name)
		}
		q, ok := directQueue(fd)
		if !ok {
			return "", fmt.Errorf("%s.%s: direct mailbox push not found", s.recv, s.name)
		}
		rows = append(rows, fmt.Sprintf("  (\"%s\", %d)", s.name, q))
	}
	sb.WriteString(strings.Join(rows, ",\n") + "]\n")
	// priority of down notifications: every composite literal gen.MessageOptions{Priority: X} inside RouteTerminate*/RouteNodeDown
	var downs []int64
	for _, name := range []string{"RouteTerminatePID", "RouteTerminateProcessID", "RouteTerminateAlias", "RouteTerminateEvent", "RouteNodeDown"} {
		fd := funcDecl(core, "node", name)
		if fd == nil {
			return "", fmt.Errorf("function node.%s not found", name)
		}
		found := false
		ast.Inspect(fd.Body, func(n ast.Node) bool {
			cl, isCl := n.(*ast.CompositeLit)
			if !isCl || !strings.HasSuffix(selName(cl.Type), "MessageOptions") {
				return true
			}
			for _, el := range cl.Elts {
				if kv, isKv := el.(*ast.KeyValueExpr); isKv && selName(kv.Key) == "Priority" {
					v := selName(kv.Value)
					switch {
					case strings.HasSuffix(v, "MessagePriorityHigh"):
						downs = append(downs, 1)
					case strings.HasSuffix(v, "MessagePriorityMax"):
						downs = append(downs, 2)
					default:
						downs = append(downs, 0)
					}
					found = true
				}
			}
			return true
		})
		if !found {
			return "", fmt.Errorf("node.%s: MessageOptions{Priority: …} of the down notification not found", name)
		}
	}
	fmt.Fprintf(&sb, "/-- priority (0 normal, 1 high, 2 max) of the down notifications sent by RouteTerminatePID/ProcessID/Alias/Event and RouteNodeDown -/\ndef downPriority : List Nat := %s\n", leanNatList(downs))
	// poll order
	sb.WriteString("/-- order in which ProcessRun polls the queues -/\ndef pollOrder : List (String × List Nat) := [\n")
	rows = nil
	for _, b := range []struct{ file, recv string }{{"act/actor.go", "Actor"}, {"act/supervisor.go", "Supervisor"}, {"act/pool.go", "Pool"}, {"act/web_worker.go", "WebWorker"}} {
		f, err := parseFile(b.file)
		if err != nil {
			return "", err
		}
		fd := funcDecl(f, b.recv, "ProcessRun")
		if fd == nil {
			return "", fmt.Errorf("%s.ProcessRun not found", b.recv)
		}
		rows = append(rows, fmt.Sprintf("  (\"%s\", %s)", b.recv, leanNatList(pollOrderOf(fd))))
	}
	sb.WriteString(strings.Join(rows, ",\n") + "]\n")
	sb.WriteString("end ErgoVerif.Gen.Prio\n")
	return sb.String(), nil
}

package main

import (
	"fmt"
	"sort"
	"strings"
	"sync"

	"ergo.services/ergo/gen"
)

// K2 on the TargetManager: one random operation sequence applied to
// gen.CreateDefaultTargetManager() and to the Lean model `Drive/TM` (driver "tm");
// the canonical answer of every operation is compared.  Shared by C14 (node-down part)
// and usable by C04.

// ---- value universe ---------------------------------------------------------------

type tmPid struct{ node, id, cr int }

func (p tmPid) tok() string { return fmt.Sprintf("%d.%d.%d", p.node, p.id, p.cr) }
func (p tmPid) gen() gen.PID {
	return gen.PID{Node: tmNode(p.node), ID: uint64(p.id), Creation: int64(p.cr)}
}

func tmNode(n int) gen.Atom { return gen.Atom(fmt.Sprintf("n%d@host", n)) }
func tmName(n int) gen.Atom { return gen.Atom(fmt.Sprintf("name%d", n)) }

// tmTarget: kind P,N,A,E,O,X
type tmTarget struct {
	kind   byte
	node   int
	id, cr int // id doubles as the name index for N/E and as the value for X
}

func (t tmTarget) tok() string {
	switch t.kind {
	case 'P', 'A':
		return fmt.Sprintf("%c%d.%d.%d", t.kind, t.node, t.id, t.cr)
	case 'N', 'E':
		return fmt.Sprintf("%c%d.%d", t.kind, t.node, t.id)
	case 'O':
		return fmt.Sprintf("O%d", t.node)
	}
	return fmt.Sprintf("X%d", t.id)
}

func (t tmTarget) gen() any {
	switch t.kind {
	case 'P':
		return gen.PID{Node: tmNode(t.node), ID: uint64(t.id), Creation: int64(t.cr)}
	case 'N':
		return gen.ProcessID{Node: tmNode(t.node), Name: tmName(t.id)}
	case 'A':
		// the model's alias id is one number; spread it over the three words injectively
		return gen.Alias{Node: tmNode(t.node), Creation: int64(t.cr), ID: [3]uint64{uint64(t.id), uint64(t.id) * 7, 3}}
	case 'E':
		return gen.Event{Node: tmNode(t.node), Name: tmName(t.id)}
	case 'O':
		return tmNode(t.node)
	}
	return fmt.Sprintf("other-%d", t.id) // a Go value of none of the five switched types
}

func tmTargetTok(v any) string {
	switch t := v.(type) {
	case gen.PID:
		return fmt.Sprintf("P%d.%d.%d", tmNodeNum(t.Node), t.ID, t.Creation)
	case gen.ProcessID:
		return fmt.Sprintf("N%d.%d", tmNodeNum(t.Node), tmNameNum(t.Name))
	case gen.Alias:
		return fmt.Sprintf("A%d.%d.%d", tmNodeNum(t.Node), t.ID[0], t.Creation)
	case gen.Event:
		return fmt.Sprintf("E%d.%d", tmNodeNum(t.Node), tmNameNum(t.Name))
	case gen.Atom:
		return fmt.Sprintf("O%d", tmNodeNum(t))
	case string:
		var n int
		fmt.Sscanf(t, "other-%d", &n)
		return fmt.Sprintf("X%d", n)
	}
	return fmt.Sprintf("?%v", v)
}
func tmPidTok(p gen.PID) string {
	return fmt.Sprintf("%d.%d.%d", tmNodeNum(p.Node), p.ID, p.Creation)
}
func tmNodeNum(a gen.Atom) int { var n int; fmt.Sscanf(string(a), "n%d@host", &n); return n }
func tmNameNum(a gen.Atom) int { var n int; fmt.Sscanf(string(a), "name%d", &n); return n }

func tmList(xs []string) string {
	if len(xs) == 0 {
		return "-"
	}
	sort.Strings(xs)
	return strings.Join(xs, ";")
}

func tmErr(err error) string {
	switch err {
	case nil:
		return "ok"
	case gen.ErrTargetExist:
		return "exist"
	case gen.ErrTargetUnknown:
		return "unknown"
	}
	return "err:" + err.Error()
}

// ---- generator ----------------------------------------------------------------------

type tmGen struct {
	rng     *Rng
	nodes   int // node numbers 1..nodes (1 = "local")
	pids    []tmPid
	targets []tmTarget
}

func newTmGen(rng *Rng) *tmGen {
	g := &tmGen{rng: rng, nodes: 2 + rng.Intn(3)}
	// small universe so that add/remove/has collide often; two incarnations of some ids
	np := 3 + rng.Intn(6)
	for i := 0; i < np; i++ {
		p := tmPid{node: 1 + rng.Intn(g.nodes), id: 1000 + rng.Intn(6), cr: 7 + rng.Intn(2)}
		g.pids = append(g.pids, p)
	}
	nt := 4 + rng.Intn(8)
	for i := 0; i < nt; i++ {
		k := "PPNAEOX"[rng.Intn(7)]
		t := tmTarget{kind: k, node: 1 + rng.Intn(g.nodes), id: rng.Intn(4), cr: 7 + rng.Intn(2)}
		if k == 'P' {
			// often one of the consumer pids (a process can be both holder and target)
			if rng.Bool() {
				p := g.pids[rng.Intn(len(g.pids))]
				t.node, t.id, t.cr = p.node, p.id, p.cr
			} else {
				t.id = 1000 + rng.Intn(6)
			}
		}
		g.targets = append(g.targets, t)
	}
	return g
}

func (g *tmGen) pid() tmPid       { return g.pids[g.rng.Intn(len(g.pids))] }
func (g *tmGen) target() tmTarget { return g.targets[g.rng.Intn(len(g.targets))] }

// ---- reference oracle: the specification as a plain set -------------------------------

type tmRel struct {
	c   string
	t   string
	mon bool
}

// ---- one sequence -------------------------------------------------------------------

type tmSeq struct {
	lines []string // lines sent to the model
	impl  []string // canonical answers of the implementation
}

// tmRunSequence applies a random op sequence to a fresh real TargetManager; returns the protocol lines and
// the implementation's answers; checks the node-down property with an independent set oracle.
func tmRunSequence(c *Ctx, g *tmGen, n int, oracle func(sig, what string, replay interface{})) tmSeq {
	r := c.R
	tm := gen.CreateDefaultTargetManager()
	var s tmSeq
	s.lines = append(s.lines, "reset")
	s.impl = append(s.impl, "ok")
	set := map[tmRel]bool{} // specification state
	nodeOfPid := func(tok string) int { var a, b, cc int; fmt.Sscanf(tok, "%d.%d.%d", &a, &b, &cc); return a }
	nodeOfTarget := func(tok string) int {
		if tok[0] == 'X' {
			return -1
		}
		var a int
		fmt.Sscanf(tok[1:], "%d", &a)
		return a
	}
	for i := 0; i < n; i++ {
		k := g.rng.Intn(100)
		var line, ans string
		switch {
		case k < 22: // add link
			p, t := g.pid(), g.target()
			line = "al " + p.tok() + " " + t.tok()
			ans = tmErr(tm.AddLink(p.gen(), t.gen()))
			key := tmRel{p.tok(), t.tok(), false}
			if (ans == "exist") != set[key] {
				oracle("C14/tm-add", fmt.Sprintf("AddLink answered %s but relation present=%v", ans, set[key]), s.lines)
			}
			set[key] = true
			r.Count("tm.add")
		case k < 44:
			p, t := g.pid(), g.target()
			line = "am " + p.tok() + " " + t.tok()
			ans = tmErr(tm.AddMonitor(p.gen(), t.gen()))
			key := tmRel{p.tok(), t.tok(), true}
			if (ans == "exist") != set[key] {
				oracle("C14/tm-add", fmt.Sprintf("AddMonitor answered %s but relation present=%v", ans, set[key]), s.lines)
			}
			set[key] = true
			r.Count("tm.add")
		case k < 52:
			p, t := g.pid(), g.target()
			line = "rl " + p.tok() + " " + t.tok()
			ans = tmErr(tm.RemoveLink(p.gen(), t.gen()))
			delete(set, tmRel{p.tok(), t.tok(), false})
			r.Count("tm.remove")
		case k < 60:
			p, t := g.pid(), g.target()
			line = "rm " + p.tok() + " " + t.tok()
			ans = tmErr(tm.RemoveMonitor(p.gen(), t.gen()))
			delete(set, tmRel{p.tok(), t.tok(), true})
			r.Count("tm.remove")
		case k < 65:
			p, t := g.pid(), g.target()
			line = "hl " + p.tok() + " " + t.tok()
			ans = fmt.Sprint(tm.HasLink(p.gen(), t.gen()))
			if (ans == "true") != set[tmRel{p.tok(), t.tok(), false}] {
				oracle("C14/tm-has", "HasLink disagrees with the set of added relations", s.lines)
			}
			r.Count("tm.has")
		case k < 70:
			p, t := g.pid(), g.target()
			line = "hm " + p.tok() + " " + t.tok()
			ans = fmt.Sprint(tm.HasMonitor(p.gen(), t.gen()))
			if (ans == "true") != set[tmRel{p.tok(), t.tok(), true}] {
				oracle("C14/tm-has", "HasMonitor disagrees with the set of added relations", s.lines)
			}
			r.Count("tm.has")
		case k < 75:
			p := g.pid()
			line = "cc " + p.tok()
			l, m := tm.CleanupConsumer(p.gen())
			var ls, ms []string
			for _, x := range l {
				ls = append(ls, tmTargetTok(x))
			}
			for _, x := range m {
				ms = append(ms, tmTargetTok(x))
			}
			ans = "L=" + tmList(ls) + " M=" + tmList(ms)
			for key := range set {
				if key.c == p.tok() {
					delete(set, key)
				}
			}
			r.Count("tm.cleanupConsumer")
		case k < 81:
			t := g.target()
			line = "ct " + t.tok()
			l, m := tm.CleanupTarget(t.gen())
			var ls, ms []string
			for _, x := range l {
				ls = append(ls, tmPidTok(x))
			}
			for _, x := range m {
				ms = append(ms, tmPidTok(x))
			}
			ans = "L=" + tmList(ls) + " M=" + tmList(ms)
			// oracle: exactly the holders of this target, once each
			var wl, wm []string
			for key := range set {
				if key.t == t.tok() {
					if key.mon {
						wm = append(wm, key.c)
					} else {
						wl = append(wl, key.c)
					}
					delete(set, key)
				}
			}
			if want := "L=" + tmList(wl) + " M=" + tmList(wm); want != ans {
				oracle("C14/tm-cleanup-target", fmt.Sprintf("CleanupTarget(%s) returned %s, relations held: %s", t.tok(), ans, want), s.lines)
			}
			r.Count("tm.cleanupTarget")
		case k < 90:
			nd := 1 + g.rng.Intn(g.nodes)
			line = fmt.Sprintf("cn %d", nd)
			l, m := tm.CleanupNode(tmNode(nd))
			var ls, ms []string
			for t, cs := range l {
				for _, p := range cs {
					ls = append(ls, tmTargetTok(t)+"<"+tmPidTok(p))
				}
			}
			for t, cs := range m {
				for _, p := range cs {
					ms = append(ms, tmTargetTok(t)+"<"+tmPidTok(p))
				}
			}
			ans = "L=" + tmList(ls) + " M=" + tmList(ms)
			// independent oracle of the property: exactly one report per relation whose target is on the node and
			// whose holder is not; silent removal of holder-side relations; everything else stays
			var wl, wm []string
			nrep, nsil := 0, 0
			for key := range set {
				con, ton := nodeOfPid(key.c) == nd, nodeOfTarget(key.t) == nd
				if !con && ton {
					if key.mon {
						wm = append(wm, key.t+"<"+key.c)
					} else {
						wl = append(wl, key.t+"<"+key.c)
					}
					nrep++
				}
				if con {
					nsil++
				}
				if con || ton {
					delete(set, key)
				}
			}
			if want := "L=" + tmList(wl) + " M=" + tmList(wm); want != ans {
				oracle("C14/node-down-exactly-once", fmt.Sprintf("CleanupNode(n%d) reported %s, relations with target there and holder elsewhere: %s", nd, ans, want), s.lines)
			}
			r.Count("tm.cleanupNode")
			if nrep > 0 {
				r.Count("tm.cleanupNode.with-reports")
			}
			if nsil > 0 {
				r.Count("tm.cleanupNode.with-silent")
			}
		case k < 95:
			p := g.pid()
			line = "gt " + p.tok()
			l, m := tm.GetTargetsForConsumer(p.gen())
			var ls, ms []string
			for _, x := range l {
				ls = append(ls, tmTargetTok(x))
			}
			for _, x := range m {
				ms = append(ms, tmTargetTok(x))
			}
			ans = "L=" + tmList(ls) + " M=" + tmList(ms)
			var wl, wm []string
			for key := range set {
				if key.c == p.tok() {
					if key.mon {
						wm = append(wm, key.t)
					} else {
						wl = append(wl, key.t)
					}
				}
			}
			if want := "L=" + tmList(wl) + " M=" + tmList(wm); want != ans {
				oracle("C14/tm-targets", fmt.Sprintf("GetTargetsForConsumer(%s) = %s, relations held: %s (a relation survived or vanished)", p.tok(), ans, want), s.lines)
			}
			r.Count("tm.inspect")
		default:
			t := g.target()
			line = "gc " + t.tok()
			var cs []string
			for _, p := range tm.GetConsumersForTarget(t.gen()) {
				cs = append(cs, tmPidTok(p))
			}
			ans = tmList(cs)
			var w []string
			for key := range set {
				if key.t == t.tok() {
					w = append(w, key.c)
				}
			}
			if want := tmList(w); want != ans {
				oracle("C14/tm-index", fmt.Sprintf("GetConsumersForTarget(%s) = %s (index), relations held: %s", t.tok(), ans, want), s.lines)
			}
			r.Count("tm.inspect")
		}
		s.lines = append(s.lines, line)
		s.impl = append(s.impl, ans)
	}
	return s
}

// tmK2 runs nseq sequences and compares them with the model in one driver batch.
func tmK2(c *Ctx, nseq, maxlen int) {
	r := c.R
	var all []string
	var impl []string
	var starts []int
	for i := 0; i < nseq; i++ {
		g := newTmGen(c.Rng)
		n := 5 + c.Rng.Intn(maxlen)
		viol := func(sig, what string, replay interface{}) {
			r.Violation(sig, what, map[string]interface{}{"ops": replay})
		}
		s := tmRunSequence(c, g, n, viol)
		starts = append(starts, len(all))
		all = append(all, s.lines...)
		impl = append(impl, s.impl...)
		nontriv := false
		for _, l := range s.lines {
			if strings.HasPrefix(l, "c") {
				nontriv = true
			}
		}
		r.Case(strings.Join(s.lines, "|"), nontriv)
		if i < 2 {
			r.Sample(map[string]interface{}{"kind": "K2 TargetManager", "ops": s.lines, "impl": s.impl})
		}
	}
	// the sequences are independent (each starts with `reset`): split at sequence boundaries over several driver processes
	const workers = 8
	outs := make([]string, len(all))
	errs := make([]error, workers)
	var wg sync.WaitGroup
	per := (len(starts) + workers - 1) / workers
	for w := 0; w < workers; w++ {
		lo := w * per
		if lo >= len(starts) {
			break
		}
		hi := (w + 1) * per
		from, to := starts[lo], len(all)
		if hi < len(starts) {
			to = starts[hi]
		}
		wg.Add(1)
		go func(w, from, to int) {
			defer wg.Done()
			res, err := Model("tm", all[from:to])
			if err != nil {
				errs[w] = err
				return
			}
			copy(outs[from:to], res)
		}(w, from, to)
	}
	wg.Wait()
	for _, err := range errs {
		if err != nil {
			r.Disagree("tm.driver", err.Error(), nil)
			return
		}
	}
	for i := range all {
		if outs[i] != impl[i] {
			// find the sequence this line belongs to
			st := 0
			for _, x := range starts {
				if x <= i {
					st = x
				}
			}
			r.Disagree("K2 Model.TM ~ gen.defaultTargetManager",
				fmt.Sprintf("op #%d %q: model %q, implementation %q", i-st, all[i], outs[i], impl[i]),
				map[string]interface{}{"ops": all[st : i+1]})
			return
		}
	}
}

/-
Events (node/node.go registerEvent/unregisterEvent 1845-1894; node/core.go RouteSendEvent 236-290,
RouteLinkEvent/RouteMonitorEvent, RouteUnlinkEvent/RouteDemonitorEvent, RouteTerminateEvent; unregisterProcess).
One event; consumers are plain numbers (pids). The relations on the event are the (consumer, monitor?) pairs
kept by the TargetManager; publication fan-out goes over `GetConsumersForTarget` = one entry PER RELATION,
served once per consumer when the loop keeps a `delivered` set (flag `dd`).
The model mirrors the code as it is, including the subscriber counter that is only touched by subscribe /
unsubscribe calls.
-/
namespace ErgoVerif.Event

structure Ev where
  registered : Bool
  token : Nat
  notify : Bool
  cap : Nat                       -- EventOptions.Buffer
  last : List Nat                 -- the last-N queue, oldest first (NewQueueLimitMPSC(buffer, flush = true))
  counter : Int                   -- eventOwner.consumers
  subs : List (Nat × Bool)        -- relations on the event: (consumer, monitor)
  published : List Nat            -- accepted publications, in order
deriving Repr

inductive Note | start | stop deriving DecidableEq, Repr

inductive Out
  | ok
  | errOwner | errUnknown | errExist | errNoRel
  | delivered (to : List Nat)                     -- publish: one delivery per entry (consumer pids, in relation order)
  | subscribed (snapshot : List Nat) (note : Option Note)
  | unsubscribed (note : Option Note)
  | gone (exits : List Nat) (downs : List Nat)    -- unregister / owner death: who gets an exit, who gets a down
deriving DecidableEq, Repr

def Ev.init : Ev := ⟨false, 0, false, 0, [], 0, [], []⟩

inductive Op
  | register (token : Nat) (notify : Bool) (cap : Nat)
  | publish (token : Nat) (m : Nat)
  | sub (c : Nat) (monitor : Bool)
  | unsub (c : Nat) (monitor : Bool)
  | consumerDies (c : Nat)       -- unregisterProcess of a subscriber: CleanupConsumer drops its relations
  | unregister                   -- UnregisterEvent or the owner terminates
deriving Repr

/-- push into the flush queue: when full the oldest element is dropped first -/
def pushLast (cap : Nat) (last : List Nat) (m : Nat) : List Nat :=
  if cap = 0 then [] else if last.length + 1 > cap then last.drop 1 ++ [m] else last ++ [m]

/-- the fan-out loop of RouteSendEvent with its `delivered` set: a consumer already served is skipped -/
def dedupAux (seen : List Nat) : List Nat → List Nat
  | [] => []
  | a :: l => if a ∈ seen then dedupAux seen l else a :: dedupAux (a :: seen) l

/-- who gets the message, given the consumers listed by the TargetManager (one entry per relation) -/
def fanout (dd : Bool) (consumers : List Nat) : List Nat := if dd then dedupAux [] consumers else consumers

/-- `dc` = the termination of a subscriber decrements the counter, `dd` = the publication fan-out serves every
consumer once however many relations it holds (both regenerated from the source, Generated/Event.lean) -/
def step (dc dd : Bool) (e : Ev) : Op → Ev × Out
  | .register tok notify cap =>
    if e.registered then (e, .errExist)
    else ({ Ev.init with registered := true, token := tok, notify := notify, cap := cap }, .ok)
  | .publish tok m =>
    if !e.registered then (e, .errUnknown)
    else if tok ≠ e.token then (e, .errOwner)
    else ({ e with last := pushLast e.cap e.last m, published := e.published ++ [m] }, .delivered (fanout dd (e.subs.map (·.1))))
  | .sub c mon =>
    if !e.registered then (e, .errUnknown)
    else if (c, mon) ∈ e.subs then (e, .errExist)
    else
      let cnt := e.counter + 1
      ({ e with subs := e.subs ++ [(c, mon)], counter := cnt },
        .subscribed e.last (if e.notify && cnt == 1 then some .start else none))
  | .unsub c mon =>
    if !e.registered then (e, .errUnknown)
    else if (c, mon) ∉ e.subs then (e, .errNoRel)
    else
      let cnt := e.counter - 1
      ({ e with subs := e.subs.erase (c, mon), counter := cnt },
        .unsubscribed (if e.notify && cnt == 0 then some .stop else none))
  | .consumerDies c =>
    let k : Nat := (e.subs.filter (fun s => s.1 = c)).length
    if dc then
      -- unregisterProcess: CleanupConsumer, then one decrement per dropped relation; Stop when the counter reaches 0
      ({ e with subs := e.subs.filter (fun s => s.1 ≠ c), counter := e.counter - k },
        .unsubscribed (if e.registered && e.notify && decide (1 ≤ e.counter) && decide (e.counter ≤ k) then some .stop else none))
    else ({ e with subs := e.subs.filter (fun s => s.1 ≠ c) }, .unsubscribed none)
  | .unregister =>
    if !e.registered then (e, .errUnknown)
    else (Ev.init, .gone ((e.subs.filter (fun s => !s.2)).map (·.1)) ((e.subs.filter (fun s => s.2)).map (·.1)))

/-! Subscribers on other nodes. A consumer is `(node, pid)`; `self` is the producer's node. RouteSendEvent serves its
local consumers through the fan-out loop and sends ONE frame to every node in its `remote` collection (a set when it
is a map, `fd`); the node that receives a frame runs the same fan-out loop over its own subscribers of the event. -/

def remoteNodes (fd : Bool) (self : Nat) (consumers : List (Nat × Nat)) : List Nat :=
  let rs := (consumers.filter (fun c => c.1 ≠ self)).map (·.1)
  if fd then dedupAux [] rs else rs

/-- how many copies of one publication the subscriber `t` is handed -/
def copies (fd dd : Bool) (self : Nat) (consumers : List (Nat × Nat)) (t : Nat × Nat) : Nat :=
  let onNode := (consumers.filter (fun c => c.1 = t.1)).map (·.2)
  if t.1 = self then (fanout dd onNode).count t.2
  else (remoteNodes fd self consumers).count t.1 * (fanout dd onNode).count t.2

/-! A subscription racing with one publication (small-step). The subscriber inserts its relation and reads the last-N
buffer (in the order the code has them, `ab` = relation first); the publisher pushes the message into the buffer and
then fans it out to the consumers listed at that moment. -/
namespace SubRace

structure S where
  added : Bool      -- the relation is in the table
  snapped : Bool    -- the subscriber has read the buffer
  pushed : Bool     -- the publication is in the buffer
  fanned : Bool     -- the fan-out over the consumers has run
  replay : Bool     -- the subscriber found the publication in the buffer
  live : Bool       -- the fan-out delivered it to the subscriber
deriving DecidableEq, Repr

def S.init : S := ⟨false, false, false, false, false, false⟩

inductive Lbl | sAdd | sSnap | pPush | pFan
deriving DecidableEq, Repr

def step (ab : Bool) (s : S) : Lbl → Option S
  | .sAdd => if s.added then none else if !ab && !s.snapped then none else some { s with added := true }
  | .sSnap => if s.snapped then none else if ab && !s.added then none else some { s with snapped := true, replay := s.pushed }
  | .pPush => if s.pushed then none else some { s with pushed := true }
  | .pFan => if s.fanned || !s.pushed then none else some { s with fanned := true, live := s.added }

end SubRace

def runOps (dc dd : Bool) (e : Ev) : List Op → Ev
  | [] => e
  | o :: os => runOps dc dd (step dc dd e o).1 os

/-- the true number of live subscriptions (what the counter is meant to track) -/
def Ev.live (e : Ev) : Nat := e.subs.length

end ErgoVerif.Event

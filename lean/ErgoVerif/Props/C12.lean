/-
C12 — remote delivery integrity (wire protocol part).

Models (all mirror net/proto/connection.go, see the files for the function-by-function map):
  Model/Stream.lean + Model/Link.lean   read()/serve(): frame reassembly over arbitrary chunks
  Model/Frame.lean                      Send*/Call*/SendTerminate* builders and the header part of the
                                        receive cases, executed from the GENERATED layout tables
  Model/Envelope.lean                   send(): compression threshold, envelope, size check before write

What is proved here (for all inputs; `decide` is used only over the finite generated tables):
  * C12_segmentation, C12_segmentation_any, C12_conservation  — the reader outputs exactly the
    frames that were written, in order, for EVERY way the byte stream is cut into chunks;
  * C12_frame_roundtrip — for every frame kind the receive case recovers sender id, addressee,
    priority, reference, timestamp, name, important flag and the payload bytes the writer put in;
  * C12_oversize, C12_envelope_* — see the Envelope section.
-/
import ErgoVerif.Lemmas.Stream
import ErgoVerif.Model.Link
namespace ErgoVerif.Props.C12
open ErgoVerif.Stream ErgoVerif.Generated.Proto

/-! ## Reassembly: every segmentation of a stream of well-formed frames yields exactly these frames -/

/-- the bound read() enforces on the length field does not exclude any frame a writer can produce
    (every writer allocates at least the 8-byte header) -/
theorem read_guard_is_header (max : Nat) : (linkCfg max).minLen ≤ 8 := by
  show readMinLen ≤ 8; decide

/-- For every receiver limit, every list of well-formed frames and EVERY segmentation of their
    concatenation (1-byte chunks, splits inside headers, several frames per chunk, empty chunks …)
    the reader hands exactly these frames, in order, to the decoding queues, stays open and keeps
    no residue. -/
theorem C12_segmentation (max : Nat) (hmax : max = 0 ∨ 8 ≤ max) (fs chunks : List Bytes)
    (hwf : ∀ f ∈ fs, WF (linkCfg max) f) (hj : chunks.flatten = fs.flatten) :
    readAll (linkCfg max) RState.init chunks = (⟨[], none⟩, fs) :=
  segmentation (linkCfg max) hmax fs chunks hwf hj

/-- The output of the reader depends only on the bytes, never on how they were cut — for ANY
    byte stream (well-formed or not). -/
theorem C12_segmentation_any (max : Nat) (hmax : max = 0 ∨ 8 ≤ max) (chunks chunks' : List Bytes)
    (hj : chunks.flatten = chunks'.flatten) :
    readAll (linkCfg max) RState.init chunks = readAll (linkCfg max) RState.init chunks' := by
  rw [readAll_eq_cutAll _ hmax, readAll_eq_cutAll _ hmax, hj]

/-- No byte is lost, duplicated or reordered: while the link is open the frames handed over plus the
    buffered remainder are exactly the bytes received. -/
theorem C12_conservation (max : Nat) (hmax : max = 0 ∨ 8 ≤ max) (chunks : List Bytes) :
    let r := readAll (linkCfg max) RState.init chunks
    r.1.closed = none → r.2.flatten ++ r.1.buf = chunks.flatten := by
  intro r
  have hr : r = ((cutAll (linkCfg max) chunks.flatten).state, (cutAll (linkCfg max) chunks.flatten).frames) :=
    readAll_eq_cutAll _ hmax chunks
  have hc := cutAll_conserve (linkCfg max) chunks.flatten
  rw [hr]
  cases hcut : cutAll (linkCfg max) chunks.flatten with
  | more fs rest => simp [hcut] at hc; intro _; simpa [Res.state, Res.frames] using hc
  | closed fs w => intro h; simp [Res.state] at h

/-- well-formed frames followed by garbage: the well-formed ones still come out first and in order -/
theorem C12_prefix (max : Nat) (hmax : max = 0 ∨ 8 ≤ max) (fs chunks : List Bytes) (junk : Bytes)
    (hwf : ∀ f ∈ fs, WF (linkCfg max) f) (hj : chunks.flatten = fs.flatten ++ junk) :
    ∃ gs, (readAll (linkCfg max) RState.init chunks).2 = fs ++ gs :=
  segmentation_prefix (linkCfg max) hmax fs chunks junk hwf hj

/-- a frame over the receiver's limit is refused by the reader (and closes the link) as soon as its
    header is complete — the body is never buffered -/
theorem C12_reader_limit (max : Nat) (hmax : 8 ≤ max) (hdr : Bytes) (h8 : hdr.length = 8)
    (hl : lenField hdr > max) :
    (readAll (linkCfg max) RState.init [hdr]).1.closed = some .tooLong := by
  have hmin : readMinLen ≤ 8 := by decide
  simp only [readAll, stepChunk, RState.init, List.nil_append, cutAll, h8]
  have h1 : ¬ (lenField hdr < readMinLen) := by omega
  have h2 : 0 < max := by omega
  simp [cut, h8, linkCfg, hl, h1, h2]

/-! non-vacuity: a two-frame stream cut in three different ways -/
def f1 : Bytes := [78, 1, 0, 0, 0, 9, 0, 199, 7]
def f2 : Bytes := [78, 1, 0, 0, 0, 10, 3, 101, 1, 2]
example : WF (linkCfg 0) f1 ∧ WF (linkCfg 64) f2 := by decide
example : readAll (linkCfg 0) RState.init [f1 ++ f2] = (⟨[], none⟩, [f1, f2]) := by decide
example : readAll (linkCfg 0) RState.init [[78], [1, 0, 0, 0], [9, 0, 199, 7, 78, 1, 0], [0, 0, 10, 3, 101, 1, 2]]
    = (⟨[], none⟩, [f1, f2]) := by decide
example : readAll (linkCfg 16) RState.init ((f1 ++ f2).map fun b => [b]) = (⟨[], none⟩, [f1, f2]) := by decide

end ErgoVerif.Props.C12

import ErgoVerif.Lemmas.TM
/-! Lemmas about `terminateLocal` / `terminateFrames` (RouteTerminatePID & co.): exactly one notification with the given
reason per holder on this node, one Terminate frame per other node that has a holder. -/
namespace ErgoVerif.TM

theorem tnotifOf_injective (t : Target) (reason : Nat) (a b : Key) (ha : a.target = t) (hb : b.target = t)
    (h : tnotifOf t reason a = tnotifOf t reason b) : a = b := by
  obtain ⟨c1, t1, m1⟩ := a
  obtain ⟨c2, t2, m2⟩ := b
  simp only at ha hb
  subst ha hb
  simp only [tnotifOf, TNotif.mk.injEq] at h
  obtain ⟨hc, hm, _, _⟩ := h
  subst hc
  cases m1 <;> cases m2 <;> simp_all

/-- exactly one notification, with the reason given, to every holder of the target that lives on this node; nothing to anybody else -/
theorem terminateLocal_exactly_once {s : St} (h : Inv s) (self : Node) (t : Target) (reason : Nat) (c : Pid) (m : Bool) :
    (terminateLocal self s t reason).2.count ⟨c, if m then .down else .exit, t, reason⟩ =
      if (⟨c, t, m⟩ : Key) ∈ s.rel ∧ c.node = self then 1 else 0 := by
  have hs := cleanupTarget_spec h t
  have hnd : ((terminateLocal self s t reason).2).Nodup := by
    unfold terminateLocal
    simp only
    have hf : ((cleanupTarget s t).2.filter (fun k => decide (k.consumer.node = self))).Nodup := hs.2.2.1.filter _
    have hmem : ∀ k ∈ (cleanupTarget s t).2.filter (fun k => decide (k.consumer.node = self)), k.target = t :=
      fun k hk => ((hs.2.1 k).mp (List.mem_filter.mp hk).1).2
    generalize (cleanupTarget s t).2.filter (fun k => decide (k.consumer.node = self)) = l at hf hmem
    induction l with
    | nil => exact List.nodup_nil
    | cons a l ih =>
      rw [List.map_cons, List.nodup_cons]
      refine ⟨?_, ih (List.nodup_cons.mp hf).2 (fun k hk => hmem k (List.mem_cons_of_mem _ hk))⟩
      intro hin
      obtain ⟨b, hb, e⟩ := List.mem_map.mp hin
      have := tnotifOf_injective t reason b a (hmem b (List.mem_cons_of_mem _ hb)) (hmem a List.mem_cons_self) e
      subst this
      exact (List.nodup_cons.mp hf).1 hb
  rw [hnd.count]
  have key : (⟨c, if m then NKind.down else NKind.exit, t, reason⟩ : TNotif) ∈ (terminateLocal self s t reason).2 ↔
      ((⟨c, t, m⟩ : Key) ∈ s.rel ∧ c.node = self) := by
    unfold terminateLocal
    simp only [List.mem_map, List.mem_filter, decide_eq_true_eq]
    constructor
    · rintro ⟨k, ⟨hk, hn⟩, e⟩
      have hk' := (hs.2.1 k).mp hk
      have : k = ⟨c, t, m⟩ := tnotifOf_injective t reason k ⟨c, t, m⟩ hk'.2 rfl e
      subst this
      exact ⟨hk'.1, hn⟩
    · rintro ⟨h1, h2⟩
      exact ⟨⟨c, t, m⟩, ⟨(hs.2.1 _).mpr ⟨h1, rfl⟩, h2⟩, rfl⟩
  by_cases hc : (⟨c, t, m⟩ : Key) ∈ s.rel ∧ c.node = self
  · rw [if_pos (key.mpr hc), if_pos hc]
  · rw [if_neg (fun x => hc (key.mp x)), if_neg hc]

/-- every notification of a termination is about that target and carries that reason -/
theorem terminateLocal_reason (self : Node) (s : St) (t : Target) (reason : Nat) (x : TNotif)
    (hx : x ∈ (terminateLocal self s t reason).2) : x.target = t ∧ x.reason = reason ∧ x.to.node = self := by
  unfold terminateLocal at hx
  obtain ⟨k, hk, rfl⟩ := List.mem_map.mp hx
  simp only [List.mem_filter, decide_eq_true_eq] at hk
  exact ⟨rfl, rfl, hk.2⟩

/-- the node of every holder elsewhere gets a Terminate frame -/
theorem terminateFrames_complete {s : St} (h : Inv s) (self : Node) (t : Target) (c : Pid) (m : Bool)
    (hk : (⟨c, t, m⟩ : Key) ∈ s.rel) (hn : c.node ≠ self) : c.node ∈ terminateFrames self s t := by
  unfold terminateFrames
  rw [List.mem_eraseDups]
  exact List.mem_map.mpr ⟨⟨c, t, m⟩, List.mem_filter.mpr ⟨((cleanupTarget_spec h t).2.1 _).mpr ⟨hk, rfl⟩, by simpa using hn⟩, rfl⟩

theorem nodup_eraseDups {α} [DecidableEq α] : ∀ (n : Nat) (l : List α), l.length ≤ n → l.eraseDups.Nodup
  | 0, l, h => by
    have : l = [] := List.length_eq_zero_iff.mp (Nat.le_zero.mp h)
    subst this; simp
  | _ + 1, [], _ => by simp
  | n + 1, a :: as, h => by
    rw [List.eraseDups_cons, List.nodup_cons]
    refine ⟨?_, nodup_eraseDups n _ ?_⟩
    · simp [List.mem_eraseDups, List.mem_filter]
    · exact Nat.le_trans (List.length_filter_le _ _) (by simpa using h)

/-- … exactly one frame per node -/
theorem terminateFrames_nodup (self : Node) (s : St) (t : Target) : (terminateFrames self s t).Nodup :=
  nodup_eraseDups _ _ (Nat.le_refl _)

/-- after the termination nobody holds the target any more -/
theorem terminateLocal_clears {s : St} (h : Inv s) (self : Node) (t : Target) (reason : Nat) :
    ∀ k ∈ (terminateLocal self s t reason).1.rel, k.target ≠ t :=
  fun k hk => cleanupTarget_gone h t k hk


end ErgoVerif.TM

/-
Composition of the three link-level models: the frame writers (`Frame.encode`), the byte stream under
an arbitrary segmentation and the reassembling reader (`Stream.readAll`), and the receive cases
(`Frame.kindOf` / `Frame.parse`).

  `encode_wf`    a written frame is a well-formed frame for the link reader
  `encode_type`  its type byte is the kind's message type
  `kindOf_typ`   the type byte selects the receive case of the kind that wrote the frame
  `pipeline`     writer → any chunking → reader → dispatch → receive case gives back what was sent

`LayoutOK` alone does NOT make the first eight bytes what the reader expects (it only asks for *some*
write named "magic"/"version"/"len"/"type" at the right place, possibly conditional, and it allows a
flag to be OR-ed into a one-byte field such as the magic byte): see `encode_wf_counterexample`.
The extra decidable condition is `HeaderOK`; it holds for all generated wire kinds (`headerOK_wire`).
Core Lean only.
-/
import ErgoVerif.Lemmas.Frame
import ErgoVerif.Lemmas.Stream
import ErgoVerif.Model.StreamLink
namespace ErgoVerif.Remote
open ErgoVerif.Generated.Proto ErgoVerif.Frame

/-! ### the fixed eight-byte header -/

/-- the four fixed header fields are written unconditionally as plain fields and no flag is OR-ed
    into the first eight bytes -/
def HeaderOK (k : Kind) : Bool :=
  k.writes.any (fun w => w.name = "len" && w.off = 2 && w.width = 4 && w.mask = 0 && w.cond = "") &&
  k.writes.any (fun w => w.name = "magic" && w.off = 0 && w.width = 1 && w.mask = 0 && w.cond = "") &&
  k.writes.any (fun w => w.name = "version" && w.off = 1 && w.width = 1 && w.mask = 0 && w.cond = "") &&
  k.writes.any (fun w => w.name = "type" && w.off = 7 && w.width = 1 && w.mask = 0 && w.cond = "") &&
  k.writes.all (fun w => w.mask = 0 || 8 ≤ w.off)

theorem headerOK_wire : ∀ k ∈ wireKinds, HeaderOK k = true := by decide

theorem layoutOK_wire : ∀ k ∈ wireKinds, LayoutOK k = true := by decide

theorem typ_lt_wire : ∀ k ∈ wireKinds, k.typ < 256 := by decide

/-- an always-on plain write at `(o, w)` named `n` below offset 8, as a fact about the header -/
theorem hdr_fixed (k : Kind) (hl : Lay k) (hh : HeaderOK k = true) (m : Msg) (n : String) (o w : Nat)
    (how : o + w ≤ 8) (hw : w ≠ 0)
    (hany : k.writes.any (fun x => x.name = n && x.off = o && x.width = w && x.mask = 0 && x.cond = "") = true) :
    o + w ≤ k.alloc ∧
    win (encode k m) o w = beBytes w (fieldVal k m (hdrLen k m + m.payload.length) n) := by
  simp only [HeaderOK, Bool.and_eq_true, List.all_eq_true, Bool.or_eq_true, decide_eq_true_eq] at hh
  have hfl := hh.2
  simp only [List.any_eq_true, Bool.and_eq_true, decide_eq_true_eq] at hany
  obtain ⟨x, hx, ⟨⟨⟨e1, e2⟩, e3⟩, e4⟩, e5⟩ := hany
  have hxp : x ∈ plainWrites k := (mem_plainWrites k x).2 ⟨hx, e4, by omega⟩
  have hin := hl.inAlloc x hxp
  have h1 := hdr_plain k hl m x hxp (by simp [condOn, e5])
    (fun y hy => by rcases hfl y hy with h | h
                    · exact Or.inl h
                    · exact Or.inr (Or.inl (by omega)))
  rw [e1, e2, e3] at h1
  rw [e2, e3] at hin
  refine ⟨hin, ?_⟩
  rw [encode_eq, win_append _ _ _ _ (by rw [hdr_length k hl m]; unfold hdrLen; omega)]
  exact h1

theorem fieldVal_len (k : Kind) (m : Msg) (t : Nat) : fieldVal k m t "len" = t := by simp [fieldVal]
theorem fieldVal_magic (k : Kind) (m : Msg) (t : Nat) : fieldVal k m t "magic" = protoMagic := by simp [fieldVal]
theorem fieldVal_version (k : Kind) (m : Msg) (t : Nat) : fieldVal k m t "version" = protoVersion := by
  simp [fieldVal]
theorem fieldVal_type (k : Kind) (m : Msg) (t : Nat) : fieldVal k m t "type" = k.typ := by simp [fieldVal]

/-- `binary.BigEndian.Uint32(buf.B[2:6])` of the reader is the generic big-endian value of that window -/
theorem lenField_eq_beVal (b : List UInt8) (h : 6 ≤ b.length) :
    ErgoVerif.Stream.lenField b = beVal ((b.drop 2).take 4) := by
  match b, h with
  | a :: b :: c :: d :: e :: g :: t, _ => simp [ErgoVerif.Stream.lenField, beVal]

/-- the facts about the first eight bytes of a written frame -/
theorem encode_header (k : Kind) (hk : LayoutOK k = true) (hh : HeaderOK k = true) (m : Msg) (hf : m.fits k) :
    8 ≤ (encode k m).length ∧
    ErgoVerif.Stream.lenField (encode k m) = (encode k m).length ∧
    (encode k m)[0]? = some (UInt8.ofNat protoMagic) ∧
    (encode k m)[1]? = some (UInt8.ofNat protoVersion) ∧
    (encode k m)[7]? = some (UInt8.ofNat k.typ) := by
  have hl := layout_unpack k hk
  have hlen := encode_length k hl m
  have hh' := hh
  simp only [HeaderOK, Bool.and_eq_true] at hh'
  obtain ⟨⟨⟨⟨al, am⟩, av⟩, at_⟩, _⟩ := hh'
  obtain ⟨_, wl⟩ := hdr_fixed k hl hh m "len" 2 4 (by omega) (by omega) al
  obtain ⟨_, wm⟩ := hdr_fixed k hl hh m "magic" 0 1 (by omega) (by omega) am
  obtain ⟨_, wv⟩ := hdr_fixed k hl hh m "version" 1 1 (by omega) (by omega) av
  obtain ⟨h8, wt⟩ := hdr_fixed k hl hh m "type" 7 1 (by omega) (by omega) at_
  have hlen8 : 8 ≤ (encode k m).length := by rw [hlen]; unfold hdrLen; omega
  rw [fieldVal_len] at wl
  rw [fieldVal_magic, beBytes_one] at wm
  rw [fieldVal_version, beBytes_one] at wv
  rw [fieldVal_type, beBytes_one] at wt
  refine ⟨hlen8, ?_, win_one_get _ _ _ wm, win_one_get _ _ _ wv, win_one_get _ _ _ wt⟩
  rw [lenField_eq_beVal _ (by omega)]
  show beVal (win (encode k m) 2 4) = _
  rw [wl, hlen]
  apply beVal_beBytes
  -- the length fits its four bytes: `fits` says so for the plain write "len"
  simp only [List.any_eq_true, Bool.and_eq_true, decide_eq_true_eq] at al
  obtain ⟨x, hx, ⟨⟨⟨e1, _⟩, e3⟩, e4⟩, _⟩ := al
  have := hf.1 x ((mem_plainWrites k x).2 ⟨hx, e4, by omega⟩)
  rw [e1, e3, fieldVal_len] at this
  exact this

/-- 1. the frame a writer produces is a well-formed frame for the link reader -/
theorem encode_wf (k : Kind) (hk : LayoutOK k = true) (hh : HeaderOK k = true) (m : Msg) (hf : m.fits k)
    (max : Nat) (hmax : max > 0 → (encode k m).length ≤ max) :
    ErgoVerif.Stream.WF (ErgoVerif.Stream.linkCfg max) (encode k m) := by
  obtain ⟨h8, hlf, h0, h1, _⟩ := encode_header k hk hh m hf
  refine ⟨h8, hlf, hmax, h8, ?_⟩
  have h6 : ∃ x, (encode k m)[6]? = some x := ⟨(encode k m)[6]'(by omega), by simp⟩
  obtain ⟨x, h6⟩ := h6
  have e0 : (UInt8.ofNat protoMagic).toNat = protoMagic := by decide
  have e1 : (UInt8.ofNat protoVersion).toNat = protoVersion := by decide
  simp [ErgoVerif.Stream.serveCheck, ErgoVerif.Stream.linkCfg, h0, h1, h6, e0, e1]

theorem encode_type (k : Kind) (hk : LayoutOK k = true) (hh : HeaderOK k = true) (m : Msg) (hf : m.fits k) :
    (encode k m)[7]? = some (UInt8.ofNat k.typ) :=
  (encode_header k hk hh m hf).2.2.2.2

/-- `encode_wf` / `encode_type` for the generated wire kinds: both checks hold by evaluation -/
theorem encode_wf_wire (k : Kind) (hw : k ∈ wireKinds) (m : Msg) (hf : m.fits k) (max : Nat)
    (hmax : max > 0 → (encode k m).length ≤ max) :
    ErgoVerif.Stream.WF (ErgoVerif.Stream.linkCfg max) (encode k m) :=
  encode_wf k (layoutOK_wire k hw) (headerOK_wire k hw) m hf max hmax

theorem encode_type_wire (k : Kind) (hw : k ∈ wireKinds) (m : Msg) (hf : m.fits k) :
    (encode k m)[7]? = some (UInt8.ofNat k.typ) :=
  encode_type k (layoutOK_wire k hw) (headerOK_wire k hw) m hf

/-! ### dispatch on the type byte -/

theorem find?_of_nodup_key {α : Type} (f : α → Nat) (l : List α) (h : (l.map f).Nodup) (k : α) (hk : k ∈ l) :
    l.find? (fun x => f x = f k) = some k := by
  induction l with
  | nil => simp at hk
  | cons a l ih =>
    rw [List.map_cons, List.nodup_cons] at h
    rcases List.mem_cons.1 hk with e | hm
    · subst e; simp
    · have hne : f a ≠ f k := by
        intro e
        exact h.1 (e ▸ List.mem_map_of_mem hm)
      rw [List.find?_cons_of_neg (by simpa using hne)]
      exact ih h.2 hm

theorem kinds_typ_nodup : (kinds.map (·.typ)).Nodup := by decide

/-- 2. -/
theorem kindOf_typ : ∀ k ∈ wireKinds, kindOf k.typ = some k := by
  intro k hk
  have hm : k ∈ kinds := (List.mem_filter.1 hk).1
  exact find?_of_nodup_key (·.typ) kinds kinds_typ_nodup k hm

/-! ### the pipeline -/

/-- writer, then reader-side dispatch and receive case, for one frame -/
theorem dispatch_encode (k : Kind) (hw : k ∈ wireKinds) (m : Msg) (hf : m.fits k) :
    ∃ p, (match (encode k m)[7]? with
          | some t => (kindOf t.toNat).map (fun k' => parse k' (encode k m))
          | none => none) = some (.ok p) ∧
         p.payload = m.payload ∧
         p.name = (if k.inlineName then m.name else []) ∧
         ∀ x ∈ expectedFields k m, x ∈ p.fields := by
  have hk := layoutOK_wire k hw
  obtain ⟨p, hp, r⟩ := parse_encode k hk m hf
  refine ⟨p, ?_, r⟩
  rw [encode_type k hk (headerOK_wire k hw) m hf]
  simp only [toNat_ofNat_lt _ (typ_lt_wire k hw), kindOf_typ k hw, Option.map_some, hp]

/-- 3. for every list of messages, every receiver limit and every way the concatenated frames are cut
    into chunks: the reader hands over exactly the frames that were written, in order, stays open with
    nothing left over; each frame is dispatched (by its type byte) to the receive case of the kind that
    wrote it, which recovers payload, name and header fields. -/
theorem pipeline (max : Nat) (hmax : max = 0 ∨ 8 ≤ max) (sent : List (Kind × Msg))
    (hk : ∀ km ∈ sent, km.1 ∈ wireKinds ∧ LayoutOK km.1 = true ∧ km.2.fits km.1 ∧
          (max > 0 → (encode km.1 km.2).length ≤ max) ∧ (encode km.1 km.2).length < 2 ^ 32)
    (chunks : List (List UInt8))
    (hj : chunks.flatten = (sent.map (fun km => encode km.1 km.2)).flatten) :
    let out := ErgoVerif.Stream.readAll (ErgoVerif.Stream.linkCfg max) ErgoVerif.Stream.RState.init chunks
    out.1 = ⟨[], none⟩ ∧
    out.2 = sent.map (fun km => encode km.1 km.2) ∧
    ∀ km ∈ sent, ∃ p, (match (encode km.1 km.2)[7]? with
                        | some t => (kindOf t.toNat).map (fun k => parse k (encode km.1 km.2))
                        | none => none) = some (.ok p) ∧
                      p.payload = km.2.payload ∧
                      p.name = (if km.1.inlineName then km.2.name else []) ∧
                      ∀ x ∈ expectedFields km.1 km.2, x ∈ p.fields := by
  intro out
  have hseg : out = (⟨[], none⟩, sent.map (fun km => encode km.1 km.2)) := by
    apply ErgoVerif.Stream.segmentation (ErgoVerif.Stream.linkCfg max) hmax _ chunks _ hj
    intro f hf
    obtain ⟨km, hkm, rfl⟩ := List.mem_map.1 hf
    obtain ⟨hw, hlo, hfit, hm, _⟩ := hk km hkm
    exact encode_wf km.1 hlo (headerOK_wire km.1 hw) km.2 hfit max hm
  refine ⟨by rw [hseg], by rw [hseg], ?_⟩
  intro km hkm
  obtain ⟨hw, _, hfit, _, _⟩ := hk km hkm
  exact dispatch_encode km.1 hw km.2 hfit

/-! ### why `HeaderOK` is needed -/

/-- a kind that passes `LayoutOK` but ORs the "important" flag into the magic byte -/
def badKind : Kind :=
  { name := "X", typ := 199, writer := "w", route := "", alloc := 8, inlineName := false,
    guard := 9, guard2 := 0, guardName := 0, payloadOff := 8, payloadName := false,
    earlyMax := false, incarnation := false, compress := false, recv := true,
    writes := [⟨"magic", 0, 1, 0, ""⟩, ⟨"version", 1, 1, 0, ""⟩, ⟨"len", 2, 4, 0, ""⟩, ⟨"order", 6, 1, 0, ""⟩,
               ⟨"type", 7, 1, 0, ""⟩, ⟨"important", 0, 1, 128, "important"⟩],
    reads := [] }

def badMsg : Msg := ⟨fun _ => 0, true, [], [0]⟩

theorem encode_wf_counterexample :
    LayoutOK badKind = true ∧ badMsg.fits badKind ∧
    ¬ ErgoVerif.Stream.WF (ErgoVerif.Stream.linkCfg 0) (encode badKind badMsg) := by
  refine ⟨by decide, ?_, by decide⟩
  refine ⟨?_, ?_, by decide, by decide, by decide⟩
  · intro w hw
    simp [plainWrites, badKind] at hw
    rcases hw with rfl | rfl | rfl | rfl | rfl <;> decide
  · intro w hw hm p hp ho
    simp [plainWrites, badKind] at hw hp
    rcases hw with rfl | rfl | rfl | rfl | rfl | rfl <;> simp at hm
    rcases hp with rfl | rfl | rfl | rfl | rfl <;> simp at ho
    decide

end ErgoVerif.Remote

import ErgoVerif.Lemmas.SupLoop
import ErgoVerif.Lemmas.SupScan
import ErgoVerif.Lemmas.SupOrder
/-
One-for-one: well-formedness of the state machine is preserved by every operation, every `start` action it
produces can be carried out by `childStarted`, hence the closed system never panics and `handleAction`
always finishes (T8 for one-for-one, unconditionally: for every history from every well-formed configuration).
-/
namespace ErgoVerif.Sup

structure OFO.WF (m : OFO) : Prop where
  idx : ∀ (k : Nat) (c : ChildSpec), m.spec[k]? = some c → c.i = k
  mode : m.mode = 0 ∨ m.mode = 1
  next : m.i = m.spec.length

/-- `childStarted` will accept this start action -/
def OFO.ValidStart (m : OFO) (a : Action) : Prop := ∃ c : ChildSpec, m.spec[a.spec.i]? = some c ∧ c.name = a.spec.name

def OFO.GoodRes (m : OFO) : Res → Prop
  | .ok a => a.act = .start → OFO.ValidStart m a
  | .err _ => True
  | .panic => False

theorem findName_getElem (n : Nat) (l : List ChildSpec) (c : ChildSpec) (h : findName n l = some c) :
    ∃ k : Nat, l[k]? = some c ∧ c.name = n := by
  induction l with
  | nil => simp [findName] at h
  | cons a t ih =>
    simp only [findName] at h
    split at h
    · simp at h; subst h; exact ⟨0, by simp, by assumption⟩
    · obtain ⟨k, hk, hn⟩ := ih h
      exact ⟨k + 1, by simpa using hk, hn⟩

theorem updName_getElem (n : Nat) (f : ChildSpec → ChildSpec) (hf : ∀ c, (f c).name = c.name ∧ (f c).i = c.i)
    (l : List ChildSpec) (k : Nat) (c' : ChildSpec) (h : (updName n f l)[k]? = some c') :
    ∃ c, l[k]? = some c ∧ c'.name = c.name ∧ c'.i = c.i := by
  induction l generalizing k with
  | nil => simp [updName] at h
  | cons a t ih =>
    simp only [updName] at h
    split at h
    · cases k with
      | zero => simp at h; subst h; exact ⟨a, by simp, (hf a).1, (hf a).2⟩
      | succ k => simp at h; exact ⟨c', by simpa using h, rfl, rfl⟩
    · cases k with
      | zero => simp at h; subst h; exact ⟨a, by simp, rfl, rfl⟩
      | succ k => simp at h; obtain ⟨c, hc, h1, h2⟩ := ih k h; exact ⟨c, by simpa using hc, h1, h2⟩

theorem updName_length (n : Nat) (f : ChildSpec → ChildSpec) (l : List ChildSpec) : (updName n f l).length = l.length := by
  induction l with
  | nil => rfl
  | cons a t ih => simp only [updName]; split <;> simp [ih]

theorem updName_getElem_some (n : Nat) (f : ChildSpec → ChildSpec) (hf : ∀ c, (f c).name = c.name ∧ (f c).i = c.i)
    (l : List ChildSpec) (k : Nat) (c : ChildSpec) (h : l[k]? = some c) :
    ∃ c', (updName n f l)[k]? = some c' ∧ c'.name = c.name ∧ c'.i = c.i := by
  induction l generalizing k with
  | nil => simp at h
  | cons a t ih =>
    simp only [updName]
    split
    · cases k with
      | zero => simp at h; subst h; exact ⟨f a, by simp, (hf a).1, (hf a).2⟩
      | succ k => exact ⟨c, by simpa using h, rfl, rfl⟩
    · cases k with
      | zero => simp at h; subst h; exact ⟨a, by simp, rfl, rfl⟩
      | succ k => simp at h; obtain ⟨c', hc, h1, h2⟩ := ih k h; exact ⟨c', by simpa using hc, h1, h2⟩

/-- the scanned slice keeps names and indices pointwise -/
theorem scan_getElem (name pid : Nat) (l : List ChildSpec) (k : Nat) (c' : ChildSpec)
    (h : (scan name pid 0 l).spec[k]? = some c') : ∃ c, l[k]? = some c ∧ c'.name = c.name ∧ c'.i = c.i := by
  rw [scan_spec_eq] at h
  simp only [List.getElem?_map, Option.map_eq_some_iff] at h
  obtain ⟨c, hc, rfl⟩ := h
  exact ⟨c, hc, by split <;> rfl, by split <;> rfl⟩

theorem scan_getElem_some (name pid : Nat) (l : List ChildSpec) (k : Nat) (c : ChildSpec) (h : l[k]? = some c) :
    ∃ c', (scan name pid 0 l).spec[k]? = some c' ∧ c'.name = c.name ∧ c'.i = c.i := by
  rw [scan_spec_eq]
  simp only [List.getElem?_map, h, Option.map_some]
  exact ⟨_, rfl, by split <;> rfl, by split <;> rfl⟩

theorem scan_length (name pid : Nat) (l : List ChildSpec) : (scan name pid 0 l).spec.length = l.length := by
  rw [scan_spec_eq]; simp

theorem OFO.wf_of_spec {m m' : OFO} (h : OFO.WF m) (hm : m'.mode = m.mode) (hi : m'.i = m.i)
    (hl : m'.spec.length = m.spec.length)
    (hs : ∀ (k : Nat) (c' : ChildSpec), m'.spec[k]? = some c' → ∃ c : ChildSpec, m.spec[k]? = some c ∧ c'.name = c.name ∧ c'.i = c.i) : OFO.WF m' := by
  constructor
  · intro k c' hc
    obtain ⟨c, h1, _, h3⟩ := hs k c' hc
    rw [h3]; exact h.idx k c h1
  · rw [hm]; exact h.mode
  · rw [hi, hl]; exact h.next

/-- childTerminated keeps well-formedness, never panics, and a `start` answer is a valid one -/
theorem OFO.ct_good (m : OFO) (name pid : Nat) (r : Reason) (now : Int) (h : OFO.WF m) :
    OFO.WF (m.childTerminated name pid r now).1 ∧ OFO.GoodRes (m.childTerminated name pid r now).1 (m.childTerminated name pid r now).2 := by
  unfold OFO.childTerminated
  simp only
  split
  · -- shutting down
    split
    · exact ⟨OFO.wf_of_spec h rfl rfl rfl (fun k c' hc => ⟨c', hc, rfl, rfl⟩), by simp [OFO.GoodRes]⟩
    · exact ⟨OFO.wf_of_spec h rfl rfl rfl (fun k c' hc => ⟨c', hc, rfl, rfl⟩), by simp [OFO.GoodRes]⟩
  · have hwf : ∀ (w : List Nat) (rs : List Int) (sd : Bool) (sr : Option Reason),
        OFO.WF { m with wait := w, spec := (scan name pid 0 m.spec).spec, restarts := rs, shutdown := sd, shutdownReason := sr } :=
      fun w rs sd sr => OFO.wf_of_spec h rfl rfl (scan_length name pid m.spec) (fun k c' hc => scan_getElem name pid m.spec k c' hc)
    have hstop : ∀ (s : OFO) (sc : Scan) (rr : Reason), OFO.WF s →
        OFO.WF (OFO.stopAll s sc rr).1 ∧ OFO.GoodRes (OFO.stopAll s sc rr).1 (OFO.stopAll s sc rr).2 := by
      intro s sc rr hs
      unfold OFO.stopAll
      split
      · exact ⟨hs, by simp [OFO.GoodRes]⟩
      · exact ⟨OFO.wf_of_spec hs rfl rfl rfl (fun k c' hc => ⟨c', hc, rfl, rfl⟩), by simp [OFO.GoodRes]⟩
    have hauto : ∀ (s : OFO) (sc : Scan) (rr : Reason), OFO.WF s →
        OFO.WF (OFO.autoShutdown s sc rr).1 ∧ OFO.GoodRes (OFO.autoShutdown s sc rr).1 (OFO.autoShutdown s sc rr).2 := by
      intro s sc rr hs
      unfold OFO.autoShutdown
      split <;> exact ⟨hs, by simp [OFO.GoodRes]⟩
    have hquiet : ∀ (s : OFO) (sc : Scan) (sp : ChildSpec) (rr : Reason), OFO.WF s →
        OFO.WF (OFO.quietStep s sc sp rr).1 ∧ OFO.GoodRes (OFO.quietStep s sc sp rr).1 (OFO.quietStep s sc sp rr).2 := by
      intro s sc sp rr hs
      unfold OFO.quietStep
      split
      · exact hstop s sc rr hs
      · exact hauto s sc rr hs
    cases hf : (scan name pid 0 m.spec).found with
    | none => exact hstop _ _ _ (hwf _ _ _ _)
    | some x =>
      obtain ⟨j, spec⟩ := x
      simp only
      obtain ⟨_, c0, hc0, _, hsp⟩ := scan_found_some name pid 0 m.spec j spec hf
      simp only [Nat.sub_zero] at hc0
      have hval : ∀ (s : OFO), s.spec = (scan name pid 0 m.spec).spec → OFO.ValidStart s { act := .start, spec := spec } := by
        intro s hs
        obtain ⟨c', hc', hn, hi⟩ := scan_getElem_some name pid m.spec j c0 hc0
        have hij : spec.i = j := by rw [hsp]; exact h.idx j c0 hc0
        refine ⟨c', ?_, ?_⟩
        · simp only [hij, hs]; exact hc'
        · rw [hn, hsp]
      have hint : ∀ (s : OFO) (sc : Scan), OFO.WF s → s.spec = (scan name pid 0 m.spec).spec →
          OFO.WF (OFO.intensityStep s sc spec now).1 ∧ OFO.GoodRes (OFO.intensityStep s sc spec now).1 (OFO.intensityStep s sc spec now).2 := by
        intro s sc hs hspec
        unfold OFO.intensityStep
        simp only
        split
        · refine ⟨OFO.wf_of_spec hs rfl rfl rfl (fun k c' hc => ⟨c', hc, rfl, rfl⟩), ?_⟩
          simp only [OFO.GoodRes]
          intro _
          exact hval _ hspec
        · exact ⟨OFO.wf_of_spec hs rfl rfl rfl (fun k c' hc => ⟨c', hc, rfl, rfl⟩), by simp [OFO.GoodRes]⟩
      split
      · exact hauto _ _ _ (hwf _ _ _ _)
      · split
        · exact hquiet _ _ _ _ (hwf _ _ _ _)
        · split
          · exact hquiet _ _ _ _ (hwf _ _ _ _)
          · exact hint _ _ (hwf _ _ _ _) rfl
        · exact hint _ _ (hwf _ _ _ _) rfl


/-- childStarted with a valid start action: no panic; the next action is nothing or again a valid start, at a
larger index (the loop of handleAction makes progress) -/
theorem OFO.childStarted_good (m : OFO) (a : Action) (np : Nat) (h : OFO.WF m) (hv : OFO.ValidStart m a) :
    OFO.WF (m.childStarted a.spec np).1 ∧
    ∃ a', (m.childStarted a.spec np).2 = .ok a' ∧ (a'.act = .nothing ∨ a'.act = .start) ∧
      (a'.act = .start → OFO.ValidStart (m.childStarted a.spec np).1 a' ∧ a.spec.i < a'.spec.i) ∧
      (m.childStarted a.spec np).1.spec.length = m.spec.length := by
  obtain ⟨sp, hsp, hn⟩ := hv
  have hwf' : ∀ (md : Nat) (e : ChildSpec), (md = 0 ∨ md = 1) → e.i = sp.i →
      OFO.WF { m with spec := m.spec.set a.spec.i e, mode := md } := by
    intro md e hmd he
    constructor
    · intro k c' hc
      simp only [List.getElem?_set] at hc
      split at hc
      · split at hc
        · simp at hc; subst hc
          rename_i hk _
          rw [he, ← hk]; exact h.idx _ sp hsp
        · simp at hc
      · exact h.idx k c' hc
    · exact hmd
    · simp [h.next]
  unfold OFO.childStarted
  simp only [hsp, hn, ne_eq, not_true_eq_false, if_false]
  split
  · exact ⟨hwf' m.mode _ h.mode rfl, {}, rfl, Or.inl rfl, by simp, by simp⟩
  · split
    · exact ⟨hwf' 0 _ (Or.inl rfl) rfl, {}, rfl, Or.inl rfl, by simp, by simp⟩
    · split
      · rename_i k c hfs
        have hfs' := findStart_spec (a.spec.i + 1) _ 0 k c hfs
        refine ⟨hwf' m.mode _ h.mode rfl, _, rfl, Or.inr rfl, ?_, by simp⟩
        intro _
        refine ⟨⟨c, by simpa using hfs'.2.2.1, rfl⟩, ?_⟩
        have := hfs'.1
        simp only; omega
      · exact ⟨hwf' m.mode _ h.mode rfl, {}, rfl, Or.inl rfl, by simp, by simp⟩

theorem OFO.childSpec_cases (m : OFO) (name : Nat) (hm : m.mode = 0) :
    (∃ e, m.childSpec name = (m, .err e)) ∨
    (∃ c, m.childSpec name = (m, .ok { act := .start, spec := c }) ∧ findName name m.spec = some c ∧ c.pid = 0 ∧ c.disabled = false) := by
  unfold OFO.childSpec
  by_cases hs : m.shutdown = true
  · exact Or.inl ⟨.strategyActive, by simp [hs]⟩
  have hcond : ¬ (m.mode ≠ 0 ∨ m.shutdown = true) := by simp [hm, hs]
  rw [if_neg hcond]
  cases hf : findName name m.spec with
  | none => exact Or.inl ⟨_, rfl⟩
  | some c =>
    simp only
    by_cases hd : c.disabled = true
    · simp [hd]
    · by_cases hp : c.pid = 0
      · right; exact ⟨c, by simp [hd, hp], rfl, hp, by simpa using hd⟩
      · simp [hd, hp]

theorem OFO.childSpec_good (m : OFO) (name args : Nat) (h : OFO.WF m) :
    let r := m.childSpec name
    let r' := match r.2 with
      | .ok a => (r.1, Res.ok (if args > 0 then { a with spec := { a.spec with args := args } } else a))
      | _ => r
    OFO.WF r'.1 ∧ OFO.GoodRes r'.1 r'.2 := by
  rcases h.mode with hm | hm
  rotate_left
  · have : m.childSpec name = (m, .err .strategyActive) := by simp [OFO.childSpec, hm]
    rw [this]; exact ⟨h, by simp [OFO.GoodRes]⟩
  rcases OFO.childSpec_cases m name hm with ⟨e, he⟩ | ⟨c, hc, hf, _, _⟩
  · rw [he]; exact ⟨h, by simp [OFO.GoodRes]⟩
  · rw [hc]
    obtain ⟨k, hk, hn⟩ := findName_getElem name m.spec c hf
    have hi := h.idx k c hk
    simp only
    refine ⟨h, ?_⟩
    simp only [OFO.GoodRes]
    intro _
    split <;> exact ⟨c, by simpa [hi] using hk, rfl⟩

theorem OFO.childAddSpec_cases (m : OFO) (name : Nat) (sig : Bool) (hm : m.mode = 0) :
    (∃ e, m.childAddSpec name sig = (m, .err e)) ∨
    m.childAddSpec name sig =
      ({ m with i := m.i + 1, spec := m.spec ++ [{ name := name, significant := sig, register := true, i := m.i }] },
       .ok { act := .start, spec := { name := name, significant := sig, register := true, i := m.i } }) := by
  unfold OFO.childAddSpec
  by_cases hs : m.shutdown = true
  · exact Or.inl ⟨.strategyActive, by simp [hs]⟩
  have hcond : ¬ (m.mode ≠ 0 ∨ m.shutdown = true) := by simp [hm, hs]
  rw [if_neg hcond]
  split
  · exact Or.inl ⟨_, rfl⟩
  · split
    · exact Or.inl ⟨_, rfl⟩
    · exact Or.inr rfl

theorem OFO.childAddSpec_good (m : OFO) (name : Nat) (sig : Bool) (h : OFO.WF m) :
    OFO.WF (m.childAddSpec name sig).1 ∧ OFO.GoodRes (m.childAddSpec name sig).1 (m.childAddSpec name sig).2 := by
  rcases h.mode with hm | hm
  rotate_left
  · have : m.childAddSpec name sig = (m, .err .strategyActive) := by simp [OFO.childAddSpec, hm]
    rw [this]; exact ⟨h, by simp [OFO.GoodRes]⟩
  rcases OFO.childAddSpec_cases m name sig hm with ⟨e, he⟩ | he
  · rw [he]; exact ⟨h, by simp [OFO.GoodRes]⟩
  · rw [he]
    constructor
    · constructor
      · intro k c hc
        simp only [List.getElem?_append] at hc
        split at hc
        · exact h.idx k c hc
        · rename_i hk
          have : k - m.spec.length = 0 := by
            cases hx : k - m.spec.length with
            | zero => rfl
            | succ n => rw [hx] at hc; simp at hc
          rw [this] at hc
          simp at hc
          subst hc
          simp only
          rw [h.next]; omega
      · exact h.mode
      · simp [h.next]
    · simp only [OFO.GoodRes]
      intro _
      refine ⟨_, ?_, rfl⟩
      simp [h.next]

/-- replacing the first spec named `name` by a spec with the same name and index keeps names and indices pointwise -/
theorem updName_const_getElem (name : Nat) (c d : ChildSpec) (hd : d.name = c.name ∧ d.i = c.i) (l : List ChildSpec)
    (hf : findName name l = some c) (k' : Nat) (c' : ChildSpec)
    (hc' : (updName name (fun _ => d) l)[k']? = some c') :
    ∃ c0 : ChildSpec, l[k']? = some c0 ∧ c'.name = c0.name ∧ c'.i = c0.i := by
  induction l generalizing k' with
  | nil => simp [findName] at hf
  | cons a t ih =>
    simp only [findName] at hf
    simp only [updName] at hc'
    split at hf
    · rename_i hnm
      simp at hf; subst hf
      simp only [hnm, if_true] at hc'
      cases k' with
      | zero => simp at hc'; subst hc'; exact ⟨a, by simp, hd.1, hd.2⟩
      | succ k'' => exact ⟨c', by simpa using hc', rfl, rfl⟩
    · rename_i hnm
      simp only [hnm, if_false] at hc'
      cases k' with
      | zero => simp at hc'; subst hc'; exact ⟨a, by simp, rfl, rfl⟩
      | succ k'' =>
        simp at hc'
        obtain ⟨c0, h1, h2, h3⟩ := ih hf k'' hc'
        exact ⟨c0, by simpa using h1, h2, h3⟩

theorem updName_const_at (name : Nat) (c d : ChildSpec) (hd : d.name = c.name) (hn : c.name = name) (l : List ChildSpec)
    (k : Nat) (hk : l[k]? = some c) (hf : findName name l = some c) :
    ∃ c' : ChildSpec, (updName name (fun _ => d) l)[k]? = some c' ∧ c'.name = c.name := by
  induction l generalizing k with
  | nil => simp at hk
  | cons a t ih =>
    simp only [findName] at hf
    simp only [updName]
    split at hf
    · rename_i hnm
      simp at hf; subst hf
      simp only [hnm, if_true]
      cases k with
      | zero => exact ⟨d, by simp, hd.trans hnm⟩
      | succ k' => exact ⟨a, by simpa using hk, hnm⟩
    · rename_i hnm
      simp only [hnm, if_false]
      cases k with
      | zero => simp at hk; subst hk; exact absurd hn hnm
      | succ k' =>
        simp at hk
        obtain ⟨c', h1, h2⟩ := ih k' hk hf
        exact ⟨c', by simpa using h1, h2⟩

theorem OFO.childEnable_good (m : OFO) (name : Nat) (h : OFO.WF m) :
    OFO.WF (m.childEnable name).1 ∧ OFO.GoodRes (m.childEnable name).1 (m.childEnable name).2 := by
  unfold OFO.childEnable
  by_cases hs : m.shutdown = true
  · simp only [hs, if_true]; exact ⟨h, by simp [OFO.GoodRes]⟩
  simp only [hs, Bool.false_eq_true, if_false]
  cases hf : findName name m.spec with
  | none => exact ⟨h, by simp [OFO.GoodRes]⟩
  | some c =>
    simp only
    obtain ⟨k, hk, hn⟩ := findName_getElem name m.spec c hf
    have hi := h.idx k c hk
    split
    · exact ⟨h, by simp [OFO.GoodRes]⟩
    · constructor
      · dsimp only
        exact OFO.wf_of_spec h rfl rfl (updName_length _ _ _)
          (fun k' c' hc => updName_const_getElem name c { c with disabled := false } ⟨rfl, rfl⟩ m.spec hf k' c' hc)
      · simp only [OFO.GoodRes]
        intro _
        obtain ⟨c', h1, h2⟩ := updName_const_at name c { c with disabled := false } rfl hn m.spec k hk hf
        exact ⟨c', by simpa [hi] using h1, by simpa using h2⟩

theorem OFO.childDisable_good (m : OFO) (name : Nat) (h : OFO.WF m) :
    OFO.WF (m.childDisable name).1 ∧ OFO.GoodRes (m.childDisable name).1 (m.childDisable name).2 := by
  unfold OFO.childDisable
  have hupd : OFO.WF { m with spec := updName name (fun c => { c with disabled := true }) m.spec } :=
    OFO.wf_of_spec h rfl rfl (updName_length _ _ _)
      (fun k c' hc => updName_getElem name (fun c => { c with disabled := true }) (fun c => ⟨rfl, rfl⟩) m.spec k c' hc)
  cases hf : findName name m.spec with
  | none => exact ⟨h, by simp [OFO.GoodRes]⟩
  | some c =>
    simp only
    split
    · exact ⟨h, by simp [OFO.GoodRes]⟩
    · split
      · exact ⟨hupd, by simp [OFO.GoodRes]⟩
      · exact ⟨hupd, by simp [OFO.GoodRes]⟩


theorem OFO.stopAll_i (s : OFO) (sc : Scan) (r : Reason) : (OFO.stopAll s sc r).1.i = s.i := by
  unfold OFO.stopAll; split <;> rfl
theorem OFO.autoShutdown_i (s : OFO) (sc : Scan) (r : Reason) : (OFO.autoShutdown s sc r).1.i = s.i := by
  unfold OFO.autoShutdown; split <;> rfl
theorem OFO.quietStep_i (s : OFO) (sc : Scan) (sp : ChildSpec) (r : Reason) : (OFO.quietStep s sc sp r).1.i = s.i := by
  unfold OFO.quietStep; split
  · exact OFO.stopAll_i _ _ _
  · exact OFO.autoShutdown_i _ _ _
theorem OFO.intensityStep_i (s : OFO) (sc : Scan) (sp : ChildSpec) (now : Int) : (OFO.intensityStep s sc sp now).1.i = s.i := by
  unfold OFO.intensityStep; simp only; split <;> rfl

theorem OFO.ct_i (m : OFO) (name pid : Nat) (r : Reason) (now : Int) : (m.childTerminated name pid r now).1.i = m.i := by
  unfold OFO.childTerminated
  simp only
  repeat' split
  all_goals first | rfl | (rw [OFO.stopAll_i]) | (rw [OFO.autoShutdown_i]) | (rw [OFO.quietStep_i]) | (rw [OFO.intensityStep_i])

theorem OFO.childSpec_fst (m : OFO) (name : Nat) : (m.childSpec name).1 = m := by
  unfold OFO.childSpec
  repeat' split
  all_goals rfl

theorem OFO.childAddSpec_i (m : OFO) (name : Nat) (sig : Bool) : (m.childAddSpec name sig).1.i ≤ m.i + 1 := by
  unfold OFO.childAddSpec
  repeat' split
  all_goals simp

theorem OFO.childEnable_i (m : OFO) (name : Nat) : (m.childEnable name).1.i = m.i := by
  unfold OFO.childEnable
  repeat' split
  all_goals rfl

theorem OFO.childDisable_i (m : OFO) (name : Nat) : (m.childDisable name).1.i = m.i := by
  unfold OFO.childDisable
  repeat' split
  all_goals rfl

structure OFO.Inv (c : Loop OFO) : Prop where
  wf : OFO.WF c.m
  sane : c.status ≠ .panicked ∧ c.status ≠ .stuck

/-- the loop of handleAction around supOFO: with enough fuel it finishes, it never panics, the machine stays
well-formed.  `fuel + a.spec.i > number of specs` is enough because each round starts a spec at a larger index. -/
theorem OFO.handle_gen (fuel : Nat) : ∀ (bits : List Bool) (c : Loop OFO) (a : Action),
    OFO.WF c.m → (a.act = .start → OFO.ValidStart c.m a ∧ c.m.spec.length < fuel + a.spec.i) → 0 < fuel →
    OFO.WF (handleAction ofoMachine fuel bits c a).1.m ∧
    (handleAction ofoMachine fuel bits c a).2 ≠ .panic ∧ (handleAction ofoMachine fuel bits c a).2 ≠ .outOfFuel ∧
    (handleAction ofoMachine fuel bits c a).1.status = c.status := by
  induction fuel with
  | zero => intro bits c a _ _ h0; omega
  | succ n ih =>
    intro bits c a hwf hgood _
    rw [handleAction]
    cases ha : a.act with
    | nothing => simp; exact hwf
    | terminate => simp; exact hwf
    | terminateChildren => simp only; split <;> simp <;> exact hwf
    | start =>
      simp only
      split
      · simp; exact hwf
      · have ⟨hv, hfu⟩ := hgood ha
        have hg := OFO.childStarted_good c.m a c.nextPid hwf hv
        obtain ⟨hwf', a', hres, hkind, hnext, hlen⟩ := hg
        simp only [ofoMachine, hres]
        have hvi : a.spec.i < c.m.spec.length := by
          obtain ⟨sp, hsp, _⟩ := hv
          have := List.getElem?_eq_some_iff.mp hsp
          exact this.1
        rcases hkind with hk | hk
        · -- the chain ends
          have hn0 : 0 < n := by omega
          obtain ⟨n', rfl⟩ : ∃ n', n = n' + 1 := ⟨n - 1, by omega⟩
          rw [handleAction]
          simp only [hk]
          refine ⟨hwf', ?_, ?_, ?_⟩ <;> simp
        · have ⟨hv', hlt⟩ := hnext hk
          have hvi' : a'.spec.i < (OFO.childStarted c.m a.spec c.nextPid).1.spec.length := by
            obtain ⟨sp, hsp, _⟩ := hv'
            exact (List.getElem?_eq_some_iff.mp hsp).1
          have := ih bits.tail
            { c with nextPid := c.nextPid + 1, alive := (c.nextPid, a.spec.name) :: c.alive,
                     kids := (c.nextPid, a.spec.name) :: c.kids, m := (OFO.childStarted c.m a.spec c.nextPid).1 }
            a' hwf' (fun _ => ⟨hv', by simp only; rw [hlen]; omega⟩) (by rw [hlen] at hvi'; omega)
          exact this

theorem OFO.handle_inv (fuel : Nat) (fromApi : Bool) (bits : List Bool) (c : Loop OFO) (a : Action)
    (hwf : OFO.WF c.m) (hgood : a.act = .start → OFO.ValidStart c.m a ∧ c.m.spec.length < fuel + a.spec.i)
    (hf : 0 < fuel) (hst : c.status = .running) :
    OFO.Inv (finish fromApi (handleAction ofoMachine fuel bits c a)) := by
  have ⟨h1, h2, h3, h4⟩ := OFO.handle_gen fuel bits c a hwf hgood hf
  have hff := finish_fields fromApi (handleAction ofoMachine fuel bits c a)
  constructor
  · rw [hff.2.2.2.2.2.1]; exact h1
  · unfold finish
    cases hr : (handleAction ofoMachine fuel bits c a).2 with
    | ret e => cases e <;> simp <;> (try split) <;> simp [h4, hst]
    | spawnErr => simp; split <;> simp [h4, hst]
    | panic => exact absurd hr h2
    | outOfFuel => exact absurd hr h3

theorem OFO.afterCall_inv (fuel : Nat) (fromApi : Bool) (bits : List Bool) (c : Loop OFO) (r : OFO × Res)
    (hst : c.status = .running) (hwf : OFO.WF r.1) (hgood : OFO.GoodRes r.1 r.2) (hfuel : r.1.spec.length + 2 ≤ fuel) :
    OFO.Inv (afterCall ofoMachine fuel fromApi bits c r) := by
  unfold afterCall
  cases hr : r.2 with
  | ok a =>
    simp only
    rw [hr] at hgood
    exact OFO.handle_inv fuel fromApi bits _ a hwf (fun ha => ⟨hgood ha, by simp only; omega⟩) (by omega) hst
  | err e => exact ⟨hwf, by simp [hst]⟩
  | panic => rw [hr] at hgood; exact hgood.elim

/-- every step of the closed one-for-one system keeps the machine well-formed and never panics -/
theorem OFO.step_inv (c c' : Loop OFO) (l : Label) (h : OFO.Inv c) (hs : ofoStep c l = some c') : OFO.Inv c' := by
  unfold ofoStep at hs
  have hlen : ∀ m' : OFO, OFO.WF m' → m'.i ≤ c.m.i + 1 → m'.spec.length + 2 ≤ c.m.spec.length + 3 := by
    intro m' hw hi
    rw [← hw.next, ← h.wf.next]; omega
  cases l with
  | die pid r =>
    simp only [step] at hs
    split at hs; · simp at hs
    split at hs
    · simp only [Option.some.injEq] at hs; subst hs; exact ⟨h.wf, h.sane⟩
    · simp at hs
  | deliver pid now bits =>
    simp only [step] at hs
    split at hs; · simp at hs
    split at hs; · simp at hs
    rename_i hst _ r hr
    simp only [Option.some.injEq] at hs; subst hs
    have hst' : c.status = .running := by simpa using hst
    have hg := OFO.ct_good c.m (lookupKid pid c.kids) pid r now h.wf
    exact OFO.afterCall_inv _ false bits _ _ hst' hg.1 hg.2
      (hlen _ hg.1 (by have := OFO.ct_i c.m (lookupKid pid c.kids) pid r now; simp only [ofoMachine]; omega))
  | foreign r now bits =>
    simp only [step] at hs
    split at hs; · simp at hs
    rename_i hst
    simp only [Option.some.injEq] at hs; subst hs
    have hst' : c.status = .running := by simpa using hst
    have hg := OFO.ct_good c.m 0 c.nextPid r now h.wf
    exact OFO.afterCall_inv _ false bits _ _ hst' hg.1 hg.2
      (hlen _ hg.1 (by have := OFO.ct_i c.m 0 c.nextPid r now; simp only [ofoMachine]; omega))
  | startChild name args bits =>
    simp only [step] at hs
    split at hs; · simp at hs
    rename_i hst
    simp only [Option.some.injEq] at hs; subst hs
    have hst' : c.status = .running := by simpa using hst
    have hg := OFO.childSpec_good c.m name args h.wf
    refine OFO.afterCall_inv _ true bits c _ hst' hg.1 hg.2 (hlen _ hg.1 ?_)
    simp only [ofoMachine]
    split <;> simp [OFO.childSpec_fst]
  | addChild name sig bits =>
    simp only [step] at hs
    split at hs; · simp at hs
    rename_i hst
    simp only [Option.some.injEq] at hs; subst hs
    have hst' : c.status = .running := by simpa using hst
    have hg := OFO.childAddSpec_good c.m name sig h.wf
    exact OFO.afterCall_inv _ true bits c _ hst' hg.1 hg.2 (hlen _ hg.1 (OFO.childAddSpec_i _ _ _))
  | enable name bits =>
    simp only [step] at hs
    split at hs; · simp at hs
    rename_i hst
    simp only [Option.some.injEq] at hs; subst hs
    have hst' : c.status = .running := by simpa using hst
    have hg := OFO.childEnable_good c.m name h.wf
    exact OFO.afterCall_inv _ true bits c _ hst' hg.1 hg.2 (hlen _ hg.1 (by have := OFO.childEnable_i c.m name; simp only [ofoMachine]; omega))
  | disable name =>
    simp only [step] at hs
    split at hs; · simp at hs
    rename_i hst
    simp only [Option.some.injEq] at hs; subst hs
    have hst' : c.status = .running := by simpa using hst
    have hg := OFO.childDisable_good c.m name h.wf
    exact OFO.afterCall_inv _ true [] c _ hst' hg.1 hg.2 (hlen _ hg.1 (by have := OFO.childDisable_i c.m name; simp only [ofoMachine]; omega))

/-- the base case: ProcessInit of a one-for-one supervisor -/
theorem OFO.boot_inv (sp : SupSpec) (hne : sp.children ≠ []) : OFO.Inv (ofoBoot sp) := by
  unfold ofoBoot boot
  have hidx : ∀ (l : List (Nat × Bool)) (k0 k : Nat) (c : ChildSpec), (mkSpecs true k0 l)[k]? = some c → c.i = k0 + k := by
    intro l
    induction l with
    | nil => intro k0 k c h; simp [mkSpecs] at h
    | cons a t ih =>
      intro k0 k c h
      obtain ⟨n, sg⟩ := a
      simp only [mkSpecs] at h
      cases k with
      | zero => simp at h; subst h; rfl
      | succ k' => simp at h; have := ih (k0 + 1) k' c h; omega
  have hlen : ∀ (l : List (Nat × Bool)) (k0 : Nat), (mkSpecs true k0 l).length = l.length := by
    intro l; induction l with
    | nil => intro k0; rfl
    | cons a t ih => intro k0; obtain ⟨n, sg⟩ := a; simp [mkSpecs, ih]
  cases hch : sp.children with
  | nil => exact absurd hch hne
  | cons a t =>
    obtain ⟨n, sg⟩ := a
    have e : mkSpecs true 0 ((n, sg) :: t) = ({ name := n, significant := sg, register := true, i := 0 } : ChildSpec) :: mkSpecs true 1 t := rfl
    have hspec : (OFO.init {} sp).1.spec = mkSpecs true 0 sp.children := by
      simp only [OFO.init, hch, List.nil_append, e]
    have hres : (OFO.init {} sp).2 = .ok { act := .start, spec := { name := n, significant := sg, register := true, i := 0 } } := by
      simp only [OFO.init, hch, List.nil_append, e]
    have hmode : (OFO.init {} sp).1.mode = 1 := by
      simp only [OFO.init, hch, List.nil_append, e]
    have hi : (OFO.init {} sp).1.i = sp.children.length := by
      simp only [OFO.init, hch, List.nil_append, e]; simp
    have hwf : OFO.WF (OFO.init {} sp).1 := by
      constructor
      · intro k c hc; rw [hspec] at hc; have := hidx sp.children 0 k c hc; omega
      · exact Or.inr hmode
      · rw [hi, hspec, hlen]
    rw [← hch]
    apply OFO.afterCall_inv _ false [] _ _ rfl hwf
    · rw [hres]
      simp only [OFO.GoodRes]
      intro _
      refine ⟨{ name := n, significant := sg, register := true, i := 0 }, ?_, rfl⟩
      rw [hspec, hch, e]; rfl
    · rw [hspec, hlen]; omega

end ErgoVerif.Sup

package main

// C11 — EDF round trip. Differential correspondence between the Lean model (Model/Edf.lean through
// `driver edf`) and net/edf, plus an independent round-trip oracle on the implementation alone.
//
//   (1) Edf.enc ~ edf.Encode          model `enc ty val` = bytes of edf.Encode (byte for byte unless a map has > 1 entry)
//   (2) Edf.dec ~ edf.Decode          model `dec hex`    = text of what edf.Decode returned, same rest
//   (3) edf.Decode ∘ Edf.enc          Go decodes the model's bytes: text = model's own `rt ty val`
//   (4) oracle: text(Decode(Encode v)) = text(v) and nothing but the trailing bytes is left
//
// Two listed regions are kept out of the main sweep and explored by small dedicated streams that classify
// by signature: C11/map-array-key (an unnamed map type with an array-typed key cannot be unfolded from its
// descriptor) and C11/zero-width-elements (count > remaining bytes check refuses elements of zero width).

import (
	"bytes"
	"encoding/binary"
	"encoding/hex"
	"errors"
	"fmt"
	"math"
	"reflect"
	"strings"
	"time"

	"ergo.services/ergo/lib"
	"ergo.services/ergo/net/edf"
)

func init() { props["C11"] = runC11 }

type edfCase struct {
	cfg    *edfCfg
	stream string // main | reject | region.map-array-key | region.zero-width | witness.fixed | witness.known
	label  string
	t      reflect.Type
	v      reflect.Value
	ty     string
	val    string

	wantReject string // the generator injected a value the encoder must refuse
	wantSig    string // known-finding witness: signature to report while it reproduces

	G      []byte
	encErr error
	trail  []byte
	goDec  string // decText of edf.Decode(G ++ trail)
	decErr error
	facts  edfFacts
	sig    string // signature a round-trip failure of this case falls under
	rtSent bool

	iEnc, iDec, iRt int // indexes of the case's lines in its job (-1: not sent)
}

func clip(s string, n int) string {
	if len(s) <= n {
		return s
	}
	return fmt.Sprintf("%s…(%d chars)", s[:n], len(s))
}

func (k *edfCase) replay() map[string]interface{} {
	return map[string]interface{}{"config": k.cfg.Name, "ty": k.ty, "val": clip(k.val, 6000), "hex": clip(hex.EncodeToString(k.G), 6000), "stream": k.stream, "label": k.label}
}

func regionSig(v reflect.Value, f *edfFacts) string {
	switch {
	case dynHasMapArrKey(v):
		return "C11/map-array-key"
	case f.zwNonEmpty:
		return "C11/zero-width-elements"
	}
	return "C11/roundtrip"
}

func runC11(c *Ctx) {
	r := c.R
	c.Rng = c.Rng.Fork() // core's seeds s and s+1 yield the same stream shifted by one draw; a fork is mixed
	edfRegister()
	cfgs := edfConfigs()
	for _, cfg := range cfgs {
		if cfg.SentinelFault != "" {
			r.Violation("C11/sentinel-identity", "negotiated error cache: "+cfg.SentinelFault, map[string]interface{}{"config": cfg.Name})
		}
	}
	pre := edfPreamble()
	r.Rule = "random Go type (depth <= 6 over primitives, framework identifiers, time, error, any, registered named/struct/marshaler types) then a random value of it, " +
		"lengths biased to 0/1/255/256/4095/4096/32767/32768/65533..65536, nil vs empty at every level, under 14 option configurations (atom/reg/err caches, mappings, Cache); " +
		"per case: model enc = Go bytes, model dec = Go Decode text, Go Decode of model bytes = model rt, and the implementation-only round-trip oracle. " +
		"non-trivial = nesting depth >= 2, or a boundary length (>= 254) was used, or a cache id was used in the encoding; distinct by (config, type text, value text)"

	total := c.N(6000, 130000)
	round := 1500
	nDis := map[string]int{}
	disagree := func(name, what string, k *edfCase, extra map[string]interface{}) {
		nDis[name]++
		if nDis[name] > 3 {
			return
		}
		rp := k.replay()
		for a, b := range extra {
			rp[a] = b
		}
		r.Disagree(name, what, rp)
	}
	tooMany := func() bool {
		n := 0
		for _, x := range nDis {
			n += x
		}
		return n > 12
	}

	// ---- fixed cases: regression witnesses and known-finding witnesses -------------------------
	var cases []*edfCase
	cases = append(cases, c11Witnesses(cfgs)...)
	c11PooledBufferWitness(r, cfgs[0])
	c11TimeAssumption(r)

	// ---- dedicated streams for the two listed regions ------------------------------------------
	nRegion := c.N(150, 1500)
	for _, mode := range []edfMode{edfMapArrKey, edfZeroWidth} {
		for i := 0; i < nRegion; i++ {
			cfg := cfgs[[]int{0, 5, 2, 4}[c.Rng.Intn(4)]]
			g := newEdfGen(c.Rng, mode, 1500)
			g.small = true
			t := g.genRegionType()
			v := g.genValue(t, 0, "top")
			k := &edfCase{cfg: cfg, t: t, v: v, stream: "region.map-array-key"}
			if mode == edfZeroWidth {
				k.stream = "region.zero-width"
			}
			cases = append(cases, k)
		}
	}

	done := 0
	first := true
	for done < total && !tooMany() {
		// ---- main sweep: one round of generated cases --------------------------------------
		n := round
		if total-done < n {
			n = total - done
		}
		for i := 0; i < n; i++ {
			cfg := cfgs[c.Rng.Intn(len(cfgs))]
			budget := 3000
			switch b := c.Rng.Intn(40); {
			case b < 2:
				budget = 140000
			case b < 9:
				budget = 14000
			}
			g := newEdfGen(c.Rng, edfMain, budget)
			if cfg.Boundary {
				g.prefTypes, g.prefAtoms, g.prefSent = edfBoundaryTypes, edfBoundaryAtoms, edfBoundarySentinels
			}
			g.poison = c.Rng.Intn(16) == 0
			if g.poison {
				g.budget += 70000
			}
			t := g.genType(0, true, false)
			v := g.genValue(t, 0, "top")
			k := &edfCase{cfg: cfg, t: t, v: v, stream: "main", wantReject: g.poisoned}
			if g.poisoned != "" {
				k.stream = "reject"
			}
			for s, x := range g.stats {
				r.CountN(s, x)
			}
			if g.boundary {
				k.label = "boundary"
			}
			cases = append(cases, k)
		}
		done += n
		c11Round(c, pre, cases, disagree, first)
		first = false
		cases = cases[:0]
	}
	if tooMany() {
		r.Note("stopped early: too many model/implementation disagreements")
	}
}

// c11Round: Go side, model side and comparison for a batch of cases
func c11Round(c *Ctx, pre []string, cases []*edfCase, disagree func(string, string, *edfCase, map[string]interface{}), sample bool) {
	r := c.R
	jobs := map[*edfCfg]*edfJob{}
	var order []*edfJob
	samples := 0
	for _, k := range cases {
		k.ty, k.val = tyText(k.t), valText(k.v)
		edfWalk(k.v, 0, &k.facts)
		k.sig = regionSig(k.v, &k.facts)
		cfg := k.cfg
		r.Count("cfg." + cfg.Name)
		r.Count("stream." + k.stream)
		r.Count("top." + kindName(k.t))
		r.Count(fmt.Sprintf("depth.%d", k.facts.depth))

		// ---- implementation ---------------------------------------------------------------
		k.G, k.encErr = goEncode(k.v.Interface(), cfg.Enc)
		if k.encErr != nil && strings.HasPrefix(k.encErr.Error(), "PANIC") {
			r.Violation("C11/encode-panic", k.encErr.Error(), k.replay())
		}
		cacheHit := false
		if k.encErr == nil {
			if !strings.HasPrefix(k.stream, "witness.") && c.Rng.Intn(5) == 0 {
				k.trail = make([]byte, 1+c.Rng.Intn(4))
				for i := range k.trail {
					k.trail[i] = byte(c.Rng.U64())
				}
				r.Count("trailing-bytes")
			}
			v, rest, err, escaped := goDecode(append(append([]byte(nil), k.G...), k.trail...), cfg.Dec)
			if escaped {
				r.Violation("C11/decode-panic-escapes", err.Error(), k.replay())
			}
			k.decErr = err
			k.goDec = decText(v, rest, err)
			cacheHit = c11CacheEvidence(r, k)
		}
		// ---- oracles on the implementation alone ------------------------------------------
		switch {
		case k.wantReject != "":
			if k.encErr == nil {
				r.Violation("C11/encoder-accepts-overlong", "edf.Encode accepted a value holding "+k.wantReject, k.replay())
			} else {
				r.Count("reject." + k.wantReject + "." + rejectClass(k.encErr))
			}
		case k.encErr != nil:
			r.Violation(k.sig, "edf.Encode refused a value of the supported algebra: "+k.encErr.Error(), k.replay())
		case cfg.faithful():
			want := "ok " + k.ty + " " + valTextMode(k.v, textMode{quiet32: true, errAs: cfg.expectedErr}) + " " + hexOrDash(k.trail)
			ok := k.goDec == want
			if ok {
				r.Count("oracle.roundtrip-ok")
			}
			if k.wantSig != "" {
				if !ok {
					r.Violation(k.wantSig, "known finding still reproduces ("+k.label+"): Encode succeeds, Decode gives "+decErrOr(k), k.replay())
				} else {
					r.Note("known-finding witness %s (%s) no longer reproduces", k.label, k.wantSig)
				}
			} else if !ok {
				if strings.HasPrefix(k.stream, "region.") {
					// the dedicated streams report each listed signature once and count the rest
					key := "region-fail." + k.sig
					r.Count(key)
					if k.sig == "C11/roundtrip" || r.Distribution[key] == 1 {
						r.Violation(k.sig, "Decode(Encode v) differs from v: "+decErrOr(k), k.replay())
					}
				} else {
					r.Violation(k.sig, "Decode(Encode v) differs from v: "+decErrOr(k)+"; want "+clip(want, 300), k.replay())
				}
			} else if strings.HasPrefix(k.stream, "region.") {
				r.Count("region-pass." + k.sig)
			}
		default:
			r.Count("oracle.skipped-atom-mapping")
		}

		nontrivial := k.facts.depth >= 2 || k.label == "boundary" || cacheHit
		r.Case(cfg.Name+"|"+k.ty+"|"+k.val, nontrivial)
		if sample && samples < 6 && k.stream == "main" {
			samples++
			r.Sample(map[string]interface{}{"config": cfg.Name, "ty": clip(k.ty, 300), "val": clip(k.val, 300), "hex": clip(hex.EncodeToString(k.G), 120), "go_decode": clip(k.goDec, 300)})
		}

		// ---- model lines -------------------------------------------------------------------
		j := jobs[cfg]
		if j == nil {
			j = &edfJob{Cfg: cfg.Lines}
			jobs[cfg] = j
			order = append(order, j)
		}
		k.iEnc, k.iDec, k.iRt = len(j.Lines), -1, -1
		j.Lines = append(j.Lines, "enc "+k.ty+" "+k.val)
		if k.encErr == nil {
			k.iDec = len(j.Lines)
			j.Lines = append(j.Lines, "dec "+hex.EncodeToString(k.G)+hex.EncodeToString(k.trail))
			if k.facts.multiMap || c.Rng.Intn(8) == 0 || k.stream != "main" {
				k.iRt = len(j.Lines)
				j.Lines = append(j.Lines, "rt "+k.ty+" "+k.val)
			}
		}
	}
	if err := edfModelJobs(pre, order, 8); err != nil {
		r.Disagree("edf.driver", err.Error(), nil)
		return
	}
	for _, k := range cases {
		j := jobs[k.cfg]
		mEnc := j.Out[k.iEnc]
		// (1)
		if (mEnc == "none") != (k.encErr != nil) {
			disagree("K1 Edf.enc ~ edf.Encode", fmt.Sprintf("line %q: model %q, implementation %s", clip(j.Lines[k.iEnc], 400), clip(mEnc, 200), encOutcome(k)), k, nil)
			continue
		}
		if k.encErr != nil {
			r.Count("agree.enc-rejects")
			continue
		}
		M, herr := hex.DecodeString(strings.TrimPrefix(mEnc, "-"))
		if herr != nil {
			disagree("K1 Edf.enc ~ edf.Encode", fmt.Sprintf("line %q: unparsable model answer %q", clip(j.Lines[k.iEnc], 400), clip(mEnc, 200)), k, nil)
			continue
		}
		if !k.facts.multiMap {
			if !bytes.Equal(M, k.G) {
				disagree("K1 Edf.enc ~ edf.Encode", fmt.Sprintf("line %q: model %s, implementation %s (first difference at byte %d)", clip(j.Lines[k.iEnc], 400), clip(mEnc, 300), clip(hex.EncodeToString(k.G), 300), firstDiff(M, k.G)), k, nil)
				continue
			}
			r.Count("agree.enc-bytes")
		} else {
			if len(M) != len(k.G) {
				disagree("K1 Edf.enc ~ edf.Encode", fmt.Sprintf("line %q: multi-entry map: model encoding has %d bytes, implementation %d", clip(j.Lines[k.iEnc], 400), len(M), len(k.G)), k, nil)
				continue
			}
			r.Count("agree.enc-length-only(map-order)")
		}
		// (2)
		mDec := j.Out[k.iDec]
		if !decAgree(mDec, k.goDec, k.decErr) {
			disagree("K1 Edf.dec ~ edf.Decode", fmt.Sprintf("line %q: model %q, implementation %q (%v)", clip(j.Lines[k.iDec], 400), clip(mDec, 400), clip(k.goDec, 400), k.decErr), k, nil)
			continue
		}
		r.Count("agree.dec")
		// (3)
		if k.iRt >= 0 {
			mRt := j.Out[k.iRt]
			v, rest, err, _ := goDecode(M, k.cfg.Dec)
			got := decText(v, rest, err)
			if !decAgree(mRt, got, err) {
				disagree("K1 edf.Decode ∘ Edf.enc", fmt.Sprintf("line %q: model %q, implementation decoding the model's bytes %s gives %q (%v)", clip(j.Lines[k.iRt], 400), clip(mRt, 400), clip(mEnc, 200), clip(got, 400), err), k, nil)
				continue
			}
			r.Count("agree.rt")
		}
	}
}

// decAgree: model answer against the implementation's. An implementation error matches `err`, or `panic` when the
// error text is that of a recovered run-time panic.
func decAgree(model, goText string, goErr error) bool {
	if goErr == nil {
		return model == goText
	}
	switch model {
	case "err":
		return !looksLikePanic(goErr)
	case "panic":
		return looksLikePanic(goErr)
	}
	return false
}

func looksLikePanic(e error) bool {
	s := e.Error()
	if strings.HasPrefix(s, "malformed EDF") {
		return false
	}
	return strings.HasPrefix(s, "runtime error") || strings.HasPrefix(s, "reflect") || strings.Contains(s, "unhashable") || strings.HasPrefix(s, "PANIC")
}

func decErrOr(k *edfCase) string {
	if k.decErr != nil {
		return "error " + k.decErr.Error()
	}
	return clip(k.goDec, 300)
}

func encOutcome(k *edfCase) string {
	if k.encErr != nil {
		return "error " + k.encErr.Error()
	}
	return clip(hex.EncodeToString(k.G), 200)
}

func firstDiff(a, b []byte) int {
	for i := 0; i < len(a) && i < len(b); i++ {
		if a[i] != b[i] {
			return i
		}
	}
	if len(a) < len(b) {
		return len(a)
	}
	return len(b)
}

func rejectClass(e error) string {
	switch e {
	case edf.ErrAtomTooLong:
		return "ErrAtomTooLong"
	case edf.ErrStringTooLong:
		return "ErrStringTooLong"
	case edf.ErrErrorTooLong:
		return "ErrErrorTooLong"
	case edf.ErrBinaryTooLong:
		return "ErrBinaryTooLong"
	}
	return "other"
}

// c11CacheEvidence: which cache ids the encoding used (from the bytes for the type prefix, from the value for the rest)
func c11CacheEvidence(r *Result, k *edfCase) bool {
	hit := false
	cfg := k.cfg
	G := k.G
	if len(G) >= 3 && G[0] == 0x83 && binary.BigEndian.Uint16(G[1:3]) > 4095 {
		r.Count("cache.reg-id.top")
		hit = true
	}
	if len(G) >= 3 && G[0] == 0x82 {
		n := int(binary.BigEndian.Uint16(G[1:3]))
		if 3+n <= len(G) {
			d := G[3 : 3+n]
			for i := 0; i+2 < len(d); i++ {
				if d[i] == 0x83 && d[i+1] >= 0x10 && cfg.regD[binary.BigEndian.Uint16(d[i+1:i+3])] != "" {
					r.Count("cache.reg-id.in-descriptor")
					hit = true
					break
				}
			}
		}
	}
	if cfg.Boundary {
		// hand-assigned ids at the boundaries of the id ranges
		for _, id := range []uint16{4096, 4097, 65535} {
			pat := []byte{0x83, byte(id >> 8), byte(id)}
			if bytes.HasPrefix(G, pat) {
				r.Count(fmt.Sprintf("cache.boundary-id.reg.%d.top", id))
			} else if bytes.Contains(G, pat) && cfg.regD[id] != "" && strings.Contains(k.val, edfRegByT[edfBoundaryTypes[map[uint16]int{4096: 0, 4097: 1, 65535: 2}[id]]].Ty) {
				r.Count(fmt.Sprintf("cache.boundary-id.reg.%d.nested", id))
			}
		}
		for _, a := range k.facts.atoms {
			if id := cfg.atomE[a]; id == 256 || id == 257 || id == 65535 {
				r.Count(fmt.Sprintf("cache.boundary-id.atom.%d", id))
			}
		}
		for _, e := range k.facts.sentinels {
			if id := cfg.errE[e]; id == 32768 || id == 32769 || id == 65534 {
				r.Count(fmt.Sprintf("cache.boundary-id.err.%d", id))
			}
		}
	}
	if cfg.Reg && k.facts.regInAny > 0 {
		r.Count("cache.reg-id.in-any")
		hit = true
	}
	for _, a := range k.facts.atoms {
		if m, ok := cfg.amapE[a]; ok {
			a = m
			r.Count("atom-mapping.applied-on-encode")
		}
		if id, ok := cfg.atomE[a]; ok {
			if id > 255 {
				r.Count("cache.atom-id-used")
				hit = true
			} else {
				r.Count("cache.atom-id<=255-sent-inline")
			}
		}
	}
	for _, e := range k.facts.sentinels {
		if id, ok := cfg.errE[e]; ok {
			if id > math.MaxInt16 {
				r.Count("cache.err-id-used")
				hit = true
			} else {
				r.Count("cache.err-id<=32767-sent-as-text")
			}
		} else {
			r.Count("sentinel-sent-as-text")
		}
	}
	return hit
}

// ---------------------------------------------------------------------------
// fixed cases
// ---------------------------------------------------------------------------

func c11Witnesses(cfgs []*edfCfg) []*edfCase {
	off := cfgs[0]
	var out []*edfCase
	add := func(stream, label, sig string, x any) {
		v := reflect.ValueOf(x)
		out = append(out, &edfCase{cfg: off, stream: stream, label: label, wantSig: sig, t: v.Type(), v: v})
	}
	// repaired defects: must pass now
	for _, n := range []int{65533, 65534, 65535} {
		s := strings.Repeat("s", n)
		add("witness.fixed", fmt.Sprintf("string of length %d", n), "", s)
		add("witness.fixed", fmt.Sprintf("string of length %d inside []any", n), "", []any{s, 1})
		add("witness.fixed", fmt.Sprintf("NStr of length %d", n), "", NStr(s))
	}
	for _, t := range []string{"100%", "%d items", "a%!b"} {
		e := errors.New(t)
		ev := reflect.New(tErr).Elem()
		ev.Set(reflect.ValueOf(e))
		out = append(out, &edfCase{cfg: off, stream: "witness.fixed", label: "error text " + t, t: tErr, v: ev})
		add("witness.fixed", "error text "+t+" inside []any", "", []any{e})
		add("witness.fixed", "error text "+t+" in []error", "", []error{e, nil})
	}
	big := bytes.Repeat([]byte{0xab}, 5000)
	add("witness.fixed", "Marsh with a 5000-byte payload", "", Marsh{P: big})
	add("witness.fixed", "Marsh inside []any after 5000 bytes of other data", "", []any{bytes.Repeat([]byte{1}, 5000), Marsh{P: []byte("tail")}, Marsh{P: big}})
	add("witness.fixed", "binary of length 65536", "", bytes.Repeat([]byte{7}, 65536))
	// listed findings: reported under their signature while they reproduce
	// D27 (map keyed by an array type), repaired by 07a18f8: regression witnesses — a failure is reported under
	// C11/map-array-key, which is no longer a listed finding
	add("witness.fixed", "map[[2]int]string top-level", "", map[[2]int]string{{1, 2}: "x"})
	add("witness.fixed", "map[[2]int]string inside []any", "", []any{map[[2]int]string{{1, 2}: "x"}})
	add("witness.fixed", "map[[2][3]int8]map[[1]string][]int", "", map[[2][3]int8]map[[1]string][]int{{{1, 2, 3}, {4, 5, 6}}: {{"k"}: {7}}})
	add("witness.known", "[]SEmpty{{},{}}", "C11/zero-width-elements", []SEmpty{{}, {}})
	add("witness.known", "[3]SEmpty{}", "C11/zero-width-elements", [3]SEmpty{})
	return out
}

// c11PooledBufferWitness: a Marshaler whose payload outgrows a pooled buffer that served a small encode before
// (the length prefix used to be written into the stale backing array)
func c11PooledBufferWitness(r *Result, cfg *edfCfg) {
	b := lib.TakeBuffer()
	_ = edf.Encode("small", b, cfg.Enc)
	lib.ReleaseBuffer(b)
	b = lib.TakeBuffer()
	defer lib.ReleaseBuffer(b)
	m := Marsh{P: bytes.Repeat([]byte{0x5a}, 5000)}
	if err := edf.Encode(m, b, cfg.Enc); err != nil {
		r.Violation("C11/roundtrip", "Marsh 5000 bytes into a reused pooled buffer: Encode failed: "+err.Error(), nil)
		return
	}
	v, rest, err := edf.Decode(b.B, cfg.Dec)
	want := "ok " + tyText(tMarsh) + " " + valText(reflect.ValueOf(m)) + " -"
	if got := decText(v, rest, err); got != want {
		r.Violation("C11/roundtrip", fmt.Sprintf("Marsh with a 5000-byte payload encoded into a reused pooled buffer does not decode back: %s (%v)", clip(got, 200), err),
			map[string]interface{}{"hex": clip(hex.EncodeToString(b.B), 200)})
		return
	}
	r.Count("witness.pooled-buffer-marshaler-ok")
}

// c11TimeAssumption: the config's assumption on time.Time (UnmarshalBinary ∘ MarshalBinary = id) probed on the
// standard library itself; a failure is a note, not a finding about the codec.
func c11TimeAssumption(r *Result) {
	for _, off := range []int{3600 + 17, -(9*3600 + 59*60 + 59), -30, 59} {
		t0 := time.Unix(1700000000, 5).In(time.FixedZone("", off))
		b, err := t0.MarshalBinary()
		if err != nil {
			continue
		}
		var t1 time.Time
		if err := t1.UnmarshalBinary(b); err != nil {
			continue
		}
		b1, _ := t1.MarshalBinary()
		if !bytes.Equal(b, b1) {
			r.Count("assumption.time-binary-roundtrip-fails(stdlib)")
			r.Note("standard library: time.Time with zone offset %d s marshals to %x but unmarshals to a time that marshals to %x (negative sub-minute offsets are not generated)", off, b, b1)
		}
	}
}

package main

import (
	"bufio"
	"bytes"
	"crypto/sha256"
	"encoding/hex"
	"encoding/json"
	"fmt"
	"os"
	"os/exec"
	"sort"
	"strings"
	"sync"
)

// ---------------------------------------------------------------------------
// PRNG: splitmix64, every random choice of a run derives from one state
// ---------------------------------------------------------------------------

type Rng struct{ s uint64 }

func NewRng(seed uint64) *Rng { return &Rng{s: seed*0x9E3779B97F4A7C15 + 0x1234567} }

func (r *Rng) U64() uint64 {
	r.s += 0x9E3779B97F4A7C15
	z := r.s
	z = (z ^ (z >> 30)) * 0xBF58476D1CE4E5B9
	z = (z ^ (z >> 27)) * 0x94D049BB133111EB
	return z ^ (z >> 31)
}
func (r *Rng) Intn(n int) int {
	if n <= 0 {
		return 0
	}
	return int(r.U64() % uint64(n))
}
func (r *Rng) Bool() bool          { return r.U64()&1 == 1 }
func (r *Rng) Chance(p, q int) bool { return r.Intn(q) < p }
func (r *Rng) Pick(xs []int) int    { return xs[r.Intn(len(xs))] }
func (r *Rng) Fork() *Rng           { return &Rng{s: r.U64()} }

// Perm returns a random permutation of 0..n-1.
func (r *Rng) Perm(n int) []int {
	p := make([]int, n)
	for i := range p {
		p[i] = i
	}
	for i := n - 1; i > 0; i-- {
		j := r.Intn(i + 1)
		p[i], p[j] = p[j], p[i]
	}
	return p
}

// ---------------------------------------------------------------------------
// Result accumulator (written to -out as JSON, consumed by ./check)
// ---------------------------------------------------------------------------

type Item struct {
	Name      string      `json:"name,omitempty"`      // correspondence name (disagreements)
	Signature string      `json:"signature,omitempty"` // finding signature (violations)
	Kind      string      `json:"kind,omitempty"`
	What      string      `json:"what"`
	Replay    interface{} `json:"replay,omitempty"`
}

type Result struct {
	mu            sync.Mutex
	Evaluations   int            `json:"evaluations"`
	Distinct      int            `json:"distinct_nontrivial"`
	Rule          string         `json:"rule"`
	Samples       []interface{}  `json:"samples"`
	Distribution  map[string]int `json:"distribution"`
	Disagreements []Item         `json:"disagreements"`
	Violations    []Item         `json:"violations"`
	Notes         []string       `json:"notes,omitempty"`
	seen          map[[8]byte]struct{}
	perSig        map[string]int
}

func NewResult() *Result {
	return &Result{Distribution: map[string]int{}, seen: map[[8]byte]struct{}{}, Samples: []interface{}{},
		Disagreements: []Item{}, Violations: []Item{}}
}

// Case records one explored case; key identifies it for distinctness, nontrivial per the property's rule.
func (r *Result) Case(key string, nontrivial bool) {
	r.mu.Lock()
	defer r.mu.Unlock()
	r.Evaluations++
	if !nontrivial {
		return
	}
	h := sha256.Sum256([]byte(key))
	var k [8]byte
	copy(k[:], h[:8])
	if _, ok := r.seen[k]; !ok {
		r.seen[k] = struct{}{}
		r.Distinct++
	}
}
func (r *Result) Count(k string) { r.mu.Lock(); r.Distribution[k]++; r.mu.Unlock() }
func (r *Result) CountN(k string, n int) {
	r.mu.Lock()
	r.Distribution[k] += n
	r.mu.Unlock()
}
func (r *Result) Sample(s interface{}) {
	r.mu.Lock()
	if len(r.Samples) < 8 {
		r.Samples = append(r.Samples, s)
	}
	r.mu.Unlock()
}
func (r *Result) Disagree(name, what string, replay interface{}) {
	r.mu.Lock()
	if len(r.Disagreements) < 20 {
		r.Disagreements = append(r.Disagreements, Item{Name: name, What: what, Replay: replay, Kind: "correspondence"})
	}
	r.mu.Unlock()
}
func (r *Result) Violation(sig, what string, replay interface{}) {
	r.mu.Lock()
	// at most three witnesses per signature, so that a frequently hit (e.g. listed) finding cannot crowd out others
	if r.perSig == nil {
		r.perSig = map[string]int{}
	}
	if r.perSig[sig] < 3 && len(r.Violations) < 400 {
		r.perSig[sig]++
		r.Violations = append(r.Violations, Item{Signature: sig, What: what, Replay: replay, Kind: "input"})
	}
	r.mu.Unlock()
}
func (r *Result) Note(f string, a ...interface{}) {
	r.mu.Lock()
	r.Notes = append(r.Notes, fmt.Sprintf(f, a...))
	r.mu.Unlock()
}
func (r *Result) Failed() bool { return len(r.Disagreements) > 0 || len(r.Violations) > 0 }

func (r *Result) Write(path string) error {
	b, err := json.MarshalIndent(r, "", " ")
	if err != nil {
		return err
	}
	return os.WriteFile(path, b, 0o644)
}

// ---------------------------------------------------------------------------
// Lean model driver: batch line protocol
// ---------------------------------------------------------------------------

var driverPath string

// Model runs `driver <model>` on the given input lines and returns one output line per input line.
func Model(model string, lines []string) ([]string, error) {
	cmd := exec.Command(driverPath, model)
	var in bytes.Buffer
	for _, l := range lines {
		in.WriteString(l)
		in.WriteByte('\n')
	}
	cmd.Stdin = &in
	var out, errb bytes.Buffer
	cmd.Stdout = &out
	cmd.Stderr = &errb
	if err := cmd.Run(); err != nil {
		return nil, fmt.Errorf("driver %s: %v: %s", model, err, errb.String())
	}
	var res []string
	sc := bufio.NewScanner(&out)
	sc.Buffer(make([]byte, 1<<20), 1<<28)
	for sc.Scan() {
		res = append(res, sc.Text())
	}
	if len(res) != len(lines) {
		return res, fmt.Errorf("driver %s: %d input lines, %d output lines; stderr: %s", model, len(lines), len(res), errb.String())
	}
	return res, nil
}

// ModelParallel splits the lines into chunks handled by several driver processes (stateless models only).
func ModelParallel(model string, lines []string, workers int) ([]string, error) {
	if workers < 1 {
		workers = 1
	}
	n := len(lines)
	if n < 64 || workers == 1 {
		return Model(model, lines)
	}
	chunk := (n + workers - 1) / workers
	outs := make([][]string, workers)
	errs := make([]error, workers)
	var wg sync.WaitGroup
	for w := 0; w < workers; w++ {
		lo, hi := w*chunk, (w+1)*chunk
		if lo >= n {
			break
		}
		if hi > n {
			hi = n
		}
		wg.Add(1)
		go func(w, lo, hi int) {
			defer wg.Done()
			outs[w], errs[w] = Model(model, lines[lo:hi])
		}(w, lo, hi)
	}
	wg.Wait()
	var res []string
	for w := 0; w < workers; w++ {
		if errs[w] != nil {
			return nil, errs[w]
		}
		res = append(res, outs[w]...)
	}
	return res, nil
}

// ---------------------------------------------------------------------------
// helpers
// ---------------------------------------------------------------------------

func hexs(b []byte) string { return hex.EncodeToString(b) }

func joinInts(xs []int64) string {
	var sb strings.Builder
	for i, x := range xs {
		if i > 0 {
			sb.WriteByte(',')
		}
		fmt.Fprintf(&sb, "%d", x)
	}
	return sb.String()
}

func sortedKeys(m map[string]int) []string {
	ks := make([]string, 0, len(m))
	for k := range m {
		ks = append(ks, k)
	}
	sort.Strings(ks)
	return ks
}

package main

// K5 wire harness infrastructure (used by C12 and the frame part of C16): real `proto`
// connections created through the public API (proto.Create().NewConnection / Connection.Join)
// with a mock gen.Core that records every Route* call, joined by in-memory pipes through relays
// that re-cut the byte stream into PRNG-sized segments and keep a copy of everything that went
// over the wire.

import (
	"bytes"
	"encoding/binary"
	"errors"
	"fmt"
	"io"
	"net"
	"sync"
	"sync/atomic"
	"time"

	"ergo.services/ergo/gen"
	"ergo.services/ergo/lib"
	"ergo.services/ergo/net/handshake"
	"ergo.services/ergo/net/proto"
)

// ---------------------------------------------------------------------------
// log: counts errors / panics reported by the connection
// ---------------------------------------------------------------------------

type w5Log struct {
	mu     sync.Mutex
	errs   []string
	panics []string
}

func (l *w5Log) Level() gen.LogLevel         { return gen.LogLevelError }
func (l *w5Log) SetLevel(gen.LogLevel) error { return nil }
func (l *w5Log) Logger() string              { return "" }
func (l *w5Log) SetLogger(string)            {}
func (l *w5Log) Fields() []gen.LogField      { return nil }
func (l *w5Log) AddFields(...gen.LogField)   {}
func (l *w5Log) DeleteFields(...string)      {}
func (l *w5Log) PushFields() int             { return 0 }
func (l *w5Log) PopFields() int              { return 0 }
func (l *w5Log) Trace(string, ...any)        {}
func (l *w5Log) Debug(string, ...any)        {}
func (l *w5Log) Info(string, ...any)         {}
func (l *w5Log) Warning(string, ...any)      {}
func (l *w5Log) Error(f string, a ...any) {
	l.mu.Lock()
	if len(l.errs) < 200 {
		s := fmt.Sprintf(f, a...)
		if len(s) > 200 {
			s = s[:200]
		}
		l.errs = append(l.errs, s)
	}
	l.mu.Unlock()
}
func (l *w5Log) Panic(f string, a ...any) {
	l.mu.Lock()
	if len(l.panics) < 200 {
		s := fmt.Sprintf(f, a...)
		if len(s) > 300 {
			s = s[:300]
		}
		l.panics = append(l.panics, s)
	}
	l.mu.Unlock()
}
func (l *w5Log) Errs() []string {
	l.mu.Lock()
	defer l.mu.Unlock()
	return append([]string(nil), l.errs...)
}
func (l *w5Log) Panics() []string {
	l.mu.Lock()
	defer l.mu.Unlock()
	return append([]string(nil), l.panics...)
}

// ---------------------------------------------------------------------------
// mock core
// ---------------------------------------------------------------------------

// w5Route is one recorded Route* call in canonical form.
type w5Route struct {
	Kind    string // method name without "Route"
	From    gen.PID
	To      string // canonical addressee: fmt of PID / ProcessID / Alias / Event
	ToID    uint64 // numeric id of the addressee (PID id, first alias word)
	ToName  string // name of the addressee (process name, event name)
	Prio    int
	Ref     gen.Ref
	Payload any   // message / reason / error
	TS      int64 // event timestamp
	Ret     error // what the mock returned
}

var (
	w5ErrCustom = errors.New("w5 custom remote failure")
)

// w5Script decides the result of a Route* call from the low bits of the addressee id
// (so that the sender side knows what to expect without any shared state).
func w5Script(id uint64) error {
	switch id % 8 {
	case 4:
		return gen.ErrProcessUnknown
	case 5:
		return gen.ErrProcessMailboxFull
	case 6:
		return gen.ErrProcessTerminated
	case 7:
		return w5ErrCustom
	}
	return nil
}

type w5Core struct {
	gen.Core // nil: any method not overridden below panics if the connection calls it
	name     gen.Atom
	creation int64
	mu       sync.Mutex
	routes   []w5Route
	n        int64
	uniq     uint64
	// result of Route* calls addressed by name / event (by name string)
	nameScript func(name string) error
}

func (c *w5Core) rec(r w5Route) error {
	c.mu.Lock()
	c.routes = append(c.routes, r)
	c.mu.Unlock()
	atomic.AddInt64(&c.n, 1)
	return r.Ret
}
func (c *w5Core) Count() int64 { return atomic.LoadInt64(&c.n) }
func (c *w5Core) Routes() []w5Route {
	c.mu.Lock()
	defer c.mu.Unlock()
	return append([]w5Route(nil), c.routes...)
}
func (c *w5Core) byName(n gen.Atom) error {
	if c.nameScript != nil {
		return c.nameScript(string(n))
	}
	return nil
}

func (c *w5Core) Name() gen.Atom                { return c.name }
func (c *w5Core) Creation() int64               { return c.creation }
func (c *w5Core) PID() gen.PID                  { return gen.PID{Node: c.name, ID: 1, Creation: c.creation} }
func (c *w5Core) LogLevel() gen.LogLevel        { return gen.LogLevelError }
func (c *w5Core) Security() gen.SecurityOptions { return gen.SecurityOptions{} }
func (c *w5Core) EnvList() map[gen.Env]any      { return nil }
func (c *w5Core) RouteNodeDown(gen.Atom, error) {}
func (c *w5Core) MakeRef() gen.Ref {
	u := atomic.AddUint64(&c.uniq, 1)
	return gen.Ref{Node: c.name, Creation: c.creation, ID: [3]uint64{u, 0x5757, 0}}
}

func (c *w5Core) RouteSendPID(from gen.PID, to gen.PID, o gen.MessageOptions, m any) error {
	return c.rec(w5Route{Kind: "SendPID", From: from, To: w5pid(to), Prio: int(o.Priority), Ref: o.Ref, Payload: m, Ret: w5Script(to.ID)})
}
func (c *w5Core) RouteSendProcessID(from gen.PID, to gen.ProcessID, o gen.MessageOptions, m any) error {
	return c.rec(w5Route{Kind: "SendProcessID", From: from, To: w5name(to), Prio: int(o.Priority), Ref: o.Ref, Payload: m, Ret: c.byName(to.Name)})
}
func (c *w5Core) RouteSendAlias(from gen.PID, to gen.Alias, o gen.MessageOptions, m any) error {
	return c.rec(w5Route{Kind: "SendAlias", From: from, To: w5alias(to), Prio: int(o.Priority), Ref: o.Ref, Payload: m, Ret: w5Script(to.ID[0])})
}
func (c *w5Core) RouteSendEvent(from gen.PID, token gen.Ref, o gen.MessageOptions, m gen.MessageEvent) error {
	return c.rec(w5Route{Kind: "SendEvent", From: from, To: w5event(m.Event), Prio: int(o.Priority), Ref: token, Payload: m.Message, TS: m.Timestamp})
}
func (c *w5Core) RouteSendExit(from gen.PID, to gen.PID, reason error) error {
	return c.rec(w5Route{Kind: "SendExit", From: from, To: w5pid(to), Payload: reason})
}
func (c *w5Core) RouteSendResponse(from gen.PID, to gen.PID, o gen.MessageOptions, m any) error {
	return c.rec(w5Route{Kind: "SendResponse", From: from, To: w5pid(to), Prio: int(o.Priority), Ref: o.Ref, Payload: m})
}
func (c *w5Core) RouteSendResponseError(from gen.PID, to gen.PID, o gen.MessageOptions, err error) error {
	return c.rec(w5Route{Kind: "SendResponseError", From: from, To: w5pid(to), Prio: int(o.Priority), Ref: o.Ref, Payload: err})
}
func (c *w5Core) RouteCallPID(from gen.PID, to gen.PID, o gen.MessageOptions, m any) error {
	return c.rec(w5Route{Kind: "CallPID", From: from, To: w5pid(to), Prio: int(o.Priority), Ref: o.Ref, Payload: m, Ret: w5Script(to.ID)})
}
func (c *w5Core) RouteCallProcessID(from gen.PID, to gen.ProcessID, o gen.MessageOptions, m any) error {
	return c.rec(w5Route{Kind: "CallProcessID", From: from, To: w5name(to), Prio: int(o.Priority), Ref: o.Ref, Payload: m, Ret: c.byName(to.Name)})
}
func (c *w5Core) RouteCallAlias(from gen.PID, to gen.Alias, o gen.MessageOptions, m any) error {
	return c.rec(w5Route{Kind: "CallAlias", From: from, To: w5alias(to), Prio: int(o.Priority), Ref: o.Ref, Payload: m, Ret: w5Script(to.ID[0])})
}
func (c *w5Core) RouteTerminatePID(t gen.PID, reason error) error {
	return c.rec(w5Route{Kind: "TerminatePID", To: w5pid(t), ToID: t.ID, Payload: reason})
}
func (c *w5Core) RouteTerminateProcessID(t gen.ProcessID, reason error) error {
	return c.rec(w5Route{Kind: "TerminateProcessID", To: w5name(t), ToName: string(t.Name), Payload: reason})
}
func (c *w5Core) RouteTerminateEvent(t gen.Event, reason error) error {
	return c.rec(w5Route{Kind: "TerminateEvent", To: w5event(t), ToName: string(t.Name), Payload: reason})
}
func (c *w5Core) RouteTerminateAlias(t gen.Alias, reason error) error {
	return c.rec(w5Route{Kind: "TerminateAlias", To: w5alias(t), ToID: t.ID[0], Payload: reason})
}
func (c *w5Core) RouteLinkPID(pid gen.PID, t gen.PID) error {
	return c.rec(w5Route{Kind: "LinkPID", From: pid, To: w5pid(t), Ret: w5Script(t.ID)})
}
func (c *w5Core) RouteUnlinkPID(pid gen.PID, t gen.PID) error {
	return c.rec(w5Route{Kind: "UnlinkPID", From: pid, To: w5pid(t), Ret: w5Script(t.ID)})
}
func (c *w5Core) RouteMonitorPID(pid gen.PID, t gen.PID) error {
	return c.rec(w5Route{Kind: "MonitorPID", From: pid, To: w5pid(t), Ret: w5Script(t.ID)})
}
func (c *w5Core) RouteDemonitorPID(pid gen.PID, t gen.PID) error {
	return c.rec(w5Route{Kind: "DemonitorPID", From: pid, To: w5pid(t), Ret: w5Script(t.ID)})
}
func (c *w5Core) RouteLinkAlias(pid gen.PID, t gen.Alias) error {
	return c.rec(w5Route{Kind: "LinkAlias", From: pid, To: w5alias(t), Ret: w5Script(t.ID[0])})
}
func (c *w5Core) RouteMonitorProcessID(pid gen.PID, t gen.ProcessID) error {
	return c.rec(w5Route{Kind: "MonitorProcessID", From: pid, To: w5name(t), Ret: c.byName(t.Name)})
}

func (c *w5Core) RouteLinkProcessID(pid gen.PID, t gen.ProcessID) error {
	return c.rec(w5Route{Kind: "LinkProcessID", From: pid, To: w5name(t), Ret: c.byName(t.Name)})
}
func (c *w5Core) RouteUnlinkProcessID(pid gen.PID, t gen.ProcessID) error {
	return c.rec(w5Route{Kind: "UnlinkProcessID", From: pid, To: w5name(t), Ret: c.byName(t.Name)})
}
func (c *w5Core) RouteDemonitorProcessID(pid gen.PID, t gen.ProcessID) error {
	return c.rec(w5Route{Kind: "DemonitorProcessID", From: pid, To: w5name(t), Ret: c.byName(t.Name)})
}
func (c *w5Core) RouteUnlinkAlias(pid gen.PID, t gen.Alias) error {
	return c.rec(w5Route{Kind: "UnlinkAlias", From: pid, To: w5alias(t), Ret: w5Script(t.ID[0])})
}
func (c *w5Core) RouteMonitorAlias(pid gen.PID, t gen.Alias) error {
	return c.rec(w5Route{Kind: "MonitorAlias", From: pid, To: w5alias(t), Ret: w5Script(t.ID[0])})
}
func (c *w5Core) RouteDemonitorAlias(pid gen.PID, t gen.Alias) error {
	return c.rec(w5Route{Kind: "DemonitorAlias", From: pid, To: w5alias(t), Ret: w5Script(t.ID[0])})
}
func (c *w5Core) RouteLinkEvent(pid gen.PID, t gen.Event) ([]gen.MessageEvent, error) {
	return nil, c.rec(w5Route{Kind: "LinkEvent", From: pid, To: w5event(t), Ret: c.byName(t.Name)})
}
func (c *w5Core) RouteUnlinkEvent(pid gen.PID, t gen.Event) error {
	return c.rec(w5Route{Kind: "UnlinkEvent", From: pid, To: w5event(t), Ret: c.byName(t.Name)})
}
func (c *w5Core) RouteMonitorEvent(pid gen.PID, t gen.Event) ([]gen.MessageEvent, error) {
	return nil, c.rec(w5Route{Kind: "MonitorEvent", From: pid, To: w5event(t), Ret: c.byName(t.Name)})
}
func (c *w5Core) RouteDemonitorEvent(pid gen.PID, t gen.Event) error {
	return c.rec(w5Route{Kind: "DemonitorEvent", From: pid, To: w5event(t), Ret: c.byName(t.Name)})
}
func (c *w5Core) RouteSpawn(node gen.Atom, name gen.Atom, o gen.ProcessOptionsExtra, source gen.Atom) (gen.PID, error) {
	err := c.rec(w5Route{Kind: "Spawn", To: "spawn:" + string(name), ToName: string(name), Ret: c.byName(name)})
	return gen.PID{Node: c.name, ID: 4242, Creation: c.creation}, err
}
func (c *w5Core) RouteApplicationStart(name gen.Atom, mode gen.ApplicationMode, o gen.ApplicationOptionsExtra, source gen.Atom) error {
	return c.rec(w5Route{Kind: "ApplicationStart", To: "app:" + string(name), ToName: string(name), Ret: c.byName(name)})
}

func w5pid(p gen.PID) string        { return fmt.Sprintf("pid:%s/%d/%d", string(p.Node), p.ID, p.Creation) }
func w5name(p gen.ProcessID) string { return fmt.Sprintf("name:%s/%s", string(p.Node), string(p.Name)) }
func w5event(e gen.Event) string    { return fmt.Sprintf("event:%s/%s", string(e.Node), string(e.Name)) }
func w5alias(a gen.Alias) string {
	return fmt.Sprintf("alias:%s/%d.%d.%d/%d", string(a.Node), a.ID[0], a.ID[1], a.ID[2], a.Creation)
}

// ---------------------------------------------------------------------------
// relay: copies src -> dst, re-cutting the byte stream; keeps a transcript
// ---------------------------------------------------------------------------

type w5Relay struct {
	rng      *Rng
	mode     int // 0 tiny (1..7), 1 mixed, 2 large (coalescing up to 20000), 3 byte-by-byte, 4 pass-through
	mu       sync.Mutex
	wire     bytes.Buffer // everything that went through (capped)
	wireCap  int
	total    int64
	segs     int64
	lastMove int64 // unix nano of the last forwarded byte
	done     chan struct{}
	delayUs  int // per-link delay: sleep up to this many µs before a segment (0 = none)
}

func (r *w5Relay) nextSize() int {
	switch r.mode {
	case 0:
		return 1 + r.rng.Intn(7)
	case 3:
		return 1
	case 2:
		if r.rng.Chance(1, 3) {
			return 4000 + r.rng.Intn(16000)
		}
		return 1 + r.rng.Intn(9000)
	case 4:
		return 1 << 20
	default:
		switch r.rng.Intn(6) {
		case 0:
			return 1 + r.rng.Intn(7)
		case 1:
			return 8 + r.rng.Intn(40) // around the fixed header fields
		case 2:
			return 1 + r.rng.Intn(5000)
		case 3:
			return 4090 + r.rng.Intn(12) // around the default buffer length
		case 4:
			return 1 + r.rng.Intn(300)
		default:
			return 1 + r.rng.Intn(20000)
		}
	}
}

// run forwards until src fails; a large wanted size makes the relay wait briefly for more
// input so that several frames reach the reader in one Read (exercises the `tail` carry-over).
func (r *w5Relay) run(dst net.Conn, src net.Conn) {
	defer close(r.done)
	in := make([]byte, 65536)
	var pend []byte
	for {
		n, err := src.Read(in)
		if n > 0 {
			pend = append(pend, in[:n]...)
		}
		for len(pend) > 0 {
			k := r.nextSize()
			if k > len(pend) && err == nil && (r.mode == 2 || r.mode == 1) && k > 64 {
				// try to coalesce: short wait for more bytes
				src.SetReadDeadline(time.Now().Add(300 * time.Microsecond))
				n2, err2 := src.Read(in)
				src.SetReadDeadline(time.Time{})
				if n2 > 0 {
					pend = append(pend, in[:n2]...)
				}
				if err2 != nil {
					if ne, ok := err2.(net.Error); !(ok && ne.Timeout()) {
						err = err2
					}
				}
			}
			if k > len(pend) {
				k = len(pend)
			}
			r.mu.Lock()
			if r.wire.Len() < r.wireCap {
				r.wire.Write(pend[:k])
			}
			r.total += int64(k)
			r.segs++
			r.mu.Unlock()
			// per-link delay: on a third of the larger segments, rarely on tiny ones (a byte-by-byte relay
			// with a delay per byte would turn a 60 kB frame into a minute of transfer)
			if r.delayUs > 0 && ((k >= 32 && r.rng.Chance(1, 3)) || r.rng.Chance(1, 400)) {
				time.Sleep(time.Duration(r.rng.Intn(r.delayUs)+1) * time.Microsecond)
			}
			if _, werr := dst.Write(pend[:k]); werr != nil {
				src.Close()
				return
			}
			atomic.StoreInt64(&r.lastMove, time.Now().UnixNano())
			pend = pend[k:]
		}
		if err != nil {
			dst.Close()
			return
		}
	}
}

func (r *w5Relay) Wire() []byte {
	r.mu.Lock()
	defer r.mu.Unlock()
	return append([]byte(nil), r.wire.Bytes()...)
}

// ---------------------------------------------------------------------------
// a pair of connected nodes
// ---------------------------------------------------------------------------

type w5Side struct {
	core *w5Core
	log  *w5Log
	conn gen.Connection
}

type w5Pair struct {
	A, B   w5Side
	ab, ba []*w5Relay // per pool link
	ends   []net.Conn
}

type w5Opts struct {
	Pool        int
	RelayMode   int
	MaxAtoB     int  // A.peer_maxmessagesize
	MaxBrecv    int  // B.node_maxmessagesize
	ImportantA  bool // peer flag on A (B supports important delivery)
	ImportantB  bool // node flag on B
	AtomCache   map[gen.Atom]uint16
	WireCap     int
	NoRelayBtoA bool
	LinkDelays  bool // give every pool link its own delay (links overtake each other)
}

func w5NewConn(core *w5Core, lg *w5Log, peer gen.Atom, peerCreation int64, o w5Opts, sideA bool) (gen.Connection, error) {
	nf := gen.DefaultNetworkFlags
	pf := gen.DefaultNetworkFlags
	res := gen.HandshakeResult{
		ConnectionID: "w5", Peer: peer, PeerCreation: peerCreation,
	}
	copts := handshake.ConnectionOptions{PoolSize: o.Pool}
	if sideA {
		pf.EnableImportantDelivery = o.ImportantA
		res.PeerMaxMessageSize = o.MaxAtoB
		if o.AtomCache != nil {
			m := &sync.Map{}
			for k, v := range o.AtomCache {
				m.Store(k, v)
			}
			copts.EncodeAtomCache = m
		}
	} else {
		nf.EnableImportantDelivery = o.ImportantB
		res.NodeMaxMessageSize = o.MaxBrecv
		if o.AtomCache != nil {
			m := &sync.Map{}
			for k, v := range o.AtomCache {
				m.Store(v, k)
			}
			copts.DecodeAtomCache = m
		}
	}
	res.PeerFlags = pf
	res.NodeFlags = nf
	res.Custom = copts
	return proto.Create().NewConnection(core, res, lg)
}

func w5NewPair(rng *Rng, o w5Opts) (*w5Pair, error) {
	if o.Pool < 1 {
		o.Pool = 1
	}
	if o.WireCap == 0 {
		o.WireCap = 1 << 22
	}
	p := &w5Pair{}
	p.A = w5Side{core: &w5Core{name: "a@w5", creation: 1001}, log: &w5Log{}}
	p.B = w5Side{core: &w5Core{name: "b@w5", creation: 2002}, log: &w5Log{}}
	var err error
	if p.A.conn, err = w5NewConn(p.A.core, p.A.log, "b@w5", 2002, o, true); err != nil {
		return nil, err
	}
	if p.B.conn, err = w5NewConn(p.B.core, p.B.log, "a@w5", 1001, o, false); err != nil {
		return nil, err
	}
	for i := 0; i < o.Pool; i++ {
		a1, a2 := net.Pipe()
		b1, b2 := net.Pipe()
		rab := &w5Relay{rng: rng.Fork(), mode: o.RelayMode, wireCap: o.WireCap, done: make(chan struct{})}
		rba := &w5Relay{rng: rng.Fork(), mode: o.RelayMode, wireCap: o.WireCap, done: make(chan struct{})}
		if o.NoRelayBtoA {
			rba.mode = 4
		}
		if o.LinkDelays {
			rab.delayUs = []int{0, 50, 400, 2000}[rng.Intn(4)]
			rba.delayUs = []int{0, 50, 400}[rng.Intn(3)]
		}
		p.ab = append(p.ab, rab)
		p.ba = append(p.ba, rba)
		go rab.run(b1, a2)
		go rba.run(a2, b1)
		p.ends = append(p.ends, a1, a2, b1, b2)
		if err := p.A.conn.Join(a1, "w5", nil, nil); err != nil {
			return nil, err
		}
		if err := p.B.conn.Join(b2, "w5", nil, nil); err != nil {
			return nil, err
		}
	}
	return p, nil
}

func (p *w5Pair) Close() {
	p.A.conn.Terminate(nil)
	p.B.conn.Terminate(nil)
	for _, e := range p.ends {
		e.Close()
	}
}

// lastMove returns the time of the last forwarded byte over all relays.
func (p *w5Pair) lastMove() time.Time {
	var m int64
	for _, r := range append(append([]*w5Relay{}, p.ab...), p.ba...) {
		if v := atomic.LoadInt64(&r.lastMove); v > m {
			m = v
		}
	}
	return time.Unix(0, m)
}

// waitRoutes waits until core has at least n routes, or the wire has been silent for `quiet`
// (after which nothing more can arrive: the pipes are synchronous and the flusher latency is < 1 ms).
func (p *w5Pair) waitRoutes(core *w5Core, n int64, quiet, max time.Duration) bool {
	t0 := time.Now()
	for {
		if core.Count() >= n {
			return true
		}
		now := time.Now()
		if now.Sub(t0) > max {
			return false
		}
		if now.Sub(t0) > quiet && now.Sub(p.lastMove()) > quiet {
			return core.Count() >= n
		}
		time.Sleep(200 * time.Microsecond)
	}
}

// ---------------------------------------------------------------------------
// frame splitting of a wire transcript (harness-side, independent of the code under test)
// ---------------------------------------------------------------------------

func w5SplitFrames(wire []byte) (frames [][]byte, rest []byte) {
	for len(wire) >= 8 {
		l := int(binary.BigEndian.Uint32(wire[2:6]))
		if l < 8 || l > len(wire) {
			break
		}
		frames = append(frames, wire[:l])
		wire = wire[l:]
	}
	return frames, wire
}

// w5Script: scripted connection for feeding arbitrary chunks to a reader
type w5ScriptConn struct {
	chunks  [][]byte
	i       int
	sizes   []int // what every Read actually returned
	sawEOF  bool
	closed  bool
	endWith error
}

func (s *w5ScriptConn) Read(p []byte) (int, error) {
	for s.i < len(s.chunks) && len(s.chunks[s.i]) == 0 {
		s.i++
	}
	if s.i >= len(s.chunks) {
		s.sawEOF = true
		if s.endWith != nil {
			return 0, s.endWith
		}
		return 0, io.EOF
	}
	n := copy(p, s.chunks[s.i])
	s.chunks[s.i] = s.chunks[s.i][n:]
	s.sizes = append(s.sizes, n)
	return n, nil
}
func (s *w5ScriptConn) Write(p []byte) (int, error)      { return len(p), nil }
func (s *w5ScriptConn) Close() error                     { s.closed = true; return nil }
func (s *w5ScriptConn) LocalAddr() net.Addr              { return w5Addr{} }
func (s *w5ScriptConn) RemoteAddr() net.Addr             { return w5Addr{} }
func (s *w5ScriptConn) SetDeadline(time.Time) error      { return nil }
func (s *w5ScriptConn) SetReadDeadline(time.Time) error  { return nil }
func (s *w5ScriptConn) SetWriteDeadline(time.Time) error { return nil }

type w5Addr struct{}

func (w5Addr) Network() string { return "w5" }
func (w5Addr) String() string  { return "w5" }

func netPipe() (net.Conn, net.Conn) { return net.Pipe() }

func libTake() *lib.Buffer {
	b := lib.TakeBuffer()
	b.Reset()
	return b
}

func imin(a, b int) int {
	if a < b {
		return a
	}
	return b
}

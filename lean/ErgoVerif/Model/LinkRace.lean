import ErgoVerif.Model.TM
/-!
RouteLink* / RouteMonitor* with a REMOTE target (node/core.go) are two steps:
  1. `connection.LinkPID(pid, target)` — request/response with the peer; returns nil when the peer recorded the relation
  2. `n.targetManager.AddLink(pid, target)` — the local record
and `unregisterConnection → RouteNodeDown(peer)` may run between them (another goroutine).
This model interleaves those steps with node-down events.
-/
namespace ErgoVerif.LinkRace
open ErgoVerif.TM

inductive Ev
  | answered (k : Key)     -- step 1 returned nil for the relation k
  | add (k : Key)          -- step 2 of a previously answered request
  | down (n : Node)        -- RouteNodeDown(n)
deriving DecidableEq, Repr

structure St where
  tm : TM.St
  pending : List Key       -- answered, not yet recorded
  notifs : List Notif

def init : St := ⟨TM.init, [], []⟩

def step (s : St) : Ev → St
  | .answered k => { s with pending := k :: s.pending }
  | .add k => if k ∈ s.pending then { s with tm := (TM.add s.tm k).1, pending := s.pending.erase k } else s
  | .down n => { s with tm := (routeNodeDown s.tm n).1, notifs := s.notifs ++ (routeNodeDown s.tm n).2 }

def run (s : St) : List Ev → St
  | [] => s
  | e :: es => run (step s e) es

end ErgoVerif.LinkRace

import ErgoVerif.Drive.Util
import ErgoVerif.Model.SupOFO
import ErgoVerif.Model.SupARFO
import ErgoVerif.Model.SupSOFO
/-
Line driver for the three supervisor state machines (K2 correspondence of C08/C09).

  new <ofo|afo|rfo|sofo> <strategy 0|1|2> <intensity> <periodMs> <keepOrder 0|1> <disableAutoShutdown 0|1> <n:sig,...|->
  started <i> <name> <args> <pid>
  term <name> <pid> <reason> <now>
  spec <name> | add <name> <sig> | enable <name> | disable <name>

Answer: `<result> | <state>` in the canonical form also printed by harness/c08.go.
-/
namespace ErgoVerif.Drive.Sup
open ErgoVerif.Drive ErgoVerif.Sup

inductive M where
  | none
  | ofo (s : OFO)
  | arfo (s : ARFO)
  | sofo (s : SOFO)

def b2s (b : Bool) : String := if b then "1" else "0"

def showReason : Option Reason → String
  | none => "-"
  | some .normal => "normal"
  | some .shutdown => "shutdown"
  | some .kill => "kill"
  | some .panic => "panic"
  | some (.other n) => s!"o{n}"
  | some .restartsExceeded => "exceeded"

def parseReason? (s : String) : Option Reason :=
  match s with
  | "normal" => some .normal
  | "shutdown" => some .shutdown
  | "kill" => some .kill
  | "panic" => some .panic
  | "exceeded" => some .restartsExceeded
  | _ => if s.startsWith "o" then (s.drop 1).toNat?.map .other else none

def showSpec (c : ChildSpec) : String :=
  s!"{c.name}:{c.pid}:{b2s c.disabled}:{c.args}:{b2s c.significant}:{b2s c.register}:{c.i}"

def sortNat (l : List Nat) : List Nat := l.mergeSort (fun a b => decide (a ≤ b))

def showDo : Do → String
  | .nothing => "nothing" | .start => "start" | .terminateChildren => "tc" | .terminate => "term"

def showRes (sortTerm : Bool) : Res → String
  | .panic => "panic"
  | .err e => "err " ++ (match e with
      | .strategyActive => "active" | .duplicate => "duplicate" | .disabled => "disabled"
      | .running => "running" | .unknown => "unknown" | .invalid => "invalid" | .shuttingDown => "shuttingdown")
  | .ok a =>
    let t := if sortTerm then sortNat a.terminate else a.terminate
    s!"ok {showDo a.act} {showSpec a.spec} {showNatList t} {showReason a.reason}"

def showSpecs (l : List ChildSpec) : String :=
  if l.isEmpty then "-" else ",".intercalate (l.map showSpec)

def showM : M → String
  | .none => "none"
  | .ofo s =>
    s!"ofo mode={s.mode} sd={b2s s.shutdown} sr={showReason s.shutdownReason} wait={showNatList (sortNat s.wait)} i={s.i} as={b2s s.autoshutdown} rs={showIntList s.restarts} {showSpecs s.spec}"
  | .arfo s =>
    s!"arfo mode={s.mode} rest={b2s s.rest} ko={b2s s.keeporder} sr={showReason s.shutdownReason} wait={showNatList (sortNat s.wait)} ri={s.restartI} i={s.i} as={b2s s.autoshutdown} rs={showIntList s.restarts} {showSpecs s.spec}"
  | .sofo s =>
    let ps := s.pids.mergeSort (fun a b => decide (a.1 ≤ b.1))
    let pstr := if ps.isEmpty then "-" else ",".intercalate (ps.map fun p => s!"{p.1}:{p.2}")
    s!"sofo sd={b2s s.shutdown} sr={showReason s.shutdownReason} wait={showNatList (sortNat s.wait)} i={s.i} rs={showIntList s.restarts} pids={pstr} {showSpecs s.spec}"

def parseBool? (s : String) : Option Bool :=
  if s = "1" then some true else if s = "0" then some false else none

def parseChildren? (s : String) : Option (List (Nat × Bool)) :=
  if s = "-" then some [] else
  (s.splitOn ",").mapM fun w =>
    match w.splitOn ":" with
    | [n, g] => match n.toNat?, parseBool? g with
      | some n, some g => some (n, g)
      | _, _ => none
    | _ => none

def parseStrategy? (s : String) : Option Strategy :=
  match s with
  | "0" => some .transient | "1" => some .temporary | "2" => some .permanent | _ => none

def out (isSofo : Bool) (m : M) (r : Res) : M × String := (m, showRes isSofo r ++ " | " ++ showM m)

def step (m : M) (line : String) : M × String :=
  match words line with
  | ["new", kind, st, k, p, ko, das, ch] =>
    match parseStrategy? st, k.toNat?, p.toInt?, parseBool? ko, parseBool? das, parseChildren? ch with
    | some st, some k, some p, some ko, some das, some ch =>
      let sp : SupSpec := { children := ch, rest := kind == "rfo",
                            restart := { strategy := st, intensity := k, periodMs := p, keepOrder := ko },
                            disableAutoShutdown := das }
      match kind with
      | "ofo" => let (s, r) := OFO.init {} sp; out false (.ofo s) r
      | "afo" => let (s, r) := ARFO.init {} sp; out false (.arfo s) r
      | "rfo" => let (s, r) := ARFO.init {} sp; out false (.arfo s) r
      | "sofo" => let (s, r) := SOFO.init {} sp; out true (.sofo s) r
      | _ => (m, "bad-op")
    | _, _, _, _, _, _ => (m, "bad-op")
  | ["started", i, name, args, pid] =>
    match i.toNat?, name.toNat?, args.toNat?, pid.toNat? with
    | some i, some name, some args, some pid =>
      let cs : ChildSpec := { name := name, i := i, args := args }
      match m with
      | .ofo s => let (s, r) := s.childStarted cs pid; out false (.ofo s) r
      | .arfo s => let (s, r) := s.childStarted cs pid; out false (.arfo s) r
      | .sofo s => let (s, r) := s.childStarted cs pid; out true (.sofo s) r
      | .none => (m, "bad-op")
    | _, _, _, _ => (m, "bad-op")
  | ["term", name, pid, reason, now] =>
    match name.toNat?, pid.toNat?, parseReason? reason, now.toInt? with
    | some name, some pid, some reason, some now =>
      match m with
      | .ofo s => let (s, r) := s.childTerminated name pid reason now; out false (.ofo s) r
      | .arfo s => let (s, r) := s.childTerminated name pid reason now; out false (.arfo s) r
      | .sofo s => let (s, r) := s.childTerminated name pid reason now; out true (.sofo s) r
      | .none => (m, "bad-op")
    | _, _, _, _ => (m, "bad-op")
  | ["spec", name] =>
    match name.toNat? with
    | some name =>
      match m with
      | .ofo s => let (s, r) := s.childSpec name; out false (.ofo s) r
      | .arfo s => let (s, r) := s.childSpec name; out false (.arfo s) r
      | .sofo s => let (s, r) := s.childSpec name; out true (.sofo s) r
      | .none => (m, "bad-op")
    | none => (m, "bad-op")
  | ["add", name, sig] =>
    match name.toNat?, parseBool? sig with
    | some name, some sig =>
      match m with
      | .ofo s => let (s, r) := s.childAddSpec name sig; out false (.ofo s) r
      | .arfo s => let (s, r) := s.childAddSpec name sig; out false (.arfo s) r
      | .sofo s => let (s, r) := s.childAddSpec name sig; out true (.sofo s) r
      | .none => (m, "bad-op")
    | _, _ => (m, "bad-op")
  | ["enable", name] =>
    match name.toNat? with
    | some name =>
      match m with
      | .ofo s => let (s, r) := s.childEnable name; out false (.ofo s) r
      | .arfo s => let (s, r) := s.childEnable name; out false (.arfo s) r
      | .sofo s => let (s, r) := s.childEnable name; out true (.sofo s) r
      | .none => (m, "bad-op")
    | none => (m, "bad-op")
  | ["disable", name] =>
    match name.toNat? with
    | some name =>
      match m with
      | .ofo s => let (s, r) := s.childDisable name; out false (.ofo s) r
      | .arfo s => let (s, r) := s.childDisable name; out false (.arfo s) r
      | .sofo s => let (s, r) := s.childDisable name; out true (.sofo s) r
      | .none => (m, "bad-op")
    | none => (m, "bad-op")
  | _ => (m, "bad-op")

def main (h : IO.FS.Stream) : IO Unit := loopState h step M.none

end ErgoVerif.Drive.Sup

import ErgoVerif.Lemmas.EdfAux
namespace ErgoVerif.Edf
open ErgoVerif.Generated.Edt

def lim32 : Nat := 4294967296

mutual
/-- side conditions under which the decoder gives back exactly the value: see `Props/C11.lean` -/
def Good (o : Opts) : Ty → Val → Prop
  | .any, .any t v => DescOK o t ∧ (encTy o t).length < 65536 ∧ Good o t v
  | .slice t, .list vs => vs.length < lim32 ∧ (t.nz = true ∨ vs.length = 0) ∧ Goods o t vs
  | .array n t, .list vs => (t.nz = true ∨ n = 0) ∧ Goods o t vs
  | .map k v, .map ps =>
      ps.length < lim32 ∧ (k.nz = true ∨ v.nz = true ∨ ps.length = 0) ∧ Pairs.KeysOK .nil ps ∧ Goodp o k v ps
  | .named _ (.slice t), .list vs => vs.length < lim32 ∧ (t.nz = true ∨ vs.length = 0) ∧ Goods o t vs
  | .named _ (.array n t), .list vs => (t.nz = true ∨ n = 0) ∧ Goods o t vs
  | .named _ (.map k v), .map ps =>
      ps.length < lim32 ∧ (k.nz = true ∨ v.nz = true ∨ ps.length = 0) ∧ Pairs.KeysOK .nil ps ∧ Goodp o k v ps
  | .struct _ fs, .list vs => Goodf o fs vs
  | .named _ t, v => LeafGood o t v
  | t, v => LeafGood o t v
def Goods (o : Opts) : Ty → Vals → Prop
  | _, .nil => True
  | t, .cons v vs => Good o t v ∧ Goods o t vs
def Goodp (o : Opts) : Ty → Ty → Pairs → Prop
  | _, _, .nil => True
  | kt, vt, .cons k v ps => Good o kt k ∧ Good o vt v ∧ Goodp o kt vt ps
def Goodf (o : Opts) : Tys → Vals → Prop
  | .cons t ts, .cons v vs => Good o t v ∧ Goodf o ts vs
  | _, _ => True
end

/-- leaf values: everything follows from the leaf lemma -/
theorem dec_encB_leaf (o : Opts) (hc : CachesConsistent o) (t : Ty) (v : Val) (bs r : Bytes) (fuel : Nat)
    (hv : match v with | .nil | .any _ _ | .list _ | .map _ | .opaque _ => False | _ => True)
    (he : encB o t v = some bs) (hg : Good o t v) : dec o (fuel+1) false t (bs ++ r) = .ok (v, r) := by
  cases t
  case named nm t' =>
    cases t' <;> cases v <;> simp at hv <;> simp [encB, Ty.namedLeaf] at he <;>
      simp only [Good] at hg <;> simp [dec, Ty.namedLeaf] <;> exact decLeaf_encLeaf o hc _ _ _ _ he hg
  case any => cases v <;> simp at hv <;> simp [encB, encLeaf] at he
  case slice => cases v <;> simp at hv <;> simp [encB, encLeaf] at he
  case array => cases v <;> simp at hv <;> simp [encB, encLeaf] at he
  case map => cases v <;> simp at hv <;> simp [encB, encLeaf] at he
  case struct => cases v <;> simp at hv <;> simp [encB, encLeaf] at he
  case marsh => cases v <;> simp at hv <;> simp [encB, encLeaf] at he
  all_goals
    (cases v <;> simp at hv <;> simp only [encB] at he <;> simp only [Good] at hg <;>
      simp [dec, Ty.leafTag, checkTag] <;> exact decLeaf_encLeaf o hc _ _ _ _ he hg)
end ErgoVerif.Edf

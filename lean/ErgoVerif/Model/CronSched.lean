/-
Model of the cron scheduler object: node/cron.go.

  * `Sched`      — the `cron` struct: `jobs` (map name → *cronJob), `spool` (queue of cronSpoolItem:
                   *cronJob + the minute it was spooled for), `next`.
                   Job objects live in a heap `objs` indexed by pointer (allocation number), because the
                   spool keeps pointers to objects that RemoveJob has already deleted from the map.
  * `step`       — AddJob, RemoveJob, EnableJob, DisableJob, the timer function (`tick`), and the two
                   harness-only operations of the verif export (`sched` = c.schedule(next), `drain`).
  * `jobSchedule`, `scheduleList` — JobSchedule / Schedule.

Time: instants are minutes since the Unix epoch (`Int`); `civil loc m` is what Go's `time` gives for
minute m in location loc (`t.In(loc)` and the calendar fields) — a parameter, so theorems hold for every
zone database. Go's map iteration order is unspecified: the model iterates in insertion order, and
the harness compares spool contents and fired jobs as multisets.

The timer function is modelled both as one step (`tick`) and as its two halves (`tickDrain`: the loop over
the spool, `tickSched`: c.schedule(next)) so that API calls landing between them — the timer function does
not hold the lock across the two — are part of the histories the theorems quantify over.

Not modelled: the `continue` taken when the wall-clock minute changes while the spool is being drained
(two readings of time.Now() in one tick are taken to lie in the same minute), the goroutine per action,
`last`/`lastErr`, fallback messages, logging.
-/
import ErgoVerif.Model.Cron
namespace ErgoVerif.CronSched
open ErgoVerif.Cron

/-- *cronJob -/
structure JobObj where
  name : Nat          -- gen.Atom, 0 = ""
  spec : Spec         -- the AST the mask was compiled from (mask = compileSpec spec)
  loc : Nat           -- job.Location
  disable : Bool
  deriving Repr

def JobObj.default : JobObj := ⟨0, ⟨.star, .star, .star, .star, .star⟩, 0, true⟩

structure Sched where
  objs : Nat → JobObj     -- heap
  nobjs : Nat             -- number of objects allocated
  jobs : List Nat         -- c.jobs: pointers of the present jobs (their names are the keys)
  spool : List (Nat × Int)  -- c.spool: (*cronJob, the value of c.next when it was pushed)
  next : Int              -- c.next

/-- createCron at a wall clock whose next whole minute is `next` (after the D8 repair c.next starts there) -/
def init (next : Int) : Sched := ⟨fun _ => JobObj.default, 0, [], [], next⟩

abbrev CivilFn := Nat → Int → Civil

/-- cj.mask.IsRunAt(t.In(cj.job.Location)) -/
def runsAt (civil : CivilFn) (o : JobObj) (m : Int) : Bool :=
  specIsRunAt (compileSpec o.spec) (civil o.loc m)

/-- c.jobs[name] -/
def findJob (s : Sched) (name : Nat) : Option Nat := s.jobs.find? (fun p => (s.objs p).name = name)

def setDisable (objs : Nat → JobObj) (p : Nat) (b : Bool) : Nat → JobObj :=
  fun q => if q = p then { objs q with disable := b } else objs q

/-- c.scheduleJob(cj) -/
def scheduleJob (civil : CivilFn) (s : Sched) (p : Nat) : Sched :=
  if (s.objs p).disable = true then s
  else if runsAt civil (s.objs p) s.next = false then s
  else { s with spool := s.spool ++ [(p, s.next)] }

/-- c.schedule(next) -/
def schedule (civil : CivilFn) (s : Sched) (next : Int) : Sched :=
  s.jobs.foldl (scheduleJob civil) { s with next := next }

/-- the loop of the timer function over the spool, running at wall-clock minute `now`: skip disabled objects,
    entries pushed for another minute, and objects already run in this tick; run the others -/
def fireLoop (objs : Nat → JobObj) (now : Int) : List (Nat × Int) → List Nat → List Nat
  | [], fired => fired
  | (p, tag) :: rest, fired =>
    if (objs p).disable = true then fireLoop objs now rest fired
    else if tag ≠ now then fireLoop objs now rest fired
    else if p ∈ fired then fireLoop objs now rest fired
    else fireLoop objs now rest (fired ++ [p])

inductive Op
  | add (name : Nat) (text : List Char) (loc : Nat)   -- AddJob
  | remove (name : Nat)                               -- RemoveJob
  | enable (name : Nat)                               -- EnableJob
  | disable (name : Nat)                              -- DisableJob
  | tick (now : Int)                                  -- the timer function running at wall-clock minute `now`
  | tickDrain (now : Int)                             -- its first half: drain the spool and run the due jobs
  | tickSched (now : Int)                             -- its second half: c.schedule(now + 1 minute)
  | sched (next : Int)                                -- verif export: c.schedule(next)
  | drain                                             -- verif export: pop everything
  deriving Repr

inductive Out
  | ok | errName | errParse | errTaken | errUnknown
  | fired (ptrs : List Nat)     -- pointers of the objects whose action ran, in spool order
  deriving Repr, DecidableEq

def step (civil : CivilFn) (s : Sched) : Op → Sched × Out
  | .add name text loc =>
    if name = 0 then (s, .errName) else
    match parseSpec text with
    | none => (s, .errParse)
    | some spec =>
      match findJob s name with
      | some _ => (s, .errTaken)
      | none =>
        let p := s.nobjs
        let s1 : Sched := { s with
          objs := fun q => if q = p then ⟨name, spec, loc, false⟩ else s.objs q
          nobjs := p + 1
          jobs := s.jobs ++ [p] }
        (scheduleJob civil s1 p, .ok)
  | .remove name =>
    match findJob s name with
    | none => (s, .errUnknown)
    | some p => ({ s with objs := setDisable s.objs p true, jobs := s.jobs.filter (· ≠ p) }, .ok)
  | .enable name =>
    match findJob s name with
    | none => (s, .errUnknown)
    | some p => (scheduleJob civil { s with objs := setDisable s.objs p false } p, .ok)
  | .disable name =>
    match findJob s name with
    | none => (s, .errUnknown)
    | some p => ({ s with objs := setDisable s.objs p true }, .ok)
  | .tick now =>
    -- entries carry the minute they were pushed for; `it.at.Equal(actionTime)` drops the others
    let fired := fireLoop s.objs now s.spool []
    (schedule civil { s with spool := [] } (now + 1), .fired fired)
  | .tickDrain now => ({ s with spool := [] }, .fired (fireLoop s.objs now s.spool []))
  | .tickSched now => (schedule civil s (now + 1), .ok)
  | .sched next => (schedule civil s next, .ok)
  | .drain => ({ s with spool := [] }, .ok)

/-! ## Schedule / JobSchedule -/

def minuteNs : Int := 60000000000

/-- `for now := start; now.Before(end); now = now.Add(time.Minute)` on instants in nanoseconds;
    the last argument only bounds the number of iterations -/
def windowLoop (now end_ : Int) : Nat → List Int
  | 0 => []
  | fuel + 1 => if now < end_ then now :: windowLoop (now + minuteNs) end_ fuel else []

/-- the instants visited by the loop of Schedule / JobSchedule: `start := since.Truncate(time.Minute)`,
    `end := start.Add(period)` (since, period in nanoseconds; the loop makes at most `period` rounds) -/
def windowNs (sinceNs periodNs : Int) : List Int :=
  let start := (sinceNs / minuteNs) * minuteNs
  windowLoop start (start + periodNs) periodNs.toNat

/-- the same instants as minutes since the epoch -/
def window (sinceNs periodNs : Int) : List Int := (windowNs sinceNs periodNs).map (· / minuteNs)

/-- Cron.JobSchedule -/
def jobSchedule (civil : CivilFn) (s : Sched) (name : Nat) (sinceNs periodNs : Int) : Option (List Int) :=
  (findJob s name).map fun p => (window sinceNs periodNs).filter (fun m => runsAt civil (s.objs p) m)

/-- Cron.Schedule: the minutes with at least one job, each with the jobs (pointers) running then -/
def scheduleList (civil : CivilFn) (s : Sched) (sinceNs periodNs : Int) : List (Int × List Nat) :=
  (window sinceNs periodNs).filterMap fun m =>
    let js := s.jobs.filter (fun p => runsAt civil (s.objs p) m)
    if js.isEmpty then none else some (m, js)

/-- Info().Spool: names of the spooled objects that are not disabled -/
def infoSpool (s : Sched) : List Nat :=
  (s.spool.filter (fun e => (s.objs e.1).disable = false)).map (fun e => (s.objs e.1).name)

end ErgoVerif.CronSched

import ErgoVerif.Model.SupDefaults
import ErgoVerif.Model.Window
import ErgoVerif.Generated.SupDefaults
/-!
# C09 — "all values of Intensity and Period": zero means the default

The window rule (Props/C09) is stated for the options the state machines get. These theorems cover the step before:
what they get for every pair the developer may write, zero included.

* `C09_defaults`            — for the code as it is (regenerated constants and shape): both effective values are positive,
                              a non-zero value is kept, a zero one becomes its default — independently of the other field
* `C09_defaults_paired_loses` — defaulting only as a pair lets a zero through, and what a zero does to the window rule:
  `C09_zero_intensity_gives_up_at_once` (the first failure already exceeds) and
  `C09_zero_window_never_gives_up` (failures at least 1 ms apart never exceed any limit ≥ 1)
-/
namespace ErgoVerif.Props.C09Defaults
open ErgoVerif.SupDefaults ErgoVerif.Window

theorem C09_defaults_full (ind : Bool) (hind : ind = true) (di dp : Nat) (hdi : 0 < di) (hdp : 0 < dp) (i p : Nat) :
    0 < (eff ind di dp i p).1 ∧ 0 < (eff ind di dp i p).2 ∧
    (i ≠ 0 → (eff ind di dp i p).1 = i) ∧ (p ≠ 0 → (eff ind di dp i p).2 = p) ∧
    (i = 0 → (eff ind di dp i p).1 = di) ∧ (p = 0 → (eff ind di dp i p).2 = dp) := by
  subst hind
  simp only [eff, if_true]
  refine ⟨?_, ?_, ?_, ?_, ?_, ?_⟩
  · split <;> omega
  · split <;> omega
  · intro h; simp [h]
  · intro h; simp [h]
  · intro h; simp [h]
  · intro h; simp [h]

theorem C09_code_shape_defaults :
    ErgoVerif.Gen.SupDefaults.defaultsIndependent = true ∧ 0 < ErgoVerif.Gen.SupDefaults.defaultIntensity ∧
    0 < ErgoVerif.Gen.SupDefaults.defaultPeriod := by decide

/-- for the code as it is -/
theorem C09_defaults (i p : Nat) :
    let e := eff ErgoVerif.Gen.SupDefaults.defaultsIndependent ErgoVerif.Gen.SupDefaults.defaultIntensity
      ErgoVerif.Gen.SupDefaults.defaultPeriod i p
    0 < e.1 ∧ 0 < e.2 ∧ (i ≠ 0 → e.1 = i) ∧ (p ≠ 0 → e.2 = p) ∧
    (i = 0 → e.1 = ErgoVerif.Gen.SupDefaults.defaultIntensity) ∧ (p = 0 → e.2 = ErgoVerif.Gen.SupDefaults.defaultPeriod) :=
  C09_defaults_full _ C09_code_shape_defaults.1 _ _ C09_code_shape_defaults.2.1 C09_code_shape_defaults.2.2 i p

/-- defaulting only as a pair hands a zero window or a zero limit to the state machine -/
theorem C09_defaults_paired_loses : eff false 5 5 3 0 = (3, 0) ∧ eff false 5 5 0 3 = (0, 3) := by decide

/-- a zero limit: the very first failure exceeds it -/
theorem C09_zero_intensity_gives_up_at_once (period : Int) (hp : 0 ≤ period) (t : Int) :
    runSpec period 0 [] [t] = [true] := by
  simp [runSpec, inWindow, hp]

/-- a zero window: a failure later than all earlier ones is alone in it, so no limit ≥ 1 is ever exceeded -/
theorem C09_zero_window_never_gives_up (k : Nat) (hk : 1 ≤ k) (pre : List Int) (t : Int) (h : ∀ x ∈ pre, x < t) :
    decide (inWindow (pre ++ [t]) t 0 > k) = false := by
  have hpre : pre.filter (fun x => decide (t - x ≤ 0)) = [] := by
    rw [List.filter_eq_nil_iff]
    intro x hx
    have := h x hx
    simp; omega
  have : inWindow (pre ++ [t]) t 0 = 1 := by
    simp [inWindow, List.filter_append, hpre]
  rw [this]
  simp; omega

/-! non-vacuity -/
example : eff true 5 5 3 0 = (3, 5) ∧ eff true 5 5 0 3 = (5, 3) ∧ eff true 5 5 0 0 = (5, 5) := by decide

end ErgoVerif.Props.C09Defaults

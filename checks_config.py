# per-property configuration of ./check: one JSON file per property under config/
import json, os, glob
_d = os.path.dirname(os.path.abspath(__file__))
PROPS = {}
for f in sorted(glob.glob(os.path.join(_d, "config", "C*.json"))):
    PROPS[os.path.basename(f)[:-5]] = json.load(open(f))
ALL = ["C%02d" % i for i in range(1, 21)]
_h = os.path.join(_d, "config", "hook_commits.txt")
HOOK_COMMITS = [l.split()[0] for l in open(_h) if l.strip() and not l.startswith("#")] if os.path.exists(_h) else []
NOT_APPLICABLE = [{"property_id": p, "reason": "check not built yet (work in progress; see DESIGN.md §6 for the plan)"} for p in ALL if p not in PROPS]

package main

import (
	"encoding/binary"
	"fmt"
	"time"

	"ergo.services/ergo/gen"
)

// c13nodes: the property on two real nodes joined by their real pool of TCP links (loopback), pool constant: one
// process on A sends to ONE process on B a numbered stream that mixes every kind of send a process has — a large
// regular message, a small one, SendImportant, SendWithPriority, a request — with network order keeping at its
// default (on). The receiver must handle the numbers in ascending order. (The K5 part decides the delivery order of
// the links itself; here the relative delay comes from the sizes: a 1 MB frame on one link against a few bytes on
// another.) Runs in which the pool changed meanwhile are not judged (listed finding C13/F2).
func c13nodes(c *Ctx) {
	r := c.R
	p, err := newC14pair(false)
	if err != nil {
		r.Note("c13nodes skipped: %v", err)
		r.Count("nodes.inconclusive")
		return
	}
	defer p.stop()
	if _, err := p.a.Network().GetNode(p.nameB); err != nil {
		r.Note("c13nodes: no connection: %v", err)
		r.Count("nodes.inconclusive")
		return
	}
	poolSize := func() int {
		rn, err := p.a.Network().Node(p.nameB)
		if err != nil {
			return -1
		}
		return rn.Info().PoolSize
	}
	// let the pooled links join: the pool size has to stand still for half a second
	last, since := poolSize(), time.Now()
	waitUntil(10*time.Second, func() bool {
		if n := poolSize(); n != last {
			last, since = n, time.Now()
		}
		return time.Since(since) > 500*time.Millisecond
	})
	pool0 := poolSize()
	rounds := c.N(6, 60)
	for it := 0; it < rounds; it++ {
		rpid, err1 := p.spawn(p.b)
		spid, err2 := p.spawn(p.a)
		if err1 != nil || err2 != nil {
			r.Count("nodes.inconclusive")
			return
		}
		big := 256*1024 + c.Rng.Intn(1024*1024)
		n := 8 + c.Rng.Intn(8)
		kinds := make([]int, n)
		for i := range kinds {
			kinds[i] = c.Rng.Intn(5)
		}
		var sendErr error
		ok := c14do(p.a, spid, 60*time.Second, func(a *c14actor) {
			seq := uint64(0)
			num := func(size int) []byte {
				seq++
				b := make([]byte, size)
				binary.BigEndian.PutUint64(b[:8], seq)
				return b
			}
			for _, k := range kinds {
				// a large frame first, then something small of kind k right behind it
				if err := a.Send(rpid, num(big)); err != nil {
					sendErr = fmt.Errorf("Send #%d: %w", seq, err)
					return
				}
				var err error
				switch k {
				case 0:
					err = a.Send(rpid, num(8))
				case 1:
					err = a.SendImportant(rpid, num(8))
				case 2:
					err = a.SendWithPriority(rpid, num(8), gen.MessagePriorityNormal)
				case 3:
					err = a.Send(rpid, num(64*1024))
				case 4:
					err = a.SendImportant(rpid, num(32*1024))
				}
				if err != nil {
					sendErr = fmt.Errorf("send kind %d #%d: %w", k, seq, err)
					return
				}
			}
		})
		if !ok || sendErr != nil {
			r.Note("c13nodes: sender did not finish: ok=%v err=%v", ok, sendErr)
			r.Count("nodes.inconclusive")
			continue
		}
		total := 2 * n
		waitUntil(30*time.Second, func() bool { return len(p.rec.at(rpid)) >= total })
		var got []uint64
		for _, m := range p.rec.at(rpid) {
			if b, ok := m.([]byte); ok && len(b) >= 8 {
				got = append(got, binary.BigEndian.Uint64(b[:8]))
			}
		}
		if poolSize() != pool0 {
			r.Count("nodes.pool-changed-not-judged")
			pool0 = poolSize()
			continue
		}
		r.Case(fmt.Sprintf("nodes/%d/%d/%v", pool0, big, kinds), pool0 > 1)
		r.Count("nodes.streams")
		rp := map[string]interface{}{"pool_size": pool0, "large_message_bytes": big, "kinds_after_each_large_message": kinds,
			"kinds": "0 Send(8B) 1 SendImportant(8B) 2 SendWithPriority(8B, normal) 3 Send(64KB) 4 SendImportant(32KB)", "handled_order": got,
			"how": "two real nodes (in-memory registrar, loopback TCP); one sender process on A, one receiver on B, default KeepNetworkOrder"}
		if len(got) != total {
			r.Violation("C13/two-nodes-incomplete", fmt.Sprintf("%d of %d messages of one pair were handled within 30 s", len(got), total), rp)
			continue
		}
		for i := 1; i < len(got); i++ {
			if got[i] < got[i-1] {
				r.Violation("C13/two-nodes-order", fmt.Sprintf("pool of %d links, constant: message #%d was handled after #%d (sender %s, receiver %s)", pool0, got[i], got[i-1], spid, rpid), rp)
				break
			}
		}
		p.a.Kill(spid)
		p.b.Kill(rpid)
	}
}

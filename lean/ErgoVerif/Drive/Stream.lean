import ErgoVerif.Drive.Util
import ErgoVerif.Model.StreamLink
namespace ErgoVerif.Drive.Stream
open ErgoVerif.Drive ErgoVerif.Stream

def showClose : Close → String
  | .badLen => "badLen" | .tooLong => "tooLong" | .tooLarge => "tooLarge"
  | .badMagic => "badMagic" | .badVersion => "badVersion" | .crash => "crash"

def parseChunks? (s : String) : Option (List Bytes) :=
  if s = "-" then some [] else (s.splitOn ",").mapM parseHex?

/-- `read <max> <chunk,chunk,…>`  → `<more:restlen | closed:why> <len,len,…>` (lengths of the frames handed to the queues, in order).
    `readu …` = the same with the length-field guard removed (the reader before the D12 repair). -/
def line (s : String) : String :=
  match words s with
  | [op, max, cs] =>
    if op ≠ "read" ∧ op ≠ "readu" then "bad-op" else
    match max.toNat?, parseChunks? cs with
    | some max, some chunks =>
      let cfg := if op = "read" then linkCfg max else unguardedCfg max
      let r := readAll cfg RState.init chunks
      let st := match r.1.closed with
        | some w => s!"closed:{showClose w}"
        | none => s!"more:{r.1.buf.length}"
      s!"{st} {showNatList (r.2.map List.length)}"
    | _, _ => "bad-op"
  | _ => "bad-op"

def main (h : IO.FS.Stream) : IO Unit := loopPure h line

end ErgoVerif.Drive.Stream

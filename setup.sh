#!/bin/sh
# offline setup: build the Lean project (theorems + model driver), the extractor and the harness
set -e
cd "$(dirname "$0")"
export GOFLAGS=-mod=mod GOPROXY=off GOSUMDB=off GOTOOLCHAIN=local
mkdir -p .work/bin .work/gocache
export GOCACHE="$PWD/.work/gocache"
(cd extract && go build -o ../.work/bin/extract .)
./.work/bin/extract -repo /repo -out lean/ErgoVerif/Generated -facts .work/facts.json
python3 gen_driver.py
(cd lean && lake build)
(cd harness && go build -tags verif -o ../.work/bin/harness .)
echo setup done

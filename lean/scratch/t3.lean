import ErgoVerif.Model.SupLoop
import ErgoVerif.Common
namespace ErgoVerif.Sup
open ErgoVerif

def arfoStep (c : Loop ARFO) (l : Label) : Option (Loop ARFO) := step arfoMachine (c.m.spec.length + 3) c l
def arfoBoot (sp : SupSpec) : Loop ARFO := boot arfoMachine (sp.children.length + 3) (ARFO.init {} sp)
def ofoStep (c : Loop OFO) (l : Label) : Option (Loop OFO) := step ofoMachine (c.m.spec.length + 3) c l
def ofoBoot (sp : SupSpec) : Loop OFO := boot ofoMachine (sp.children.length + 3) (OFO.init {} sp)

def sp3 (rest ko : Bool) (st : Strategy) : SupSpec :=
  { children := [(1, false), (2, false), (3, false)], rest := rest, restart := { strategy := st, keepOrder := ko } }

-- D18
example : ∃ c, run arfoStep (arfoBoot (sp3 false true .permanent))
    [.die 1 (.other 1), .deliver 1 1000 [], .die 2 (.other 2), .deliver 2 1001 []] = some c ∧ c.status = .panicked :=
  ⟨_, rfl, by decide⟩

-- D25
example : ∃ c, run arfoStep (arfoBoot (sp3 true false .permanent))
    [.die 2 (.other 1), .deliver 2 1000 [], .die 1 (.other 2), .deliver 1 1001 [], .die 3 (.other 1), .deliver 3 1002 []] = some c
    ∧ c.status = .running ∧ c.m.mode = 0 ∧ c.inflight = [] ∧ (c.m.spec.map (·.pid)) = [0, 4, 5] ∧ c.alive.map (·.1) = [5, 4] := by
  refine ⟨_, rfl, ?_⟩
  decide

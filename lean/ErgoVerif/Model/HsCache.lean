/-
Cache construction of the handshake (net/handshake/handshake.go:134-206).  Each node announces its local
id → value tables (edf.GetAtomCache / GetRegCache / GetErrCache, Go maps: distinct ids); the sender builds its
ENCODE caches by inverting its own table (makeEncodeAtomCache / makeEncodeErrCache: `cache.Store(v, k)`,
MakeEncodeRegTypeCache), the receiver builds its DECODE caches from the table it received
(makeDecodeAtomCache / makeDecodeRegCache: `cache.Store(k, v)`).  A Go map is an association list with distinct keys.
No proofs here.
-/
namespace ErgoVerif.HsCache

/-- makeEncode*Cache over the local table: value → id (for a value announced twice the entry stored last wins;
    with distinct values — the registration functions use LoadOrStore — the order is irrelevant) -/
def encodeCache {α : Type} [DecidableEq α] (tbl : List (Nat × α)) (a : α) : Option Nat :=
  (tbl.find? (fun e => e.2 = a)).map (·.1)

/-- makeDecode*Cache over the table received from the peer: id → value -/
def decodeCache {α : Type} (tbl : List (Nat × α)) (k : Nat) : Option α :=
  (tbl.find? (fun e => e.1 = k)).map (·.2)

end ErgoVerif.HsCache

import ErgoVerif.Lemmas.Ref
import ErgoVerif.Model.Registry
import ErgoVerif.Model.RegRace
import ErgoVerif.Generated.RegRace
import ErgoVerif.Generated.Unreg
/-!
# C06 — registry integrity: unique identities, complete release on termination

* identifiers: `Generated/Ref.lean` is node.MakeRef translated operator by operator; references, aliases and
  event tokens are all minted by it from one atomic counter.
* names: `Model/Registry.lean`, the RegisterName / spawn-with-name race on one name.
* release of link/monitor relations on termination: stated over the TargetManager model in `Props/C04.lean`
  (`C04_release`), checked on the real node by the C06 harness (names, aliases, events, relations as target and as
  requester).
-/
namespace ErgoVerif.Props.C06
open ErgoVerif

/-- **References never repeat.** `MakeRef` is injective in the counter value: two references (aliases, event
tokens) of one node incarnation are equal only if they were minted from the same counter value, i.e. no repetition
before the 64-bit counter itself wraps (2^64 calls). -/
theorem C06_makeRef_inj (a b : BitVec 64)
    (h0 : Gen.Ref.makeRef0 a = Gen.Ref.makeRef0 b) (h1 : Gen.Ref.makeRef1 a = Gen.Ref.makeRef1 b)
    (_h2 : Gen.Ref.makeRef2 a = Gen.Ref.makeRef2 b) : a = b := by
  unfold Gen.Ref.makeRef0 at h0
  unfold Gen.Ref.makeRef1 at h1
  rw [Ref.mask18] at h0
  exact Ref.split18_inj a b h0 h1

/-- the counter can be read back from the first two words -/
theorem C06_makeRef_recover (a : BitVec 64) :
    (Gen.Ref.makeRef1 a).toNat * 2^18 + (Gen.Ref.makeRef0 a).toNat = a.toNat ∧ (Gen.Ref.makeRef0 a).toNat < 2^18 := by
  unfold Gen.Ref.makeRef0 Gen.Ref.makeRef1
  rw [Ref.mask18]
  have := Ref.split18_recombine a
  omega

/-- The code before the repair of D1 (`ID[1] = id >> 46`): the reference repeats after 262144 calls. -/
theorem C06_D1_before_fix :
    ∃ a b : BitVec 64, a ≠ b ∧ (a &&& ((2#64 <<< 17) - 1#64), a >>> 46) = (b &&& ((2#64 <<< 17) - 1#64), b >>> 46) :=
  ⟨1#64, 262145#64, by decide, by decide⟩

open ErgoVerif.Registry in
/-- **A name belongs to at most one process.** In every reachable configuration of the registration race at most
one claimant holds (or is completing its hold on) the name, and it does so exactly when the name is in the table. -/
theorem C06_name_unique (c : Cfg) (h : Reach c) :
    c.c2 + c.ok ≤ 1 ∧ (c.held = true ↔ c.c2 + c.ok = 1) := by
  have hi := reach_inv h
  unfold Registry.Inv at hi
  cases hh : c.held <;> simp [hh] at hi ⊢ <;> omega

open ErgoVerif.Registry in
/-- **Racing claimants: exactly one succeeds.** When any number n ≥ 1 of processes race for a free name and nobody
unregisters it, then once all calls have returned exactly one returned nil, the others got ErrTaken, and the table
holds the name. -/
theorem C06_race_one_winner (c : Cfg) (h : Reach c) (hq : c.c0 = 0 ∧ c.c1 = 0 ∧ c.c2 = 0)
    (hn : c.n ≥ 1) (hr : c.released = 0) : c.okEver = 1 ∧ c.err = c.n - 1 ∧ c.held = true := by
  have hi := reach_inv h
  unfold Registry.Inv at hi
  cases hh : c.held <;> simp [hh] at hi ⊢ <;> omega

open ErgoVerif.Registry in
/-- after the holder is unregistered (or terminates) the name can be claimed again: a later claimant succeeds -/
theorem C06_name_reusable :
    ∃ c, Reach c ∧ c.released = 1 ∧ c.okEver = 2 ∧ c.held = true :=
  ⟨_, ⟨[.newClaim, .cas, .store, .assign, .unreg, .newClaim, .cas, .store, .assign], rfl⟩, by decide⟩

open ErgoVerif.Registry in
/-- non-vacuity: three racing claimants, one winner -/
example : ∃ c, Reach c ∧ c.n = 3 ∧ c.okEver = 1 ∧ c.err = 2 :=
  ⟨_, ⟨[.newClaim, .newClaim, .newClaim, .cas, .cas, .store, .cas, .store, .assign, .store], rfl⟩, by decide⟩

/-- a terminated process appears in no relation as requester: unregisterProcess calls CleanupConsumer (regenerated; the
repaired D16 — the release histories of the harness query the node's TargetManager after every termination) -/
theorem C06_code_shape_requester_side : ErgoVerif.Gen.Unreg.cleansRequesterSide = true := by decide

/-! ### RegisterName by a third party racing with the termination of the process -/
section RegRace
open ErgoVerif.RegRace

/-- full statement, parametric in the code shape: whatever the interleaving of RegisterName's steps with the
terminator's, once both are done the name table holds no entry for the terminated process -/
def C06_register_vs_termination_full (rc : Bool) : Prop :=
  ∀ ls c, RegRace.run rc RegRace.init ls = some c → (c.r = .doneOk ∨ c.r = .doneErr) → c.t = .done → c.inTable = false

/-- the code before the repair of D33 (no second look at the process): claim · the process terminates, its
unregisterProcess finds neither `registered` nor a name · table insert: the name is held by a dead process for ever.
Kept as a regression statement. -/
theorem C06_register_vs_termination_before_fix : ¬ C06_register_vs_termination_full false := by
  intro h
  have := h [.rStep, .tStep, .tStep, .tStep, .rStep, .rStep, .rStep]
    ⟨false, true, true, true, false, .doneOk, .done⟩ (by decide) (Or.inl rfl) rfl
  simp at this

namespace RegRaceProof

/-- the inductive invariant of the race with the second look, as a decidable predicate -/
def good (c : Cfg) : Bool :=
  ((c.t == .markDead) == c.alive) &&
  (!(c.r == .checkAlive || c.r == .cas) || (!c.registered && !c.inTable && !c.nameSet)) &&
  (!(c.r == .store) || (c.registered && !c.inTable && !c.nameSet)) &&
  (!(c.r == .setName) || (c.registered && c.inTable && !c.nameSet)) &&
  (!(c.r == .recheck || c.r == .doneOk) || (c.registered && c.nameSet)) &&
  (!(c.r == .doneErr) || !c.inTable) &&
  (!(c.r == .doneOk) || ((c.t != .del || c.saw) && (c.t != .done || !c.inTable))) &&
  (!(c.t == .markDead || c.t == .readReg) || !c.saw) &&
  (!c.saw || c.registered)

def allCfgs : List Cfg :=
  [true, false].flatMap fun a => [true, false].flatMap fun b => [true, false].flatMap fun c => [true, false].flatMap fun d =>
  [true, false].flatMap fun e =>
  [RPc.checkAlive, .cas, .store, .setName, .recheck, .doneOk, .doneErr].flatMap fun r =>
  [TPc.markDead, .readReg, .del, .done].map fun t => ⟨a, b, c, d, e, r, t⟩

theorem all_mem (c : Cfg) : c ∈ allCfgs := by
  obtain ⟨a, b, c, d, e, r, t⟩ := c
  simp only [allCfgs, List.mem_flatMap, List.mem_map]
  exact ⟨a, by cases a <;> simp, b, by cases b <;> simp, c, by cases c <;> simp, d, by cases d <;> simp,
    e, by cases e <;> simp, r, by cases r <;> simp, t, by cases t <;> simp, rfl⟩

def stepOk (c : Cfg) (l : Lbl) : Bool :=
  !good c || (match RegRace.step true c l with | some c' => good c' | none => true)

theorem step_good_all : (allCfgs.all fun c => stepOk c .rStep && stepOk c .tStep) = true := by decide +kernel

theorem step_good (c c' : Cfg) (l : Lbl) (h : good c = true) (hs : RegRace.step true c l = some c') : good c' = true := by
  have := List.all_eq_true.mp step_good_all c (all_mem c)
  simp only [Bool.and_eq_true] at this
  cases l with
  | rStep => have h1 := this.1; simp only [stepOk, h, hs, Bool.not_true, Bool.false_or] at h1; exact h1
  | tStep => have h1 := this.2; simp only [stepOk, h, hs, Bool.not_true, Bool.false_or] at h1; exact h1

theorem run_good : ∀ (ls : List Lbl) (c c' : Cfg), good c = true → RegRace.run true c ls = some c' → good c' = true := by
  intro ls
  induction ls with
  | nil => intro c c' h hr; simp [RegRace.run] at hr; subst hr; exact h
  | cons l ls ih =>
    intro c c' h hr
    simp only [RegRace.run] at hr
    cases hs : RegRace.step true c l with
    | none => simp [hs] at hr
    | some c1 => simp [hs] at hr; exact ih c1 c' (step_good c c1 l h hs) hr

theorem final_all : (allCfgs.all fun c => !(good c && (c.r == .doneOk || c.r == .doneErr) && c.t == .done) || !c.inTable) = true := by
  decide +kernel

end RegRaceProof

/-- with the second look at the process the statement holds for every interleaving -/
theorem C06_register_vs_termination_with_recheck : C06_register_vs_termination_full true := by
  intro ls c hr hdone ht
  have hg := RegRaceProof.run_good ls RegRace.init c (by decide) hr
  have := List.all_eq_true.mp RegRaceProof.final_all c (RegRaceProof.all_mem c)
  have hd : (c.r == .doneOk || c.r == .doneErr) = true := by
    rcases hdone with h | h <;> simp [h]
  have htd : (c.t == .done) = true := by simp [ht]
  simp only [hg, hd, htd, Bool.and_self, Bool.not_true, Bool.false_or, Bool.not_eq_true'] at this
  exact this

/-- **Registration vs termination, for the code as it is** (`Gen.RegRace.recheckAliveAfterStore`, regenerated from
node.RegisterName): a name claimed for a process that terminates meanwhile is never left in the table. -/
theorem C06_register_vs_termination : C06_register_vs_termination_full ErgoVerif.Gen.RegRace.recheckAliveAfterStore := by
  have h : ErgoVerif.Gen.RegRace.recheckAliveAfterStore = true := by decide
  rw [h]
  exact C06_register_vs_termination_with_recheck

/-- non-vacuity: the registration completes first, the termination then releases the name; and the other way round
the registration is refused -/
example : RegRace.run true RegRace.init [.rStep, .rStep, .rStep, .rStep, .rStep, .tStep, .tStep, .tStep] =
    some ⟨false, true, false, true, true, .doneOk, .done⟩ := by decide
example : (RegRace.run true RegRace.init [.tStep, .rStep, .tStep, .tStep]).map (·.r) = some .doneErr := by decide

end RegRace

end ErgoVerif.Props.C06

package main

// C18 — events. Puppet histories on a real node: one event owner P (plus an impostor Q that publishes with a wrong
// token), consumers C1..C4 that subscribe by link and/or monitor, unsubscribe, die; buffers 0..4; notifications on/off.
// After every operation the observable outcome (error class, who received the publication, the snapshot handed to a
// new subscriber, start/stop notifications at the producer, exit/down at unregistration) is compared with
// Model/Event.lean (driver "event"). Independent oracles: exactly-once per subscribed process, per-publisher order,
// token check, snapshot = last N, start/stop at 0->1 / 1->0 of the number of live subscriptions.

import (
	"fmt"
	"sort"
	"strings"
	"time"

	"ergo.services/ergo/gen"
)

func init() { props["C18"] = runC18 }

type c18payload struct{ N int }

func runC18(c *Ctx) {
	r := c.R
	r.Rule = "puppet histories of 20-60 ops on one event: register(buffer 0..4, notify on/off) / publish(right or wrong token) / subscribe by link or monitor / unsubscribe / subscriber death / unregister / owner death, 2-4 consumers; " +
		"two real nodes: 1-3 subscribers on the remote node (link, monitor or both) plus 0-2 local ones, 1-4 publications -> every subscriber sees every publication once, in order; " +
		"every op outcome vs Model/Event; non-trivial = ≥2 subscribers present at a publication and the buffer wrapped at least once; distinct by op string"
	k, err := NewK4("c18n")
	if err != nil {
		r.Disagree("c18.node", err.Error(), nil)
		return
	}
	defer k.Stop()
	c18witnesses(c, k)
	c18subrace(c, k)
	c18full(c, k)
	c18remote(c)
	n := c.N(100, 4000)
	evSeq := 0
	for it := 0; it < n; it++ {
		prod, ppid, _ := k.Spawn("P", true, gen.ProcessOptions{}, "")
		_, qpid, _ := k.Spawn("Q", false, gen.ProcessOptions{}, "")
		nc := 2 + c.Rng.Intn(3)
		cons := make([]*Puppet, nc+1)
		cpid := make([]gen.PID, nc+1)
		alive := make([]bool, nc+1)
		for i := 1; i <= nc; i++ {
			cons[i], cpid[i], _ = k.Spawn(fmt.Sprintf("C%d", i), true, gen.ProcessOptions{}, "")
			alive[i] = true
		}
		evSeq++
		evName := gen.Atom(fmt.Sprintf("c18ev%d", evSeq))
		event := gen.Event{Name: evName, Node: k.Name()}
		var token gen.Ref
		registered := false
		notify := false
		bufCap := 0
		lines := []string{"reset"}
		wants := []string{"ok"}
		// harness-side ground truth for the oracles
		type sub struct{ link, mon bool }
		subs := map[int]*sub{}
		everDied := false
		var published []int
		pubN := 0
		seenEvents := make([]int, nc+1) // consumed HandleEvent log entries per consumer
		seenProd := 0
		wrapped, multi := false, false
		liveSubs := func() int {
			t := 0
			for _, s := range subs {
				if s.link {
					t++
				}
				if s.mon {
					t++
				}
			}
			return t
		}
		prodNotes := func() string {
			k.Quiesce()
			log := prod.Log()
			note := "-"
			for _, e := range log[seenProd:] {
				if e.Kind == "msg" {
					switch e.Data.(type) {
					case gen.MessageEventStart:
						note = "start"
					case gen.MessageEventStop:
						note = "stop"
					}
				}
			}
			seenProd = len(log)
			return note
		}
		// events received by consumer i since the last call
		eventsOf := func(i int) []int {
			log := cons[i].Log()
			var out []int
			cnt := 0
			for _, e := range log {
				if e.Kind != "event" {
					continue
				}
				cnt++
				if cnt <= seenEvents[i] {
					continue
				}
				me := e.Data.(gen.MessageEvent)
				if pl, ok := me.Message.(c18payload); ok {
					out = append(out, pl.N)
				}
			}
			seenEvents[i] = cnt
			return out
		}
		nops := 20 + c.Rng.Intn(41)
		var hist []string
		for o := 0; o < nops; o++ {
			x := c.Rng.Intn(100)
			switch {
			case !registered || x < 4:
				nNotify := c.Rng.Bool()
				nCap := c.Rng.Intn(5)
				var e error
				var tk gen.Ref
				k.Exec(ppid, func(p *Puppet) { tk, e = p.RegisterEvent(evName, gen.EventOptions{Notify: nNotify, Buffer: nCap}) })
				res := "ok"
				if e == gen.ErrTaken {
					res = "exist"
				} else if e != nil {
					res = "err:" + e.Error()
				} else {
					token = tk
					registered = true
					notify, bufCap = nNotify, nCap
					subs = map[int]*sub{}
					published = nil
				}
				lines = append(lines, fmt.Sprintf("reg 7 %d %d", b2i(nNotify), nCap))
				wants = append(wants, res)
			case x < 40: // publish
				pubN++
				m := pubN
				wrong := c.Rng.Chance(1, 8)
				var e error
				if wrong {
					k.Exec(qpid, func(p *Puppet) { e = p.SendEvent(evName, k.Node.MakeRef(), c18payload{m}) })
				} else {
					k.Exec(ppid, func(p *Puppet) { e = p.SendEvent(evName, token, c18payload{m}) })
				}
				k.Quiesce()
				var got []int
				for i := 1; i <= nc; i++ {
					if !alive[i] {
						continue
					}
					for _, v := range eventsOf(i) {
						if v == m {
							got = append(got, i)
						}
					}
				}
				sort.Ints(got)
				res := ""
				switch {
				case e == nil:
					res = "delivered " + natList(got)
				case e == gen.ErrEventOwner:
					res = "owner"
				case e == gen.ErrEventUnknown:
					res = "unknown"
				default:
					res = "err:" + e.Error()
				}
				tok := 7
				if wrong {
					tok = 8
				}
				lines = append(lines, fmt.Sprintf("pub %d %d", tok, m))
				wants = append(wants, res)
				hist = append(hist, fmt.Sprintf("pub %d wrongtoken=%v -> %s", m, wrong, res))
				rp := map[string]interface{}{"history": append([]string(nil), hist...)}
				// oracles
				if wrong && e == nil {
					r.Violation("C18/token", "a publication with a wrong token was accepted", rp)
				}
				if e == nil && !wrong {
					published = append(published, m)
					if bufCap > 0 && len(published) > bufCap {
						wrapped = true
					}
					cnt := map[int]int{}
					for _, i := range got {
						cnt[i]++
					}
					nsub := 0
					for i := 1; i <= nc; i++ {
						s := subs[i]
						has := alive[i] && s != nil && (s.link || s.mon)
						if has {
							nsub++
						}
						switch {
						case has && cnt[i] == 0:
							r.Violation("C18/missed", fmt.Sprintf("subscriber C%d did not receive publication %d", i, m), rp)
						case has && cnt[i] > 1 && s.link && s.mon:
							r.Violation("C18/D20-double-delivery", fmt.Sprintf("C%d is subscribed by link and by monitor and received publication %d %d times", i, m, cnt[i]), rp)
						case has && cnt[i] > 1:
							r.Violation("C18/duplicate", fmt.Sprintf("C%d received publication %d %d times", i, m, cnt[i]), rp)
						case !has && cnt[i] > 0:
							r.Violation("C18/unsubscribed-delivery", fmt.Sprintf("C%d holds no subscription and received publication %d", i, m), rp)
						}
					}
					if nsub >= 2 {
						multi = true
					}
				}
			case x < 70: // subscribe
				i := 1 + c.Rng.Intn(nc)
				if !alive[i] {
					continue
				}
				mon := c.Rng.Bool()
				var snap []gen.MessageEvent
				var e error
				prodNotes()
				before := liveSubs()
				k.Exec(cpid[i], func(p *Puppet) {
					if mon {
						snap, e = p.MonitorEvent(event)
					} else {
						snap, e = p.LinkEvent(event)
					}
				})
				kind := "l"
				if mon {
					kind = "m"
				}
				res := ""
				switch {
				case e == nil:
					var sn []int
					for _, me := range snap {
						if pl, ok := me.Message.(c18payload); ok {
							sn = append(sn, pl.N)
						}
					}
					note := prodNotes()
					res = fmt.Sprintf("subscribed %s %s", natListOrdered(sn), note)
					if subs[i] == nil {
						subs[i] = &sub{}
					}
					if mon {
						subs[i].mon = true
					} else {
						subs[i].link = true
					}
					rp := map[string]interface{}{"history": append([]string(nil), hist...), "snapshot": sn, "published": published}
					// snapshot oracle: last min(cap, len) publications in order
					want := published
					if len(want) > bufCap {
						want = want[len(want)-bufCap:]
					}
					if fmt.Sprint(sn) != fmt.Sprint(want) && !(len(sn) == 0 && len(want) == 0) {
						r.Violation("C18/snapshot", fmt.Sprintf("new subscriber got snapshot %v, the last %d publications are %v", sn, bufCap, want), rp)
					}
					if notify {
						wantStart := before == 0
						gotStart := note == "start"
						if wantStart != gotStart {
							sig := "C18/notify-start"
							if everDied {
								sig = "C18/D21-counter-after-subscriber-death"
							}
							r.Violation(sig, fmt.Sprintf("%d live subscriptions before this one; start notification sent: %v", before, gotStart), rp)
						}
					}
				case e == gen.ErrTargetExist:
					res = "exist"
				case e == gen.ErrEventUnknown:
					res = "unknown"
				default:
					res = "err:" + e.Error()
				}
				lines = append(lines, fmt.Sprintf("sub %d %s", i, kind))
				wants = append(wants, res)
				hist = append(hist, fmt.Sprintf("sub C%d %s -> %s", i, kind, res))
			case x < 82: // unsubscribe
				i := 1 + c.Rng.Intn(nc)
				if !alive[i] {
					continue
				}
				mon := c.Rng.Bool()
				var e error
				prodNotes()
				before := liveSubs()
				k.Exec(cpid[i], func(p *Puppet) {
					if mon {
						e = p.DemonitorEvent(event)
					} else {
						e = p.UnlinkEvent(event)
					}
				})
				kind := "l"
				if mon {
					kind = "m"
				}
				res := ""
				switch {
				case e == nil:
					note := prodNotes()
					res = "unsubscribed " + note
					if mon {
						subs[i].mon = false
					} else {
						subs[i].link = false
					}
					if notify {
						wantStop := before == 1
						gotStop := note == "stop"
						if wantStop != gotStop {
							sig := "C18/notify-stop"
							if everDied {
								sig = "C18/D21-counter-after-subscriber-death"
							}
							r.Violation(sig, fmt.Sprintf("%d live subscriptions before this unsubscribe; stop notification sent: %v", before, gotStop),
								map[string]interface{}{"history": append([]string(nil), hist...)})
						}
					}
				case e == gen.ErrTargetUnknown:
					res = "norel"
				case e == gen.ErrEventUnknown:
					res = "unknown"
				default:
					res = "err:" + e.Error()
				}
				lines = append(lines, fmt.Sprintf("unsub %d %s", i, kind))
				wants = append(wants, res)
				hist = append(hist, fmt.Sprintf("unsub C%d %s -> %s", i, kind, res))
			case x < 90: // a consumer dies
				i := 1 + c.Rng.Intn(nc)
				if !alive[i] {
					continue
				}
				if s := subs[i]; s != nil && (s.link || s.mon) {
					everDied = true
				}
				prodNotes()
				beforeDie := liveSubs()
				mine := 0
				if s := subs[i]; s != nil {
					mine = b2i(s.link) + b2i(s.mon)
				}
				k.Node.Kill(cpid[i])
				waitUntilGone(k, cpid[i])
				alive[i] = false
				delete(subs, i)
				note := prodNotes()
				if !registered {
					note = "-"
				}
				lines = append(lines, fmt.Sprintf("die %d", i))
				wants = append(wants, "unsubscribed "+note)
				hist = append(hist, fmt.Sprintf("C%d dies -> %s", i, note))
				if registered && notify {
					wantStop := mine > 0 && beforeDie == mine
					if wantStop != (note == "stop") {
						r.Violation("C18/D21-counter-after-subscriber-death", fmt.Sprintf("a subscriber holding %d of the %d live subscriptions terminated; stop notification sent: %v", mine, beforeDie, note == "stop"),
							map[string]interface{}{"history": append([]string(nil), hist...)})
					}
				}
			default: // unregister
				var e error
				for i := 1; i <= nc; i++ {
					if alive[i] {
						cons[i].ClearLog()
						seenEvents[i] = 0
					}
				}
				k.Exec(ppid, func(p *Puppet) { e = p.UnregisterEvent(evName) })
				k.Quiesce()
				res := ""
				if e == nil {
					var ex, dn []int
					for i := 1; i <= nc; i++ {
						if !alive[i] {
							continue
						}
						for _, le := range cons[i].Log() {
							if le.Kind == "exitevent" {
								ex = append(ex, i)
							}
							if le.Kind == "downevent" {
								dn = append(dn, i)
							}
						}
					}
					res = fmt.Sprintf("gone exits=%s downs=%s", natList(ex), natList(dn))
					// oracle: one per relation
					for i := 1; i <= nc; i++ {
						s := subs[i]
						wl, wm := 0, 0
						if alive[i] && s != nil {
							wl, wm = b2i(s.link), b2i(s.mon)
						}
						gl, gm := 0, 0
						for _, v := range ex {
							if v == i {
								gl++
							}
						}
						for _, v := range dn {
							if v == i {
								gm++
							}
						}
						if gl != wl || gm != wm {
							r.Violation("C18/unregister-notifications", fmt.Sprintf("C%d: %d exit(s) and %d down(s) at unregistration, it held link=%d monitor=%d", i, gl, gm, wl, wm),
								map[string]interface{}{"history": append([]string(nil), hist...)})
						}
					}
					registered = false
					subs = map[int]*sub{}
					published = nil
					everDied = false
				} else if e == gen.ErrEventUnknown {
					res = "unknown"
				} else {
					res = "err:" + e.Error()
				}
				lines = append(lines, "unreg")
				wants = append(wants, res)
				hist = append(hist, "unregister -> "+res)
			}
		}
		outs, err := Model("event", lines)
		if err != nil {
			r.Disagree("event.driver", err.Error(), nil)
			return
		}
		for i := range lines {
			if outs[i] != wants[i] {
				r.Disagree("K4 Model.Event ~ node event routing", fmt.Sprintf("op %d %q: model %q, implementation %q", i, lines[i], outs[i], wants[i]),
					map[string]interface{}{"ops": lines[:i+1], "impl": wants[:i+1]})
				break
			}
		}
		r.Case(strings.Join(lines, "|"), multi && wrapped)
		if it < 2 {
			r.Sample(map[string]interface{}{"ops": lines, "impl": wants})
		}
		k.Node.Kill(ppid)
		k.Node.Kill(qpid)
		for i := 1; i <= nc; i++ {
			if alive[i] {
				k.Node.Kill(cpid[i])
			}
		}
		k.Quiesce()
		k.resetPuppets()
	}
}

func natList(xs []int) string {
	ys := append([]int(nil), xs...)
	sort.Ints(ys)
	return natListOrdered(ys)
}

func natListOrdered(xs []int) string {
	if len(xs) == 0 {
		return "-"
	}
	var p []string
	for _, x := range xs {
		p = append(p, fmt.Sprint(x))
	}
	return strings.Join(p, ",")
}

// c18witnesses replays the listed findings D20 and D21 deterministically.
func c18witnesses(c *Ctx, k *K4) {
	r := c.R
	prod, ppid, _ := k.Spawn("P", true, gen.ProcessOptions{}, "")
	c1, c1pid, _ := k.Spawn("C1", true, gen.ProcessOptions{}, "")
	_, c2pid, _ := k.Spawn("C2", true, gen.ProcessOptions{}, "")
	ev := gen.Event{Name: "c18witness", Node: k.Name()}
	var tok gen.Ref
	k.Exec(ppid, func(p *Puppet) { tok, _ = p.RegisterEvent(ev.Name, gen.EventOptions{Notify: true}) })
	// D20: link + monitor by the same process
	k.Exec(c1pid, func(p *Puppet) { p.LinkEvent(ev); p.MonitorEvent(ev) })
	k.Exec(ppid, func(p *Puppet) { p.SendEvent(ev.Name, tok, c18payload{1}) })
	k.Quiesce()
	got := 0
	for _, e := range c1.Log() {
		if e.Kind == "event" {
			got++
		}
	}
	if got == 2 {
		r.Violation("C18/D20-double-delivery", "C1 subscribed by link and by monitor received one publication twice", map[string]interface{}{"witness": "register; C1 LinkEvent; C1 MonitorEvent; publish"})
	} else if got != 1 {
		r.Violation("C18/witness-count", fmt.Sprintf("C1 received the publication %d times", got), nil)
	}
	// D21: subscriber dies while subscribed, next first subscriber gets no start
	k.Node.Kill(c1pid)
	waitUntilGone(k, c1pid)
	k.Quiesce()
	prod.ClearLog()
	k.Exec(c2pid, func(p *Puppet) { p.LinkEvent(ev) })
	k.Quiesce()
	start := false
	for _, e := range prod.Log() {
		if _, ok := e.Data.(gen.MessageEventStart); ok {
			start = true
		}
	}
	if !start {
		r.Violation("C18/D21-counter-after-subscriber-death", "after the only subscriber terminated, the next first subscriber produced no MessageEventStart", map[string]interface{}{"witness": "register(notify); C1 subscribes twice; kill C1; C2 LinkEvent"})
	}
	k.Node.Kill(ppid)
	k.Node.Kill(c2pid)
	k.Quiesce()
	k.resetPuppets()
}

// c18remote: subscribers on another node. The producer's node sends one frame per remote node and the receiving node
// fans it out to its own subscribers: with k subscribers on one remote node every one of them must still see every
// publication exactly once, in order.
func c18remote(c *Ctx) {
	r := c.R
	p, err := newC14pair(false)
	if err != nil {
		r.Count("inconclusive.node-start")
		r.Note("C18 remote: start failed: %v", err)
		return
	}
	defer p.stop()
	rounds := c.N(6, 80)
	for it := 0; it < rounds; it++ {
		prod, err := p.spawn(p.a)
		if err != nil {
			r.Count("inconclusive.spawn")
			continue
		}
		name := gen.Atom(fmt.Sprintf("c18remote%d", it))
		ev := gen.Event{Name: name, Node: p.nameA}
		var tok gen.Ref
		var rerr error
		if !c14do(p.a, prod, 3*time.Second, func(a *c14actor) { tok, rerr = a.RegisterEvent(name, gen.EventOptions{}) }) || rerr != nil {
			r.Count("inconclusive.register")
			continue
		}
		nRemote := 1 + c.Rng.Intn(3)
		nLocal := c.Rng.Intn(3)
		if it == 0 {
			nRemote, nLocal = 2, 0
		}
		type sub struct {
			pid  gen.PID
			node gen.Node
			how  string
		}
		var subs []sub
		ok := true
		for i := 0; i < nRemote+nLocal; i++ {
			n := p.b
			if i >= nRemote {
				n = p.a
			}
			sp, err := p.spawn(n)
			if err != nil {
				ok = false
				break
			}
			how := []string{"link", "monitor", "both"}[c.Rng.Intn(3)]
			var e1, e2 error
			if !c14do(n, sp, 5*time.Second, func(a *c14actor) {
				if how != "monitor" {
					_, e1 = a.LinkEvent(ev)
				}
				if how != "link" {
					_, e2 = a.MonitorEvent(ev)
				}
			}) || e1 != nil || e2 != nil {
				ok = false
				r.Note("C18 remote: subscribe failed: %v %v", e1, e2)
				break
			}
			subs = append(subs, sub{sp, n, how})
		}
		if !ok {
			r.Count("inconclusive.subscribe")
			continue
		}
		m := 1 + c.Rng.Intn(4)
		for v := 0; v < m; v++ {
			v := v
			c14do(p.a, prod, 3*time.Second, func(a *c14actor) { a.SendEvent(name, tok, int64(v)) })
		}
		seqOf := func(pid gen.PID) []int64 {
			var out []int64
			for _, x := range p.rec.at(pid) {
				if me, ok := x.(gen.MessageEvent); ok && me.Event == ev {
					if n, ok := me.Message.(int64); ok {
						out = append(out, n)
					}
				}
			}
			return out
		}
		waitUntil(3*time.Second, func() bool {
			for _, s := range subs {
				if len(seqOf(s.pid)) < m {
					return false
				}
			}
			return true
		})
		time.Sleep(30 * time.Millisecond) // room for duplicates to arrive
		var hows []string
		for _, s := range subs {
			hows = append(hows, s.how)
		}
		rp := map[string]interface{}{"remote_subscribers": nRemote, "local_subscribers": nLocal, "how": hows, "publications": m}
		for i, s := range subs {
			got := seqOf(s.pid)
			where := "remote"
			if i >= nRemote {
				where = "local"
			}
			want := make([]int64, m)
			for v := range want {
				want[v] = int64(v)
			}
			switch {
			case fmt.Sprint(got) == fmt.Sprint(want):
			case len(got) > m:
				r.Violation("C18/remote-duplicate", fmt.Sprintf("%s subscriber %d (%s) of an event with %d remote and %d local subscribers received %v for the publications %v", where, i, s.how, nRemote, nLocal, got, want), rp)
			case len(got) < m:
				r.Violation("C18/remote-missed", fmt.Sprintf("%s subscriber %d (%s) received %v for the publications %v", where, i, s.how, got, want), rp)
			default:
				r.Violation("C18/remote-order", fmt.Sprintf("%s subscriber %d (%s) received %v for the publications %v", where, i, s.how, got, want), rp)
			}
		}
		r.Case(fmt.Sprintf("remote/%d/%d/%v/%d", nRemote, nLocal, hows, m), nRemote >= 2)
		r.Count("remote.rounds")
		for _, s := range subs {
			s.node.Kill(s.pid)
		}
		p.a.Kill(prod)
		time.Sleep(5 * time.Millisecond)
	}
}


// c18subrace: K3 on a subscription racing with a publication. The subscriber parks at the yield point right before
// its relation is inserted ("link:add" / "monitor:add" in RouteLinkEvent / RouteMonitorEvent); the producer publishes
// meanwhile; then the subscriber goes on. Whatever the subscriber was handed (the buffer returned by the call) plus
// what it received live must cover the publications without a hole.
func c18subrace(c *Ctx, k *K4) {
	r := c.R
	rounds := c.N(6, 60)
	for it := 0; it < rounds; it++ {
		for _, monitor := range []bool{false, true} {
			prod, ppid, _ := k.Spawn("P", true, gen.ProcessOptions{}, "")
			sub, spid, _ := k.Spawn("S", true, gen.ProcessOptions{}, "")
			_ = prod
			name := k.NextName("c18race")
			ev := gen.Event{Name: name, Node: k.Name()}
			var tok gen.Ref
			k.Exec(ppid, func(p *Puppet) { tok, _ = p.RegisterEvent(name, gen.EventOptions{Buffer: 8}) })
			before := 1 + c.Rng.Intn(3)
			during := 1 + c.Rng.Intn(2)
			after := 1 + c.Rng.Intn(2)
			n := 0
			publish := func(cnt int) {
				for i := 0; i < cnt; i++ {
					n++
					v := n
					k.Exec(ppid, func(p *Puppet) { p.SendEvent(name, tok, c18payload{v}) })
				}
			}
			publish(before)
			ctl := NewCtl("k3-no-process")
			ctl.AddQueue(ev)
			ctl.On()
			var handed []gen.MessageEvent
			var serr error
			done := make(chan struct{})
			k.ExecAsync(spid, func(p *Puppet) {
				if monitor {
					handed, serr = p.MonitorEvent(ev)
				} else {
					handed, serr = p.LinkEvent(ev)
				}
				close(done)
			})
			parked := waitUntil(2*time.Second, func() bool { return len(ctl.Parked()) == 1 })
			if parked {
				publish(during) // the producer runs to its end while the subscriber is parked before the insert
			}
			ctl.ReleaseAll()
			ctl.Close()
			select {
			case <-done:
			case <-time.After(3 * time.Second):
				r.Count("subrace.inconclusive")
				continue
			}
			publish(after)
			k.Quiesce()
			if !parked || serr != nil {
				r.Count("subrace.inconclusive")
			} else {
				have := map[int]int{}
				var hv, lv []int
				for _, m := range handed {
					if pl, ok := m.Message.(c18payload); ok {
						have[pl.N]++
						hv = append(hv, pl.N)
					}
				}
				for _, e := range sub.Log() {
					if e.Kind == "event" {
						if me, ok := e.Data.(gen.MessageEvent); ok {
							if pl, ok := me.Message.(c18payload); ok {
								have[pl.N]++
								lv = append(lv, pl.N)
							}
						}
					}
				}
				for v := 1; v <= n; v++ {
					if have[v] == 0 {
						r.Violation("C18/subscribe-gap", fmt.Sprintf("publication %d of %d was neither in the buffer handed to the new subscriber (%v) nor delivered to it (%v); %d were published before the subscription began, %d while it was between its lookup and the insert of the relation, %d after it returned", v, n, hv, lv, before, during, after),
							map[string]interface{}{"monitor": monitor, "before": before, "during": during, "after": after, "schedule": "S parks before the insert; P publishes; S continues"})
						break
					}
				}
				r.Case(fmt.Sprintf("subrace/%v/%d/%d/%d", monitor, before, during, after), true)
				r.Count("subrace.rounds")
			}
			k.Node.Kill(ppid)
			k.Node.Kill(spid)
			k.Quiesce()
			k.resetPuppets()
		}
	}
}


// c18full: one subscriber with a bounded mailbox is stuck in a callback while the producer publishes more than its
// mailbox holds. What happens to that subscriber's copies is its own affair; every other subscriber must still
// see every publication once, in order, and the producer's SendEvent calls succeed.
func c18full(c *Ctx, k *K4) {
	r := c.R
	rounds := c.N(4, 40)
	for it := 0; it < rounds; it++ {
		_, ppid, _ := k.Spawn("P", true, gen.ProcessOptions{}, "")
		name := k.NextName("c18full")
		ev := gen.Event{Name: name, Node: k.Name()}
		var tok gen.Ref
		k.Exec(ppid, func(p *Puppet) { tok, _ = p.RegisterEvent(name, gen.EventOptions{}) })
		nOrd := 2 + c.Rng.Intn(4)
		size := int64(1 + c.Rng.Intn(3))
		slowAt := c.Rng.Intn(nOrd + 1) // position of the bounded subscriber in subscription order
		var ords []*Puppet
		var opids []gen.PID
		var slow gen.PID
		for i := 0; i <= nOrd; i++ {
			if i == slowAt {
				_, slow, _ = k.Spawn("F", true, gen.ProcessOptions{MailboxSize: size}, "")
				k.Exec(slow, func(p *Puppet) { p.LinkEvent(ev) })
				continue
			}
			pp, pid, _ := k.Spawn(fmt.Sprintf("O%d", i), true, gen.ProcessOptions{}, "")
			mon := c.Rng.Bool()
			k.Exec(pid, func(p *Puppet) {
				if mon {
					p.MonitorEvent(ev)
				} else {
					p.LinkEvent(ev)
				}
			})
			ords = append(ords, pp)
			opids = append(opids, pid)
		}
		release, err := k.Block(slow)
		if err != nil {
			r.Count("full.inconclusive")
			continue
		}
		m := int(size) + 2 + c.Rng.Intn(4)
		var errs []string
		for v := 1; v <= m; v++ {
			v := v
			var e error
			k.Exec(ppid, func(p *Puppet) { e = p.SendEvent(name, tok, c18payload{v}) })
			if e != nil {
				errs = append(errs, fmt.Sprintf("#%d: %v", v, e))
			}
		}
		// (the blocked puppet never looks calm: wait for the others to have handled what they were sent)
		waitUntil(time.Second, func() bool {
			for _, pp := range ords {
				n := 0
				for _, e := range pp.Log() {
					if e.Kind == "event" {
						n++
					}
				}
				if n < m {
					return false
				}
			}
			return true
		})
		time.Sleep(2 * time.Millisecond)
		rp := map[string]interface{}{"ordinary": nOrd, "bounded_mailbox": size, "bounded_position": slowAt, "publications": m}
		if len(errs) > 0 {
			r.Violation("C18/publish-fails-on-full-subscriber", fmt.Sprintf("SendEvent with the right token failed while one subscriber's mailbox was full: %v", errs), rp)
		}
		for i, pp := range ords {
			var got []int
			for _, e := range pp.Log() {
				if e.Kind == "event" {
					if me, ok := e.Data.(gen.MessageEvent); ok {
						if pl, ok := me.Message.(c18payload); ok {
							got = append(got, pl.N)
						}
					}
				}
			}
			want := make([]int, m)
			for v := range want {
				want[v] = v + 1
			}
			if fmt.Sprint(got) != fmt.Sprint(want) {
				r.Violation("C18/missed", fmt.Sprintf("ordinary subscriber %d received %v of the publications %v while another subscriber (mailbox size %d) was full", i, got, want, size), rp)
				break
			}
		}
		r.Case(fmt.Sprintf("full/%d/%d/%d/%d", nOrd, size, slowAt, m), true)
		r.Count("full.rounds")
		release()
		k.Node.Kill(ppid)
		k.Node.Kill(slow)
		for _, pid := range opids {
			k.Node.Kill(pid)
		}
		k.Quiesce()
		k.resetPuppets()
	}
}

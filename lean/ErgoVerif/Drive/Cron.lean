import ErgoVerif.Drive.Util
import ErgoVerif.Model.Cron
namespace ErgoVerif.Drive.Cron
open ErgoVerif.Drive ErgoVerif.Cron

/-- "49,32,42" (code points) or "-" → characters -/
def parseText? (s : String) : Option (List Char) :=
  (parseNatList? s).map fun l => l.map Char.ofNat

def showText (cs : List Char) : String := showNatList (cs.map Char.toNat)

/-- "y.mo.d.h.mi.wd" -/
def parseCivil? (s : String) : Option Civil :=
  match (s.splitOn ".").mapM (·.toNat?) with
  | some [y, mo, d, h, mi, wd] => some ⟨y, mo, d, h, mi, wd⟩
  | _ => none

def b (x : Bool) : String := if x then "1" else "0"

/--
`parse <text>`            → `err` | `ok <minHourMonth> <day> <weekDay> <printed AST> <valid>`
`at <text> <civil;civil…>` → `err` | one `<IsRunAt><denote>` pair per civil time, space separated
-/
def line (s : String) : String :=
  match words s with
  | ["parse", t] =>
    match parseText? t with
    | none => "bad-op"
    | some cs =>
      match parseSpec cs with
      | none => "err"
      | some ast =>
        let m := compileSpec ast
        s!"ok {showNatList m.minHourMonth} {showNatList m.day} {showNatList m.weekDay} {showText ast.print} {b ast.valid}"
  | ["at", t, cv] =>
    match parseText? t, (cv.splitOn ";").mapM parseCivil? with
    | some cs, some cvs =>
      match parseSpec cs with
      | none => "err"
      | some ast =>
        let m := compileSpec ast
        " ".intercalate (cvs.map fun c => b (specIsRunAt m c) ++ b (ast.denote c))
    | _, _ => "bad-op"
  | _ => "bad-op"

def main (h : IO.FS.Stream) : IO Unit := loopPure h line

end ErgoVerif.Drive.Cron

package main

import (
	"fmt"
	"go/ast"
)

// Generated/SpawnFail.lean: the path of node.spawn taken when ProcessInit fails — does it notify the processes that
// linked themselves with (or monitor) the failing process, i.e. call RouteTerminatePID(p.pid, …)?

func init() {
	generators = append(generators, generator{name: "SpawnFail", run: genSpawnFail,
		fallback: "namespace ErgoVerif.Gen.SpawnFail\ndef notifiesLinked : Bool := false\ndef signalsOwnLinkTargets : Bool := false\nend ErgoVerif.Gen.SpawnFail\n"})
}

func genSpawnFail() (string, error) {
	f, err := parseFile("node/node.go")
	if err != nil {
		return "", err
	}
	fd := funcDecl(f, "node", "spawn")
	if fd == nil {
		return "", fmt.Errorf("node.spawn not found")
	}
	found, notifies, own := false, false, false
	ast.Inspect(fd.Body, func(n ast.Node) bool {
		is, ok := n.(*ast.IfStmt)
		if !ok || is.Init == nil {
			return true
		}
		as, ok := is.Init.(*ast.AssignStmt)
		if !ok || len(as.Rhs) != 1 {
			return true
		}
		c, ok := as.Rhs[0].(*ast.CallExpr)
		if !ok || exprStr(c.Fun) != "behavior.ProcessInit" {
			return true
		}
		found = true
		ast.Inspect(is.Body, func(m ast.Node) bool {
			if ce, ok := m.(*ast.CallExpr); ok {
				switch exprStr(ce.Fun) {
				case "n.RouteTerminatePID":
					if len(ce.Args) == 2 && exprStr(ce.Args[0]) == "p.pid" {
						notifies = true
					}
				case "n.targetManager.CleanupConsumer":
					if len(ce.Args) == 1 && exprStr(ce.Args[0]) == "p.pid" {
						own = true
					}
				}
			}
			return true
		})
		return false
	})
	if !found {
		return "", fmt.Errorf("the ProcessInit error path of node.spawn not found")
	}
	return fmt.Sprintf("namespace ErgoVerif.Gen.SpawnFail\n/-- the ProcessInit error path of node.spawn calls n.RouteTerminatePID(p.pid, err) -/\ndef notifiesLinked : Bool := %s\n/-- and walks the links the failing process holds itself (CleanupConsumer) -/\ndef signalsOwnLinkTargets : Bool := %s\nend ErgoVerif.Gen.SpawnFail\n", leanBool(notifies), leanBool(own)), nil
}

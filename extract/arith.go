package main

// Generated/Arith.lean — the integer expressions of net/proto/connection.go that decide which pooled
// link a frame is written to and which receive queue decodes it, translated operator by operator:
//   * every `order := …` / `orderPeer := …` definition in a method of *connection (≈ 100 sites):
//     the distinct expression forms and the table of sites (method, variable, operand, form)
//   * per sending method: which variable is stored into buf.B[6] (the wire order byte), which one is
//     handed to send()/sendAny(), and whether the `KeepNetworkOrder == false` reset is present
//   * send(): the round-robin condition and both pool-index expressions
//   * serve(): the receive-queue index expression with its condition
//   * NewConnection (enp.go): the number of receive queues as a function of the pool size
// Go semantics used: unsigned conversions uintN(e) = e mod 2^N, unsigned + and * wrap mod 2^N of the
// operand type, % and comparisons on non-negative values are Nat's; int(e) of an unsigned value that fits
// is the identity (64-bit int; operands here are uint8/uint32).

import (
	"fmt"
	"go/ast"
	"go/parser"
	"go/token"
	"path/filepath"
	"sort"
	"strings"
)

func init() {
	generators = append(generators, generator{name: "Arith", run: genArith, fallback: arithFallback})
}

const arithFallback = `namespace ErgoVerif.Gen.Arith
-- FALLBACK: the anchors were not found in the current source; these definitions are placeholders
structure Site where
  method : String
  var : String
  operand : String
  form : Nat
deriving Repr, DecidableEq
structure Wire where
  method : String
  wire : String
  link : String
  wireOperand : String
  linkOperand : String
  keepReset : Bool
deriving Repr, DecidableEq
def idForms : Nat := 0
def orderByte (x : Nat) : Nat := x
def orderSites : List Site := []
def wireTable : List Wire := []
def roundRobin (order : Nat) : Bool := true
def poolIndex (order l : Nat) : Nat := 0
def poolIndexRR (neworder l : Nat) : Nat := 0
def queueIndex (order recvN recvNQ : Nat) : Nat := 0
def recvQueues (poolSize : Nat) : Nat := 0
def extracted : Bool := false
end ErgoVerif.Gen.Arith
`

type tr struct {
	vars map[string]string // source text of a variable-like operand -> Lean parameter name
	free []string          // operands seen (source text), in order
}

func exprText(e ast.Expr) string {
	switch x := e.(type) {
	case *ast.Ident:
		return x.Name
	case *ast.SelectorExpr:
		return exprText(x.X) + "." + x.Sel.Name
	case *ast.IndexExpr:
		return exprText(x.X) + "[" + exprText(x.Index) + "]"
	case *ast.BasicLit:
		return x.Value
	case *ast.ParenExpr:
		return "(" + exprText(x.X) + ")"
	case *ast.BinaryExpr:
		return exprText(x.X) + " " + x.Op.String() + " " + exprText(x.Y)
	case *ast.CallExpr:
		var as []string
		for _, a := range x.Args {
			as = append(as, exprText(a))
		}
		return exprText(x.Fun) + "(" + strings.Join(as, ", ") + ")"
	}
	return fmt.Sprintf("<%T>", e)
}

var uintBits = map[string]int{"uint8": 8, "byte": 8, "uint16": 16, "uint32": 32, "uint64": 64}

// term translates an integer expression to a Lean Nat term; bits = width of the unsigned type (0 = int / untyped).
func (t *tr) term(e ast.Expr) (string, int, error) {
	switch x := e.(type) {
	case *ast.ParenExpr:
		return t.term(x.X)
	case *ast.BasicLit:
		if x.Kind != token.INT {
			return "", 0, fmt.Errorf("literal %s", x.Value)
		}
		return x.Value, 0, nil
	case *ast.Ident, *ast.SelectorExpr, *ast.IndexExpr:
		src := exprText(e)
		t.free = append(t.free, src)
		if t.vars == nil {
			return "x", 64, nil // the id an order byte is derived from (uint64)
		}
		name, ok := t.vars[src]
		if !ok {
			return "", 0, fmt.Errorf("unbound operand %s", src)
		}
		return name, 0, nil // int-typed locals (lengths, counters, already converted bytes)
	case *ast.CallExpr:
		if id, ok := x.Fun.(*ast.Ident); ok && len(x.Args) == 1 {
			a, _, err := t.term(x.Args[0])
			if err != nil {
				return "", 0, err
			}
			if b, ok := uintBits[id.Name]; ok {
				return fmt.Sprintf("(%s %% %d)", a, 1<<uint(b)), b, nil // overflow of 1<<64 not needed: uint64(e) of smaller e
			}
			if id.Name == "int" {
				return a, 0, nil
			}
		}
		return "", 0, fmt.Errorf("call %s", exprText(e))
	case *ast.BinaryExpr:
		a, ba, err := t.term(x.X)
		if err != nil {
			return "", 0, err
		}
		b, bb, err := t.term(x.Y)
		if err != nil {
			return "", 0, err
		}
		bits := ba
		if bits == 0 {
			bits = bb
		}
		wrap := func(s string) string {
			if bits > 0 && bits < 64 {
				return fmt.Sprintf("(%s %% %d)", s, 1<<uint(bits))
			}
			if bits == 64 {
				return fmt.Sprintf("(%s %% 18446744073709551616)", s)
			}
			return s
		}
		switch x.Op {
		case token.REM:
			return fmt.Sprintf("(%s %% %s)", a, b), bits, nil
		case token.ADD:
			return wrap(fmt.Sprintf("(%s + %s)", a, b)), bits, nil
		case token.MUL:
			return wrap(fmt.Sprintf("(%s * %s)", a, b)), bits, nil
		case token.AND:
			return fmt.Sprintf("(Nat.land %s %s)", a, b), bits, nil
		case token.SHR:
			return fmt.Sprintf("(%s >>> %s)", a, b), bits, nil
		case token.SHL:
			return wrap(fmt.Sprintf("(%s <<< %s)", a, b)), bits, nil
		}
		return "", 0, fmt.Errorf("operator %s", x.Op)
	}
	return "", 0, fmt.Errorf("expression %T", e)
}

// cond translates a comparison to a Lean Bool term.
func (t *tr) cond(e ast.Expr) (string, error) {
	b, ok := e.(*ast.BinaryExpr)
	if !ok {
		return "", fmt.Errorf("condition %s", exprText(e))
	}
	x, _, err := t.term(b.X)
	if err != nil {
		return "", err
	}
	y, _, err := t.term(b.Y)
	if err != nil {
		return "", err
	}
	switch b.Op {
	case token.EQL:
		return fmt.Sprintf("decide (%s = %s)", x, y), nil
	case token.NEQ:
		return fmt.Sprintf("decide (%s ≠ %s)", x, y), nil
	case token.GTR:
		return fmt.Sprintf("decide (%s > %s)", x, y), nil
	case token.GEQ:
		return fmt.Sprintf("decide (%s ≥ %s)", x, y), nil
	case token.LSS:
		return fmt.Sprintf("decide (%s < %s)", x, y), nil
	case token.LEQ:
		return fmt.Sprintf("decide (%s ≤ %s)", x, y), nil
	}
	return "", fmt.Errorf("comparison %s", b.Op)
}

type orderSite struct {
	method, variable, operand string
	form                      string
}

type wireRow struct {
	method                   string
	wire, link               string // variable (or literal) stored to buf.B[6] / passed to send as link order
	wireOperand, linkOperand string
	keepReset                bool
}

func isConnMethod(fd *ast.FuncDecl) bool {
	if fd.Recv == nil || len(fd.Recv.List) != 1 {
		return false
	}
	if st, ok := fd.Recv.List[0].Type.(*ast.StarExpr); ok {
		if id, ok := st.X.(*ast.Ident); ok && id.Name == "connection" {
			return true
		}
	}
	return false
}

func genArith() (string, error) {
	fset := token.NewFileSet()
	f, err := parser.ParseFile(fset, filepath.Join(repo, "net/proto/connection.go"), nil, 0)
	if err != nil {
		return "", err
	}
	var sites []orderSite
	var wires []wireRow
	forms := map[string]int{} // id-dependent forms
	var formList []string
	var sendFn, serveFn *ast.FuncDecl
	for _, d := range f.Decls {
		fd, ok := d.(*ast.FuncDecl)
		if !ok || !isConnMethod(fd) || fd.Body == nil {
			continue
		}
		switch fd.Name.Name {
		case "send":
			sendFn = fd
		case "serve":
			serveFn = fd
		}
		// definitions of order / orderPeer, in source order; a wire row is closed at each call of send/sendAny
		defs := map[string]string{} // variable -> operand text of its latest definition
		var row wireRow
		row.method = fd.Name.Name
		nrow := 0
		var walkErr error
		ast.Inspect(fd.Body, func(n ast.Node) bool {
			switch s := n.(type) {
			case *ast.AssignStmt:
				if len(s.Lhs) != 1 || len(s.Rhs) != 1 {
					return true
				}
				lhs := exprText(s.Lhs[0])
				if (lhs == "order" || lhs == "orderPeer") && s.Tok == token.DEFINE {
					t := &tr{}
					term, _, err := t.term(s.Rhs[0])
					if err != nil {
						walkErr = fmt.Errorf("%s: %s := %s: %v", fd.Name.Name, lhs, exprText(s.Rhs[0]), err)
						return false
					}
					operand := "0"
					if len(t.free) == 1 {
						operand = t.free[0]
					} else if len(t.free) > 1 {
						walkErr = fmt.Errorf("%s: %s depends on several operands: %v", fd.Name.Name, lhs, t.free)
						return false
					}
					if fd.Name.Name == "serve" { // the receiver's `order := int(buf.B[6])` is not a sender site
						return true
					}
					sites = append(sites, orderSite{fd.Name.Name, lhs, operand, term})
					if len(t.free) == 1 {
						if _, ok := forms[term]; !ok {
							forms[term] = len(formList)
							formList = append(formList, term)
						}
					}
					defs[lhs] = operand
				}
				if (lhs == "order" || lhs == "orderPeer") && s.Tok == token.ASSIGN {
					// the KeepNetworkOrder reset: must assign the constant 0
					t := &tr{}
					term, _, err := t.term(s.Rhs[0])
					if err != nil || len(t.free) != 0 {
						walkErr = fmt.Errorf("%s: re-assignment %s = %s is not a constant", fd.Name.Name, lhs, exprText(s.Rhs[0]))
						return false
					}
					_ = term
					row.keepReset = true
				}
				if lhs == "buf.B[6]" || lhs == "zbuf.B[6]" {
					if fd.Name.Name != "send" {
						row.wire = exprText(s.Rhs[0])
						row.wireOperand = defs[row.wire]
						if row.wireOperand == "" {
							row.wireOperand = row.wire
						}
					}
				}
			case *ast.CallExpr:
				fn := exprText(s.Fun)
				if fn == "c.send" && len(s.Args) == 3 && fd.Name.Name != "sendAny" {
					row.link = exprText(s.Args[1])
					row.linkOperand = defs[row.link]
					if row.linkOperand == "" {
						row.linkOperand = row.link
					}
					r := row
					if nrow > 0 {
						r.method = fmt.Sprintf("%s#%d", fd.Name.Name, nrow)
					}
					wires = append(wires, r)
					nrow++
					row = wireRow{method: fd.Name.Name}
				}
				if fn == "c.sendAny" && len(s.Args) == 4 {
					row.link = exprText(s.Args[1])
					row.linkOperand = defs[row.link]
					row.wire = exprText(s.Args[2])
					row.wireOperand = defs[row.wire]
					if row.wireOperand == "" {
						row.wireOperand = row.wire
					}
					r := row
					if nrow > 0 {
						r.method = fmt.Sprintf("%s#%d", fd.Name.Name, nrow)
					}
					wires = append(wires, r)
					nrow++
					row = wireRow{method: fd.Name.Name}
				}
			}
			return true
		})
		if walkErr != nil {
			return "", walkErr
		}
	}
	if len(sites) == 0 || len(formList) == 0 {
		return "", fmt.Errorf("no order/orderPeer definitions found in connection.go")
	}
	if sendFn == nil || serveFn == nil {
		return "", fmt.Errorf("send()/serve() not found")
	}

	// ---- send(): `if order == 0 { neworder := …; n := int(neworder) % l } else { n := int(order) % l }`
	var rrCond, idxRR, idx string
	ast.Inspect(sendFn.Body, func(n ast.Node) bool {
		is, ok := n.(*ast.IfStmt)
		if !ok || is.Else == nil {
			return true
		}
		findN := func(b ast.Stmt, vars map[string]string) string {
			res := ""
			ast.Inspect(b, func(m ast.Node) bool {
				as, ok := m.(*ast.AssignStmt)
				if ok && len(as.Lhs) == 1 && exprText(as.Lhs[0]) == "n" && len(as.Rhs) == 1 {
					t := &tr{vars: vars}
					if s, _, err := t.term(as.Rhs[0]); err == nil {
						res = s
					}
				}
				return true
			})
			return res
		}
		t := &tr{vars: map[string]string{"order": "order"}}
		c, err := t.cond(is.Cond)
		if err != nil {
			return true
		}
		a := findN(is.Body, map[string]string{"neworder": "neworder", "l": "l"})
		b := findN(is.Else, map[string]string{"order": "order", "l": "l"})
		if a != "" && b != "" {
			rrCond, idxRR, idx = c, a, b
			return false
		}
		return true
	})
	if rrCond == "" {
		return "", fmt.Errorf("send(): pool index selection not found")
	}

	// ---- serve(): `qN := recvN % recvNQ; if order := int(buf.B[6]); order > 0 { qN = order % recvNQ }`
	var qDefault, qCond, qOrder string
	ast.Inspect(serveFn.Body, func(n ast.Node) bool {
		switch s := n.(type) {
		case *ast.AssignStmt:
			if len(s.Lhs) == 1 && exprText(s.Lhs[0]) == "qN" && s.Tok == token.DEFINE {
				t := &tr{vars: map[string]string{"recvN": "recvN", "recvNQ": "recvNQ"}}
				if x, _, err := t.term(s.Rhs[0]); err == nil {
					qDefault = x
				}
			}
		case *ast.IfStmt:
			init, ok := s.Init.(*ast.AssignStmt)
			if !ok || len(init.Lhs) != 1 || exprText(init.Lhs[0]) != "order" {
				return true
			}
			if exprText(init.Rhs[0]) != "int(buf.B[6])" {
				return true
			}
			t := &tr{vars: map[string]string{"order": "order", "recvNQ": "recvNQ"}}
			c, err := t.cond(s.Cond)
			if err != nil {
				return true
			}
			for _, st := range s.Body.List {
				if as, ok := st.(*ast.AssignStmt); ok && len(as.Lhs) == 1 && exprText(as.Lhs[0]) == "qN" {
					if x, _, err := t.term(as.Rhs[0]); err == nil {
						qCond, qOrder = c, x
					}
				}
			}
		}
		return true
	})
	if qDefault == "" || qCond == "" {
		return "", fmt.Errorf("serve(): receive-queue index selection not found")
	}

	// ---- enp.go NewConnection: number of receive queues
	f2, err := parser.ParseFile(fset, filepath.Join(repo, "net/proto/enp.go"), nil, 0)
	if err != nil {
		return "", err
	}
	recvQ := ""
	ast.Inspect(f2, func(n ast.Node) bool {
		fs, ok := n.(*ast.ForStmt)
		if !ok || fs.Cond == nil {
			return true
		}
		// the loop whose body appends to conn.recvQueues
		hit := false
		ast.Inspect(fs.Body, func(m ast.Node) bool {
			if as, ok := m.(*ast.AssignStmt); ok && len(as.Lhs) == 1 && strings.HasSuffix(exprText(as.Lhs[0]), "recvQueues") {
				hit = true
			}
			return true
		})
		if !hit {
			return true
		}
		if be, ok := fs.Cond.(*ast.BinaryExpr); ok && be.Op == token.LSS {
			t := &tr{vars: map[string]string{"opts.PoolSize": "poolSize"}}
			if x, _, err := t.term(be.Y); err == nil {
				recvQ = x
			}
		}
		return true
	})
	if recvQ == "" {
		return "", fmt.Errorf("enp.go: receive queue count not found")
	}

	// ---- emit
	var sb strings.Builder
	sb.WriteString("namespace ErgoVerif.Gen.Arith\n\n")
	sb.WriteString("structure Site where\n  method : String\n  var : String\n  operand : String\n  form : Nat\nderiving Repr, DecidableEq\n\n")
	sb.WriteString("structure Wire where\n  method : String\n  wire : String\n  link : String\n  wireOperand : String\n  linkOperand : String\n  keepReset : Bool\nderiving Repr, DecidableEq\n\n")
	fmt.Fprintf(&sb, "/-- number of distinct id-dependent expressions among the `order :=` / `orderPeer :=` definitions -/\ndef idForms : Nat := %d\n\n", len(formList))
	for i, fm := range formList {
		fmt.Fprintf(&sb, "/-- form %d (Go semantics in Nat: uintN(e) = e %% 2^N) -/\ndef orderForm%d (x : Nat) : Nat := %s\n", i+1, i+1, fm)
	}
	sb.WriteString("\n/-- the order byte as a function of the id it is derived from (form 1) -/\ndef orderByte (x : Nat) : Nat := orderForm1 x\n\n")
	sb.WriteString("/-- all definitions of `order` / `orderPeer` in methods of *connection; form 0 = a constant (explicit round robin) -/\ndef orderSites : List Site := [\n")
	for i, s := range sites {
		fi := 0
		if s.operand != "0" {
			fi = forms[s.form] + 1
		} else if s.form != "(0 % 256)" {
			return "", fmt.Errorf("%s: constant order definition %q is not 0", s.method, s.form)
		}
		sep := ","
		if i == len(sites)-1 {
			sep = ""
		}
		fmt.Fprintf(&sb, "  ⟨%q, %q, %q, %d⟩%s\n", s.method, s.variable, s.operand, fi, sep)
	}
	sb.WriteString("]\n\n")
	sb.WriteString("/-- per send site: the value stored into buf.B[6] (wire), the value handed to send() (link), where they come from -/\ndef wireTable : List Wire := [\n")
	sort.SliceStable(wires, func(i, j int) bool { return false })
	for i, w := range wires {
		sep := ","
		if i == len(wires)-1 {
			sep = ""
		}
		fmt.Fprintf(&sb, "  ⟨%q, %q, %q, %q, %q, %v⟩%s\n", w.method, w.wire, w.link, w.wireOperand, w.linkOperand, w.keepReset, sep)
	}
	sb.WriteString("]\n\n")
	fmt.Fprintf(&sb, "/-- send(): the condition under which the link is chosen round robin -/\ndef roundRobin (order : Nat) : Bool := %s\n", rrCond)
	fmt.Fprintf(&sb, "/-- send(): pool index for an ordered frame -/\ndef poolIndex (order l : Nat) : Nat := %s\n", idx)
	fmt.Fprintf(&sb, "/-- send(): pool index for a round-robin frame (neworder = the incremented counter) -/\ndef poolIndexRR (neworder l : Nat) : Nat := %s\n", idxRR)
	fmt.Fprintf(&sb, "/-- serve(): receive queue for a frame with wire order byte `order`, the link's running frame count `recvN` -/\ndef queueIndex (order recvN recvNQ : Nat) : Nat := if %s then %s else %s\n", qCond, qOrder, qDefault)
	fmt.Fprintf(&sb, "/-- NewConnection: number of receive queues -/\ndef recvQueues (poolSize : Nat) : Nat := %s\n", recvQ)
	sb.WriteString("def extracted : Bool := true\n\nend ErgoVerif.Gen.Arith\n")
	facts.Values["arith.orderSites"] = len(sites)
	facts.Values["arith.idForms"] = formList
	facts.Values["arith.wireRows"] = len(wires)
	return sb.String(), nil
}

import ErgoVerif.Model.Perm
/-! helper lemmas about the Go-map model and one step of each table operation -/
namespace ErgoVerif.Perm

namespace NodeMap

theorem lookup_filter_ne (m : NodeMap) (k k' : Nat) :
    (m.filter (fun e => e.1 != k)).lookup k' = if k' = k then none else m.lookup k' := by
  induction m with
  | nil => simp
  | cons e m ih =>
    obtain ⟨a, b⟩ := e
    by_cases hak : a = k
    · subst hak
      simp only [List.filter_cons, bne_self_eq_false, Bool.false_eq_true, ↓reduceIte, ih]
      by_cases h : k' = a
      · simp [h]
      · simp only [h, ↓reduceIte, List.lookup_cons]
        have : (k' == a) = false := by simpa using h
        simp [this]
    · have hne : (a != k) = true := by simpa using hak
      simp only [List.filter_cons, hne, ↓reduceIte, List.lookup_cons, ih]
      by_cases h : k' = a
      · subst h; simp [hak]
      · have : (k' == a) = false := by simpa using h
        simp [this]

theorem get_nil (k : Nat) : get [] k = false := by simp [get]

theorem get_set (m : NodeMap) (k k' : Nat) (v : Bool) :
    (m.set k v).get k' = if k' = k then v else m.get k' := by
  unfold get set
  by_cases h : k' = k
  · subst h; simp
  · have : (k' == k) = false := by simpa using h
    simp [List.lookup_cons, this, lookup_filter_ne, h]

theorem get_del (m : NodeMap) (k k' : Nat) :
    (m.del k).get k' = if k' = k then false else m.get k' := by
  unfold get del
  rw [lookup_filter_ne]
  by_cases h : k' = k <;> simp [h]

theorem get_setAll (m : NodeMap) (ks : List Nat) (k' : Nat) (v : Bool) :
    (m.setAll ks v).get k' = if k' ∈ ks then v else m.get k' := by
  unfold setAll
  induction ks generalizing m with
  | nil => simp
  | cons k ks ih =>
    simp only [List.foldl_cons, ih, get_set, List.mem_cons]
    by_cases h1 : k' ∈ ks
    · simp [h1]
    · by_cases h2 : k' = k <;> simp [h1, h2]

theorem set_length_pos (m : NodeMap) (k : Nat) (v : Bool) : 0 < (m.set k v).length := by
  simp [set]

theorem setAll_length_pos (m : NodeMap) (ks : List Nat) (v : Bool) (h : ks ≠ []) :
    0 < (m.setAll ks v).length := by
  unfold setAll
  induction ks generalizing m with
  | nil => exact absurd rfl h
  | cons k ks ih =>
    simp only [List.foldl_cons]
    cases ks with
    | nil => simpa using set_length_pos m k v
    | cons k2 ks2 => exact ih (m.set k v) (by simp)

theorem get_true_length_pos (m : NodeMap) (k : Nat) (h : m.get k = true) : 0 < m.length := by
  cases m with
  | nil => simp [get] at h
  | cons e m => simp

theorem get_true_allows (m : NodeMap) (k : Nat) (h : m.get k = true) : m.allows k = true := by
  unfold allows
  simp [get_true_length_pos m k h, h]

theorem allows_nil (k : Nat) : allows [] k = true := by simp [allows]

/-- after `setAll ks v` with a non-empty `ks` the lookup is the plain map access -/
theorem allows_setAll (m : NodeMap) (ks : List Nat) (v : Bool) (k : Nat) (h : ks ≠ []) :
    (m.setAll ks v).allows k = if k ∈ ks then v else m.get k := by
  unfold allows
  simp [setAll_length_pos m ks v h, get_setAll]

end NodeMap

theorem upd_same {α : Type} (f : Nat → Option α) (k : Nat) (v : Option α) : upd f k v k = v := by
  simp [upd]

theorem upd_other {α : Type} (f : Nat → Option α) (k k' : Nat) (v : Option α) (h : k' ≠ k) :
    upd f k v k' = f k' := by
  simp [upd, h]

theorem covers_iff (ns : List Nat) (p : Nat) : covers ns p = true ↔ ns = [] ∨ p ∈ ns := by
  simp [covers, List.isEmpty_iff]

theorem not_covers (ns : List Nat) (p : Nat) (h : covers ns p ≠ true) : ns ≠ [] ∧ p ∉ ns := by
  rw [Ne, covers_iff] at h
  exact ⟨fun a => h (Or.inl a), fun a => h (Or.inr a)⟩

def allowedSpawn (s : St) (name peer : Nat) : Prop := (getEnabledSpawn s name peer).1 = .ok
def allowedApp (s : St) (name peer : Nat) : Prop := isEnabledApp s name peer = .ok

instance (s : St) (n p : Nat) : Decidable (allowedSpawn s n p) := by unfold allowedSpawn; infer_instance
instance (s : St) (n p : Nat) : Decidable (allowedApp s n p) := by unfold allowedApp; infer_instance

theorem allowedSpawn_iff (s : St) (name peer : Nat) :
    allowedSpawn s name peer ↔ ∃ e, s.spawn name = some e ∧ e.nodes.allows peer = true := by
  unfold allowedSpawn getEnabledSpawn
  cases h : s.spawn name with
  | none => simp
  | some e => by_cases h2 : e.nodes.allows peer = true <;> simp [h2]

theorem allowedApp_iff (s : St) (name peer : Nat) :
    allowedApp s name peer ↔ ∃ m, s.app name = some m ∧ NodeMap.allows m peer = true := by
  unfold allowedApp isEnabledApp
  cases h : s.app name with
  | none => simp
  | some m => by_cases h2 : NodeMap.allows m peer = true <;> simp [h2]

end ErgoVerif.Perm

package main

// K3 — controlled-schedule execution of the real node.
//
// Every goroutine that reaches a lib.VerifPoint concerning the target parks there; the controller
// releases exactly one parked goroutine at a time and waits until it parks again or finishes (plus
// the goroutine it spawned, when it was released at a "...:go" point). The sequence of
// (thread, from-label, to-label) is the schedule; it is deterministic given the choices.

import (
	"bytes"
	"fmt"
	"runtime"
	"strconv"
	"strings"
	"sync"
	"time"

	"ergo.services/ergo/gen"
	"ergo.services/ergo/lib"
)

func gid() uint64 {
	b := make([]byte, 64)
	b = b[:runtime.Stack(b, false)]
	b = bytes.TrimPrefix(b, []byte("goroutine "))
	b = b[:bytes.IndexByte(b, ' ')]
	n, _ := strconv.ParseUint(string(b), 10, 64)
	return n
}

type k3thread struct {
	name   string
	wake   chan struct{}
	label  string // label at which it is parked
	first  string // first label it ever parked at (identifies its class)
	parked bool
	done   bool
	anon   bool
	parks  int // number of times it parked
	seenAt int // park counter at the last release: events with n <= seenAt are stale
}

type k3event struct {
	t    *k3thread
	done bool
	n    int // the thread's park counter when the event was produced
}

type K3Stuck struct{ What string }

func (e K3Stuck) Error() string { return "k3 stuck: " + e.What }

type Ctl struct {
	mu         sync.Mutex
	on         bool
	targetName gen.Atom
	queues     map[any]bool
	byGid      map[uint64]*k3thread
	threads    []*k3thread
	events     chan k3event
	anon       int
	Trace      []string
	timeout    time.Duration
	wantUnregister bool
}

type k3named interface{ Name() gen.Atom }

var k3mu sync.Mutex // one controller at a time owns the global hook

func NewCtl(target gen.Atom) *Ctl {
	c := &Ctl{byGid: map[uint64]*k3thread{}, events: make(chan k3event, 4096), targetName: target,
		queues: map[any]bool{}, timeout: 5 * time.Second}
	lib.VerifHandler = c.point
	lib.VerifDoneHandler = c.doneHook
	return c
}

func (c *Ctl) Close() {
	c.mu.Lock()
	c.on = false
	c.mu.Unlock()
	lib.VerifHandler = nil
	lib.VerifDoneHandler = nil
}

func (c *Ctl) On()  { c.mu.Lock(); c.on = true; c.mu.Unlock() }
func (c *Ctl) Off() { c.mu.Lock(); c.on = false; c.mu.Unlock() }

// AddQueue registers a mailbox queue of the target (mpsc hooks carry the queue, not the process).
func (c *Ctl) AddQueue(q any) { c.mu.Lock(); c.queues[q] = true; c.mu.Unlock() }

func (c *Ctl) point(obj any, label string) {
	c.mu.Lock()
	if !c.on {
		c.mu.Unlock()
		return
	}
	if strings.HasPrefix(label, "unregister:") && !c.wantUnregister {
		// yield point of the supervisor harness (C08): transparent for the other scenarios
		c.mu.Unlock()
		return
	}
	if obj != nil {
		if p, ok := obj.(k3named); ok {
			if p.Name() != c.targetName {
				c.mu.Unlock()
				return
			}
		} else if !c.queues[obj] {
			c.mu.Unlock()
			return
		}
	}
	g := gid()
	t := c.byGid[g]
	if t == nil {
		c.anon++
		t = &k3thread{name: fmt.Sprintf("G%d", c.anon), wake: make(chan struct{}), anon: true}
		c.byGid[g] = t
		c.threads = append(c.threads, t)
	}
	if t.first == "" {
		t.first = label
	}
	t.label = label
	t.parked = true
	t.parks++
	n := t.parks
	c.mu.Unlock()
	c.events <- k3event{t: t, n: n}
	<-t.wake
}

// Point is called by puppet callbacks (no object filter).
func (c *Ctl) Point(label string) { c.point(nil, label) }

func (c *Ctl) doneHook() {
	c.mu.Lock()
	if !c.on {
		c.mu.Unlock()
		return
	}
	t := c.byGid[gid()]
	if t != nil {
		t.done = true
		t.parked = false
	}
	c.mu.Unlock()
	if t != nil {
		c.events <- k3event{t: t, done: true}
	}
}

// Start launches a harness thread and waits until it parks or finishes.
func (c *Ctl) Start(name string, fn func()) (to string, err error) {
	t := &k3thread{name: name, wake: make(chan struct{})}
	c.mu.Lock()
	c.threads = append(c.threads, t)
	c.mu.Unlock()
	ready := make(chan struct{})
	go func() {
		c.mu.Lock()
		c.byGid[gid()] = t
		c.mu.Unlock()
		close(ready)
		fn()
		c.doneHook()
	}()
	<-ready
	if _, err := c.waitFor(t, 0); err != nil {
		return "", err
	}
	to = "done"
	if !t.done {
		to = t.label
	}
	c.Trace = append(c.Trace, fmt.Sprintf("%s:start->%s", name, to))
	return to, nil
}

func (c *Ctl) waitFor(t *k3thread, spawns int) ([]*k3thread, error) {
	got := t == nil
	var fresh []*k3thread
	deadline := time.After(c.timeout)
	for !got || spawns > 0 {
		select {
		case e := <-c.events:
			if e.t == t {
				if e.done || e.n > t.seenAt {
					got = true
				}
				// else: a stale event of an earlier park of this thread
			} else if !e.done {
				if e.n > e.t.seenAt {
					fresh = append(fresh, e.t)
					spawns--
				}
			}
		case <-deadline:
			return fresh, K3Stuck{fmt.Sprintf("timeout waiting for %v (spawns outstanding %d); trace tail %v", tname(t), spawns, tail(c.Trace, 12))}
		}
	}
	// drain events of unexpected extra parks without blocking
	for {
		select {
		case e := <-c.events:
			if !e.done && e.t != t {
				fresh = append(fresh, e.t)
			}
		default:
			return fresh, nil
		}
	}
}

func tname(t *k3thread) string {
	if t == nil {
		return "<nil>"
	}
	return t.name + "@" + t.label
}

func tail(s []string, n int) []string {
	if len(s) > n {
		return s[len(s)-n:]
	}
	return s
}

// Drain discards pending park/done events (after the caller synchronised by other means, e.g. polling Parked()).
func (c *Ctl) Drain() {
	for {
		select {
		case <-c.events:
		default:
			return
		}
	}
}

func (c *Ctl) Find(name string) *k3thread {
	c.mu.Lock()
	defer c.mu.Unlock()
	for _, t := range c.threads {
		if t.name == name {
			return t
		}
	}
	return nil
}

// StepAssumeDone is Step for goroutines that end without announcing it (no VerifDone on their path): if the thread
// neither parks again nor reports its end within `grace`, it is taken to have finished.
// goroutineExists: is a goroutine with this id still alive (a full stack dump names every live goroutine)
func goroutineExists(id uint64) bool {
	buf := make([]byte, 1<<20)
	for {
		n := runtime.Stack(buf, true)
		if n < len(buf) {
			buf = buf[:n]
			break
		}
		buf = make([]byte, 2*len(buf))
	}
	return bytes.Contains(buf, []byte(fmt.Sprintf("goroutine %d [", id)))
}

func (c *Ctl) gidOf(t *k3thread) (uint64, bool) {
	c.mu.Lock()
	defer c.mu.Unlock()
	for g, x := range c.byGid {
		if x == t {
			return g, true
		}
	}
	return 0, false
}

// StepAssumeDone releases a thread that may end without announcing it (a goroutine the hooks do not bracket with
// VerifDone). It is taken for finished when, after the grace period, it has not parked again AND its goroutine no longer
// exists; a goroutine that is merely slow (loaded machine) is waited for.
func (c *Ctl) StepAssumeDone(name string, grace time.Duration) (from, to string, fresh []*k3thread, err error) {
	old := c.timeout
	c.timeout = grace
	from, to, fresh, err = c.Step(name)
	c.timeout = old
	if err != nil {
		if _, ok := err.(K3Stuck); ok {
			if t := c.Find(name); t != nil {
				g, known := c.gidOf(t)
				deadline := time.Now().Add(10 * time.Second)
				for {
					c.mu.Lock()
					still := t.parked
					c.mu.Unlock()
					if still {
						// it parked after all (late): consume its event and report the step as an ordinary one
						if more, e2 := c.waitFor(t, 0); e2 == nil {
							fresh = append(fresh, more...)
						}
						c.Trace = append(c.Trace, fmt.Sprintf("%s:%s->%s", name, from, t.label))
						return from, t.label, fresh, nil
					}
					if !known || !goroutineExists(g) || time.Now().After(deadline) {
						c.mu.Lock()
						t.done = true
						c.mu.Unlock()
						c.Trace = append(c.Trace, fmt.Sprintf("%s:%s->done(assumed)", name, from))
						return from, "done", fresh, nil
					}
					time.Sleep(time.Millisecond)
				}
			}
		}
	}
	return
}

func (c *Ctl) Step(name string) (from, to string, fresh []*k3thread, err error) {
	t := c.Find(name)
	if t == nil || !t.parked {
		return "", "", nil, K3Stuck{"not parked: " + name}
	}
	spawns := 0
	if len(t.label) > 3 && t.label[len(t.label)-3:] == ":go" {
		spawns = 1
	}
	from = t.label
	c.mu.Lock()
	t.parked = false
	t.seenAt = t.parks
	c.mu.Unlock()
	t.wake <- struct{}{}
	fresh, err = c.waitFor(t, spawns)
	if err != nil {
		return from, "", fresh, err
	}
	to = "done"
	if !t.done {
		to = t.label
	}
	c.Trace = append(c.Trace, fmt.Sprintf("%s:%s->%s", name, from, to))
	return from, to, fresh, nil
}

func (c *Ctl) Parked() []*k3thread {
	c.mu.Lock()
	defer c.mu.Unlock()
	var r []*k3thread
	for _, t := range c.threads {
		if t.parked {
			r = append(r, t)
		}
	}
	return r
}

// ReleaseAll lets every parked thread run freely (used to clean up after a schedule).
func (c *Ctl) ReleaseAll() {
	c.Off()
	c.mu.Lock()
	ts := append([]*k3thread(nil), c.threads...)
	c.mu.Unlock()
	for _, t := range ts {
		c.mu.Lock()
		p := t.parked
		t.parked = false
		c.mu.Unlock()
		if p {
			select {
			case t.wake <- struct{}{}:
			case <-time.After(time.Second):
			}
		}
	}
}

// Census counts parked threads per label.
func (c *Ctl) Census() map[string]int {
	m := map[string]int{}
	for _, t := range c.Parked() {
		m[t.label]++
	}
	return m
}

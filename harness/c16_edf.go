package main

// C16, EDF part — hostile input safety of edf.Decode.
//
// Malformed streams are mutations of valid encodings produced by the C11 generator (truncation at every byte,
// inflated/deflated 2- and 4-byte windows, tag substitution, byte flips, insert/delete), hand-built type
// descriptors and cache-id packets, and random strings behind a valid tag. For every packet:
//   K1  Edf.dec ~ edf.Decode          outcome class and, on success, the exact text of value and rest
//   K1  Edf.alloc ~ allocation        the model's allocation measure predicts which packets allocate beyond the bound
//   oracles on the implementation alone: no escaping panic / crash, no hang, allocation bounded by
//   64 KiB + 4096·len(packet), successful decodes re-encode to bytes that decode to the same value.
// Packets that may allocate hugely or spin (array descriptors, registered-map counts) are decoded only in a
// child process (the harness binary re-executed with VERIF_EDF_CHILD=1) under GOMEMLIMIT and RLIMIT_AS.

import (
	"bufio"
	"bytes"
	"encoding/binary"
	"encoding/hex"
	"fmt"
	"io"
	"os"
	"os/exec"
	"reflect"
	"sort"
	"runtime"
	"strconv"
	"strings"
	"sync"
	"sync/atomic"
	"syscall"
	"time"
)

func init() {
	if os.Getenv("VERIF_EDF_CHILD") != "" {
		edfRegister()
		runEdfChild()
		os.Exit(0)
	}
	c16parts = append(c16parts, c16Edf)
}

// configurations of the C16 part: consistent caches (re-encode oracle applies) and a decoding side without caches
func edfConfigsC16() []*edfCfg {
	edfRegister()
	cs := []*edfCfg{
		{Name: "off"},
		{Name: "all", Atom: true, Reg: true, Err: true, Cache: true},
		{Name: "enc-all/dec-no-caches", Atom: true, Reg: true, Err: true, NoDecCaches: true},
	}
	for _, c := range cs {
		c.build()
	}
	return cs
}

// allocBound: the data allocation a packet of n bytes may cause (the model's allocation measure is held against it)
func allocBound(n int) uint64 { return 64<<10 + 4096*uint64(n) }

// goAllocBound: the bound on what runtime.MemStats.TotalAlloc may grow by while edf.Decode handles one packet. The
// constant leaves room for reflect building the types of a descriptor the process has not seen before (measured:
// up to ~250 KiB for a map type over composite types; built once, then cached by reflect for good).
func goAllocBound(n int) uint64 { return 512<<10 + 4096*uint64(n) }

// ---------------------------------------------------------------------------
// pre-filter: what must not be decoded in-process / shown to the model
// ---------------------------------------------------------------------------

type pktShape struct {
	arrMax  uint64 // largest count behind an edtArray byte inside a descriptor that fits the packet
	arrProd uint64 // largest product, over the descriptors, of the counts > 1 (saturating)
	regCnt  uint64 // largest 4-byte value behind an edtReg byte (a registered slice/map count, or a cache id + data)
	nest    int    // most composite tags (slice/array/map) in one descriptor
}

// shapeOf: array types only arise from a descriptor (edtType, 2-byte length, fold) that fits into the packet; the
// decoder may meet one wherever it reads a type tag, so every position is considered.
func shapeOf(p []byte) pktShape {
	s := pktShape{arrProd: 1}
	for i := 0; i+3 <= len(p); i++ {
		if p[i] != 0x82 {
			continue
		}
		n := int(binary.BigEndian.Uint16(p[i+1:]))
		if i+3+n > len(p) {
			continue
		}
		fold := p[i+3 : i+3+n]
		prod, nest := uint64(1), 0
		for j := range fold {
			switch fold[j] {
			case 0x9e:
				nest++
				if j+4 < len(fold) {
					c := uint64(binary.BigEndian.Uint32(fold[j+1:]))
					if c > s.arrMax {
						s.arrMax = c
					}
					if c > 1 && prod < 1<<40 {
						prod *= c
					}
				}
			case 0x9d, 0x9f:
				nest++
			}
		}
		if prod > s.arrProd {
			s.arrProd = prod
		}
		if nest > s.nest {
			s.nest = nest
		}
	}
	for i := 0; i+4 < len(p); i++ {
		if p[i] != 0x83 {
			continue
		}
		if p[i+1] < 0x10 && p[i+3] == '#' {
			continue // edtReg, a 2-byte name length, then the name: not a count
		}
		if c := uint64(binary.BigEndian.Uint32(p[i+1:])); c > s.regCnt {
			s.regCnt = c
		}
	}
	return s
}

// inProcessSafe: cheap and conservative. Array descriptors multiply: count × element size × (slice length <= len(p)).
func (s pktShape) inProcessSafe(n int) bool {
	if s.nest > 16 {
		return false // deep nesting: quadratic allocation (listed), observed in the child
	}
	if s.arrMax > 64 || s.arrProd > 4096 || (s.arrProd > 1 && s.arrProd*uint64(n) > 65536) {
		return false
	}
	if s.regCnt > 1<<20 {
		return false
	}
	return true
}

// listed: the packet may lie in a listed region (array descriptor with a count >= 2^20, 4-byte value > 2^20 behind
// edtReg). Only a few of those that turn out expensive are run per run; the witnesses cover the regions.
func (s pktShape) listed() bool { return s.arrProd >= 1<<20 || s.arrMax >= 1<<20 || s.regCnt > 1<<20 }

// ---------------------------------------------------------------------------
// child process
// ---------------------------------------------------------------------------

const edfHugeText = "HUGE"

// textTooBig: a decoded value whose text would be enormous (arrays of zero-width elements cost no input)
func textTooBig(v reflect.Value, budget *int) bool {
	if *budget < 0 {
		return true
	}
	switch v.Kind() {
	case reflect.Interface:
		if v.IsNil() {
			return false
		}
		return textTooBig(v.Elem(), budget)
	case reflect.Slice, reflect.Array:
		*budget -= v.Len()
		if *budget < 0 {
			return true
		}
		if v.Len() > 0 {
			k := v.Type().Elem().Kind()
			if k == reflect.Slice || k == reflect.Array || k == reflect.Map || k == reflect.Struct || k == reflect.Interface {
				for i := 0; i < v.Len(); i++ {
					if textTooBig(v.Index(i), budget) {
						return true
					}
				}
			}
		}
	case reflect.Map:
		it := v.MapRange()
		for it.Next() {
			*budget--
			if textTooBig(it.Key(), budget) || textTooBig(it.Value(), budget) {
				return true
			}
		}
	case reflect.Struct:
		if v.Type() == tTime {
			return false
		}
		for i := 0; i < v.NumField(); i++ {
			if v.Type().Field(i).IsExported() && textTooBig(v.Field(i), budget) {
				return true
			}
		}
	}
	return false
}

func safeDecText(v any, rest []byte, err error) string {
	if err == nil && v != nil {
		b := 200000
		if textTooBig(reflect.ValueOf(v), &b) {
			return edfHugeText
		}
	}
	return decText(v, rest, err)
}

func runEdfChild() {
	_ = syscall.Setrlimit(syscall.RLIMIT_AS, &syscall.Rlimit{Cur: 4 << 30, Max: 4 << 30})
	cfgs := map[string]*edfCfg{}
	for _, c := range edfConfigsC16() {
		cfgs[c.Name] = c
	}
	sc := bufio.NewScanner(os.Stdin)
	sc.Buffer(make([]byte, 1<<20), 1<<26)
	w := bufio.NewWriter(os.Stdout)
	var m0, m1 runtime.MemStats
	for sc.Scan() {
		f := strings.Fields(sc.Text())
		if len(f) != 2 {
			fmt.Fprintln(w, "bad\t0\t0\t0\t-\t-")
			w.Flush()
			continue
		}
		cfg := cfgs[f[0]]
		p, _ := hex.DecodeString(f[1])
		runtime.ReadMemStats(&m0)
		t0 := time.Now()
		v, rest, err, escaped := goDecode(p, cfg.Dec)
		el := time.Since(t0)
		runtime.ReadMemStats(&m1)
		status, text, re := "ok", "", "r0"
		switch {
		case escaped:
			status, text = "escaped", strconv.Quote(err.Error())
		case err != nil:
			status, text = "err", strconv.Quote(err.Error())
		default:
			text = safeDecText(v, rest, nil)
			if text != edfHugeText {
				re, _ = edfReencode(v, cfg)
			}
		}
		fmt.Fprintf(w, "%s\t%d\t%d\t%d\t%s\t%s\n", status, el.Microseconds(), m1.TotalAlloc-m0.TotalAlloc, m1.HeapSys, re, text)
		w.Flush()
		v, rest = nil, nil
		if m1.TotalAlloc-m0.TotalAlloc > 16<<20 {
			runtime.GC() // do not let the garbage of one packet be blamed on the next
		}
	}
}

// edfReencode: a decoded value must encode, and decode back to the same text ("r+"), under a configuration whose
// two sides are consistent. "r0" = not applicable (nil, times, ambiguous map keys, inconsistent configuration),
// "rz" = fails inside the listed zero-width region, "r-" = fails.
func edfReencode(v any, cfg *edfCfg) (string, string) {
	if v == nil || !cfg.faithful() {
		return "r0", ""
	}
	rv := reflect.ValueOf(v)
	var f edfFacts
	edfWalk(rv, 0, &f)
	if f.hasTime || keysAmbiguous(rv) {
		return "r0", ""
	}
	m := textMode{quiet32: true, errAs: cfg.expectedErr}
	want := "ok " + tyText(rv.Type()) + " " + valTextMode(rv, m) + " -"
	b, err := goEncode(v, cfg.Enc)
	if err != nil {
		return "r-", "Encode of the decoded value fails: " + err.Error()
	}
	v2, rest, err, _ := goDecode(b, cfg.Dec)
	var got string
	if err == nil && v2 != nil {
		rv2 := reflect.ValueOf(v2)
		got = "ok " + tyText(rv2.Type()) + " " + valTextMode(rv2, textMode{quiet32: true}) + " " + hexOrDash(rest)
	} else {
		got = decText(v2, rest, err)
	}
	if got == want {
		return "r+", ""
	}
	if f.zwNonEmpty {
		return "rz", "zero-width region"
	}
	d := "Decode(Encode(v)) = " + clip(got, 300) + " but v = " + clip(want, 300)
	if err != nil {
		d = "Decode(Encode(v)) fails: " + err.Error() + "; re-encoded " + clip(hex.EncodeToString(b), 200)
	}
	return "r-", d
}

// keysAmbiguous: the value holds a map whose keys the model's value algebra cannot tell apart the way Go does
// (float NaN / signed zero keys, distinct error values with equal text)
func keysAmbiguous(v reflect.Value) bool {
	switch v.Kind() {
	case reflect.Interface:
		if v.IsNil() {
			return false
		}
		return keysAmbiguous(v.Elem())
	case reflect.Slice, reflect.Array:
		if oneByteElem(v.Type().Elem()) {
			return false
		}
		for i := 0; i < v.Len(); i++ {
			if keysAmbiguous(v.Index(i)) {
				return true
			}
		}
	case reflect.Struct:
		if _, ok := edfRegByT[v.Type()]; !ok {
			return false
		}
		for i := 0; i < v.NumField(); i++ {
			if keysAmbiguous(v.Field(i)) {
				return true
			}
		}
	case reflect.Map:
		seen := map[string]bool{}
		it := v.MapRange()
		for it.Next() {
			ks := valTextMode(it.Key(), textMode{quiet32: true, errAs: func(e error) string { return "e" + e.Error() }})
			if seen[ks] || floatKeyOdd(it.Key()) {
				return true
			}
			seen[ks] = true
			if keysAmbiguous(it.Value()) {
				return true
			}
		}
	}
	return false
}

func floatKeyOdd(k reflect.Value) bool {
	switch k.Kind() {
	case reflect.Float32, reflect.Float64:
		f := k.Float()
		return f != f || f == 0
	case reflect.Interface:
		if k.IsNil() {
			return false
		}
		return floatKeyOdd(k.Elem())
	case reflect.Array:
		for i := 0; i < k.Len(); i++ {
			if floatKeyOdd(k.Index(i)) {
				return true
			}
		}
	}
	return false
}

// ---------------------------------------------------------------------------
// parent side of the child protocol
// ---------------------------------------------------------------------------

type c16Pkt struct {
	cfg  *edfCfg
	kind string
	p    []byte

	shape    pktShape
	safe     bool  // passes the byte-pattern pre-filter
	asked    bool  // the model was asked about this packet
	mAlloc   int64 // model's allocation measure (-1: not asked)
	mDec     string
	status   string // ok | err | escaped | died | timeout
	text     string // decText (ok) / error text (err)
	errStr   string
	us       int64
	alloc    uint64
	reenc    string
	reencWhy string
	stderr   string
}

// edfChildBatch: decode the packets in child processes. A child that dies or stalls is blamed on the packet in
// progress (confirmed by running that packet alone); the rest continues in a fresh child.
// abort (optional): asked before every (re)start; true = enough children have died in this run, leave the rest
func edfChildBatch(pkts []*c16Pkt, stall time.Duration, r *Result, stop func(*c16Pkt) bool, abort func(culpritFound bool) bool) {
	rem := pkts
	for len(rem) > 0 {
		if abort != nil && abort(false) {
			for _, k := range rem {
				k.status = "skipped"
			}
			r.CountN("c16.child.not-run(too many child deaths in this run)", len(rem))
			return
		}
		n, how, errTail := edfChildOnce(rem, stall, stop)
		r.Count("c16.child.processes")
		if how == "" {
			return
		}
		if how == "stopped" {
			for _, k := range rem[n:] {
				k.status = "skipped"
			}
			return
		}
		culprit := rem[n]
		if stop != nil && stop(culprit) {
			// (the callback counts) an expensive packet: blame it without a second run
			culprit.status, culprit.stderr = how, errTail
			r.Count("c16.child." + how)
			for _, k := range rem[n+1:] {
				k.status = "skipped"
			}
			return
		}
		if n > 0 && how == "died" {
			// confirm alone: earlier packets of the batch may have left the heap large
			m, how2, tail2 := edfChildOnce([]*c16Pkt{culprit}, stall, nil)
			r.Count("c16.child.processes")
			if how2 == "" && m == 1 {
				r.Count("c16.child.death-not-reproduced-alone")
				rem = rem[n+1:]
				continue
			}
			how, errTail = how2, tail2
		}
		culprit.status, culprit.stderr = how, errTail
		r.Count("c16.child." + how)
		if abort != nil {
			abort(true)
		}
		rem = rem[n+1:]
	}
}

// fatalLine: the line of a dead child's stderr that says why it died
func fatalLine(stderr string) string {
	first := ""
	for _, l := range strings.Split(stderr, "\n") {
		l = strings.TrimSpace(l)
		if l == "" {
			continue
		}
		if first == "" {
			first = l
		}
		if strings.HasPrefix(l, "fatal error:") || strings.HasPrefix(l, "panic:") || strings.HasPrefix(l, "SIG") || strings.HasPrefix(l, "signal:") {
			if first != l {
				return l + " (" + clip(first, 160) + ")"
			}
			return l
		}
	}
	if first == "" {
		return "no message on stderr (killed)"
	}
	return clip(first, 200)
}

// edfChildOnce returns the number of packets answered and, if the child did not finish, why ("died"/"timeout")
func edfChildOnce(pkts []*c16Pkt, stall time.Duration, stop func(*c16Pkt) bool) (int, string, string) {
	exe, err := os.Executable()
	if err != nil {
		exe = os.Args[0]
	}
	cmd := exec.Command(exe)
	cmd.Env = append(os.Environ(), "VERIF_EDF_CHILD=1", "GOMEMLIMIT=512MiB", "GOTRACEBACK=single")
	var in bytes.Buffer
	for _, k := range pkts {
		in.WriteString(k.cfg.Name)
		in.WriteByte(' ')
		in.WriteString(hex.EncodeToString(k.p))
		in.WriteByte('\n')
	}
	cmd.Stdin = &in
	out, err := cmd.StdoutPipe()
	if err != nil {
		return 0, "died", err.Error()
	}
	var errb bytes.Buffer
	cmd.Stderr = &errb
	if err := cmd.Start(); err != nil {
		return 0, "died", err.Error()
	}
	lines := make(chan string, 64)
	go func() {
		rd := bufio.NewReaderSize(out, 1<<20)
		for {
			l, err := rd.ReadString('\n')
			if len(l) > 0 && strings.HasSuffix(l, "\n") {
				lines <- strings.TrimSuffix(l, "\n")
			}
			if err != nil {
				close(lines)
				return
			}
		}
	}()
	n := 0
	timer := time.NewTimer(stall)
	defer timer.Stop()
	for {
		select {
		case l, ok := <-lines:
			if !ok {
				_ = cmd.Wait()
				if n == len(pkts) {
					return n, "", ""
				}
				tail := errb.String()
				if len(tail) > 1500 {
					tail = tail[:1500]
				}
				return n, "died", tail
			}
			if n < len(pkts) {
				f := strings.SplitN(l, "\t", 6)
				if len(f) == 6 {
					k := pkts[n]
					k.status = f[0]
					k.us, _ = strconv.ParseInt(f[1], 10, 64)
					k.alloc, _ = strconv.ParseUint(f[2], 10, 64)
					k.reenc = f[4]
					if k.status == "ok" {
						k.text = f[5]
					} else {
						k.errStr, _ = strconv.Unquote(f[5])
					}
					if stop != nil && stop(k) {
						_ = cmd.Process.Kill()
						go func() {
							for range lines {
							}
						}()
						_ = cmd.Wait()
						return n + 1, "stopped", ""
					}
				}
				n++
			}
			if !timer.Stop() {
				select {
				case <-timer.C:
				default:
				}
			}
			timer.Reset(stall)
		case <-timer.C:
			_ = cmd.Process.Kill()
			go func() {
				for range lines {
				}
			}()
			_ = cmd.Wait()
			return n, "timeout", ""
		}
	}
}

// ---------------------------------------------------------------------------
// mutations
// ---------------------------------------------------------------------------

var edfTagBytes = []byte{130, 131, 132, 140, 141, 142, 143, 144, 145, 146, 147, 148, 149, 150, 151, 152, 153, 154, 155, 156, 157, 158, 159, 170, 171, 172, 173, 174, 175, 255}
var edfSpecialTags = []byte{130, 131, 132, 157, 158, 159, 255}
var edfIsTag = func() (t [256]bool) {
	for _, b := range edfTagBytes {
		t[b] = true
	}
	return
}()

func cloneWith(p []byte, off int, repl []byte) []byte {
	q := append([]byte(nil), p...)
	copy(q[off:], repl)
	return q
}

// mutate: the malformed packets derived from one valid encoding
func c16Mutate(c *Ctx, cfg *edfCfg, G []byte, add func(kind string, cfg *edfCfg, p []byte)) {
	rng := c.Rng
	thorough := c.Thorough()
	// truncation
	if len(G) <= 300 {
		for i := 0; i < len(G); i++ {
			add("trunc", cfg, G[:i])
		}
	} else {
		pos := map[int]bool{0: true, 1: true, 2: true, 3: true, len(G) - 1: true, len(G) - 2: true}
		for len(pos) < 48 {
			pos[rng.Intn(len(G))] = true
		}
		for i := 0; i < len(G); i++ {
			if pos[i] {
				add("trunc", cfg, G[:i])
			}
		}
	}
	// 2- and 4-byte windows
	offs := make([]int, 0, len(G))
	if len(G) <= 96 {
		for i := range G {
			offs = append(offs, i)
		}
	} else {
		for i := 0; i < 96; i++ {
			offs = append(offs, rng.Intn(len(G)))
		}
	}
	for _, o := range offs {
		if o+2 <= len(G) {
			n := binary.BigEndian.Uint16(G[o:])
			vals := []uint16{0xffff, 0xfffe, n + 1, n - 1, 0x7fff, 0x8000, 0x0fff, 0x1000, 0x00ff, 0x0100}
			k := 2
			if thorough {
				k = 5
			}
			for j := 0; j < k; j++ {
				var b [2]byte
				binary.BigEndian.PutUint16(b[:], vals[rng.Intn(len(vals))])
				add("window2", cfg, cloneWith(G, o, b[:]))
			}
		}
		if o+4 <= len(G) {
			n := binary.BigEndian.Uint32(G[o:])
			vals := []uint32{0xffffffff, 0xfffffffc, n + 1, n - 1, 0x7fff, 0x8000, 0x0fff, 0x1000, 0x00ff, 0x0100, 0xffff, 0x10000, 0x00100001}
			k := 2
			if thorough {
				k = 5
			}
			for j := 0; j < k; j++ {
				var b [4]byte
				binary.BigEndian.PutUint32(b[:], vals[rng.Intn(len(vals))])
				add("window4", cfg, cloneWith(G, o, b[:]))
			}
		}
	}
	// tags
	nt := 0
	for i, b := range G {
		if !edfIsTag[b] {
			continue
		}
		if nt++; nt > 40 {
			break
		}
		for _, t := range edfSpecialTags {
			if t != b {
				add("tag", cfg, cloneWith(G, i, []byte{t}))
			}
		}
		for j := 0; j < 3; j++ {
			t := edfTagBytes[rng.Intn(len(edfTagBytes))]
			if t != b {
				add("tag", cfg, cloneWith(G, i, []byte{t}))
			}
		}
	}
	// byte flips, insertions, deletions
	for j := 0; j < 12 && len(G) > 0; j++ {
		i := rng.Intn(len(G))
		add("flip", cfg, cloneWith(G, i, []byte{G[i] ^ byte(1<<uint(rng.Intn(8)))}))
	}
	for j := 0; j < 6 && len(G) > 1; j++ {
		i := rng.Intn(len(G))
		q := append(append([]byte(nil), G[:i]...), G[i+1:]...)
		add("delete", cfg, q)
		q = append(append(append([]byte(nil), G[:i]...), byte(rng.U64())), G[i:]...)
		add("insert", cfg, q)
	}
}

func be16b(n int) []byte { return []byte{byte(n >> 8), byte(n)} }
func be32b(n uint32) []byte {
	return []byte{byte(n >> 24), byte(n >> 16), byte(n >> 8), byte(n)}
}
func cat(bs ...[]byte) []byte {
	var o []byte
	for _, b := range bs {
		o = append(o, b...)
	}
	return o
}
func desc(fold []byte, body ...[]byte) []byte {
	return cat([]byte{0x82}, be16b(len(fold)), fold, cat(body...))
}
func regName(t reflect.Type) []byte {
	n := edfRegByT[t].Name
	return cat([]byte{0x83}, be16b(len(n)), []byte(n))
}

// c16HandBuilt: descriptors and cache-id packets written by hand
func c16HandBuilt(cfgs []*edfCfg, add func(kind string, cfg *edfCfg, p []byte)) {
	int8v := []byte{0, 0, 0, 0, 0, 0, 0, 7}
	sEmpty := regName(tSEmpty)
	arr0 := cat([]byte{0x9e}, be32b(0), []byte{0x96})
	for _, cfg := range cfgs {
		// unknown cache ids
		for _, id := range []int{256, 300, 999, 4352, 60000, 65535} {
			a := be16b(id)
			add("cache-id.atom", cfg, cat([]byte{0x8c}, a))
			add("cache-id.atom", cfg, cat([]byte{0xaa}, a, make([]byte, 16)))
			add("cache-id.atom", cfg, cat([]byte{0xab}, a, a))
			add("cache-id.atom", cfg, cat([]byte{0xab}, be16b(1), []byte{'x'}, a))
			add("cache-id.atom", cfg, cat([]byte{0xad}, a, be16b(0)))
			add("cache-id.atom", cfg, cat([]byte{0xae}, a, make([]byte, 32)))
			add("cache-id.atom", cfg, cat([]byte{0xac}, a, make([]byte, 32)))
			add("cache-id.atom", cfg, desc([]byte{0x9d, 0x8c}, []byte{0x9d}, be32b(2), a, a))
		}
		for _, id := range []int{4096, 4097, 5000, 60000, 65535, 4095, 0} {
			add("cache-id.reg", cfg, cat([]byte{0x83}, be16b(id)))
			add("cache-id.reg", cfg, cat([]byte{0x83}, be16b(id), make([]byte, 8)))
			add("cache-id.reg", cfg, desc(cat([]byte{0x9d, 0x83}, be16b(id)), []byte{0x9d}, be32b(0)))
			add("cache-id.reg", cfg, desc([]byte{0x9d, 0x84}, []byte{0x9d}, be32b(1), []byte{0x83}, be16b(id), make([]byte, 4)))
		}
		for id := range cfg.regD {
			add("cache-id.reg", cfg, cat([]byte{0x83}, be16b(int(id))))
			add("cache-id.reg", cfg, cat([]byte{0x83}, be16b(int(id)), []byte{0xff}))
			add("cache-id.reg", cfg, cat([]byte{0x83}, be16b(int(id)), make([]byte, 40)))
		}
		for _, id := range []int{32768, 32769, 40000, 65533, 65534, 65535, 32767, 0} {
			add("cache-id.err", cfg, cat([]byte{0x9c}, be16b(id)))
			add("cache-id.err", cfg, desc([]byte{0x9d, 0x9c}, []byte{0x9d}, be32b(2), be16b(id), be16b(id)))
			add("cache-id.err", cfg, desc([]byte{0x9d, 0x84}, []byte{0x9d}, be32b(1), []byte{0x9c}, be16b(id)))
		}
		// map with a slice key (reflect.MapOf panics), with an `any` key holding a slice (unhashable at run time)
		add("descriptor.map-slice-key", cfg, desc([]byte{0x9f, 0x9d, 0x96, 0x8d}, []byte{0x9f}, be32b(0)))
		add("descriptor.map-slice-key", cfg, desc([]byte{0x9f, 0x9f, 0x96, 0x96, 0x8d}, []byte{0xff}))
		add("descriptor.map-slice-key", cfg, desc([]byte{0x9f, 0x8e, 0x96}, []byte{0xff}))
		anySlice := desc([]byte{0x9d, 0x96}, []byte{0x9d}, be32b(0))
		add("descriptor.map-any-key-unhashable", cfg, desc([]byte{0x9f, 0x84, 0x96}, []byte{0x9f}, be32b(1), anySlice, int8v))
		add("descriptor.map-any-key-unhashable", cfg, desc([]byte{0x9f, 0x84, 0x96}, []byte{0x9f}, be32b(1), desc([]byte{0x9f, 0x96, 0x96}, []byte{0x9f}, be32b(0)), int8v))
		add("descriptor.map-any-key", cfg, desc([]byte{0x9f, 0x84, 0x96}, []byte{0x9f}, be32b(2), []byte{0x96}, int8v, int8v, []byte{0x8d, 0, 1, 'k'}, int8v))
		add("descriptor.map-any-key", cfg, desc([]byte{0x9f, 0x84, 0x96}, []byte{0x9f}, be32b(2), []byte{0xff}, int8v, []byte{0xff}, int8v))
		// arrays: counts × element types
		for _, n := range []uint32{0, 1, 2, 64, 1 << 16} {
			for ei, el := range [][]byte{{0x97}, arr0, sEmpty, {0x84}} {
				fold := cat([]byte{0x9e}, be32b(n), el)
				add("descriptor.array", cfg, desc(fold))
				add("descriptor.array", cfg, desc(fold, []byte{0}))
				if n <= 64 {
					add("descriptor.array", cfg, desc(fold, bytes.Repeat([]byte{0xff}, int(n))))
					add("descriptor.array", cfg, desc(fold, bytes.Repeat([]byte{0xff}, int(n)+3)))
					add("descriptor.array", cfg, desc(cat([]byte{0x9d}, fold), []byte{0x9d}, be32b(2), bytes.Repeat([]byte{0xff}, 2*int(n))))
				}
				_ = ei
			}
		}
		// huge counts over elements of size zero, nothing after the descriptor: the type is built, nothing is allocated,
		// the array decoder returns "end of data" at once (with a body it would iterate: listed, see the witnesses)
		for _, n := range []uint32{1 << 28, 0xffffffff} {
			for _, el := range [][]byte{arr0, sEmpty} {
				add("descriptor.array-huge-empty-body", cfg, desc(cat([]byte{0x9e}, be32b(n), el)))
			}
		}
		// nested arrays whose total size overflows (reflect.ArrayOf panics)
		big := be32b(0xffffffff)
		add("descriptor.array-overflow", cfg, desc(cat([]byte{0x9e}, big, []byte{0x9e}, big, []byte{0x9e}, big, []byte{0x97})))
		add("descriptor.array-overflow", cfg, desc(cat([]byte{0x9e}, big, []byte{0x9e}, big, []byte{0x96})))
		add("descriptor.array-overflow", cfg, desc(cat([]byte{0x9e}, be32b(1<<31), []byte{0x9e}, be32b(1<<31), []byte{0x9e}, be32b(4), []byte{0x97})))
		// fold length not matching the descriptor
		add("descriptor.length", cfg, cat([]byte{0x82}, be16b(5), []byte{0x9d, 0x96, 0x9d}, be32b(0)))
		add("descriptor.length", cfg, cat([]byte{0x82}, be16b(1), []byte{0x9d, 0x96, 0x9d}, be32b(0)))
		add("descriptor.length", cfg, cat([]byte{0x82}, be16b(3), []byte{0x9d, 0x96, 0x9d}, be32b(0)))
		add("descriptor.length", cfg, cat([]byte{0x82}, be16b(0)))
		add("descriptor.length", cfg, cat([]byte{0x82}, be16b(0), []byte{0x96}, int8v))
		add("descriptor.length", cfg, cat([]byte{0x82}, be16b(0xffff), []byte{0x9d, 0x96}))
		add("descriptor.length", cfg, desc([]byte{0x9f, 0x96}, []byte{0xff}))
		add("descriptor.length", cfg, desc([]byte{0x9f}, []byte{0xff}))
		add("descriptor.length", cfg, desc([]byte{0x9d}, []byte{0xff}))
		add("descriptor.length", cfg, desc([]byte{0x9e, 0, 0, 0, 1}, []byte{0xff}))
		add("descriptor.length", cfg, desc([]byte{0x9d, 0x96, 0x96}, []byte{0xff}))
		add("descriptor.length", cfg, desc([]byte{0x9f, 0x96, 0x96, 0x96}, []byte{0xff}))
		// fold = bare primitive tag: the primitive decoder expects its tag again
		for _, t := range []byte{0x96, 0x8d, 0x91, 0x8c, 0xaa, 0x9c, 0xaf, 0x8e, 0x90} {
			add("descriptor.bare-primitive", cfg, desc([]byte{t}, []byte{t}, make([]byte, 40)))
			add("descriptor.bare-primitive", cfg, desc([]byte{t}, make([]byte, 40)))
			add("descriptor.bare-primitive", cfg, desc([]byte{t}))
		}
		add("descriptor.bare-primitive", cfg, desc([]byte{0x84}, []byte{0x96}, int8v))
		add("descriptor.bare-primitive", cfg, desc([]byte{0x84}, []byte{0xff}))
		add("descriptor.bare-primitive", cfg, desc(sEmpty))
		add("descriptor.bare-primitive", cfg, desc([]byte{0xff}))
		add("descriptor.bare-primitive", cfg, desc([]byte{0x82, 0, 1, 0x96}, []byte{0x96}, int8v))
		// any inside any
		add("any-in-any", cfg, cat([]byte{0x84, 0x84, 0x84, 0x8d}, be16b(1), []byte{'a'}))
		add("any-in-any", cfg, cat([]byte{0x84, 0xff}))
		add("any-in-any", cfg, cat([]byte{0x84}))
		add("any-in-any", cfg, cat(bytes.Repeat([]byte{0x84}, 1500), []byte{0x96}, int8v))
		add("any-in-any", cfg, cat(bytes.Repeat([]byte{0x84}, 1500)))
		add("any-in-any", cfg, desc([]byte{0x9d, 0x84}, []byte{0x9d}, be32b(1), []byte{0x84, 0x84, 0x91, 1}))
		// deep descriptor
		if cfg.Name == "off" {
			add("descriptor.deep", cfg, desc(cat(bytes.Repeat([]byte{0x9d}, 3500), []byte{0x96}), []byte{0xff}))
			add("descriptor.deep", cfg, desc(cat(bytes.Repeat([]byte{0x9f, 0x96}, 900), []byte{0x96}), []byte{0xff}))
		}
		add("descriptor.deep", cfg, desc(cat(bytes.Repeat([]byte{0x9d}, 300), []byte{0x96}), bytes.Repeat(cat([]byte{0x9d}, be32b(1)), 300), int8v))
		// bool bytes other than 0/1 (only 1 is true), values compared
		for _, b := range []byte{0, 1, 2, 3, 0x80, 0xfe, 0xff} {
			add("bool-byte", cfg, []byte{0x91, b})
			add("bool-byte", cfg, desc([]byte{0x9d, 0x91}, []byte{0x9d}, be32b(3), []byte{1, b, 0}))
			add("bool-byte", cfg, desc([]byte{0x9f, 0x91, 0x91}, []byte{0x9f}, be32b(1), []byte{b, b}))
			add("bool-byte", cfg, cat(regName(reflect.TypeOf(NBool(false))), []byte{b}))
			add("bool-byte", cfg, desc([]byte{0x9d, 0x84}, []byte{0x9d}, be32b(1), []byte{0x91, b}))
		}
		// time: every truncation of the value, length byte one too large / too small
		tm := []byte{0xaf, 0x0f, 0x01, 0x00, 0x00, 0x00, 0x0e, 0xdc, 0xe5, 0xe8, 0x00, 0x00, 0x00, 0x00, 0x05, 0x00, 0x3c}
		for i := 0; i <= len(tm); i++ {
			add("time-trunc", cfg, tm[:i])
			if i >= 1 {
				add("time-trunc", cfg, desc([]byte{0x9d, 0xaf}, []byte{0x9d}, be32b(1), tm[1:i]))
			}
		}
		add("time-trunc", cfg, cat([]byte{0xaf, 0x10}, tm[2:]))
		add("time-trunc", cfg, cat([]byte{0xaf, 0x0e}, tm[2:]))
		add("time-trunc", cfg, cat([]byte{0xaf, 0x00}))
		add("time-trunc", cfg, cat([]byte{0xaf, 0xff}, tm[2:]))
		// []uint8 built from a descriptor is Go's []byte
		add("descriptor.slice-u8", cfg, desc([]byte{0x9d, 0x97}, []byte{0x9d}, be32b(3), []byte{1, 2, 3}))
		add("descriptor.slice-u8", cfg, desc([]byte{0x9d, 0x97}, []byte{0xff}))
		add("descriptor.slice-u8", cfg, desc([]byte{0x9d, 0x9d, 0x97}, []byte{0x9d}, be32b(1), []byte{0x9d}, be32b(0)))
		// registered containers with hostile counts (below the listed region)
		for _, t := range []reflect.Type{tNMapSI, reflect.TypeOf(NSliceStr(nil)), reflect.TypeOf(NBytes(nil))} {
			for _, n := range []uint32{0, 1, 2, 1000, 1 << 16} {
				add("reg-count", cfg, cat(regName(t), []byte{0x83}, be32b(n)))
				add("reg-count", cfg, cat(regName(t), []byte{0x83}, be32b(n), make([]byte, 16)))
			}
		}
		if cfg.Name == "off" {
			add("reg-count", cfg, cat(regName(tNMapSI), []byte{0x83}, be32b(1<<20)))
		}
	}
}

// ---------------------------------------------------------------------------
// the part
// ---------------------------------------------------------------------------

// ---------------------------------------------------------------------------
// canonical form of the model's `dec` answer
// ---------------------------------------------------------------------------
//
// The model prints what it decoded; three things are printed differently by the Go side for good reasons and are
// brought to Go's form here, type-directed, before the texts are compared:
//   * a time payload: Go's text is MarshalBinary of the decoded time.Time; the standard library canonicalises
//     hostile zone fields (a version-2 payload with zero seconds comes back as version 1, ...)
//   * the descriptor `9d 97` is reflect.SliceOf(uint8) = []byte in Go: printed y<hex> (nil and empty both `y`)
//   * map entries are sorted by the (canonical) key text
// and one model inexactness (counted as TODO.model-...): an `any` that receives a nil error is a nil any in Go.

type tyNode struct {
	k    byte // first letter of the type text; 'i','u','f' carry the width in name
	name string
	n    int
	sub  []*tyNode
}

func isHexCh(c byte) bool { return (c >= '0' && c <= '9') || (c >= 'a' && c <= 'f') }

func parseTy(s string, i int) (*tyNode, int, bool) {
	if i >= len(s) {
		return nil, i, false
	}
	c := s[i]
	switch c {
	case 'b', 's', 'y', 'a', 'P', 'Q', 'L', 'D', 'E', 't', 'e', 'x':
		return &tyNode{k: c}, i + 1, true
	case 'i', 'u', 'f':
		if i+1 >= len(s) {
			return nil, i, false
		}
		return &tyNode{k: c, name: s[i : i+2]}, i + 2, true
	case 'S':
		if i+1 >= len(s) || s[i+1] != '(' {
			return nil, i, false
		}
		e, j, ok := parseTy(s, i+2)
		if !ok || j >= len(s) || s[j] != ')' {
			return nil, i, false
		}
		return &tyNode{k: 'S', sub: []*tyNode{e}}, j + 1, true
	case 'A':
		j := i + 1
		n := 0
		for j < len(s) && s[j] >= '0' && s[j] <= '9' {
			n = n*10 + int(s[j]-'0')
			j++
		}
		if j >= len(s) || s[j] != '(' {
			return nil, i, false
		}
		e, j2, ok := parseTy(s, j+1)
		if !ok || j2 >= len(s) || s[j2] != ')' {
			return nil, i, false
		}
		return &tyNode{k: 'A', n: n, sub: []*tyNode{e}}, j2 + 1, true
	case 'M':
		if i+1 >= len(s) || s[i+1] != '(' {
			return nil, i, false
		}
		kt, j, ok := parseTy(s, i+2)
		if !ok || j >= len(s) || s[j] != ',' {
			return nil, i, false
		}
		vt, j2, ok := parseTy(s, j+1)
		if !ok || j2 >= len(s) || s[j2] != ')' {
			return nil, i, false
		}
		return &tyNode{k: 'M', sub: []*tyNode{kt, vt}}, j2 + 1, true
	case 'N', 'R', 'Z':
		j := i + 1
		for j < len(s) && isHexCh(s[j]) {
			j++
		}
		t := &tyNode{k: c, name: s[i+1 : j]}
		if c == 'Z' {
			if j >= len(s) || s[j] != ':' {
				return nil, i, false
			}
			j++
			for j < len(s) && s[j] >= '0' && s[j] <= '9' {
				t.n = t.n*10 + int(s[j]-'0')
				j++
			}
			return t, j, true
		}
		if j >= len(s) || s[j] != '(' {
			return nil, i, false
		}
		j++
		if s[j] == ')' {
			return t, j + 1, true
		}
		for {
			e, j2, ok := parseTy(s, j)
			if !ok || j2 >= len(s) {
				return nil, i, false
			}
			t.sub = append(t.sub, e)
			if s[j2] == ',' {
				j = j2 + 1
				continue
			}
			if s[j2] == ')' {
				return t, j2 + 1, true
			}
			return nil, i, false
		}
	}
	return nil, i, false
}

func (t *tyNode) text(underNamed bool) string {
	switch t.k {
	case 'i', 'u', 'f':
		return t.name
	case 'S':
		if !underNamed && t.sub[0].k == 'u' && t.sub[0].name == "u1" {
			return "y"
		}
		return "S(" + t.sub[0].text(false) + ")"
	case 'A':
		return "A" + strconv.Itoa(t.n) + "(" + t.sub[0].text(false) + ")"
	case 'M':
		return "M(" + t.sub[0].text(false) + "," + t.sub[1].text(false) + ")"
	case 'N':
		return "N" + t.name + "(" + t.sub[0].text(true) + ")"
	case 'R':
		fs := make([]string, len(t.sub))
		for i, f := range t.sub {
			fs[i] = f.text(false)
		}
		return "R" + t.name + "(" + strings.Join(fs, ",") + ")"
	case 'Z':
		return "Z" + t.name + ":" + strconv.Itoa(t.n)
	}
	return string(t.k)
}

type valNode struct {
	k     byte // 'l' leaf, '[' list, '{' map, 'x' any
	leaf  string
	elems []*valNode // list elements; map values
	keys  []*valNode
	ty    *tyNode // any: dynamic type
}

func parseVal(s string, i int) (*valNode, int, bool) {
	if i >= len(s) {
		return nil, i, false
	}
	switch s[i] {
	case '[':
		v := &valNode{k: '['}
		if i+1 < len(s) && s[i+1] == ']' {
			return v, i + 2, true
		}
		j := i + 1
		for {
			e, j2, ok := parseVal(s, j)
			if !ok || j2 >= len(s) {
				return nil, i, false
			}
			v.elems = append(v.elems, e)
			if s[j2] == ',' {
				j = j2 + 1
				continue
			}
			if s[j2] == ']' {
				return v, j2 + 1, true
			}
			return nil, i, false
		}
	case '{':
		v := &valNode{k: '{'}
		if i+1 < len(s) && s[i+1] == '}' {
			return v, i + 2, true
		}
		j := i + 1
		for {
			k, j2, ok := parseVal(s, j)
			if !ok || j2 >= len(s) || s[j2] != '=' {
				return nil, i, false
			}
			e, j3, ok := parseVal(s, j2+1)
			if !ok || j3 >= len(s) {
				return nil, i, false
			}
			v.keys = append(v.keys, k)
			v.elems = append(v.elems, e)
			if s[j3] == ',' {
				j = j3 + 1
				continue
			}
			if s[j3] == '}' {
				return v, j3 + 1, true
			}
			return nil, i, false
		}
	case 'x':
		t, j, ok := parseTy(s, i+1)
		if !ok || j >= len(s) || s[j] != ':' {
			return nil, i, false
		}
		e, j2, ok := parseVal(s, j+1)
		if !ok {
			return nil, i, false
		}
		return &valNode{k: 'x', ty: t, elems: []*valNode{e}}, j2, true
	}
	j := i + 1
	for j < len(s) && (isHexCh(s[j]) || s[j] == '.') {
		j++
	}
	return &valNode{k: 'l', leaf: s[i:j]}, j, true
}

type normNotes struct{ anyNilErr, sliceU8, timeCanon bool }

func canonTime(tok string, nn *normNotes) string {
	b, err := hex.DecodeString(tok[1:])
	if err != nil {
		return tok
	}
	var t time.Time
	if err := t.UnmarshalBinary(b); err != nil {
		return tok
	}
	b2, err := t.MarshalBinary()
	if err != nil {
		return "t?" + hex.EncodeToString([]byte(err.Error()))
	}
	if !bytes.Equal(b, b2) {
		nn.timeCanon = true
	}
	return "t" + hex.EncodeToString(b2)
}

func normVal(t *tyNode, v *valNode, underNamed bool, nn *normNotes) string {
	switch t.k {
	case 'x':
		if v.k != 'x' {
			return v.leaf
		}
		in := v.elems[0]
		if v.ty.k == 'e' && in.k == 'l' && in.leaf == "_" {
			nn.anyNilErr = true
			return "_"
		}
		return "x" + v.ty.text(false) + ":" + normVal(v.ty, in, false, nn)
	case 't':
		if v.k == 'l' && strings.HasPrefix(v.leaf, "t") {
			return canonTime(v.leaf, nn)
		}
	case 'N':
		return normVal(t.sub[0], v, true, nn)
	case 'S', 'A':
		if t.k == 'S' && !underNamed && t.sub[0].k == 'u' && t.sub[0].name == "u1" {
			nn.sliceU8 = true
			if v.k != '[' {
				return "y"
			}
			var sb strings.Builder
			sb.WriteByte('y')
			for _, e := range v.elems {
				sb.WriteString(strings.TrimPrefix(e.leaf, "#"))
			}
			return sb.String()
		}
		if v.k != '[' {
			return v.leaf
		}
		ps := make([]string, len(v.elems))
		for i, e := range v.elems {
			ps[i] = normVal(t.sub[0], e, false, nn)
		}
		return "[" + strings.Join(ps, ",") + "]"
	case 'R':
		if v.k != '[' || len(v.elems) != len(t.sub) {
			return "?"
		}
		ps := make([]string, len(v.elems))
		for i, e := range v.elems {
			ps[i] = normVal(t.sub[i], e, false, nn)
		}
		return "[" + strings.Join(ps, ",") + "]"
	case 'M':
		if v.k != '{' {
			return v.leaf
		}
		type kv struct{ k, v string }
		es := make([]kv, len(v.keys))
		for i := range v.keys {
			es[i] = kv{normVal(t.sub[0], v.keys[i], false, nn), normVal(t.sub[1], v.elems[i], false, nn)}
		}
		sort.SliceStable(es, func(i, j int) bool { return es[i].k < es[j].k })
		ps := make([]string, len(es))
		for i, e := range es {
			ps[i] = e.k + "=" + e.v
		}
		return "{" + strings.Join(ps, ",") + "}"
	}
	if v.k == 'l' {
		return v.leaf
	}
	return "?"
}

// normalizeModelDec: `ok <ty> <val> <rest>` in the Go side's canonical form (see above); anything else unchanged
func normalizeModelDec(s string, nn *normNotes) string {
	if !strings.HasPrefix(s, "ok ") || strings.HasPrefix(s, "ok nil ") {
		return s
	}
	f := strings.Split(s, " ")
	if len(f) != 4 {
		return s
	}
	t, j, ok := parseTy(f[1], 0)
	if !ok || j != len(f[1]) {
		return s
	}
	v, j, ok := parseVal(f[2], 0)
	if !ok || j != len(f[2]) {
		return s
	}
	// edf.Decode hands out the dynamic value: a top-level any shows what it holds (the model's printer does the same)
	return "ok " + t.text(false) + " " + normVal(t, v, false, nn) + " " + f[3]
}

func c16Edf(c *Ctx) {
	r := c.R
	c.Rng = c.Rng.Fork() // core's seeds s and s+1 yield the same stream shifted by one draw; a fork is mixed
	edfRegister()
	cfgs := edfConfigsC16()
	pre := edfPreamble()
	rule := "EDF: mutations of valid encodings (truncation at every byte, 2/4-byte windows set to boundary values, tag substitution, flips, insert/delete), hand-built descriptors and cache ids, random strings behind a valid tag; " +
		"per packet: outcome class and decoded text against the model, model allocation measure against the bound, in-process allocation bound, re-encode oracle; non-trivial = the first byte is a known tag (the decoder gets past it); distinct by (config, packet)"
	if r.Rule == "" {
		r.Rule = rule
	} else {
		r.Rule += " || " + rule
	}
	nDis := map[string]int{}
	disagree := func(name, what string, k *c16Pkt) {
		nDis[name]++
		if nDis[name] > 3 {
			return
		}
		r.Disagree(name, what, map[string]interface{}{"config": k.cfg.Name, "kind": k.kind, "hex": clip(hex.EncodeToString(k.p), 4200)})
	}
	vioSeen := map[string]int{}
	violation := func(sig, what string, k *c16Pkt) {
		vioSeen[sig]++
		r.Count("c16.violation." + sig)
		if vioSeen[sig] > 3 {
			return
		}
		r.Violation(sig, what, map[string]interface{}{"config": k.cfg.Name, "kind": k.kind, "hex": clip(hex.EncodeToString(k.p), 4200)})
	}

	tw := time.Now()
	c16Witnesses(c, cfgs, pre, disagree)
	dbg("c16 witnesses %v", time.Since(tw))

	var pkts []*c16Pkt
	add := func(kind string, cfg *edfCfg, p []byte) {
		if len(p) > 4096 {
			return
		}
		pkts = append(pkts, &c16Pkt{cfg: cfg, kind: kind, p: append([]byte(nil), p...), mAlloc: -1})
	}
	c16HandBuilt(cfgs, add)

	bases := c.N(120, 2400)
	perRound := 40
	st := &c16State{expCap: c.N(1, 6)}
	for b := 0; b < bases; {
		for i := 0; i < perRound && b < bases; i++ {
			cfg := cfgs[c.Rng.Intn(len(cfgs))]
			g := newEdfGen(c.Rng, edfMain, 300+c.Rng.Intn(900))
			g.small = true
			t := g.genType(0, true, false)
			v := g.genValue(t, 0, "top")
			G, err := goEncode(v.Interface(), cfg.Enc)
			if err != nil || len(G) > 2048 {
				continue
			}
			b++
			r.Count("c16.base-encodings")
			add("valid", cfg, G)
			// the same bytes under the other configurations (ids without caches, caches without ids)
			for _, o := range cfgs {
				if o != cfg && c.Rng.Intn(3) == 0 {
					add("valid-other-config", o, G)
				}
			}
			c16Mutate(c, cfg, G, add)
			// random bytes behind a valid tag
			for j := 0; j < 12; j++ {
				n := 1 + c.Rng.Intn(48)
				p := make([]byte, n)
				for x := range p {
					p[x] = byte(c.Rng.U64())
					if c.Rng.Intn(4) == 0 {
						p[x] = edfTagBytes[c.Rng.Intn(len(edfTagBytes))]
					}
				}
				p[0] = edfTagBytes[c.Rng.Intn(len(edfTagBytes))]
				add("random", cfgs[c.Rng.Intn(len(cfgs))], p)
			}
		}
		c16Round(c, pre, pkts, disagree, violation, st)
		pkts = pkts[:0]
		n := 0
		for _, x := range nDis {
			n += x
		}
		if n > 12 {
			r.Note("C16/EDF stopped early: too many model/implementation disagreements")
			break
		}
	}
	r.CountN("c16.alloc.max-permille-of-bound(outside the listed regions)", int(st.maxPermille))
}

func dbg(f string, a ...interface{}) {
	if os.Getenv("VERIF_DEBUG") != "" {
		fmt.Fprintf(os.Stderr, f+"\n", a...)
	}
}

// c16State: what survives between the rounds of a run
type c16State struct {
	maxPermille uint64
	expensive   int // listed-region packets that turned out expensive so far
	expCap      int
	deaths      int32 // children that died or stalled outside the listed-region run (atomic)
}

func (k *c16Pkt) expensiveRun() bool {
	return k.status == "died" || k.status == "timeout" || k.alloc >= 64<<20 || k.us > 2_000_000
}

func c16Round(c *Ctx, pre []string, pkts []*c16Pkt, disagree func(string, string, *c16Pkt), violation func(string, string, *c16Pkt), st *c16State) {
	r := c.R
	t0 := time.Now()
	defer func() { dbg("c16 round: %d packets, total %v", len(pkts), time.Since(t0)) }()

	askModel := func(ks []*c16Pkt) bool {
		jobs := map[*edfCfg]*edfJob{}
		var order []*edfJob
		idx := map[*c16Pkt]int{}
		for _, k := range ks {
			j := jobs[k.cfg]
			if j == nil {
				j = &edfJob{Cfg: k.cfg.Lines}
				jobs[k.cfg] = j
				order = append(order, j)
			}
			idx[k] = len(j.Lines)
			h := hexOrDash(k.p)
			j.Lines = append(j.Lines, "alloc "+h, "dec "+h)
		}
		if err := edfModelJobs(pre, order, 8); err != nil {
			r.Disagree("edf.driver", err.Error(), nil)
			return false
		}
		for _, k := range ks {
			j := jobs[k.cfg]
			a, err := strconv.ParseInt(j.Out[idx[k]], 10, 64)
			if err != nil {
				a = -1
				disagree("K1 Edf.alloc ~ edf.Decode allocation", "unparsable model answer "+j.Out[idx[k]], k)
			}
			k.mAlloc = a
			k.mDec = j.Out[idx[k]+1]
			k.asked = true
		}
		return true
	}

	// ---- phase A: the model first, wherever it can be asked -----------------------------------
	// (the model iterates a declared array count: descriptors declaring more than 2^17 elements are kept away from
	// it unless the packet ends with the descriptor, where the array decoder returns at once)
	modelOK := func(k *c16Pkt) bool {
		if k.shape.arrProd <= 1<<17 && k.shape.arrMax <= 1<<17 {
			return true
		}
		if len(k.p) >= 3 && k.p[0] == 0x82 {
			return 3+int(binary.BigEndian.Uint16(k.p[1:3])) == len(k.p)
		}
		return false
	}
	var first, unsafe []*c16Pkt
	for _, k := range pkts {
		k.shape = shapeOf(k.p)
		k.safe = k.shape.inProcessSafe(len(k.p))
		if !k.safe {
			unsafe = append(unsafe, k)
			r.Count("c16.route.child(byte-pattern)")
		}
		if modelOK(k) {
			first = append(first, k)
		}
	}
	if !askModel(first) {
		return
	}
	dbg("c16 round: model A %v", time.Since(t0))
	var inproc, child, listed []*c16Pkt
	for _, k := range pkts {
		switch {
		case !k.asked || k.mAlloc > 16<<20:
			// a listed region for sure (the model predicts a huge allocation) or possibly (array count beyond the model's reach)
			listed = append(listed, k)
		case !k.safe:
			child = append(child, k)
		case k.mAlloc > int64(allocBound(len(k.p))):
			// the model predicts an allocation beyond the bound: observe it in a child
			r.Count("c16.route.child(model-alloc-over-bound)")
			child = append(child, k)
		case k.kind != "valid":
			// every hostile packet is decoded in a worker child: a decoder that lost a guard (count check, ...) must
			// cost a child, with the packet in hand, not the harness
			child = append(child, k)
		default:
			inproc = append(inproc, k)
		}
	}
	// ---- phase B: implementation, in-process: allocation measured per packet -----------------
	type res struct {
		v    any
		rest []byte
		err  error
		esc  bool
	}
	rs := make([]res, len(inproc))
	allocs := make([]uint64, len(inproc))
	var m0, m1 runtime.MemStats
	runtime.ReadMemStats(&m0)
	for i, k := range inproc {
		rs[i].v, rs[i].rest, rs[i].err, rs[i].esc = goDecode(k.p, k.cfg.Dec)
		runtime.ReadMemStats(&m1)
		allocs[i] = m1.TotalAlloc - m0.TotalAlloc
		m0.TotalAlloc = m1.TotalAlloc
	}
	for i, k := range inproc {
		k.alloc = allocs[i]
		switch {
		case rs[i].esc:
			k.status, k.errStr = "escaped", rs[i].err.Error()
		case rs[i].err != nil:
			k.status, k.errStr = "err", rs[i].err.Error()
		default:
			k.status = "ok"
			k.text = safeDecText(rs[i].v, rs[i].rest, nil)
			if k.text != edfHugeText {
				k.reenc, k.reencWhy = edfReencode(rs[i].v, k.cfg)
			}
		}
		rs[i] = res{}
	}
	r.CountN("c16.in-process.packets", len(inproc))
	dbg("c16 round: in-process %d done at %v", len(inproc), time.Since(t0))
	// ---- phase B': implementation, child processes ---------------------------------------------
	if len(child) > 0 {
		// several children side by side
		const par = 6
		abort := func(found bool) bool {
			if found {
				atomic.AddInt32(&st.deaths, 1)
			}
			return atomic.LoadInt32(&st.deaths) >= 12
		}
		var wg sync.WaitGroup
		per := (len(child) + par - 1) / par
		for lo := 0; lo < len(child); lo += per {
			hi := lo + per
			if hi > len(child) {
				hi = len(child)
			}
			wg.Add(1)
			go func(part []*c16Pkt) {
				defer wg.Done()
				edfChildBatch(part, 20*time.Second, r, nil, abort)
			}(child[lo:hi])
		}
		wg.Wait()
		r.CountN("c16.child.packets", len(child))
	}
	dbg("c16 round: children %d done at %v", len(child), time.Since(t0))
	// possibly-listed packets: until enough of them turned out expensive (the witnesses cover the regions)
	if len(listed) > 0 {
		if st.expensive >= st.expCap {
			for _, k := range listed {
				k.status = "skipped"
			}
		} else {
			edfChildBatch(listed, 10*time.Second, r, func(k *c16Pkt) bool {
				if k.expensiveRun() || k.status == "" {
					st.expensive++
					r.Count("c16.listed-region.expensive-packets-run")
				}
				return st.expensive >= st.expCap
			}, nil)
		}
		ns := 0
		for _, k := range listed {
			if k.status == "skipped" {
				ns++
			}
		}
		r.CountN("c16.child.packets", len(listed)-ns)
		r.CountN("c16.listed-region.not-run(cap reached; the witnesses cover the region)", ns)
	}
	dbg("c16 round: listed %d done at %v", len(listed), time.Since(t0))
	for _, k := range pkts {
		if !k.asked && k.status != "skipped" {
			r.Count("c16.model-not-asked(the model iterates the declared array count)")
		}
	}
	// ---- compare and judge -----------------------------------------------------------------------
	for _, k := range pkts {
		kind := "c16." + k.kind
		r.Count(kind)
		if k.status == "skipped" {
			continue
		}
		nontrivial := len(k.p) > 0 && edfIsTag[k.p[0]]
		r.Case("c16edf|"+k.cfg.Name+"|"+string(k.p), nontrivial)
		if k.kind == "trunc" {
			r.Count("c16.trunc-positions")
		}
		sh := k.shape
		// explained by the declared array sizes (times the slice lengths the packet can pay for)
		byArrays := sh.arrProd > 1 && (((k.status == "died" || k.status == "timeout") && sh.arrProd*uint64(len(k.p)) >= 1<<16) ||
			(k.status != "died" && k.status != "timeout" && sh.arrProd*uint64(len(k.p)+1)*2048 >= k.alloc/2))
		// a registered-map count the model itself charges for (none since fix fd28ef1: the count is checked first)
		byRegCount := sh.regCnt > uint64(len(k.p)) && k.asked && k.mAlloc > int64(allocBound(len(k.p))) &&
			(k.status == "died" || k.status == "timeout" || sh.regCnt*64 >= k.alloc/2)
		byNesting := sh.nest >= 256
		// nested slices whose counts each pass the "count <= remaining bytes" check: MakeSlice per level (listed)
		byNestedData := sh.nest > 16 && k.asked && k.mAlloc > int64(allocBound(len(k.p))) && uint64(k.mAlloc)*4 >= k.alloc
		class := k.status
		if k.status == "err" && looksLikePanic(fmt.Errorf("%s", k.errStr)) {
			class = "panic-recovered"
		}
		r.Count(kind + "." + class)

		// oracles on the implementation alone
		switch k.status {
		case "escaped":
			violation("C16/edf-panic-escapes", "a panic left edf.Decode: "+k.errStr, k)
			continue
		case "died":
			switch {
			case byArrays:
				violation("C16/edf-alloc-array", "the child process died decoding a packet with an array descriptor (declared element count product "+strconv.FormatUint(sh.arrProd, 10)+"): "+clip(k.stderr, 200), k)
			case byRegCount:
				violation("C16/edf-alloc-regmap", "the child process died decoding a packet with a 4-byte count behind edtReg of "+strconv.FormatUint(sh.regCnt, 10)+": "+clip(k.stderr, 200), k)
			case byNesting:
				violation("C16/edf-alloc-nested-descriptor", fmt.Sprintf("the child process died decoding a packet whose descriptor nests %d composite types: %s", sh.nest, clip(k.stderr, 200)), k)
			default:
				violation("C16/edf-crash", fatalLine(k.stderr)+" on packet "+clip(hex.EncodeToString(k.p), 400), k)
			}
			continue
		case "timeout":
			switch {
			case byArrays:
				violation("C16/edf-spin-array", "decoding did not return within the child's stall limit (array descriptor with a huge count)", k)
			case byRegCount:
				violation("C16/edf-alloc-regmap", "decoding did not return within 20 s (4-byte count behind edtReg of "+strconv.FormatUint(sh.regCnt, 10)+")", k)
			default:
				violation("C16/edf-hang", "edf.Decode had not returned after 20 s in a worker child on packet "+clip(hex.EncodeToString(k.p), 400), k)
			}
			continue
		}
		if !byArrays && !byNesting && !byNestedData && !byRegCount {
			if pm := k.alloc * 1000 / goAllocBound(len(k.p)); pm > st.maxPermille {
				st.maxPermille = pm
			}
		}
		if k.us > 5_000_000 {
			switch {
			case byArrays:
				violation("C16/edf-spin-array", fmt.Sprintf("decoding took %d ms", k.us/1000), k)
			case byRegCount:
				violation("C16/edf-alloc-regmap", fmt.Sprintf("decoding took %d ms (4-byte count behind edtReg of %d)", k.us/1000, sh.regCnt), k)
			default:
				violation("C16/edf-hang", fmt.Sprintf("decoding one packet of %d bytes took %d ms", len(k.p), k.us/1000), k)
			}
		}
		if k.alloc > goAllocBound(len(k.p)) {
			what := fmt.Sprintf("edf.Decode allocated %d bytes for a packet of %d bytes (bound %d)", k.alloc, len(k.p), goAllocBound(len(k.p)))
			switch {
			case byArrays:
				violation("C16/edf-alloc-array", what+"; array descriptors declare "+strconv.FormatUint(sh.arrProd, 10)+" elements", k)
			case byRegCount:
				violation("C16/edf-alloc-regmap", what+"; 4-byte count behind edtReg "+strconv.FormatUint(sh.regCnt, 10), k)
			case byNestedData:
				violation("C16/edf-alloc-nested", fmt.Sprintf("%s; %d nested slice levels each allocate their declared count (model: %d bytes)", what, sh.nest, k.mAlloc), k)
			case byNesting:
				violation("C16/edf-alloc-nested-descriptor", fmt.Sprintf("%s; the descriptor nests %d composite types (reflect builds a type, and its name, per level)", what, sh.nest), k)
			default:
				violation("C16/edf-alloc", what, k)
			}
		}
		switch k.reenc {
		case "r+":
			r.Count("c16.reencode.ok")
		case "r0":
			if k.status == "ok" {
				r.Count("c16.reencode.not-applicable")
			}
		case "rz":
			violation("C16/edf-reencode-zero-width", "a decoded value with a non-empty container of zero-width elements does not survive re-encoding (the count check refuses it without trailing bytes; same defect as C11/zero-width-elements): "+clip(k.text, 160), k)
		case "r-":
			violation("C16/edf-reencode", "packet decodes to "+clip(k.text, 200)+" but "+k.reencWhy, k)
		}

		// correspondence with the model
		if !k.asked {
			continue
		}
		if k.mAlloc >= 0 {
			small := k.mAlloc <= int64(allocBound(len(k.p)))
			if small {
				r.Count("c16.alloc-prediction.within-bound")
			} else {
				r.Count("c16.alloc-prediction.over-bound")
			}
			switch {
			case small && k.alloc > 16<<20 && !byNesting:
				disagree("K1 Edf.alloc ~ edf.Decode allocation", fmt.Sprintf("model predicts %d bytes, implementation allocated %d", k.mAlloc, k.alloc), k)
			case k.mAlloc >= 128<<20 && k.alloc < uint64(k.mAlloc)/4:
				disagree("K1 Edf.alloc ~ edf.Decode allocation", fmt.Sprintf("model predicts %d bytes, implementation (surviving) allocated %d", k.mAlloc, k.alloc), k)
			default:
				r.Count("c16.agree.alloc-class")
			}
		}
		if k.text == edfHugeText {
			r.Count("c16.text-too-large-not-compared")
			continue
		}
		var nn normNotes
		mDec := normalizeModelDec(k.mDec, &nn)
		if nn.anyNilErr {
			// TODO(model): an `any` receiving a nil error (tag edtError, id ffff) stays a nil any in Go (value.Set of a nil
			// error interface); the model prints an any holding a nil error
			r.Count("TODO.model-any-holding-nil-error-is-nil-any")
		}
		if nn.sliceU8 {
			r.Count("c16.norm.[]uint8-from-descriptor-printed-as-[]byte")
		}
		if nn.timeCanon {
			r.Count("c16.norm.time-payload-canonicalised-by-stdlib")
		}
		if strings.Contains(k.text, "t?") || strings.Contains(mDec, "t?") {
			// a hostile time.Time that the standard library decodes but refuses to marshal again: no canonical text
			r.Count("c16.norm.time-not-remarshalable(class-only)")
			if !strings.HasPrefix(mDec, "ok ") || k.status != "ok" {
				disagree("K1 Edf.dec ~ edf.Decode", fmt.Sprintf("dec %s: model %q, implementation %s %q", clip(hex.EncodeToString(k.p), 400), clip(mDec, 300), k.status, clip(k.text+k.errStr, 300)), k)
			}
			continue
		}
		if k.status == "ok" && strings.HasPrefix(mDec, "ok ") && mDec != k.text {
			// maps with keys the value algebra cannot tell apart the way Go does
			if v, _, err, _ := goDecode(k.p, k.cfg.Dec); err == nil && v != nil && keysAmbiguous(reflect.ValueOf(v)) {
				r.Count("c16.norm.ambiguous-map-keys(class-only)")
				continue
			}
		}
		var gerr error
		if k.status != "ok" {
			gerr = fmt.Errorf("%s", k.errStr)
		}
		if !decAgree(mDec, k.text, gerr) {
			name := "K1 Edf.dec ~ edf.Decode"
			if gerr != nil && (mDec == "err" || mDec == "panic") {
				// both fail, but one side by a run-time panic (recovered inside edf.Decode) and the other by a checked error
				name = "K1 Edf.dec panic class ~ edf.Decode"
			}
			disagree(name, fmt.Sprintf("dec %s: model %q, implementation %s %q", clip(hex.EncodeToString(k.p), 400), clip(mDec, 400), k.status, clip(k.text+k.errStr, 400)), k)
			continue
		}
		r.Count("c16.agree.dec")
		r.Count(kind + ".agree")
		if mDec == "panic" {
			r.Count("c16.agree.panic-recovered")
		}
	}
}

// ---------------------------------------------------------------------------
// listed findings, replayed in children on every run
// ---------------------------------------------------------------------------

func c16Witnesses(c *Ctx, cfgs []*edfCfg, pre []string, disagree func(string, string, *c16Pkt)) {
	r := c.R
	off := cfgs[0]
	run := func(p []byte, stall time.Duration) *c16Pkt {
		k := &c16Pkt{cfg: off, kind: "witness", p: p, mAlloc: -1}
		k.shape = shapeOf(p)
		n, how, tail := edfChildOnce([]*c16Pkt{k}, stall, nil)
		r.Count("c16.child.processes")
		if how != "" && n == 0 {
			k.status, k.stderr = how, tail
		}
		return k
	}
	// the witnesses run side by side, each in its own child
	wp := [][]byte{
		{0x82, 0x00, 0x06, 0x9e, 0x10, 0x00, 0x00, 0x00, 0x97},
		{0x82, 0x00, 0x06, 0x9e, 0xff, 0xff, 0xff, 0xff, 0x97},
		{0x82, 0x00, 0x0b, 0x9e, 0xff, 0xff, 0xff, 0xff, 0x9e, 0x00, 0x00, 0x00, 0x00, 0x94, 0x00},
		desc(cat(bytes.Repeat([]byte{0x9d}, 5000), []byte{0x96}), []byte{0xff}),
		cat(regName(tNMapSI), []byte{0x83, 0xff, 0xff, 0xff, 0xff}),
		c16NestedSlices(1000),
	}
	wr := make([]*c16Pkt, len(wp))
	var wg sync.WaitGroup
	for i := range wp {
		wg.Add(1)
		go func(i int) {
			defer wg.Done()
			stall := 20 * time.Second
			if i == 2 {
				stall = 2 * time.Second
			}
			wr[i] = run(wp[i], stall)
		}(i)
	}
	wg.Wait()
	one := func(p []byte, _ time.Duration) *c16Pkt {
		for i := range wp {
			if bytes.Equal(wp[i], p) {
				return wr[i]
			}
		}
		return run(p, 20*time.Second)
	}
	rp := func(k *c16Pkt) map[string]interface{} {
		return map[string]interface{}{"config": k.cfg.Name, "hex": hex.EncodeToString(k.p)}
	}
	modelAlloc := func(p []byte) int64 {
		out, err := edfModel(append(append([]string(nil), pre...), off.Lines...), []string{"alloc " + hex.EncodeToString(p)}, 1)
		if err != nil {
			r.Disagree("edf.driver", err.Error(), nil)
			return -1
		}
		a, err := strconv.ParseInt(out[0], 10, 64)
		if err != nil {
			return -1
		}
		return a
	}
	// D23: [1<<28]uint8 from 9 bytes
	p := []byte{0x82, 0x00, 0x06, 0x9e, 0x10, 0x00, 0x00, 0x00, 0x97}
	k := one(p, 20*time.Second)
	ma := modelAlloc(p)
	switch {
	case k.status == "died" || k.status == "timeout":
		r.Violation("C16/edf-alloc-array", "9-byte packet with the descriptor [1<<28]uint8: the child "+k.status+" "+clip(k.stderr, 200), rp(k))
	case k.alloc >= 128<<20:
		r.Violation("C16/edf-alloc-array", fmt.Sprintf("9-byte packet with the descriptor [1<<28]uint8: edf.Decode allocated %d bytes (model: %d) and returned %s", k.alloc, ma, k.status), rp(k))
		if ma >= 0 && k.alloc < uint64(ma)/2 {
			disagree("K1 Edf.alloc ~ edf.Decode allocation", fmt.Sprintf("D23 witness: model predicts %d, implementation allocated %d", ma, k.alloc), k)
		} else {
			r.Count("c16.agree.alloc-witness")
		}
	default:
		r.Note("C16 known-finding witness D23 ([1<<28]uint8 descriptor) no longer reproduces: allocated %d bytes", k.alloc)
		if ma >= 128<<20 {
			disagree("K1 Edf.alloc ~ edf.Decode allocation", fmt.Sprintf("D23 witness: model predicts %d, implementation allocated %d", ma, k.alloc), k)
		}
	}
	// [1<<32-1]uint8: 4 GiB
	p = []byte{0x82, 0x00, 0x06, 0x9e, 0xff, 0xff, 0xff, 0xff, 0x97}
	k = one(p, 20*time.Second)
	if k.status == "died" || k.status == "timeout" || k.alloc >= 128<<20 {
		r.Violation("C16/edf-alloc-array", fmt.Sprintf("9-byte packet with the descriptor [1<<32-1]uint8: child %s, allocated %d bytes %s", k.status, k.alloc, clip(k.stderr, 160)), rp(k))
	} else {
		r.Note("C16 known-finding witness ([1<<32-1]uint8 descriptor) no longer reproduces: %s, %d bytes", k.status, k.alloc)
	}
	// CPU variant: [1<<32-1][0]int32 followed by one byte: 4·10^9 iterations that consume nothing
	p = []byte{0x82, 0x00, 0x0b, 0x9e, 0xff, 0xff, 0xff, 0xff, 0x9e, 0x00, 0x00, 0x00, 0x00, 0x94, 0x00}
	k = one(p, 2*time.Second)
	if k.status == "timeout" || k.us > 2_000_000 {
		r.Violation("C16/edf-spin-array", "15-byte packet with the descriptor [1<<32-1][0]int32 and one body byte: edf.Decode had not returned after 2 s (it iterates the declared count without consuming input)", rp(k))
	} else {
		r.Note("C16 known-finding witness (spin over [1<<32-1][0]int32) no longer reproduces: %s after %d us", k.status, k.us)
	}
	// NEW (not on the list handed to this harness): a descriptor nesting n composite types makes reflect build n
	// types whose names have length O(n) each: allocation (and time) quadratic in the packet length, and the types
	// stay in reflect's cache for the life of the process
	p = desc(cat(bytes.Repeat([]byte{0x9d}, 5000), []byte{0x96}), []byte{0xff})
	k = one(p, 20*time.Second)
	if k.status == "died" || k.status == "timeout" || k.alloc > goAllocBound(len(p)) {
		r.Violation("C16/edf-alloc-nested-descriptor", fmt.Sprintf("%d-byte packet whose descriptor nests 5000 slice types: child %s after %d ms, allocated %d bytes (bound %d); the cost is quadratic in the nesting depth (a 32 KiB descriptor exhausts a 4 GiB address space)", len(p), k.status, k.us/1000, k.alloc, goAllocBound(len(p))),
			map[string]interface{}{"config": "off", "hex_rle": "82 1389 9d*5000 96 ff"})
	} else {
		r.Note("C16 witness (nested descriptor) does not reproduce: %s, %d bytes", k.status, k.alloc)
	}
	// nested unnamed slices: every level passes the count check and allocates count × 24 bytes: quadratic
	p = c16NestedSlices(1000)
	k = one(p, 20*time.Second)
	ma = modelAlloc(p)
	if k.status == "died" || k.status == "timeout" || k.alloc > allocBound(len(p)) {
		r.Violation("C16/edf-alloc-nested", fmt.Sprintf("%d-byte packet, 1000 nested slice levels whose counts equal the bytes that remain: child %s, allocated %d bytes (bound %d, model: %d)", len(p), k.status, k.alloc, allocBound(len(p)), ma),
			map[string]interface{}{"config": "off", "hex_rle": "82 03e9 9d*1000 97, then 1000 headers 9d be32(bytes remaining after the header, at least 1)", "depth": 1000})
		if k.status != "died" && k.status != "timeout" && ma >= 0 && k.alloc < uint64(ma)/2 {
			disagree("K1 Edf.alloc ~ edf.Decode allocation", fmt.Sprintf("nested-slices witness: model predicts %d, implementation allocated %d", ma, k.alloc), k)
		} else {
			r.Count("c16.agree.alloc-witness")
		}
	} else {
		r.Note("C16 known-finding witness (nested slices) no longer reproduces: %s, %d bytes (model %d)", k.status, k.alloc, ma)
		if ma > 4*int64(allocBound(len(p))) {
			disagree("K1 Edf.alloc ~ edf.Decode allocation", fmt.Sprintf("nested-slices witness: model predicts %d, implementation allocated %d", ma, k.alloc), k)
		}
	}
	// zero-width elements: []SEmpty with count 2 decodes when two more bytes follow, and then cannot be re-encoded
	// into something that decodes (same defect as C11/zero-width-elements), in-process
	p = cat(desc(cat([]byte{0x9d}, regName(tSEmpty)), []byte{0x9d}, be32b(2)), []byte{0, 0})
	if v, _, err, _ := goDecode(p, off.Dec); err == nil && v != nil {
		if st, _ := edfReencode(v, off); st == "rz" || st == "r-" {
			r.Violation("C16/edf-reencode-zero-width", "[]SEmpty{{},{}} decoded from a packet with two trailing bytes re-encodes to bytes that edf.Decode refuses (count 2 > 0 bytes left)", map[string]interface{}{"config": "off", "hex": hex.EncodeToString(p)})
		} else {
			r.Note("C16 known-finding witness (re-encode of zero-width elements) no longer reproduces: %s", st)
		}
	} else {
		r.Note("C16 known-finding witness (re-encode of zero-width elements): the packet no longer decodes: %v", err)
	}
	// FIXED (regression witness): the registered map decoder used to call MakeMapWithSize before the count check
	p = cat(regName(tNMapSI), []byte{0x83, 0xff, 0xff, 0xff, 0xff})
	k = one(p, 20*time.Second)
	if k.status == "died" || k.status == "timeout" || k.status == "ok" || k.alloc > allocBound(len(p)) {
		r.Violation("C16/edf-alloc-regmap", fmt.Sprintf("registered map NMapSI with the count 1<<32-1 and no entries must be refused at once: child %s, allocated %d bytes %s", k.status, k.alloc, clip(k.stderr, 160)), rp(k))
	} else {
		r.Count("c16.witness.fixed.regmap-count-refused")
	}
}

// c16NestedSlices: [][]...[]uint8 of depth d; every level's count is the number of bytes that remain
func c16NestedSlices(d int) []byte {
	fold := append(bytes.Repeat([]byte{0x9d}, d), 0x97)
	p := cat([]byte{0x82}, be16b(len(fold)), fold)
	total := len(p) + 5*d
	for i := 0; i < d; i++ {
		rem := total - len(p) - 5
		if rem < 1 {
			rem = 1
		}
		p = append(p, cat([]byte{0x9d}, be32b(uint32(rem)))...)
	}
	return p
}

var _ = io.EOF

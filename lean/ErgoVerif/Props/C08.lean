import ErgoVerif.Lemmas.SupStep
/-!
# C08 — supervisor restart semantics by type and strategy

Models: `Model/SupOFO.lean`, `SupARFO.lean`, `SupSOFO.lean` (mirrors of act/supervisor_{ofo,arfo,sofo}.go,
tied to the code by the K2 differential of harness/c08.go on every run); rules: `Spec/Sup.lean`.
-/
namespace ErgoVerif.Props.C08
open ErgoVerif.Sup ErgoVerif.Spec.Sup

/-- T9/T10 (step level, all states): one-for-one answers a child's termination exactly as the documented
rule prescribes — restart only per strategy/reason, give up on exceeded intensity, significant child and
auto-shutdown outcomes with the child's reason. -/
theorem C08_ofo_decision (s : OFO) (name pid : Nat) (r : Reason) (now : Int)
    (hsd : s.shutdown = false) (k : Nat) (c : ChildSpec)
    (hf : (scan name pid 0 s.spec).found = some (k, c)) (hen : c.disabled = false) :
    OFO.Meets (rule false s.restart.strategy r c.significant s.autoshutdown
                (scan name pid 0 s.spec).running.length
                (Window.check s.restarts now s.restart.periodMs s.restart.intensity).2)
      c (scan name pid 0 s.spec) (s.childTerminated name pid r now).1 (s.childTerminated name pid r now).2 :=
  OFO.decision s name pid r now hsd k c hf hen

theorem C08_arfo_decision (s : ARFO) (name pid : Nat) (r : Reason) (now : Int)
    (hm : s.mode = 0) (k : Nat) (c : ChildSpec)
    (hf : (scan name pid 0 s.spec).found = some (k, c)) (hen : c.disabled = false) :
    ARFO.Meets (rule false s.restart.strategy r c.significant s.autoshutdown
                (scan name pid 0 s.spec).running.length
                (Window.check s.restarts now s.restart.periodMs s.restart.intensity).2)
      k r (scan name pid 0 s.spec)
      { s with wait := sdel pid s.wait, spec := (scan name pid 0 s.spec).spec,
               restarts := (Window.check s.restarts now s.restart.periodMs s.restart.intensity).1 }
      (s.childTerminated name pid r now).1 (s.childTerminated name pid r now).2 :=
  ARFO.decision s name pid r now hm k c hf hen

theorem C08_sofo_decision (s : SOFO) (name pid : Nat) (r : Reason) (now : Int)
    (hsd : s.shutdown = false) (c : ChildSpec)
    (hf : findName name s.spec = some c) (hen : c.disabled = false) :
    SOFO.Meets (rule true s.restart.strategy r c.significant false 0
                (Window.check s.restarts now s.restart.periodMs s.restart.intensity).2)
      c { s with pids := s.pids.filter (·.1 ≠ pid), wait := sdel pid s.wait }
      (s.childTerminated name pid r now).1 (s.childTerminated name pid r now).2 :=
  SOFO.decision s name pid r now hsd c hf hen

/-- non-vacuity: a Permanent one-for-one supervisor with c2 running restarts it after `kill` -/
example :
    let s : OFO := { spec := mkSpecs true 0 [(1, false), (2, false)], restart := { strategy := .permanent } }
    let s := { s with spec := s.spec.map fun (c : ChildSpec) => { c with pid := 100 + c.i } }
    (s.childTerminated 2 101 .kill 1000).2 = .ok { act := .start, spec := { name := 2, register := true, i := 1 } } := by
  decide

end ErgoVerif.Props.C08

/-
Request/response correlation at the caller (node/process.go Call* 940-1021, waitResponse 1765-1807;
node/core.go RouteSendResponse/RouteSendResponseError 315-380).

The caller owns a buffered response channel (capacity 10). A reply of any age is handed over without
blocking (`select … default: ErrResponseIgnored`); `waitResponse(ref)` takes replies one at a time, returns the
first whose reference equals `ref`, silently drops the others, and gives up at the timeout.
Replies are identified by the reference they carry and a payload.
-/
namespace ErgoVerif.Call

abbrev Ref := Nat

structure Reply where
  ref : Ref
  val : Nat
deriving DecidableEq, Repr

inductive Outcome
  | value (v : Nat)
  | timeout
deriving DecidableEq, Repr

structure St where
  waiting : Option Ref          -- the reference the caller is blocked on, if any
  chan : List Reply             -- buffered replies not yet looked at (oldest first), at most `cap`
  returned : List (Ref × Outcome)   -- what each completed call returned, most recent first
  consumed : List Reply         -- replies taken out of the channel by waitResponse (returned or dropped)
  delivered : List Reply        -- replies accepted by the hand-over (sender got nil)
  ignored : List Reply          -- replies refused with ErrResponseIgnored
  issued : List Ref             -- references of the calls made so far
deriving Repr

def cap : Nat := 10

def St.init : St := ⟨none, [], [], [], [], [], []⟩

inductive Op
  | call (r : Ref)          -- Call*: fresh reference from MakeRef, request routed, waitResponse starts
  | deliver (rp : Reply)    -- RouteSendResponse(Error) towards this process
  | recv                    -- waitResponse takes one reply from the channel
  | timeout                 -- the request timer fires
deriving Repr

def step (s : St) : Op → St
  | .call r =>
    match s.waiting with
    | some _ => s                 -- a process makes one call at a time (it is blocked inside waitResponse)
    | none => { s with waiting := some r, issued := r :: s.issued }
  | .deliver rp =>
    if s.chan.length < cap then { s with chan := s.chan ++ [rp], delivered := rp :: s.delivered }
    else { s with ignored := rp :: s.ignored }
  | .recv =>
    match s.waiting, s.chan with
    | some r, rp :: rest =>
      if rp.ref = r then
        { s with waiting := none, chan := rest, consumed := rp :: s.consumed, returned := (r, .value rp.val) :: s.returned }
      else { s with chan := rest, consumed := rp :: s.consumed }       -- late reply to an earlier request: dropped
    | _, _ => s
  | .timeout =>
    match s.waiting with
    | some r => { s with waiting := none, returned := (r, .timeout) :: s.returned }
    | none => s

def runOps (ops : List Op) : St := ops.foldl step St.init

/-- big-step view used by the correspondence harness: a call during which the replies `during` arrive in order
    (after the replies `s.chan` buffered before it). Returns the outcome and the buffer left behind. -/
def callBig (buf : List Reply) (r : Ref) (during : List Reply) : Outcome × List Reply :=
  let rec scan : List Reply → Outcome × List Reply
    | [] => (.timeout, [])
    | rp :: rest => if rp.ref = r then (.value rp.val, rest) else scan rest
  scan (buf ++ during)

end ErgoVerif.Call

import ErgoVerif.Model.SupOFO
import ErgoVerif.Spec.Sup
namespace ErgoVerif.Sup
open ErgoVerif.Spec.Sup

/-- what a state machine's answer must look like for each decision of the rules (one-for-one flavour) -/
def OFO.Meets (d : Decision) (c : ChildSpec) (sc : Scan) (s' : OFO) (res : Res) : Prop :=
  match d with
  | .ignore => res = .ok {} ∧ s'.shutdown = false
  | .restart => res = .ok { act := .start, spec := c } ∧ s'.shutdown = false
  | .giveUp =>
      res = .ok { act := .terminateChildren, terminate := runningPids sc.spec, reason := some .restartsExceeded }
      ∧ s'.shutdown = true ∧ s'.shutdownReason = some .restartsExceeded ∧ s'.wait = mkSet sc.running
  | .stopAll r =>
      if sc.running.length = 0 then res = .ok { act := .terminate, reason := some r } ∧ s'.shutdown = false
      else res = .ok { act := .terminateChildren, terminate := sc.running, reason := some r }
           ∧ s'.shutdown = true ∧ s'.shutdownReason = some r ∧ s'.wait = mkSet sc.running

theorem OFO.decision (s : OFO) (name pid : Nat) (r : Reason) (now : Int)
    (hsd : s.shutdown = false) (k : Nat) (c : ChildSpec)
    (hf : (scan name pid 0 s.spec).found = some (k, c)) (hen : c.disabled = false) :
    OFO.Meets (rule false s.restart.strategy r c.significant s.autoshutdown
                (scan name pid 0 s.spec).running.length
                (Window.check s.restarts now s.restart.periodMs s.restart.intensity).2)
      c (scan name pid 0 s.spec) (s.childTerminated name pid r now).1 (s.childTerminated name pid r now).2 := by
  unfold OFO.childTerminated
  simp only [hsd, hf, hen]
  cases hst : s.restart.strategy <;> cases r <;> cases hsg : c.significant <;>
    simp [OFO.Meets, rule, needsRestart, Reason.quiet, OFO.stopAll, OFO.autoShutdown, hsd] <;>
    (repeat' split) <;> simp_all
end ErgoVerif.Sup

import ErgoVerif.Model.LinkOps
import ErgoVerif.Lemmas.TM
namespace ErgoVerif.LinkOps
open ErgoVerif.TM

theorem notifOf_inj_on_target {a b : Key} (ht : a.target = b.target) (h : notifOf a = notifOf b) : a = b := by
  obtain ⟨ac, at_, am⟩ := a
  obtain ⟨bc, bt, bm⟩ := b
  simp only at ht
  subst ht
  simp only [notifOf, Notif.mk.injEq] at h
  obtain ⟨h1, h2, _⟩ := h
  subst h1
  cases am <;> cases bm <;> simp_all

/-- what one disappearing target produces -/
theorem goneStep_spec (w : World) (h : Inv w.tm) (t : Target) :
    let r := goneStep w t
    (∀ n ∈ r.2, n.target = t) ∧
    (∀ k : Key, k.target = t → (notifOf k ∈ r.2 ↔ k ∈ w.tm.rel)) ∧
    r.2.Nodup ∧
    r.1.tm.rel = w.tm.rel.filter (fun k => !decide (k.target = t)) ∧
    Inv r.1.tm ∧ r.1.sent = w.sent ++ r.2 := by
  obtain ⟨hrel, hmem, hnd, hinv⟩ := cleanupTarget_spec h t
  refine ⟨?_, ?_, ?_, hrel, hinv, rfl⟩
  · intro n hn
    simp only [goneStep, List.mem_map] at hn
    obtain ⟨k, hk, rfl⟩ := hn
    exact ((hmem k).mp hk).2
  · intro k hkt
    simp only [goneStep, List.mem_map]
    constructor
    · rintro ⟨k', hk', he⟩
      have ht' := ((hmem k').mp hk').2
      have : k' = k := notifOf_inj_on_target (by rw [ht', hkt]) he
      subst this
      exact ((hmem k').mp hk').1
    · intro hk
      exact ⟨k, (hmem k).mpr ⟨hk, hkt⟩, rfl⟩
  · simp only [goneStep]
    rw [List.Nodup, List.pairwise_map]
    have hnd' : List.Pairwise (fun a b => a ≠ b) (cleanupTarget w.tm t).2 := hnd
    refine List.Pairwise.imp_of_mem ?_ hnd'
    intro a b ha hb hne he
    exact hne (notifOf_inj_on_target (by rw [((hmem a).mp ha).2, ((hmem b).mp hb).2]) he)

theorem addRel_inv (w : World) (k : Key) (h : Inv w.tm) : Inv (addRel w k).1.tm := by
  unfold addRel
  split
  · exact add_inv k h
  · exact h

theorem delRel_inv (w : World) (k : Key) (h : Inv w.tm) : Inv (delRel w k).1.tm := by
  unfold delRel
  exact remove_inv k h

theorem goneAll_inv : ∀ (ts : List Target) (w : World), Inv w.tm → Inv (goneAll w ts).1.tm := by
  intro ts
  induction ts with
  | nil => intro w h; exact h
  | cons t ts ih => intro w h; exact ih _ (goneStep_spec w h t).2.2.2.2.1

theorem step_inv (w : World) (o : Op) (h : Inv w.tm) : Inv (step w o).1.tm := by
  cases o with
  | create t => exact h
  | link c t => exact addRel_inv w _ h
  | unlink c t => exact delRel_inv w _ h
  | monitor c t => exact addRel_inv w _ h
  | demonitor c t => exact delRel_inv w _ h
  | gone t => exact (goneStep_spec w h t).2.2.2.2.1
  | terminate p owned =>
    simp only [step]
    exact (cleanupConsumer_spec (goneAll_inv _ w h) p).2.2

theorem run_inv : ∀ (ops : List Op) (w : World), Inv w.tm → Inv (runOps w ops).tm := by
  intro ops
  induction ops with
  | nil => intro w h; exact h
  | cons o os ih => intro w h; exact ih _ (step_inv w o h)

/-- after draining a list of targets no relation on any of them remains, and nothing else was touched -/
theorem goneAll_rel : ∀ (ts : List Target) (w : World), Inv w.tm →
    (goneAll w ts).1.tm.rel = w.tm.rel.filter (fun k => !decide (k.target ∈ ts)) := by
  intro ts
  induction ts with
  | nil => intro w _; simp [goneAll]; symm; apply List.filter_eq_self.mpr; intro a _; rfl
  | cons t ts ih =>
    intro w h
    simp only [goneAll]
    have hs := goneStep_spec w h t
    rw [ih _ hs.2.2.2.2.1, hs.2.2.2.1, List.filter_filter]
    apply List.filter_congr
    intro k _
    by_cases h1 : k.target = t <;> by_cases h2 : k.target ∈ ts <;> simp [h1, h2]

end ErgoVerif.LinkOps

/-
parse ∘ print = id on valid ASTs: every spec of the grammar, printed canonically, is accepted by the
parser model and yields the same AST.
-/
import ErgoVerif.Lemmas.CronParse
namespace ErgoVerif.Cron
open ErgoVerif.Generated.Cron

/-! ### digits -/

theorem digitChar_spec : ∀ d, d < 10 → isDigit (digitChar d) = true ∧ (digitChar d).toNat - 48 = d := by decide

theorem digitsAux_all (f n : Nat) (acc : List Char) (h : ∀ c ∈ acc, isDigit c = true) :
    ∀ c ∈ digitsAux f n acc, isDigit c = true := by
  induction f generalizing n acc with
  | zero => simpa [digitsAux] using h
  | succ f ih =>
    have hd : isDigit (digitChar (n % 10)) = true := (digitChar_spec (n % 10) (Nat.mod_lt _ (by omega))).1
    have h' : ∀ c ∈ digitChar (n % 10) :: acc, isDigit c = true := by
      intro c hc
      rcases List.mem_cons.mp hc with rfl | hc
      · exact hd
      · exact h c hc
    simp only [digitsAux]
    split
    · exact h'
    · exact ih _ _ h'

theorem digitsAux_len (f n : Nat) (acc : List Char) : acc.length ≤ (digitsAux f n acc).length := by
  induction f generalizing n acc with
  | zero => simp [digitsAux]
  | succ f ih =>
    simp only [digitsAux]
    split
    · simp
    · have := ih (n / 10) (digitChar (n % 10) :: acc)
      simp at this; omega

theorem digits_all (n : Nat) : ∀ c ∈ digits n, isDigit c = true :=
  digitsAux_all (n + 1) n [] (by simp)

theorem digits_ne_nil (n : Nat) : digits n ≠ [] := by
  intro h
  have : ([] : List Char).length + 1 ≤ (digits n).length := by
    unfold digits
    simp only [digitsAux]
    split
    · simp
    · have := digitsAux_len n (n / 10) [digitChar (n % 10)]
      simpa using this
  rw [h] at this; simp at this

theorem allDigits_digits (n : Nat) : allDigits (digits n) = true := by
  unfold allDigits
  have h1 : (digits n).isEmpty = false := by
    cases h : digits n with
    | nil => exact absurd h (digits_ne_nil n)
    | cons _ _ => rfl
  simp only [h1, Bool.not_false, Bool.true_and, List.all_eq_true]
  exact digits_all n

theorem atoi_digitsAux (f n : Nat) (acc : List Char) (hf : n < f) :
    (digitsAux f n acc).foldl (fun a c => a * 10 + (c.toNat - 48)) 0 =
      acc.foldl (fun a c => a * 10 + (c.toNat - 48)) n := by
  induction f generalizing n acc with
  | zero => omega
  | succ f ih =>
    have hd := (digitChar_spec (n % 10) (Nat.mod_lt _ (by omega))).2
    simp only [digitsAux]
    split
    · rename_i h10
      simp only [List.foldl_cons, Nat.zero_mul, Nat.zero_add, hd]
      rw [Nat.mod_eq_of_lt h10]
    · rename_i h10
      rw [ih (n / 10) _ (by omega)]
      simp only [List.foldl_cons, hd]
      congr 1
      omega

theorem atoi_digits (n : Nat) : atoi (digits n) = n := by
  unfold atoi digits
  rw [atoi_digitsAux (n + 1) n [] (by omega)]
  rfl

theorem parseInt_digits (n lo hi : Nat) (h1 : lo ≤ n) (h2 : n ≤ hi) : parseInt (digits n) lo hi = some n := by
  unfold parseInt
  simp only [allDigits_digits, if_true, atoi_digits]
  have a : ¬ n < lo := by omega
  have b : ¬ n > hi := by omega
  simp [a, b]

theorem digits_small (n : Nat) (h : n < 10) : digits n = [digitChar n] := by
  unfold digits
  simp only [digitsAux, h, if_true]
  rw [Nat.mod_eq_of_lt h]

/-! ### characters -/

theorem digit_ne {c : Char} (h : isDigit c = true) (x : Char) (hx : isDigit x = false) : c ≠ x := by
  rintro rfl; rw [h] at hx; cases hx

theorem not_mem_digits (n : Nat) (x : Char) (hx : isDigit x = false) : x ∉ digits n := by
  intro h
  have := digits_all n x h
  rw [hx] at this; cases this

theorem digit_toNat {c : Char} (h : isDigit c = true) : 48 ≤ c.toNat ∧ c.toNat ≤ 57 := by
  unfold isDigit at h
  simp only [Bool.and_eq_true, decide_eq_true_eq] at h
  exact ⟨char_le_toNat h.1, char_le_toNat h.2⟩

/-- printable ASCII is not white space -/
theorem not_space_of_range (c : Char) (h1 : 33 ≤ c.toNat) (h2 : c.toNat ≤ 126) : isSpace c = false := by
  unfold isSpace
  have e1 : c ≠ ' ' := by rintro rfl; revert h1; decide
  have e2 : c ≠ '\t' := by rintro rfl; revert h1; decide
  have e3 : c ≠ '\n' := by rintro rfl; revert h1; decide
  have e4 : c ≠ '\r' := by rintro rfl; revert h1; decide
  simp only [e1, e2, e3, e4, decide_false, Bool.false_or, Bool.or_eq_false_iff, Bool.and_eq_false_iff,
    decide_eq_false_iff_not]
  omega

/-- the characters the printer emits inside one option -/
def optChar (c : Char) : Bool := isDigit c || c = '-' || c = '/' || c = '*' || c = '#' || c = 'L'

theorem optChar_props {c : Char} (h : optChar c = true) : c ≠ ',' ∧ c ≠ '@' ∧ 33 ≤ c.toNat ∧ c.toNat ≤ 126 := by
  unfold optChar at h
  simp only [Bool.or_eq_true, decide_eq_true_eq] at h
  rcases h with ((((h | rfl) | rfl) | rfl) | rfl) | rfl
  · have := digit_toNat h
    refine ⟨digit_ne h _ (by decide), digit_ne h _ (by decide), by omega, by omega⟩
  all_goals decide

theorem optChar_digits (n : Nat) : ∀ c ∈ digits n, optChar c = true := by
  intro c hc; simp [optChar, digits_all n c hc]

theorem optChar_print (i : Item) : ∀ c ∈ i.print, optChar c = true := by
  intro c hc
  cases i <;> simp only [Item.print, List.mem_append, List.mem_cons, List.not_mem_nil, or_false] at hc
  all_goals
    first
    | exact optChar_digits _ c hc
    | (rcases hc with hc | rfl | hc | rfl | hc <;> first | exact optChar_digits _ c hc | decide)
    | (rcases hc with hc | rfl | hc <;> first | exact optChar_digits _ c hc | decide)
    | (rcases hc with rfl | rfl | hc <;> first | exact optChar_digits _ c hc | decide)
    | (rcases hc with hc | rfl <;> first | exact optChar_digits _ c hc | decide)
    | (subst hc; decide)

/-! ### splitOn / joinWith / fields -/

theorem splitOn_none (sep : Char) (cs : List Char) (h : sep ∉ cs) : splitOn sep cs = [cs] := by
  induction cs with
  | nil => rfl
  | cons c rest ih =>
    have hc : c ≠ sep := fun e => h (e ▸ List.mem_cons_self)
    have hr : sep ∉ rest := fun e => h (List.mem_cons_of_mem _ e)
    simp [splitOn, hc, ih hr]

theorem splitOn_append (sep : Char) (a b : List Char) (h : sep ∉ a) :
    splitOn sep (a ++ sep :: b) = a :: splitOn sep b := by
  induction a with
  | nil => simp [splitOn]
  | cons c rest ih =>
    have hc : c ≠ sep := fun e => h (e ▸ List.mem_cons_self)
    have hr : sep ∉ rest := fun e => h (List.mem_cons_of_mem _ e)
    simp [splitOn, hc, ih hr]

theorem splitOn_joinWith (sep : Char) (xs : List (List Char)) (hne : xs ≠ []) (h : ∀ x ∈ xs, sep ∉ x) :
    splitOn sep (joinWith sep xs) = xs := by
  induction xs with
  | nil => exact absurd rfl hne
  | cons x rest ih =>
    cases rest with
    | nil => simp [joinWith, splitOn_none sep x (h x List.mem_cons_self)]
    | cons y r =>
      simp only [joinWith]
      rw [splitOn_append sep x _ (h x List.mem_cons_self), ih (by simp) (fun z hz => h z (List.mem_cons_of_mem _ hz))]

theorem fieldsAux_word (w rest cur : List Char) (h : ∀ c ∈ w, isSpace c = false) :
    fieldsAux (w ++ rest) cur = fieldsAux rest (w.reverse ++ cur) := by
  induction w generalizing cur with
  | nil => simp
  | cons c r ih =>
    have hc := h c List.mem_cons_self
    simp only [List.cons_append, fieldsAux, hc, Bool.false_eq_true, if_false]
    rw [ih _ (fun x hx => h x (List.mem_cons_of_mem _ hx))]
    simp

theorem fields_joinWith (ws : List (List Char)) (h : ∀ w ∈ ws, w ≠ [] ∧ ∀ c ∈ w, isSpace c = false) :
    fields (joinWith ' ' ws) = ws := by
  unfold fields
  induction ws with
  | nil => simp [joinWith, fieldsAux]
  | cons w rest ih =>
    obtain ⟨hne, hsp⟩ := h w List.mem_cons_self
    have hemp : (w.reverse ++ ([] : List Char)).isEmpty = false := by
      cases w with
      | nil => exact absurd rfl hne
      | cons a b => simp
    cases rest with
    | nil =>
      simp only [joinWith]
      have := fieldsAux_word w [] [] hsp
      rw [List.append_nil] at this
      rw [this]
      simp only [fieldsAux, hemp, Bool.false_eq_true, if_false]
      simp
    | cons y r =>
      simp only [joinWith]
      rw [fieldsAux_word w _ [] hsp]
      have hs : isSpace ' ' = true := by decide
      simp only [fieldsAux, hs, if_true, hemp, Bool.false_eq_true, if_false]
      rw [ih (fun z hz => h z (List.mem_cons_of_mem _ hz))]
      simp



/-! ### shapes of printed options -/

theorem digits_head (n : Nat) : ∃ c rest, digits n = c :: rest ∧ isDigit c = true := by
  cases h : digits n with
  | nil => exact absurd h (digits_ne_nil n)
  | cons c rest => exact ⟨c, rest, rfl, digits_all n c (h ▸ List.mem_cons_self)⟩

/-- a text starting with a digit is none of "*", "L", "*/…" -/
theorem shape_digit_head (c : Char) (rest : List Char) (hc : isDigit c = true) :
    shape (c :: rest) = shapeTail (c :: rest) := by
  have e1 : c ≠ '*' := digit_ne hc _ (by decide)
  have e2 : c ≠ 'L' := digit_ne hc _ (by decide)
  unfold shape
  simp [e1, e2]

theorem shape_num (n : Nat) : shape (digits n) = some (.num (digits n)) := by
  obtain ⟨c, rest, hd, hc⟩ := digits_head n
  rw [hd, shape_digit_head c rest hc, ← hd]
  unfold shapeTail
  rw [splitOn_none '-' _ (not_mem_digits n _ (by decide))]
  simp only
  rw [splitOn_none '#' _ (not_mem_digits n _ (by decide))]
  simp only
  rw [splitOn_none 'L' _ (not_mem_digits n _ (by decide))]
  simp [allDigits_digits]

theorem shape_range (a b : Nat) : shape (digits a ++ '-' :: digits b) = some (.range (digits a) (digits b)) := by
  obtain ⟨c, rest, hd, hc⟩ := digits_head a
  have : digits a ++ '-' :: digits b = c :: (rest ++ '-' :: digits b) := by rw [hd]; rfl
  rw [this, shape_digit_head c _ hc, ← this]
  unfold shapeTail
  rw [splitOn_append '-' _ _ (not_mem_digits a _ (by decide)), splitOn_none '-' _ (not_mem_digits b _ (by decide))]
  simp only [allDigits_digits, if_true]
  rw [splitOn_none '/' _ (not_mem_digits b _ (by decide))]
  simp [allDigits_digits]

theorem shape_rangeStep (a b s : Nat) :
    shape (digits a ++ '-' :: (digits b ++ '/' :: digits s)) = some (.rangeStep (digits a) (digits b) (digits s)) := by
  obtain ⟨c, rest, hd, hc⟩ := digits_head a
  have : digits a ++ '-' :: (digits b ++ '/' :: digits s) = c :: (rest ++ '-' :: (digits b ++ '/' :: digits s)) := by
    rw [hd]; rfl
  rw [this, shape_digit_head c _ hc, ← this]
  unfold shapeTail
  have hno : '-' ∉ digits b ++ '/' :: digits s := by
    simp only [List.mem_append, List.mem_cons, not_or]
    exact ⟨not_mem_digits b _ (by decide), by decide, not_mem_digits s _ (by decide)⟩
  rw [splitOn_append '-' _ _ (not_mem_digits a _ (by decide)), splitOn_none '-' _ hno]
  simp only [allDigits_digits, if_true]
  rw [splitOn_append '/' _ _ (not_mem_digits b _ (by decide)), splitOn_none '/' _ (not_mem_digits s _ (by decide))]
  simp [allDigits_digits]

theorem shape_starStep (s : Nat) : shape ('*' :: '/' :: digits s) = some (.starStep (digits s)) := by
  unfold shape
  have h1 : ('*' :: '/' :: digits s) ≠ ['*'] := by simp
  have h2 : ('*' :: '/' :: digits s) ≠ ['L'] := by simp
  simp [h1, allDigits_digits]

/-! ### parseOption ∘ print -/

theorem parseOption_lastW : ∀ w, w < 8 → 1 ≤ w →
    parseOption .wday (Item.print (.lastW w)) = some (.item (.lastW w)) := by decide

theorem parseOption_nth : ∀ w, w < 8 → 1 ≤ w → ∀ n, n < 6 → 1 ≤ n →
    parseOption .wday (Item.print (.nth w n)) = some (.item (.nth w n)) := by decide

theorem parseOption_print (k : Kind) (i : Item) (hv : i.valid k = true) :
    parseOption k i.print = some (.item i) := by
  cases i with
  | num n =>
    simp only [Item.valid, Bool.and_eq_true, decide_eq_true_eq] at hv
    simp only [parseOption, Item.print, shape_num, regexAllows, Bool.true_eq_false, if_false,
      parseInt_digits n k.lo k.hi hv.1 hv.2, Option.map_some]
  | range a b =>
    simp only [Item.valid, Bool.and_eq_true, decide_eq_true_eq] at hv
    obtain ⟨⟨h1, h2⟩, h3⟩ := hv
    have hgt : ¬ a > b := by omega
    simp only [parseOption, Item.print, shape_range, regexAllows, Bool.true_eq_false, if_false,
      parseInt_digits a k.lo k.hi h1 (by omega), parseInt_digits b k.lo k.hi (by omega) h3, hgt]
  | rangeStep a b s =>
    simp only [Item.valid, Bool.and_eq_true, decide_eq_true_eq] at hv
    obtain ⟨⟨⟨⟨⟨h0, h1⟩, h2⟩, h3⟩, h4⟩, h5⟩ := hv
    have hgt : ¬ a > b := by omega
    simp only [parseOption, Item.print, shape_rangeStep, regexAllows, h0, Bool.true_eq_false, if_false,
      parseInt_digits a k.lo k.hi h1 (by omega), parseInt_digits b k.lo k.hi (by omega) h3,
      parseInt_digits s 1 k.hi h4 h5, hgt]
  | starStep s =>
    simp only [Item.valid, Bool.and_eq_true, decide_eq_true_eq] at hv
    obtain ⟨⟨h0, h1⟩, h2⟩ := hv
    simp only [parseOption, Item.print, shape_starStep, regexAllows, h0, Bool.true_eq_false, if_false,
      parseInt_digits s 1 k.hi h1 h2, Option.map_some]
  | last =>
    simp only [Item.valid, decide_eq_true_eq] at hv
    subst hv
    decide
  | lastW w =>
    simp only [Item.valid, Bool.and_eq_true, decide_eq_true_eq] at hv
    obtain ⟨⟨hk, h1⟩, h2⟩ := hv
    subst hk
    exact parseOption_lastW w (by omega) h1
  | nth w n =>
    simp only [Item.valid, Bool.and_eq_true, decide_eq_true_eq] at hv
    obtain ⟨⟨⟨⟨hk, h1⟩, h2⟩, h3⟩, h4⟩ := hv
    subst hk
    exact parseOption_nth w (by omega) h1 n (by omega) h3

theorem parseOptions_print (k : Kind) (items : List Item) (hv : ∀ i ∈ items, i.valid k = true) :
    parseOptions k (items.map Item.print) = some items := by
  induction items with
  | nil => rfl
  | cons i rest ih =>
    simp only [List.map_cons, parseOptions, parseOption_print k i (hv i List.mem_cons_self)]
    rw [ih (fun j hj => hv j (List.mem_cons_of_mem _ hj))]
    rfl

theorem print_no_comma (i : Item) : ',' ∉ i.print := by
  intro h
  exact (optChar_props (optChar_print i _ h)).1 rfl

theorem parseField_print (k : Kind) (f : Field) (hv : f.valid k = true) : parseField k f.print = some f := by
  cases f with
  | star => cases k <;> decide
  | list items =>
    simp only [Field.valid, Bool.and_eq_true, Bool.not_eq_true', List.all_eq_true] at hv
    obtain ⟨hne, hv⟩ := hv
    have hne' : items.map Item.print ≠ [] := by
      intro h; simp at h; simp [h] at hne
    have hsplit : splitOn ',' (Field.print (.list items)) = items.map Item.print := by
      simp only [Field.print]
      apply splitOn_joinWith ',' _ hne'
      intro x hx
      obtain ⟨i, _, rfl⟩ := List.mem_map.mp hx
      exact print_no_comma i
    unfold parseField
    simp only [hsplit]
    cases items with
    | nil => simp at hne
    | cons i rest =>
      cases rest with
      | nil =>
        simp only [List.map_cons, List.map_nil, parseOption_print k i (hv i List.mem_cons_self)]
      | cons j r =>
        have := parseOptions_print k (i :: j :: r) hv
        simp only [List.map_cons] at this ⊢
        rw [this]
        rfl

/-! ### the whole spec -/

theorem field_print_chars (f : Field) : ∀ c ∈ f.print, optChar c = true ∨ c = ',' := by
  cases f with
  | star => intro c hc; simp [Field.print] at hc; subst hc; left; decide
  | list items =>
    simp only [Field.print]
    induction items with
    | nil => intro c hc; simp [joinWith] at hc
    | cons i rest ih =>
      cases rest with
      | nil => intro c hc; simp only [List.map_cons, List.map_nil, joinWith] at hc; exact Or.inl (optChar_print i c hc)
      | cons j r =>
        intro c hc
        simp only [List.map_cons, joinWith, List.mem_append, List.mem_cons] at hc
        rcases hc with hc | rfl | hc
        · exact Or.inl (optChar_print i c hc)
        · exact Or.inr rfl
        · exact ih c (by simpa [List.map_cons] using hc)

theorem field_print_ne_nil (k : Kind) (f : Field) (hv : f.valid k = true) : f.print ≠ [] := by
  intro h
  have := parseField_print k f hv
  rw [h] at this
  cases k <;> simp [parseField, splitOn, parseOption, shape, shapeTail, single, allDigits] at this

theorem field_print_no_space (f : Field) : ∀ c ∈ f.print, isSpace c = false := by
  intro c hc
  rcases field_print_chars f c hc with h | rfl
  · have := optChar_props h
    exact not_space_of_range c this.2.2.1 this.2.2.2
  · decide

theorem field_print_no_at (f : Field) : '@' ∉ f.print := by
  intro hc
  rcases field_print_chars f _ hc with h | h
  · exact (optChar_props h).2.1 rfl
  · revert h; decide

theorem macros_at : ∀ m ∈ macros, m.1.toList.head? = some '@' := by decide

theorem expandMacro_print (s : Spec) : expandMacro s.print = s.print := by
  unfold expandMacro
  have : macros.find? (fun m => m.1.toList = s.print) = none := by
    rw [List.find?_eq_none]
    intro m hm heq
    simp only [decide_eq_true_eq] at heq
    have hh := macros_at m hm
    rw [heq] at hh
    have hmem : '@' ∈ s.print := by
      cases hp : s.print with
      | nil => rw [hp] at hh; simp at hh
      | cons c r => rw [hp] at hh; simp at hh; subst hh; exact List.mem_cons_self
    simp only [Spec.print, joinWith, List.mem_append, List.mem_cons] at hmem
    have hsp : ('@' : Char) ≠ ' ' := by decide
    rcases hmem with h | h | h | h | h | h | h | h | h
    · exact field_print_no_at _ h
    · exact hsp h
    · exact field_print_no_at _ h
    · exact hsp h
    · exact field_print_no_at _ h
    · exact hsp h
    · exact field_print_no_at _ h
    · exact hsp h
    · exact field_print_no_at _ h
  rw [this]

/-- parse ∘ print = id on the grammar -/
theorem parseSpec_print (s : Spec) (hv : s.valid = true) : parseSpec s.print = some s := by
  simp only [Spec.valid, Bool.and_eq_true] at hv
  obtain ⟨⟨⟨⟨h1, h2⟩, h3⟩, h4⟩, h5⟩ := hv
  unfold parseSpec
  rw [expandMacro_print]
  have hf : fields s.print = [s.minute.print, s.hour.print, s.day.print, s.month.print, s.wday.print] := by
    unfold Spec.print
    apply fields_joinWith
    intro w hw
    simp only [List.mem_cons, List.not_mem_nil, or_false] at hw
    rcases hw with rfl | rfl | rfl | rfl | rfl
    · exact ⟨field_print_ne_nil _ _ h1, field_print_no_space _⟩
    · exact ⟨field_print_ne_nil _ _ h2, field_print_no_space _⟩
    · exact ⟨field_print_ne_nil _ _ h3, field_print_no_space _⟩
    · exact ⟨field_print_ne_nil _ _ h4, field_print_no_space _⟩
    · exact ⟨field_print_ne_nil _ _ h5, field_print_no_space _⟩
  rw [hf]
  simp only [parseField_print _ _ h1, parseField_print _ _ h2, parseField_print _ _ h3, parseField_print _ _ h4,
    parseField_print _ _ h5]

end ErgoVerif.Cron

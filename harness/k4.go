package main

// K4 — puppet node: a real node whose processes are puppets. A puppet executes closures sent by the harness
// inside its own callbacks (so every framework API is called from a legitimate process context) and appends
// every callback invocation to its log. After each command the harness waits for quiescence (all puppet
// mailboxes empty and nobody running, twice in a row), so sequential histories are deterministic.

import (
	"fmt"
	"sync"
	"sync/atomic"
	"time"

	"ergo.services/ergo/act"
	"ergo.services/ergo/gen"
)

type k4rec struct {
	posHint int // number of messages given to onMsg before this record (merging the two logs)
	Kind    string // msg | call | event | terminate | exitpid | exitname | exitalias | exitevent | exitnode | downpid | downname | downalias | downevent | downnode
	From gen.PID
	Ref  gen.Ref
	Data any
	Err  error
}

type k4exec struct {
	fn   func(p *Puppet)
	done chan struct{}
}

type k4block struct {
	entered chan struct{}
	gate    chan struct{}
}

type Puppet struct {
	act.Actor
	k     *K4
	Tag   string
	trap  bool
	mu    sync.Mutex
	log   []k4rec
	calls func(p *Puppet, from gen.PID, ref gen.Ref, req any) (any, error) // request behaviour
	onMsg func(p *Puppet, from gen.PID, m any) error                       // optional override for plain messages
	onLog func(p *Puppet, m gen.MessageLog) error                          // when the puppet is registered as a logger
	termd  atomic.Bool
	nOnMsg atomic.Int32
}

type K4 struct {
	TM      gen.TargetManager // the node's TargetManager instance when the harness supplied it
	Node    gen.Node
	mu      sync.Mutex
	puppets map[gen.PID]*Puppet
	seq     int32
}

func NewK4(prefix string) (*K4, error) {
	n, err := startQuietNode(prefix)
	if err != nil {
		return nil, err
	}
	return &K4{Node: n, puppets: map[gen.PID]*Puppet{}}, nil
}

func (k *K4) Stop() { k.Node.StopForce() }

func (p *Puppet) rec(r k4rec) {
	r.posHint = int(p.nOnMsg.Load())
	p.mu.Lock()
	p.log = append(p.log, r)
	p.mu.Unlock()
}

func (p *Puppet) Log() []k4rec {
	p.mu.Lock()
	defer p.mu.Unlock()
	return append([]k4rec(nil), p.log...)
}

func (p *Puppet) ClearLog() {
	p.mu.Lock()
	p.log = nil
	p.mu.Unlock()
}

func (p *Puppet) Init(args ...any) error {
	if p.trap {
		p.SetTrapExit(true)
	}
	return nil
}

func (p *Puppet) HandleMessage(from gen.PID, m any) error {
	switch x := m.(type) {
	case k4exec:
		x.fn(p)
		close(x.done)
		return nil
	case k4block:
		close(x.entered)
		<-x.gate
		return nil
	case k4stop:
		return x.reason
	case gen.MessageExitPID:
		p.rec(k4rec{Kind: "exitpid", From: from, Data: x.PID, Err: x.Reason})
	case gen.MessageExitProcessID:
		p.rec(k4rec{Kind: "exitname", From: from, Data: x.ProcessID, Err: x.Reason})
	case gen.MessageExitAlias:
		p.rec(k4rec{Kind: "exitalias", From: from, Data: x.Alias, Err: x.Reason})
	case gen.MessageExitEvent:
		p.rec(k4rec{Kind: "exitevent", From: from, Data: x.Event, Err: x.Reason})
	case gen.MessageExitNode:
		p.rec(k4rec{Kind: "exitnode", From: from, Data: x.Name})
	case gen.MessageDownPID:
		p.rec(k4rec{Kind: "downpid", From: from, Data: x.PID, Err: x.Reason})
	case gen.MessageDownProcessID:
		p.rec(k4rec{Kind: "downname", From: from, Data: x.ProcessID, Err: x.Reason})
	case gen.MessageDownAlias:
		p.rec(k4rec{Kind: "downalias", From: from, Data: x.Alias, Err: x.Reason})
	case gen.MessageDownEvent:
		p.rec(k4rec{Kind: "downevent", From: from, Data: x.Event, Err: x.Reason})
	case gen.MessageDownNode:
		p.rec(k4rec{Kind: "downnode", From: from, Data: x.Name})
	default:
		if p.onMsg != nil {
			p.nOnMsg.Add(1)
			return p.onMsg(p, from, m)
		}
		p.rec(k4rec{Kind: "msg", From: from, Data: m})
	}
	return nil
}

type k4stop struct{ reason error }

func (p *Puppet) HandleCall(from gen.PID, ref gen.Ref, req any) (any, error) {
	p.rec(k4rec{Kind: "call", From: from, Ref: ref, Data: req})
	if p.calls != nil {
		return p.calls(p, from, ref, req)
	}
	return req, nil
}

func (p *Puppet) HandleLog(m gen.MessageLog) error {
	if p.onLog != nil {
		return p.onLog(p, m)
	}
	return nil
}

func (p *Puppet) HandleEvent(ev gen.MessageEvent) error {
	p.rec(k4rec{Kind: "event", Data: ev})
	return nil
}

func (p *Puppet) Terminate(reason error) {
	p.termd.Store(true)
	p.rec(k4rec{Kind: "terminate", Err: reason})
}

// Spawn creates a puppet (trap = trap exit signals so that they show up in the log).
func (k *K4) Spawn(tag string, trap bool, opts gen.ProcessOptions, name gen.Atom) (*Puppet, gen.PID, error) {
	pp := &Puppet{k: k, Tag: tag, trap: trap}
	factory := func() gen.ProcessBehavior { return pp }
	var pid gen.PID
	var err error
	if name != "" {
		pid, err = k.Node.SpawnRegister(name, factory, opts)
	} else {
		pid, err = k.Node.Spawn(factory, opts)
	}
	if err != nil {
		return nil, pid, err
	}
	k.mu.Lock()
	k.puppets[pid] = pp
	k.mu.Unlock()
	return pp, pid, nil
}

// Adopt registers a puppet that was spawned by other means (e.g. as a child) for quiescence detection.
func (k *K4) Adopt(pid gen.PID, pp *Puppet) {
	k.mu.Lock()
	k.puppets[pid] = pp
	k.mu.Unlock()
}

var errK4Timeout = fmt.Errorf("k4: timeout")

// Exec runs fn inside the puppet's HandleMessage and waits for it to finish.
func (k *K4) Exec(pid gen.PID, fn func(p *Puppet)) error {
	done := make(chan struct{})
	if err := k.Node.Send(pid, k4exec{fn, done}); err != nil {
		return err
	}
	select {
	case <-done:
		return nil
	case <-time.After(5 * time.Second):
		return errK4Timeout
	}
}

// ExecAsync starts fn in the puppet without waiting.
func (k *K4) ExecAsync(pid gen.PID, fn func(p *Puppet)) (chan struct{}, error) {
	done := make(chan struct{})
	err := k.Node.Send(pid, k4exec{fn, done})
	return done, err
}

// Block parks the puppet inside a callback; returns the release function.
func (k *K4) Block(pid gen.PID) (func(), error) {
	b := k4block{entered: make(chan struct{}), gate: make(chan struct{})}
	if err := k.Node.Send(pid, b); err != nil {
		return nil, err
	}
	select {
	case <-b.entered:
	case <-time.After(5 * time.Second):
		return nil, errK4Timeout
	}
	return func() { close(b.gate) }, nil
}

// Quiesce waits until no puppet has queued messages or is running, in two consecutive polls.
func (k *K4) Quiesce(extra ...gen.PID) bool {
	deadline := time.Now().Add(5 * time.Second)
	calm := 0
	for time.Now().Before(deadline) {
		k.mu.Lock()
		pids := make([]gen.PID, 0, len(k.puppets)+len(extra))
		for pid := range k.puppets {
			pids = append(pids, pid)
		}
		k.mu.Unlock()
		pids = append(pids, extra...)
		busy := false
		for _, pid := range pids {
			info, err := k.Node.ProcessInfo(pid)
			if err != nil {
				continue // gone
			}
			q := info.MailboxQueues
			if q.Main+q.System+q.Urgent+q.Log > 0 || (info.State != gen.ProcessStateSleep && info.State != gen.ProcessStateTerminated) {
				busy = true
				break
			}
		}
		if !busy {
			calm++
			if calm >= 2 {
				return true
			}
			time.Sleep(100 * time.Microsecond)
			continue
		}
		calm = 0
		time.Sleep(200 * time.Microsecond)
	}
	return false
}

func (k *K4) Alive(pid gen.PID) bool {
	_, err := k.Node.ProcessInfo(pid)
	return err == nil
}

func (k *K4) Name() gen.Atom { return k.Node.Name() }

func (k *K4) resetPuppets() {
	k.mu.Lock()
	k.puppets = map[gen.PID]*Puppet{}
	k.mu.Unlock()
}

func (k *K4) NextName(prefix string) gen.Atom {
	return gen.Atom(fmt.Sprintf("%s_%d", prefix, atomic.AddInt32(&k.seq, 1)))
}

package main

import (
	"fmt"
	"go/ast"
)

// adds to Generated/App.lean's companion Generated/AppStart.lean: in the roll-back of a failed start
// (application.start, the branch taken when a.node.spawn returns an error) the members spawned so far are removed from
// the group (a.group.Delete) before the state goes back to loaded (atomic.StoreInt32(&a.state, …Loaded)) and before
// they are killed (a.node.Kill).

func init() {
	generators = append(generators, generator{name: "AppStart", run: genAppStart,
		fallback: "namespace ErgoVerif.Gen.AppStart\ndef rollbackRemovesMembers : Bool := false\nend ErgoVerif.Gen.AppStart\n"})
}

func genAppStart() (string, error) {
	f, err := parseFile("node/application.go")
	if err != nil {
		return "", err
	}
	fd := funcDecl(f, "application", "start")
	if fd == nil {
		return "", fmt.Errorf("application.start not found")
	}
	// the error branch: `if err != nil { … return err }` that follows `pid, err := a.node.spawn(...)`
	var branch *ast.BlockStmt
	ast.Inspect(fd.Body, func(n ast.Node) bool {
		b, ok := n.(*ast.BlockStmt)
		if !ok || branch != nil {
			return branch == nil
		}
		for i := 0; i+1 < len(b.List); i++ {
			as, ok := b.List[i].(*ast.AssignStmt)
			if !ok || len(as.Rhs) != 1 || !containsCall(as, "a.node.spawn") {
				continue
			}
			if is, ok := b.List[i+1].(*ast.IfStmt); ok {
				if be, ok := is.Cond.(*ast.BinaryExpr); ok && selName(be.X) == "err" && selName(be.Y) == "nil" {
					branch = is.Body
				}
			}
		}
		return branch == nil
	})
	if branch == nil {
		return "", fmt.Errorf("application.start: the roll-back branch after a.node.spawn was not found")
	}
	del, store, kill := 0, 0, 0
	ast.Inspect(branch, func(n ast.Node) bool {
		if c, ok := n.(*ast.CallExpr); ok {
			switch selName(c.Fun) {
			case "a.group.Delete":
				if del == 0 {
					del = int(c.Pos())
				}
			case "atomic.StoreInt32":
				if store == 0 {
					store = int(c.Pos())
				}
			case "a.node.Kill":
				if kill == 0 {
					kill = int(c.Pos())
				}
			}
		}
		return true
	})
	if store == 0 || kill == 0 {
		return "", fmt.Errorf("application.start: roll-back without state store / Kill")
	}
	ok := del != 0 && del < store && del < kill && store < kill
	return fmt.Sprintf("namespace ErgoVerif.Gen.AppStart\n/-- the roll-back of a failed start removes the members from the group, then stores `loaded`, then kills them -/\ndef rollbackRemovesMembers : Bool := %s\nend ErgoVerif.Gen.AppStart\n", leanBool(ok)), nil
}

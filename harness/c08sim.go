package main

import (
	"fmt"
	"sort"
	"strings"

	"ergo.services/ergo/act"
)

// Closed-system simulation around the REAL supervisor state machine: a Go copy of
// Supervisor.handleAction and of the MessageExitPID dispatch of Supervisor.ProcessRun
// (act/supervisor.go), children that can die at any moment, spawn that can fail (and must fail
// with a registered name that is still taken), management calls.  On top of it an oracle of the
// documented rules that looks only at the configuration and at the events
// (started / exit sent / died / supervisor terminated), never at the fields of the machine.

var supSigCount = map[string]int{}

type simExit struct {
	pid    uint64
	reason string
}
type simEvent struct {
	Kind   string // start, exit, died, term, api, foreign
	Name   int
	Pid    uint64
	Reason string
}

type supSim struct {
	c   *Ctx
	g   *Rng
	cfg supCfg
	run *supRun

	kids     map[uint64]int // Supervisor.children
	alive    map[uint64]int // ghost: processes really running, pid -> spec name
	args     map[uint64]int
	exitSent map[uint64]string
	loopLines []string // labels of the closed system, for the Lean driver `suploop`
	loopObs   []string
	bits      []bool // spawn decisions of the current callback
	sentCount int
	smallGaps bool  // K4: everything happens within a few milliseconds, as on the real node
	fixedGap  int64 // >= 0: use this clock advance for the next delivery
	awaited   map[uint64]bool // targets of the most recent stop request of the restart strategy
	dying     uint64
	exitByAPI map[uint64]bool // the exit was requested by DisableChild (not by the restart strategy)
	inflight []simExit
	nextPid  uint64
	status   int // 0 running, 1 terminated, 2 panicked
	final    string
	events   []simEvent

	spawnFailQ  int // spawn fails with probability 1/spawnFailQ (0 = never)
	unreliable  bool // a spawn failed: the prescribed-set obligations are void from here on
	inDispatch  bool // inside the exit dispatch (a start there is a restart)
	lastStartIx int

	// oracle's own bookkeeping (from the configuration, API results and events only)
	order    []int        // spec names by index
	enabled  map[int]bool
	sig      map[int]bool
	lastExit map[int]string // reason of the last termination of a child of the spec
	exposedD25 map[int]bool
	fails    []int64 // times of failures that required a restart (window oracle)
	failsKnown bool

	staleOverwrite bool // D26 region entered (oracle-side classification)
	spontaneous bool // the exit being handled was not induced by the supervisor
	sawForeign  bool
	sigDied     bool
	restartFrom int // index of the child whose failure started the restart that is in progress, -1 = none
	stopAllPending bool // one-for-one sent exits from the exit dispatch: it is stopping all children
	startDuringShutdown bool // D27 region entered
	handledDeaths int
	violated      bool
}

func newSupSim(c *Ctx, g *Rng, cfg supCfg) *supSim {
	s := &supSim{c: c, g: g, cfg: cfg, kids: map[uint64]int{}, alive: map[uint64]int{}, args: map[uint64]int{}, exitSent: map[uint64]string{}, exitByAPI: map[uint64]bool{},
		nextPid: 0, fixedGap: -1, restartFrom: -1, enabled: map[int]bool{}, sig: map[int]bool{}, lastExit: map[int]string{}, exposedD25: map[int]bool{}, failsKnown: true}
	for _, ch := range cfg.Children {
		s.order = append(s.order, ch.Name)
		s.enabled[ch.Name] = true
		s.sig[ch.Name] = ch.Sig
	}
	return s
}

func (s *supSim) ev(kind string, name int, pid uint64, reason string) {
	s.events = append(s.events, simEvent{kind, name, pid, reason})
}
func (s *supSim) eventsS() string {
	var sb strings.Builder
	for i, e := range s.events {
		if i > 60 {
			sb.WriteString(" ...")
			break
		}
		fmt.Fprintf(&sb, " %s(%d,%d,%s)", e.Kind, e.Name, e.Pid, e.Reason)
	}
	return sb.String()
}
func (s *supSim) replay() map[string]interface{} {
	return map[string]interface{}{"config": s.cfg, "machine_ops": append([]string(nil), s.run.lines...), "events": s.eventsS()}
}
func (s *supSim) violation(sig, what string) {
	if s.violated {
		return
	}
	if s.staleOverwrite {
		switch sig {
		case "C08/terminated-with-running-children", "C08/prescribed-set", "C08/duplicate-child", "C08/disabled-running", "C08/restart-scope", "C08/isolation":
			sig = "C08/D26-enable-before-exit-processed"
			what = "EnableChild started a new child while the exit of the spec's previous child was still unprocessed; the stale exit then cleared the new pid: " + what
		}
	}
	if s.startDuringShutdown && sig == "C08/terminated-with-running-children" {
		sig = "C08/D27-ofo-start-during-shutdown"
		what = "one-for-one accepted StartChild/AddChild/EnableChild while it was stopping all children; the new child is not waited for: " + what
	}
	s.violated = true
	supSigCount[sig]++
	s.c.R.Count("violation." + sig)
	if supSigCount[sig] <= 3 {
		s.c.R.Violation(sig, what, s.replay())
	}
}
func (s *supSim) idx(name int) int {
	for i, n := range s.order {
		if n == name {
			return i
		}
	}
	return -1
}
func (s *supSim) sortedAlive() []uint64 {
	l := make([]uint64, 0, len(s.alive))
	for p := range s.alive {
		l = append(l, p)
	}
	sort.Slice(l, func(i, j int) bool { return l[i] < l[j] })
	return l
}
func (s *supSim) pendingStops() []uint64 {
	var l []uint64
	for _, p := range s.sortedAlive() {
		if _, ok := s.exitSent[p]; ok {
			l = append(l, p)
		}
	}
	for _, e := range s.inflight {
		if _, ok := s.exitSent[e.pid]; ok {
			l = append(l, e.pid)
		}
	}
	return l
}

// ---- copy of Supervisor.handleAction -----------------------------------------------

func (s *supSim) panicked(where string) {
	s.status = 2
	pend := s.pendingStops()
	// D18 region: KeepOrder, a child that was NOT told to stop died while another one is being stopped
	// (or one whose stop was requested by DisableChild is still being waited for)
	byDisable := false
	for _, p := range pend {
		if s.exitByAPI[p] {
			byDisable = true
		}
	}
	if (s.cfg.Kind == "afo" || s.cfg.Kind == "rfo") && s.cfg.KO && len(pend) > 0 && where == "childTerminated" && (s.spontaneous || byDisable || !s.awaited[s.dying]) {
		s.violation("C08/D18-arfo-keeporder-panic", "all/rest-for-one with KeepOrder: panic(gen.ErrInternal) in childTerminated when a child died while another one was being stopped")
	} else {
		s.violation("C08/panic", "supervisor state machine panicked in "+where)
	}
}

// returns the error text handleAction returns ("" = nil)
func (s *supSim) handleAction(o supOut) string {
	a := o.A
	s.lastStartIx = -1
	for {
		switch a.Do {
		case 0:
			return ""
		case 1:
			name := supAtomN(a.Spec.Name)
			taken := false
			if a.Spec.Register {
				for _, n := range s.alive {
					if n == name {
						taken = true
					}
				}
			}
			fail := false
			if !taken {
				fail = s.spawnFailQ > 0 && s.g.Chance(1, s.spawnFailQ)
				s.bits = append(s.bits, !fail)
			}
			if taken || fail {
				s.unreliable = true
				s.c.R.Count("sim.spawn-failed")
				return "spawnerr"
			}
			if !s.inDispatch && s.stopAllPending {
				s.startDuringShutdown = true
				s.c.R.Count("sim.ofo-start-during-shutdown")
			}
			s.nextPid++
			pid := s.nextPid
			s.alive[pid] = name
			s.args[pid] = supArgsN(a.Spec.Args)
			s.kids[pid] = name
			s.ev("start", name, pid, "")
			s.oracleStart(name, a.Spec.I)
			o = s.run.started(a.Spec.I, name, supArgsN(a.Spec.Args), pid)
			if o.Panicked {
				s.panicked("childStarted")
				return "panic"
			}
			a = o.A
			continue
		case 2:
			if len(a.Terminate) == 0 {
				if a.Reason == nil {
					return ""
				}
				return supReasonS(a.Reason)
			}
			if s.inDispatch && s.cfg.Kind == "ofo" {
				s.stopAllPending = true
			}
			if s.inDispatch {
				s.awaited = map[uint64]bool{}
				for _, p := range a.Terminate {
					s.awaited[p.ID] = true
				}
			}
			s.sentCount += len(a.Terminate)
			for _, p := range a.Terminate {
				if _, ok := s.alive[p.ID]; ok {
					if _, dup := s.exitSent[p.ID]; !dup {
						s.exitSent[p.ID] = supReasonS(a.Reason)
						s.exitByAPI[p.ID] = !s.inDispatch
					}
					s.ev("exit", s.alive[p.ID], p.ID, supReasonS(a.Reason))
				} else {
					// SendExit to a process that is already dead (its exit message is still on the way)
					for _, e := range s.inflight {
						if e.pid == p.ID {
							if _, dup := s.exitSent[p.ID]; !dup {
								s.exitSent[p.ID] = supReasonS(a.Reason)
								s.exitByAPI[p.ID] = !s.inDispatch
							}
						}
					}
				}
			}
			return ""
		case 4:
			if a.Reason == nil {
				s.violation("C08/terminate-nil", "supActionTerminate with a nil reason: the supervisor would not terminate")
				return ""
			}
			return supReasonS(a.Reason)
		default:
			s.violation("C08/unknown-action", fmt.Sprintf("unknown action %d (handleAction panics)", a.Do))
			s.status = 2
			return "panic"
		}
	}
}

func (s *supSim) terminate(reason string) {
	s.status = 1
	s.final = reason
	s.ev("term", 0, 0, reason)
	if reason != "spawnerr" && reason != "exceeded" && !s.sawForeign && !s.sigDied && (s.cfg.DAS || s.cfg.Kind == "sofo") {
		s.violation("C08/unexpected-termination", fmt.Sprintf("supervisor terminated with %q although no significant child terminated, no foreign exit arrived, the restart intensity was not exceeded and auto-shutdown is disabled (or not applicable)", reason))
	}
	if reason != "spawnerr" && len(s.alive) > 0 {
		s.violation("C08/terminated-with-running-children",
			fmt.Sprintf("supervisor terminated (%s) while %d of its children were still running and had not been waited for", reason, len(s.alive)))
	}
}

// ---- the same history as labels of the Lean closed system ------------------------------

func (s *supSim) loopState() string {
	st := "running"
	switch s.status {
	case 1:
		if s.final == "spawnerr" {
			st = "spawnfailed"
		} else {
			st = "terminated:" + s.final
		}
	case 2:
		st = "panicked"
	}
	pairs := func(m map[uint64]int) string {
		if len(m) == 0 {
			return "-"
		}
		ks := make([]uint64, 0, len(m))
		for p := range m {
			ks = append(ks, p)
		}
		sort.Slice(ks, func(i, j int) bool { return ks[i] < ks[j] })
		ss := make([]string, len(ks))
		for i, p := range ks {
			ss[i] = fmt.Sprintf("%d:%d", p, m[p])
		}
		return strings.Join(ss, ",")
	}
	infl := "-"
	if len(s.inflight) > 0 {
		ss := make([]string, len(s.inflight))
		for i, e := range s.inflight {
			ss[i] = fmt.Sprintf("%d:%s", e.pid, e.reason)
		}
		infl = strings.Join(ss, ",")
	}
	return fmt.Sprintf("%s kids=%s alive=%s inflight=%s sent=%d next=%d | %s", st, pairs(s.kids), pairs(s.alive), infl, s.sentCount, s.nextPid+1, s.run.stateS())
}
func (s *supSim) bitsS() string {
	if len(s.bits) == 0 {
		return "-"
	}
	var sb strings.Builder
	for _, b := range s.bits {
		sb.WriteString(sb2s(b))
	}
	return sb.String()
}
func (s *supSim) logLabel(f string, a ...interface{}) {
	s.loopLines = append(s.loopLines, fmt.Sprintf(f, a...))
	s.loopObs = append(s.loopObs, s.loopState())
}

// ---- environment -------------------------------------------------------------------

func (s *supSim) initRun() {
	var o supOut
	s.run, o = newSupRun(s.cfg)
	if o.Panicked {
		s.panicked("init")
		return
	}
	if err := s.handleAction(o); err != "" {
		s.status = 1
		s.final = err
	}
	s.loopLines = append(s.loopLines, "boot"+strings.TrimPrefix(s.run.lines[0], "new"))
	s.loopObs = append(s.loopObs, s.loopState())
}

func (s *supSim) die(pid uint64, reason string) {
	if _, ok := s.alive[pid]; !ok || s.status != 0 {
		return
	}
	s.ev("died", s.alive[pid], pid, reason)
	delete(s.alive, pid)
	s.inflight = append(s.inflight, simExit{pid, reason})
	s.logLabel("die %d %s", pid, reason)
}

func (s *supSim) gap() int64 {
	pm := int64(s.cfg.Period) * 1000
	g := s.g
	if s.smallGaps {
		return 1
	}
	if len(s.fails) > 0 && g.Chance(1, 3) {
		tgt := s.fails[g.Intn(len(s.fails))] + pm + int64(g.Intn(3)) - 1
		if tgt >= s.run.vt {
			return tgt - s.run.vt
		}
	}
	switch g.Intn(5) {
	case 0:
		return 0
	case 1:
		return int64(g.Intn(30))
	case 2:
		return pm/int64(s.cfg.K+1) + int64(g.Intn(3)) - 1
	case 3:
		return pm + int64(g.Intn(5)) - 2
	}
	return int64(g.Intn(int(pm)))
}

// deliver: the MessageExitPID case of ProcessRun
func (s *supSim) deliver(i int) {
	if s.status != 0 || i >= len(s.inflight) {
		return
	}
	e := s.inflight[i]
	s.inflight = append(s.inflight[:i:i], s.inflight[i+1:]...)
	name, found := s.kids[e.pid]
	if found {
		delete(s.kids, e.pid)
	}
	_, induced := s.exitSent[e.pid]
	// D25 exposure (oracle-side classification only): a spontaneous death in rest-for-one without KeepOrder
	// while a child with a larger index is being stopped
	if s.cfg.Kind == "rfo" && !s.cfg.KO && !induced && s.restartFrom >= 0 && s.idx(name) < s.restartFrom {
		s.exposedD25[name] = true
	}
	nstart := s.countStarts()
	delete(s.exitSent, e.pid)
	s.dying = e.pid
	s.spontaneous = !induced
	if s.sig[name] {
		s.sigDied = true
	}
	s.lastExit[name] = e.reason
	s.handledDeaths++
	s.inDispatch = true
	s.bits = nil
	gap := s.fixedGap
	s.fixedGap = -1
	if gap < 0 {
		gap = s.gap()
	}
	o := s.run.terminated(name, e.pid, e.reason, gap)
	now := s.run.lastNow
	if o.Panicked {
		s.inDispatch = false
		s.panicked("childTerminated")
		s.logLabel("deliver %d %d -", e.pid, now)
		return
	}
	err := s.handleAction(o)
	s.inDispatch = false
	if s.status == 0 && err != "" {
		s.terminate(err)
	}
	s.logLabel("deliver %d %d %s", e.pid, now, s.bitsS())
	// oracle-side: is a restart in progress (stopping phase)?  From the rules and the events only.
	if s.countStarts() > nstart {
		s.restartFrom = -1
	} else if !induced && found && s.enabled[name] && s.restartFrom < 0 &&
		(s.cfg.Strategy == 2 || (s.cfg.Strategy == 0 && !quiet(e.reason))) {
		s.restartFrom = s.idx(name)
	}
}

func (s *supSim) countStarts() int {
	n := 0
	for _, e := range s.events {
		if e.Kind == "start" {
			n++
		}
	}
	return n
}

func (s *supSim) foreign(reason string) {
	if s.status != 0 {
		return
	}
	s.nextPid++
	fpid := s.nextPid
	s.ev("foreign", 0, fpid, reason)
	s.sawForeign = true
	s.spontaneous = true
	s.inDispatch = true
	s.bits = nil
	o := s.run.terminated(0, fpid, reason, s.gap())
	now := s.run.lastNow
	if o.Panicked {
		s.inDispatch = false
		s.panicked("childTerminated")
		s.logLabel("foreign %s %d -", reason, now)
		return
	}
	err := s.handleAction(o)
	s.inDispatch = false
	if s.status == 0 && err != "" {
		s.terminate(err)
	}
	s.logLabel("foreign %s %d %s", reason, now, s.bitsS())
}

func (s *supSim) api(op string, name int, arg int) {
	if s.status != 0 {
		return
	}
	var o supOut
	switch op {
	case "start":
		o = s.run.childSpec(name)
		if o.Err == nil && !o.Panicked && arg > 0 {
			o.A.Spec.Args = supArgs(arg)
		}
	case "add":
		o = s.run.addSpec(name, arg == 1)
		if o.Err == nil && !o.Panicked && s.idx(name) < 0 {
			s.order = append(s.order, name)
			s.enabled[name] = true
			s.sig[name] = arg == 1
		}
	case "enable":
		o = s.run.enable(name)
		if o.Err == nil && !o.Panicked && o.A.Do == 1 && s.staleExit(name) {
			s.staleOverwrite = true
			s.c.R.Count("sim.enable-before-exit-processed")
		}
		if o.Err == nil && !o.Panicked && s.idx(name) >= 0 {
			s.enabled[name] = true
		}
	case "disable":
		o = s.run.disable(name)
		if o.Err == nil && !o.Panicked && s.idx(name) >= 0 {
			s.enabled[name] = false // DisableChild returned nil: the spec is disabled from here on
		}
	}
	res := "ok"
	if o.Err != nil {
		res = supErrS(o.Err)
	}
	s.ev("api-"+op, name, 0, res)
	s.bits = nil
	if o.Panicked {
		s.panicked(op)
	} else if o.Err == nil {
		s.handleAction(o) // the error, if any, goes back to the caller of the API
	}
	switch op {
	case "start":
		s.logLabel("start %d %d %s", name, arg, s.bitsS())
	case "add":
		s.logLabel("add %d %d %s", name, arg, s.bitsS())
	case "enable":
		s.logLabel("enable %d %s", name, s.bitsS())
	case "disable":
		s.logLabel("disable %d", name)
	}
}

func (s *supSim) settle() {
	for it := 0; it < 200 && s.status == 0; it++ {
		progressed := false
		for _, p := range s.sortedAlive() {
			if _, ok := s.exitSent[p]; ok {
				// an actor that obeys an exit signal terminates with the WRAPPED reason ("<pid>: reason", act/actor.go),
				// which is never identical to Normal/Shutdown: `Reason.other (100 + code)` in the model
				s.die(p, supWrap(s.exitSent[p]))
				progressed = true
			}
		}
		for len(s.inflight) > 0 && s.status == 0 {
			s.deliver(0)
			progressed = true
		}
		if !progressed {
			break
		}
	}
}

// ---- oracle ------------------------------------------------------------------------

func quiet(r string) bool { return r == "normal" || r == "shutdown" }

func (s *supSim) oracleStart(name int, ix int) {
	if !s.enabled[name] && s.idx(name) >= 0 {
		s.violation("C08/disabled-started", fmt.Sprintf("a child of spec c%d was started although DisableChild succeeded for it and it was not enabled again", name))
	}
	if s.inDispatch && s.cfg.Strategy == 1 {
		s.violation("C08/temporary-restarted", fmt.Sprintf("Temporary strategy: child of spec c%d was restarted", name))
	}
	if s.cfg.Kind != "sofo" {
		if ix <= s.lastStartIx {
			s.violation("C08/start-order", fmt.Sprintf("children started out of spec order: index %d after %d", ix, s.lastStartIx))
		}
		s.lastStartIx = ix
	}
}

// obligations that hold at every settled point (no exit in flight, nobody being stopped)
func (s *supSim) checkSettled() {
	if s.status != 0 || s.violated {
		return
	}
	byName := map[int]int{}
	for _, n := range s.alive {
		byName[n]++
	}
	for _, n := range s.order {
		if !s.enabled[n] && byName[n] > 0 {
			s.violation("C08/disabled-running", fmt.Sprintf("spec c%d is disabled but a child of it is still running at quiescence", n))
			return
		}
	}
	if s.cfg.Kind == "sofo" || s.unreliable {
		return
	}
	for _, n := range s.order {
		if byName[n] > 1 {
			s.violation("C08/duplicate-child", fmt.Sprintf("two children of spec c%d are running", n))
			return
		}
		if !s.enabled[n] {
			continue
		}
		le, had := s.lastExit[n]
		need := s.cfg.Strategy == 2 || (s.cfg.Strategy == 0 && had && !quiet(le))
		if need && byName[n] == 0 {
			if s.exposedD25[n] {
				s.violation("C08/D25-rfo-earlier-child-lost", fmt.Sprintf("rest-for-one without KeepOrder: child c%d (before the restarting range) died while later children were being stopped and is never restarted", n))
			} else {
				s.violation("C08/prescribed-set", fmt.Sprintf("supervisor alive and quiescent, spec c%d enabled, strategy %d, last exit %q, but no child of it is running", n, s.cfg.Strategy, le))
			}
			return
		}
	}
}

func (s *supSim) windowCount(now int64) int {
	pm := int64(s.cfg.Period) * 1000
	cnt := 1
	for _, t := range s.fails {
		if now-t <= pm {
			cnt++
		}
	}
	return cnt
}

func (s *supSim) flushWindow() {
	s.run.vt += int64(s.cfg.Period)*1000 + 1 + int64(s.g.Intn(500))
	s.fails = nil
	s.failsKnown = true
}

// one spontaneous death from a settled state, everybody else obeys: the big-step rule (T10, T2-T5, T9, C09)
func (s *supSim) episodeSingle() {
	pids := s.sortedAlive()
	if len(pids) == 0 || s.status != 0 {
		return
	}
	g := s.g
	pid := pids[g.Intn(len(pids))]
	name := s.alive[pid]
	reason := supReasons[g.Intn(len(supReasons))]
	before := map[uint64]int{}
	beforeBy := map[int]uint64{}
	for p, n := range s.alive {
		before[p] = n
		beforeBy[n] = p
	}
	ev0 := len(s.events)
	maxPid := s.nextPid
	saveQ := s.spawnFailQ
	s.spawnFailQ = 0
	s.die(pid, reason)
	s.deliver(len(s.inflight) - 1)
	now := s.run.vt
	s.settle()
	s.spawnFailQ = saveQ
	if s.violated || s.status == 2 {
		return
	}
	sofo := s.cfg.Kind == "sofo"
	needs := s.cfg.Strategy == 2 || (s.cfg.Strategy == 0 && !quiet(reason))
	expectTerm := ""
	if !needs {
		if !sofo && s.sig[name] {
			expectTerm = reason
		} else if !sofo && len(before) == 1 && !s.cfg.DAS {
			expectTerm = reason
		}
	} else {
		cnt := s.windowCount(now)
		s.fails = append(s.fails, now)
		if s.failsKnown {
			if cnt > s.cfg.K {
				expectTerm = "exceeded"
				s.c.R.Count("sim.gave-up")
			} else {
				s.c.R.Count("sim.restart-within-limit")
			}
		}
	}
	what := fmt.Sprintf("%s strategy=%d keepOrder=%v: child c%d (pid %d) died with %q at quiescence", s.cfg.Kind, s.cfg.Strategy, s.cfg.KO, name, pid, reason)
	if expectTerm != "" {
		if s.status != 1 {
			sig := "C08/should-terminate"
			if expectTerm == "exceeded" {
				sig = "C09/no-give-up"
			}
			s.violation(sig, what+fmt.Sprintf("; the rules prescribe supervisor termination with %q but it is still running after all children obeyed", expectTerm))
			return
		}
		if s.final != expectTerm {
			sig := "C08/final-reason"
			if expectTerm == "exceeded" {
				sig = "C09/D5-exceeded-reason"
			}
			s.violation(sig, what+fmt.Sprintf("; supervisor must terminate with %q, terminated with %q", expectTerm, s.final))
			return
		}
		// everybody who was running must have been told to stop with the prescribed reason
		sent := map[uint64]string{}
		for _, e := range s.events[ev0:] {
			if e.Kind == "exit" {
				sent[e.Pid] = e.Reason
			}
		}
		for p := range before {
			if p != pid && sent[p] != expectTerm {
				s.violation("C08/stop-all", what+fmt.Sprintf("; sibling pid %d was not sent an exit with %q", p, expectTerm))
				return
			}
		}
		return
	}
	if s.status == 1 {
		sig := "C08/unexpected-termination"
		if s.final == "exceeded" {
			sig = "C09/early-give-up"
		}
		s.violation(sig, what+fmt.Sprintf("; the rules prescribe no termination (failures in window: %d, intensity %d) but the supervisor terminated with %q", s.windowCount(now)-1, s.cfg.K, s.final))
		return
	}
	// expected running set
	ji := s.idx(name)
	for _, n := range s.order {
		i := s.idx(n)
		old, was := beforeBy[n]
		var cur uint64
		for p, m := range s.alive {
			if m == n {
				cur = p
			}
		}
		affected := false // is spec n in the restart group?
		switch {
		case !needs:
			affected = false
		case s.cfg.Kind == "ofo":
			affected = n == name
		case s.cfg.Kind == "afo":
			affected = s.enabled[n]
		case s.cfg.Kind == "rfo":
			affected = i >= ji && s.enabled[n]
		}
		if sofo {
			continue
		}
		if affected {
			if cur == 0 || cur <= maxPid {
				s.violation("C08/restart-scope", what+fmt.Sprintf("; spec c%d belongs to the restart group but has no freshly started child (pid now %d)", n, cur))
				return
			}
		} else if n == name {
			if cur != 0 {
				s.violation("C08/restart-decision", what+fmt.Sprintf("; the child must not be restarted but pid %d is running", cur))
				return
			}
		} else {
			if was && cur != old {
				s.violation("C08/isolation", what+fmt.Sprintf("; spec c%d is outside the restart group but its child changed from pid %d to %d", n, old, cur))
				return
			}
			if !was && cur != 0 && s.cfg.Kind != "afo" && !(s.cfg.Kind == "rfo" && i >= ji) {
				s.violation("C08/isolation", what+fmt.Sprintf("; spec c%d was not running and is outside the restart group but was started", n))
				return
			}
		}
	}
	if sofo {
		// exactly the dead child is replaced (or not), everybody else untouched
		for p, n := range before {
			if p == pid {
				continue
			}
			if s.alive[p] != n {
				s.violation("C08/isolation", what+fmt.Sprintf("; simple-one-for-one sibling pid %d was affected", p))
				return
			}
		}
		fresh := 0
		for p, n := range s.alive {
			if p > maxPid {
				fresh++
				if n != name {
					s.violation("C08/restart-scope", what+"; a child of another spec was started")
					return
				}
			}
		}
		want := 0
		if needs && s.enabled[name] {
			want = 1
		}
		if fresh != want {
			s.violation("C08/restart-decision", what+fmt.Sprintf("; %d children started, the rules prescribe %d", fresh, want))
			return
		}
		return
	}
	// event-order rules inside the episode
	pending := 0
	lastExitIx := 1 << 30
	targets := map[uint64]bool{}
	for _, e := range s.events[ev0:] {
		switch e.Kind {
		case "exit":
			ix := s.idx(e.Name)
			if s.cfg.Kind == "ofo" {
				s.violation("C08/isolation", what+fmt.Sprintf("; one-for-one sent an exit to sibling pid %d", e.Pid))
				return
			}
			if s.cfg.Kind == "rfo" && ix < ji {
				s.violation("C08/rest-prefix", what+fmt.Sprintf("; rest-for-one sent an exit to c%d which was started before the dead child", e.Name))
				return
			}
			if ix >= lastExitIx {
				s.violation("C08/stop-order", what+fmt.Sprintf("; exits not sent in reverse spec order (c%d after index %d)", e.Name, lastExitIx))
				return
			}
			lastExitIx = ix
			if !targets[e.Pid] {
				targets[e.Pid] = true
				pending++
			}
			if s.cfg.KO && pending > 1 {
				s.violation("C08/keep-order", what+"; KeepOrder: an exit was sent before the previously stopped child had terminated")
				return
			}
		case "died":
			if targets[e.Pid] {
				pending--
			}
		case "start":
			if pending > 0 {
				s.violation("C08/start-before-stop", what+fmt.Sprintf("; c%d started while a child of the restart group was still running", e.Name))
				return
			}
		}
	}
}

// deaths at arbitrary moments, management calls, spawn failures
func (s *supSim) episodeChaos() {
	g := s.g
	n := 2 + g.Intn(10)
	s.failsKnown = false
	for i := 0; i < n && s.status == 0 && !s.violated; i++ {
		switch g.Intn(10) {
		case 0, 1, 2, 3:
			pids := s.sortedAlive()
			if len(pids) == 0 {
				continue
			}
			p := pids[g.Intn(len(pids))]
			if g.Chance(1, 3) {
				p = pids[len(pids)-1] // the most recently started one
			}
			r := supReasons[g.Intn(len(supReasons))]
			if sent, ok := s.exitSent[p]; ok && g.Chance(2, 3) {
				r = supWrap(sent)
			}
			if _, induced := s.exitSent[p]; !induced && len(s.pendingStops()) > 0 && (s.cfg.Kind == "afo" || s.cfg.Kind == "rfo") && !g.Chance(1, 12) {
				// another child dying while one is being stopped: listed regions D18 (KeepOrder) and D25 (rest-for-one);
				// visited rarely so that other violations are not drowned
				if s.cfg.KO || s.cfg.Kind == "rfo" {
					continue
				}
			}
			s.die(p, r)
		case 4, 5, 6:
			if len(s.inflight) == 0 {
				continue
			}
			k := 0
			if g.Chance(1, 4) {
				k = g.Intn(len(s.inflight))
			}
			s.deliver(k)
		default:
			s.randomAPI()
		}
	}
	s.settle()
}

// staleExit: a child of the spec is dead but its exit message has not been processed yet
func (s *supSim) staleExit(name int) bool {
	for _, e := range s.inflight {
		if n, ok := s.kids[e.pid]; ok && n == name {
			return true
		}
	}
	return false
}

func (s *supSim) randomAPI() {
	g := s.g
	name := g.Intn(7)
	if len(s.order) > 0 && !g.Chance(1, 8) {
		name = s.order[g.Intn(len(s.order))]
	}
	k := g.Intn(6)
	if k == 3 && s.cfg.Kind != "sofo" && s.staleExit(name) && !g.Chance(1, 10) {
		return // keep the main sweep mostly out of the listed region D26
	}
	// (calls made while a one-for-one supervisor is stopping all its children — the former D27 region — are part of
	// the sweep: they must be refused)
	switch k {
	case 0, 1:
		s.api("start", name, g.Intn(3))
	case 2:
		s.api("add", 1+g.Intn(7), g.Intn(5)/4)
	case 3:
		s.api("enable", name, 0)
	default:
		s.api("disable", name, 0)
	}
}

func (s *supSim) episodeForeign() {
	if s.status != 0 {
		return
	}
	reason := supReasons[s.g.Intn(len(supReasons))]
	before := len(s.alive)
	s.foreign(reason)
	s.settle()
	if s.violated || s.status == 2 {
		return
	}
	if s.status != 1 || s.final != reason {
		s.violation("C08/foreign-exit", fmt.Sprintf("%s: exit %q from a non-child with %d children running: after all children obeyed the supervisor is status=%d final=%q (must have terminated with that reason)",
			s.cfg.Kind, reason, before, s.status, s.final))
	}
}

func (s *supSim) runEpisodes(n int) {
	s.spawnFailQ = 0
	if s.g.Chance(1, 3) {
		s.spawnFailQ = 15
	}
	if s.run == nil {
		q := s.spawnFailQ
		s.spawnFailQ = 0
		s.initRun()
		s.spawnFailQ = q
	}
	for i := 0; i < n && s.status == 0 && !s.violated; i++ {
		s.settle()
		s.checkSettled()
		if s.status != 0 || s.violated {
			break
		}
		if !s.failsKnown {
			s.flushWindow()
		}
		switch k := s.g.Intn(20); {
		case k < 9:
			s.c.R.Count("episode.single-death")
			s.episodeSingle()
		case k < 16:
			s.c.R.Count("episode.chaos")
			s.episodeChaos()
		case k < 19:
			s.c.R.Count("episode.management-call")
			s.randomAPI()
		default:
			s.c.R.Count("episode.foreign-exit")
			s.episodeForeign()
		}
	}
	s.settle()
	s.checkSettled()
	switch s.status {
	case 1:
		s.c.R.Count("sim.end.terminated." + strings.SplitN(s.final, ":", 2)[0])
	case 2:
		s.c.R.Count("sim.end.panicked")
	default:
		s.c.R.Count("sim.end.running")
	}
}

// ---------------------------------------------------------------------------
// witnesses of the confirmed defects, replayed on every run (scripted through the same simulation, so
// the oracle above classifies them)
// ---------------------------------------------------------------------------

func kids3(sig bool) []supChildIn {
	return []supChildIn{{1, false}, {2, sig}, {3, false}}
}

func supWitnesses(c *Ctx) ([]supSeq, []supSeq) {
	var out, outLoop []supSeq
	add := func(tag string, s *supSim) {
		out = append(out, supSeq{s.run.lines, s.run.obs, s.cfg, "witness " + tag})
		outLoop = append(outLoop, supSeq{s.loopLines, s.loopObs, s.cfg, "witness " + tag})
		c.R.Count("witness." + tag)
		c.R.Case("witness/"+tag, true)
	}
	pidOf := func(s *supSim, name int) uint64 {
		for p, n := range s.alive {
			if n == name {
				return p
			}
		}
		return 0
	}
	// D18: all-for-one + KeepOrder, c1 fails, while c3 is being stopped c2 dies
	for _, kind := range []string{"afo", "rfo"} {
		s := newSupSim(c, c.Rng.Fork(), supCfg{Kind: kind, Strategy: 2, K: 5, Period: 5, KO: true, Children: kids3(false)})
		s.initRun()
		s.die(pidOf(s, 1), "o1")
		s.deliver(0) // exit sent to c3 only
		s.die(pidOf(s, 2), "o2")
		s.deliver(0)
		s.settle()
		s.checkSettled()
		add("D18-"+kind, s)
	}
	// D25: rest-for-one without KeepOrder, c2 fails, while c3 is being stopped c1 dies
	{
		s := newSupSim(c, c.Rng.Fork(), supCfg{Kind: "rfo", Strategy: 2, K: 5, Period: 5, KO: false, Children: kids3(false)})
		s.initRun()
		s.die(pidOf(s, 2), "o1")
		s.deliver(0)
		s.die(pidOf(s, 1), "o2")
		s.deliver(0)
		s.settle()
		s.checkSettled()
		add("D25", s)
	}
	// D5: restart intensity exceeded with running siblings: the final reason
	for _, kind := range []string{"ofo", "afo", "rfo", "sofo"} {
		s := newSupSim(c, c.Rng.Fork(), supCfg{Kind: kind, Strategy: 2, K: 1, Period: 5, Children: kids3(false)})
		s.initRun()
		if kind == "sofo" {
			s.api("start", 1, 0)
			s.api("start", 2, 0)
			s.api("start", 2, 1)
		}
		s.settle()
		s.episodeSingleOn(2, "o1", 10)
		if s.status == 0 {
			s.episodeSingleOn(2, "o1", 10)
		}
		add("D5-"+kind, s)
	}
	// D14: simple-one-for-one, DisableChild leaves the pid in the wait set; a later shutdown never completes
	{
		s := newSupSim(c, c.Rng.Fork(), supCfg{Kind: "sofo", Strategy: 0, K: 5, Period: 5, Children: kids3(false)})
		s.initRun()
		s.api("start", 1, 0)
		s.api("start", 2, 0)
		s.api("disable", 1, 0)
		s.settle()
		s.episodeForeign()
		add("D14", s)
	}
	// D19: DisableChild on a child that is not running succeeds without disabling the spec
	for _, kind := range []string{"ofo", "afo"} {
		s := newSupSim(c, c.Rng.Fork(), supCfg{Kind: kind, Strategy: 0, K: 5, Period: 5, DAS: true, Children: kids3(false)})
		s.initRun()
		s.die(pidOf(s, 2), "normal")
		s.settle()
		s.api("disable", 2, 0)
		s.api("start", 2, 0)
		s.settle()
		s.checkSettled()
		add("D19-"+kind, s)
	}
	// D26: EnableChild while the exit of the previous child of the spec is still unprocessed
	for _, kind := range []string{"ofo", "afo"} {
		s := newSupSim(c, c.Rng.Fork(), supCfg{Kind: kind, Strategy: 1, K: 5, Period: 5, DAS: true, Children: []supChildIn{{1, false}, {2, false}, {3, true}}})
		s.initRun()
		old := pidOf(s, 2)
		s.api("disable", 2, 0)
		s.die(old, "shutdown")
		s.api("enable", 2, 0) // the old child is dead (name free), its exit message not yet handled
		s.deliver(0)          // the stale exit clears the pid of the new child
		s.die(pidOf(s, 3), "o1")
		s.settle()
		s.checkSettled()
		add("D26-"+kind, s)
	}
	// D27 (repaired): one-for-one used to accept StartChild while it was stopping all children; kept as a directed episode
	{
		s := newSupSim(c, c.Rng.Fork(), supCfg{Kind: "ofo", Strategy: 1, K: 5, Period: 5, DAS: true, Children: []supChildIn{{1, false}, {2, false}, {3, true}}})
		s.initRun()
		s.die(pidOf(s, 2), "normal")
		s.settle()
		s.die(pidOf(s, 3), "o1")
		s.deliver(0) // significant child gone: exits sent to the rest
		s.api("start", 2, 0)
		s.settle()
		add("D27", s)
	}
	return out, outLoop
}

// episodeSingle with a chosen victim
func (s *supSim) episodeSingleOn(name int, reason string, gap int64) {
	// steer the generator: temporarily replace the random source by fixing the choices through direct calls
	var pid uint64
	for p, n := range s.alive {
		if n == name && (pid == 0 || p < pid) {
			pid = p
		}
	}
	if pid == 0 || s.status != 0 {
		return
	}
	before := map[uint64]int{}
	for p, n := range s.alive {
		before[p] = n
	}
	ev0 := len(s.events)
	s.die(pid, reason)
	s.fixedGap = gap
	s.deliver(len(s.inflight) - 1)
	now := s.run.vt
	s.settle()
	if !(s.cfg.Strategy == 2 || (s.cfg.Strategy == 0 && !quiet(reason))) {
		return // no restart needed: the window rule does not apply
	}
	cnt := s.windowCount(now)
	s.fails = append(s.fails, now)
	if cnt > s.cfg.K {
		what := fmt.Sprintf("%s: failure %d within the period (intensity %d) with %d siblings running", s.cfg.Kind, cnt, s.cfg.K, len(before)-1)
		if s.status != 1 {
			s.violation("C09/no-give-up", what+": supervisor did not terminate")
		} else if s.final != "exceeded" {
			s.violation("C09/D5-exceeded-reason", what+fmt.Sprintf(": supervisor must terminate with ErrSupervisorRestartsExceeded, terminated with %q", s.final))
		}
		_ = ev0
	}
}

// supGiveUp (C09, supervisor half): bursts and drips of failures that need a restart, one at a time from a
// quiescent state, on the real state machines with a virtual clock; the oracle of episodeSingle counts the
// failures in the window itself and demands: at or below the limit a restart, above it every sibling is sent
// ErrSupervisorRestartsExceeded and the supervisor terminates with that reason once they are gone.
func supGiveUp(c *Ctx) {
	r := c.R
	n := c.N(1500, 60000)
	var seqs, loops []supSeq
	for i := 0; i < n; i++ {
		g := c.Rng.Fork()
		cfg := supRandCfg(g)
		if cfg.Strategy == 1 {
			cfg.Strategy = 2
		}
		s := newSupSim(c, g, cfg)
		s.initRun()
		if cfg.Kind == "sofo" {
			for k := 0; k < 1+g.Intn(3); k++ {
				s.api("start", cfg.Children[g.Intn(len(cfg.Children))].Name, 0)
			}
		}
		for k := 0; k < 3+g.Intn(8) && s.status == 0 && !s.violated; k++ {
			s.settle()
			s.checkSettled()
			if g.Intn(5) == 0 {
				// a disabled spec: the deaths of its children (the exit DisableChild sends them included) are not failures
				// and must not count towards the limit
				s.api("disable", cfg.Children[g.Intn(len(cfg.Children))].Name, 0)
				r.Count("sup.give-up.disable")
				s.settle()
				s.checkSettled()
			}
			s.episodeSingle()
		}
		seqs = append(seqs, supSeq{s.run.lines, s.run.obs, cfg, "give-up"})
		loops = append(loops, supSeq{s.loopLines, s.loopObs, cfg, "give-up"})
		r.Case(fmt.Sprintf("gu/%v|%s", cfg, strings.Join(s.run.lines, ";")), s.status == 1 && s.final == "exceeded")
		if s.status == 1 && s.final == "exceeded" {
			r.Count("sup.gave-up." + cfg.Kind)
		} else if s.status == 0 {
			r.Count("sup.still-running")
		}
		if i < 2 {
			r.Sample(map[string]interface{}{"kind": "sup-give-up", "config": cfg, "ops": s.run.lines, "events": s.eventsS()})
		}
	}
	supCompare(c, seqs, 12)
	supCompareModel(c, "suploop", loops, 12)
}

var _ = act.ErrSupervisorRestartsExceeded

import ErgoVerif.Lemmas.TM
import ErgoVerif.Lemmas.TMTerminate
import ErgoVerif.Lemmas.LinkRace
import ErgoVerif.Generated.LinkRace
import ErgoVerif.Model.Guard
/-!
# C14 — remote failure detection (node down part)

`TM.routeNodeDown` mirrors `node.RouteNodeDown` (node/core.go) on top of
`TM.cleanupNode` (gen/default_target_manager.go `CleanupNode`).  The theorems say,
for EVERY reachable TargetManager state and every node name:

* every relation whose target lives on the lost node (pid, name, alias, event, the node
  itself) and whose holder does not live there yields exactly one notification to its
  holder — an exit for a link, a down for a monitor;
* relations whose requester (consumer) lives on the lost node disappear without any
  notification;
* every other relation stays, in place; the index invariant is kept (so later
  `CleanupTarget` calls, which read the index only, still see exactly the surviving
  relations).
-/
namespace ErgoVerif.Props.C14
open ErgoVerif.TM

theorem notifOf_injective : ∀ a b : Key, notifOf a = notifOf b → a = b := by
  rintro ⟨c1, t1, m1⟩ ⟨c2, t2, m2⟩ h
  simp only [notifOf, Notif.mk.injEq] at h
  obtain ⟨hc, hm, ht⟩ := h
  subst hc ht
  cases m1 <;> cases m2 <;> simp_all

theorem onNode_known {t : Target} {n : Node} (h : t.onNode n = true) : t.known = true := by
  cases t <;> simp_all [Target.onNode, Target.known]

/-- the notifications of a node-down, as a function of the relation set before it -/
theorem routeNodeDown_notifs {s : St} (n : Node) :
    (routeNodeDown s n).2 = (s.rel.filter (fun k => !consumerOn n k && targetOn n k)).map notifOf := by
  unfold routeNodeDown cleanupNode
  simp only [List.filter_filter]
  congr 1
  apply List.filter_congr
  intro k _
  by_cases h : targetOn n k = true
  · simp [h, onNode_known (by simpa [targetOn] using h)]
  · simp [h]

/-- **state after node down**: exactly the relations with neither end on the lost node remain
    (same order — nothing else is touched), and the index invariant is kept. -/
theorem C14_node_down_state {s : St} (h : Inv s) (n : Node) :
    (routeNodeDown s n).1.rel = s.rel.filter (fun k => !consumerOn n k && !targetOn n k) ∧
    Inv (routeNodeDown s n).1 :=
  ⟨(cleanupNode_spec h n).1, (cleanupNode_spec h n).2.2⟩

/-- **exactly one** exit/down per relation whose target lives on the lost node and whose holder does
    not; **none** for anything else (in particular none for relations whose requester lives there,
    none for relations on other nodes, never two). -/
theorem C14_node_down_exactly_once {s : St} (h : Inv s) (n : Node) (c : Pid) (t : Target) (m : Bool) :
    (routeNodeDown s n).2.count ⟨c, if m then .down else .exit, t⟩ =
      if (⟨c, t, m⟩ : Key) ∈ s.rel ∧ t.onNode n = true ∧ c.node ≠ n then 1 else 0 := by
  rw [routeNodeDown_notifs]
  have hnd : ((s.rel.filter (fun k => !consumerOn n k && targetOn n k)).map notifOf).Nodup := by
    apply List.Pairwise.map notifOf (R := (· ≠ ·))
    · intro a b hab e; exact hab (notifOf_injective a b e)
    · exact h.1.filter _
  rw [hnd.count]
  have : (⟨c, if m then NKind.down else NKind.exit, t⟩ : Notif) = notifOf ⟨c, t, m⟩ := rfl
  rw [this]
  have hmem : notifOf ⟨c, t, m⟩ ∈ (s.rel.filter (fun k => !consumerOn n k && targetOn n k)).map notifOf ↔
      ((⟨c, t, m⟩ : Key) ∈ s.rel ∧ t.onNode n = true ∧ c.node ≠ n) := by
    constructor
    · intro hm
      obtain ⟨k, hk, e⟩ := List.mem_map.mp hm
      have := notifOf_injective _ _ e; subst this
      simp [List.mem_filter, consumerOn, targetOn] at hk
      exact ⟨hk.1, hk.2.2, hk.2.1⟩
    · rintro ⟨h1, h2, h3⟩
      exact List.mem_map.mpr ⟨_, by simp [List.mem_filter, consumerOn, targetOn, h1, h2, h3], rfl⟩
  by_cases hc : (⟨c, t, m⟩ : Key) ∈ s.rel ∧ t.onNode n = true ∧ c.node ≠ n
  · rw [if_pos (hmem.mpr hc), if_pos hc]
  · rw [if_neg (fun x => hc (hmem.mp x)), if_neg hc]

/-- relations whose requester lives on the lost node vanish silently: no notification is addressed to
    any process of that node -/
theorem C14_requester_side_silent {s : St} (n : Node) (x : Notif)
    (hx : x ∈ (routeNodeDown s n).2) : x.to.node ≠ n := by
  rw [routeNodeDown_notifs] at hx
  obtain ⟨k, hk, rfl⟩ := List.mem_map.mp hx
  simp [List.mem_filter, consumerOn] at hk
  exact hk.2.1

/-- every notification of a node-down is about a target that lived on the lost node and was held -/
theorem C14_only_lost_targets {s : St} (n : Node) (x : Notif)
    (hx : x ∈ (routeNodeDown s n).2) :
    x.target.onNode n = true ∧
    (⟨x.to, x.target, decide (x.kind = .down)⟩ : Key) ∈ s.rel := by
  rw [routeNodeDown_notifs] at hx
  obtain ⟨⟨c, t, m⟩, hk, rfl⟩ := List.mem_map.mp hx
  simp [List.mem_filter, targetOn] at hk
  refine ⟨hk.2.2, ?_⟩
  cases m <;> simpa [notifOf] using hk.1

/-- a second node-down for the same node (e.g. a duplicate unregisterConnection) notifies nobody and
    changes nothing -/
theorem C14_node_down_idempotent {s : St} (h : Inv s) (n : Node) :
    (routeNodeDown (routeNodeDown s n).1 n).2 = [] ∧
    (routeNodeDown (routeNodeDown s n).1 n).1.rel = (routeNodeDown s n).1.rel := by
  have h1 := C14_node_down_state h n
  constructor
  · rw [routeNodeDown_notifs, h1.1, List.filter_filter, List.map_eq_nil_iff, List.filter_eq_nil_iff]
    intro k _; by_cases a : consumerOn n k <;> by_cases b : targetOn n k <;> simp [a, b]
  · rw [(C14_node_down_state h1.2 n).1, h1.1, List.filter_filter]
    apply List.filter_congr; intro k _; simp

/-- the statements above hold at every state the TargetManager can reach from empty through any
    sequence of its 11 operations -/
theorem C14_reachable_inv (ops : List Op) : Inv (run init ops) := run_inv ops init_inv

/-- after the node-down, `CleanupTarget` (index-only) of a surviving target still returns exactly the
    surviving relations on it -/
theorem C14_index_consistent_after {s : St} (h : Inv s) (n : Node) (t : Target) (k : Key) :
    k ∈ (cleanupTarget (routeNodeDown s n).1 t).2 ↔
      (k ∈ s.rel ∧ k.consumer.node ≠ n ∧ k.target.onNode n = false) ∧ k.target = t := by
  have h1 := C14_node_down_state h n
  rw [(cleanupTarget_spec h1.2 t).2.1 k, h1.1]
  simp [List.mem_filter, consumerOn, targetOn]

/-! ### non-vacuity -/

private def pA : Pid := ⟨1, 1001, 7⟩      -- local process (node 1)
private def pB : Pid := ⟨1, 1002, 7⟩
private def rP : Pid := ⟨2, 1005, 9⟩      -- remote process on node 2
private def ops : List Op :=
  [.addLink pA (.pid rP), .addMonitor pA (.pid rP), .addMonitor pB (.name 2 5), .addLink pB (.alias 2 3 9),
   .addMonitor pA (.event 2 4), .addLink pA (.node 2), .addLink rP (.pid pA), .addMonitor pB (.pid pA),
   .addLink pB (.node 3)]

example : ((routeNodeDown (run init ops) 2).2).length = 6 := by decide
example : ((routeNodeDown (run init ops) 2).1.rel).length = 2 := by decide
example : (routeNodeDown (run init ops) 2).2.count ⟨pA, .exit, .pid rP⟩ = 1 := by decide
example : (routeNodeDown (run init ops) 2).2.count ⟨rP, .exit, .pid pA⟩ = 0 := by decide

/-! ### incarnations: the generated guard table -/
section Incarnation
open ErgoVerif.Gen.Guard ErgoVerif.GuardModel

/-- every exported connection method that addresses a pid or an alias checks its creation stamp as its very first
    statement, against the right incarnation (finite generated table) -/
theorem guard_table_ok : table.all WellGuarded = true := by decide

/-- the table is not empty / not the fallback: the 15 remote-addressed and the 2 Terminate methods are there -/
theorem guard_table_rows :
    (table.filter fun r => r.ptype != "" && !r.localSubject).length = 15 ∧
    (table.filter fun r => r.ptype != "" && r.localSubject).length = 2 := by decide

/-- **stale identifiers are refused before anything is produced**: for every guarded method, an identifier whose
    creation differs from the connected peer's incarnation yields ErrProcessIncarnation with no statement
    (hence no buffer, no frame byte) executed before the verdict -/
theorem C14_incarnation (r : Row) (hr : r ∈ table) (hp : r.ptype ≠ "") (hl : r.localSubject = false)
    (ident peer loc : Nat) (h : ident ≠ peer) : call r ident peer loc = (.errIncarnation, 0) := by
  have hw := List.all_eq_true.mp guard_table_ok r hr
  simp only [WellGuarded, hl, Bool.or_eq_true, beq_iff_eq, Bool.and_eq_true, Bool.false_eq_true, ↓reduceIte] at hw
  rcases hw with hw | ⟨h0, h1⟩
  · exact absurd hw hp
  · simp [call, h1, h0, h]

/-- an identifier of the current incarnation passes the guard -/
theorem C14_current_incarnation_passes (r : Row) (hr : r ∈ table) (hp : r.ptype ≠ "") (hl : r.localSubject = false)
    (peer loc : Nat) : call r peer peer loc = (.proceeds, 0) := by
  have hw := List.all_eq_true.mp guard_table_ok r hr
  simp only [WellGuarded, hl, Bool.or_eq_true, beq_iff_eq, Bool.and_eq_true, Bool.false_eq_true, ↓reduceIte] at hw
  rcases hw with hw | ⟨h0, h1⟩
  · exact absurd hw hp
  · simp [call, h1, h0]

/-- **remote termination is announced whatever the peer's incarnation is** (D26 repaired): the subject of a
    Terminate frame lives on the sending node, its creation is the sender's own, and the guard compares it with the
    sender's own creation — so the frame is produced for every peer creation -/
theorem C14_terminate_announced (r : Row) (hr : r ∈ table) (hp : r.ptype ≠ "") (hl : r.localSubject = true)
    (peer loc : Nat) : call r loc peer loc = (.proceeds, 0) := by
  have hw := List.all_eq_true.mp guard_table_ok r hr
  simp only [WellGuarded, hl, Bool.or_eq_true, beq_iff_eq, Bool.and_eq_true, ↓reduceIte] at hw
  rcases hw with hw | ⟨h0, h1⟩
  · exact absurd hw hp
  · have : r.guard ≠ 1 := by omega
    simp [call, h1, h0]

example : (⟨"SendPID", "to", "PID", false, 1, 0⟩ : Row) ∈ table := by decide
example : (⟨"SendTerminatePID", "target", "PID", true, 2, 0⟩ : Row) ∈ table := by decide
example : call ⟨"SendPID", "to", "PID", false, 1, 0⟩ 99 100 7 = (.errIncarnation, 0) := by decide

end Incarnation

/-! ### remote termination while connected: the reason travels -/
section RemoteTermination
open ErgoVerif.Gen.Guard ErgoVerif.GuardModel

/-- on the holder's node: `RouteTerminate*` (run when the Terminate frame arrives) gives every local holder of the target
    exactly one exit/down carrying the reason of the frame, and nobody else anything -/
theorem C14_remote_termination_exactly_once {s : St} (h : Inv s) (self : Node) (t : Target) (reason : Nat)
    (c : Pid) (m : Bool) :
    (terminateLocal self s t reason).2.count ⟨c, if m then .down else .exit, t, reason⟩ =
      if (⟨c, t, m⟩ : Key) ∈ s.rel ∧ c.node = self then 1 else 0 :=
  terminateLocal_exactly_once h self t reason c m

theorem C14_remote_termination_reason (self : Node) (s : St) (t : Target) (reason : Nat) (x : TNotif)
    (hx : x ∈ (terminateLocal self s t reason).2) : x.target = t ∧ x.reason = reason ∧ x.to.node = self :=
  terminateLocal_reason self s t reason x hx

/-- two nodes: the target lives on `nb` and terminates with `reason`; a holder `c` on another node `na` is recorded on both
    nodes (as RouteLink*/RouteMonitor* do).  Then (1) `nb` sends exactly one Terminate frame to `na`, (2) for pid/alias
    targets the frame passes the incarnation guard whatever the creations of the two nodes are, (3) `na`, running
    RouteTerminate* with the reason of the frame, delivers exactly one exit/down with that reason to `c`, and
    (4) afterwards neither table holds the relation. -/
theorem C14_remote_termination_end_to_end {sa sb : St} (ha : Inv sa) (hb : Inv sb) (na nb : Node) (hne : na ≠ nb)
    (t : Target) (c : Pid) (m : Bool) (reason : Nat) (hc : c.node = na)
    (hka : (⟨c, t, m⟩ : Key) ∈ sa.rel) (hkb : (⟨c, t, m⟩ : Key) ∈ sb.rel) :
    (terminateFrames nb sb t).count na = 1 ∧
    (∀ r ∈ table, r.ptype ≠ "" → r.localSubject = true → ∀ creA creB, call r creB creA creB = (.proceeds, 0)) ∧
    (terminateLocal na sa t reason).2.count ⟨c, if m then .down else .exit, t, reason⟩ = 1 ∧
    (∀ k ∈ (terminateLocal na sa t reason).1.rel, k.target ≠ t) ∧
    (∀ k ∈ (terminateLocal nb sb t reason).1.rel, k.target ≠ t) := by
  refine ⟨?_, ?_, ?_, terminateLocal_clears ha na t reason, terminateLocal_clears hb nb t reason⟩
  · rw [(terminateFrames_nodup nb sb t).count, if_pos]
    exact hc ▸ terminateFrames_complete hb nb t c m hkb (by rw [hc]; exact hne)
  · intro r hr hp hl creA creB
    exact C14_terminate_announced r hr hp hl creA creB
  · rw [terminateLocal_exactly_once ha na t reason c m, if_pos ⟨hka, hc⟩]

end RemoteTermination

/-! ### relations created while the connection is being lost -/
section Race
open ErgoVerif.LinkRace

/-- the code as it is: RouteLink*/RouteMonitor* look at the connection table again after the insert (regenerated) -/
abbrev rc : Bool := ErgoVerif.Gen.LinkRace.remoteRecheckAfterAdd

/-- full statement for relations created concurrently with node-downs and reconnections: whenever no request is between
    its steps, every recorded relation on a remote target is covered by a connection with that target's node — so the
    next node-down cleans it up and notifies its holder (`C14_node_down_exactly_once`); none is left behind without a
    connection. Requests that found their connection gone were either refused (relation removed again) or had been
    cleaned up, hence notified, by the node-down in between. -/
def C14_race_full (b : Bool) : Prop :=
  ∀ (es : List Ev),
    (run b init es).pending = [] → (run b init es).unchecked = [] →
    ∀ k ∈ (run b init es).tm.rel, ∀ n, k.target.onNode n = true → ((run b init es).connOf n).isSome = true

/-- **Request vs node-down, for the code as it is**: for every interleaving of requests (answer, insert, re-check),
    node-downs and new connections. -/
theorem C14_race : C14_race_full rc := by
  have h : rc = true := by decide
  rw [h]
  intro es hp hu k hk n hn
  have hi := LinkRace.run_inv es init_inv
  rcases hi.covered k hk n hn with hc | ⟨r, hr, _⟩
  · exact hc
  · rw [hu] at hr; cases hr

/-- the model's `down` is one step — the connection leaves the table and the relations are drained; that is faithful
    for the re-check only because the code deletes the table entry BEFORE it drains (a re-check that still sees the
    connection is then certainly ahead of the drain). Regenerated from network.unregisterConnection. -/
theorem C14_code_shape_down : ErgoVerif.Gen.LinkRace.connectionDeletedBeforeNodeDown = true := by decide

/-- the code before the repair (listed finding C14/F1, now fixed): answer, node-down, then the local insert — the
    relation is recorded after the cleanup, nobody is ever notified (replayed on the real node by the harness through the
    yield point `RouteLinkPID:remote:before-add`). Kept as a regression statement. -/
theorem C14_race_before_fix : ¬ C14_race_full false := by
  intro h
  have := h [.up 2, .answered ⟨⟨1, 1001, 7⟩, .pid ⟨2, 1005, 9⟩, false⟩ 2, .down 2,
    .add ⟨⟨⟨1, 1001, 7⟩, .pid ⟨2, 1005, 9⟩, false⟩, 2, 0⟩] (by decide) (by decide)
    ⟨⟨1, 1001, 7⟩, .pid ⟨2, 1005, 9⟩, false⟩ (by decide) 2 (by decide)
  revert this
  decide

/-- the notifications of every node-down are exactly-once for what is recorded at that moment, in every reachable state -/
theorem C14_race_notified (es : List Ev) (n : Node) (c : Pid) (t : Target) (m : Bool) :
    (routeNodeDown (run rc init es).tm n).2.count ⟨c, if m then .down else .exit, t⟩ =
      if (⟨c, t, m⟩ : Key) ∈ (run rc init es).tm.rel ∧ t.onNode n = true ∧ c.node ≠ n then 1 else 0 := by
  have h : rc = true := by decide
  rw [h]
  exact C14_node_down_exactly_once (LinkRace.run_inv es init_inv).tm n c t m

/-- non-vacuity: a request completed under a live connection is granted and notified once by the next node-down; one
    whose connection is lost between the answer and the insert is refused and leaves nothing behind -/
example :
    let k : Key := ⟨⟨1, 1001, 7⟩, .pid ⟨2, 1005, 9⟩, false⟩
    let s := run true init [.up 2, .answered k 2, .add ⟨k, 2, 0⟩, .recheck ⟨k, 2, 0⟩, .down 2]
    s.granted = [k] ∧ s.notifs.length = 1 ∧ s.tm.rel = [] := by decide

example :
    let k : Key := ⟨⟨1, 1001, 7⟩, .pid ⟨2, 1005, 9⟩, false⟩
    let s := run true init [.up 2, .answered k 2, .down 2, .add ⟨k, 2, 0⟩, .recheck ⟨k, 2, 0⟩]
    s.granted = [] ∧ s.refused = [k] ∧ s.tm.rel = [] := by decide

end Race

end ErgoVerif.Props.C14

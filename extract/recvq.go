package main

import (
	"fmt"
	"go/ast"
)

// Generated/RecvQ.lean: the shape of the receive-queue protocol in net/proto/connection.go.
//   serve:            queue.Push(buf) immediately followed by `if queue.Lock() { go c.handleRecvQueue(queue) }`
//   handleRecvQueue:  in the branch taken when Pop() returns nothing, is q.Unlock() called before the queue is looked
//                     at again (q.Item()), and is the lock tried again (q.Lock()) afterwards.

func init() {
	generators = append(generators, generator{name: "RecvQ", run: genRecvQ,
		fallback: "namespace ErgoVerif.Gen.RecvQ\ndef unlockBeforeRecheck : Bool := false\nend ErgoVerif.Gen.RecvQ\n"})
}

func containsCall(n ast.Node, name string) bool {
	found := false
	ast.Inspect(n, func(x ast.Node) bool {
		if c, ok := x.(*ast.CallExpr); ok && selName(c.Fun) == name {
			found = true
		}
		return !found
	})
	return found
}

func genRecvQ() (string, error) {
	f, err := parseFile("net/proto/connection.go")
	if err != nil {
		return "", err
	}
	// ---- reader side
	sv := funcDecl(f, "connection", "serve")
	if sv == nil {
		return "", fmt.Errorf("connection.serve not found")
	}
	readerOK := false
	ast.Inspect(sv.Body, func(n ast.Node) bool {
		b, ok := n.(*ast.BlockStmt)
		if !ok {
			return true
		}
		for i := 0; i+1 < len(b.List); i++ {
			es, ok := b.List[i].(*ast.ExprStmt)
			if !ok || !containsCall(es, "queue.Push") {
				continue
			}
			is, ok := b.List[i+1].(*ast.IfStmt)
			if !ok || selNameCall(is.Cond) != "queue.Lock" || len(is.Body.List) != 1 {
				continue
			}
			if g, ok := is.Body.List[0].(*ast.GoStmt); ok && selName(g.Call.Fun) == "c.handleRecvQueue" {
				readerOK = true
			}
		}
		return true
	})
	if !readerOK {
		return "", fmt.Errorf("connection.serve: `queue.Push(buf); if queue.Lock() { go c.handleRecvQueue(queue) }` not found")
	}
	// ---- worker side
	hq := funcDecl(f, "connection", "handleRecvQueue")
	if hq == nil {
		return "", fmt.Errorf("connection.handleRecvQueue not found")
	}
	var empty *ast.BlockStmt
	ast.Inspect(hq.Body, func(n ast.Node) bool {
		is, ok := n.(*ast.IfStmt)
		if !ok || empty != nil {
			return empty == nil
		}
		switch c := is.Cond.(type) {
		case *ast.BinaryExpr:
			if selName(c.X) == "ok" && selName(c.Y) == "false" && c.Op.String() == "==" {
				empty = is.Body
			}
		case *ast.UnaryExpr:
			if c.Op.String() == "!" && selName(c.X) == "ok" {
				empty = is.Body
			}
		}
		return empty == nil
	})
	if empty == nil {
		return "", fmt.Errorf("connection.handleRecvQueue: the branch for an empty Pop (`if ok == false`) not found")
	}
	unlockAt, itemAt, lockAt := -1, -1, -1
	for i, st := range empty.List {
		if es, ok := st.(*ast.ExprStmt); ok && unlockAt < 0 && selNameCall(es.X) == "q.Unlock" {
			unlockAt = i
		}
		if itemAt < 0 && containsCall(st, "q.Item") {
			itemAt = i
		}
		if lockAt < 0 && containsCall(st, "q.Lock") {
			lockAt = i
		}
	}
	if unlockAt < 0 || itemAt < 0 {
		return "", fmt.Errorf("connection.handleRecvQueue: q.Unlock() / q.Item() not found as statements of the empty-Pop branch")
	}
	ub := unlockAt < itemAt
	if ub && !(lockAt > itemAt) {
		return "", fmt.Errorf("connection.handleRecvQueue: the lock is not tried again after the re-check (Unlock; Item; Lock expected)")
	}
	last := empty.List[len(empty.List)-1]
	if ub {
		if br, ok := last.(*ast.BranchStmt); !ok || br.Tok.String() != "continue" {
			return "", fmt.Errorf("connection.handleRecvQueue: the empty-Pop branch does not end with `continue`")
		}
	}
	return fmt.Sprintf("namespace ErgoVerif.Gen.RecvQ\n/-- handleRecvQueue: after an empty Pop the lock is released BEFORE the queue is looked at again (then Lock is tried again) -/\ndef unlockBeforeRecheck : Bool := %s\nend ErgoVerif.Gen.RecvQ\n", leanBool(ub)), nil
}

// selNameCall: the dotted name of the function of a call expression ("" when e is not a call)
func selNameCall(e ast.Expr) string {
	if c, ok := e.(*ast.CallExpr); ok {
		return selName(c.Fun)
	}
	return ""
}

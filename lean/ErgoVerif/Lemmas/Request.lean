import ErgoVerif.Model.Request
namespace ErgoVerif.Request

/-- invariant for a buffered channel: nothing is dropped while the request is registered, and a
    reply that has arrived is either buffered or was taken -/
def Inv (s : St) : Prop :=
  s.dropped = false ∧
  (s.registered = false → s.req = .gotReply ∨ s.req = .timedOut) ∧
  (s.registered = true → s.req = .sent ∨ s.req = .waiting) ∧
  (s.arrived = true → s.req = .gotReply ∨ s.req = .timedOut ∨ s.buffered = true) ∧
  (s.buffered = true → s.arrived = true ∧ s.registered = true)

theorem inv_init : Inv init := by simp [Inv, init]

theorem step_inv (cap : Nat) (hc : cap > 0) (s s' : St) (l : Lbl) (h : Inv s) (hs : step cap s l = some s') : Inv s' := by
  obtain ⟨req, arrived, buffered, dropped, registered⟩ := s
  unfold Inv at *
  cases l <;> cases req <;> cases arrived <;> cases buffered <;> cases registered <;> cases dropped <;>
    simp_all [step] <;> (try (subst hs; simp)) <;> omega

theorem run_inv (cap : Nat) (hc : cap > 0) (s s' : St) (ls : List Lbl) (h : Inv s) (hr : run cap s ls = some s') : Inv s' := by
  induction ls generalizing s with
  | nil => simp [run] at hr; subst hr; exact h
  | cons l ls ih =>
    simp only [run] at hr
    cases hs : step cap s l with
    | none => simp [hs] at hr
    | some s1 => simp [hs] at hr; exact ih s1 (step_inv cap hc s s1 l h hs) hr

/-- with a buffered channel: the reply is never thrown away, and once it has arrived for a request
    that is still registered the requester cannot time out any more — it can only receive it -/
theorem buffered_ok (cap : Nat) (hc : cap > 0) (ls : List Lbl) (s : St) (hr : run cap init ls = some s) :
    s.dropped = false ∧ (s.arrived = true → s.registered = true → step cap s .timeout = none ∧ s.buffered = true) := by
  have h := run_inv cap hc init s ls inv_init hr
  obtain ⟨req, arrived, buffered, dropped, registered⟩ := s
  unfold Inv at h
  refine ⟨h.1, ?_⟩
  intro ha hg
  cases req <;> cases buffered <;> simp_all [step]

/-- with an unbuffered channel the reply is lost when it arrives before the requester reaches the select -/
theorem unbuffered_drops : ∃ ls s, run 0 init ls = some s ∧ s.dropped = true ∧
    run 0 s [.enterWait, .timeout] = some { s with req := .timedOut, registered := false } :=
  ⟨[.replyArrives], _, rfl, rfl, rfl⟩

end ErgoVerif.Request

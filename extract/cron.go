package main

// Generated/Cron.lean: mask-type constants, field descriptors (min, max, default mask, regexp text),
// the macro table and the field count of cronParseSpec — read from node/cron_parse.go.

import (
	"fmt"
	"go/ast"
	"go/constant"
	"go/parser"
	"go/token"
	"path/filepath"
	"strconv"
	"strings"
)

func init() {
	generators = append(generators, generator{name: "Cron", run: genCron, fallback: cronFallback})
}

// cronEvalConst evaluates an integer constant expression built from literals, named constants, <<, |, &, +, -, *, parentheses
func cronEvalConst(e ast.Expr, env map[string]constant.Value) (constant.Value, error) {
	switch x := e.(type) {
	case *ast.BasicLit:
		v := constant.MakeFromLiteral(x.Value, x.Kind, 0)
		if v.Kind() == constant.Unknown {
			return nil, fmt.Errorf("literal %s", x.Value)
		}
		return v, nil
	case *ast.Ident:
		if v, ok := env[x.Name]; ok {
			return v, nil
		}
		return nil, fmt.Errorf("unknown identifier %s", x.Name)
	case *ast.ParenExpr:
		return cronEvalConst(x.X, env)
	case *ast.BinaryExpr:
		l, err := cronEvalConst(x.X, env)
		if err != nil {
			return nil, err
		}
		r, err := cronEvalConst(x.Y, env)
		if err != nil {
			return nil, err
		}
		switch x.Op {
		case token.SHL, token.SHR:
			n, ok := constant.Uint64Val(r)
			if !ok {
				return nil, fmt.Errorf("shift count")
			}
			return constant.Shift(l, x.Op, uint(n)), nil
		case token.OR, token.AND, token.ADD, token.SUB, token.MUL:
			return constant.BinaryOp(l, x.Op, r), nil
		}
		return nil, fmt.Errorf("operator %s", x.Op)
	}
	return nil, fmt.Errorf("expression %T", e)
}

func cronLeanStr(s string) string {
	var sb strings.Builder
	sb.WriteByte('"')
	for _, c := range s {
		switch c {
		case '\\':
			sb.WriteString("\\\\")
		case '"':
			sb.WriteString("\\\"")
		case '\n':
			sb.WriteString("\\n")
		case '\t':
			sb.WriteString("\\t")
		default:
			sb.WriteRune(c)
		}
	}
	sb.WriteByte('"')
	return sb.String()
}

func genCron() (string, error) {
	fset := token.NewFileSet()
	f, err := parser.ParseFile(fset, filepath.Join(repo, "node", "cron_parse.go"), nil, 0)
	if err != nil {
		return "", err
	}
	env := map[string]constant.Value{}
	constNames := []string{"cronMaskTypeLastDM", "cronMaskTypeLastDW", "cronMaskTypeNDW", "cronMaskTypeMin", "cronMaskTypeHour",
		"cronMaskTypeDay", "cronMaskTypeMonth", "cronMaskTypeWeekDay", "cronMaskType"}
	type fdesc struct {
		min, max, mask constant.Value
		reg            string
		ok             int
	}
	fieldNames := []string{"cronFieldMin", "cronFieldHour", "cronFieldDay", "cronFieldMonth", "cronFieldWeekDay"}
	fields := map[string]*fdesc{}
	var macros [][2]string
	fieldCount := int64(-1)
	var firstErr error
	for _, d := range f.Decls {
		switch g := d.(type) {
		case *ast.GenDecl:
			for _, sp := range g.Specs {
				vs, ok := sp.(*ast.ValueSpec)
				if !ok {
					continue
				}
				for i, n := range vs.Names {
					if i >= len(vs.Values) {
						continue
					}
					if g.Tok == token.CONST {
						v, err := cronEvalConst(vs.Values[i], env)
						if err == nil {
							env[n.Name] = v
						}
					}
					if g.Tok == token.VAR {
						cl, ok := vs.Values[i].(*ast.CompositeLit)
						if !ok {
							continue
						}
						if id, ok := cl.Type.(*ast.Ident); !ok || id.Name != "cronField" {
							continue
						}
						fd := &fdesc{}
						for _, el := range cl.Elts {
							kv, ok := el.(*ast.KeyValueExpr)
							if !ok {
								continue
							}
							key, _ := kv.Key.(*ast.Ident)
							if key == nil {
								continue
							}
							switch key.Name {
							case "min", "max", "mask":
								v, err := cronEvalConst(kv.Value, env)
								if err != nil {
									if firstErr == nil {
										firstErr = fmt.Errorf("%s.%s: %v", n.Name, key.Name, err)
									}
									continue
								}
								switch key.Name {
								case "min":
									fd.min = v
								case "max":
									fd.max = v
								default:
									fd.mask = v
								}
								fd.ok++
							case "reg":
								call, ok := kv.Value.(*ast.CallExpr)
								if !ok || len(call.Args) != 1 {
									continue
								}
								lit, ok := call.Args[0].(*ast.BasicLit)
								if !ok || lit.Kind != token.STRING {
									continue
								}
								s, err := strconv.Unquote(lit.Value)
								if err != nil {
									continue
								}
								fd.reg = s
								fd.ok++
							}
						}
						fields[n.Name] = fd
					}
				}
			}
		case *ast.FuncDecl:
			if g.Name.Name != "cronParseSpec" || g.Body == nil {
				continue
			}
			ast.Inspect(g.Body, func(n ast.Node) bool {
				switch x := n.(type) {
				case *ast.SwitchStmt:
					for _, st := range x.Body.List {
						cc, ok := st.(*ast.CaseClause)
						if !ok || len(cc.Body) != 1 {
							continue
						}
						as, ok := cc.Body[0].(*ast.AssignStmt)
						if !ok || len(as.Rhs) != 1 {
							continue
						}
						rl, ok := as.Rhs[0].(*ast.BasicLit)
						if !ok || rl.Kind != token.STRING {
							continue
						}
						to, _ := strconv.Unquote(rl.Value)
						for _, ce := range cc.List {
							cl, ok := ce.(*ast.BasicLit)
							if !ok || cl.Kind != token.STRING {
								continue
							}
							from, _ := strconv.Unquote(cl.Value)
							macros = append(macros, [2]string{from, to})
						}
					}
				case *ast.BinaryExpr:
					// len(fields) != N
					if x.Op != token.NEQ {
						return true
					}
					call, ok := x.X.(*ast.CallExpr)
					if !ok {
						return true
					}
					if id, ok := call.Fun.(*ast.Ident); !ok || id.Name != "len" {
						return true
					}
					if lit, ok := x.Y.(*ast.BasicLit); ok && lit.Kind == token.INT {
						v, _ := strconv.ParseInt(lit.Value, 10, 64)
						fieldCount = v
					}
				}
				return true
			})
		}
	}
	var sb strings.Builder
	sb.WriteString("-- source: node/cron_parse.go (constants cronMaskType*, vars cronField*, macro switch of cronParseSpec)\n")
	sb.WriteString("namespace ErgoVerif.Generated.Cron\n\n")
	vals := map[string]interface{}{}
	for _, n := range constNames {
		v, ok := env[n]
		if !ok {
			return "", fmt.Errorf("constant %s not found in node/cron_parse.go", n)
		}
		fmt.Fprintf(&sb, "def %s : Nat := %s\n", n, v.ExactString())
		vals[n] = v.ExactString()
	}
	sb.WriteString("\nstructure FieldDesc where\n  min : Nat\n  max : Nat\n  mask : Nat\n  reg : String\n  deriving Repr, DecidableEq\n\n")
	for _, n := range fieldNames {
		fd, ok := fields[n]
		if !ok || fd.ok != 4 {
			if firstErr != nil {
				return "", firstErr
			}
			return "", fmt.Errorf("field descriptor %s not found (or not a literal with min/max/mask/reg) in node/cron_parse.go", n)
		}
		fmt.Fprintf(&sb, "def %s : FieldDesc := ⟨%s, %s, %s, %s⟩\n", n, fd.min.ExactString(), fd.max.ExactString(), fd.mask.ExactString(), cronLeanStr(fd.reg))
		vals[n] = fmt.Sprintf("%s..%s mask %s reg %s", fd.min.ExactString(), fd.max.ExactString(), fd.mask.ExactString(), fd.reg)
	}
	if len(macros) == 0 {
		return "", fmt.Errorf("macro switch not found in cronParseSpec")
	}
	if fieldCount < 0 {
		return "", fmt.Errorf("len(fields) != N test not found in cronParseSpec")
	}
	sb.WriteString("\n/-- the macro switch of cronParseSpec: spec text → replacement -/\ndef macros : List (String × String) :=\n  [")
	for i, m := range macros {
		if i > 0 {
			sb.WriteString(", ")
		}
		fmt.Fprintf(&sb, "(%s, %s)", cronLeanStr(m[0]), cronLeanStr(m[1]))
	}
	sb.WriteString("]\n\n/-- number of whitespace-separated fields cronParseSpec insists on -/\n")
	fmt.Fprintf(&sb, "def fieldCount : Nat := %d\n\nend ErgoVerif.Generated.Cron\n", fieldCount)
	vals["macros"] = macros
	vals["fieldCount"] = fieldCount
	facts.Values["Cron"] = vals
	return sb.String(), nil
}

// the values of the tree the model was written against; used only when the anchor is lost
const cronFallback = `-- FALLBACK (anchor not found in node/cron_parse.go): values of the tree the model was written against
namespace ErgoVerif.Generated.Cron

def cronMaskTypeLastDM : Nat := 1152921504606846976
def cronMaskTypeLastDW : Nat := 2305843009213693952
def cronMaskTypeNDW : Nat := 3458764513820540928
def cronMaskTypeMin : Nat := 11529215046068469760
def cronMaskTypeHour : Nat := 12682136550675316736
def cronMaskTypeDay : Nat := 13835058055282163712
def cronMaskTypeMonth : Nat := 14987979559889010688
def cronMaskTypeWeekDay : Nat := 16140901064495857664
def cronMaskType : Nat := 17293822569102704640

structure FieldDesc where
  min : Nat
  max : Nat
  mask : Nat
  reg : String
  deriving Repr, DecidableEq

def cronFieldMin : FieldDesc := ⟨0, 59, 11529215046068469760, "^(?:\\*$|\\*/\\d+|\\d+-\\d+|\\d+-\\d+/\\d+|\\d+)$"⟩
def cronFieldHour : FieldDesc := ⟨0, 23, 12682136550675316736, "^(?:\\*$|\\*/\\d+|\\d+-\\d+|\\d+-\\d+/\\d+|\\d+)$"⟩
def cronFieldDay : FieldDesc := ⟨1, 31, 13835058055282163712, "^(?:\\*$|\\*/\\d+|\\d+-\\d+|\\d+-\\d+/\\d+|L|\\d+)$"⟩
def cronFieldMonth : FieldDesc := ⟨1, 12, 14987979559889010688, "^(?:\\*$|\\*/\\d+|\\d+-\\d+|\\d+)$"⟩
def cronFieldWeekDay : FieldDesc := ⟨1, 7, 16140901064495857664, "^(?:\\*$|\\d+-\\d+|[1-7]L|\\d+|[1-7]#[1-5])$"⟩

def macros : List (String × String) :=
  [("@hourly", "1 * * * *"), ("@daily", "10 3 * * *"), ("@monthly", "20 4 1 * *"), ("@weekly", "30 5 * * 1")]

def fieldCount : Nat := 5

end ErgoVerif.Generated.Cron
`

import ErgoVerif.Model.Pool
/-!
# C19 — pool dispatch: each request to exactly one live worker

`Model/Pool.lean` mirrors `Pool.forward`. The message object is forwarded untouched (`Forward` pushes the very
`*gen.MailboxMessage`, so sender and request reference are the original ones): in the model a dispatch is just
the choice of the receiving worker.
-/
namespace ErgoVerif.Props.C19
open ErgoVerif.Pool

def Room (x : Worker) : Prop := x.limit = 0 ∨ x.len < x.limit

theorem room_iff (w : Worker) : (w.limit == 0 || decide (w.len < w.limit)) = true ↔ Room w := by
  simp [Room]

theorem loop_to (spawnOk : Nat → Bool) (w : Nat) : ∀ (n : Nat) (p : Pool),
    (forwardLoop spawnOk n p).2 = .to w → ∃ x ∈ p.ring, x.id = w ∧ x.alive = true ∧ Room x := by
  intro n
  induction n with
  | zero => intro p h; simp [forwardLoop] at h
  | succ n ih =>
    intro p h
    unfold forwardLoop at h
    split at h
    · simp at h
    · rename_i x rest hr
      split at h
      · rename_i ha
        split at h
        · rename_i hacc
          simp at h
          exact ⟨x, by simp [hr], h, ha, (room_iff x).mp hacc⟩
        · obtain ⟨y, hy, h1, h2, h3⟩ := ih _ h
          refine ⟨y, ?_, h1, h2, h3⟩
          simp at hy; rw [hr]; rcases hy with hy | hy <;> simp [hy]
      · split at h
        · simp at h
        · obtain ⟨y, hy, h1, h2, h3⟩ := ih _ h
          exact ⟨y, by rw [hr]; simp at hy; simp [hy], h1, h2, h3⟩

theorem loop_resp (spawnOk : Nat → Bool) (d nw : Nat) : ∀ (n : Nat) (p : Pool),
    (forwardLoop spawnOk n p).2 = .respawned d nw →
    (∃ x ∈ p.ring, x.id = d ∧ x.alive = false) ∧ spawnOk nw = true ∧
    ∃ y ∈ (forwardLoop spawnOk n p).1.ring, y.id = nw ∧ y.alive = true ∧ y.len = 1 := by
  intro n
  induction n with
  | zero => intro p h; simp [forwardLoop] at h
  | succ n ih =>
    intro p h
    unfold forwardLoop at h ⊢
    split at h
    · simp at h
    · rename_i x rest hr
      simp only [hr]
      split at h
      · rename_i ha
        simp only [ha, if_true]
        split at h
        · simp at h
        · rename_i hacc
          simp only [hacc]
          obtain ⟨⟨y, hy, h1, h2⟩, h3, h4⟩ := ih _ h
          refine ⟨⟨y, ?_, h1, h2⟩, h3, h4⟩
          simp at hy; rcases hy with hy | hy <;> simp [hy]
      · rename_i ha
        have ha' : x.alive = false := by simpa using ha
        simp only [ha']
        split at h
        · rename_i hs
          simp at h
          obtain ⟨rfl, rfl⟩ := h
          simp only [hs, if_true]
          refine ⟨⟨x, by simp, rfl, ha'⟩, by first | trivial | exact hs, ⟨⟨p.nextId, true, 1, p.limit⟩, ?_, rfl, rfl, rfl⟩⟩
          simp
        · rename_i hs
          simp only [hs]
          obtain ⟨⟨y, hy, h1, h2⟩, h3, h4⟩ := ih _ h
          exact ⟨⟨y, by simp at hy; simp [hy], h1, h2⟩, h3, h4⟩

theorem loop_drop (spawnOk : Nat → Bool) : ∀ (n : Nat) (p : Pool),
    (forwardLoop spawnOk n p).2 = .dropped →
    ∀ x ∈ p.ring.take n, (x.alive = true ∧ ¬ Room x) ∨ x.alive = false := by
  intro n
  induction n with
  | zero => intro p _ x hx; simp at hx
  | succ n ih =>
    intro p h
    unfold forwardLoop at h
    split at h
    · rename_i hr; intro x hx; simp [hr] at hx
    · rename_i w rest hr
      rw [hr]
      intro x hx
      simp at hx
      split at h
      · rename_i ha
        split at h
        · simp at h
        · rename_i hacc
          rcases hx with rfl | hx
          · left; exact ⟨ha, fun hr' => hacc ((room_iff x).mpr hr')⟩
          · apply ih _ h
            simp only
            have hsub : List.take n rest <+: List.take n (rest ++ [w]) := by
              rw [List.take_append]; exact List.prefix_append _ _
            exact hsub.subset hx
      · rename_i ha
        split at h
        · simp at h
        · rcases hx with rfl | hx
          · right; simpa using ha
          · exact ih _ h x hx

/-- **Exactly one worker, or dropped only when every worker was full (or dead and unspawnable).**
A dispatched message goes to one worker of the ring that was alive and had room; or to the fresh replacement of a
worker found dead; it is dropped only if every worker of the ring was full, or dead with the respawn failing. -/
theorem C19_one_worker (spawnOk : Nat → Bool) (p : Pool) :
    (∀ w, (forward spawnOk p).2 = .to w → ∃ x ∈ p.ring, x.id = w ∧ x.alive = true ∧ (x.limit = 0 ∨ x.len < x.limit)) ∧
    (∀ d nw, (forward spawnOk p).2 = .respawned d nw →
        (∃ x ∈ p.ring, x.id = d ∧ x.alive = false) ∧ spawnOk nw = true ∧
        ∃ y ∈ (forward spawnOk p).1.ring, y.id = nw ∧ y.alive = true ∧ y.len = 1) ∧
    ((forward spawnOk p).2 = .dropped →
        ∀ x ∈ p.ring, (x.alive = true ∧ ¬ (x.limit = 0 ∨ x.len < x.limit)) ∨ x.alive = false) := by
  refine ⟨fun w h => loop_to spawnOk w _ p h, fun d nw h => loop_resp spawnOk d nw _ p h, fun h => ?_⟩
  have := loop_drop spawnOk _ p h
  simpa [Room] using this

/-- **The ring keeps its size** whenever no respawn fails: after any dispatch the ring has as many workers as before. -/
theorem C19_ring_size (spawnOk : Nat → Bool) (hall : ∀ k, spawnOk k = true) :
    ∀ (n : Nat) (p : Pool), (forwardLoop spawnOk n p).1.ring.length = p.ring.length := by
  intro n
  induction n with
  | zero => intro p; simp [forwardLoop]
  | succ n ih =>
    intro p
    simp only [forwardLoop]
    cases hr : p.ring with
    | nil => simp [hr]
    | cons w rest =>
      simp only
      split
      · split
        · simp
        · rw [ih]; simp
      · simp [hall]

/-- a skipped (full) worker is never given the message and a live worker with room at the head always is:
    round robin — the chosen worker moves to the tail -/
theorem C19_head_with_room (spawnOk : Nat → Bool) (p : Pool) (w : Worker) (rest : List Worker)
    (hr : p.ring = w :: rest) (ha : w.alive = true) (hroom : w.limit = 0 ∨ w.len < w.limit) :
    (forward spawnOk p).2 = .to w.id ∧ (forward spawnOk p).1.ring = rest ++ [{ w with len := w.len + 1 }] := by
  unfold forward
  rw [hr]
  simp only [List.length_cons, forwardLoop, hr, ha, if_true]
  have : (w.limit == 0 || decide (w.len < w.limit)) = true := by
    rcases hroom with h | h <;> simp [h]
  simp [this]

/-- non-vacuity: pool of 3 workers with mailbox 1; worker 0 full, worker 1 dead → the message goes to the replacement -/
example : (forward (fun _ => true) ⟨[⟨0, true, 1, 1⟩, ⟨1, false, 0, 1⟩, ⟨2, true, 0, 1⟩], 3, 1, 0, 0, 0⟩).2 = .respawned 1 3 := by decide
example : (forward (fun _ => true) ⟨[⟨0, true, 1, 1⟩, ⟨1, true, 1, 1⟩], 2, 1, 0, 0, 0⟩).2 = .dropped := by decide

end ErgoVerif.Props.C19

import ErgoVerif.Lemmas.Perm
/-! the permission tables never allow more than what the operation history justifies (induction over all histories) -/
namespace ErgoVerif.Perm

def spawnNodes (s : St) (n : Nat) : NodeMap := ((s.spawn n).map (·.nodes)).getD []

theorem enableSpawn_fail (s : St) (n f : Nat) (ns : List Nat) (h : (enableSpawn s n f ns).2 ≠ .ok) :
    (enableSpawn s n f ns).1 = s := by
  unfold enableSpawn at h ⊢
  by_cases hf : f = 0
  · simp [hf]
  · simp only [hf, ↓reduceIte] at h ⊢
    cases hs : s.spawn n with
    | none => simp [hs] at h
    | some e =>
      simp only [hs] at h ⊢
      by_cases hfa : e.factory = f
      · simp [hfa] at h
      · simp [hfa]

theorem enableSpawn_ok (s : St) (n f : Nat) (ns : List Nat) (h : (enableSpawn s n f ns).2 = .ok) :
    (enableSpawn s n f ns).1.spawn =
      upd s.spawn n (some ⟨f, if ns.isEmpty then [] else (spawnNodes s n).setAll ns true⟩)
    ∧ (enableSpawn s n f ns).1.app = s.app := by
  unfold enableSpawn at h ⊢
  by_cases hf : f = 0
  · simp [hf] at h
  · simp only [hf, ↓reduceIte] at h ⊢
    cases hs : s.spawn n with
    | none => simp [hs, spawnNodes]
    | some e =>
      simp only [hs] at h ⊢
      by_cases hfa : e.factory = f
      · simp [hfa, spawnNodes, hs]
      · simp [hfa] at h

theorem spawnNodes_get (s : St) (n p : Nat) (h : (spawnNodes s n).get p = true) :
    ∃ e, s.spawn n = some e ∧ e.nodes.allows p = true := by
  unfold spawnNodes at h
  cases hs : s.spawn n with
  | none => simp [hs, NodeMap.get_nil] at h
  | some e => simp only [hs, Option.map_some, Option.getD_some] at h; exact ⟨e, rfl, NodeMap.get_true_allows _ _ h⟩

theorem spawn_safe (ops : List Op) (name peer : Nat) :
    allowedSpawn (after ops) name peer → spawnJustified name peer ops = true := by
  induction ops with
  | nil => simp [allowedSpawn_iff, after, init]
  | cons op older ih =>
    intro h
    rw [allowedSpawn_iff] at h
    obtain ⟨e, he, hal⟩ := h
    cases op with
    | enableSpawn n f ns =>
      simp only [spawnJustified]
      split
      · rfl
      · rename_i hc
        apply ih
        rw [allowedSpawn_iff]
        simp only [after, step] at he
        by_cases hok : (enableSpawn (after older) n f ns).2 = .ok
        · rw [(enableSpawn_ok _ _ _ _ hok).1] at he
          by_cases hn : name = n
          · subst hn
            have hnc : covers ns peer ≠ true := fun hcov => hc ⟨rfl, hcov, hok⟩
            obtain ⟨hne, hnot⟩ := not_covers ns peer hnc
            have hemp : ns.isEmpty = false := by simpa [List.isEmpty_iff] using hne
            simp only [upd_same, Option.some.injEq] at he
            subst he
            simp only [hemp, Bool.false_eq_true, ↓reduceIte] at hal
            rw [NodeMap.allows_setAll _ _ _ _ hne] at hal
            simp only [hnot, ↓reduceIte] at hal
            exact spawnNodes_get _ _ _ hal
          · rw [upd_other _ _ _ _ hn] at he
            exact ⟨e, he, hal⟩
        · rw [enableSpawn_fail _ _ _ _ hok] at he
          exact ⟨e, he, hal⟩
    | disableSpawn n ns =>
      simp only [spawnJustified]
      simp only [after, step, disableSpawn] at he
      cases hs : (after older).spawn n with
      | none =>
        simp only [hs] at he
        split
        · rename_i hc
          obtain ⟨rfl, _⟩ := hc
          simp [hs] at he
        · apply ih; rw [allowedSpawn_iff]; exact ⟨e, he, hal⟩
      | some e0 =>
        simp only [hs] at he
        by_cases hn : name = n
        · subst hn
          by_cases hemp : ns.isEmpty = true
          · simp [hemp, upd_same] at he
          · simp only [hemp, Bool.false_eq_true, ↓reduceIte, upd_same, Option.some.injEq] at he
            have hne : ns ≠ [] := by simpa [List.isEmpty_iff] using hemp
            subst he
            rw [NodeMap.allows_setAll _ _ _ _ hne] at hal
            by_cases hin : peer ∈ ns
            · simp [hin] at hal
            · simp only [hin, ↓reduceIte] at hal
              have hcf : covers ns peer = false := by
                cases hc : covers ns peer with
                | false => rfl
                | true => rw [covers_iff] at hc; exact (hc.elim hne hin).elim
              simp only [hcf, Bool.false_eq_true, and_false, ↓reduceIte]
              apply ih; rw [allowedSpawn_iff]
              exact ⟨e0, hs, NodeMap.get_true_allows _ _ hal⟩
        · have hnc : ¬ (n = name ∧ covers ns peer = true) := fun h => hn h.1.symm
          simp only [hnc, ↓reduceIte]
          apply ih; rw [allowedSpawn_iff]
          split at he
          · simp only [upd, hn, ↓reduceIte] at he; exact ⟨e, he, hal⟩
          · simp only [upd, hn, ↓reduceIte] at he; exact ⟨e, he, hal⟩
    | enableApp n ns =>
      simp only [spawnJustified]
      apply ih; rw [allowedSpawn_iff]
      simp only [after, step, enableApp] at he
      exact ⟨e, he, hal⟩
    | disableApp n ns =>
      simp only [spawnJustified]
      apply ih; rw [allowedSpawn_iff]
      simp only [after, step, disableApp] at he
      split at he
      · exact ⟨e, he, hal⟩
      · split at he <;> exact ⟨e, he, hal⟩
def appNodes (s : St) (n : Nat) : NodeMap := (s.app n).getD []

theorem appNodes_get (s : St) (n p : Nat) (h : (appNodes s n).get p = true) :
    ∃ m, s.app n = some m ∧ NodeMap.allows m p = true := by
  unfold appNodes at h
  cases hs : s.app n with
  | none => simp [hs, NodeMap.get_nil] at h
  | some m => simp only [hs, Option.getD_some] at h; exact ⟨m, rfl, NodeMap.get_true_allows _ _ h⟩

theorem app_safe (ops : List Op) (name peer : Nat) :
    allowedApp (after ops) name peer → appJustified name peer ops = true := by
  induction ops with
  | nil => simp [allowedApp_iff, after, init]
  | cons op older ih =>
    intro h
    rw [allowedApp_iff] at h
    obtain ⟨m, he, hal⟩ := h
    cases op with
    | enableApp n ns =>
      simp only [appJustified]
      split
      · rfl
      · rename_i hc
        apply ih
        rw [allowedApp_iff]
        simp only [after, step, enableApp] at he
        by_cases hn : name = n
        · subst hn
          have hnc : covers ns peer ≠ true := fun hcov => hc ⟨rfl, hcov⟩
          obtain ⟨hne, hnot⟩ := not_covers ns peer hnc
          have hemp : ns.isEmpty = false := by simpa [List.isEmpty_iff] using hne
          simp only [upd_same, Option.some.injEq, hemp, Bool.false_eq_true, ↓reduceIte] at he
          subst he
          rw [NodeMap.allows_setAll _ _ _ _ hne] at hal
          simp only [hnot, ↓reduceIte] at hal
          exact appNodes_get _ _ _ hal
        · simp only [upd, hn, ↓reduceIte] at he
          exact ⟨m, he, hal⟩
    | disableApp n ns =>
      simp only [appJustified]
      simp only [after, step, disableApp] at he
      cases hs : (after older).app n with
      | none =>
        simp only [hs] at he
        split
        · rename_i hc
          obtain ⟨rfl, _⟩ := hc
          simp [hs] at he
        · apply ih; rw [allowedApp_iff]; exact ⟨m, he, hal⟩
      | some m0 =>
        simp only [hs] at he
        by_cases hn : name = n
        · subst hn
          by_cases hemp : ns.isEmpty = true
          · simp [hemp, upd_same] at he
          · simp only [hemp, Bool.false_eq_true, ↓reduceIte, upd_same, Option.some.injEq] at he
            have hne : ns ≠ [] := by simpa [List.isEmpty_iff] using hemp
            subst he
            rw [NodeMap.allows_setAll _ _ _ _ hne] at hal
            by_cases hin : peer ∈ ns
            · simp [hin] at hal
            · simp only [hin, ↓reduceIte] at hal
              have hcf : covers ns peer = false := by
                cases hc : covers ns peer with
                | false => rfl
                | true => rw [covers_iff] at hc; exact (hc.elim hne hin).elim
              simp only [hcf, Bool.false_eq_true, and_false, ↓reduceIte]
              apply ih; rw [allowedApp_iff]
              exact ⟨m0, hs, NodeMap.get_true_allows _ _ hal⟩
        · have hnc : ¬ (n = name ∧ covers ns peer = true) := fun h => hn h.1.symm
          simp only [hnc, ↓reduceIte]
          apply ih; rw [allowedApp_iff]
          split at he
          · simp only [upd, hn, ↓reduceIte] at he; exact ⟨m, he, hal⟩
          · simp only [upd, hn, ↓reduceIte] at he; exact ⟨m, he, hal⟩
    | enableSpawn n f ns =>
      simp only [appJustified]
      apply ih; rw [allowedApp_iff]
      simp only [after, step] at he
      by_cases hok : (enableSpawn (after older) n f ns).2 = .ok
      · rw [(enableSpawn_ok _ _ _ _ hok).2] at he; exact ⟨m, he, hal⟩
      · rw [enableSpawn_fail _ _ _ _ hok] at he; exact ⟨m, he, hal⟩
    | disableSpawn n ns =>
      simp only [appJustified]
      apply ih; rw [allowedApp_iff]
      simp only [after, step, disableSpawn] at he
      split at he
      · exact ⟨m, he, hal⟩
      · split at he <;> exact ⟨m, he, hal⟩

/-- the decidable "last covering operation is a successful enable" unfolded into the history statement:
    newest-first list `post ++ enable :: older`, no covering disable in `post` -/
theorem spawnJustified_split (name peer : Nat) (ops : List Op) (h : spawnJustified name peer ops = true) :
    ∃ post f ns older, ops = post ++ .enableSpawn name f ns :: older ∧ covers ns peer = true ∧
      (enableSpawn (after older) name f ns).2 = .ok ∧
      ∀ ns', Op.disableSpawn name ns' ∈ post → covers ns' peer = false := by
  induction ops with
  | nil => simp [spawnJustified] at h
  | cons op older ih =>
    cases op with
    | enableSpawn n f ns =>
      simp only [spawnJustified] at h
      split at h
      · rename_i hc
        obtain ⟨rfl, hcov, hok⟩ := hc
        exact ⟨[], f, ns, older, rfl, hcov, hok, by simp⟩
      · obtain ⟨post, f', ns', o, rfl, h1, h2, h3⟩ := ih h
        refine ⟨.enableSpawn n f ns :: post, f', ns', o, rfl, h1, h2, ?_⟩
        intro ns'' hm
        simp only [List.mem_cons, reduceCtorEq, false_or] at hm
        exact h3 _ hm
    | disableSpawn n ns =>
      simp only [spawnJustified] at h
      split at h
      · cases h
      · rename_i hc
        obtain ⟨post, f', ns', o, rfl, h1, h2, h3⟩ := ih h
        refine ⟨.disableSpawn n ns :: post, f', ns', o, rfl, h1, h2, ?_⟩
        intro ns'' hm
        simp only [List.mem_cons, Op.disableSpawn.injEq] at hm
        rcases hm with ⟨rfl, rfl⟩ | hm
        · cases hcv : covers ns'' peer with
          | false => rfl
          | true => exact (hc ⟨rfl, hcv⟩).elim
        · exact h3 _ hm
    | enableApp n ns =>
      simp only [spawnJustified] at h
      obtain ⟨post, f', ns', o, rfl, h1, h2, h3⟩ := ih h
      refine ⟨.enableApp n ns :: post, f', ns', o, rfl, h1, h2, ?_⟩
      intro ns'' hm
      simp only [List.mem_cons, reduceCtorEq, false_or] at hm
      exact h3 _ hm
    | disableApp n ns =>
      simp only [spawnJustified] at h
      obtain ⟨post, f', ns', o, rfl, h1, h2, h3⟩ := ih h
      refine ⟨.disableApp n ns :: post, f', ns', o, rfl, h1, h2, ?_⟩
      intro ns'' hm
      simp only [List.mem_cons, reduceCtorEq, false_or] at hm
      exact h3 _ hm

theorem appJustified_split (name peer : Nat) (ops : List Op) (h : appJustified name peer ops = true) :
    ∃ post ns older, ops = post ++ .enableApp name ns :: older ∧ covers ns peer = true ∧
      ∀ ns', Op.disableApp name ns' ∈ post → covers ns' peer = false := by
  induction ops with
  | nil => simp [appJustified] at h
  | cons op older ih =>
    cases op with
    | enableApp n ns =>
      simp only [appJustified] at h
      split at h
      · rename_i hc
        obtain ⟨rfl, hcov⟩ := hc
        exact ⟨[], ns, older, rfl, hcov, by simp⟩
      · obtain ⟨post, ns', o, rfl, h1, h3⟩ := ih h
        refine ⟨.enableApp n ns :: post, ns', o, rfl, h1, ?_⟩
        intro ns'' hm
        simp only [List.mem_cons, reduceCtorEq, false_or] at hm
        exact h3 _ hm
    | disableApp n ns =>
      simp only [appJustified] at h
      split at h
      · cases h
      · rename_i hc
        obtain ⟨post, ns', o, rfl, h1, h3⟩ := ih h
        refine ⟨.disableApp n ns :: post, ns', o, rfl, h1, ?_⟩
        intro ns'' hm
        simp only [List.mem_cons, Op.disableApp.injEq] at hm
        rcases hm with ⟨rfl, rfl⟩ | hm
        · cases hcv : covers ns'' peer with
          | false => rfl
          | true => exact (hc ⟨rfl, hcv⟩).elim
        · exact h3 _ hm
    | enableSpawn n f ns =>
      simp only [appJustified] at h
      obtain ⟨post, ns', o, rfl, h1, h3⟩ := ih h
      refine ⟨.enableSpawn n f ns :: post, ns', o, rfl, h1, ?_⟩
      intro ns'' hm
      simp only [List.mem_cons, reduceCtorEq, false_or] at hm
      exact h3 _ hm
    | disableSpawn n ns =>
      simp only [appJustified] at h
      obtain ⟨post, ns', o, rfl, h1, h3⟩ := ih h
      refine ⟨.disableSpawn n ns :: post, ns', o, rfl, h1, ?_⟩
      intro ns'' hm
      simp only [List.mem_cons, reduceCtorEq, false_or] at hm
      exact h3 _ hm

end ErgoVerif.Perm

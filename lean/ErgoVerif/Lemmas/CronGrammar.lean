/-
The text-level grammar of a spec, stated declaratively (`OptText`, `FieldText`, `SpecText`), and the proof
that the parser model accepts exactly it: parseSpec cs = some s ↔ SpecText cs s.
-/
import ErgoVerif.Lemmas.CronPrint
namespace ErgoVerif.Cron
open ErgoVerif.Generated.Cron

/-! ### splitOn is inverted by joinWith -/

theorem joinWith_cons_cons (sep c : Char) (w : List Char) (ws : List (List Char)) :
    joinWith sep ((c :: w) :: ws) = c :: joinWith sep (w :: ws) := by
  cases ws <;> simp [joinWith]

theorem joinWith_splitOn (sep : Char) (cs : List Char) : joinWith sep (splitOn sep cs) = cs := by
  induction cs with
  | nil => rfl
  | cons c rest ih =>
    simp only [splitOn]
    split
    · rename_i h
      cases hs : splitOn sep rest with
      | nil => exact absurd hs (splitOn_ne_nil sep rest)
      | cons w ws => rw [hs] at ih; simp only [joinWith, List.nil_append]; rw [ih, h]
    · split
      · rename_i hs; exact absurd hs (splitOn_ne_nil sep rest)
      · rename_i w ws hs
        rw [hs] at ih
        rw [joinWith_cons_cons, ih]

theorem splitOn_one {sep : Char} {cs a : List Char} (h : splitOn sep cs = [a]) : cs = a := by
  have := joinWith_splitOn sep cs; rw [h] at this; simpa [joinWith] using this.symm

theorem splitOn_two {sep : Char} {cs a b : List Char} (h : splitOn sep cs = [a, b]) : cs = a ++ sep :: b := by
  have := joinWith_splitOn sep cs; rw [h] at this; simpa [joinWith] using this.symm

theorem single_some {cs : List Char} {c : Char} (h : single cs = some c) : cs = [c] := by
  unfold single at h
  split at h
  · simp only [Option.some.injEq] at h; subst h; rfl
  · cases h

/-! ### numerals -/

/-- a decimal numeral (leading zeros allowed) with value n -/
def Numeral (cs : List Char) (n : Nat) : Prop := allDigits cs = true ∧ atoi cs = n

theorem allDigits_mem {cs : List Char} (h : allDigits cs = true) : ∀ c ∈ cs, isDigit c = true := by
  unfold allDigits at h
  simp only [Bool.and_eq_true, List.all_eq_true] at h
  exact h.2

theorem allDigits_head {cs : List Char} (h : allDigits cs = true) : ∃ c rest, cs = c :: rest ∧ isDigit c = true := by
  cases cs with
  | nil => simp [allDigits] at h
  | cons c rest => exact ⟨c, rest, rfl, allDigits_mem h c List.mem_cons_self⟩

theorem allDigits_not_mem {cs : List Char} (h : allDigits cs = true) (x : Char) (hx : isDigit x = false) : x ∉ cs := by
  intro hm
  have := allDigits_mem h x hm
  rw [hx] at this; cases this

theorem parseInt_iff (cs : List Char) (lo hi n : Nat) :
    parseInt cs lo hi = some n ↔ Numeral cs n ∧ lo ≤ n ∧ n ≤ hi := by
  unfold parseInt Numeral
  constructor
  · intro h
    split at h
    · rename_i hd
      simp only at h
      split at h
      · cases h
      · split at h
        · cases h
        · simp only [Option.some.injEq] at h
          exact ⟨⟨hd, h⟩, by omega, by omega⟩
    · cases h
  · rintro ⟨⟨hd, rfl⟩, h1, h2⟩
    have a : ¬ atoi cs < lo := by omega
    have b : ¬ atoi cs > hi := by omega
    simp [hd, a, b]

theorem numeral_digits (n : Nat) : Numeral (digits n) n := ⟨allDigits_digits n, atoi_digits n⟩

/-! ### the texts of one option -/

inductive OptText : List Char → Item → Prop
  | num {d : List Char} {n : Nat} : Numeral d n → OptText d (.num n)
  | range {a b : List Char} {x y : Nat} : Numeral a x → Numeral b y → OptText (a ++ '-' :: b) (.range x y)
  | rangeStep {a b s : List Char} {x y z : Nat} : Numeral a x → Numeral b y → Numeral s z →
      OptText (a ++ '-' :: (b ++ '/' :: s)) (.rangeStep x y z)
  | starStep {d : List Char} {s : Nat} : Numeral d s → OptText ('*' :: '/' :: d) (.starStep s)
  | last : OptText ['L'] .last
  | lastW {w : Nat} : 1 ≤ w → w ≤ 7 → OptText [digitChar w, 'L'] (.lastW w)
  | nth {w n : Nat} : 1 ≤ w → w ≤ 7 → 1 ≤ n → n ≤ 5 → OptText [digitChar w, '#', digitChar n] (.nth w n)

/-! ### shape: forward lemmas for arbitrary numerals -/

theorem shapeTail_num {d : List Char} (h : allDigits d = true) : shapeTail d = some (.num d) := by
  unfold shapeTail
  rw [splitOn_none '-' _ (allDigits_not_mem h _ (by decide))]
  simp only
  rw [splitOn_none '#' _ (allDigits_not_mem h _ (by decide))]
  simp only
  rw [splitOn_none 'L' _ (allDigits_not_mem h _ (by decide))]
  simp [h]

theorem shape_of_digit_start {a rest : List Char} (h : allDigits a = true) :
    shape (a ++ rest) = shapeTail (a ++ rest) := by
  obtain ⟨c, r, rfl, hc⟩ := allDigits_head h
  exact shape_digit_head c (r ++ rest) hc

theorem shape_num' {d : List Char} (h : allDigits d = true) : shape d = some (.num d) := by
  have := shape_of_digit_start (rest := []) h
  rw [List.append_nil] at this
  rw [this, shapeTail_num h]

theorem shape_range' {a b : List Char} (ha : allDigits a = true) (hb : allDigits b = true) :
    shape (a ++ '-' :: b) = some (.range a b) := by
  rw [shape_of_digit_start ha]
  unfold shapeTail
  rw [splitOn_append '-' _ _ (allDigits_not_mem ha _ (by decide)), splitOn_none '-' _ (allDigits_not_mem hb _ (by decide))]
  simp only [ha, if_true]
  rw [splitOn_none '/' _ (allDigits_not_mem hb _ (by decide))]
  simp [hb]

theorem shape_rangeStep' {a b s : List Char} (ha : allDigits a = true) (hb : allDigits b = true) (hs : allDigits s = true) :
    shape (a ++ '-' :: (b ++ '/' :: s)) = some (.rangeStep a b s) := by
  rw [shape_of_digit_start ha]
  unfold shapeTail
  have hno : '-' ∉ b ++ '/' :: s := by
    simp only [List.mem_append, List.mem_cons, not_or]
    exact ⟨allDigits_not_mem hb _ (by decide), by decide, allDigits_not_mem hs _ (by decide)⟩
  rw [splitOn_append '-' _ _ (allDigits_not_mem ha _ (by decide)), splitOn_none '-' _ hno]
  simp only [ha, if_true]
  rw [splitOn_append '/' _ _ (allDigits_not_mem hb _ (by decide)), splitOn_none '/' _ (allDigits_not_mem hs _ (by decide))]
  simp [hb, hs]

theorem shape_starStep' {d : List Char} (h : allDigits d = true) : shape ('*' :: '/' :: d) = some (.starStep d) := by
  unfold shape
  have h1 : ('*' :: '/' :: d) ≠ ['*'] := by simp
  simp [h1, h]

/-! ### shape: inversion -/

theorem digitChar_of_char {c : Char} (h1 : '0' ≤ c) (h2 : c ≤ '9') : digitChar (c.toNat - 48) = c := by
  have a := char_le_toNat h1
  have b := char_le_toNat h2
  have k0 : ('0' : Char).toNat = 48 := by decide
  have k9 : ('9' : Char).toNat = 57 := by decide
  unfold digitChar
  have : 48 + (c.toNat - 48) = c.toNat := by omega
  rw [this, Char.ofNat_toNat]

/-- what each shape says about the text -/
def ShapeInv (cs : List Char) : Shape → Prop
  | .star => cs = ['*']
  | .L => cs = ['L']
  | .starStep d => cs = '*' :: '/' :: d ∧ allDigits d = true
  | .num d => cs = d ∧ allDigits d = true
  | .range a b => cs = a ++ '-' :: b ∧ allDigits a = true ∧ allDigits b = true
  | .rangeStep a b s => cs = a ++ '-' :: (b ++ '/' :: s) ∧ allDigits a = true ∧ allDigits b = true ∧ allDigits s = true
  | .wL w => cs = [w, 'L'] ∧ '1' ≤ w ∧ w ≤ '7'
  | .nth w n => cs = [w, '#', n] ∧ '1' ≤ w ∧ w ≤ '7' ∧ '1' ≤ n ∧ n ≤ '5'

theorem shape_inv {cs : List Char} {sh : Shape} (h : shape cs = some sh) : ShapeInv cs sh := by
  unfold shape at h
  split at h
  · rename_i hc; simp only [Option.some.injEq] at h; subst h; simp only [ShapeInv]; exact hc
  split at h
  · rename_i hc; simp only [Option.some.injEq] at h; subst h; simp only [ShapeInv]; exact hc
  split at h
  · rename_i hstar
    split at h
    · rename_i hc
      simp only [Option.some.injEq] at h; subst h
      simp only [Bool.and_eq_true, decide_eq_true_eq] at hc
      simp only [ShapeInv]
      refine ⟨?_, hc.2⟩
      cases cs with
      | nil => simp at hstar
      | cons c r =>
        simp only [List.head?_cons, Option.some.injEq] at hstar
        subst hstar
        cases r with
        | nil => simp at hc
        | cons d r2 =>
          have := hc.1
          simp only [List.drop_succ_cons, List.drop_zero, List.head?_cons, Option.some.injEq] at this
          subst this
          rfl
    · cases h
  · unfold shapeTail at h
    split at h
    · rename_i a r hsplit
      have hcs := splitOn_two hsplit
      split at h
      · rename_i ha
        split at h
        · rename_i b hb
          have hr := splitOn_one hb
          split at h
          · rename_i hbd
            simp only [Option.some.injEq] at h; subst h
            subst hr
            simp only [ShapeInv]
            exact ⟨hcs, ha, hbd⟩
          · cases h
        · rename_i b s hb
          have hr := splitOn_two hb
          split at h
          · rename_i hbd
            simp only [Option.some.injEq] at h; subst h
            simp only [Bool.and_eq_true] at hbd
            subst hr
            simp only [ShapeInv]
            exact ⟨hcs, ha, hbd.1, hbd.2⟩
          · cases h
        · cases h
      · cases h
    · rename_i d hsplit
      have hcs := splitOn_one hsplit
      split at h
      · rename_i w n hwn
        have hd := splitOn_two hwn
        split at h
        · rename_i w' n' hw hn
          split at h
          · rename_i hc
            simp only [Option.some.injEq] at h; subst h
            simp only [Bool.and_eq_true, decide_eq_true_eq] at hc
            rw [single_some hw, single_some hn] at hd
            simp only [ShapeInv]
            exact ⟨by rw [hcs, hd]; rfl, hc.1.1.1, hc.1.1.2, hc.1.2, hc.2⟩
          · cases h
        · cases h
      · rename_i x hx
        have hd := splitOn_one hx
        split at h
        · rename_i w e hwe
          have hxe := splitOn_two hwe
          split at h
          · rename_i w' hw
            split at h
            · rename_i hc
              simp only [Option.some.injEq] at h; subst h
              simp only [Bool.and_eq_true, decide_eq_true_eq, List.isEmpty_iff] at hc
              rw [single_some hw, hc.1.1] at hxe
              simp only [ShapeInv]
              exact ⟨by rw [hcs, hd, hxe]; rfl, hc.1.2, hc.2⟩
            · cases h
          · cases h
        · rename_i y hy
          have hxy := splitOn_one hy
          split at h
          · rename_i hyd
            simp only [Option.some.injEq] at h; subst h
            simp only [ShapeInv]
            exact ⟨by rw [hcs, hd, hxy], hyd⟩
          · cases h
        · cases h
      · cases h
    · cases h

/-! ### one option: parseOption accepts exactly OptText ∧ valid -/

theorem toNat_le_char {c d : Char} (h : c.toNat ≤ d.toNat) : c ≤ d :=
  Char.le_def.mpr (UInt32.le_iff_toNat_le.mpr h)

theorem digit_range_of {c : Char} {lo hi : Char} (h1 : lo ≤ c) (h2 : c ≤ hi) (hl : '0' ≤ lo) (hh : hi ≤ '9') :
    '0' ≤ c ∧ c ≤ '9' :=
  ⟨toNat_le_char (Nat.le_trans (char_le_toNat hl) (char_le_toNat h1)),
   toNat_le_char (Nat.le_trans (char_le_toNat h2) (char_le_toNat hh))⟩

theorem parseOption_optText {k : Kind} {cs : List Char} {i : Item} (h : parseOption k cs = some (.item i)) :
    OptText cs i := by
  unfold parseOption at h
  cases hs : shape cs with
  | none => simp [hs] at h
  | some sh =>
    have hinv := shape_inv hs
    simp only [hs] at h
    by_cases hr : regexAllows k sh = false
    · simp [hr] at h
    · have hr' : regexAllows k sh = true := by simpa using hr
      simp only [hr', Bool.true_eq_false, if_false] at h
      cases sh with
      | star => simp at h
      | L =>
        simp only [Option.some.injEq, Opt.item.injEq] at h
        subst h
        simp only [ShapeInv] at hinv
        rw [hinv]; exact .last
      | starStep ds =>
        simp only [Option.map_eq_some_iff, Opt.item.injEq] at h
        obtain ⟨s, hp, rfl⟩ := h
        simp only [ShapeInv] at hinv
        rw [hinv.1]
        exact .starStep ((parseInt_iff _ _ _ _).mp hp).1
      | range a b =>
        simp only at h
        split at h
        · rename_i a' b' ha hb
          split at h
          · cases h
          · simp only [Option.some.injEq, Opt.item.injEq] at h
            subst h
            simp only [ShapeInv] at hinv
            rw [hinv.1]
            exact .range ((parseInt_iff _ _ _ _).mp ha).1 ((parseInt_iff _ _ _ _).mp hb).1
        · cases h
      | rangeStep a b s =>
        simp only at h
        split at h
        · rename_i a' b' s' ha hb hs'
          split at h
          · cases h
          · simp only [Option.some.injEq, Opt.item.injEq] at h
            subst h
            simp only [ShapeInv] at hinv
            rw [hinv.1]
            exact .rangeStep ((parseInt_iff _ _ _ _).mp ha).1 ((parseInt_iff _ _ _ _).mp hb).1 ((parseInt_iff _ _ _ _).mp hs').1
        · cases h
      | nth w n =>
        simp only at h
        split at h
        · rename_i w' n' hw hn
          simp only [Option.some.injEq, Opt.item.injEq] at h
          subst h
          simp only [ShapeInv] at hinv
          obtain ⟨hcs, c1, c2, c3, c4⟩ := hinv
          have e1 := parseInt_single hw
          have e2 := parseInt_single hn
          have dw := digit_range_of c1 c2 (by decide) (by decide)
          have dn := digit_range_of c3 c4 (by decide) (by decide)
          have t1 := char_le_toNat c1
          have t2 := char_le_toNat c2
          have t3 := char_le_toNat c3
          have t4 := char_le_toNat c4
          have k1 : ('1' : Char).toNat = 49 := by decide
          have k7 : ('7' : Char).toNat = 55 := by decide
          have k5 : ('5' : Char).toNat = 53 := by decide
          rw [hcs, ← digitChar_of_char dw.1 dw.2, ← digitChar_of_char dn.1 dn.2, ← e1, ← e2]
          exact .nth (by omega) (by omega) (by omega) (by omega)
        · cases h
      | wL w =>
        simp only [Option.map_eq_some_iff, Opt.item.injEq] at h
        obtain ⟨s, hp, rfl⟩ := h
        simp only [ShapeInv] at hinv
        obtain ⟨hcs, c1, c2⟩ := hinv
        have e1 := parseInt_single hp
        have dw := digit_range_of c1 c2 (by decide) (by decide)
        have t1 := char_le_toNat c1
        have t2 := char_le_toNat c2
        have k1 : ('1' : Char).toNat = 49 := by decide
        have k7 : ('7' : Char).toNat = 55 := by decide
        rw [hcs, ← digitChar_of_char dw.1 dw.2, ← e1]
        exact .lastW (by omega) (by omega)
      | num d =>
        simp only [Option.map_eq_some_iff, Opt.item.injEq] at h
        obtain ⟨n, hp, rfl⟩ := h
        simp only [ShapeInv] at hinv
        rw [hinv.1]
        exact .num ((parseInt_iff _ _ _ _).mp hp).1

theorem parseOption_of_optText {k : Kind} {cs : List Char} {i : Item} (ht : OptText cs i) (hv : i.valid k = true) :
    parseOption k cs = some (.item i) := by
  cases ht with
  | num hn =>
    rename_i n
    simp only [Item.valid, Bool.and_eq_true, decide_eq_true_eq] at hv
    simp only [parseOption, shape_num' hn.1, regexAllows, Bool.true_eq_false, if_false,
      (parseInt_iff _ k.lo k.hi n).mpr ⟨hn, hv.1, hv.2⟩, Option.map_some]
  | range ha hb =>
    rename_i a b x y
    simp only [Item.valid, Bool.and_eq_true, decide_eq_true_eq] at hv
    obtain ⟨⟨h1, h2⟩, h3⟩ := hv
    have hgt : ¬ x > y := by omega
    simp only [parseOption, shape_range' ha.1 hb.1, regexAllows, Bool.true_eq_false, if_false,
      (parseInt_iff _ k.lo k.hi x).mpr ⟨ha, h1, by omega⟩, (parseInt_iff _ k.lo k.hi y).mpr ⟨hb, by omega, h3⟩, hgt]
  | rangeStep ha hb hs =>
    rename_i a b s x y z
    simp only [Item.valid, Bool.and_eq_true, decide_eq_true_eq] at hv
    obtain ⟨⟨⟨⟨⟨h0, h1⟩, h2⟩, h3⟩, h4⟩, h5⟩ := hv
    have hgt : ¬ x > y := by omega
    simp only [parseOption, shape_rangeStep' ha.1 hb.1 hs.1, regexAllows, h0, Bool.true_eq_false, if_false,
      (parseInt_iff _ k.lo k.hi x).mpr ⟨ha, h1, by omega⟩, (parseInt_iff _ k.lo k.hi y).mpr ⟨hb, by omega, h3⟩,
      (parseInt_iff _ 1 k.hi z).mpr ⟨hs, h4, h5⟩, hgt]
  | starStep hd =>
    rename_i d s
    simp only [Item.valid, Bool.and_eq_true, decide_eq_true_eq] at hv
    obtain ⟨⟨h0, h1⟩, h2⟩ := hv
    simp only [parseOption, shape_starStep' hd.1, regexAllows, h0, Bool.true_eq_false, if_false,
      (parseInt_iff _ 1 k.hi s).mpr ⟨hd, h1, h2⟩, Option.map_some]
  | last =>
    simp only [Item.valid, decide_eq_true_eq] at hv
    subst hv
    decide
  | lastW h1 h2 =>
    rename_i w
    simp only [Item.valid, Bool.and_eq_true, decide_eq_true_eq] at hv
    obtain ⟨⟨hk, _⟩, _⟩ := hv
    subst hk
    have := parseOption_lastW w (by omega) h1
    simpa [Item.print, digits_small w (by omega)] using this
  | nth h1 h2 h3 h4 =>
    rename_i w n
    simp only [Item.valid, Bool.and_eq_true, decide_eq_true_eq] at hv
    obtain ⟨⟨⟨⟨hk, _⟩, _⟩, _⟩, _⟩ := hv
    subst hk
    have := parseOption_nth w (by omega) h1 n (by omega) h3
    simpa [Item.print, digits_small w (by omega), digits_small n (by omega)] using this

/-- one option: accepted ⇔ it is a text of the option and the option is in the grammar of field k -/
theorem parseOption_iff (k : Kind) (cs : List Char) (i : Item) :
    parseOption k cs = some (.item i) ↔ OptText cs i ∧ i.valid k = true :=
  ⟨fun h => ⟨parseOption_optText h, parseOption_valid h⟩, fun ⟨a, b⟩ => parseOption_of_optText a b⟩

/-! ### a field and a whole spec -/

/-- texts and options, position by position -/
inductive OptTexts : List (List Char) → List Item → Prop
  | nil : OptTexts [] []
  | cons {t : List Char} {i : Item} {ts : List (List Char)} {is : List Item} :
      OptText t i → OptTexts ts is → OptTexts (t :: ts) (i :: is)

/-- the texts of a field of kind k: `*`, or options of the grammar of k separated by commas -/
def FieldText (k : Kind) (cs : List Char) : Field → Prop
  | .star => cs = ['*']
  | .list items => items ≠ [] ∧ (∀ i ∈ items, i.valid k = true) ∧
      ∃ texts, cs = joinWith ',' texts ∧ OptTexts texts items

/-- the texts of a spec: five white-space separated fields (after macro expansion), each a text of its field -/
def SpecText (cs : List Char) (s : Spec) : Prop :=
  ∃ f0 f1 f2 f3 f4, fields (expandMacro cs) = [f0, f1, f2, f3, f4] ∧
    FieldText .minute f0 s.minute ∧ FieldText .hour f1 s.hour ∧ FieldText .day f2 s.day ∧
    FieldText .month f3 s.month ∧ FieldText .wday f4 s.wday

theorem optText_no_comma {cs : List Char} {i : Item} (h : OptText cs i) : ',' ∉ cs := by
  have dc : ∀ w, w < 10 → digitChar w ≠ ',' := by decide
  cases h with
  | num hn => exact allDigits_not_mem hn.1 _ (by decide)
  | range ha hb =>
    simp only [List.mem_append, List.mem_cons, not_or]
    exact ⟨allDigits_not_mem ha.1 _ (by decide), by decide, allDigits_not_mem hb.1 _ (by decide)⟩
  | rangeStep ha hb hs =>
    simp only [List.mem_append, List.mem_cons, not_or]
    exact ⟨allDigits_not_mem ha.1 _ (by decide), by decide, allDigits_not_mem hb.1 _ (by decide), by decide,
      allDigits_not_mem hs.1 _ (by decide)⟩
  | starStep hd =>
    simp only [List.mem_cons, not_or]
    exact ⟨by decide, by decide, allDigits_not_mem hd.1 _ (by decide)⟩
  | last => decide
  | lastW h1 h2 =>
    rename_i w
    simp only [List.mem_cons, List.not_mem_nil, or_false, not_or]
    exact ⟨fun e => dc w (by omega) e.symm, by decide⟩
  | nth h1 h2 h3 h4 =>
    rename_i w n
    simp only [List.mem_cons, List.not_mem_nil, or_false, not_or]
    exact ⟨fun e => dc w (by omega) e.symm, by decide, fun e => dc n (by omega) e.symm⟩

theorem optTexts_props {k : Kind} {ts : List (List Char)} {is : List Item} (h : OptTexts ts is) :
    ts.length = is.length ∧ ∀ t ∈ ts, ',' ∉ t := by
  induction h with
  | nil => simp
  | cons ht _ ih =>
    refine ⟨by simp [ih.1], ?_⟩
    intro t hm
    rcases List.mem_cons.mp hm with rfl | hm
    · exact optText_no_comma ht
    · exact ih.2 t hm

theorem parseOptions_iff (k : Kind) (opts : List (List Char)) (items : List Item) :
    parseOptions k opts = some items ↔ (OptTexts opts items ∧ ∀ i ∈ items, i.valid k = true) := by
  induction opts generalizing items with
  | nil =>
    simp only [parseOptions, Option.some.injEq]
    constructor
    · rintro rfl; exact ⟨.nil, by simp⟩
    · rintro ⟨h, _⟩; cases h; rfl
  | cons fo rest ih =>
    simp only [parseOptions]
    constructor
    · intro h
      split at h
      · rename_i i hi
        simp only [Option.map_eq_some_iff] at h
        obtain ⟨r, hr, rfl⟩ := h
        obtain ⟨a, b⟩ := (ih r).mp hr
        obtain ⟨c, d⟩ := (parseOption_iff k fo i).mp hi
        refine ⟨.cons c a, ?_⟩
        intro j hj
        rcases List.mem_cons.mp hj with rfl | hj
        · exact d
        · exact b j hj
      · cases h
    · rintro ⟨ht, hv⟩
      cases ht with
      | cons h1 h2 =>
        rename_i i is
        have hi := (parseOption_iff k fo i).mpr ⟨h1, hv i List.mem_cons_self⟩
        have hr := (ih is).mpr ⟨h2, fun j hj => hv j (List.mem_cons_of_mem _ hj)⟩
        simp [hi, hr]

theorem parseOption_wildcard (k : Kind) (fo : List Char) : parseOption k fo = some .wildcard ↔ fo = ['*'] := by
  constructor
  · intro h
    unfold parseOption at h
    cases hs : shape fo with
    | none => simp [hs] at h
    | some sh =>
      have hinv := shape_inv hs
      simp only [hs] at h
      by_cases hr : regexAllows k sh = false
      · simp [hr] at h
      · have hr' : regexAllows k sh = true := by simpa using hr
        simp only [hr', Bool.true_eq_false, if_false] at h
        cases sh with
        | star => simpa [ShapeInv] using hinv
        | L => simp at h
        | starStep ds => simp at h
        | range a b => simp only at h; split at h <;> (try split at h) <;> simp at h
        | rangeStep a b s => simp only at h; split at h <;> (try split at h) <;> simp at h
        | nth w n => simp only at h; split at h <;> simp at h
        | wL w => simp at h
        | num d => simp at h
  · rintro rfl
    cases k <;> decide

/-- one field: accepted ⇔ a text of the field -/
theorem parseField_iff (k : Kind) (cs : List Char) (f : Field) : parseField k cs = some f ↔ FieldText k cs f := by
  unfold parseField
  constructor
  · intro h
    simp only at h
    split at h
    · rename_i fo hsplit
      have hcs := splitOn_one hsplit
      split at h
      · rename_i hw
        simp only [Option.some.injEq] at h; subst h
        simp only [FieldText]
        rw [hcs]; exact (parseOption_wildcard k fo).mp hw
      · rename_i i hi
        simp only [Option.some.injEq] at h; subst h
        obtain ⟨a, b⟩ := (parseOption_iff k fo i).mp hi
        refine ⟨by simp, by simpa using b, [fo], by simp [joinWith, hcs], .cons a .nil⟩
      · cases h
    · rename_i hnot
      simp only [Option.map_eq_some_iff] at h
      obtain ⟨items, hp, rfl⟩ := h
      obtain ⟨a, b⟩ := (parseOptions_iff k _ items).mp hp
      have hl := (optTexts_props (k := k) a).1
      have hne := splitOn_ne_nil ',' cs
      refine ⟨?_, b, splitOn ',' cs, (joinWith_splitOn ',' cs).symm, a⟩
      intro e; rw [e] at hl; simp at hl; exact hne hl
  · intro h
    cases f with
    | star =>
      simp only [FieldText] at h; subst h
      cases k <;> decide
    | list items =>
      obtain ⟨hne, hv, texts, hcs, ht⟩ := h
      obtain ⟨hl, hnc⟩ := optTexts_props (k := k) ht
      have htne : texts ≠ [] := by
        intro e; rw [e] at hl; simp at hl; exact hne (List.length_eq_zero_iff.mp hl.symm)
      have hsplit : splitOn ',' cs = texts := by rw [hcs]; exact splitOn_joinWith ',' texts htne hnc
      simp only [hsplit]
      cases ht with
      | nil => exact absurd rfl htne
      | cons h1 h2 =>
        rename_i t i ts is
        cases h2 with
        | nil =>
          have := (parseOption_iff k t i).mpr ⟨h1, hv i List.mem_cons_self⟩
          simp [this]
        | cons h3 h4 =>
          have := (parseOptions_iff k _ _).mpr ⟨OptTexts.cons h1 (OptTexts.cons h3 h4), hv⟩
          simp only [this, Option.map_some]

/-- the parser model accepts exactly the texts of the grammar, and yields the AST they denote -/
theorem parseSpec_iff (cs : List Char) (s : Spec) : parseSpec cs = some s ↔ SpecText cs s := by
  unfold parseSpec SpecText
  constructor
  · intro h
    split at h
    · rename_i f0 f1 f2 f3 f4 hf
      split at h
      · rename_i mi ho mo da wd h0 h1 h3 h2 h4
        simp only [Option.some.injEq] at h; subst h
        exact ⟨f0, f1, f2, f3, f4, hf, (parseField_iff _ _ _).mp h0, (parseField_iff _ _ _).mp h1,
          (parseField_iff _ _ _).mp h2, (parseField_iff _ _ _).mp h3, (parseField_iff _ _ _).mp h4⟩
      · cases h
    · cases h
  · rintro ⟨f0, f1, f2, f3, f4, hf, h0, h1, h2, h3, h4⟩
    rw [hf]
    simp only [(parseField_iff _ _ _).mpr h0, (parseField_iff _ _ _).mpr h1, (parseField_iff _ _ _).mpr h2,
      (parseField_iff _ _ _).mpr h3, (parseField_iff _ _ _).mpr h4]

end ErgoVerif.Cron

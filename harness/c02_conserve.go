package main

import (
	"fmt"
	"sync"
	"sync/atomic"
	"time"

	"ergo.services/ergo/act"
	"ergo.services/ergo/gen"
)

// c02conserve: the mailbox message objects are recycled through one node-wide pool (gen/mailbox.go); an object that is
// given back twice is handed to two later senders. Free-running part (no controlled schedule): several senders send
// numbered messages to the alias of a meta process and to an ordinary actor of the same node, with pauses that let the
// receivers fall asleep (so that the "message arrived while falling asleep" path of the loops is taken often). Oracle:
// every send that returned nil is handled exactly once, by the process it was sent to, with the payload and the
// sender it was sent with. (Props/C02Owner: the ownership invariant; this is its failing-input search.)

type c02num struct{ sender, seq int }

type c02ledger struct {
	seen    [][]uint8
	total   int64
	garbage int64
	from    int64
	first   string
}

func newC02ledger(ns, per int) *c02ledger {
	l := &c02ledger{seen: make([][]uint8, ns)}
	for i := range l.seen {
		l.seen[i] = make([]uint8, per)
	}
	return l
}

func (l *c02ledger) record(expFrom, from gen.PID, message any) {
	defer atomic.AddInt64(&l.total, 1)
	if from != expFrom {
		l.from++
		if l.first == "" {
			l.first = fmt.Sprintf("handled %#v from %s, every message was sent by %s", message, from, expFrom)
		}
	}
	m, ok := message.(c02num)
	if !ok || m.sender < 0 || m.sender >= len(l.seen) || m.seq < 0 || m.seq >= len(l.seen[m.sender]) {
		l.garbage++
		if l.first == "" {
			l.first = fmt.Sprintf("handled %#v, which nobody sent", message)
		}
		return
	}
	if l.seen[m.sender][m.seq] < 255 {
		l.seen[m.sender][m.seq]++
	}
}

type c02cmeta struct {
	gen.MetaProcess
	l       *c02ledger
	expFrom gen.PID
	stop    chan struct{}
}

func (m *c02cmeta) Init(process gen.MetaProcess) error { m.MetaProcess = process; return nil }
func (m *c02cmeta) Start() error                        { <-m.stop; return nil }
func (m *c02cmeta) HandleMessage(from gen.PID, message any) error {
	m.l.record(m.expFrom, from, message)
	return nil
}
func (m *c02cmeta) HandleCall(from gen.PID, ref gen.Ref, request any) (any, error) { return nil, nil }
func (m *c02cmeta) Terminate(reason error)                                         {}
func (m *c02cmeta) HandleInspect(from gen.PID, item ...string) map[string]string   { return nil }

type c02cowner struct {
	act.Actor
	l       *c02ledger
	expFrom gen.PID
}

type c02spawnMeta struct {
	behavior gen.MetaBehavior
	alias    chan gen.Alias
}

func (o *c02cowner) HandleMessage(from gen.PID, message any) error {
	if sm, ok := message.(c02spawnMeta); ok {
		alias, err := o.SpawnMeta(sm.behavior, gen.MetaOptions{})
		if err != nil {
			close(sm.alias)
			return nil
		}
		sm.alias <- alias
		return nil
	}
	o.l.record(o.expFrom, from, message)
	return nil
}

func c02conserve(c *Ctx) {
	r := c.R
	node, err := startQuietNode("c02c")
	if err != nil {
		r.Disagree("c02c.node", err.Error(), nil)
		return
	}
	defer node.StopForce()
	ns, per := 8, c.N(6000, 40000)
	metaL, actorL := newC02ledger(ns, per), newC02ledger(ns, per)
	ow := &c02cowner{l: actorL, expFrom: node.PID()}
	pid, err := node.Spawn(func() gen.ProcessBehavior { return ow }, gen.ProcessOptions{})
	if err != nil {
		r.Disagree("c02c.spawn", err.Error(), nil)
		return
	}
	cm := &c02cmeta{l: metaL, expFrom: node.PID(), stop: make(chan struct{})}
	defer close(cm.stop)
	sm := c02spawnMeta{cm, make(chan gen.Alias, 1)}
	node.Send(pid, sm)
	alias, ok := <-sm.alias
	if !ok {
		r.Disagree("c02c.spawnmeta", "SpawnMeta failed", nil)
		return
	}
	accM, accA := make([][]bool, ns), make([][]bool, ns)
	var sentM, sentA int64
	var wg sync.WaitGroup
	for s := 0; s < ns; s++ {
		accM[s], accA[s] = make([]bool, per), make([]bool, per)
		wg.Add(1)
		go func(s int) {
			defer wg.Done()
			for q := 0; q < per; q++ {
				if node.Send(alias, c02num{s, q}) == nil {
					accM[s][q] = true
					atomic.AddInt64(&sentM, 1)
				}
				if node.Send(pid, c02num{s, q}) == nil {
					accA[s][q] = true
					atomic.AddInt64(&sentA, 1)
				}
				if q%8 == s%8 {
					time.Sleep(50 * time.Microsecond) // let the receivers drain and fall asleep
				}
			}
		}(s)
	}
	wg.Wait()
	// no further traffic: everything accepted has to get handled; the receivers are done when the totals stand still
	waitUntil(60*time.Second, func() bool {
		return atomic.LoadInt64(&metaL.total) >= atomic.LoadInt64(&sentM) && atomic.LoadInt64(&actorL.total) >= atomic.LoadInt64(&sentA)
	})
	time.Sleep(100 * time.Millisecond)
	judge := func(who string, l *c02ledger, acc [][]bool) {
		var lost, dup, phantom int
		var firstLost, firstDup string
		for s := 0; s < ns; s++ {
			for q := 0; q < per; q++ {
				n := l.seen[s][q]
				switch {
				case acc[s][q] && n == 0:
					lost++
					if firstLost == "" {
						firstLost = fmt.Sprintf("{%d %d}", s, q)
					}
				case acc[s][q] && n > 1:
					dup++
					if firstDup == "" {
						firstDup = fmt.Sprintf("{%d %d} x%d", s, q, n)
					}
				case !acc[s][q] && n > 0:
					phantom++
				}
			}
		}
		r.CountN("conserve."+who+".handled", int(atomic.LoadInt64(&l.total)))
		r.Case(fmt.Sprintf("conserve/%s/%dx%d", who, ns, per), atomic.LoadInt64(&l.total) > 0)
		if lost+dup+phantom > 0 || l.garbage > 0 || l.from > 0 {
			r.Violation("C02/recycled-message-object", fmt.Sprintf("%s: of the accepted sends %d were never handled (first %s) and %d handled more than once (first %s); %d handled messages nobody sent, %d with a wrong sender%s",
				who, lost, firstLost, dup, firstDup, l.garbage, l.from, map[bool]string{true: " — " + l.first, false: ""}[l.first != ""]),
				map[string]interface{}{"senders": ns, "messages_per_sender_and_receiver": per, "receiver": who,
					"how": "8 goroutines send c02num{sender,seq} through node.Send to the alias of a meta process and to an actor, sleeping 50us every 8th message; count what each receiver handles"})
		}
	}
	judge("meta", metaL, accM)
	judge("actor", actorL, accA)
}

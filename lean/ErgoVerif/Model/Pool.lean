/-
act/pool.go: the worker ring and `forward` (314-351). Workers are kept in an MPSC queue used as a ring:
`forward` pops a worker, tries `Forward` (the untouched mailbox message object is pushed into the worker's Main
queue), pushes the worker back. A worker reported unknown/terminated is replaced on the spot (the replacement gets
the message); a worker whose mailbox is full is skipped; after one full round the message is dropped.
-/
namespace ErgoVerif.Pool

structure Worker where
  id : Nat
  alive : Bool
  len : Nat        -- messages queued in its Main queue
  limit : Nat      -- WorkerMailboxSize, 0 = unbounded
deriving DecidableEq, Repr

structure Pool where
  ring : List Worker   -- head = next to be tried
  nextId : Nat         -- id the next spawned worker gets
  limit : Nat          -- WorkerMailboxSize option
  forwarded : Nat
  restarts : Nat
  unhandled : Nat
deriving Repr

inductive Out
  | to (w : Nat)                       -- forwarded to live worker w
  | respawned (dead new : Nat)         -- worker `dead` was gone: replaced by `new`, which got the message
  | dropped
deriving DecidableEq, Repr

def Worker.accepts (w : Worker) : Bool := w.alive && (w.limit == 0 || w.len < w.limit)

/-- the loop body of `forward`, `n` = remaining iterations (`l := p.pool.Len()` at entry);
    `spawnOk k` says whether the k-th spawn attempt of this pool's life succeeds (environment) -/
def forwardLoop (spawnOk : Nat → Bool) : Nat → Pool → Pool × Out
  | 0, p => ({ p with unhandled := p.unhandled + 1 }, .dropped)
  | n + 1, p =>
    match p.ring with
    | [] => ({ p with unhandled := p.unhandled + 1 }, .dropped)   -- v, _ := Pop() on an empty ring cannot happen for n+1 ≤ len
    | w :: rest =>
      if w.alive then
        if w.limit == 0 || w.len < w.limit then
          ({ p with ring := rest ++ [{ w with len := w.len + 1 }], forwarded := p.forwarded + 1 }, .to w.id)
        else forwardLoop spawnOk n { p with ring := rest ++ [w] }          -- mailbox full: back to the ring, next
      else if spawnOk p.nextId then
        let nw : Worker := ⟨p.nextId, true, 1, p.limit⟩
        ({ p with ring := rest ++ [nw], nextId := p.nextId + 1, forwarded := p.forwarded + 1, restarts := p.restarts + 1 },
          .respawned w.id nw.id)
      else forwardLoop spawnOk n { p with ring := rest, nextId := p.nextId + 1 }   -- spawn failed: worker is not put back

def forward (spawnOk : Nat → Bool) (p : Pool) : Pool × Out := forwardLoop spawnOk p.ring.length p

/-- environment / management operations -/
inductive Op
  | send                      -- a Normal-priority message or request arrives at the pool
  | die (w : Nat)             -- worker w terminates (its queued messages are lost)
  | handle (w : Nat)          -- worker w handles one queued message
  | add                       -- AddWorkers(1)
  | remove                    -- RemoveWorkers(1): pops the head, sends it an exit
deriving Repr

def setWorker (f : Worker → Worker) (wid : Nat) : List Worker → List Worker
  | [] => []
  | w :: ws => if w.id = wid then f w :: ws else w :: setWorker f wid ws

def step (spawnOk : Nat → Bool) (p : Pool) : Op → Pool × Option Out
  | .send => let r := forward spawnOk p; (r.1, some r.2)
  | .die w => ({ p with ring := setWorker (fun x => { x with alive := false, len := 0 }) w p.ring }, none)
  | .handle w => ({ p with ring := setWorker (fun x => { x with len := x.len - 1 }) w p.ring }, none)
  | .add => if spawnOk p.nextId then
              ({ p with ring := p.ring ++ [⟨p.nextId, true, 0, p.limit⟩], nextId := p.nextId + 1 }, none)
            else ({ p with nextId := p.nextId + 1 }, none)
  | .remove => match p.ring with
    | [] => (p, none)
    | _ :: rest => ({ p with ring := rest }, none)

def mkPool (size limit : Nat) : Pool :=
  ⟨(List.range size).map fun i => ⟨i, true, 0, limit⟩, size, limit, 0, 0, 0⟩

end ErgoVerif.Pool

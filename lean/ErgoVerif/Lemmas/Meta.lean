import ErgoVerif.Model.Meta
namespace ErgoVerif.Meta

/-- the invariant of the protocol with the hand-off (`ho = true`) -/
def Inv (c : Cfg) : Prop :=
  c.h1 + c.r0 + c.rb + c.r3 + c.rE ≤ 1 ∧ c.tmS + c.tmH ≤ c.terms ∧ c.terms ≤ 1 ∧
  c.a0 + c.a1 + c.a2 ≤ 1 ∧ c.pend ≤ 1 ∧
  (c.st = .zero → c.a0 = 1 ∧ c.h1 + c.r0 + c.rb + c.r3 + c.rE = 0 ∧ c.terms = 0 ∧ c.r4 = 0 ∧ c.r5 = 0 ∧ c.pend = 0) ∧
  (c.st = .sleep → c.h1 + c.r0 + c.rb + c.r3 + c.rE = 0 ∧ c.terms = 0 ∧ c.pend = 0) ∧
  (c.st = .running → c.h1 + c.r0 + c.rb + c.r3 + c.rE = 1 ∧ c.terms = 0 ∧ c.pend = 0) ∧
  (c.st = .terminated → c.terms + c.pend = 1 ∧ c.h1 + c.r0 + c.rb + c.r3 + c.rE = c.pend) ∧
  (c.tmS + c.tmH ≥ 1 → c.h1 + c.r0 + c.rb + c.r3 + c.rE = 0) ∧
  (c.terms = 1 → c.st = .terminated) ∧
  (c.st ≠ .zero → c.a0 = 0) ∧
  (c.st = .sleep → c.mail > 0 → c.h0 + c.r4 + c.r5 ≥ 1)

theorem inv_init : Inv init := by simp [Inv, init]

set_option maxRecDepth 8000 in
set_option maxHeartbeats 3200000 in
theorem step_inv (c : Cfg) (l : Lbl) (c' : Cfg) (h : Inv c) (hs : step true c l = some c') : Inv c' := by
  unfold Inv at *
  obtain ⟨st, a0, a1, a2, s1, h0, h1, r0, rb, r3, r4, r5, rE, tmS, tmH, mail, handled, terms, pend⟩ := c
  cases l <;> cases st <;> simp only [step, reduceCtorEq, ↓reduceIte, Bool.true_and, Bool.and_true, if_true] at hs <;>
    (repeat' split at hs) <;>
    (first | (cases hs) | skip) <;> simp at h ⊢ <;> omega

theorem reach_inv {c : Cfg} (h : Reach true c) : Inv c := by
  obtain ⟨ls, hr⟩ := h
  exact run_inv (Inv := Inv) step_inv inv_init hr

end ErgoVerif.Meta

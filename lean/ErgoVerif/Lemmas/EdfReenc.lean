import ErgoVerif.Lemmas.EdfTop
namespace ErgoVerif.Edf
open ErgoVerif.Generated.Edt

theorem rd16_inv (bs : Bytes) (n : Nat) (r : Bytes) (h : rd16 bs = some (n, r)) : n < 65536 ∧ r.length + 2 = bs.length := by
  match bs, h with
  | a :: b :: r', h =>
    simp [rd16] at h
    obtain ⟨rfl, rfl⟩ := h
    have := a.toNat_lt; have := b.toNat_lt
    simp; omega

theorem rd32_inv (bs : Bytes) (n : Nat) (r : Bytes) (h : rd32 bs = some (n, r)) : n < 4294967296 ∧ r.length + 4 = bs.length := by
  match bs, h with
  | a :: b :: c :: d :: r', h =>
    simp [rd32] at h
    obtain ⟨rfl, rfl⟩ := h
    have := a.toNat_lt; have := b.toNat_lt; have := c.toNat_lt; have := d.toNat_lt
    simp; omega

/-- assumptions on the decoding side of the options: what the caches hand out can be encoded again -/
structure DecSideOK (o : Opts) : Prop where
  atomInline : ∀ a : Bytes, a.length ≤ 255 → (o.dmap a).length ≤ 255
  atomCached : ∀ id a, o.atomOf id = some a → (o.dmap a).length ≤ 255
  err : ∀ id e, o.errOf id = some e → (∃ s, e = .errText s ∧ s.length ≤ 32767) ∨
          (∃ k, e = .errSent k ∧ (encLeaf o .error (.errSent k)).isSome = true)
  reg : ∀ nm t, o.reg nm = some t → t.encodable = true ∧ t ≠ .any

/-- invariant of a successful decode at fuel `f`: depth, no growth of the rest, re-encodability -/
def Inv (o : Opts) (t : Ty) (f : Nat) (bs : Bytes) (v : Val) (r : Bytes) : Prop :=
  bs.length < 4294967295 → (v.depth ≤ f ∧ r.length ≤ bs.length ∧ (encB o t v).isSome = true)

theorem readAtom_inv (o : Opts) (hd : DecSideOK o) (bs a r : Bytes) (h : readAtom o bs = .ok (a, r)) :
    a.length ≤ 255 ∧ r.length ≤ bs.length := by
  unfold readAtom at h
  simp only [lenLt_eq, decide_eq_true_eq] at h
  split at h
  · simp at h
  · rename_i id r0 h16
    obtain ⟨_, hl⟩ := rd16_inv _ _ _ h16
    split at h
    · split at h
      · rename_i a0 ha
        simp at h; obtain ⟨rfl, rfl⟩ := h
        exact ⟨hd.atomCached _ _ ha, by omega⟩
      · simp at h
    · rename_i hid
      split at h
      · simp at h
      · simp at h; obtain ⟨rfl, rfl⟩ := h
        simp only [limAtomIdDec] at hid
        refine ⟨hd.atomInline _ (by simp; omega), by simp; omega⟩

theorem timeValid_len (bs : Bytes) (h : timeValid bs = true) : bs.length < 256 := by
  cases bs with
  | nil => simp [timeValid] at h
  | cons x xs => simp [timeValid] at h; rcases h with ⟨_, h⟩ | ⟨_, h⟩ <;> simp [h]

theorem decLeaf_inv (o : Opts) (hd : DecSideOK o) (t : Ty) (bs : Bytes) (v : Val) (r : Bytes)
    (h : decLeaf o t bs = .ok (v, r)) :
    v.depth = 1 ∧ r.length ≤ bs.length ∧ ((t = .error ∧ v = .nil) ∨ (encLeaf o t v).isSome = true) := by
  cases t <;> simp only [decLeaf, lenLt_eq, decide_eq_true_eq] at h
  case bool =>
    cases bs <;> simp [decLeaf] at h
    obtain ⟨rfl, rfl⟩ := h
    simp [Val.depth, encLeaf]
  case num p =>
    split at h <;> simp at h
    rename_i hw
    obtain ⟨rfl, rfl⟩ := h
    refine ⟨rfl, by simp, Or.inr ?_⟩
    have hl : (List.take p.width bs).length = p.width := by simp; omega
    simp [encLeaf, numCanon_length, hl]
  case str =>
    split at h; · simp at h
    rename_i l r0 h16
    obtain ⟨hl, hlen⟩ := rd16_inv _ _ _ h16
    split at h <;> simp at h
    obtain ⟨rfl, rfl⟩ := h
    refine ⟨rfl, by simp; omega, Or.inr ?_⟩
    simp only [encLeaf, limStringEnc]
    simp; omega
  case bin =>
    split at h; · simp at h
    rename_i l r0 h32
    obtain ⟨hl, hlen⟩ := rd32_inv _ _ _ h32
    split at h <;> simp at h
    obtain ⟨rfl, rfl⟩ := h
    refine ⟨rfl, by simp; omega, Or.inr ?_⟩
    simp only [encLeaf, limBinaryEnc]
    simp; omega
  case atom =>
    split at h <;> simp at h
    rename_i a r0 ha
    obtain ⟨rfl, rfl⟩ := h
    obtain ⟨h1, h2⟩ := readAtom_inv o hd _ _ _ ha
    refine ⟨rfl, h2, Or.inr ?_⟩
    simp only [encLeaf, limAtomEnc]
    have : ¬ a.length > 255 := by omega
    simp [this]
  case idr k =>
    split at h
    · rename_i a r0 ha
      obtain ⟨h1, h2⟩ := readAtom_inv o hd _ _ _ ha
      split at h <;> simp at h
      rename_i hw
      obtain ⟨rfl, rfl⟩ := h
      refine ⟨rfl, by simp; omega, Or.inr ?_⟩
      simp only [encLeaf, limAtomPidEnc]
      have h3 : ¬ a.length > 255 := by omega
      have h4 : (List.take k.rawLen r0).length = k.rawLen := by simp; omega
      simp [h3, h4]
    · simp at h
    · simp at h
  case idn k =>
    split at h
    · rename_i a r0 ha
      obtain ⟨h1, h2⟩ := readAtom_inv o hd _ _ _ ha
      split at h
      · rename_i b r1 hb
        obtain ⟨h3, h4⟩ := readAtom_inv o hd _ _ _ hb
        simp at h
        obtain ⟨rfl, rfl⟩ := h
        refine ⟨rfl, by omega, Or.inr ?_⟩
        simp only [encLeaf, limAtomPidEnc]
        have h5 : ¬ a.length > 255 := by omega
        have h6 : ¬ b.length > 255 := by omega
        simp [h5, h6]
      · simp at h
      · simp at h
    · simp at h
    · simp at h
  case time =>
    cases bs with
    | nil => simp [decLeaf] at h
    | cons l r0 =>
      simp only [decLeaf, lenLt_eq, decide_eq_true_eq] at h
      split at h; · simp at h
      split at h <;> simp at h
      rename_i hv
      obtain ⟨rfl, rfl⟩ := h
      refine ⟨rfl, by simp; omega, Or.inr ?_⟩
      simp [encLeaf, hv]
  case error =>
    split at h; · simp at h
    rename_i id r0 h16
    obtain ⟨hl, hlen⟩ := rd16_inv _ _ _ h16
    split at h
    · simp at h; obtain ⟨rfl, rfl⟩ := h
      exact ⟨rfl, by omega, Or.inl ⟨rfl, rfl⟩⟩
    · split at h
      · split at h
        · rename_i e he
          simp at h; obtain ⟨rfl, rfl⟩ := h
          rcases hd.err _ _ he with ⟨s, rfl, hs⟩ | ⟨k, rfl, hb⟩
          · refine ⟨rfl, by omega, Or.inr ?_⟩
            simp only [encLeaf, limErrorEnc]
            have : ¬ s.length > 32767 := by omega
            simp [this]
          · exact ⟨rfl, by omega, Or.inr hb⟩
        · simp at h
      · rename_i hid hid2
        split at h <;> simp at h
        obtain ⟨rfl, rfl⟩ := h
        simp only [limErrIdDec] at hid2
        refine ⟨rfl, by simp; omega, Or.inr ?_⟩
        simp only [encLeaf, limErrorEnc]
        simp; omega
  all_goals (simp at h)

theorem iterV_inv (o : Opts) (t : Ty) (f : Nat) (g : Bytes → Res (Val × Bytes))
    (hg : ∀ bs v r, g bs = .ok (v, r) → Inv o t f bs v r) :
    ∀ n bs vs r, iterV g n bs = .ok (vs, r) → bs.length < 4294967295 →
      vs.depth ≤ f ∧ r.length ≤ bs.length ∧ vs.length = n ∧ (encs o t vs).isSome = true
  | 0, bs, vs, r, h, hL => by
    simp [iterV] at h; obtain ⟨rfl, rfl⟩ := h
    simp [Vals.depth, Vals.length, encs]
  | n+1, bs, vs, r, h, hL => by
    simp only [iterV] at h
    split at h
    · rename_i v r1 hv
      split at h
      · rename_i vs' r2 hvs
        simp at h; obtain ⟨rfl, rfl⟩ := h
        obtain ⟨h1, h2, e1⟩ := hg _ _ _ hv hL
        obtain ⟨h4, h5, h6, e2⟩ := iterV_inv o t f g hg n _ _ _ hvs (by omega)
        refine ⟨by simp [Vals.depth]; omega, by omega, by simp [Vals.length, h6], ?_⟩
        simp only [encs]
        cases ha : encB o t v with
        | none => simp [ha] at e1
        | some a => cases hb : encs o t vs' with
          | none => simp [hb] at e2
          | some b => simp
      · simp at h
      · simp at h
    · simp at h
    · simp at h

theorem iterF_inv (o : Opts) (f : Nat) (g : Ty → Bytes → Res (Val × Bytes))
    (hg : ∀ t bs v r, g t bs = .ok (v, r) → Inv o t f bs v r) :
    ∀ (fs : Tys) bs vs r, iterF g fs bs = .ok (vs, r) → bs.length < 4294967295 →
      vs.depth ≤ f ∧ r.length ≤ bs.length ∧ (encf o fs vs).isSome = true
  | .nil, bs, vs, r, h, hL => by
    simp [iterF] at h; obtain ⟨rfl, rfl⟩ := h
    simp [Vals.depth, encf]
  | .cons t ts, bs, vs, r, h, hL => by
    simp only [iterF] at h
    split at h
    · rename_i v r1 hv
      split at h
      · rename_i vs' r2 hvs
        simp at h; obtain ⟨rfl, rfl⟩ := h
        obtain ⟨h1, h2, e1⟩ := hg _ _ _ _ hv hL
        obtain ⟨h4, h5, e2⟩ := iterF_inv o f g hg ts _ _ _ hvs (by omega)
        refine ⟨by simp [Vals.depth]; omega, by omega, ?_⟩
        simp only [encf]
        cases ha : encB o t v with
        | none => simp [ha] at e1
        | some a => cases hb : encf o ts vs' with
          | none => simp [hb] at e2
          | some b => simp
      · simp at h
      · simp at h
    · simp at h
    · simp at h

theorem Pairs.insert_inv (o : Opts) (kt vt : Ty) (f : Nat) (k v : Val) (hk : k.depth ≤ f) (hv : v.depth ≤ f)
    (ek : (encB o kt k).isSome = true) (ev : (encB o vt v).isSome = true) :
    ∀ (acc : Pairs), acc.depth ≤ f → (encp o kt vt acc).isSome = true →
      (acc.insert k v).depth ≤ f ∧ (encp o kt vt (acc.insert k v)).isSome = true
  | .nil, _, _ => by
    simp only [Pairs.insert, Pairs.depth, encp]
    cases ha : encB o kt k with
    | none => simp [ha] at ek
    | some a => cases hb : encB o vt v with
      | none => simp [hb] at ev
      | some b => simp; omega
  | .cons k' v' ps, hd, he => by
    simp only [Pairs.depth] at hd
    simp only [encp] at he
    cases ha : encB o kt k' with
    | none => simp [ha] at he
    | some a => cases hb : encB o vt v' with
      | none => simp [ha, hb] at he
      | some b => cases hc : encp o kt vt ps with
        | none => simp [ha, hb, hc] at he
        | some c =>
          simp only [Pairs.insert]
          split
          · simp only [Pairs.depth, encp, ha, hc]
            cases hb' : encB o vt v with
            | none => simp [hb'] at ev
            | some b' => simp; omega
          · obtain ⟨i1, i2⟩ := Pairs.insert_inv o kt vt f k v hk hv ek ev ps (by omega) (by simp [hc])
            simp only [Pairs.depth, encp, ha, hb]
            cases hc' : encp o kt vt (ps.insert k v) with
            | none => simp [hc'] at i2
            | some c' => simp; omega

theorem iterP_inv (o : Opts) (kt vt : Ty) (f : Nat) (gk gv : Bytes → Res (Val × Bytes))
    (hk : ∀ bs v r, gk bs = .ok (v, r) → Inv o kt f bs v r) (hv : ∀ bs v r, gv bs = .ok (v, r) → Inv o vt f bs v r) :
    ∀ n acc bs ps r, iterP gk gv n acc bs = .ok (ps, r) → bs.length < 4294967295 → acc.depth ≤ f →
      (encp o kt vt acc).isSome = true →
      ps.depth ≤ f ∧ r.length ≤ bs.length ∧ (encp o kt vt ps).isSome = true
  | 0, acc, bs, ps, r, h, hL, hd, he => by
    simp [iterP] at h; obtain ⟨rfl, rfl⟩ := h
    exact ⟨hd, by omega, he⟩
  | n+1, acc, bs, ps, r, h, hL, hd, he => by
    simp only [iterP] at h
    split at h
    · rename_i k r1 hkk
      split at h
      · rename_i v r2 hvv
        split at h
        · obtain ⟨k1, k2, k3⟩ := hk _ _ _ hkk hL
          obtain ⟨v1, v2, v3⟩ := hv _ _ _ hvv (by omega)
          obtain ⟨i1, i2⟩ := Pairs.insert_inv o kt vt f k v k1 v1 k3 v3 acc hd he
          obtain ⟨p1, p2, p3⟩ := iterP_inv o kt vt f gk gv hk hv n _ _ _ _ h (by omega) i1 i2
          exact ⟨p1, by omega, p3⟩
        · simp at h
      · simp at h
      · simp at h
    · simp at h
    · simp at h

theorem tagTy_encodable (b : UInt8) (t : Ty) (h : tagTy b = some t) : t.encodable = true := by
  simp only [tagTy, Option.map_eq_some_iff] at h
  obtain ⟨e, he, rfl⟩ := h
  have hm := List.mem_of_find?_eq_some he
  have : ∀ e ∈ tagTable, e.2.encodable = true := by decide
  exact this e hm

theorem getReg_inv (o : Opts) (hd : DecSideOK o) (bs : Bytes) (t : Ty) (r : Bytes) (h : getReg o bs = .ok (t, r)) :
    t.encodable = true ∧ t ≠ .any ∧ r.length ≤ bs.length := by
  unfold getReg at h
  simp only [lenLt_eq, decide_eq_true_eq] at h
  split at h; · simp at h
  rename_i n r0 h16
  obtain ⟨_, hl⟩ := rd16_inv _ _ _ h16
  split at h
  · split at h; · simp at h
    split at h
    · rename_i t' ht
      simp at h; obtain ⟨rfl, rfl⟩ := h
      exact ⟨(hd.reg _ _ ht).1, (hd.reg _ _ ht).2, by omega⟩
    · simp at h
  · split at h; · simp at h
    split at h
    · rename_i t' ht
      simp at h; obtain ⟨rfl, rfl⟩ := h
      exact ⟨(hd.reg _ _ ht).1, (hd.reg _ _ ht).2, by simp; omega⟩
    · simp at h

theorem decTy_encodable (o : Opts) (hd : DecSideOK o) : ∀ (f : Nat) (bs : Bytes) (t : Ty) (r : Bytes),
    decTy o f bs = .ok (t, r) → t.encodable = true
  | 0, bs, t, r, h => by simp [decTy] at h
  | f+1, [], t, r, h => by simp [decTy] at h
  | f+1, b :: r0, t, r, h => by
    simp only [decTy, lenLt_eq, decide_eq_true_eq] at h
    split at h
    · split at h
      · rename_i k fk hk
        split at h
        · rename_i v fv hv
          split at h; · simp at h
          split at h; · simp at h
          simp at h; obtain ⟨rfl, rfl⟩ := h
          simp [Ty.encodable, decTy_encodable o hd f _ _ _ hk, decTy_encodable o hd f _ _ _ hv]
        · simp at h
        · simp at h
      · simp at h
      · simp at h
    · split at h
      · split at h
        · rename_i t' f' ht
          split at h; · simp at h
          simp at h; obtain ⟨rfl, rfl⟩ := h
          simp [Ty.encodable, decTy_encodable o hd f _ _ _ ht]
        · simp at h
        · simp at h
      · split at h
        · split at h; · simp at h
          split at h; · simp at h
          rename_i n r' h32
          obtain ⟨hn, _⟩ := rd32_inv _ _ _ h32
          split at h
          · rename_i t' f' ht
            split at h; · simp at h
            simp at h; obtain ⟨rfl, rfl⟩ := h
            have : n ≤ limBinaryEnc := by simp [limBinaryEnc]; omega
            simp [Ty.encodable, decTy_encodable o hd f _ _ _ ht, this]
          · simp at h
          · simp at h
        · split at h
          · exact (getReg_inv o hd _ _ _ h).1
          · split at h
            · rename_i t' ht
              simp at h; obtain ⟨rfl, rfl⟩ := h
              exact tagTy_encodable _ _ ht
            · simp at h

theorem getDecoder_inv (o : Opts) (hd : DecSideOK o) (dt : Bool) (bs : Bytes) (t : Ty) (r : Bytes) (dt' : Bool)
    (h : getDecoder o dt bs = .ok (some t, r, dt')) : t.encodable = true ∧ r.length < bs.length := by
  cases bs with
  | nil => simp [getDecoder] at h
  | cons b r0 =>
    simp only [getDecoder, lenLt_eq, decide_eq_true_eq] at h
    split at h
    · split at h
      · rename_i t' r' hg
        simp at h; obtain ⟨rfl, rfl, _⟩ := h
        obtain ⟨h1, _, h3⟩ := getReg_inv o hd _ _ _ hg
        exact ⟨h1, by simp; omega⟩
      · simp at h
      · simp at h
    · split at h
      · split at h; · simp at h
        rename_i n r' h16
        obtain ⟨_, hl⟩ := rd16_inv _ _ _ h16
        split at h; · simp at h
        split at h
        · rename_i t' f' ht
          split at h; · simp at h
          simp at h; obtain ⟨rfl, rfl, _⟩ := h
          exact ⟨decTy_encodable o hd _ _ _ _ ht, by simp; omega⟩
        · simp at h
        · simp at h
      · split at h; · simp at h
        split at h
        · rename_i t' ht
          simp at h; obtain ⟨rfl, rfl, _⟩ := h
          exact ⟨tagTy_encodable _ _ ht, by simp⟩
        · simp at h

theorem getDecoder_nil_inv (o : Opts) (dt : Bool) (bs : Bytes) (r : Bytes) (dt' : Bool)
    (h : getDecoder o dt bs = .ok (none, r, dt')) : r.length < bs.length := by
  cases bs with
  | nil => simp [getDecoder] at h
  | cons b r0 =>
    simp only [getDecoder, lenLt_eq, decide_eq_true_eq] at h
    split at h
    · split at h <;> simp at h
    · split at h
      · split at h; · simp at h
        split at h; · simp at h
        split at h
        · split at h <;> simp at h
        · simp at h
        · simp at h
      · split at h
        · simp at h; obtain ⟨rfl, _⟩ := h; simp
        · split at h <;> simp at h
end ErgoVerif.Edf

package main

// C03 — mailbox ordering. K4: a receiver puppet is parked inside a callback while sender puppets (and the node
// itself) enqueue a random mixture: priorities × addressing modes (pid, name, alias) × kinds (message, exit signal
// to a trapping receiver, down notification of a monitored victim). Sequential enqueueing gives a known push order:
// the handled order must equal the model's iterated `pick`. Concurrent enqueueing: per-(sender, class) FIFO and
// class-sortedness oracles only. A third mode enqueues while the receiver is running (FIFO oracle only).

import (
	"fmt"
	"strings"
	"sync"
	"time"

	"ergo.services/ergo/gen"
)

func init() { props["C03"] = runC03 }

type c03payload struct {
	Sender int
	Kind   string
	Seq    int
}

func runC03(c *Ctx) {
	r := c.R
	r.Rule = "K4 blocked-receiver mixtures: 2-4 sender puppets + node, 5-40 enqueues of {normal,high,max} messages by pid/name/alias, exit signals (trapped) and down notifications; " +
		"sequential enqueue -> exact handled order vs Model.Mailbox pick iterated; concurrent enqueue -> per-(sender,class) FIFO + class order; enqueue-while-running -> FIFO; " +
		"non-trivial = at least two classes and two senders present; distinct by the op string"
	k, err := NewK4("c03n")
	if err != nil {
		r.Disagree("c03.node", err.Error(), nil)
		return
	}
	defer k.Stop()
	n := c.N(900, 30000)
	var lines, wants []string
	var replays []interface{}
	for it := 0; it < n; it++ {
		mode := it % 3 // 0 sequential blocked, 1 concurrent blocked, 2 while running
		rname := k.NextName("c03r")
		recv, rpid, err := k.Spawn("R", true, gen.ProcessOptions{}, rname)
		if err != nil {
			r.Disagree("c03.spawn", err.Error(), nil)
			return
		}
		var handled []c03payload
		var hmu sync.Mutex
		var alias gen.Alias
		ns := 2 + c.Rng.Intn(3)
		senders := make([]gen.PID, ns)
		for i := range senders {
			_, senders[i], _ = k.Spawn(fmt.Sprintf("S%d", i), false, gen.ProcessOptions{}, "")
		}
		_, deadPid, _ := k.Spawn("dead", false, gen.ProcessOptions{}, "")
		k.Node.Kill(deadPid)
		waitUntilGone(k, deadPid)
		// victims the receiver monitors: their death produces down notifications (system queue)
		nv := c.Rng.Intn(3)
		victims := make([]gen.PID, nv)
		for i := range victims {
			_, victims[i], _ = k.Spawn("V", false, gen.ProcessOptions{}, "")
		}
		k.Exec(rpid, func(p *Puppet) {
			al, err := p.CreateAlias()
			if err == nil {
				alias = al
			}
			for _, v := range victims {
				p.MonitorPID(v)
			}
		})
		// receiver records in handling order (including trapped exits and downs)
		recv.onMsg = func(p *Puppet, from gen.PID, m any) error {
			if pl, ok := m.(c03payload); ok {
				hmu.Lock()
				handled = append(handled, pl)
				hmu.Unlock()
			}
			return nil
		}
		var release func()
		if mode != 2 {
			release, err = k.Block(rpid)
			if err != nil {
				r.Count("inconclusive:block")
				continue
			}
		}
		nops := 5 + c.Rng.Intn(36)
		type op struct {
			sender int // index; ns = node itself
			kind   string
			addr   int
			seq    int
			victim int
		}
		seqs := map[string]int{}
		var ops []op
		vleft := nv
		for i := 0; i < nops; i++ {
			o := op{sender: c.Rng.Intn(ns + 1), addr: c.Rng.Intn(3)}
			x := c.Rng.Intn(100)
			switch {
			case x < 6 && o.sender < ns:
				o.kind = "f"
			case x < 35:
				o.kind = "n"
			case x < 60:
				o.kind = "h"
			case x < 80:
				o.kind = "m"
			case x < 92 || vleft == 0:
				o.kind = "x"
				if o.sender == ns {
					o.sender = c.Rng.Intn(ns) // exit signals from puppets (From = sender pid)
				}
			default:
				o.kind = "d"
				vleft--
				o.victim = vleft
				o.sender = 90 // down notifications come from the victim; one class for the model
			}
			key := fmt.Sprintf("%d.%s", o.sender, o.kind)
			o.seq = seqs[key]
			seqs[key]++
			ops = append(ops, o)
		}
		apply := func(o op) {
			pl := c03payload{o.sender, o.kind, o.seq}
			prio := map[string]gen.MessagePriority{"n": gen.MessagePriorityNormal, "h": gen.MessagePriorityHigh, "m": gen.MessagePriorityMax}[o.kind]
			var to any = rpid
			if o.addr == 1 {
				to = gen.ProcessID{Name: rname, Node: k.Name()}
			} else if o.addr == 2 {
				to = alias
			}
			switch o.kind {
			case "f":
				// a priority send that fails (target gone): must not change how the sender's later plain sends are queued
				pr := gen.MessagePriorityHigh
				if o.seq%2 == 0 {
					pr = gen.MessagePriorityMax
				}
				if o.seq%3 == 2 {
					// … or a priority REQUEST that fails (the callee is gone: the call returns at once)
					k.Exec(senders[o.sender], func(p *Puppet) { p.CallWithPriority(deadPid, pl, pr) })
				} else {
					k.Exec(senders[o.sender], func(p *Puppet) { p.SendWithPriority(deadPid, pl, pr) })
				}
			case "x":
				k.Exec(senders[o.sender], func(p *Puppet) { p.SendExit(rpid, fmt.Errorf("x|%d|%d", o.sender, o.seq)) })
			case "d":
				// Kill on a sleeping process unregisters it (and sends the down notification) before it returns; on a
				// busy one the notification is sent later, by the victim's own goroutine — and could then be
				// overtaken by the next victim's. The victims are idle: wait until this one is asleep.
				v := victims[o.victim]
				waitUntil(2*time.Second, func() bool {
					pi, err := k.Node.ProcessInfo(v)
					return err != nil || (pi.State == gen.ProcessStateSleep && pi.MailboxQueues.Main+pi.MailboxQueues.System+pi.MailboxQueues.Urgent == 0)
				})
				k.Node.Kill(v)
				waitUntilGone(k, v)
			default:
				if o.sender == ns {
					k.Node.SendWithPriority(to, pl, prio)
				} else if o.kind == "n" && o.seq%2 == 1 {
					// plain Send: the process's own (default: normal) priority
					k.Exec(senders[o.sender], func(p *Puppet) { p.Send(to, pl) })
				} else {
					k.Exec(senders[o.sender], func(p *Puppet) { p.SendWithPriority(to, pl, prio) })
				}
			}
		}
		var opstr []string
		nreal := 0
		for _, o := range ops {
			if o.kind == "f" {
				continue
			}
			nreal++
			opstr = append(opstr, fmt.Sprintf("P%d.%s.%d", o.sender, o.kind, o.seq))
		}
		switch mode {
		case 0, 2:
			for _, o := range ops {
				apply(o)
			}
		case 1:
			// one goroutine per sender keeps that sender's program order; senders race with each other
			var wg sync.WaitGroup
			bySender := map[int][]op{}
			for _, o := range ops {
				bySender[o.sender] = append(bySender[o.sender], o)
			}
			for _, list := range bySender {
				wg.Add(1)
				go func(list []op) {
					defer wg.Done()
					for _, o := range list {
						apply(o)
					}
				}(list)
			}
			wg.Wait()
		}
		if release != nil {
			release()
		}
		if !k.Quiesce() {
			r.Count("inconclusive:quiesce")
			continue
		}
		// handled order as seen by the receiver: payload messages via onMsg, exits/downs via the puppet log.
		// To interleave them correctly we rebuild the order from one source: the receiver handles everything in
		// HandleMessage, so log + handled are merged by a global counter kept in the puppet log.
		got := mergeC03(recv, &hmu, &handled, victims)
		classes := map[string]bool{}
		sendersSeen := map[int]bool{}
		for _, o := range ops {
			classes[o.kind] = true
			sendersSeen[o.sender] = true
		}
		r.Case(strings.Join(opstr, ","), len(classes) >= 2 && len(sendersSeen) >= 2)
		r.Count(fmt.Sprintf("mode%d", mode))
		rp := map[string]interface{}{"mode": mode, "ops": strings.Join(opstr, ","), "handled": strings.Join(got, ",")}
		// ---- oracles ---------------------------------------------------------------------------
		if len(got) != nreal {
			r.Violation("C03/count", fmt.Sprintf("%d messages enqueued, %d handled", nreal, len(got)), rp)
		}
		// per-(sender,class) FIFO
		last := map[string]int{}
		for _, g := range got {
			var s, q int
			var kd string
			parts := strings.Split(g, ".")
			fmt.Sscanf(parts[0], "%d", &s)
			kd = parts[1]
			fmt.Sscanf(parts[2], "%d", &q)
			key := fmt.Sprintf("%d.%s", s, kd)
			if prev, ok := last[key]; ok && q < prev {
				r.Violation("C03/fifo", fmt.Sprintf("sender %d class %s: message %d handled after %d", s, kd, q, prev), rp)
			}
			last[key] = q
		}
		if mode != 2 {
			// everything was queued before the release: handled order must be sorted by class
			rank := map[string]int{"x": 0, "m": 0, "h": 1, "d": 1, "n": 2}
			prev := -1
			for _, g := range got {
				kd := strings.Split(g, ".")[1]
				if rank[kd] < prev {
					r.Violation("C03/priority-class", fmt.Sprintf("a %s-class message was handled after a lower class while both were queued", kd), rp)
					break
				}
				prev = rank[kd]
			}
		}
		if mode == 0 {
			line := "run " + strings.Join(opstr, ",") + strings.Repeat(",K", nreal)
			lines = append(lines, line)
			wants = append(wants, strings.Join(got, ","))
			replays = append(replays, rp)
		}
		if it < 3 {
			r.Sample(rp)
		}
		k.Node.Kill(rpid)
		for _, s := range senders {
			k.Node.Kill(s)
		}
		k.mu.Lock()
		k.puppets = map[gen.PID]*Puppet{}
		k.mu.Unlock()
	}
	c03logger(c, &lines, &wants, &replays)
	outs, err := ModelParallel("mailbox", lines, 8)
	if err != nil {
		r.Disagree("mailbox.driver", err.Error(), nil)
		return
	}
	for i := range lines {
		w := wants[i]
		if w == "" {
			w = "-"
		}
		if outs[i] != w {
			r.Disagree("K4 Mailbox.pick ~ act.Actor dequeue order", fmt.Sprintf("model handled order %q, implementation %q", outs[i], w), replays[i])
			break
		}
	}
}

// waitUntilGone waits until the process has left the process table and — for a puppet — until its Terminate callback
// has run: the callback comes after unregisterProcess, i.e. after every exit/down notification about the process and
// the identifiers it owned has been queued (the table entry goes first, the notifications are sent later by the
// terminating goroutine; on a loaded machine that gap is long enough to be observed).
func waitUntilGone(k *K4, pid gen.PID) {
	waitUntil(2e9, func() bool { return !k.Alive(pid) })
	k.mu.Lock()
	pp := k.puppets[pid]
	k.mu.Unlock()
	if pp != nil {
		waitUntil(2e9, func() bool { return pp.termd.Load() })
	}
}

// mergeC03 rebuilds the receiver's handling order. Payload messages are recorded by onMsg into `handled`,
// exit/down messages by the puppet log; both are appended under the puppet's single-threaded execution, and the
// puppet log records a marker for every payload as well (via onMsg override we only have `handled`), so we
// reconstruct using the sequence counter stored in the log entries.
func mergeC03(recv *Puppet, hmu *sync.Mutex, handled *[]c03payload, victims []gen.PID) []string {
	// the puppet log holds exits and downs in order; payload messages are in `handled` in order.
	// To merge we need a common clock: use the order counters captured below.
	hmu.Lock()
	defer hmu.Unlock()
	log := recv.Log()
	// The receiver is single threaded; onMsg appends to handled and the default branch appends to log.
	// We gave neither a global counter, so record positions: each log entry notes len(handled) at its time.
	var out []string
	li := 0
	for hi := 0; hi <= len(*handled); hi++ {
		for li < len(log) && log[li].posHint <= hi {
			e := log[li]
			li++
			switch e.Kind {
			case "exitpid":
				var s, q int
				if e.Err != nil {
					fmt.Sscanf(strings.ReplaceAll(e.Err.Error(), "|", " "), "x %d %d", &s, &q)
				}
				out = append(out, fmt.Sprintf("%d.x.%d", s, q))
			case "downpid":
				idx := 0
				for i, v := range victims {
					if v == e.Data.(gen.PID) {
						idx = i
					}
				}
				out = append(out, fmt.Sprintf("90.d.%d", len(victims)-1-idx))
			}
		}
		if hi < len(*handled) {
			p := (*handled)[hi]
			out = append(out, fmt.Sprintf("%d.%s.%d", p.Sender, p.Kind, p.Seq))
		}
	}
	return out
}

// c03logger: the receiver is registered as a logger and is parked INSIDE HandleLog; more log messages and messages of
// the other classes are enqueued meanwhile. After the release the higher classes must be handled before the remaining
// log messages ("... then log messages"), one message per round of the dequeue loop.
func c03logger(c *Ctx, lines, wants *[]string, replays *[]interface{}) {
	r := c.R
	n, err := startQuietNodeOpts("c03log", func(o *gen.NodeOptions) { o.Log.Level = gen.LogLevelInfo })
	if err != nil {
		r.Disagree("c03.lognode", err.Error(), nil)
		return
	}
	defer n.StopForce()
	k := &K4{Node: n, puppets: map[gen.PID]*Puppet{}}
	rounds := c.N(40, 1500)
	for it := 0; it < rounds; it++ {
		recv, rpid, err := k.Spawn("L", true, gen.ProcessOptions{}, "")
		if err != nil {
			return
		}
		var mu sync.Mutex
		var got []string
		entered := make(chan struct{}, 1)
		gate := make(chan struct{})
		recv.onLog = func(p *Puppet, m gen.MessageLog) error {
			if !strings.HasPrefix(m.Format, "c03|") {
				return nil
			}
			var seq int
			fmt.Sscanf(m.Format, "c03|%d", &seq)
			mu.Lock()
			got = append(got, fmt.Sprintf("9.g.%d", seq))
			mu.Unlock()
			if seq == 0 {
				entered <- struct{}{}
				<-gate
			}
			return nil
		}
		recv.onMsg = func(p *Puppet, from gen.PID, m any) error {
			if pl, ok := m.(c03payload); ok {
				mu.Lock()
				got = append(got, fmt.Sprintf("%d.%s.%d", pl.Sender, pl.Kind, pl.Seq))
				mu.Unlock()
			}
			return nil
		}
		lname := fmt.Sprintf("c03logger%d", it)
		if err := n.LoggerAddPID(rpid, lname); err != nil {
			r.Count("inconclusive:logger")
			n.Kill(rpid)
			continue
		}
		n.Log().Info("c03|0")
		select {
		case <-entered:
		case <-time.After(2 * time.Second):
			r.Count("inconclusive:logger-not-entered")
			n.LoggerDeletePID(rpid)
			n.Kill(rpid)
			continue
		}
		ops := []string{"P9.g.0", "K"}
		nops := 3 + c.Rng.Intn(10)
		lseq := 1
		mseq := map[string]int{}
		for i := 0; i < nops; i++ {
			if c.Rng.Chance(2, 5) {
				n.Log().Info(fmt.Sprintf("c03|%d", lseq))
				ops = append(ops, fmt.Sprintf("P9.g.%d", lseq))
				lseq++
				continue
			}
			kind := []string{"n", "h", "m"}[c.Rng.Intn(3)]
			prio := map[string]gen.MessagePriority{"n": gen.MessagePriorityNormal, "h": gen.MessagePriorityHigh, "m": gen.MessagePriorityMax}[kind]
			n.SendWithPriority(rpid, c03payload{5, kind, mseq[kind]}, prio)
			ops = append(ops, fmt.Sprintf("P5.%s.%d", kind, mseq[kind]))
			mseq[kind]++
		}
		close(gate)
		k.Quiesce()
		time.Sleep(300 * time.Microsecond)
		mu.Lock()
		g := strings.Join(got, ",")
		mu.Unlock()
		for i := 0; i < nops; i++ {
			ops = append(ops, "K")
		}
		rp := map[string]interface{}{"mode": "logger", "ops": strings.Join(ops, ","), "handled": g}
		*lines = append(*lines, "run "+strings.Join(ops, ","))
		*wants = append(*wants, g)
		*replays = append(*replays, rp)
		// oracle: after the first (parked) log message, no log message may be handled before a queued message of a higher class
		seenLog := false
		for i, x := range got {
			if i == 0 {
				continue
			}
			isLog := strings.Contains(x, ".g.")
			if isLog {
				seenLog = true
			} else if seenLog {
				r.Violation("C03/log-before-higher-class", "a queued log message was handled before a queued message of a higher class (the dequeue loop must restart from the urgent queue after every log message)", rp)
				break
			}
		}
		r.Case("logger|"+strings.Join(ops, ","), lseq > 1 && len(mseq) > 0)
		r.Count("mode-logger")
		n.LoggerDeletePID(rpid)
		n.Kill(rpid)
		k.resetPuppets()
	}
}

package main

import (
	"fmt"
	"sort"
	"strings"
	"time"

	"ergo.services/ergo/gen"
	"ergo.services/ergo/net/proto"
)

// C13 — network FIFO.  K5: two real proto connections; every pooled link is an in-memory pipe whose
// delivery the harness controls frame by frame, so the harness (not TCP timing) decides which link's
// frames arrive first.  Per scenario:
//   * correspondence with Model.Link (driver "link"): for every send the link the frame was really written
//     to and its wire order byte; for every join / link loss the sender's pool order; for every release
//     the messages the receiving core routed (per pair order);
//   * independent oracle: per (from,to) pair the mock core sees strictly increasing sequence numbers and,
//     at the end, all of them.

func init() { props["C13"] = runC13 }

type c13Op struct {
	Kind string `json:"k"` // send | release | join | drop | stall
	A    uint64 `json:"a,omitempty"`
	B    uint64 `json:"b,omitempty"`
	Keep bool   `json:"keep,omitempty"`
	Mode string `json:"mode,omitempty"` // "" = SendPID, "alias" = SendAlias (wire byte from alias ID[1]), "name" = SendProcessID (wire byte from the sender)
	L    int    `json:"l,omitempty"`
	N    int    `json:"n,omitempty"`
	Z    int    `json:"z,omitempty"` // 1..3: a large message sent compressed (gzip, lzw, zlib): travels in a protoMessageZ envelope
}

type c13Scenario struct {
	Pool  int     `json:"pool"`
	Stall bool    `json:"stall"`          // stall queue workers at the core instead of comparing release results
	Hold  []int64 `json:"hold,omitempty"` // with Stall: exactly these messages are stalled (default: seeded choice)
	Ops   []c13Op `json:"ops"`
}

const (
	c13SigOrder = "C13/order"
	c13SigPool  = "C13/pool-change-reorder"
)

type c13Sent struct {
	seq       int64
	a, b      uint64
	key       uint64 // id the wire byte derives from (b, or a for name-addressed sends)
	mode      string
	keep      bool
	epoch     int // pool epoch at send time
	link      int // link the frame was really written to
	order     byte
	modelIdx  int // index of the model line
	delivered bool
}

type c13RelCheck struct {
	idx int
	got []k5routed
}

type c13Out struct {
	lines, want  []string
	rels         []c13RelCheck
	bySeq        map[int64]*c13Sent
	inconclusive bool
	overtakes    int
	viol         map[string]string // signature -> description (first)
	disagree     string
	sends        int
}

func c13id(rng *Rng) uint64 {
	// residue class first (boundaries 0,1,2,127,253,254 + uniform), then a multiple of 255
	var r uint64
	switch rng.Intn(6) {
	case 0:
		r = []uint64{0, 1, 2, 127, 253, 254}[rng.Intn(6)]
	default:
		r = uint64(rng.Intn(255))
	}
	k := uint64(4 + rng.Intn(6)) // 1020 .. 2549: ids of ordinary processes
	switch rng.Intn(10) {
	case 0:
		k = (1 << 32) / 255 // around 2^32
	case 1:
		k = (1<<63)/255 - uint64(rng.Intn(3)) // around 2^63
	case 2:
		k = (1<<64-1)/255 - 1 - uint64(rng.Intn(2)) // top of uint64
	}
	return k*255 + r
}

func c13gen(rng *Rng, withPoolChange bool, stall bool) c13Scenario {
	sc := c13Scenario{Pool: 1 + rng.Intn(4), Stall: stall}
	if rng.Chance(1, 3) {
		sc.Pool = 3
	}
	ns, nt := 1+rng.Intn(3), 1+rng.Intn(3)
	var ss, ts []uint64
	for i := 0; i < ns; i++ {
		ss = append(ss, c13id(rng))
	}
	for i := 0; i < nt; i++ {
		ts = append(ts, c13id(rng))
	}
	modes := make([]string, nt) // addressing mode per receiver: pid (mostly), alias, registered name
	for i := range modes {
		switch rng.Intn(6) {
		case 0:
			modes[i] = "alias"
		case 1:
			modes[i] = "name"
		}
	}
	nops := 20 + rng.Intn(60)
	links := sc.Pool
	inflight := 0
	for i := 0; i < nops; i++ {
		k := rng.Intn(100)
		switch {
		case k < 60 || inflight == 0:
			keep := !rng.Chance(1, 25)
			ti := rng.Intn(nt)
			z := 0
			if rng.Chance(1, 4) {
				z = 1 + rng.Intn(3)
			}
			sc.Ops = append(sc.Ops, c13Op{Kind: "send", A: ss[rng.Intn(ns)], B: ts[ti], Keep: keep, Mode: modes[ti], Z: z})
			inflight++
		case k < 90:
			sc.Ops = append(sc.Ops, c13Op{Kind: "release", L: rng.Intn(links), N: 1 + rng.Intn(4)})
		case k < 95 && withPoolChange && links < sc.Pool+2:
			sc.Ops = append(sc.Ops, c13Op{Kind: "join"})
			links++
		case k < 100 && withPoolChange:
			sc.Ops = append(sc.Ops, c13Op{Kind: "drop", L: rng.Intn(4)})
		default:
			sc.Ops = append(sc.Ops, c13Op{Kind: "release", L: rng.Intn(links), N: 1 + rng.Intn(8)})
		}
	}
	return sc
}

// c13run executes one scenario on the real connections and against the model.
func c13run(c *Ctx, sc c13Scenario) c13Out {
	out := c13Out{viol: map[string]string{}}
	const creA, creB = 100, 200
	p, err := newK5pair(sc.Pool, creA, creB)
	if err != nil {
		out.disagree = "NewConnection: " + err.Error()
		return out
	}
	defer p.close()
	for i := 0; i < sc.Pool; i++ {
		if _, err := p.addLink(); err != nil {
			out.disagree = "Join: " + err.Error()
			return out
		}
	}
	nq := proto.VerifRecvQueues(p.cb)
	var lines, want []string // model protocol; want[i] = "" when the line's answer is checked separately
	add := func(line, w string) int {
		lines = append(lines, line)
		want = append(want, w)
		return len(lines) - 1
	}
	add(fmt.Sprintf("nq %d", sc.Pool), fmt.Sprint(nq))
	var ids []string
	for i := 0; i < sc.Pool; i++ {
		ids = append(ids, fmt.Sprint(i))
	}
	add(fmt.Sprintf("init %s %d", strings.Join(ids, ","), nq), "ok")

	var sent []*c13Sent
	released := map[int]int{} // link id -> frames released
	epoch := 0
	dropped := map[int]bool{}
	var rels []c13RelCheck
	var unhold []func()
	timeout := 3 * time.Second

	doRelease := func(l *k5link, n int) bool {
		fs := l.frames()
		r := released[l.id]
		if n > len(fs)-r {
			n = len(fs) - r
		}
		if n <= 0 {
			return true
		}
		before := p.b.count()
		// overtakes: frames released now that were sent after a still unreleased frame on another link
		for _, f := range fs[r : r+n] {
			_ = f
		}
		l.releaseTo(fs[r+n-1].End)
		released[l.id] = r + n
		idx := add(fmt.Sprintf("release %d %d", l.id, n), "")
		if sc.Stall {
			// only wait until B has consumed the bytes; workers may be stalled
			dl := time.Now().Add(timeout)
			for l.consumed() < fs[r+n-1].End && time.Now().Before(dl) {
				k5wait(2 * time.Millisecond)
			}
			time.Sleep(300 * time.Microsecond)
			return true
		}
		if !p.b.waitCount(before+n, timeout) {
			out.inconclusive = true
			return false
		}
		got := p.b.snapshot()
		rels = append(rels, c13RelCheck{idx, append([]k5routed(nil), got[before:]...)})
		return true
	}

	for _, op := range sc.Ops {
		switch op.Kind {
		case "send":
			seq := int64(len(sent))
			from := gen.PID{Node: p.a.name, ID: op.A, Creation: creA}
			to := gen.PID{Node: p.b.name, ID: op.B, Creation: creB}
			if sc.Stall {
				h := false
				if sc.Hold != nil {
					for _, x := range sc.Hold {
						h = h || x == seq
					}
				} else {
					h = c.Rng.Chance(1, 5)
				}
				if h {
					unhold = append(unhold, p.b.holdSeq(seq))
				}
			}
			var err error
			mo := gen.MessageOptions{KeepNetworkOrder: op.Keep}
			var payload any = seq
			if op.Z > 0 {
				mo.Compression = gen.Compression{Enable: true, Threshold: 100,
					Type: []gen.CompressionType{gen.CompressionTypeGZIP, gen.CompressionTypeLZW, gen.CompressionTypeZLIB}[op.Z-1]}
				payload = k5bigPayload(seq)
			}
			dstKey := op.B // the id word the wire byte is derived from
			switch op.Mode {
			case "alias":
				err = p.ca.SendAlias(from, gen.Alias{Node: p.b.name, Creation: creB, ID: [3]uint64{7, op.B, 0}}, mo, payload)
			case "name":
				err = p.ca.SendProcessID(from, gen.ProcessID{Node: p.b.name, Name: gen.Atom(fmt.Sprintf("n%d", op.B))}, mo, payload)
				dstKey = op.A // SendProcessID: "use the same order for the peer"
			default:
				err = p.ca.SendPID(from, to, mo, payload)
			}
			keep := 0
			if op.Keep {
				keep = 1
			}
			idx := add(fmt.Sprintf("send %d %d %d", op.A, dstKey, keep), "")
			if err != nil {
				if err == gen.ErrNoConnection {
					want[idx] = "noconn"
					continue
				}
				out.disagree = fmt.Sprintf("SendPID(%d->%d): %v", op.A, op.B, err)
				return out
			}
			s := &c13Sent{seq: seq, a: op.A, b: op.B, key: dstKey, mode: op.Mode, keep: op.Keep, epoch: epoch, link: -1, modelIdx: idx}
			sent = append(sent, s)
			if !p.waitFrames(len(sent), timeout) {
				out.inconclusive = true
				return out
			}
			// find the frame
			for _, l := range p.links {
				fs := l.frames()
				if len(fs) == 0 {
					continue
				}
				last := fs[len(fs)-1:]
				k5decodeSeq(l, last)
				if last[0].Seq == seq && last[0].From == op.A && (op.Mode == "name" || last[0].To == op.B) {
					s.link, s.order = l.id, last[0].Order
				}
			}
			if s.link < 0 {
				out.disagree = fmt.Sprintf("frame of message %d not found on any link", seq)
				return out
			}
			want[idx] = fmt.Sprintf("link=%d wire=%d seq=%d", s.link, s.order, seq)
		case "release":
			if op.L >= len(p.links) {
				continue
			}
			if !doRelease(p.links[op.L], op.N) {
				return out
			}
		case "rrev":
			// release all links completely, the link that carried the most recent message first
			type lm struct {
				id  int
				max int64
			}
			var ls []lm
			for _, l := range p.links {
				m := int64(-1)
				for _, s := range sent {
					if s.link == l.id && s.seq > m {
						m = s.seq
					}
				}
				ls = append(ls, lm{l.id, m})
			}
			sort.Slice(ls, func(i, j int) bool { return ls[i].max > ls[j].max })
			for _, x := range ls {
				if !doRelease(p.links[x.id], 1<<30) {
					return out
				}
			}
		case "join":
			l, err := p.addLink()
			if err != nil {
				// the real Join refuses beyond pool_size+2 links; the generator stays below
				out.inconclusive = true
				return out
			}
			epoch++
			var ps []string
			for _, id := range p.poolIDs() {
				ps = append(ps, fmt.Sprint(id))
			}
			add(fmt.Sprintf("join %d", l.id), "pool="+strings.Join(ps, ","))
		case "drop":
			pool := p.poolIDs()
			if len(pool) < 2 || op.L >= len(pool) {
				continue
			}
			lid := pool[op.L]
			p.links[lid].a.Close()
			dl := time.Now().Add(timeout)
			for len(p.poolIDs()) == len(pool) && time.Now().Before(dl) {
				time.Sleep(50 * time.Microsecond)
			}
			np := p.poolIDs()
			if len(np) == len(pool) {
				out.inconclusive = true
				return out
			}
			epoch++
			dropped[lid] = true
			var ps []string
			for _, id := range np {
				ps = append(ps, fmt.Sprint(id))
			}
			add(fmt.Sprintf("drop %d", op.L), "pool="+strings.Join(ps, ","))
		}
	}
	// drain: release every link completely, in a seeded order
	order := make([]int, len(p.links))
	for i := range order {
		order[i] = i
	}
	for i := len(order) - 1; i > 0; i-- {
		j := c.Rng.Intn(i + 1)
		order[i], order[j] = order[j], order[i]
	}
	for _, li := range order {
		if !doRelease(p.links[li], 1<<30) {
			return out
		}
	}
	if sc.Stall {
		// let everything that is not behind a stalled worker arrive, then resume the stalled workers
		for i, n, same := 0, -1, 0; i < 100 && same < 3; i++ {
			time.Sleep(500 * time.Microsecond)
			if k := p.b.count(); k == n {
				same++
			} else {
				n, same = k, 0
			}
		}
	}
	for _, f := range unhold {
		f()
	}
	if !p.b.waitCount(len(sent), timeout) {
		out.inconclusive = true
		return out
	}
	out.sends = len(sent)
	got := p.b.snapshot()

	// ---- property oracle: per pair, sequence numbers in order and complete ----------------------
	bySeq := map[int64]*c13Sent{}
	for _, s := range sent {
		bySeq[s.seq] = s
	}
	type pr struct {
		a, b uint64
		mode string
	}
	last := map[pr]*c13Sent{}
	seen := map[int64]int{}
	for _, g := range got {
		s := bySeq[g.Seq]
		if s == nil || g.From != s.a || (s.mode != "name" && g.To != s.b) || (s.mode == "name" && g.Name != fmt.Sprintf("n%d", s.b)) {
			out.viol[c13SigOrder] = fmt.Sprintf("routed message seq=%d from=%d to=%d was never sent like that", g.Seq, g.From, g.To)
			continue
		}
		seen[g.Seq]++
		if !s.keep {
			continue
		}
		k := pr{s.a, s.b, s.mode}
		if l := last[k]; l != nil && l.seq > s.seq {
			sig := c13SigOrder
			if l.epoch != s.epoch && l.link != s.link {
				// the pool changed between the two sends and moved the sender to another link: the listed finding
				sig = c13SigPool
			}
			if _, dup := out.viol[sig]; !dup {
				out.viol[sig] = fmt.Sprintf("pair %d->%d%s (order bytes %d/%d, pool %d): message #%d routed after #%d (links %d/%d)",
					s.a, s.b, map[string]string{"": "", "alias": " (alias)", "name": " (registered name)"}[s.mode], s.a%255, s.b%255, sc.Pool, s.seq, l.seq, s.link, l.link)
			}
		}
		if l := last[k]; l == nil || l.seq < s.seq {
			last[k] = s
		}
	}
	for _, s := range sent {
		if seen[s.seq] != 1 {
			out.viol["C13/lost-or-duplicated"] = fmt.Sprintf("message #%d (%d->%d) routed %d times with every link drained", s.seq, s.a, s.b, seen[s.seq])
		}
	}
	// overtakes the harness forced: pairs of messages on different links routed against send order
	pos := map[int64]int{}
	for i, g := range got {
		pos[g.Seq] = i
	}
	for i := 1; i < len(sent); i++ {
		if sent[i].link != sent[i-1].link && pos[sent[i].seq] < pos[sent[i-1].seq] {
			out.overtakes++
		}
	}

	out.lines, out.want, out.rels, out.bySeq = lines, want, rels, bySeq
	return out
}

// c13compare checks one scenario's protocol against the model's answers (res is aligned with o.lines).
func c13compare(o *c13Out, res []string) string {
	lines, want, bySeq := o.lines, o.want, o.bySeq
	for i := range lines {
		if want[i] != "" && res[i] != want[i] {
			return fmt.Sprintf("line %d %q: model %q, implementation %q", i, lines[i], res[i], want[i])
		}
	}
	for _, rc := range o.rels {
		// multiset of seqs equal; per-pair projection equal for pairs with a non-zero wire byte
		var ms []string
		if res[rc.idx] != "-" {
			ms = strings.Split(res[rc.idx], ",")
		}
		var is []string
		for _, g := range rc.got {
			k := g.To
			if s := bySeq[g.Seq]; s != nil {
				k = s.key
			}
			is = append(is, fmt.Sprintf("%d:%d:%d", g.From, k, g.Seq))
		}
		a, b := append([]string(nil), ms...), append([]string(nil), is...)
		sort.Strings(a)
		sort.Strings(b)
		if strings.Join(a, ",") != strings.Join(b, ",") {
			return fmt.Sprintf("line %d %q: model routed {%s}, implementation {%s}", rc.idx, lines[rc.idx], res[rc.idx], strings.Join(is, ","))
		}
		proj := func(xs []string) map[string][]string {
			m := map[string][]string{}
			for _, x := range xs {
				f := strings.Split(x, ":")
				var seq int64
				fmt.Sscan(f[2], &seq)
				s := bySeq[seq]
				if s == nil || s.order == 0 {
					continue // wire byte 0: the queue workers race, order is not determined
				}
				m[f[0]+">"+f[1]] = append(m[f[0]+">"+f[1]], f[2])
			}
			return m
		}
		pm, pi := proj(ms), proj(is)
		for k, v := range pm {
			if strings.Join(v, ",") != strings.Join(pi[k], ",") {
				return fmt.Sprintf("line %d %q pair %s: model order %v, implementation order %v", rc.idx, lines[rc.idx], k, v, pi[k])
			}
		}
	}
	return ""
}

func runC13(c *Ctx) {
	r := c.R
	defer c13nodes(c)
	r.Rule = "K5 scenarios: pool 1..4 (+ up to 2 joined links), 1-3 sender and 1-3 receiver ids per scenario (receivers addressed by pid, alias or registered name) drawn by residue mod 255 " +
		"(boundaries 0,1,2,127,253,254, uniform otherwise; magnitudes 10^3, 2^32, 2^63, 2^64-1), 20..80 ops (send / release k frames of one link / join / link loss), " +
		"harness-decided delivery order; non-trivial = at least one frame was routed before an earlier-sent frame of another link; distinct by the op list"
	type pend struct {
		sc c13Scenario
		o  c13Out
	}
	var pending []pend
	timeouts := 0
	defer func() {
		// one driver process for all scenarios (every scenario starts with `init`, which resets the model)
		var all []string
		for _, p := range pending {
			all = append(all, p.o.lines...)
		}
		res, err := Model("link", all)
		if err != nil {
			r.Disagree("link.driver", err.Error(), nil)
			return
		}
		off := 0
		for i := range pending {
			o := &pending[i].o
			if d := c13compare(o, res[off:off+len(o.lines)]); d != "" {
				r.Disagree("K5 Model.Link ~ proto.connection", d, pending[i].sc)
				return
			}
			off += len(o.lines)
		}
	}()
	report := func(sc c13Scenario, o c13Out, mainSweep bool) {
		if o.disagree == "" && o.lines != nil {
			pending = append(pending, pend{sc, o})
		}
		for sig, what := range o.viol {
			r.Violation(sig, what, sc)
		}
		if o.disagree != "" {
			r.Disagree("K5 Model.Link ~ proto.connection", o.disagree, sc)
		}
		if o.inconclusive {
			r.Count("inconclusive.timeout")
			timeouts++
			if timeouts == 6 {
				// one time-out is inconclusive; six scenarios in which released frames are never routed is a broken pipeline
				r.Disagree("K5 progress (Model.Link routes every released frame)",
					"in 6 scenarios the receiving connection did not route frames that were released to it within 3 s (or the sender did not write them)", sc)
			}
		}
	}
	// 1. the listed witnesses (and the witnesses of repaired defects), replayed on every run
	for _, w := range c13Witnesses() {
		o := c13run(c, w.sc)
		r.Count("witness." + w.name)
		if _, hit := o.viol[w.sig]; hit {
			r.Count("witness." + w.name + ".reproduced")
		}
		report(w.sc, o, false)
	}
	// 2. main sweep: constant pool
	n := c.N(1500, 40000)
	for i := 0; i < n; i++ {
		sc := c13gen(c.Rng, false, c.Rng.Chance(1, 4))
		o := c13run(c, sc)
		key, _ := fmt.Sprint(sc), 0
		r.Case(key, o.overtakes > 0)
		r.CountN("sends", o.sends)
		r.CountN("forced-overtakes", o.overtakes)
		r.Count(fmt.Sprintf("pool=%d", sc.Pool))
		if sc.Stall {
			r.Count("worker-stall-scenarios")
		}
		for _, op := range sc.Ops {
			if op.Kind == "send" {
				if op.A%255 == 0 {
					r.Count("send.sender-residue-0")
				}
				if op.B%255 == 0 {
					r.Count("send.receiver-residue-0")
				}
				if op.A%255 == 254 || op.B%255 == 254 {
					r.Count("send.residue-254")
				}
				if op.A > 1<<40 || op.B > 1<<40 {
					r.Count("send.huge-id")
				}
				if op.Mode != "" {
					r.Count("send.by-" + op.Mode)
				}
			}
		}
		if i < 2 {
			r.Sample(map[string]interface{}{"kind": "K5 constant pool", "scenario": sc, "forced_overtakes": o.overtakes})
		}
		report(sc, o, true)
		if len(r.Disagreements) > 0 {
			return
		}
	}
	// 3. pool changes in mid-stream (join / link loss): correspondence of the pool order and link choice;
	//    re-orderings across a pool change are the listed finding, anything else is a violation
	m := c.N(500, 12000)
	for i := 0; i < m; i++ {
		sc := c13gen(c.Rng, true, false)
		o := c13run(c, sc)
		r.Case(fmt.Sprint(sc), o.overtakes > 0)
		r.Count("pool-change-scenarios")
		for _, op := range sc.Ops {
			if op.Kind == "join" || op.Kind == "drop" {
				r.Count("op." + op.Kind)
			}
		}
		report(sc, o, false)
		if len(r.Disagreements) > 0 {
			return
		}
	}
}

type c13Witness struct {
	name string
	sig  string
	sc   c13Scenario
}

func c13Witnesses() []c13Witness {
	send := func(a, b uint64) c13Op { return c13Op{Kind: "send", A: a, B: b, Keep: true} }
	rel := func(l, n int) c13Op { return c13Op{Kind: "release", L: l, N: n} }
	rrev := c13Op{Kind: "rrev"} // newest link first: the most adversarial delivery order
	return []c13Witness{
		// D13 (repaired by 02d55f9) sender side: id 1020 = 4*255 had order byte 0 -> round robin over 3 links
		{"D13-sender-1020-pool3", c13SigOrder, c13Scenario{Pool: 3, Ops: []c13Op{
			send(1020, 1005), send(1020, 1005), send(1020, 1005), send(1020, 1005), send(1020, 1005), send(1020, 1005), rrev}}},
		// D13 receiver side: id 1020 had wire byte 0 -> the frames of ONE link were spread over the receive queues;
		// the worker of the first frame's queue is slow
		{"D13-receiver-1020", c13SigOrder, c13Scenario{Pool: 1, Stall: true, Hold: []int64{0}, Ops: []c13Op{
			send(1001, 1020), send(1001, 1020), send(1001, 1020), rel(0, 9)}}},
		// pool change (listed finding F2): three senders with consecutive order bytes; a join changes order % len(pool)
		{"pool-join-renumbers", c13SigPool, c13Scenario{Pool: 2, Ops: []c13Op{
			send(1021, 1005), send(1022, 1005), send(1023, 1005), {Kind: "join"}, send(1021, 1005), send(1022, 1005), send(1023, 1005), rrev}}},
		// link loss: pool[i] = pool[0]; pool = pool[1:] renumbers the links
		{"pool-drop-renumbers", c13SigPool, c13Scenario{Pool: 3, Ops: []c13Op{
			send(1021, 1005), send(1022, 1005), send(1023, 1005), {Kind: "drop", L: 0}, send(1021, 1005), send(1022, 1005), send(1023, 1005), rrev}}},
	}
}

import ErgoVerif.Lemmas.EdfDecGood
namespace ErgoVerif.Edf
open ErgoVerif.Generated.Edt

mutual
/-- what a decoded value has to satisfy besides being decoded: it lies outside the zero-width defect region and the
    descriptors of its dynamic types fit the 16-bit length field when encoded again -/
def Side (o : Opts) : Ty → Val → Prop
  | .any, .any t v => (encTy o t).length < 65536 ∧ Side o t v
  | .slice t, .list vs => (t.nz = true ∨ vs.length = 0) ∧ Sides o t vs
  | .array n t, .list vs => (t.nz = true ∨ n = 0) ∧ Sides o t vs
  | .map k v, .map ps => (k.nz = true ∨ v.nz = true ∨ ps.length = 0) ∧ Sidep o k v ps
  | .named _ (.slice t), .list vs => (t.nz = true ∨ vs.length = 0) ∧ Sides o t vs
  | .named _ (.array n t), .list vs => (t.nz = true ∨ n = 0) ∧ Sides o t vs
  | .named _ (.map k v), .map ps => (k.nz = true ∨ v.nz = true ∨ ps.length = 0) ∧ Sidep o k v ps
  | .struct _ fs, .list vs => Sidef o fs vs
  | _, _ => True
def Sides (o : Opts) : Ty → Vals → Prop
  | _, .nil => True
  | t, .cons v vs => Side o t v ∧ Sides o t vs
def Sidep (o : Opts) : Ty → Ty → Pairs → Prop
  | _, _, .nil => True
  | kt, vt, .cons k v ps => Side o kt k ∧ Side o vt v ∧ Sidep o kt vt ps
def Sidef (o : Opts) : Tys → Vals → Prop
  | .cons t ts, .cons v vs => Side o t v ∧ Sidef o ts vs
  | _, _ => True
end

theorem readAtom_good (o : Opts) (hd : DecGoodOK o) (bs a r : Bytes) (h : readAtom o bs = .ok (a, r)) : AtomOK o a := by
  unfold readAtom at h
  simp only [lenLt_eq, decide_eq_true_eq] at h
  split at h
  · simp at h
  · rename_i id r0 h16
    split at h
    · split at h
      · rename_i a0 ha
        simp at h; obtain ⟨rfl, rfl⟩ := h
        exact hd.atomCached _ _ ha
      · simp at h
    · rename_i hid
      split at h
      · simp at h
      · simp at h; obtain ⟨rfl, rfl⟩ := h
        simp only [limAtomIdDec] at hid
        exact hd.atomInline _ (by simp; omega)

theorem decLeaf_good (o : Opts) (hd : DecGoodOK o) (t : Ty) (bs : Bytes) (v : Val) (r : Bytes)
    (h : decLeaf o t bs = .ok (v, r)) : LeafGood o t v := by
  cases t <;> simp only [decLeaf, lenLt_eq, decide_eq_true_eq] at h
  case bool => cases bs <;> simp at h; obtain ⟨rfl, rfl⟩ := h; simp [LeafGood]
  case num p =>
    split at h <;> simp at h
    obtain ⟨rfl, rfl⟩ := h
    simp [LeafGood, numCanon_idem]
  case str => split at h <;> (try split at h) <;> simp at h; obtain ⟨rfl, rfl⟩ := h; simp [LeafGood]
  case bin => split at h <;> (try split at h) <;> simp at h; obtain ⟨rfl, rfl⟩ := h; simp [LeafGood]
  case atom =>
    split at h <;> simp at h
    rename_i a r0 ha
    obtain ⟨rfl, rfl⟩ := h
    simpa [LeafGood] using readAtom_good o hd _ _ _ ha
  case idr k =>
    split at h
    · rename_i a r0 ha
      split at h <;> simp at h
      obtain ⟨rfl, rfl⟩ := h
      simpa [LeafGood] using readAtom_good o hd _ _ _ ha
    · simp at h
    · simp at h
  case idn k =>
    split at h
    · rename_i a r0 ha
      split at h
      · rename_i b r1 hb
        simp at h
        obtain ⟨rfl, rfl⟩ := h
        simpa [LeafGood] using ⟨readAtom_good o hd _ _ _ ha, readAtom_good o hd _ _ _ hb⟩
      · simp at h
      · simp at h
    · simp at h
    · simp at h
  case time =>
    cases bs with
    | nil => simp at h
    | cons l r0 =>
      simp only at h
      split at h; · simp at h
      split at h <;> simp at h
      obtain ⟨rfl, rfl⟩ := h
      simp [LeafGood]
  case error =>
    split at h; · simp at h
    split at h
    · simp at h; obtain ⟨rfl, rfl⟩ := h; simp [LeafGood]
    · split at h
      · split at h
        · rename_i e he
          simp at h; obtain ⟨rfl, rfl⟩ := h
          exact hd.err _ _ he
        · simp at h
      · split at h <;> simp at h
        obtain ⟨rfl, rfl⟩ := h
        simp [LeafGood]
  all_goals (simp at h)

theorem iterV_good (o : Opts) (t : Ty) (g : Bytes → Res (Val × Bytes))
    (hg : ∀ bs v r, g bs = .ok (v, r) → Side o t v → Good o t v) :
    ∀ n bs vs r, iterV g n bs = .ok (vs, r) → Sides o t vs → Goods o t vs ∧ vs.length = n
  | 0, bs, vs, r, h, _ => by
    simp [iterV] at h; obtain ⟨rfl, rfl⟩ := h
    simp [Goods, Vals.length]
  | n+1, bs, vs, r, h, hs => by
    simp only [iterV] at h
    split at h
    · rename_i v r1 hv
      split at h
      · rename_i vs' r2 hvs
        simp at h; obtain ⟨rfl, rfl⟩ := h
        simp only [Sides] at hs
        obtain ⟨a, b⟩ := iterV_good o t g hg n _ _ _ hvs hs.2
        exact ⟨by simp only [Goods]; exact ⟨hg _ _ _ hv hs.1, a⟩, by simp [Vals.length, b]⟩
      · simp at h
      · simp at h
    · simp at h
    · simp at h

theorem iterF_good (o : Opts) (g : Ty → Bytes → Res (Val × Bytes))
    (hg : ∀ t bs v r, g t bs = .ok (v, r) → Side o t v → Good o t v) :
    ∀ (fs : Tys) bs vs r, iterF g fs bs = .ok (vs, r) → Sidef o fs vs → Goodf o fs vs
  | .nil, bs, vs, r, h, _ => by
    simp [iterF] at h; obtain ⟨rfl, rfl⟩ := h
    simp [Goodf]
  | .cons t ts, bs, vs, r, h, hs => by
    simp only [iterF] at h
    split at h
    · rename_i v r1 hv
      split at h
      · rename_i vs' r2 hvs
        simp at h; obtain ⟨rfl, rfl⟩ := h
        simp only [Sidef] at hs
        simp only [Goodf]
        exact ⟨hg _ _ _ _ hv hs.1, iterF_good o g hg ts _ _ _ hvs hs.2⟩
      · simp at h
      · simp at h
    · simp at h
    · simp at h

def Pairs.All (P : Val → Val → Prop) : Pairs → Prop
  | .nil => True
  | .cons k v ps => P k v ∧ Pairs.All P ps

theorem Pairs.insert_all (P : Val → Val → Prop) (k v : Val) (hp : P k v) :
    ∀ (acc : Pairs), Pairs.All P acc → Pairs.All P (acc.insert k v)
  | .nil, _ => by simp [Pairs.insert, Pairs.All, hp]
  | .cons k' v' ps, h => by
    simp only [Pairs.insert]
    split
    · rename_i he; subst he
      exact ⟨hp, h.2⟩
    · exact ⟨h.1, Pairs.insert_all P k v hp ps h.2⟩

theorem iterP_good (o : Opts) (kt vt : Ty) (gk gv : Bytes → Res (Val × Bytes))
    (hk : ∀ bs v r, gk bs = .ok (v, r) → Side o kt v → Good o kt v)
    (hv : ∀ bs v r, gv bs = .ok (v, r) → Side o vt v → Good o vt v) :
    ∀ n acc bs ps r, iterP gk gv n acc bs = .ok (ps, r) →
      Pairs.All (fun k v => (Side o kt k → Good o kt k) ∧ (Side o vt v → Good o vt v)) acc → Pairs.Distinct acc →
      Pairs.All (fun k v => (Side o kt k → Good o kt k) ∧ (Side o vt v → Good o vt v)) ps ∧ Pairs.Distinct ps
  | 0, acc, bs, ps, r, h, ha, hd => by
    simp [iterP] at h; obtain ⟨rfl, rfl⟩ := h
    exact ⟨ha, hd⟩
  | n+1, acc, bs, ps, r, h, ha, hd => by
    simp only [iterP] at h
    split at h
    · rename_i k r1 hkk
      split at h
      · rename_i v r2 hvv
        split at h
        · rename_i hh
          exact iterP_good o kt vt gk gv hk hv n _ _ _ _ h
            (Pairs.insert_all _ k v ⟨hk _ _ _ hkk, hv _ _ _ hvv⟩ acc ha) (Pairs.insert_distinct acc k v hh hd)
        · simp at h
      · simp at h
      · simp at h
    · simp at h
    · simp at h

theorem Goodp_of_all (o : Opts) (kt vt : Ty) : ∀ (ps : Pairs),
    Pairs.All (fun k v => (Side o kt k → Good o kt k) ∧ (Side o vt v → Good o vt v)) ps → Sidep o kt vt ps → Goodp o kt vt ps
  | .nil, _, _ => by simp [Goodp]
  | .cons k v ps, ha, hs => by
    simp only [Sidep] at hs
    simp only [Goodp]
    exact ⟨ha.1.1 hs.1, ha.1.2 hs.2.1, Goodp_of_all o kt vt ps ha.2 hs.2.2⟩

theorem KeysOK_of_distinct (ps : Pairs) (h : Pairs.Distinct ps) : Pairs.KeysOK .nil ps :=
  (Pairs.KeysOK_iff ps .nil).2 ⟨by simp [Pairs.hasKey], h⟩
end ErgoVerif.Edf

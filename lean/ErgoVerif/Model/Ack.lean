/-
Model of the acknowledgement of an important delivery / failed important call:

  net/proto/connection.go  handleRecvQueue, cases MessagePID / MessageName* / MessageAlias:
        err = c.core.RouteSend*(…); if important && node_flags.EnableImportantDelivery { SendResponseError(to, from, ref, err) }
      cases RequestPID / RequestName* / RequestAlias: the same, but only when err != nil
  net/proto/connection.go  SendResponseError: `switch err` → one code byte (+ EDF-encoded error for any other error)
  net/proto/connection.go  handleRecvQueue, case MessageResponseError: code byte → error → RouteSendResponseError
  node/process.go          SendImportant*/waitResponse: returns the error carried by the response with the same reference

The two code tables are extracted from the two switch statements (Generated.Proto.errCodeW / errCodeR).
The EDF coding of an arbitrary error is abstract (`encE`/`decE`) with the round trip as a hypothesis.
-/
import ErgoVerif.Generated.Proto
namespace ErgoVerif.Ack
open ErgoVerif.Generated.Proto

abbrev Bytes := List UInt8

/-- result of the remote Route* call -/
inductive RErr
  | ok                       -- nil
  | named (n : String)       -- one of the errors that have a code of their own (by Go identifier)
  | other (text : Bytes)     -- any other error
deriving Repr, DecidableEq

def codeOf (n : String) : Option Nat := (errCodeW.find? (·.1 = n)).map (·.2)
def nameOf (c : Nat) : Option String := (errCodeR.find? (·.1 = c)).map (·.2)

/-- SendResponseError: code byte and what follows it -/
def encodeAck (encE : Bytes → Bytes) : RErr → Option (Nat × Bytes)
  | .ok => (codeOf "nil").map (·, [])
  | .named n => if n = "nil" ∨ n = "default" then none else (codeOf n).map (·, [])
  | .other t => (codeOf "default").map (·, encE t)

/-- receive case MessageResponseError -/
def decodeAck (decE : Bytes → Option Bytes) (code : Nat) (rest : Bytes) : Option RErr :=
  match nameOf code with
  | none => none                         -- "received incorrect response error id"
  | some "nil" => some .ok
  | some "decode" => (decE rest).map .other
  | some n => some (.named n)

/-- what the sender of an important message observes -/
inductive Outcome
  | unsupported              -- refused locally: the peer does not support important delivery
  | result (r : RErr)        -- the acknowledgement arrived: the remote result
  | noAck                    -- nothing comes back (the caller runs into its time-out / waits for the normal reply)
deriving Repr, DecidableEq

/-- important Send*: the receiver acknowledges every important message when its node flag is on -/
def importantSend (encE : Bytes → Bytes) (decE : Bytes → Option Bytes) (peerFlag nodeFlag : Bool) (remote : RErr) : Outcome :=
  if !peerFlag then .unsupported
  else if !nodeFlag then .noAck
  else match encodeAck encE remote with
    | none => .noAck
    | some (c, rest) => match decodeAck decE c rest with
      | some r => .result r
      | none => .noAck

/-- important Call*: only a failure is acknowledged (success is followed by the normal response) -/
def importantCall (encE : Bytes → Bytes) (decE : Bytes → Option Bytes) (peerFlag nodeFlag : Bool) (remote : RErr) : Outcome :=
  if !peerFlag then .unsupported
  else if remote = .ok then .noAck
  else importantSend encE decE peerFlag nodeFlag remote

end ErgoVerif.Ack
